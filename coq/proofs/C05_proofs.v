(* C05_proofs.v — OverlappingFieldsCanBeMerged: lemmas for properties/C05.v.
   Components (arguments, type conflict, collected field map): C05_base_proofs.v.
   The memoised search on one selection set without named spreads: C05_merge_proofs.v.
   Here: the rule on whole documents without named fragment spreads. *)
From GT Require Import Visitor Validate Merge.
From GTS Require Import SpecLin Annot WfSchema SpecCollect SpecRules SpecMerge SpecValid.
From GTP Require Import VisitorFacts TraceFacts RuleFacts EventFacts.
From GTP Require Export C05_base_proofs C05_merge_proofs.

(* ------------------------------------------------------------------ no spreads: no cycles *)
Lemma spreads_in_flat_map {A} (g : A -> list selection) l :
  spreads_in (flat_map g l) = flat_map (fun x => spreads_in (g x)) l.
Proof. induction l as [|x r IH]; cbn [flat_map]; [reflexivity|]. rewrite spreads_in_app, IH. reflexivity. Qed.

Lemma flat_map_nil_each {A B} (f : A -> list B) l x : flat_map f l = [] -> In x l -> f x = [].
Proof.
  induction l as [|y r IH]; cbn [flat_map]; intros H Hin; [destruct Hin|].
  apply app_eq_nil in H. destruct H as [H1 H2]. destruct Hin as [->|Hin]; [exact H1|exact (IH H2 Hin)].
Qed.

Lemma spread_closure_nil k d : spread_closure k d [] = [].
Proof. induction k as [|k IH]; [reflexivity|]. cbn [spread_closure flat_map app dedup_names]. exact IH. Qed.

Lemma flat_map_nil_in {A B} (f : A -> list B) l : (forall x, In x l -> f x = []) -> flat_map f l = [].
Proof.
  induction l as [|y r IH]; intro H; cbn [flat_map]; [reflexivity|].
  rewrite (H y (or_introl eq_refl)), IH; [reflexivity|]. intros x Hx. apply H. right. exact Hx.
Qed.

Lemma no_cycles_sf d : spreads_in (flat_map def_sels d) = [] -> v_no_fragment_cycles d = false.
Proof.
  intro H. rewrite spreads_in_flat_map in H. unfold v_no_fragment_cycles.
  apply not_true_is_false. intro Hex. apply existsb_exists in Hex. destruct Hex as [n [_ Hn]].
  assert (E : fragment_spreads d n = []).
  { unfold fragment_spreads. apply flat_map_nil_in. intros f Hf.
    destruct (name_eqb (fr_name f) n); [|reflexivity].
    unfold fragments_of in Hf. apply in_flat_map in Hf. destruct Hf as [x [Hx Hf]].
    destruct x as [o|g]; [destruct Hf|]. destruct Hf as [<-|[]].
    exact (flat_map_nil_each _ d (DFrag g) H Hx). }
  rewrite E in Hn. cbn [dedup_names] in Hn. rewrite spread_closure_nil in Hn. discriminate.
Qed.

(* ------------------------------------------------------------------ selection sets of a document *)
Definition pk_selset (n : node) : list (list selection) :=
  match n with NSelectionSet _ ss => [ss] | _ => [] end.

Lemma pk_selset_low n : low_node n = true -> pk_selset n = [].
Proof. destruct n; try discriminate; reflexivity. Qed.

Lemma dirs_pick_selset dirs : dirs_pick pk_selset dirs = [].
Proof. unfold dirs_pick. apply flat_map_nil_in. intros dr _. reflexivity. Qed.

Lemma node_pick_selset y sels : In sels (node_pick pk_selset y) -> sels = sel_sels y.
Proof.
  unfold node_pick. rewrite dirs_pick_selset. cbn [app].
  destruct y; cbn [sel_node pk_selset sel_set_pick app sel_sels]; intro H; try (destruct H as [<-|[]]; reflexivity).
  destruct H.
Qed.

Lemma selset_in_doc d sp sels : In (Enter (NSelectionSet sp sels)) (lin_document d) ->
  exists x, In x d /\ (sels = def_sels x \/ exists y, In y (sels_all (def_sels x)) /\ sels = sel_sels y).
Proof.
  intro H.
  assert (Hp : In sels (flat_map (pick pk_selset) (lin_document d))).
  { apply in_flat_map. exists (Enter (NSelectionSet sp sels)). split; [exact H|left; reflexivity]. }
  rewrite (pick_document pk_selset pk_selset_low) in Hp. cbn [pk_selset app] in Hp.
  apply in_flat_map in Hp. destruct Hp as [x [Hx Hp]]. exists x. split; [exact Hx|].
  destruct x as [o|f]; cbn [def_pick def_sels pk_selset app] in *; rewrite dirs_pick_selset in Hp; cbn [app] in Hp.
  - apply in_app_or in Hp. destruct Hp as [Hp|Hp].
    { apply in_flat_map in Hp. destruct Hp as [v [_ []]]. }
    destruct Hp as [<-|Hp]; [left; reflexivity|]. right.
    apply in_flat_map in Hp. destruct Hp as [y [Hy Hp]]. exists y. split; [exact Hy|apply node_pick_selset, Hp].
  - destruct Hp as [<-|Hp]; [left; reflexivity|]. right.
    apply in_flat_map in Hp. destruct Hp as [y [Hy Hp]]. exists y. split; [exact Hy|apply node_pick_selset, Hp].
Qed.

(* the selections below a selection set of the document form a segment of the document's selections *)
Lemma seg_sel x : forall y, In y (sel_all x) -> exists l1 l3, sel_all x = l1 ++ sels_all (sel_sels y) ++ l3.
Proof.
  induction x as [p al n args dirs sp sels IH|p n dirs|p tc dirs sp sels IH] using selection_ind'; intros y Hy;
    cbn [sel_all] in Hy |- *.
  - destruct Hy as [<-|Hy].
    + exists [SField p al n args dirs sp sels], []. cbn [sel_sels app]. rewrite app_nil_r. reflexivity.
    + apply in_flat_map in Hy. destruct Hy as [z [Hz Hy]]. rewrite Forall_forall in IH.
      destruct (IH z Hz y Hy) as [l1 [l3 E]]. destruct (in_split z sels Hz) as [s1 [s2 ->]].
      exists (SField p al n args dirs sp (s1 ++ z :: s2) :: flat_map sel_all s1 ++ l1), (l3 ++ flat_map sel_all s2).
      rewrite flat_map_app. cbn [flat_map]. rewrite E. cbn [app]. rewrite <- !app_assoc. reflexivity.
  - destruct Hy as [<-|[]]. exists [SSpread p n dirs], []. reflexivity.
  - destruct Hy as [<-|Hy].
    + exists [SInline p tc dirs sp sels], []. cbn [sel_sels app]. rewrite app_nil_r. reflexivity.
    + apply in_flat_map in Hy. destruct Hy as [z [Hz Hy]]. rewrite Forall_forall in IH.
      destruct (IH z Hz y Hy) as [l1 [l3 E]]. destruct (in_split z sels Hz) as [s1 [s2 ->]].
      exists (SInline p tc dirs sp (s1 ++ z :: s2) :: flat_map sel_all s1 ++ l1), (l3 ++ flat_map sel_all s2).
      rewrite flat_map_app. cbn [flat_map]. rewrite E. cbn [app]. rewrite <- !app_assoc. reflexivity.
Qed.

Lemma seg_sels L y : In y (sels_all L) -> exists l1 l3, sels_all L = l1 ++ sels_all (sel_sels y) ++ l3.
Proof.
  unfold sels_all at 1 2. intro Hy. apply in_flat_map in Hy. destruct Hy as [z [Hz Hy]].
  destruct (seg_sel z y Hy) as [l1 [l3 E]]. destruct (in_split z L Hz) as [s1 [s2 ->]].
  exists (flat_map sel_all s1 ++ l1), (l3 ++ flat_map sel_all s2).
  rewrite flat_map_app. cbn [flat_map]. rewrite E. rewrite <- !app_assoc. reflexivity.
Qed.

Lemma seg_doc d x : In x d -> exists l1 l3, doc_selections d = l1 ++ sels_all (def_sels x) ++ l3.
Proof.
  intro Hx. destruct (in_split x d Hx) as [d1 [d2 ->]]. unfold doc_selections.
  exists (flat_map (fun x => sels_all (def_sels x)) d1), (flat_map (fun x => sels_all (def_sels x)) d2).
  rewrite flat_map_app. reflexivity.
Qed.

Lemma seg_selset d sp sels : In (Enter (NSelectionSet sp sels)) (lin_document d) ->
  exists l1 l3, doc_selections d = l1 ++ sels_all sels ++ l3.
Proof.
  intro H. destruct (selset_in_doc d sp sels H) as [x [Hx [->|[y [Hy ->]]]]].
  - apply seg_doc, Hx.
  - destruct (seg_doc d x Hx) as [a [b E]]. destruct (seg_sels _ y Hy) as [l1 [l3 E2]].
    exists (a ++ l1), (l3 ++ b). rewrite E, E2, <- !app_assoc. reflexivity.
Qed.

(* ------------------------------------------------------------------ counting *)
Definition cnt (l : list selection) : nat := fold_left (fun n y => n + count_fields y) l 0.

Lemma fold_sum {A} (f : A -> nat) l a : fold_left (fun n y => n + f y) l a = a + fold_left (fun n y => n + f y) l 0.
Proof.
  revert a. induction l as [|x r IH]; intro a; cbn [fold_left]; [lia|]. rewrite IH, (IH (0 + f x)). lia.
Qed.

Lemma fold_sum_In {A} (f : A -> nat) l x : In x l -> f x <= fold_left (fun n y => n + f y) l 0.
Proof.
  induction l as [|y r IH]; intro H; [destruct H|]. cbn [fold_left]. rewrite fold_sum.
  destruct H as [->|H]; [lia|]. specialize (IH H). lia.
Qed.

Lemma cnt_cons y r : cnt (y :: r) = count_fields y + cnt r.
Proof. unfold cnt. cbn [fold_left]. rewrite fold_sum. lia. Qed.

Lemma cnt_app a b : cnt (a ++ b) = cnt a + cnt b.
Proof. induction a as [|y r IH]; [reflexivity|]. cbn [app]. rewrite !cnt_cons, IH. lia. Qed.

Lemma count_fields_sels x : is_field x = true -> count_fields x = S (cnt (sel_sels x)).
Proof. destruct x; try discriminate. reflexivity. Qed.

Lemma list_max_cons a l : list_max (a :: l) = Nat.max a (list_max l).
Proof. reflexivity. Qed.

Lemma sd_le_count x : sd x <= count_fields x.
Proof.
  induction x as [p al n args dirs sp sels IH|p n dirs|p tc dirs sp sels IH] using selection_ind'.
  - cbn [sd count_fields]. fold (cnt sels). apply le_n_S.
    induction IH as [|y r Hy Hr IHr]; [apply le_n|]. cbn [map]. rewrite list_max_cons, cnt_cons. lia.
  - apply le_n.
  - cbn [sd count_fields]. fold (cnt sels).
    induction IH as [|y r Hy Hr IHr]; [apply le_n|]. cbn [map]. rewrite list_max_cons, cnt_cons. lia.
Qed.

Lemma maxd_le_cnt l : maxd l <= cnt l.
Proof.
  induction l as [|y r IH]; [apply le_n|]. unfold maxd in *. cbn [map]. rewrite list_max_cons, cnt_cons.
  pose proof (sd_le_count y). lia.
Qed.

Lemma cnt_sel_sels x : cnt (sel_sels x) <= count_fields x.
Proof. destruct x; cbn [sel_sels count_fields]; fold (cnt sels) || idtac; try (unfold cnt; cbn; lia); apply le_n. Qed.

Lemma cnt_In x l : In x l -> count_fields x <= cnt l.
Proof. apply (fold_sum_In count_fields). Qed.

Lemma cnt_below x : forall y, In y (sel_all x) -> cnt (sel_sels y) <= count_fields x.
Proof.
  induction x as [p al n args dirs sp sels IH|p n dirs|p tc dirs sp sels IH] using selection_ind'; intros y Hy;
    cbn [sel_all] in Hy.
  - destruct Hy as [<-|Hy]; [apply cnt_sel_sels|].
    apply in_flat_map in Hy. destruct Hy as [z [Hz Hy]]. rewrite Forall_forall in IH.
    specialize (IH z Hz y Hy). pose proof (cnt_In z sels Hz). cbn [count_fields]. fold (cnt sels). lia.
  - destruct Hy as [<-|[]]. apply cnt_sel_sels.
  - destruct Hy as [<-|Hy]; [apply cnt_sel_sels|].
    apply in_flat_map in Hy. destruct Hy as [z [Hz Hy]]. rewrite Forall_forall in IH.
    specialize (IH z Hz y Hy). pose proof (cnt_In z sels Hz). cbn [count_fields]. fold (cnt sels). lia.
Qed.

Lemma cnt_below_sels L y : In y (sels_all L) -> cnt (sel_sels y) <= cnt L.
Proof.
  intro Hy. unfold sels_all in Hy. apply in_flat_map in Hy. destruct Hy as [z [Hz Hy]].
  pose proof (cnt_below z y Hy). pose proof (cnt_In z L Hz). lia.
Qed.

Lemma doc_fields_def d x : In x d -> cnt (def_sels x) <= doc_fields d.
Proof.
  intro Hx. unfold doc_fields.
  apply (fold_sum_In (fun x => match x with
                               | DOp o => fold_left (fun n y => n + count_fields y) (o_sels o) 0
                               | DFrag f => fold_left (fun n y => n + count_fields y) (fr_sels f) 0
                               end) d x) in Hx.
  destruct x; exact Hx.
Qed.

Lemma selset_depth d sp sels : In (Enter (NSelectionSet sp sels)) (lin_document d) -> maxd sels <= doc_fields d.
Proof.
  intro H. destruct (selset_in_doc d sp sels H) as [x [Hx [->|[y [Hy ->]]]]].
  - pose proof (maxd_le_cnt (def_sels x)). pose proof (doc_fields_def d x Hx). lia.
  - pose proof (maxd_le_cnt (sel_sels y)). pose proof (cnt_below_sels _ y Hy). pose proof (doc_fields_def d x Hx). lia.
Qed.

(* ------------------------------------------------------------------ hereditary hypotheses *)
Lemma args_ok_of x :
  (forall y, In y (sel_all x) -> is_field y = true -> nodup_names (map fst (sel_args y)) = true) -> args_ok x = true.
Proof.
  induction x as [p al n args dirs sp sels IH|p n dirs|p tc dirs sp sels IH] using selection_ind'; intro H;
    cbn [args_ok].
  - apply andb_true_intro. split.
    + apply (H (SField p al n args dirs sp sels)); [left; reflexivity|reflexivity].
    + apply forallb_forall. intros z Hz. rewrite Forall_forall in IH. apply (IH z Hz).
      intros y Hy. apply H. cbn [sel_all]. right. apply in_flat_map. exists z. split; assumption.
  - reflexivity.
  - apply forallb_forall. intros z Hz. rewrite Forall_forall in IH. apply (IH z Hz).
    intros y Hy. apply H. cbn [sel_all]. right. apply in_flat_map. exists z. split; assumption.
Qed.

Lemma args_ok_of_sels L :
  (forall y, In y (sels_all L) -> is_field y = true -> nodup_names (map fst (sel_args y)) = true) ->
  forallb args_ok L = true.
Proof.
  intro H. apply forallb_forall. intros z Hz. apply args_ok_of. intros y Hy. apply H.
  unfold sels_all. apply in_flat_map. exists z. split; assumption.
Qed.

Lemma doc_selections_all d : sels_all (flat_map def_sels d) = doc_selections d.
Proof. unfold sels_all, doc_selections. apply flat_map_flat_map'. Qed.

Section Doc.
  Variables (s : sdocument) (d : document).
  Hypothesis Hwf : wf_schema s = true.
  Hypothesis Hsf : spreads_in (flat_map def_sels d) = [].
  Hypothesis Hnd : NoDup (map node_pos (filter (fun x => match x with SField _ _ _ _ _ _ _ => true | _ => false end)
                                               (doc_selections d))).
  Hypothesis Hargs : negb (violated R_UniqueArgumentNames s d) = true.

  Lemma doc_args_ok y : In y (doc_selections d) -> is_field y = true -> nodup_names (map fst (sel_args y)) = true.
  Proof.
    intros Hy Fy. cbn [violated] in Hargs. apply negb_true_iff in Hargs. unfold v_unique_argument_names in Hargs.
    apply orb_false_elim in Hargs. destruct Hargs as [H1 _].
    assert (Hin : In y (map fst (field_events s d))).
    { rewrite (field_events_selections s d (wf_query_entry_ok s Hwf)). apply filter_In. split; [exact Hy|exact Fy]. }
    apply in_map_iff in Hin. destruct Hin as [fe [<- Hfe]].
    assert (Hf : v_args_duplicated (sel_args (fst fe)) = false).
    { apply not_true_is_false. intro Ht. assert (Hex : existsb (fun fe : selection * env => v_args_duplicated (sel_args (fst fe))) (field_events s d) = true).
      { apply existsb_exists. exists fe. split; [exact Hfe|exact Ht]. }
      rewrite Hex in H1. discriminate. }
    unfold v_args_duplicated in Hf. apply negb_false_iff in Hf. exact Hf.
  Qed.

  Lemma selset_props sp sels : In (Enter (NSelectionSet sp sels)) (lin_document d) ->
    sf_sels sels = true /\ NoDup (DS sels) /\ forallb args_ok sels = true /\ maxd sels <= doc_fields d.
  Proof.
    intro H. destruct (seg_selset d sp sels H) as [l1 [l3 E]].
    split; [|split; [|split]].
    - apply sf_sels_of_spreads. unfold spreads_in in Hsf |- *. rewrite doc_selections_all, E in Hsf.
      rewrite !flat_map_app in Hsf. apply app_eq_nil in Hsf. destruct Hsf as [_ Hsf'].
      apply app_eq_nil in Hsf'. apply Hsf'.
    - rewrite E in Hnd. rewrite !filter_app, !map_app in Hnd. apply NoDup_segment in Hnd. exact Hnd.
    - apply args_ok_of_sels. intros y Hy Fy. apply doc_args_ok; [|exact Fy].
      rewrite E. apply in_or_app. right. apply in_or_app. left. exact Hy.
    - apply (selset_depth d sp sels H).
  Qed.

  (* ---------------------------------------------------------------- the walk *)
  Definition set_out (e : event) (c : ctx) : list verror :=
    match e with
    | Enter (NSelectionSet _ sels) =>
        match mrun (merge_fuel d) s d (CWithinSelectionSet (current_parent_type c) sels) (mkMS [] [] []) with
        | Some (ms, cs) => map (fun cf : conflict => err R_OverlappingFieldsCanBeMerged (fst cf ++ snd cf)) cs
        | None => []
        end
    | _ => []
    end.
  Definition set_good (e : event) (c : ctx) : Prop :=
    match e with
    | Enter (NSelectionSet _ sels) =>
        exists ms cs, mrun (merge_fuel d) s d (CWithinSelectionSet (current_parent_type c) sels) (mkMS [] [] [])
                      = Some (ms, cs) /\ ms_compared ms = []
    | _ => True
    end.

  Lemma ofm_fold tr : forall errs, (forall ec, In ec tr -> set_good (fst ec) (snd ec)) ->
    fold_left (hh (ofm_step s d)) tr (mkOfm [] (mkRes errs false))
    = mkOfm [] (mkRes (errs ++ flat_map (fun ec => set_out (fst ec) (snd ec)) tr) false).
  Proof.
    induction tr as [|[e c] r IH]; intros errs Hg; cbn [fold_left flat_map].
    - rewrite app_nil_r. reflexivity.
    - pose proof (Hg (e, c) (or_introl eq_refl)) as Hec. cbn [fst snd] in Hec.
      assert (Hr : forall ec, In ec r -> set_good (fst ec) (snd ec)) by (intros ec Hin; apply Hg; right; exact Hin).
      unfold hh at 2. cbn [fst snd].
      destruct e as [n|n]; [destruct n|]; cbn [ofm_step ofm_step_with set_out app]; try apply (IH errs Hr).
      cbn [set_good] in Hec. destruct Hec as [ms [cs [E Hc]]].
      cbn [ofm_compared ofm_res r_errors r_oof]. rewrite E, Hc. rewrite (IH _ Hr), app_assoc. reflexivity.
  Qed.

  Definition set_spec (e : event) (a : answers) : bool :=
    match e with
    | Enter (NSelectionSet _ sels) => negb (fields_in_set_can_merge s d (collected s d (a_parent a) sels))
    | _ => false
    end.

  Lemma event_ok e c : In (e, c) (ctr_document s d ctx0) ->
    set_good e c /\
    negb (match set_out e c with [] => true | _ => false end) = set_spec e (answers_of c).
  Proof.
    intro Hin.
    assert (He : In e (lin_document d)).
    { rewrite <- (ctr_document_events s d ctx0). apply in_map_iff. exists (e, c). split; [reflexivity|exact Hin]. }
    destruct e as [n|n]; [destruct n|]; try (split; [exact I|reflexivity]).
    destruct (selset_props sp items He) as [H1 [H2 [H3 H4]]].
    destruct (within_set_ok s d (current_parent_type c) items H1 H2 H3 H4) as [ms [cs [E [Hc N]]]].
    split.
    - exists ms, cs. split; assumption.
    - cbn [set_out set_spec]. rewrite E. change (a_parent (answers_of c)) with (current_parent_type c).
      rewrite <- N. destruct cs; reflexivity.
  Qed.

  Lemma merge_spreadfree_doc :
    run_alone R_OverlappingFieldsCanBeMerged s d <> [] <-> violated R_OverlappingFieldsCanBeMerged s d = true.
  Proof.
    unfold run_alone. cbn [run_rule violated]. rewrite visit_fold. cbn [snd].
    rewrite (ofm_fold (ctr_document s d ctx0) []) by (intros [e c] Hin; apply (event_ok e c Hin)).
    cbn [ofm_res r_errors app].
    rewrite (no_cycles_sf d Hsf). cbn [negb andb].
    rewrite flat_map_nonempty_existsb.
    rewrite (existsb_ext_in' _ (fun ec : event * ctx => set_spec (fst ec) (answers_of (snd ec))))
      by (intros [e c] Hin; apply (event_ok e c Hin)).
    rewrite (existsb_ctr_annot s d (wf_query_entry_ok s Hwf) set_spec).
    unfold v_overlapping_fields, selection_sets. rewrite existsb_flat_map'.
    rewrite (existsb_ext_in' _ (fun ea : aev =>
               existsb (fun ps : option type_def * list selection =>
                          negb (fields_in_set_can_merge s d (collected s d (fst ps) (snd ps))))
                       match fst ea with
                       | Enter (NSelectionSet _ sels) => [(a_parent (snd ea), sels)]
                       | _ => []
                       end)); [reflexivity|].
    intros [e a] _. cbn [fst snd]. destruct e as [n|n]; [destruct n|]; cbn [set_spec existsb fst snd]; try reflexivity.
    rewrite orb_false_r. reflexivity.
  Qed.
End Doc.

Lemma merge_spreadfree_iff : forall s d,
  wf_schema s = true -> spreads_in (flat_map def_sels d) = [] ->
  NoDup (map node_pos (filter (fun x => match x with SField _ _ _ _ _ _ _ => true | _ => false end) (doc_selections d))) ->
  negb (violated R_UniqueArgumentNames s d) = true ->
  (run_alone R_OverlappingFieldsCanBeMerged s d <> [] <-> violated R_OverlappingFieldsCanBeMerged s d = true).
Proof. exact merge_spreadfree_doc. Qed.

(* C20_invariance_proofs.v — "unknown extra members and the order of members do not matter":
   [decode_query] gives the same result on two trees that have, at every position read as a struct
   (or tagged enum, or type reference), the same KNOWN members up to order, with similar values.
   The relation is typed by the descriptions [jty] of proofs/C20_shape_proofs.v because what is a
   known member depends on what the object is read as, and because a default value (read as a
   serde_json::Value, kept as a JSON tree by the model) is NOT read up to member order by the
   model: see [value_order_matters] below. *)
From GT Require Import Json Introspection.
From GTS Require Import SpecIntrospection.
From GTP Require Import C20_proofs C20_shape_proofs.
From Coq Require Import Lia Permutation.
Local Open Scope string_scope.

(* ================================================================ the relation *)
Definition known (ks : list string) (kv : string * json) : bool := mem_string (fst kv) ks.

(* the members with a key in ks are the same up to order, with values related by R (per key) *)
Definition entries_sim (ks : list string) (R : string -> json -> json -> Prop)
           (es es' : list (string * json)) : Prop :=
  exists es1, Permutation (filter (known ks) es) es1 /\
              Forall2 (fun a b => fst a = fst b /\ R (fst a) (snd a) (snd b)) es1 (filter (known ks) es').

(* positional form: element by element *)
Inductive pos_sim (R : jty -> json -> json -> Prop) : members -> list json -> list json -> Prop :=
| ps_nil : pos_sim R [] [] []
| ps_cons k pr t ms v v' l l' :
    R t v v' -> pos_sim R ms l l' -> pos_sim R ((k, (pr, t)) :: ms) (v :: l) (v' :: l').

Inductive jsim : jty -> json -> json -> Prop :=
| sim_refl t j : jsim t j j
| sim_vec t l l' : Forall2 (jsim t) l l' -> jsim (JTVec t) (JArr l) (JArr l')
| sim_struct ms es es' :
    entries_sim (map fst ms) (fun k v v' => forall pr t, In (k, (pr, t)) ms -> jsim t v v') es es' ->
    jsim (JTStruct ms) (JObj es) (JObj es')
| sim_struct_pos ms l l' : pos_sim jsim ms l l' -> jsim (JTStruct ms) (JArr l) (JArr l')
| sim_enum b vs es es' tj tag ms :
    member "kind" es = Some tj -> tag_name b (map fst vs) tj = Some tag ->
    variant_members vs tag = Some ms ->
    entries_sim ("kind" :: map fst ms)
                (fun k v v' => (k = "kind" -> v = v') /\ forall pr t, In (k, (pr, t)) ms -> jsim t v v') es es' ->
    jsim (JTEnum b vs) (JObj es) (JObj es')
| sim_enum_pos b vs tj tag ms rest rest' :
    tag_name b (map fst vs) tj = Some tag -> variant_members vs tag = Some ms ->
    pos_sim jsim ms rest rest' -> jsim (JTEnum b vs) (JArr (tj :: rest)) (JArr (tj :: rest'))
| sim_ref_wrapper vs b es es' tj tag :
    member "kind" es = Some tj -> tag_name b vs tj = Some tag -> is_wrapper tag = true ->
    entries_sim ["kind"; "ofType"]
                (fun k v v' => (k = "kind" -> v = v') /\ (k = "ofType" -> jsim (JTRef vs true) v v')) es es' ->
    jsim (JTRef vs b) (JObj es) (JObj es')
| sim_ref_named vs b es es' tj tag :
    member "kind" es = Some tj -> tag_name b vs tj = Some tag -> is_wrapper tag = false ->
    entries_sim ["kind"; "name"] (fun _ v v' => v = v') es es' ->
    jsim (JTRef vs b) (JObj es) (JObj es')
| sim_ref_pos vs b tj tag v v' :
    tag_name b vs tj = Some tag -> is_wrapper tag = true ->
    jsim (JTRef vs true) v v' -> jsim (JTRef vs b) (JArr [tj; v]) (JArr [tj; v']).

(* ================================================================ generic facts *)
Lemma Permutation_filter {A} (g : A -> bool) l l' : Permutation l l' -> Permutation (filter g l) (filter g l').
Proof.
  induction 1 as [|x l l' _ IH|x y l|l l' l'' _ IH1 _ IH2]; cbn [filter].
  - constructor.
  - destruct (g x); [constructor|]; exact IH.
  - destruct (g x), (g y); try apply Permutation_refl. apply perm_swap.
  - eapply Permutation_trans; eassumption.
Qed.

Lemma Forall2_filter {A B} (Rel : A -> B -> Prop) (g : A -> bool) (g' : B -> bool) l l' :
  (forall a b, Rel a b -> g a = g' b) -> Forall2 Rel l l' -> Forall2 Rel (filter g l) (filter g' l').
Proof.
  intro Hg. induction 1 as [|a b l l' Hab _ IH]; cbn [filter]; [constructor|].
  rewrite <- (Hg a b Hab). destruct (g a); [constructor; assumption|exact IH].
Qed.

Lemma Forall2_len {A B} (R : A -> B -> Prop) l l' : Forall2 R l l' -> List.length l = List.length l'.
Proof. induction 1; cbn [List.length]; [reflexivity|f_equal; assumption]. Qed.

Lemma Forall2_weaken {A B} (R R' : A -> B -> Prop) l l' :
  (forall a b, In a l -> R a b -> R' a b) -> Forall2 R l l' -> Forall2 R' l l'.
Proof.
  intros H F. induction F as [|a b l l' Hab _ IH]; constructor.
  - apply H; [left; reflexivity|exact Hab].
  - apply IH. intros a' b' Hin. apply H. right. exact Hin.
Qed.

Lemma mem_string_In k l : mem_string k l = true <-> In k l.
Proof.
  unfold mem_string. rewrite existsb_exists. split.
  - intros [x [Hx E]]. apply String.eqb_eq in E. subst x. exact Hx.
  - intro H. exists k. split; [exact H|apply String.eqb_refl].
Qed.

Definition key_is (k : string) (kv : string * json) : bool := String.eqb k (fst kv).

Lemma filter_key_known k ks es :
  mem_string k ks = true -> filter (key_is k) (filter (known ks) es) = filter (key_is k) es.
Proof.
  intro Hk. induction es as [|[k' v] es IH]; [reflexivity|]. cbn [filter].
  destruct (key_is k (k', v)) eqn:E1.
  - unfold key_is in E1. cbn [fst] in E1. apply String.eqb_eq in E1. subst k'.
    unfold known at 1. cbn [fst]. rewrite Hk. cbn [filter]. unfold key_is at 1. cbn [fst].
    rewrite String.eqb_refl. f_equal. exact IH.
  - destruct (known ks (k', v)); [cbn [filter]; rewrite E1|]; exact IH.
Qed.

Lemma filter_known_known ks ks' (es : list (string * json)) :
  (forall k, mem_string k ks' = true -> mem_string k ks = true) ->
  filter (known ks') (filter (known ks) es) = filter (known ks') es.
Proof.
  intro Hs. induction es as [|[k v] es IH]; [reflexivity|]. cbn [filter].
  destruct (known ks' (k, v)) eqn:E1.
  - unfold known in E1 |- *. cbn [fst] in *. rewrite (Hs _ E1). cbn [filter]. unfold known. cbn [fst].
    rewrite E1. f_equal. exact IH.
  - destruct (known ks (k, v)); [cbn [filter]; rewrite E1|]; exact IH.
Qed.

Lemma lookup_key_is {A} (f : json -> A) k es :
  lookup_with f k es =
  match filter (key_is k) es with [] => LMissing | [(_, v)] => LOne (f v) | _ => LDup end.
Proof. apply lookup_with_filter. Qed.

Lemma filter_key_In k es a : In a (filter (key_is k) es) -> In (k, snd a) es.
Proof.
  intro H. apply filter_In in H. destruct H as [H1 H2]. unfold key_is in H2. apply String.eqb_eq in H2.
  destruct a as [k' v]. cbn [fst snd] in *. subst k'. exact H1.
Qed.

(* a known member is looked up with the same outcome *)
Lemma lookup_sim {A} (f : json -> A) ks (R : string -> json -> json -> Prop) k es es' :
  entries_sim ks R es es' -> mem_string k ks = true ->
  (forall v v', In (k, v) es -> R k v v' -> f v = f v') ->
  lookup_with f k es = lookup_with f k es'.
Proof.
  intros [es1 [HP HF]] Hk Hf. rewrite !lookup_key_is.
  rewrite <- (filter_key_known k ks es Hk), <- (filter_key_known k ks es' Hk).
  pose proof (filter_key_In k (filter (known ks) es)) as HIn.
  apply (Permutation_filter (key_is k)) in HP.
  apply (Forall2_filter _ (key_is k) (key_is k)) in HF.
  2:{ intros a b [E _]. unfold key_is. rewrite E. reflexivity. }
  destruct (filter (key_is k) (filter (known ks) es)) as [|a [|a2 r]].
  - apply Permutation_nil in HP. rewrite HP in HF. inversion HF. reflexivity.
  - apply Permutation_length_1_inv in HP. rewrite HP in HF.
    inversion HF as [|? c ? r' [E Hac] HF']. inversion HF'. subst.
    assert (G : In (k, snd a) es).
    { specialize (HIn a (or_introl eq_refl)). apply filter_In in HIn. apply HIn. }
    assert (Ek : fst a = k).
    { specialize (HIn a (or_introl eq_refl)). apply filter_In in HIn. destruct HIn as [HIn _].
      clear - HIn HP. assert (In a (filter (key_is k) es1)) by (rewrite HP; left; reflexivity).
      apply filter_In in H. destruct H as [_ H]. unfold key_is in H. apply String.eqb_eq in H. symmetry. exact H. }
    rewrite Ek in Hac. destruct a as [ka va], c as [kc vc]. cbn [snd] in *. rewrite (Hf va vc G Hac). reflexivity.
  - pose proof (Permutation_length HP) as L1. pose proof (Forall2_len _ _ _ HF) as L2. cbn [List.length] in L1.
    destruct (filter (key_is k) (filter (known ks) es')) as [|c [|c2 r']]; cbn [List.length] in L2; try lia.
    destruct a as [ka va], c as [kc vc]. reflexivity.
Qed.

Lemma entries_sim_weaken ks ks' (R R' : string -> json -> json -> Prop) es es' :
  (forall k, mem_string k ks' = true -> mem_string k ks = true) ->
  (forall k v v', mem_string k ks' = true -> R k v v' -> R' k v v') ->
  entries_sim ks R es es' -> entries_sim ks' R' es es'.
Proof.
  intros Hs HR [es1 [HP HF]]. exists (filter (known ks') es1). split.
  - rewrite <- (filter_known_known ks ks' es Hs). apply Permutation_filter. exact HP.
  - rewrite <- (filter_known_known ks ks' es' Hs).
    apply (Forall2_filter _ (known ks') (known ks')) in HF.
    2:{ intros a b [E _]. unfold known. rewrite E. reflexivity. }
    eapply Forall2_weaken; [|exact HF]. intros a b Hin [E Hab]. split; [exact E|].
    apply HR; [|exact Hab]. apply filter_In in Hin. apply Hin.
Qed.

Lemma entries_sim_refl ks (R : string -> json -> json -> Prop) es :
  (forall k v, R k v v) -> entries_sim ks R es es.
Proof.
  intro H. exists (filter (known ks) es). split; [apply Permutation_refl|].
  induction (filter (known ks) es) as [|a l IH]; constructor; [split; [reflexivity|apply H]|exact IH].
Qed.

Lemma pos_sim_length R ms l l' : pos_sim R ms l l' -> List.length l = List.length l'.
Proof. induction 1; cbn [List.length]; [reflexivity|f_equal; assumption]. Qed.

(* ================================================================ sources *)
Definition src_sim (ms : members) (s s' : source) : Prop :=
  match s, s' with
  | SrcMap es, SrcMap es' =>
      entries_sim (map fst ms) (fun k v v' => forall pr t, In (k, (pr, t)) ms -> jsim t v v') es es'
  | SrcSeq l, SrcSeq l' => pos_sim jsim ms l l'
  | _, _ => False
  end.

Lemma arity_sim ms s s' n : src_sim ms s s' -> arity_ok s n = arity_ok s' n.
Proof.
  destruct s as [es|l], s' as [es'|l']; cbn [src_sim arity_ok]; intro H; try contradiction; [reflexivity|].
  rewrite (pos_sim_length _ _ _ _ H). reflexivity.
Qed.

Lemma nth_with_sim {A} (f : json -> A) ms l l' : pos_sim jsim ms l l' ->
  forall i k pr t, nth_error ms i = Some (k, (pr, t)) -> (forall v v', jsim t v v' -> f v = f v') ->
  nth_with f i l = nth_with f i l'.
Proof.
  induction 1 as [|k0 pr0 t0 ms v v' l l' Hv _ IH]; intros i k pr t Hn Hf; [destruct i; discriminate|].
  destruct i as [|i]; cbn [nth_error nth_with] in *.
  - inversion Hn. subst. rewrite (Hf _ _ Hv). reflexivity.
  - eapply IH; eassumption.
Qed.

Lemma get_sim {A} (f : json -> A) ms s s' i k pr t :
  src_sim ms s s' -> nth_error ms i = Some (k, (pr, t)) ->
  (forall v v', jsim t v v' -> f v = f v') -> get f s i k = get f s' i k.
Proof.
  destruct s as [es|l], s' as [es'|l']; cbn [src_sim get]; intros H Hn Hf; try contradiction.
  - apply nth_error_In in Hn. eapply lookup_sim; [exact H| |].
    + apply mem_string_In. apply (in_map fst) in Hn. exact Hn.
    + intros v v' _ HR. apply Hf. eapply HR. exact Hn.
  - eapply nth_with_sim; eassumption.
Qed.

Lemma jsim_is_null t v v' : jsim t v v' -> is_null v = is_null v'.
Proof. destruct 1; reflexivity. Qed.

Lemma opt_dec_sim {A} (dec : json -> option A) t :
  (forall v v', jsim t v v' -> dec v = dec v') -> forall v v', jsim t v v' -> opt_dec dec v = opt_dec dec v'.
Proof.
  intros H v v' S. pose proof (jsim_is_null _ _ _ S) as N. pose proof (H _ _ S) as E.
  unfold opt_dec. destruct v, v'; cbn [is_null] in N; try discriminate N; try reflexivity; rewrite E; reflexivity.
Qed.

Lemma req_sim {A} (dec : json -> option A) ms s s' i k pr t :
  src_sim ms s s' -> nth_error ms i = Some (k, (pr, t)) ->
  (forall v v', jsim t v v' -> dec v = dec v') -> req dec s i k = req dec s' i k.
Proof. intros H Hn Hf. unfold req. f_equal. eapply get_sim; eassumption. Qed.
Lemma opt_sim {A} (dec : json -> option A) ms s s' i k pr t :
  src_sim ms s s' -> nth_error ms i = Some (k, (pr, t)) ->
  (forall v v', jsim t v v' -> dec v = dec v') -> opt dec s i k = opt dec s' i k.
Proof. intros H Hn Hf. unfold opt. f_equal. eapply get_sim; [exact H|exact Hn|]. apply opt_dec_sim. exact Hf. Qed.

Lemma of_source_sim {A} (dec : source -> option A) ms :
  (forall s s', src_sim ms s s' -> dec s = dec s') ->
  forall v v', jsim (JTStruct ms) v v' -> of_source dec v = of_source dec v'.
Proof.
  intros H v v' S. inversion S; subst; [reflexivity| |]; unfold of_source; cbn [to_source opt_bind]; apply H; cbn [src_sim]; assumption.
Qed.

(* leaves *)
Lemma str_sim v v' : jsim JTString v v' -> decode_string v = decode_string v'.
Proof. intro S. inversion S. reflexivity. Qed.
Lemma bool_sim v v' : jsim JTBool v v' -> decode_bool v = decode_bool v'.
Proof. intro S. inversion S. reflexivity. Qed.
Lemma value_sim v v' : jsim JTValue v v' -> decode_value v = decode_value v'.
Proof. intro S. inversion S. reflexivity. Qed.
Lemma location_sim v v' : jsim JTLocation v v' -> decode_location v = decode_location v'.
Proof. intro S. inversion S. reflexivity. Qed.
Lemma vec_sim {A} (dec : json -> option A) t :
  (forall x x', jsim t x x' -> dec x = dec x') ->
  forall v v', jsim (JTVec t) v v' -> decode_list dec v = decode_list dec v'.
Proof.
  intros H v v' S. inversion S as [| ? l l' F | | | | | | |]; subst; [reflexivity|]. cbn [decode_list]. clear S.
  induction F as [|x x' l l' Hx _ IH]; [reflexivity|]. cbn [map_opt]. rewrite (H _ _ Hx), IH. reflexivity.
Qed.

Create HintDb sim.
#[local] Hint Resolve str_sim bool_sim value_sim location_sim : sim.
#[local] Hint Resolve vec_sim : sim.

Ltac dec_tac := solve [eauto 8 with sim].
Ltac struct_sim_tac dec ms :=
  let s := fresh "s" in let s' := fresh "s'" in let H := fresh "H" in
  intros s s' H; unfold dec; unfold ms in H;
  rewrite (arity_sim _ _ _ _ H);
  repeat match goal with
         | |- context [req ?d s ?i ?k] =>
             let E := fresh "E" in
             assert (E : req d s i k = req d s' i k) by (eapply req_sim; [exact H|reflexivity|dec_tac]);
             rewrite E; clear E
         | |- context [opt ?d s ?i ?k] =>
             let E := fresh "E" in
             assert (E : opt d s i k = opt d s' i k) by (eapply opt_sim; [exact H|reflexivity|dec_tac]);
             rewrite E; clear E
         end;
  reflexivity.

(* ================================================================ the decoders, bottom up *)
Lemma named_ref_src_sim : forall s s', src_sim named_ref_members s s' -> decode_named_ref_src s = decode_named_ref_src s'.
Proof. struct_sim_tac decode_named_ref_src named_ref_members. Qed.
Lemma named_ref_sim : forall v v', jsim named_ref_ty v v' -> decode_named_ref v = decode_named_ref v'.
Proof. apply of_source_sim. apply named_ref_src_sim. Qed.
#[local] Hint Resolve named_ref_sim : sim.

(* ---- type references ---- *)
Lemma member_lookup_one k es v : member k es = Some v -> lookup_with (fun x => x) k es = LOne v.
Proof. rewrite member_lookup. destruct (lookup_with (fun x => x) k es); intro H; inversion H; reflexivity. Qed.

Lemma wrapper_cases tag : is_wrapper tag = true -> tag = "LIST" \/ tag = "NON_NULL".
Proof.
  unfold is_wrapper. intro H. apply orb_prop in H. destruct H as [H|H]; apply String.eqb_eq in H; [left|right]; exact H.
Qed.

Lemma opt_dec_sim1 {A} (dec : json -> option A) t v v' :
  jsim t v v' -> dec v = dec v' -> opt_dec dec v = opt_dec dec v'.
Proof.
  intros S E. pose proof (jsim_is_null _ _ _ S) as N.
  unfold opt_dec. destruct v, v'; cbn [is_null] in N; try discriminate N; try reflexivity; rewrite E; reflexivity.
Qed.

Lemma named_ref_map_sim es es' :
  entries_sim ["kind"; "name"] (fun _ v v' => v = v') es es' ->
  decode_named_ref_src (SrcMap es) = decode_named_ref_src (SrcMap es').
Proof.
  intro H. unfold decode_named_ref_src. cbn [arity_ok]. unfold req. cbn [get].
  rewrite (lookup_sim decode_string _ _ "name" es es' H eq_refl); [reflexivity|].
  intros v v' _ E. rewrite E. reflexivity.
Qed.

Lemma out_ref_sim v : forall bf v', jsim (JTRef out_ref_names bf) v v' -> decode_out_ref bf v = decode_out_ref bf v'.
Proof.
  induction v as [| | | |l IH|es IH] using json_ind'; intros bf v' S; inversion S; subst; try reflexivity.
  - (* positional wrapper *)
    match goal with Ht : tag_name bf _ ?tj = Some ?tag, Hw : is_wrapper ?tag = true, Hs : jsim _ ?x ?x' |- _ =>
      cbn [decode_out_ref]; change out_ref_variants with out_ref_names; rewrite tag_of_name, Ht;
      assert (Ex : opt_dec (decode_out_ref true) x = opt_dec (decode_out_ref true) x')
        by (apply (opt_dec_sim1 _ _ _ _ Hs); inversion IH as [|? ? _ IH2]; inversion IH2 as [|? ? Hx _]; apply Hx; exact Hs);
      destruct (wrapper_cases _ Hw); subst tag; cbn [String.eqb Ascii.eqb Bool.eqb]; rewrite Ex; reflexivity
    end.
  - (* wrapper object *)
    match goal with Hk : member "kind" es = Some ?tj, Ht : tag_name bf _ ?tj = Some ?tag, Hw : is_wrapper ?tag = true,
                    HE : entries_sim _ _ es ?es' |- _ =>
      cbn [decode_out_ref];
      rewrite <- (lookup_sim (fun x => x) _ _ "kind" es es' HE eq_refl) by (intros v v' _ [E _]; apply E; reflexivity);
      rewrite (member_lookup_one _ _ _ Hk); change out_ref_variants with out_ref_names; rewrite tag_of_name, Ht;
      assert (Ex : lookup_with (opt_dec (decode_out_ref true)) "ofType" es =
                   lookup_with (opt_dec (decode_out_ref true)) "ofType" es')
        by (apply (lookup_sim _ _ _ "ofType" es es' HE eq_refl); intros v v' Hin [_ HR];
            apply (opt_dec_sim1 _ _ _ _ (HR eq_refl)); rewrite Forall_forall in IH; apply (IH _ Hin); apply HR; reflexivity);
      destruct (wrapper_cases _ Hw); subst tag; cbn [String.eqb Ascii.eqb Bool.eqb]; rewrite Ex; reflexivity
    end.
  - (* named object *)
    match goal with Hk : member "kind" es = Some ?tj, Ht : tag_name bf _ ?tj = Some ?tag, Hw : is_wrapper ?tag = false,
                    HE : entries_sim _ _ es ?es' |- _ =>
      cbn [decode_out_ref];
      rewrite <- (lookup_sim (fun x => x) _ _ "kind" es es' HE eq_refl) by (intros v v' _ E; exact E);
      rewrite (member_lookup_one _ _ _ Hk); change out_ref_variants with out_ref_names; rewrite tag_of_name, Ht;
      unfold is_wrapper in Hw; apply orb_false_iff in Hw; destruct Hw as [W1 W2]; rewrite W1, W2;
      rewrite (named_ref_map_sim _ _ HE); reflexivity
    end.
Qed.

Lemma in_ref_sim v : forall bf v', jsim (JTRef in_ref_names bf) v v' -> decode_in_ref bf v = decode_in_ref bf v'.
Proof.
  induction v as [| | | |l IH|es IH] using json_ind'; intros bf v' S; inversion S; subst; try reflexivity.
  - (* positional wrapper *)
    match goal with Ht : tag_name bf _ ?tj = Some ?tag, Hw : is_wrapper ?tag = true, Hs : jsim _ ?x ?x' |- _ =>
      cbn [decode_in_ref]; change in_ref_variants with in_ref_names; rewrite tag_of_name, Ht;
      assert (Ex : opt_dec (decode_in_ref true) x = opt_dec (decode_in_ref true) x')
        by (apply (opt_dec_sim1 _ _ _ _ Hs); inversion IH as [|? ? _ IH2]; inversion IH2 as [|? ? Hx _]; apply Hx; exact Hs);
      destruct (wrapper_cases _ Hw); subst tag; cbn [String.eqb Ascii.eqb Bool.eqb]; rewrite Ex; reflexivity
    end.
  - (* wrapper object *)
    match goal with Hk : member "kind" es = Some ?tj, Ht : tag_name bf _ ?tj = Some ?tag, Hw : is_wrapper ?tag = true,
                    HE : entries_sim _ _ es ?es' |- _ =>
      cbn [decode_in_ref];
      rewrite <- (lookup_sim (fun x => x) _ _ "kind" es es' HE eq_refl) by (intros v v' _ [E _]; apply E; reflexivity);
      rewrite (member_lookup_one _ _ _ Hk); change in_ref_variants with in_ref_names; rewrite tag_of_name, Ht;
      assert (Ex : lookup_with (opt_dec (decode_in_ref true)) "ofType" es =
                   lookup_with (opt_dec (decode_in_ref true)) "ofType" es')
        by (apply (lookup_sim _ _ _ "ofType" es es' HE eq_refl); intros v v' Hin [_ HR];
            apply (opt_dec_sim1 _ _ _ _ (HR eq_refl)); rewrite Forall_forall in IH; apply (IH _ Hin); apply HR; reflexivity);
      destruct (wrapper_cases _ Hw); subst tag; cbn [String.eqb Ascii.eqb Bool.eqb]; rewrite Ex; reflexivity
    end.
  - (* named object *)
    match goal with Hk : member "kind" es = Some ?tj, Ht : tag_name bf _ ?tj = Some ?tag, Hw : is_wrapper ?tag = false,
                    HE : entries_sim _ _ es ?es' |- _ =>
      cbn [decode_in_ref];
      rewrite <- (lookup_sim (fun x => x) _ _ "kind" es es' HE eq_refl) by (intros v v' _ E; exact E);
      rewrite (member_lookup_one _ _ _ Hk); change in_ref_variants with in_ref_names; rewrite tag_of_name, Ht;
      unfold is_wrapper in Hw; apply orb_false_iff in Hw; destruct Hw as [W1 W2]; rewrite W1, W2;
      rewrite (named_ref_map_sim _ _ HE); reflexivity
    end.
Qed.

Lemma out_ref_sim' bf : forall v v', jsim (JTRef out_ref_names bf) v v' -> decode_out_ref bf v = decode_out_ref bf v'.
Proof. intros v v'. apply out_ref_sim. Qed.
Lemma in_ref_sim' bf : forall v v', jsim (JTRef in_ref_names bf) v v' -> decode_in_ref bf v = decode_in_ref bf v'.
Proof. intros v v'. apply in_ref_sim. Qed.
#[local] Hint Resolve out_ref_sim' in_ref_sim' : sim.

(* ---- structs ---- *)
Lemma scalar_src_sim : forall s s', src_sim scalar_members s s' -> decode_scalar_type_src s = decode_scalar_type_src s'.
Proof. struct_sim_tac decode_scalar_type_src scalar_members. Qed.

Lemma input_value_src_sim b : forall s s',
  src_sim (input_value_members b) s s' -> decode_input_value_src b s = decode_input_value_src b s'.
Proof. struct_sim_tac decode_input_value_src input_value_members. Qed.
Lemma input_value_sim b : forall v v', jsim (input_value_ty b) v v' -> decode_input_value b v = decode_input_value b v'.
Proof. apply of_source_sim. apply input_value_src_sim. Qed.
#[local] Hint Resolve input_value_sim : sim.

Lemma field_src_sim b : forall s s', src_sim (field_members b) s s' -> decode_field_src b s = decode_field_src b s'.
Proof. struct_sim_tac decode_field_src field_members. Qed.
Lemma field_sim b : forall v v', jsim (field_ty b) v v' -> decode_field b v = decode_field b v'.
Proof. apply of_source_sim. apply field_src_sim. Qed.
#[local] Hint Resolve field_sim : sim.

Lemma object_src_sim : forall s s',
  src_sim object_members s s' -> decode_object_type_src true s = decode_object_type_src true s'.
Proof. struct_sim_tac decode_object_type_src object_members. Qed.
Lemma interface_src_sim : forall s s',
  src_sim interface_members s s' -> decode_interface_type_src true s = decode_interface_type_src true s'.
Proof. struct_sim_tac decode_interface_type_src interface_members. Qed.
Lemma union_src_sim : forall s s', src_sim union_members s s' -> decode_union_type_src s = decode_union_type_src s'.
Proof. struct_sim_tac decode_union_type_src union_members. Qed.

Lemma enum_value_src_sim : forall s s', src_sim enum_value_members s s' -> decode_enum_value_src s = decode_enum_value_src s'.
Proof. struct_sim_tac decode_enum_value_src enum_value_members. Qed.
Lemma enum_value_sim : forall v v', jsim enum_value_ty v v' -> decode_enum_value v = decode_enum_value v'.
Proof. apply of_source_sim. apply enum_value_src_sim. Qed.
#[local] Hint Resolve enum_value_sim : sim.

Lemma enum_src_sim : forall s s', src_sim enum_members s s' -> decode_enum_type_src s = decode_enum_type_src s'.
Proof. struct_sim_tac decode_enum_type_src enum_members. Qed.
Lemma input_object_src_sim : forall s s',
  src_sim input_object_members s s' -> decode_input_object_type_src true s = decode_input_object_type_src true s'.
Proof. struct_sim_tac decode_input_object_type_src input_object_members. Qed.

(* ---- IntrospectionType ---- *)
Lemma type_content_sim tag ms s s' :
  variant_members
    [("SCALAR", scalar_members); ("OBJECT", object_members); ("INTERFACE", interface_members);
     ("UNION", union_members); ("ENUM", enum_members); ("INPUT_OBJECT", input_object_members)] tag = Some ms ->
  src_sim ms s s' ->
  (if String.eqb tag "SCALAR" then opt_map T_SCALAR (decode_scalar_type_src s)
   else if String.eqb tag "OBJECT" then opt_map T_OBJECT (decode_object_type_src true s)
   else if String.eqb tag "INTERFACE" then opt_map T_INTERFACE (decode_interface_type_src true s)
   else if String.eqb tag "UNION" then opt_map T_UNION (decode_union_type_src s)
   else if String.eqb tag "ENUM" then opt_map T_ENUM (decode_enum_type_src s)
   else if String.eqb tag "INPUT_OBJECT" then opt_map T_INPUT_OBJECT (decode_input_object_type_src true s)
   else None) =
  (if String.eqb tag "SCALAR" then opt_map T_SCALAR (decode_scalar_type_src s')
   else if String.eqb tag "OBJECT" then opt_map T_OBJECT (decode_object_type_src true s')
   else if String.eqb tag "INTERFACE" then opt_map T_INTERFACE (decode_interface_type_src true s')
   else if String.eqb tag "UNION" then opt_map T_UNION (decode_union_type_src s')
   else if String.eqb tag "ENUM" then opt_map T_ENUM (decode_enum_type_src s')
   else if String.eqb tag "INPUT_OBJECT" then opt_map T_INPUT_OBJECT (decode_input_object_type_src true s')
   else None).
Proof.
  unfold variant_members. cbn [find fst]. intros Hv Hs.
  repeat match goal with
         | |- (if String.eqb tag ?n then _ else _) = _ =>
             destruct (String.eqb tag n);
             [cbn [opt_map snd] in Hv; inversion Hv; subst ms; f_equal;
              first [apply scalar_src_sim|apply object_src_sim|apply interface_src_sim|apply union_src_sim
                    |apply enum_src_sim|apply input_object_src_sim]; exact Hs|]
         end.
  reflexivity.
Qed.

Lemma type_sim : forall v v', jsim type_ty v v' -> decode_type v = decode_type v'.
Proof.
  intros v v' S. unfold type_ty in S.
  inversion S as [| | | |b vs es es' tj tag ms Hk Ht Hv HE|b vs tj tag ms rest rest' Ht Hv HP| | |]; subst; [reflexivity| |].
  - unfold decode_type, split_tag.
    rewrite <- (lookup_sim (fun x => x) _ _ "kind" es es' HE eq_refl) by (intros x x' _ [E _]; apply E; reflexivity).
    rewrite (member_lookup_one _ _ _ Hk), tag_of_name.
    change type_variants with ["SCALAR"; "OBJECT"; "INTERFACE"; "UNION"; "ENUM"; "INPUT_OBJECT"].
    cbn [map fst] in Ht. rewrite Ht. cbn [opt_bind fst snd].
    apply (type_content_sim tag ms (SrcMap es) (SrcMap es') Hv). cbn [src_sim].
    eapply entries_sim_weaken; [| |exact HE].
    + intros k Hin. cbn [mem_string existsb] in *. unfold mem_string in Hin. rewrite Hin. apply orb_true_r.
    + intros k x x' _ [_ HR]. exact HR.
  - unfold decode_type, split_tag. rewrite tag_of_name.
    change type_variants with ["SCALAR"; "OBJECT"; "INTERFACE"; "UNION"; "ENUM"; "INPUT_OBJECT"].
    cbn [map fst] in Ht. rewrite Ht. cbn [opt_bind fst snd].
    apply (type_content_sim tag ms (SrcSeq rest) (SrcSeq rest') Hv). exact HP.
Qed.
#[local] Hint Resolve type_sim : sim.

(* ---- IntrospectionDirective / IntrospectionSchema / IntrospectionQuery ---- *)
Lemma directive_src_sim : forall s s', src_sim directive_members s s' -> decode_directive_src s = decode_directive_src s'.
Proof. struct_sim_tac decode_directive_src directive_members. Qed.
Lemma directive_sim : forall v v', jsim directive_ty v v' -> decode_directive v = decode_directive v'.
Proof. apply of_source_sim. apply directive_src_sim. Qed.
#[local] Hint Resolve directive_sim : sim.

Lemma schema_src_sim : forall s s', src_sim schema_members s s' -> decode_schema_src s = decode_schema_src s'.
Proof. struct_sim_tac decode_schema_src schema_members. Qed.
Lemma schema_sim : forall v v', jsim schema_ty v v' -> decode_schema v = decode_schema v'.
Proof. apply of_source_sim. apply schema_src_sim. Qed.
#[local] Hint Resolve schema_sim : sim.

Lemma query_src_sim : forall s s', src_sim query_members s s' -> decode_query_src s = decode_query_src s'.
Proof. struct_sim_tac decode_query_src query_members. Qed.

(* ================================================================ the theorem *)
Theorem decode_invariant : forall j j', jsim query_ty j j' -> decode_query j = decode_query j'.
Proof. apply of_source_sim. apply query_src_sim. Qed.

(* ================================================================ how similar trees arise *)
(* (i) the members of an object permuted (and their values replaced by similar ones) *)
Lemma entries_sim_perm ks (R : string -> json -> json -> Prop) es es1 es' :
  Permutation es es1 ->
  Forall2 (fun a b => fst a = fst b /\ R (fst a) (snd a) (snd b)) es1 es' ->
  entries_sim ks R es es'.
Proof.
  intros HP HF. exists (filter (known ks) es1). split; [apply Permutation_filter; exact HP|].
  apply Forall2_filter; [|exact HF]. intros a b [E _]. unfold known. rewrite E. reflexivity.
Qed.

(* (ii) a member with an unknown key inserted (or removed), on either side *)
Lemma filter_known_insert ks (l1 l2 : list (string * json)) k v :
  mem_string k ks = false -> filter (known ks) (l1 ++ (k, v) :: l2) = filter (known ks) (l1 ++ l2).
Proof. intro H. rewrite !filter_app. cbn [filter]. unfold known at 2. cbn [fst]. rewrite H. reflexivity. Qed.
Lemma entries_sim_insert_r ks R es l1 l2 k v :
  mem_string k ks = false -> entries_sim ks R es (l1 ++ l2) -> entries_sim ks R es (l1 ++ (k, v) :: l2).
Proof. intros H [es1 G]. exists es1. rewrite (filter_known_insert _ _ _ _ v H). exact G. Qed.
Lemma entries_sim_insert_l ks R es' l1 l2 k v :
  mem_string k ks = false -> entries_sim ks R (l1 ++ l2) es' -> entries_sim ks R (l1 ++ (k, v) :: l2) es'.
Proof. intros H [es1 G]. exists es1. rewrite (filter_known_insert _ _ _ _ v H). exact G. Qed.

Lemma jsim_refl_members (ms : members) k (v : json) : forall pr t, In (k, (pr, t)) ms -> jsim t v v.
Proof. intros. apply sim_refl. Qed.

(* ---- at a struct position ---- *)
Lemma sim_struct_perm ms es es1 es' :
  Permutation es es1 ->
  Forall2 (fun a b => fst a = fst b /\ forall pr t, In (fst a, (pr, t)) ms -> jsim t (snd a) (snd b)) es1 es' ->
  jsim (JTStruct ms) (JObj es) (JObj es').
Proof. intros HP HF. apply sim_struct. eapply entries_sim_perm; eassumption. Qed.

Lemma Forall2_refl_in {A} (R : A -> A -> Prop) l : (forall a, R a a) -> Forall2 R l l.
Proof. intro H. induction l; constructor; auto. Qed.

Lemma sim_struct_permute ms es es' : Permutation es es' -> jsim (JTStruct ms) (JObj es) (JObj es').
Proof.
  intro HP. apply (sim_struct_perm ms es es' es' HP).
  apply Forall2_refl_in. intro a. split; [reflexivity|intros; apply sim_refl].
Qed.

Lemma sim_struct_insert ms l1 l2 k v :
  mem_string k (map fst ms) = false -> jsim (JTStruct ms) (JObj (l1 ++ l2)) (JObj (l1 ++ (k, v) :: l2)).
Proof.
  intro H. apply sim_struct. apply entries_sim_insert_r; [exact H|]. apply entries_sim_refl. intros. apply sim_refl.
Qed.

(* ---- at a tagged enum position (the tag is a known member) ---- *)
Lemma sim_enum_perm b vs es es1 es' tj tag ms :
  member "kind" es = Some tj -> tag_name b (map fst vs) tj = Some tag -> variant_members vs tag = Some ms ->
  Permutation es es1 ->
  Forall2 (fun a b => fst a = fst b /\ (fst a = "kind" -> snd a = snd b) /\
                      forall pr t, In (fst a, (pr, t)) ms -> jsim t (snd a) (snd b)) es1 es' ->
  jsim (JTEnum b vs) (JObj es) (JObj es').
Proof. intros Hk Ht Hv HP HF. eapply sim_enum; try eassumption. eapply entries_sim_perm; eassumption. Qed.

Lemma sim_enum_insert b vs l1 l2 tj tag ms k v :
  member "kind" (l1 ++ l2) = Some tj -> tag_name b (map fst vs) tj = Some tag -> variant_members vs tag = Some ms ->
  mem_string k ("kind" :: map fst ms) = false ->
  jsim (JTEnum b vs) (JObj (l1 ++ l2)) (JObj (l1 ++ (k, v) :: l2)).
Proof.
  intros Hk Ht Hv H. eapply sim_enum; try eassumption. apply entries_sim_insert_r; [exact H|].
  apply entries_sim_refl. intros. split; [reflexivity|intros; apply sim_refl].
Qed.

(* ---- at a type reference ---- *)
Lemma sim_ref_wrapper_perm vs b es es1 es' tj tag :
  member "kind" es = Some tj -> tag_name b vs tj = Some tag -> is_wrapper tag = true ->
  Permutation es es1 ->
  Forall2 (fun a b => fst a = fst b /\ (fst a = "kind" -> snd a = snd b) /\
                      (fst a = "ofType" -> jsim (JTRef vs true) (snd a) (snd b))) es1 es' ->
  jsim (JTRef vs b) (JObj es) (JObj es').
Proof. intros Hk Ht Hw HP HF. eapply sim_ref_wrapper; try eassumption. eapply entries_sim_perm; eassumption. Qed.

Lemma sim_ref_wrapper_insert vs b l1 l2 tj tag k v :
  member "kind" (l1 ++ l2) = Some tj -> tag_name b vs tj = Some tag -> is_wrapper tag = true ->
  mem_string k ["kind"; "ofType"] = false ->
  jsim (JTRef vs b) (JObj (l1 ++ l2)) (JObj (l1 ++ (k, v) :: l2)).
Proof.
  intros Hk Ht Hw H. eapply sim_ref_wrapper; try eassumption. apply entries_sim_insert_r; [exact H|].
  apply entries_sim_refl. intros. split; [reflexivity|intros; apply sim_refl].
Qed.

Lemma sim_ref_named_permute vs b es es' tj tag :
  member "kind" es = Some tj -> tag_name b vs tj = Some tag -> is_wrapper tag = false ->
  Permutation es es' -> jsim (JTRef vs b) (JObj es) (JObj es').
Proof.
  intros Hk Ht Hw HP. eapply sim_ref_named; try eassumption. apply (entries_sim_perm _ _ es es' es' HP).
  apply Forall2_refl_in. intro a. split; reflexivity.
Qed.

Lemma sim_ref_named_insert vs b l1 l2 tj tag k v :
  member "kind" (l1 ++ l2) = Some tj -> tag_name b vs tj = Some tag -> is_wrapper tag = false ->
  mem_string k ["kind"; "name"] = false ->
  jsim (JTRef vs b) (JObj (l1 ++ l2)) (JObj (l1 ++ (k, v) :: l2)).
Proof.
  intros Hk Ht Hw H. eapply sim_ref_named; try eassumption. apply entries_sim_insert_r; [exact H|].
  apply entries_sim_refl. reflexivity.
Qed.

(* ---- one member's value replaced by a similar one (to reach the deeper levels) ---- *)
Lemma sim_struct_member ms l1 l2 k v v' :
  (forall pr t, In (k, (pr, t)) ms -> jsim t v v') ->
  jsim (JTStruct ms) (JObj (l1 ++ (k, v) :: l2)) (JObj (l1 ++ (k, v') :: l2)).
Proof.
  intro H. apply (sim_struct_perm ms _ _ _ (Permutation_refl _)). apply Forall2_app; [|constructor].
  - apply Forall2_refl_in. intro a. split; [reflexivity|intros; apply sim_refl].
  - split; [reflexivity|exact H].
  - apply Forall2_refl_in. intro a. split; [reflexivity|intros; apply sim_refl].
Qed.

Lemma sim_vec_elem t l1 l2 x x' : jsim t x x' -> jsim (JTVec t) (JArr (l1 ++ x :: l2)) (JArr (l1 ++ x' :: l2)).
Proof.
  intro H. apply sim_vec. apply Forall2_app; [|constructor; [exact H|]]; apply Forall2_refl_in; intro; apply sim_refl.
Qed.

Lemma sim_enum_member b vs l1 l2 tj tag ms k v v' :
  member "kind" (l1 ++ (k, v) :: l2) = Some tj -> tag_name b (map fst vs) tj = Some tag ->
  variant_members vs tag = Some ms -> k <> "kind" ->
  (forall pr t, In (k, (pr, t)) ms -> jsim t v v') ->
  jsim (JTEnum b vs) (JObj (l1 ++ (k, v) :: l2)) (JObj (l1 ++ (k, v') :: l2)).
Proof.
  intros Hk Ht Hv Hne H. apply (sim_enum_perm b vs _ _ _ tj tag ms Hk Ht Hv (Permutation_refl _)).
  apply Forall2_app; [|constructor].
  - apply Forall2_refl_in. intro a. split; [reflexivity|split; [reflexivity|intros; apply sim_refl]].
  - split; [reflexivity|split; [intro E; contradiction|exact H]].
  - apply Forall2_refl_in. intro a. split; [reflexivity|split; [reflexivity|intros; apply sim_refl]].
Qed.

Lemma sim_ref_oftype vs b l1 l2 tj tag v v' :
  member "kind" (l1 ++ ("ofType", v) :: l2) = Some tj -> tag_name b vs tj = Some tag -> is_wrapper tag = true ->
  jsim (JTRef vs true) v v' ->
  jsim (JTRef vs b) (JObj (l1 ++ ("ofType", v) :: l2)) (JObj (l1 ++ ("ofType", v') :: l2)).
Proof.
  intros Hk Ht Hw H. apply (sim_ref_wrapper_perm vs b _ _ _ tj tag Hk Ht Hw (Permutation_refl _)).
  apply Forall2_app; [|constructor].
  - apply Forall2_refl_in. intro a. split; [reflexivity|split; [reflexivity|intros; apply sim_refl]].
  - split; [reflexivity|split; [discriminate|intros; exact H]].
  - apply Forall2_refl_in. intro a. split; [reflexivity|split; [reflexivity|intros; apply sim_refl]].
Qed.

(* ================================================================ default values *)
(* the model keeps a default value as the JSON tree read (serde_json::Value; last of several
   equal keys wins): it is compared with =, so the order of ITS members is visible.  This is why
   [jsim] relates a value (JTValue) only to itself. *)
Definition with_default (v : json) : json :=
  JObj [("__schema", JObj [("queryType", JObj [("name", JStr "Q")]); ("types", JArr []);
     ("directives", JArr [JObj [("name", JStr "d"); ("locations", JArr []);
                                ("args", JArr [JObj [("name", JStr "a"); ("defaultValue", v)]])]])])].
Example value_order_matters :
  decode_query (with_default (JObj [("a", JNum 1); ("b", JNum 2)])) <>
  decode_query (with_default (JObj [("b", JNum 2); ("a", JNum 1)])).
Proof. vm_compute. discriminate. Qed.
(* and, with a repeated key, so is which one comes last (in serde_json as well) *)
Example value_duplicates_matter :
  decode_query (with_default (JObj [("a", JNum 1); ("a", JNum 2)])) <>
  decode_query (with_default (JObj [("a", JNum 2); ("a", JNum 1)])).
Proof. vm_compute. discriminate. Qed.

(* ================================================================ examples *)
(* the members of the __schema object in any order *)
Example schema_members_any_order es es' :
  Permutation es es' -> decode_query (JObj [("__schema", JObj es)]) = decode_query (JObj [("__schema", JObj es')]).
Proof.
  intro HP. apply decode_invariant. apply (sim_struct_member query_members [] [] "__schema").
  intros pr t [E|[]]. inversion E. subst. apply sim_struct_permute. exact HP.
Qed.
(* an unknown member anywhere in the __schema object *)
Example schema_unknown_member l1 l2 k v :
  mem_string k ["description"; "queryType"; "mutationType"; "subscriptionType"; "types"; "directives"] = false ->
  decode_query (JObj [("__schema", JObj (l1 ++ l2))]) = decode_query (JObj [("__schema", JObj (l1 ++ (k, v) :: l2))]).
Proof.
  intro H. apply decode_invariant. apply (sim_struct_member query_members [] [] "__schema").
  intros pr t [E|[]]. inversion E. subst. apply sim_struct_insert. exact H.
Qed.

Ltac pick_member :=
  let pr := fresh "pr" in let t := fresh "t" in let Hin := fresh "Hin" in
  intros pr t Hin; unfold query_members, schema_members, object_members, interface_members, field_members,
    input_value_members, directive_members, input_object_members, enum_members, union_members in Hin;
  cbn [In] in Hin;
  repeat (destruct Hin as [Hin|Hin]; [try discriminate Hin|]); try contradiction;
  try (inversion Hin; subst pr t; clear Hin).

(* a deeper one: the members of a field of an OBJECT type in any order, and an unknown member in it *)
Example field_members_any_order s1 s2 T1 T2 t1 t2 f1 f2 fes fes' :
  member "kind" (t1 ++ ("fields", JArr (f1 ++ JObj fes :: f2)) :: t2) = Some (JStr "OBJECT") ->
  Permutation fes fes' ->
  decode_query (JObj [("__schema", JObj (s1 ++ ("types",
     JArr (T1 ++ JObj (t1 ++ ("fields", JArr (f1 ++ JObj fes :: f2)) :: t2) :: T2)) :: s2))]) =
  decode_query (JObj [("__schema", JObj (s1 ++ ("types",
     JArr (T1 ++ JObj (t1 ++ ("fields", JArr (f1 ++ JObj fes' :: f2)) :: t2) :: T2)) :: s2))]).
Proof.
  intros Hk HP. apply decode_invariant.
  apply (sim_struct_member query_members [] [] "__schema"). pick_member.
  apply sim_struct_member. pick_member.
  apply sim_vec_elem.
  unfold type_ty. eapply sim_enum_member; [exact Hk|reflexivity|reflexivity|discriminate|]. pick_member.
  apply sim_vec_elem. apply sim_struct_permute. exact HP.
Qed.
Example field_unknown_member s1 s2 T1 T2 t1 t2 f1 f2 l1 l2 k v :
  member "kind" (t1 ++ ("fields", JArr (f1 ++ JObj (l1 ++ l2) :: f2)) :: t2) = Some (JStr "OBJECT") ->
  mem_string k ["name"; "description"; "args"; "isDeprecated"; "deprecationReason"; "type"] = false ->
  decode_query (JObj [("__schema", JObj (s1 ++ ("types",
     JArr (T1 ++ JObj (t1 ++ ("fields", JArr (f1 ++ JObj (l1 ++ l2) :: f2)) :: t2) :: T2)) :: s2))]) =
  decode_query (JObj [("__schema", JObj (s1 ++ ("types",
     JArr (T1 ++ JObj (t1 ++ ("fields", JArr (f1 ++ JObj (l1 ++ (k, v) :: l2) :: f2)) :: t2) :: T2)) :: s2))]).
Proof.
  intros Hk H. apply decode_invariant.
  apply (sim_struct_member query_members [] [] "__schema"). pick_member.
  apply sim_struct_member. pick_member.
  apply sim_vec_elem.
  unfold type_ty. eapply sim_enum_member; [exact Hk|reflexivity|reflexivity|discriminate|]. pick_member.
  apply sim_vec_elem. apply sim_struct_insert. exact H.
Qed.

(* C07_graph_proofs.v — NoUndefinedVariables / NoUnusedVariables fire exactly when the
   specification condition is violated, for EVERY document: the rules key the tables of an
   operation by (index of the operation in the document, name), so operations that share a name
   (or are all anonymous) have their own tables ([idefs], [def_entry_fresh], [idefs_index_inj]).
   Plan: (1) the tables collected by the walk, (2) the reachability walk [vars_walk] is total with
   the supplied fuel and computes the least fixed point, (3) [spread_closure] computes the same
   reachability relation (closure lemmas reused from C06_graph_proofs), (4) the two equivalences.
   Main intermediate results: [TInv_document] (tables), [walk_top] / [vars_walk_total] (fuel
   sufficiency and result of the walk), [closure_iff], [used_in_op_iff]. *)
From GT Require Import Visitor Validate.
From GTS Require Import SpecLin Annot WfSchema SpecRules SpecValues SpecValid.
From GTP Require Import VisitorFacts TraceFacts RuleFacts.
From GTP Require C06_graph_proofs.

(* ------------------------------------------------------------------ equalities, small sets *)
Lemma name_eqb_eq a b : name_eqb a b = true <-> a = b.
Proof. apply String.eqb_eq. Qed.
Lemma name_eqb_refl a : name_eqb a a = true.
Proof. apply String.eqb_refl. Qed.
Lemma name_eqb_sym a b : name_eqb a b = name_eqb b a.
Proof. apply String.eqb_sym. Qed.
Lemma oname_eqb_eq a b : oname_eqb a b = true <-> a = b.
Proof. destruct a, b; cbn; rewrite ?name_eqb_eq; split; congruence. Qed.
Lemma opkey_eqb_eq a b : opkey_eqb a b = true <-> a = b.
Proof.
  destruct a as [i x], b as [j y]. unfold opkey_eqb. cbn [fst snd].
  rewrite andb_true_iff, Nat.eqb_eq, oname_eqb_eq. split; [intros [-> ->]; reflexivity|intro H; inversion H; auto].
Qed.
Lemma opkey_eqb_refl a : opkey_eqb a a = true.
Proof. apply opkey_eqb_eq. reflexivity. Qed.
Lemma scope_eqb_eq a b : scope_eqb a b = true <-> a = b.
Proof.
  destruct a as [i x|x], b as [j y|y]; cbn [scope_eqb]; rewrite ?opkey_eqb_eq, ?name_eqb_eq; split; congruence.
Qed.
Lemma scope_eqb_refl a : scope_eqb a a = true.
Proof. apply scope_eqb_eq. reflexivity. Qed.
Lemma oname_eqb_refl a : oname_eqb a a = true.
Proof. apply oname_eqb_eq. reflexivity. Qed.

Lemma mem_name_In n l : mem_name n l = true <-> In n l.
Proof.
  unfold mem_name. rewrite existsb_exists. split.
  - intros [x [H1 H2]]. apply name_eqb_eq in H2. subst. exact H1.
  - intro H. exists n. split; [exact H|apply name_eqb_refl].
Qed.
Lemma mem_name_false n l : mem_name n l = false <-> ~ In n l.
Proof. rewrite <- mem_name_In. destruct (mem_name n l); split; congruence. Qed.

Lemma set_add_In x n l : In x (set_add n l) <-> x = n \/ In x l.
Proof.
  unfold set_add. destruct (mem_name n l) eqn:E.
  - apply mem_name_In in E. split; [intro H; right; exact H|]. intros [H|H]; [subst; exact E|exact H].
  - rewrite in_app_iff. cbn. split; intros [H|H]; auto. destruct H as [H|[]]. left. symmetry. exact H.
Qed.

Lemma dedup_In x l : In x (dedup_names l) <-> In x l.
Proof.
  induction l as [|y r IH]; cbn [dedup_names]; [reflexivity|].
  destruct (mem_name y r) eqn:E.
  - rewrite IH. cbn. split; [auto|]. intros [H|H]; [subst; apply mem_name_In; exact E|exact H].
  - cbn. rewrite IH. reflexivity.
Qed.

Lemma existsb_scope_In x l : existsb (scope_eqb x) l = true <-> In x l.
Proof.
  rewrite existsb_exists. split.
  - intros [y [H1 H2]]. apply scope_eqb_eq in H2. subst. exact H1.
  - intro H. exists x. split; [exact H|apply scope_eqb_refl].
Qed.

(* ------------------------------------------------------------------ association tables *)
Section AssocFacts.
  Context {K V : Type} (keq : K -> K -> bool).
  Hypothesis keq_eq : forall a b, keq a b = true <-> a = b.

  Lemma keq_refl a : keq a a = true.
  Proof. apply keq_eq. reflexivity. Qed.

  Lemma as_get_set k k' v (m : list (K * V)) :
    as_get keq k (as_set keq k' v m) = if keq k k' then Some v else as_get keq k m.
  Proof.
    induction m as [|[k0 v0] r IH]; cbn [as_set as_get]; [reflexivity|].
    destruct (keq k' k0) eqn:E1; cbn [as_get].
    - apply keq_eq in E1. subst. destruct (keq k k0); reflexivity.
    - destruct (keq k k0) eqn:E2.
      + destruct (keq k k') eqn:E3; [|reflexivity].
        apply keq_eq in E2. apply keq_eq in E3. subst. rewrite keq_refl in E1. discriminate.
      + exact IH.
  Qed.

  Lemma as_get_app k (m m' : list (K * V)) :
    as_get keq k (m ++ m') = match as_get keq k m with Some x => Some x | None => as_get keq k m' end.
  Proof.
    induction m as [|[k0 v0] r IH]; cbn [app as_get]; [reflexivity|].
    destruct (keq k k0); [reflexivity|exact IH].
  Qed.

  Lemma as_set_app_last k v v' (m : list (K * V)) :
    as_get keq k m = None -> as_set keq k v' (m ++ [(k, v)]) = m ++ [(k, v')].
  Proof.
    induction m as [|[k0 v0] r IH]; cbn [app as_get as_set]; intro H.
    - rewrite keq_refl. reflexivity.
    - destruct (keq k k0); [discriminate|]. rewrite (IH H). reflexivity.
  Qed.

  Lemma as_get_In k (m : list (K * V)) v : as_get keq k m = Some v -> In (k, v) m.
  Proof.
    induction m as [|[k0 v0] r IH]; cbn [as_get]; [discriminate|].
    destruct (keq k k0) eqn:E; intro H.
    - apply keq_eq in E. inversion H. subst. left. reflexivity.
    - right. exact (IH H).
  Qed.

  Lemma as_get_none_map {A} (f : A -> K) (g : A -> V) k (l : list A) :
    ~ In k (map f l) -> as_get keq k (map (fun x => (f x, g x)) l) = None.
  Proof.
    induction l as [|x r IH]; cbn [map as_get]; intro H; [reflexivity|].
    destruct (keq k (f x)) eqn:E.
    - apply keq_eq in E. exfalso. apply H. left. symmetry. exact E.
    - apply IH. intro H'. apply H. right. exact H'.
  Qed.
End AssocFacts.

Definition tget (sc : scope) (m : list (scope * list name)) : list name :=
  match as_get scope_eqb sc m with Some l => l | None => [] end.

Lemma tget_append sc sc' vs m :
  tget sc' (as_append scope_eqb sc vs m) = tget sc' m ++ (if scope_eqb sc' sc then vs else []).
Proof.
  unfold tget, as_append. destruct (as_get scope_eqb sc m) eqn:E.
  - rewrite (as_get_set scope_eqb scope_eqb_eq). destruct (scope_eqb sc' sc) eqn:E2.
    + apply scope_eqb_eq in E2. subst. rewrite E. reflexivity.
    + rewrite app_nil_r. reflexivity.
  - rewrite as_get_app. cbn [as_get]. destruct (as_get scope_eqb sc' m) eqn:E3.
    + destruct (scope_eqb sc' sc) eqn:E2; [|rewrite app_nil_r; reflexivity].
      apply scope_eqb_eq in E2. subst. congruence.
    + destruct (scope_eqb sc' sc); reflexivity.
Qed.

Lemma as_push_append {K V} (keq : K -> K -> bool) k (v : V) m : as_push keq k v m = as_append keq k [v] m.
Proof. reflexivity. Qed.

(* ------------------------------------------------------------------ list helpers *)
Lemma fm_fm {A B C} (f : B -> list C) (g : A -> list B) (l : list A) :
  flat_map f (flat_map g l) = flat_map (fun x => flat_map f (g x)) l.
Proof. induction l as [|x r IH]; cbn [flat_map]; [reflexivity|]. rewrite flat_map_app, IH. reflexivity. Qed.

Lemma fm_nil {A B} (l : list A) : flat_map (fun _ : A => @nil B) l = [].
Proof. induction l as [|x r IH]; cbn [flat_map app]; [reflexivity|exact IH]. Qed.

Lemma fold_left_map {A B C} (f : A -> C -> A) (g : B -> C) (l : list B) (a : A) :
  fold_left f (map g l) a = fold_left (fun a x => f a (g x)) l a.
Proof. revert a. induction l as [|x r IH]; intro a; cbn [map fold_left]; [reflexivity|apply IH]. Qed.

(* ------------------------------------------------------------------ the collecting fold *)
Definition cfold (evs : list event) (st : vars_state) : vars_state := fold_left vars_collect evs st.

Lemma cfold_app a b st : cfold (a ++ b) st = cfold b (cfold a st).
Proof. apply fold_left_app. Qed.

Lemma collect_fold s d c st :
  fold_left (hh (fun st e (_ : ctx) => vars_collect st e)) (ctr_document s d c) st = cfold (lin_document d) st.
Proof.
  rewrite <- (ctr_document_events s d c). unfold cfold. rewrite fold_left_map. reflexivity.
Qed.

Definition Inert (evs : list event) : Prop := forall st, cfold evs st = st.
Definition inert1 (e : event) : Prop := forall st, vars_collect st e = st.

Lemma Inert_nil : Inert [].
Proof. intro st. reflexivity. Qed.
Lemma Inert_app a b : Inert a -> Inert b -> Inert (a ++ b).
Proof. intros Ha Hb st. rewrite cfold_app, Ha, Hb. reflexivity. Qed.
Lemma Inert_cons e evs : inert1 e -> Inert evs -> Inert (e :: evs).
Proof. intros He H st. unfold cfold. cbn [fold_left]. rewrite He. apply H. Qed.
Lemma Inert_one e : inert1 e -> Inert [e].
Proof. intro He. apply Inert_cons; [exact He|apply Inert_nil]. Qed.
Lemma Inert_flat_map {A} (f : A -> list event) l : Forall (fun x => Inert (f x)) l -> Inert (flat_map f l).
Proof.
  induction 1 as [|x r Hx Hr IH]; cbn [flat_map]; [apply Inert_nil|]. apply Inert_app; assumption.
Qed.

Lemma Inert_value v : Inert (lin_value v).
Proof.
  induction v as [n|z|b|str|b| |n|l IH|l IH] using value_ind'; try (intro st; reflexivity).
  - cbn [lin_value]. apply Inert_cons; [intro st; reflexivity|].
    apply Inert_app; [apply Inert_flat_map; exact IH|apply Inert_one; intro st; reflexivity].
  - cbn [lin_value]. apply Inert_cons; [intro st; reflexivity|].
    apply Inert_app; [|apply Inert_one; intro st; reflexivity].
    apply Inert_flat_map. eapply Forall_impl; [|exact IH]. intros kv Hkv. cbv beta.
    apply Inert_cons; [intro st; reflexivity|].
    apply Inert_app; [exact Hkv|apply Inert_one; intro st; reflexivity].
Qed.

(* a segment of the walk inside one definition: scope and defined-table untouched, the used /
   spreads tables extended under the current scope *)
Definition Seg (evs : list event) (vars sprs : list name) : Prop :=
  forall st sc, vs_scope st = Some sc ->
    vs_scope (cfold evs st) = Some sc /\
    vs_defined (cfold evs st) = vs_defined st /\
    vs_seen (cfold evs st) = vs_seen st /\
    (forall sc', tget sc' (vs_used (cfold evs st))
                 = tget sc' (vs_used st) ++ (if scope_eqb sc' sc then vars else [])) /\
    (forall sc', tget sc' (vs_spreads (cfold evs st))
                 = tget sc' (vs_spreads st) ++ (if scope_eqb sc' sc then sprs else [])).

Lemma Seg_eq evs v s v' s' : Seg evs v s -> v = v' -> s = s' -> Seg evs v' s'.
Proof. intros H -> ->. exact H. Qed.

Lemma Seg_inert evs : Inert evs -> Seg evs [] [].
Proof.
  intros H st sc Hsc. rewrite H. repeat split; try assumption;
    intro sc'; destruct (scope_eqb sc' sc); rewrite app_nil_r; reflexivity.
Qed.

Lemma Seg_app a b v1 s1 v2 s2 : Seg a v1 s1 -> Seg b v2 s2 -> Seg (a ++ b) (v1 ++ v2) (s1 ++ s2).
Proof.
  intros Ha Hb st sc Hsc. rewrite cfold_app.
  destruct (Ha st sc Hsc) as (A1 & A2 & A5 & A3 & A4).
  destruct (Hb (cfold a st) sc A1) as (B1 & B2 & B5 & B3 & B4).
  split; [exact B1|]. split; [congruence|]. split; [congruence|]. split; intro sc'.
  - rewrite B3, A3, <- app_assoc. destruct (scope_eqb sc' sc); reflexivity.
  - rewrite B4, A4, <- app_assoc. destruct (scope_eqb sc' sc); reflexivity.
Qed.

Lemma Seg_cons_inert e evs v s : inert1 e -> Seg evs v s -> Seg (e :: evs) v s.
Proof.
  intros He H. change (Seg ([e] ++ evs) ([] ++ v) ([] ++ s)).
  apply Seg_app; [apply Seg_inert, Inert_one, He|exact H].
Qed.

Lemma Seg_snoc_inert evs tail v s : Seg evs v s -> Inert tail -> Seg (evs ++ tail) v s.
Proof.
  intros H Ht. eapply Seg_eq; [apply Seg_app; [exact H|apply Seg_inert, Ht]| |]; apply app_nil_r.
Qed.

Lemma Seg_flat_map {A} (f : A -> list event) (g h : A -> list name) l :
  Forall (fun x => Seg (f x) (g x) (h x)) l -> Seg (flat_map f l) (flat_map g l) (flat_map h l).
Proof.
  induction 1 as [|x r Hx Hr IH]; cbn [flat_map]; [apply Seg_inert, Inert_nil|].
  apply Seg_app; assumption.
Qed.

Lemma vin_eq v : variables_in_use v = var_leaves v.
Proof. reflexivity. Qed.

Definition args_vars (args : list argument) : list name := flat_map (fun a : argument => var_leaves (snd a)) args.

Lemma Seg_enter_argument a : Seg [Enter (NArgument a)] (var_leaves (snd a)) [].
Proof.
  intros st sc Hsc. unfold cfold. cbn [fold_left vars_collect]. rewrite Hsc.
  cbn [vs_scope vs_defined vs_seen vs_used vs_spreads]. repeat split; try assumption; intro sc'.
  - rewrite tget_append, vin_eq. reflexivity.
  - destruct (scope_eqb sc' sc); rewrite app_nil_r; reflexivity.
Qed.

Lemma Seg_enter_spread p n dirs : Seg [Enter (NSpread (SSpread p n dirs))] [] [n].
Proof.
  intros st sc Hsc. unfold cfold. cbn [fold_left vars_collect]. rewrite Hsc.
  cbn [vs_scope vs_defined vs_seen vs_used vs_spreads]. repeat split; try assumption; intro sc'.
  - destruct (scope_eqb sc' sc); rewrite app_nil_r; reflexivity.
  - rewrite as_push_append, tget_append. reflexivity.
Qed.

Lemma Seg_argument a : Seg (lin_argument a) (var_leaves (snd a)) [].
Proof.
  unfold lin_argument.
  change (Seg ([Enter (NArgument a)] ++ (lin_value (snd a) ++ [Leave (NArgument a)])) (var_leaves (snd a)) []).
  eapply Seg_eq; [apply Seg_app; [apply Seg_enter_argument|apply Seg_inert]| |].
  - apply Inert_app; [apply Inert_value|apply Inert_one; intro st; reflexivity].
  - apply app_nil_r.
  - reflexivity.
Qed.

Lemma Seg_arguments args : Seg (flat_map lin_argument args) (args_vars args) [].
Proof.
  eapply Seg_eq; [apply Seg_flat_map with (g := fun a : argument => var_leaves (snd a)) (h := fun _ => [])| |].
  - apply Forall_forall. intros a _. apply Seg_argument.
  - reflexivity.
  - apply fm_nil.
Qed.

Lemma Seg_directive d : Seg (lin_directive d) (args_vars (d_args d)) [].
Proof.
  unfold lin_directive. apply Seg_cons_inert; [intro st; reflexivity|].
  apply Seg_snoc_inert; [apply Seg_arguments|apply Inert_one; intro st; reflexivity].
Qed.

Lemma Seg_directives dirs : Seg (flat_map lin_directive dirs) (dirs_vars dirs) [].
Proof.
  eapply Seg_eq; [apply Seg_flat_map with (g := fun d => args_vars (d_args d)) (h := fun _ => [])| |].
  - apply Forall_forall. intros d _. apply Seg_directive.
  - reflexivity.
  - apply fm_nil.
Qed.

Definition gv (x : selection) : list name :=
  flat_map (fun a : argument => var_leaves (snd a)) (sel_args x) ++ dirs_vars (sel_dirs x).
Definition gs (x : selection) : list name := match x with SSpread _ n _ => [n] | _ => [] end.

Lemma sels_vars_eq l : sels_vars l = flat_map (fun y => flat_map gv (sel_all y)) l.
Proof. unfold sels_vars, sels_all. apply fm_fm. Qed.
Lemma spreads_in_eq l : spreads_in l = flat_map (fun y => flat_map gs (sel_all y)) l.
Proof. unfold spreads_in, sels_all. apply fm_fm. Qed.

Lemma Seg_selset_body sp sels :
  Forall (fun x => Seg (lin_selection x) (flat_map gv (sel_all x)) (flat_map gs (sel_all x))) sels ->
  forall tail, Inert tail ->
  Seg (Enter (NSelectionSet sp sels) :: flat_map lin_selection sels ++ tail)
      (flat_map (fun y => flat_map gv (sel_all y)) sels) (flat_map (fun y => flat_map gs (sel_all y)) sels).
Proof.
  intros IH tail Ht. apply Seg_cons_inert; [intro st; reflexivity|].
  apply Seg_snoc_inert; [|exact Ht]. apply Seg_flat_map. exact IH.
Qed.

Lemma Seg_selection x : Seg (lin_selection x) (flat_map gv (sel_all x)) (flat_map gs (sel_all x)).
Proof.
  induction x as [p al n args dirs sp sels IH|p n dirs|p tc dirs sp sels IH] using selection_ind'.
  - change (sel_all (SField p al n args dirs sp sels))
      with (SField p al n args dirs sp sels :: flat_map sel_all sels).
    cbn [flat_map lin_selection]. rewrite !fm_fm. unfold gv at 1. cbn [sel_args sel_dirs gs app].
    apply Seg_cons_inert; [intro st; reflexivity|].
    eapply Seg_eq.
    + apply Seg_app; [apply Seg_arguments|]. apply Seg_app; [apply Seg_directives|].
      apply (Seg_selset_body sp sels IH). apply Inert_cons; [intro st; reflexivity|].
      apply Inert_one; intro st; reflexivity.
    + unfold args_vars. rewrite <- app_assoc. reflexivity.
    + reflexivity.
  - cbn [sel_all flat_map lin_selection gs app]. unfold gv. cbn [sel_args sel_dirs flat_map app].
    rewrite app_nil_r.
    change (Seg ([Enter (NSpread (SSpread p n dirs))] ++ (flat_map lin_directive dirs ++ [Leave (NSpread (SSpread p n dirs))]))
                (dirs_vars dirs) [n]).
    eapply Seg_eq.
    + apply Seg_app; [apply Seg_enter_spread|].
      apply Seg_snoc_inert; [apply Seg_directives|apply Inert_one; intro st; reflexivity].
    + reflexivity.
    + reflexivity.
  - change (sel_all (SInline p tc dirs sp sels))
      with (SInline p tc dirs sp sels :: flat_map sel_all sels).
    cbn [flat_map lin_selection]. rewrite !fm_fm. unfold gv at 1. cbn [sel_args sel_dirs gs app flat_map].
    apply Seg_cons_inert; [intro st; reflexivity|].
    eapply Seg_eq.
    + apply Seg_app; [apply Seg_directives|].
      apply (Seg_selset_body sp sels IH). apply Inert_cons; [intro st; reflexivity|].
      apply Inert_one; intro st; reflexivity.
    + reflexivity.
    + reflexivity.
Qed.

Lemma Seg_selection_set sp sels : Seg (lin_selection_set sp sels) (sels_vars sels) (spreads_in sels).
Proof.
  rewrite sels_vars_eq, spreads_in_eq. unfold lin_selection_set.
  apply Seg_selset_body; [|apply Inert_one; intro st; reflexivity].
  apply Forall_forall. intros x _. apply Seg_selection.
Qed.

(* ------------------------------------------------------------------ (a) the collected tables *)
(* the definitions of a document, each with the number of operation definitions before it
   (counted from k): the index the rules give to an operation *)
Fixpoint idefs (k : nat) (ds : document) : list (nat * definition) :=
  match ds with
  | [] => []
  | DOp o :: r => (k, DOp o) :: idefs (S k) r
  | DFrag f :: r => (k, DFrag f) :: idefs k r
  end.
Definition nops (ds : document) : nat := List.length (operations_of ds).
Definition iops (k : nat) (ds : document) : list (nat * operation) :=
  flat_map (fun x : nat * definition => match snd x with DOp o => [(fst x, o)] | DFrag _ => [] end) (idefs k ds).

Lemma operations_of_app a b : operations_of (a ++ b) = operations_of a ++ operations_of b.
Proof. apply flat_map_app. Qed.

Lemma nops_app a b : nops (a ++ b) = nops a + nops b.
Proof. unfold nops. rewrite operations_of_app. apply app_length. Qed.

Lemma idefs_app a : forall k b, idefs k (a ++ b) = idefs k a ++ idefs (k + nops a) b.
Proof.
  induction a as [|x r IH]; intros k b; cbn [app idefs].
  - unfold nops. cbn. rewrite Nat.add_0_r. reflexivity.
  - destruct x as [o|f]; cbn [app]; rewrite IH; unfold nops; cbn [operations_of flat_map app List.length].
    + fold (operations_of r). rewrite Nat.add_succ_r. reflexivity.
    + fold (operations_of r). reflexivity.
Qed.

Lemma iops_app k a b : iops k (a ++ b) = iops k a ++ iops (k + nops a) b.
Proof. unfold iops. rewrite idefs_app. apply flat_map_app. Qed.

Lemma idefs_ge ds : forall k i x, In (i, x) (idefs k ds) -> k <= i.
Proof.
  induction ds as [|y r IH]; intros k i x H; [destruct H|].
  destruct y as [o|f]; cbn [idefs] in H; destruct H as [H|H]; try (inversion H; lia).
  - apply IH in H. lia.
  - apply IH in H. lia.
Qed.

Lemma idefs_op_lt ds : forall k i o, In (i, DOp o) (idefs k ds) -> i < k + nops ds.
Proof.
  induction ds as [|y r IH]; intros k i o H; [destruct H|].
  destruct y as [o'|f]; cbn [idefs] in H; unfold nops; cbn [operations_of flat_map app List.length];
    fold (operations_of r); fold (nops r); destruct H as [H|H]; try (inversion H; lia).
  - apply IH in H. lia.
  - apply IH in H. lia.
Qed.

Lemma in_idefs ds x : forall k, In x ds <-> exists i, In (i, x) (idefs k ds).
Proof.
  induction ds as [|y r IH]; intro k; cbn [idefs In].
  - split; [intros []|intros (i & [])].
  - destruct y as [o|f]; cbn [In].
    + rewrite (IH (S k)). split.
      * intros [<-|(i & H)]; [exists k; left; reflexivity|exists i; right; exact H].
      * intros (i & [H|H]); [left; inversion H; reflexivity|right; exists i; exact H].
    + rewrite (IH k). split.
      * intros [<-|(i & H)]; [exists k; left; reflexivity|exists i; right; exact H].
      * intros (i & [H|H]); [left; inversion H; reflexivity|right; exists i; exact H].
Qed.

Lemma idefs_snd_In k ds i x : In (i, x) (idefs k ds) -> In x ds.
Proof. intro H. apply (in_idefs ds x k). exists i. exact H. Qed.

(* an index names one operation *)
Lemma idefs_index_inj ds : forall k i o o',
  In (i, DOp o) (idefs k ds) -> In (i, DOp o') (idefs k ds) -> o = o'.
Proof.
  induction ds as [|y r IH]; intros k i o o' H H'; [destruct H|].
  destruct y as [o0|f]; cbn [idefs] in H, H'.
  - destruct H as [H|H], H' as [H'|H'].
    + inversion H. inversion H'. congruence.
    + inversion H. subst. apply idefs_ge in H'. lia.
    + inversion H'. subst. apply idefs_ge in H. lia.
    + exact (IH _ _ _ _ H H').
  - destruct H as [H|H]; [inversion H|]. destruct H' as [H'|H']; [inversion H'|].
    exact (IH _ _ _ _ H H').
Qed.

Lemma in_iops k ds i o : In (i, o) (iops k ds) <-> In (i, DOp o) (idefs k ds).
Proof.
  unfold iops. rewrite in_flat_map. split.
  - intros ([j [o'|f]] & Hx & H); cbn [fst snd] in H; [|destruct H].
    destruct H as [H|[]]. inversion H. subst. exact Hx.
  - intro H. exists (i, DOp o). split; [exact H|left; reflexivity].
Qed.

Lemma in_operations_of d o : In o (operations_of d) <-> In (DOp o) d.
Proof.
  unfold operations_of. rewrite in_flat_map. split.
  - intros ([o'|f] & Hx & Ho); [|destruct Ho]. destruct Ho as [->|[]]. exact Hx.
  - intro H. exists (DOp o). split; [exact H|left; reflexivity].
Qed.

Lemma operations_iops d o : In o (operations_of d) <-> exists i, In (i, o) (iops 0 d).
Proof.
  rewrite in_operations_of, (in_idefs d (DOp o) 0). split; intros (i & H); exists i; apply in_iops; exact H.
Qed.

Definition vset (o : operation) : list name :=
  fold_left (fun l v => set_add (v_name v) l) (op_variable_definitions o) [].
Definition def_entry (io : nat * operation) : (nat * option name) * list name :=
  ((fst io, op_node_name (snd io)), vset (snd io)).
Definition def_scope (x : nat * definition) : scope :=
  match snd x with DOp o => ScOp (fst x) (op_node_name o) | DFrag f => ScFrag (fr_name f) end.
Definition def_vars (x : definition) : list name :=
  match x with
  | DOp o => dirs_vars (op_directives o) ++ sels_vars (o_sels o)
  | DFrag f => dirs_vars (fr_dirs f) ++ sels_vars (fr_sels f)
  end.
Definition def_sprs (x : definition) : list name := spreads_in (def_sels x).
Definition used_spec (ds : document) (sc : scope) : list name :=
  flat_map (fun x => if scope_eqb sc (def_scope x) then def_vars (snd x) else []) (idefs 0 ds).
Definition sprs_spec (ds : document) (sc : scope) : list name :=
  flat_map (fun x => if scope_eqb sc (def_scope x) then def_sprs (snd x) else []) (idefs 0 ds).

Record TInv (ds : document) (st : vars_state) : Prop := mkTInv {
  ti_defined : vs_defined st = map def_entry (iops 0 ds);
  ti_seen : vs_seen st = nops ds;
  ti_used : forall sc, tget sc (vs_used st) = used_spec ds sc;
  ti_sprs : forall sc, tget sc (vs_spreads st) = sprs_spec ds sc }.

Lemma cfold_cons e r st : cfold (e :: r) st = cfold r (vars_collect st e).
Proof. reflexivity. Qed.

Lemma cfold_vardef v st m k vars :
  vs_scope st = Some (ScOp (fst k) (snd k)) -> vs_defined st = m ++ [(k, vars)] -> as_get opkey_eqb k m = None ->
  cfold (lin_vardef v) st
  = mkVars (vs_scope st) (m ++ [(k, set_add (v_name v) vars)]) (vs_seen st) (vs_used st) (vs_spreads st).
Proof.
  intros Hsc Hdef Hnone. unfold lin_vardef. rewrite cfold_cons.
  assert (Hin : Inert (match v_default v with Some dv => lin_value dv | None => [] end ++ [Leave (NVarDef v)])).
  { apply Inert_app; [|apply Inert_one; intro st'; reflexivity].
    destruct (v_default v); [apply Inert_value|apply Inert_nil]. }
  rewrite Hin. cbn [vars_collect]. rewrite Hsc. rewrite <- (surjective_pairing k).
  rewrite Hdef, (as_get_app opkey_eqb), Hnone. cbn [as_get].
  rewrite opkey_eqb_refl. rewrite (as_set_app_last opkey_eqb opkey_eqb_eq) by exact Hnone. reflexivity.
Qed.

Lemma cfold_vardefs vds : forall st m k vars,
  vs_scope st = Some (ScOp (fst k) (snd k)) -> vs_defined st = m ++ [(k, vars)] -> as_get opkey_eqb k m = None ->
  cfold (flat_map lin_vardef vds) st
  = mkVars (vs_scope st) (m ++ [(k, fold_left (fun l v => set_add (v_name v) l) vds vars)])
           (vs_seen st) (vs_used st) (vs_spreads st).
Proof.
  induction vds as [|v r IH]; intros st m k vars Hsc Hdef Hnone; cbn [flat_map fold_left].
  - destruct st as [a b c e f]. cbn in *. subst. reflexivity.
  - rewrite cfold_app, (cfold_vardef v st m k vars Hsc Hdef Hnone).
    rewrite (IH _ m k (set_add (v_name v) vars)); [reflexivity|exact Hsc|reflexivity|exact Hnone].
Qed.

(* the key of the operation being entered is new: every key of the table has a smaller index *)
Lemma def_entry_fresh pre n :
  as_get opkey_eqb (nops pre, n) (map def_entry (iops 0 pre)) = None.
Proof.
  unfold def_entry.
  apply (as_get_none_map opkey_eqb opkey_eqb_eq (fun io : nat * operation => (fst io, op_node_name (snd io)))).
  intro H. apply in_map_iff in H. destruct H as ([i o] & E & Hin). cbn [fst snd] in E.
  apply in_iops, idefs_op_lt in Hin. inversion E. lia.
Qed.

Lemma idefs_snoc pre x : idefs 0 (pre ++ [x]) = idefs 0 pre ++ [(nops pre, x)].
Proof. rewrite idefs_app. cbn [Nat.add]. destruct x; reflexivity. Qed.

Lemma TInv_step pre x st :
  TInv pre st -> TInv (pre ++ [x]) (cfold (lin_definition x) st).
Proof.
  intros [Hd Hk Hu Hs]. destruct x as [o|f].
  - set (n := op_node_name o). set (i := nops pre).
    assert (Hnone : as_get opkey_eqb (i, n) (vs_defined st) = None).
    { rewrite Hd. apply def_entry_fresh. }
    cbn [lin_definition]. rewrite cfold_cons, !cfold_app.
    assert (E1 : vars_collect st (Enter (NOperation o))
                 = mkVars (Some (ScOp i n)) (vs_defined st ++ [((i, n), [])]) (S i) (vs_used st) (vs_spreads st)).
    { cbn [vars_collect]. rewrite Hk. fold n i. rewrite Hnone. reflexivity. }
    rewrite E1. set (st1 := mkVars _ _ _ _ _).
    destruct (Seg_directives (op_directives o) st1 (ScOp i n) eq_refl) as (A1 & A2 & A5 & A3 & A4).
    set (st2 := cfold (flat_map lin_directive (op_directives o)) st1) in *.
    cbn [st1 vs_defined vs_seen vs_used vs_spreads] in A2, A3, A4, A5.
    rewrite (cfold_vardefs (op_variable_definitions o) st2 (vs_defined st) (i, n) [] A1 A2 Hnone).
    set (st3 := mkVars _ _ _ _ _).
    assert (Hseg : Seg (lin_selection_set (o_span o) (o_sels o) ++ [Leave (NOperation o)])
                       (sels_vars (o_sels o)) (spreads_in (o_sels o))).
    { apply Seg_snoc_inert; [apply Seg_selection_set|apply Inert_one; intro st'; reflexivity]. }
    rewrite <- cfold_app.
    destruct (Hseg st3 (ScOp i n) A1) as (B1 & B2 & B5 & B3 & B4).
    cbn [st3 vs_defined vs_seen vs_used vs_spreads] in B2, B3, B4, B5.
    constructor.
    + rewrite B2, Hd, iops_app, map_app. reflexivity.
    + rewrite B5, A5, nops_app. unfold nops at 2. cbn. fold i. lia.
    + intro sc. rewrite B3, A3, Hu. unfold used_spec. rewrite idefs_snoc, flat_map_app.
      cbn [flat_map def_scope def_vars fst snd].
      fold n i. destruct (scope_eqb sc (ScOp i n)); rewrite ?app_nil_r, <- ?app_assoc; reflexivity.
    + intro sc. rewrite B4, A4, Hs. unfold sprs_spec. rewrite idefs_snoc, flat_map_app.
      cbn [flat_map def_scope def_sprs def_sels fst snd].
      fold n i. destruct (scope_eqb sc (ScOp i n)); rewrite ?app_nil_r; reflexivity.
  - cbn [lin_definition]. rewrite cfold_cons. cbn [vars_collect]. set (st1 := mkVars _ _ _ _ _).
    assert (Hseg : Seg (flat_map lin_directive (fr_dirs f) ++ lin_selection_set (fr_span f) (fr_sels f) ++ [Leave (NFragmentDef f)])
                       (dirs_vars (fr_dirs f) ++ sels_vars (fr_sels f)) ([] ++ spreads_in (fr_sels f))).
    { apply Seg_app; [apply Seg_directives|].
      apply Seg_snoc_inert; [apply Seg_selection_set|apply Inert_one; intro st'; reflexivity]. }
    destruct (Hseg st1 (ScFrag (fr_name f)) eq_refl) as (B1 & B2 & B5 & B3 & B4).
    cbn [st1 vs_defined vs_seen vs_used vs_spreads app] in B2, B3, B4, B5.
    constructor.
    + rewrite B2, Hd, iops_app. unfold iops at 3. cbn [idefs flat_map snd]. rewrite app_nil_r. reflexivity.
    + rewrite B5, Hk, nops_app. unfold nops at 3. cbn. lia.
    + intro sc. rewrite B3, Hu. unfold used_spec. rewrite idefs_snoc, flat_map_app.
      cbn [flat_map def_scope def_vars fst snd].
      rewrite app_nil_r. reflexivity.
    + intro sc. rewrite B4, Hs. unfold sprs_spec. rewrite idefs_snoc, flat_map_app.
      cbn [flat_map def_scope def_sprs def_sels fst snd].
      rewrite app_nil_r. reflexivity.
Qed.

Lemma TInv_defs ds : forall pre st,
  TInv pre st -> TInv (pre ++ ds) (cfold (flat_map lin_definition ds) st).
Proof.
  induction ds as [|x r IH]; intros pre st Hinv; cbn [flat_map].
  - rewrite app_nil_r. exact Hinv.
  - rewrite cfold_app.
    replace (pre ++ x :: r) with ((pre ++ [x]) ++ r) by (rewrite <- app_assoc; reflexivity).
    apply IH. apply TInv_step. exact Hinv.
Qed.

(* for every document: operations may share names or all be anonymous *)
Lemma TInv_document d : TInv d (cfold (lin_document d) vars_init).
Proof.
  unfold lin_document. rewrite cfold_cons, cfold_app.
  change (vars_collect vars_init (Enter (NDocument d))) with vars_init.
  change (cfold [Leave (NDocument d)] ?x) with x.
  apply (TInv_defs d [] vars_init).
  constructor; reflexivity.
Qed.

Lemma distinct_operations_NoDup d :
  distinct_operations d = true -> NoDup (map op_node_name (operations_of d)).
Proof.
  unfold distinct_operations, v_unique_operation_names, named_operation_names.
  rewrite negb_involutive. generalize (operations_of d) as l. intro l.
  rewrite andb_true_iff, Nat.leb_le.
  induction l as [|o r IH]; cbn [map flat_map filter]; intros [H1 H2]; [constructor|].
  destruct (op_node_name o) as [n|] eqn:E.
  - cbn [app nodup_names is_none] in H1, H2. apply andb_true_iff in H1. destruct H1 as [H1 H3].
    constructor; [|apply IH; split; assumption].
    intro Hin. apply negb_true_iff, mem_name_false in H1. apply H1.
    apply in_map_iff in Hin. destruct Hin as [o' [Ho' Hin]]. apply in_flat_map.
    exists o'. split; [exact Hin|]. rewrite Ho'. left. reflexivity.
  - cbn [app is_none] in H1, H2. cbn [List.length] in H2.
    constructor; [|apply IH; split; [exact H1|lia]].
    intro Hin. apply in_map_iff in Hin. destruct Hin as [o' [Ho' Hin]].
    assert (Hf : In o' (filter (fun o0 => is_none (op_node_name o0)) r)).
    { apply filter_In. split; [exact Hin|]. rewrite Ho'. reflexivity. }
    destruct (filter (fun o0 => is_none (op_node_name o0)) r); [destruct Hf|cbn [List.length] in H2; lia].
Qed.

(* ------------------------------------------------------------------ (b) the reachability walk *)
Lemma filter_len_le {A} (p q : A -> bool) l :
  (forall x, p x = true -> q x = true) -> List.length (filter p l) <= List.length (filter q l).
Proof.
  intro H. induction l as [|x r IH]; cbn [filter]; [lia|].
  destruct (p x) eqn:Ep.
  - rewrite (H x Ep). cbn [List.length]. lia.
  - destruct (q x); cbn [List.length]; lia.
Qed.

Lemma filter_len_lt {A} (p q : A -> bool) l a :
  (forall x, p x = true -> q x = true) -> In a l -> q a = true -> p a = false ->
  List.length (filter p l) < List.length (filter q l).
Proof.
  intros H Hin Hq Hp. induction l as [|x r IH]; [destruct Hin|].
  cbn [filter]. destruct Hin as [->|Hin].
  - rewrite Hp, Hq. cbn [List.length]. pose proof (filter_len_le p q r H). lia.
  - specialize (IH Hin). destruct (p x) eqn:Ep.
    + rewrite (H x Ep). cbn [List.length]. lia.
    + destruct (q x); cbn [List.length]; lia.
Qed.

Lemma filter_len_all {A} (p : A -> bool) l : List.length (filter p l) <= List.length l.
Proof. induction l as [|x r IH]; cbn [filter]; [lia|]. destruct (p x); cbn [List.length]; lia. Qed.

Section Walk.
  Variable st : vars_state.
  Variable pick : name -> bool.
  Variable U : list name.

  Definition succs (sc : scope) : list name := tget sc (vs_spreads st).
  Definition usedv (sc : scope) : list name := tget sc (vs_used st).
  Hypothesis HU : forall sc sp, In sp (succs sc) -> In sp U.

  Definition walk_loop (fuel : nat) : list name -> list name -> list scope -> option (list name * list scope) :=
    fix loop (l : list name) (acc : list name) (visited : list scope) :=
      match l with
      | [] => Some (acc, visited)
      | sp :: r =>
          match vars_walk fuel st pick (ScFrag sp) acc visited with
          | Some (a', v') => loop r a' v'
          | None => None
          end
      end.

  Definition pick_fold (l acc : list name) : list name :=
    fold_left (fun a v => if pick v then set_add v a else a) l acc.

  Lemma vars_walk_S fuel from acc vis :
    vars_walk (S fuel) st pick from acc vis =
    if existsb (scope_eqb from) vis then Some (acc, vis)
    else walk_loop fuel (succs from) (pick_fold (usedv from) acc) (vis ++ [from]).
  Proof. reflexivity. Qed.

  Lemma pick_fold_In l : forall acc v, In v (pick_fold l acc) <-> In v acc \/ (In v l /\ pick v = true).
  Proof.
    induction l as [|x r IH]; intros acc v; cbn [pick_fold fold_left].
    - split; [auto|]. intros [H|[[] _]]. exact H.
    - fold (pick_fold r (if pick x then set_add x acc else acc)). rewrite IH.
      destruct (pick x) eqn:E.
      + rewrite set_add_In. cbn [In]. split.
        * intros [[->|H]|[H1 H2]]; auto.
        * intros [H|[[->|H1] H2]]; auto.
      + cbn [In]. split.
        * intros [H|[H1 H2]]; auto.
        * intros [H|[[->|H1] H2]]; auto. congruence.
  Qed.

  Definition measure (vis : list scope) : nat :=
    List.length (filter (fun sp => negb (existsb (scope_eqb (ScFrag sp)) vis)) U).

  Lemma measure_mono vis vis' : incl vis vis' -> measure vis' <= measure vis.
  Proof.
    intro H. apply filter_len_le. intros sp Hsp. apply negb_true_iff in Hsp. apply negb_true_iff.
    destruct (existsb (scope_eqb (ScFrag sp)) vis) eqn:E; [|reflexivity].
    apply existsb_scope_In in E. apply H in E. apply existsb_scope_In in E. congruence.
  Qed.

  Lemma measure_lt vis sp :
    In sp U -> ~ In (ScFrag sp) vis -> measure (vis ++ [ScFrag sp]) < measure vis.
  Proof.
    intros HinU Hnot. apply filter_len_lt with (a := sp).
    - intros x Hx. apply negb_true_iff in Hx. apply negb_true_iff.
      destruct (existsb (scope_eqb (ScFrag x)) vis) eqn:E; [|reflexivity].
      apply existsb_scope_In in E.
      assert (E' : In (ScFrag x) (vis ++ [ScFrag sp])) by (apply in_or_app; left; exact E).
      apply existsb_scope_In in E'. congruence.
    - exact HinU.
    - apply negb_true_iff. destruct (existsb (scope_eqb (ScFrag sp)) vis) eqn:E; [|reflexivity].
      apply existsb_scope_In in E. contradiction.
    - apply negb_false_iff. apply existsb_scope_In. apply in_or_app. right. left. reflexivity.
  Qed.

  Variable root : scope.
  Inductive reach : scope -> Prop :=
  | reach_root : reach root
  | reach_step x sp : reach x -> In sp (succs x) -> reach (ScFrag sp).

  Definition WInv (S : list scope) (vis : list scope) (acc : list name) : Prop :=
    (forall x, In x vis -> ~ In x S -> forall sp, In sp (succs x) -> In (ScFrag sp) vis) /\
    (forall x, In x vis -> reach x) /\
    (forall v, In v acc -> pick v = true /\ exists x, In x vis /\ In v (usedv x)) /\
    (forall x v, In x vis -> In v (usedv x) -> pick v = true -> In v acc).

  Definition fuel_ok (fuel : nat) (from : scope) (vis : list scope) : Prop :=
    measure vis + (match from with ScOp _ _ => 1 | ScFrag _ => 0 end) < fuel.

  Definition WalkOK (fuel : nat) : Prop :=
    forall from acc vis,
      reach from -> (match from with ScFrag sp => In sp U | ScOp _ _ => True end) -> fuel_ok fuel from vis ->
      exists acc' vis', vars_walk fuel st pick from acc vis = Some (acc', vis') /\
        incl vis vis' /\ In from vis' /\ (forall S, WInv S vis acc -> WInv S vis' acc').

  Lemma loop_correct fuel (IHf : WalkOK fuel) : forall l acc vis,
    (forall sp, In sp l -> reach (ScFrag sp) /\ In sp U) -> measure vis < fuel ->
    exists acc' vis', walk_loop fuel l acc vis = Some (acc', vis') /\ incl vis vis' /\
      (forall sp, In sp l -> In (ScFrag sp) vis') /\ (forall S, WInv S vis acc -> WInv S vis' acc').
  Proof.
    induction l as [|sp r IH]; intros acc vis Hl Hm; cbn [walk_loop].
    - exists acc, vis. split; [reflexivity|]. split; [apply incl_refl|]. split; [intros sp []|auto].
    - destruct (Hl sp (or_introl eq_refl)) as [Hr HinU].
      destruct (IHf (ScFrag sp) acc vis Hr HinU) as (a1 & v1 & E1 & I1 & I2 & I3).
      { unfold fuel_ok. lia. }
      rewrite E1. fold (walk_loop fuel).
      destruct (IH a1 v1) as (a2 & v2 & E2 & J1 & J2 & J3).
      { intros sp' Hsp'. apply Hl. right. exact Hsp'. }
      { pose proof (measure_mono vis v1 I1). lia. }
      exists a2, v2. split; [exact E2|]. split; [eapply incl_tran; eassumption|].
      split; [|intros S HS; apply J3, I3, HS].
      intros sp' [->|Hsp']; [apply J1, I2|apply J2, Hsp'].
  Qed.

  Lemma walk_correct fuel : WalkOK fuel.
  Proof.
    induction fuel as [|fuel IHf]; intros from acc vis Hreach HinU Hfuel.
    - unfold fuel_ok in Hfuel. lia.
    - rewrite vars_walk_S. destruct (existsb (scope_eqb from) vis) eqn:E.
      + apply existsb_scope_In in E. exists acc, vis. split; [reflexivity|].
        split; [apply incl_refl|]. split; [exact E|auto].
      + assert (Hnot : ~ In from vis).
        { intro H. apply existsb_scope_In in H. congruence. }
        destruct (loop_correct fuel IHf (succs from) (pick_fold (usedv from) acc) (vis ++ [from]))
          as (a' & v' & E' & I1 & I2 & I3).
        { intros sp Hsp. split; [eapply reach_step; eassumption|eapply HU; eassumption]. }
        { unfold fuel_ok in Hfuel. destruct from as [i n|sp].
          - pose proof (measure_mono vis (vis ++ [ScOp i n]) (incl_appl _ (incl_refl _))). lia.
          - pose proof (measure_lt vis sp HinU Hnot). lia. }
        assert (Hfrom : In from v') by (apply I1, in_or_app; right; left; reflexivity).
        exists a', v'. split; [exact E'|]. split; [|split; [exact Hfrom|]].
        { intros x Hx. apply I1, in_or_app. left. exact Hx. }
        intros S (C1 & C2 & C3 & C4).
        assert (W1 : WInv (from :: S) (vis ++ [from]) (pick_fold (usedv from) acc)).
        { split; [|split; [|split]].
          - intros x Hx HxS sp Hsp. apply in_app_or in Hx. destruct Hx as [Hx|[<-|[]]].
            + apply in_or_app. left. apply (C1 x Hx); [|exact Hsp]. intro HS. apply HxS. right. exact HS.
            + exfalso. apply HxS. left. reflexivity.
          - intros x Hx. apply in_app_or in Hx. destruct Hx as [Hx|[<-|[]]]; [apply C2, Hx|exact Hreach].
          - intros v Hv. apply pick_fold_In in Hv. destruct Hv as [Hv|[Hv Hp]].
            + destruct (C3 v Hv) as [Hp (x & Hx & Hvx)]. split; [exact Hp|].
              exists x. split; [apply in_or_app; left; exact Hx|exact Hvx].
            + split; [exact Hp|]. exists from. split; [apply in_or_app; right; left; reflexivity|exact Hv].
          - intros x v Hx Hv Hp. apply pick_fold_In. apply in_app_or in Hx. destruct Hx as [Hx|[<-|[]]].
            + left. eapply C4; eassumption.
            + right. split; assumption. }
        destruct (I3 _ W1) as (D1 & D2 & D3 & D4).
        split; [|split; [|split]]; try assumption.
        intros x Hx HxS sp Hsp. destruct (scope_eqb x from) eqn:Ex.
        * apply scope_eqb_eq in Ex. subst x. apply I2, Hsp.
        * apply (D1 x Hx); [|exact Hsp]. intros [Hh|Hh]; [|contradiction].
          subst x. rewrite scope_eqb_refl in Ex. discriminate.
  Qed.

  Lemma walk_top fuel :
    (match root with ScFrag sp => In sp U | ScOp _ _ => True end) ->
    List.length U + 1 < fuel ->
    exists acc vis, vars_walk fuel st pick root [] [] = Some (acc, vis) /\
      (forall x, In x vis <-> reach x) /\
      (forall v, In v acc <-> pick v = true /\ exists x, reach x /\ In v (usedv x)).
  Proof.
    intros Hroot Hfuel.
    destruct (walk_correct fuel root [] [] reach_root Hroot) as (acc & vis & E & I1 & I2 & I3).
    { unfold fuel_ok, measure. pose proof (filter_len_all (fun sp => negb (existsb (scope_eqb (ScFrag sp)) [])) U).
      destruct root; lia. }
    destruct (I3 []) as (D1 & D2 & D3 & D4).
    { split; [|split; [|split]]; intros; try contradiction. }
    exists acc, vis. split; [exact E|].
    assert (Hvis : forall x, In x vis <-> reach x).
    { intro x. split; [apply D2|]. induction 1 as [|x sp Hx IH Hsp]; [exact I2|].
      apply (D1 x IH); [intros []|exact Hsp]. }
    split; [exact Hvis|]. intro v. split.
    - intro Hv. destruct (D3 v Hv) as [Hp (x & Hx & Hvx)]. split; [exact Hp|].
      exists x. split; [apply Hvis, Hx|exact Hvx].
    - intros [Hp (x & Hx & Hvx)]. apply (D4 x v); [apply Hvis, Hx|exact Hvx|exact Hp].
  Qed.
End Walk.

(* ------------------------------------------------------------------ (c) spread_closure = reachability *)
(* the closure lemmas are those of C06_graph_proofs ([closure_reach]: S (number of fragment
   definitions) rounds compute reachability along spreads); here only the adapter to reachability
   from a start set *)
Section Closure.
  Variable d : document.

  Inductive reachN (S0 : list name) : name -> Prop :=
  | rn_base n : In n S0 -> reachN S0 n
  | rn_step x y : reachN S0 x -> In y (fragment_spreads d x) -> reachN S0 y.

  Lemma reachN_sub S0 S1 n : (forall x, In x S1 -> reachN S0 x) -> reachN S1 n -> reachN S0 n.
  Proof. intros H. induction 1 as [n Hn|x y Hx IH Hy]; [apply H, Hn|eapply rn_step; eassumption]. Qed.

  Lemma path_reachN S0 a l x : C06_graph_proofs.path d a l x -> reachN S0 a -> reachN S0 x.
  Proof.
    induction 1 as [a|a b l x He Hp IH]; intro H; [exact H|].
    apply IH. eapply rn_step; [exact H|exact He].
  Qed.

  Lemma closure_iff S0 n :
    In n (spread_closure (S (List.length (fragments_of d))) d S0) <-> reachN S0 n.
  Proof.
    split.
    - intro H. apply (proj1 (C06_graph_proofs.closure_reach d S0 n)) in H.
      destruct H as (a & Ha & l & Hp). eapply path_reachN; [exact Hp|apply rn_base, Ha].
    - intro H. apply (proj2 (C06_graph_proofs.closure_reach d S0 n)).
      induction H as [n Hn|x y Hx IH Hy].
      + exists n. split; [exact Hn|apply C06_graph_proofs.reach_refl].
      + destruct IH as (a & Ha & Hr). exists a. split; [exact Ha|].
        eapply C06_graph_proofs.reach_snoc; [exact Hr|exact Hy].
  Qed.

  Lemma reachN_dedup S0 n : reachN (dedup_names S0) n <-> reachN S0 n.
  Proof.
    split; apply reachN_sub; intros x Hx; apply rn_base.
    - exact (proj1 (dedup_In x S0) Hx).
    - exact (proj2 (dedup_In x S0) Hx).
  Qed.
End Closure.

(* ------------------------------------------------------------------ tables vs specification *)
Lemma NoDup_map_inj {A B} (f : A -> B) (l : list A) a b :
  NoDup (map f l) -> In a l -> In b l -> f a = f b -> a = b.
Proof.
  induction l as [|x r IH]; cbn [map]; intros Hnd Ha Hb Hf; [destruct Ha|].
  inversion Hnd as [|y l' Hnot Hnd']. subst.
  destruct Ha as [->|Ha], Hb as [->|Hb].
  - reflexivity.
  - exfalso. apply Hnot. rewrite Hf. apply in_map. exact Hb.
  - exfalso. apply Hnot. rewrite <- Hf. apply in_map. exact Ha.
  - apply IH; assumption.
Qed.

Lemma sprs_spec_frag d n : sprs_spec d (ScFrag n) = fragment_spreads d n.
Proof.
  unfold sprs_spec, fragment_spreads, fragments_of. generalize 0 as k.
  induction d as [|x r IH]; intro k; cbn [idefs flat_map]; [reflexivity|].
  destruct x as [o|f]; cbn [idefs flat_map app]; unfold def_scope at 1; cbn [snd fst scope_eqb app def_sprs def_sels].
  - apply IH.
  - rewrite name_eqb_sym. f_equal. apply IH.
Qed.

Lemma used_spec_frag d n : used_spec d (ScFrag n) = fragment_vars d n.
Proof.
  unfold used_spec, fragment_vars, fragments_of. generalize 0 as k.
  induction d as [|x r IH]; intro k; cbn [idefs flat_map]; [reflexivity|].
  destruct x as [o|f]; cbn [idefs flat_map app]; unfold def_scope at 1; cbn [snd fst scope_eqb app def_vars].
  - apply IH.
  - rewrite name_eqb_sym. f_equal. apply IH.
Qed.

(* the entries of a table under the scope of the operation with index i are those of that
   operation alone *)
Lemma spec_op_In (g : definition -> list name) d i o x :
  In (i, DOp o) (idefs 0 d) ->
  (In x (flat_map (fun y => if scope_eqb (ScOp i (op_node_name o)) (def_scope y) then g (snd y) else []) (idefs 0 d))
   <-> In x (g (DOp o))).
Proof.
  intros Ho. rewrite in_flat_map. split.
  - intros (y & Hy & Hx). destruct (scope_eqb (ScOp i (op_node_name o)) (def_scope y)) eqn:E; [|destruct Hx].
    apply scope_eqb_eq in E. destruct y as [j [o'|f]]; unfold def_scope in E; cbn [fst snd] in E, Hx; [|discriminate].
    inversion E. subst j. rewrite (idefs_index_inj d 0 i o o' Ho Hy). exact Hx.
  - intro Hx. exists (i, DOp o). split; [exact Ho|].
    unfold def_scope. cbn [fst snd]. rewrite scope_eqb_refl. exact Hx.
Qed.

Section Connect.
  Variables (d : document) (st : vars_state) (i : nat) (o : operation).
  Hypothesis Hinv : TInv d st.
  Hypothesis Ho : In (i, DOp o) (idefs 0 d).

  Let root := ScOp i (op_node_name o).

  Lemma succs_root x : In x (succs st root) <-> In x (spreads_in (o_sels o)).
  Proof. unfold succs. rewrite (ti_sprs _ _ Hinv). apply (spec_op_In def_sprs d i o x Ho). Qed.

  Lemma usedv_root x :
    In x (usedv st root) <-> In x (dirs_vars (op_directives o) ++ sels_vars (o_sels o)).
  Proof. unfold usedv. rewrite (ti_used _ _ Hinv). apply (spec_op_In def_vars d i o x Ho). Qed.

  Lemma succs_frag n : succs st (ScFrag n) = fragment_spreads d n.
  Proof. unfold succs. rewrite (ti_sprs _ _ Hinv). apply sprs_spec_frag. Qed.

  Lemma usedv_frag n : usedv st (ScFrag n) = fragment_vars d n.
  Proof. unfold usedv. rewrite (ti_used _ _ Hinv). apply used_spec_frag. Qed.

  Lemma reach_iff x :
    reach st root x <-> x = root \/ exists n, x = ScFrag n /\ reachN d (spreads_in (o_sels o)) n.
  Proof.
    split.
    - induction 1 as [|x sp Hx IH Hsp]; [left; reflexivity|]. right. exists sp. split; [reflexivity|].
      destruct IH as [->|(n & -> & Hn)].
      + apply rn_base, succs_root, Hsp.
      + rewrite succs_frag in Hsp. eapply rn_step; eassumption.
    - intros [->|(n & -> & Hn)]; [apply reach_root|].
      induction Hn as [n Hn|x y Hx IH Hy].
      + eapply reach_step; [apply reach_root|]. apply succs_root, Hn.
      + eapply reach_step; [exact IH|]. rewrite succs_frag. exact Hy.
  Qed.

  Lemma used_in_op_iff v :
    In v (vars_used_in_op d o) <-> exists x, reach st root x /\ In v (usedv st x).
  Proof.
    unfold vars_used_in_op, op_reachable_fragments. rewrite app_assoc, in_app_iff, in_flat_map. split.
    - intros [H|(n & Hn & Hv)].
      + exists root. split; [apply reach_root|apply usedv_root, H].
      + exists (ScFrag n). split; [|rewrite usedv_frag; exact Hv].
        apply reach_iff. right. exists n. split; [reflexivity|].
        exact (proj1 (reachN_dedup d _ n) (proj1 (closure_iff d _ n) Hn)).
    - intros (x & Hx & Hv). apply reach_iff in Hx. destruct Hx as [->|(n & -> & Hn)].
      + left. apply usedv_root, Hv.
      + right. exists n. split; [exact (proj2 (closure_iff d _ n) (proj2 (reachN_dedup d _ n) Hn))|].
        rewrite usedv_frag in Hv. exact Hv.
  Qed.
End Connect.

(* ------------------------------------------------------------------ fuel *)
Lemma spreads_in_length l : List.length (spreads_in l) = List.length (get_recursive_fragment_spreads l).
Proof. rewrite <- C06_graph_proofs.recursive_spreads_spreads_in. apply map_length. Qed.

Definition all_spreads (d : document) : list name := flat_map def_sprs d.

Lemma all_spreads_length d : List.length (all_spreads d) = total_spreads d.
Proof.
  unfold all_spreads, total_spreads. induction d as [|x r IH]; cbn [flat_map]; [reflexivity|].
  rewrite !app_length, IH. f_equal. destruct x as [o|f]; apply spreads_in_length.
Qed.

Lemma succs_in_all d st : TInv d st -> forall sc sp, In sp (succs st sc) -> In sp (all_spreads d).
Proof.
  intros Hinv sc sp. unfold succs. rewrite (ti_sprs _ _ Hinv). unfold sprs_spec, all_spreads.
  rewrite !in_flat_map. intros ([i x] & Hx & Hsp). exists x. split; [exact (idefs_snd_In 0 d i x Hx)|].
  destruct (scope_eqb sc (def_scope (i, x))); [exact Hsp|destruct Hsp].
Qed.

(* fuel sufficiency and the result of the walk from an operation *)
Lemma vars_walk_total d st i o pick :
  TInv d st -> In (i, o) (iops 0 d) ->
  exists acc vis, vars_walk (vars_fuel d) st pick (ScOp i (op_node_name o)) [] [] = Some (acc, vis) /\
    forall v, In v acc <-> pick v = true /\ In v (vars_used_in_op d o).
Proof.
  intros Hinv Ho. apply in_iops in Ho.
  destruct (walk_top st pick (all_spreads d) (succs_in_all d st Hinv) (ScOp i (op_node_name o)) (vars_fuel d) I)
    as (acc & vis & E & _ & Hacc).
  { rewrite all_spreads_length. unfold vars_fuel. lia. }
  exists acc, vis. split; [exact E|]. intro v. rewrite Hacc.
  rewrite (used_in_op_iff d st i o Hinv Ho v). reflexivity.
Qed.

(* ------------------------------------------------------------------ (d) the two equivalences *)
Lemma finish_errors (W : (nat * option name) * list name -> option (list name * list scope))
      (F : (nat * option name) * list name -> list name -> list verror) l : forall res0,
  r_errors (fold_left (fun (res : rule_result) (entry : (nat * option name) * list name) =>
                         match W entry with
                         | Some (r, _) => mkRes (r_errors res ++ F entry r) (r_oof res)
                         | None => mkRes (r_errors res) true
                         end) l res0)
  = r_errors res0 ++ flat_map (fun entry => match W entry with Some (r, _) => F entry r | None => [] end) l.
Proof.
  induction l as [|e r IH]; intro res0; cbn [fold_left flat_map]; [rewrite app_nil_r; reflexivity|].
  rewrite IH. destruct (W e) as [[a b]|]; cbn [r_errors]; [rewrite app_assoc|]; reflexivity.
Qed.

Lemma flat_map_nonnil {A B} (f : A -> list B) (l : list A) :
  flat_map f l <> [] <-> exists x, In x l /\ f x <> [].
Proof.
  induction l as [|x r IH]; cbn [flat_map].
  - split; [congruence|intros (x & [] & _)].
  - split.
    + intro H. destruct (f x) eqn:E.
      * cbn [app] in H. apply IH in H. destruct H as (y & Hy & Hfy). exists y. split; [right; exact Hy|exact Hfy].
      * exists x. split; [left; reflexivity|congruence].
    + intros (y & [->|Hy] & Hfy).
      * destruct (f y); [congruence|discriminate].
      * intro H. apply app_eq_nil in H. destruct H as [_ H]. revert H. apply IH. exists y. split; assumption.
Qed.

Lemma vset_fold_In vds : forall acc x,
  In x (fold_left (fun l v => set_add (v_name v) l) vds acc) <-> In x acc \/ In x (map v_name vds).
Proof.
  induction vds as [|v r IH]; intros acc x; cbn [fold_left map In]; [tauto|].
  rewrite IH, set_add_In. split; intros H; repeat destruct H as [H|H]; auto.
Qed.

Lemma vset_In o x : In x (vset o) <-> In x (op_var_names o).
Proof. unfold vset, op_var_names. rewrite vset_fold_In. cbn [In]. tauto. Qed.

Lemma mem_vset o x : mem_name x (vset o) = mem_name x (op_var_names o).
Proof.
  destruct (mem_name x (op_var_names o)) eqn:E.
  - apply mem_name_In, vset_In, mem_name_In, E.
  - apply mem_name_false. intro H. apply vset_In, mem_name_In in H. congruence.
Qed.

Lemma collected_state s d :
  exists st, visit_document (fun st e (_ : ctx) => vars_collect st e) s d ctx0 vars_init = (ctx0, st) /\
             TInv d st.
Proof.
  exists (cfold (lin_document d) vars_init). split; [|apply TInv_document].
  rewrite visit_fold, collect_fold. reflexivity.
Qed.

(* no side condition on the names of the operations: each operation has its own table *)
Theorem no_undefined_variables_iff : forall s d,
  distinct_fragments d = true ->
  (run_alone R_NoUndefinedVariables s d <> [] <-> violated R_NoUndefinedVariables s d = true).
Proof.
  intros s d _. destruct (collected_state s d) as (st & Evis & Hinv).
  unfold run_alone. cbn [run_rule violated]. rewrite Evis. cbn [snd]. unfold nudv_finish.
  rewrite (finish_errors
             (fun entry => vars_walk (vars_fuel d) st (fun v => negb (mem_name v (snd entry)))
                                     (ScOp (fst (fst entry)) (snd (fst entry))) [] [])
             (fun _ undefined => map (fun _ => err R_NoUndefinedVariables []) undefined)).
  cbn [r_errors app]. rewrite (ti_defined _ _ Hinv), flat_map_nonnil.
  unfold v_no_undefined_variables. rewrite existsb_exists. split.
  - intros (e & He & Hne). apply in_map_iff in He. destruct He as ([i o] & <- & Ho).
    exists o. split; [apply operations_iops; exists i; exact Ho|]. cbn [def_entry fst snd] in Hne.
    destruct (vars_walk_total d st i o (fun v => negb (mem_name v (vset o))) Hinv Ho) as (acc & vis & E & Hacc).
    rewrite E in Hne. destruct acc as [|v acc]; [cbn in Hne; congruence|].
    destruct (proj1 (Hacc v) (or_introl eq_refl)) as [Hp Hv].
    apply existsb_exists. exists v. split; [exact Hv|]. rewrite <- mem_vset. exact Hp.
  - intros (o & Ho & Hex). apply existsb_exists in Hex. destruct Hex as (v & Hv & Hp).
    apply operations_iops in Ho. destruct Ho as (i & Ho).
    exists (def_entry (i, o)). split; [apply in_map, Ho|]. cbn [def_entry fst snd].
    destruct (vars_walk_total d st i o (fun v => negb (mem_name v (vset o))) Hinv Ho) as (acc & vis & E & Hacc).
    rewrite E. assert (Hin : In v acc).
    { apply Hacc. split; [rewrite mem_vset; exact Hp|exact Hv]. }
    destruct acc; [destruct Hin|cbn; congruence].
Qed.

Theorem no_unused_variables_iff : forall s d,
  distinct_fragments d = true ->
  (run_alone R_NoUnusedVariables s d <> [] <-> violated R_NoUnusedVariables s d = true).
Proof.
  intros s d _. destruct (collected_state s d) as (st & Evis & Hinv).
  unfold run_alone. cbn [run_rule violated]. rewrite Evis. cbn [snd]. unfold nuv_finish.
  rewrite (finish_errors
             (fun entry => vars_walk (vars_fuel d) st (fun v => mem_name v (snd entry))
                                     (ScOp (fst (fst entry)) (snd (fst entry))) [] [])
             (fun entry used => flat_map (fun v => if mem_name v used then [] else [err R_NoUnusedVariables []]) (snd entry))).
  cbn [r_errors app]. rewrite (ti_defined _ _ Hinv), flat_map_nonnil.
  unfold v_no_unused_variables. rewrite existsb_exists. split.
  - intros (e & He & Hne). apply in_map_iff in He. destruct He as ([i o] & <- & Ho).
    exists o. split; [apply operations_iops; exists i; exact Ho|]. cbn [def_entry fst snd] in Hne.
    destruct (vars_walk_total d st i o (fun v => mem_name v (vset o)) Hinv Ho) as (acc & vis & E & Hacc).
    rewrite E in Hne. apply flat_map_nonnil in Hne. destruct Hne as (v & Hv & Hne).
    destruct (mem_name v acc) eqn:Em; [congruence|].
    apply existsb_exists. exists v. split; [apply vset_In, Hv|].
    apply negb_true_iff, mem_name_false. intro Hu. apply mem_name_false in Em. apply Em.
    apply Hacc. split; [apply mem_name_In, Hv|exact Hu].
  - intros (o & Ho & Hex). apply existsb_exists in Hex. destruct Hex as (v & Hv & Hp).
    apply operations_iops in Ho. destruct Ho as (i & Ho).
    exists (def_entry (i, o)). split; [apply in_map, Ho|]. cbn [def_entry fst snd].
    destruct (vars_walk_total d st i o (fun v => mem_name v (vset o)) Hinv Ho) as (acc & vis & E & Hacc).
    rewrite E. apply flat_map_nonnil. exists v. split; [apply vset_In, Hv|].
    apply negb_true_iff, mem_name_false in Hp.
    destruct (mem_name v acc) eqn:Em; [|congruence].
    exfalso. apply Hp. apply mem_name_In in Em. apply Hacc in Em. exact (proj2 Em).
Qed.

Print Assumptions no_undefined_variables_iff.
Print Assumptions no_unused_variables_iff.

(* C05_base_proofs.v — OverlappingFieldsCanBeMerged, components:
   argument comparison, type conflict, collected field map of a spread-free selection set. *)
From GT Require Import Visitor Validate Merge.
From GTS Require Import Annot WfSchema SpecCollect SpecRules SpecMerge SpecValid.
From GTP Require Import VisitorFacts TraceFacts RuleFacts.

(* ------------------------------------------------------------------ names *)
Lemma c5_name_eqb_eq a b : name_eqb a b = true <-> a = b.
Proof. unfold name_eqb. apply String.eqb_eq. Qed.
Lemma c5_name_eqb_refl a : name_eqb a a = true.
Proof. apply c5_name_eqb_eq. reflexivity. Qed.
Lemma c5_name_eqb_sym a b : name_eqb a b = name_eqb b a.
Proof. unfold name_eqb. apply String.eqb_sym. Qed.
Lemma c5_name_eqb_neq a b : name_eqb a b = false <-> a <> b.
Proof. unfold name_eqb. apply String.eqb_neq. Qed.

Lemma c5_mem_name_In x l : mem_name x l = true <-> In x l.
Proof.
  unfold mem_name. rewrite existsb_exists. split.
  - intros [y [Hy E]]. apply c5_name_eqb_eq in E. subst y. exact Hy.
  - intro H. exists x. split; [exact H|apply c5_name_eqb_refl].
Qed.

Lemma c5_nodup_names_NoDup l : nodup_names l = true -> NoDup l.
Proof.
  induction l as [|x r IH]; cbn [nodup_names]; intro H; [constructor|].
  apply andb_prop in H. destruct H as [H1 H2]. constructor; [|apply IH, H2].
  intro Hin. apply c5_mem_name_In in Hin. rewrite Hin in H1. discriminate.
Qed.

(* ------------------------------------------------------------------ type conflict *)
Lemma is_type_conflict_spec : forall s a b, is_type_conflict s a b = shape_conflict s a b.
Proof.
  intros s a. induction a as [x|a IH|a IH]; intros [y|b|b]; cbn [is_type_conflict shape_conflict];
    try reflexivity; apply IH.
Qed.

(* ------------------------------------------------------------------ values *)
Lemma value_compare_eqb : forall a b, value_compare a b = value_eqb a b.
Proof.
  intro a. induction a as [n|z|bt|str|bo| |n|l IH|l IH] using value_ind'; intros [m|w|bt'|str'|bo'| |m|l'|l'];
    cbn [value_compare value_eqb]; try reflexivity.
  - (* list *)
    revert l'. induction IH as [|u r Hu Hr IHr]; intros [|v r']; cbn [List.length Nat.eqb andb]; try reflexivity.
    rewrite <- Hu. specialize (IHr r').
    destruct (value_compare u v); cbn [andb].
    + exact IHr.
    + rewrite andb_false_r. reflexivity.
  - (* object *)
    revert l'. induction IH as [|[k u] r Hu Hr IHr]; intros [|[k' v] r']; cbn [List.length Nat.eqb andb]; try reflexivity.
    cbn [snd] in Hu. rewrite <- Hu. specialize (IHr r').
    destruct (name_eqb k k' && value_compare u v); cbn [andb].
    + exact IHr.
    + rewrite andb_false_r. reflexivity.
Qed.

Lemma float_bits_eqb_sym x y : float_bits_eqb x y = float_bits_eqb y x.
Proof. unfold float_bits_eqb. rewrite N.eqb_sym. rewrite (andb_comm (float_is_zero x)). reflexivity. Qed.

Lemma bool_eqb_sym (x y : bool) : Bool.eqb x y = Bool.eqb y x.
Proof. destruct x, y; reflexivity. Qed.

Lemma value_eqb_sym : forall a b, value_eqb a b = value_eqb b a.
Proof.
  intro a. induction a as [n|z|bt|str|bo| |n|l IH|l IH] using value_ind'; intros [m|w|bt'|str'|bo'| |m|l'|l'];
    cbn [value_eqb]; try reflexivity.
  - apply c5_name_eqb_sym.
  - apply Z.eqb_sym.
  - apply float_bits_eqb_sym.
  - apply String.eqb_sym.
  - apply bool_eqb_sym.
  - apply c5_name_eqb_sym.
  - revert l'. induction IH as [|u r Hu Hr IHr]; intros [|v r']; try reflexivity.
    rewrite Hu, IHr. reflexivity.
  - revert l'. induction IH as [|[k u] r Hu Hr IHr]; intros [|[k' v] r']; try reflexivity.
    cbn [snd] in Hu. rewrite Hu, IHr, (c5_name_eqb_sym k k'). reflexivity.
Qed.

(* ------------------------------------------------------------------ arguments *)
Lemma c5_forallb_ext {A} (f g : A -> bool) l : (forall x, f x = g x) -> forallb f l = forallb g l.
Proof. intro H. induction l as [|x r IH]; cbn; [reflexivity|]. rewrite H, IH. reflexivity. Qed.

Definition arg_match (x y : argument) : bool := name_eqb (fst x) (fst y) && value_eqb (snd x) (snd y).

Lemma find_first_nodup_match (x : argument) (b : list argument) :
  nodup_names (map fst b) = true ->
  match find_first (fun y : argument => name_eqb (fst x) (fst y)) b with
  | Some y => value_compare (snd x) (snd y)
  | None => false
  end = existsb (arg_match x) b.
Proof.
  induction b as [|y r IH]; cbn [map nodup_names find_first existsb]; intro H; [reflexivity|].
  apply andb_prop in H. destruct H as [H1 H2]. unfold arg_match at 1.
  destruct (name_eqb (fst x) (fst y)) eqn:E; cbn [andb].
  - rewrite value_compare_eqb. destruct (value_eqb (snd x) (snd y)); cbn [orb]; [reflexivity|].
    symmetry. apply not_true_is_false. intro Hex. apply existsb_exists in Hex.
    destruct Hex as [z [Hz Hm]]. unfold arg_match in Hm. apply andb_prop in Hm. destruct Hm as [Hm _].
    apply c5_name_eqb_eq in E. apply c5_name_eqb_eq in Hm.
    assert (Hin : In (fst y) (map fst r)) by (rewrite <- E, Hm; apply in_map, Hz).
    apply c5_mem_name_In in Hin. rewrite Hin in H1. discriminate.
  - cbn [orb]. apply IH, H2.
Qed.

Lemma args_subset_incl a b : args_subset a b = true -> incl (map fst a) (map fst b).
Proof.
  unfold args_subset. rewrite forallb_forall. intros H n Hn.
  apply in_map_iff in Hn. destruct Hn as [x [E Hx]]. subst n.
  specialize (H x Hx). apply existsb_exists in H. destruct H as [y [Hy Hm]].
  apply andb_prop in Hm. destruct Hm as [Hm _]. apply c5_name_eqb_eq in Hm. rewrite Hm. apply in_map, Hy.
Qed.

Lemma nodup_fst_inj (b : list argument) y y' :
  NoDup (map fst b) -> In y b -> In y' b -> fst y = fst y' -> y = y'.
Proof.
  induction b as [|z r IH]; cbn [map]; intros Hnd Hy Hy' E; [destruct Hy|].
  inversion Hnd as [|? ? Hni Hnd']; subst.
  destruct Hy as [Hy|Hy], Hy' as [Hy'|Hy'].
  - congruence.
  - subst z. exfalso. apply Hni. rewrite E. apply in_map, Hy'.
  - subst z. exfalso. apply Hni. rewrite <- E. apply in_map, Hy.
  - apply IH; assumption.
Qed.

Lemma args_subset_back a b :
  NoDup (map fst b) -> args_subset a b = true -> incl (map fst b) (map fst a) -> args_subset b a = true.
Proof.
  intros Hnd Hab Hincl. unfold args_subset. apply forallb_forall. intros y Hy.
  assert (Hn : In (fst y) (map fst a)) by (apply Hincl, in_map, Hy).
  apply in_map_iff in Hn. destruct Hn as [x [E Hx]].
  unfold args_subset in Hab. rewrite forallb_forall in Hab. specialize (Hab x Hx).
  apply existsb_exists in Hab. destruct Hab as [y' [Hy' Hm]].
  apply andb_prop in Hm. destruct Hm as [Hm1 Hm2]. apply c5_name_eqb_eq in Hm1.
  assert (y' = y) by (apply (nodup_fst_inj b); [assumption..|congruence]). subst y'.
  apply existsb_exists. exists x. split; [exact Hx|].
  rewrite E, c5_name_eqb_refl, value_eqb_sym, Hm2. reflexivity.
Qed.

Lemma is_same_arguments_spec : forall a b,
  nodup_names (map fst a) = true -> nodup_names (map fst b) = true ->
  is_same_arguments a b = same_arguments a b.
Proof.
  intros a b Ha Hb. unfold is_same_arguments, same_arguments.
  assert (E : forallb (fun x : argument =>
                match find_first (fun y : argument => name_eqb (fst x) (fst y)) b with
                | Some y => value_compare (snd x) (snd y) | None => false end) a = args_subset a b).
  { unfold args_subset. apply c5_forallb_ext. intro x. apply find_first_nodup_match, Hb. }
  rewrite E. clear E.
  pose proof (c5_nodup_names_NoDup _ Ha) as Na. pose proof (c5_nodup_names_NoDup _ Hb) as Nb.
  destruct (args_subset a b) eqn:Hab; [|rewrite andb_false_r; reflexivity].
  rewrite andb_true_r. cbn [andb].
  pose proof (args_subset_incl _ _ Hab) as Iab.
  pose proof (NoDup_incl_length Na Iab) as Lab. rewrite !map_length in Lab.
  destruct (args_subset b a) eqn:Hba.
  - pose proof (args_subset_incl _ _ Hba) as Iba.
    pose proof (NoDup_incl_length Nb Iba) as Lba. rewrite !map_length in Lba.
    apply Nat.eqb_eq. apply Nat.le_antisymm; assumption.
  - apply Nat.eqb_neq. intro L. rewrite (args_subset_back a b Nb Hab) in Hba; [discriminate|].
    apply NoDup_length_incl; [exact Na|rewrite !map_length; apply Nat.eq_le_incl; symmetry; exact L|exact Iab].
Qed.

(* ------------------------------------------------------------------ spread-free selections *)
Fixpoint sf_sel (x : selection) : bool :=
  match x with
  | SField _ _ _ _ _ _ ss => forallb sf_sel ss
  | SSpread _ _ _ => false
  | SInline _ _ _ _ ss => forallb sf_sel ss
  end.
Definition sf_sels (l : list selection) : bool := forallb sf_sel l.

Definition spread_name (x : selection) : list name := match x with SSpread _ n _ => [n] | _ => [] end.

Lemma spreads_in_cons x r : spreads_in (x :: r) = flat_map spread_name (sel_all x) ++ spreads_in r.
Proof. unfold spreads_in, sels_all. cbn [flat_map]. rewrite flat_map_app. reflexivity. Qed.

Lemma sf_sel_of_spreads x : flat_map spread_name (sel_all x) = [] -> sf_sel x = true.
Proof.
  induction x as [p al n args dirs sp sels IH|p n dirs|p tc dirs sp sels IH] using selection_ind';
    cbn [sel_all sf_sel flat_map spread_name app]; intro H; try discriminate.
  - induction IH as [|y r Hy Hr IHr]; [reflexivity|].
    cbn [flat_map forallb] in *. rewrite flat_map_app in H. apply app_eq_nil in H. destruct H as [H1 H2].
    rewrite (Hy H1), (IHr H2). reflexivity.
  - induction IH as [|y r Hy Hr IHr]; [reflexivity|].
    cbn [flat_map forallb] in *. rewrite flat_map_app in H. apply app_eq_nil in H. destruct H as [H1 H2].
    rewrite (Hy H1), (IHr H2). reflexivity.
Qed.

Lemma sf_sels_of_spreads l : spreads_in l = [] -> sf_sels l = true.
Proof.
  induction l as [|x r IH]; [reflexivity|]. rewrite spreads_in_cons. intro H.
  apply app_eq_nil in H. destruct H as [H1 H2]. unfold sf_sels. cbn [forallb].
  rewrite (sf_sel_of_spreads x H1). apply IH, H2.
Qed.

Lemma spreads_in_app a b : spreads_in (a ++ b) = spreads_in a ++ spreads_in b.
Proof. unfold spreads_in, sels_all. rewrite !flat_map_app. reflexivity. Qed.

(* ------------------------------------------------------------------ collection without spreads *)
Definition inline_parent (s : sdocument) (tc : option name) (parent : option type_def) : option type_def :=
  match opt_bind tc (type_by_name s) with Some t => Some t | None => parent end.

Fixpoint cfl_sel (s : sdocument) (parent : option type_def) (x : selection) : list cfield :=
  match x with
  | SField _ _ _ _ _ _ _ => [mkCF parent x]
  | SSpread _ _ _ => []
  | SInline _ tc _ _ ss => flat_map (cfl_sel s (inline_parent s tc parent)) ss
  end.
Definition cfl (s : sdocument) (parent : option type_def) (sels : list selection) : list cfield :=
  flat_map (cfl_sel s parent) sels.

(* the specification's recursion, opened *)
Section CS.
  Variables (s : sdocument) (d : document).
  Variable rec : option type_def -> list selection -> list name -> list cfield * list name.
  Fixpoint c_one (parent : option type_def) (x : selection) (visited : list name) {struct x}
    : list cfield * list name :=
    match x with
    | SField _ _ _ _ _ _ _ => ([mkCF parent x], visited)
    | SInline _ tc _ _ ss =>
        let p := match opt_bind tc (type_by_name s) with Some t => Some t | None => parent end in
        (fix many (l : list selection) (visited : list name) {struct l} :=
           match l with
           | [] => ([], visited)
           | y :: r => let '(a, v1) := c_one p y visited in
                       let '(b, v2) := many r v1 in (a ++ b, v2)
           end) ss visited
    | SSpread _ n _ =>
        if mem_name n visited then ([], visited)
        else match find_fragment d n with
             | Some fr => rec (type_by_name s (fr_tc fr)) (fr_sels fr) (n :: visited)
             | None => ([], n :: visited)
             end
    end.
  Definition c_many (parent : option type_def) :=
    fix many (l : list selection) (visited : list name) {struct l} : list cfield * list name :=
      match l with
      | [] => ([], visited)
      | y :: r => let '(a, v1) := c_one parent y visited in
                  let '(b, v2) := many r v1 in (a ++ b, v2)
      end.
  Lemma c_one_inline parent p tc dirs sp ss v :
    c_one parent (SInline p tc dirs sp ss) v = c_many (inline_parent s tc parent) ss v.
  Proof. reflexivity. Qed.
  Lemma c_many_cons parent y r v :
    c_many parent (y :: r) v = let '(a, v1) := c_one parent y v in
                               let '(b, v2) := c_many parent r v1 in (a ++ b, v2).
  Proof. reflexivity. Qed.

  Lemma c_many_sf l :
    Forall (fun y => sf_sel y = true -> forall parent v, c_one parent y v = (cfl_sel s parent y, v)) l ->
    sf_sels l = true -> forall parent v, c_many parent l v = (cfl s parent l, v).
  Proof.
    induction 1 as [|y r Hy Hr IH]; intros Hsf parent v; [reflexivity|].
    unfold sf_sels in Hsf. cbn [forallb] in Hsf. apply andb_prop in Hsf. destruct Hsf as [H1 H2].
    rewrite c_many_cons, (Hy H1), (IH H2). reflexivity.
  Qed.

  Lemma c_one_sf x : sf_sel x = true -> forall parent v, c_one parent x v = (cfl_sel s parent x, v).
  Proof.
    induction x as [p al n args dirs sp sels IH|p n dirs|p tc dirs sp sels IH] using selection_ind';
      intros Hsf parent v.
    - reflexivity.
    - discriminate.
    - rewrite c_one_inline. cbn [sf_sel] in Hsf. rewrite (c_many_sf sels IH Hsf). reflexivity.
  Qed.
End CS.

Lemma collect_set_S fuel s d parent sels v :
  collect_set (S fuel) s d parent sels v = c_many s d (collect_set fuel s d) parent sels v.
Proof. reflexivity. Qed.

Lemma collected_sf s d parent sels : sf_sels sels = true -> collected s d parent sels = cfl s parent sels.
Proof.
  intro H. unfold collected, set_fuel. rewrite collect_set_S, c_many_sf; [reflexivity| |exact H].
  apply Forall_forall. intros y _. apply c_one_sf.
Qed.

(* ------------------------------------------------------------------ the rule's field map *)
Definition ad_of (c : cfield) : astdef := mkAD (cf_parent c) (cf_field c) (cf_def c).
Definition ad_key (a : astdef) : name := response_key (ad_field a).
Definition fm_of (l : list astdef) (m : fmap) : fmap := fold_left (fun m a => fm_push (ad_key a) a m) l m.

Lemma fm_of_app l1 l2 m : fm_of (l1 ++ l2) m = fm_of l2 (fm_of l1 m).
Proof. unfold fm_of. apply fold_left_app. Qed.

Lemma ad_key_of c : ad_key (ad_of c) = cf_key c.
Proof. reflexivity. Qed.

Lemma collect_ff_sel_sf s x : sf_sel x = true -> forall parent acc,
  collect_ff_sel s parent x acc = (fm_of (map ad_of (cfl_sel s parent x)) (fst acc), snd acc).
Proof.
  induction x as [p al n args dirs sp sels IH|p n dirs|p tc dirs sp sels IH] using selection_ind';
    intros Hsf parent acc.
  - reflexivity.
  - discriminate.
  - cbn [collect_ff_sel cfl_sel]. fold (inline_parent s tc parent).
    generalize (inline_parent s tc parent). intro q. cbn [sf_sel] in Hsf. revert acc.
    induction IH as [|y r Hy Hr IHr]; intro acc; cbn [fold_left flat_map].
    + destruct acc; reflexivity.
    + cbn [forallb] in Hsf. apply andb_prop in Hsf. destruct Hsf as [H1 H2].
      rewrite (Hy H1), (IHr H2). cbn [fst snd]. rewrite map_app, fm_of_app. reflexivity.
Qed.

Lemma gff_fold_sf s parent sels : sf_sels sels = true -> forall acc,
  fold_left (fun a y => collect_ff_sel s parent y a) sels acc
  = (fm_of (map ad_of (cfl s parent sels)) (fst acc), snd acc).
Proof.
  induction sels as [|y r IH]; intros Hsf acc; cbn [fold_left].
  - destruct acc; reflexivity.
  - unfold sf_sels in Hsf. cbn [forallb] in Hsf. apply andb_prop in Hsf. destruct Hsf as [H1 H2].
    rewrite (collect_ff_sel_sf s y H1), (IH H2). cbn [fst snd]. unfold cfl. cbn [flat_map].
    rewrite map_app, fm_of_app. reflexivity.
Qed.

Lemma gff_sf s parent sels : sf_sels sels = true ->
  get_fields_and_fragment_names s parent sels = (fm_of (map ad_of (cfl s parent sels)) [], []).
Proof. intro H. unfold get_fields_and_fragment_names. rewrite (gff_fold_sf s parent sels H). reflexivity. Qed.

(* ---- the map built by pushing: one entry per key, holding the fields of that key in order ---- *)
Definition key_is (k : name) (a : astdef) : bool := name_eqb (ad_key a) k.

Record fm_inv (m : fmap) (L : list astdef) : Prop := {
  fi_nodup : NoDup (map fst m);
  fi_keys : forall a, In a L -> In (ad_key a) (map fst m);
  fi_keys_back : forall k, In k (map fst m) -> exists a, In a L /\ ad_key a = k;
  fi_groups : forall k g, In (k, g) m -> g = filter (key_is k) L }.

Lemma al_get_None {V} k (m : list (name * V)) : al_get k m = None -> ~ In k (map fst m).
Proof.
  induction m as [|[k' v] r IH]; cbn [al_get map fst]; intros H Hin; [exact Hin|].
  destruct (name_eqb k k') eqn:E; [discriminate|]. destruct Hin as [Hin|Hin].
  - subst k'. rewrite c5_name_eqb_refl in E. discriminate.
  - exact (IH H Hin).
Qed.

Lemma al_get_Some_In {V} k (m : list (name * V)) v : al_get k m = Some v -> In (k, v) m.
Proof.
  induction m as [|[k' v'] r IH]; cbn [al_get]; intro H; [discriminate|].
  destruct (name_eqb k k') eqn:E.
  - apply c5_name_eqb_eq in E. inversion H; subst. left. reflexivity.
  - right. apply IH, H.
Qed.

Lemma al_get_In_nodup {V} k (m : list (name * V)) v : NoDup (map fst m) -> In (k, v) m -> al_get k m = Some v.
Proof.
  induction m as [|[k' v'] r IH]; cbn [al_get map fst]; intros Hnd Hin; [destruct Hin|].
  inversion Hnd as [|? ? Hni Hnd']; subst. destruct Hin as [Hin|Hin].
  - inversion Hin; subst. rewrite c5_name_eqb_refl. reflexivity.
  - destruct (name_eqb k k') eqn:E.
    + apply c5_name_eqb_eq in E. subst k'. exfalso. apply Hni. apply (in_map fst) in Hin. exact Hin.
    + apply IH; assumption.
Qed.

Lemma al_set_keys {V} k (v : V) m : In k (map fst m) -> map fst (al_set k v m) = map fst m.
Proof.
  induction m as [|[k' v'] r IH]; cbn [al_set map fst]; intro Hin; [destruct Hin|].
  destruct (name_eqb k k') eqn:E; [reflexivity|]. cbn [map fst]. f_equal. apply IH.
  destruct Hin as [Hin|Hin]; [|exact Hin]. subst k'. rewrite c5_name_eqb_refl in E. discriminate.
Qed.

Lemma al_set_In {V} k (v : V) m k0 v0 :
  NoDup (map fst m) -> In k (map fst m) -> In (k0, v0) (al_set k v m) ->
  (k0 = k /\ v0 = v) \/ (k0 <> k /\ In (k0, v0) m).
Proof.
  induction m as [|[k' v'] r IH]; cbn [al_set map fst]; intros Hnd Hk Hin; [destruct Hk|].
  inversion Hnd as [|? ? Hni Hnd']; subst.
  destruct (name_eqb k k') eqn:E.
  - apply c5_name_eqb_eq in E. subst k'. destruct Hin as [Hin|Hin].
    + inversion Hin; subst. left. split; reflexivity.
    + right. split; [|right; exact Hin]. intro E. subst k0. apply Hni. apply (in_map fst) in Hin. exact Hin.
  - apply c5_name_eqb_neq in E. destruct Hin as [Hin|Hin].
    + inversion Hin; subst. right. split; [congruence|left; reflexivity].
    + destruct Hk as [Hk|Hk]; [congruence|].
      destruct (IH Hnd' Hk Hin) as [H|[H1 H2]]; [left; exact H|right; split; [exact H1|right; exact H2]].
Qed.

Lemma filter_snoc {A} (f : A -> bool) l x : filter f (l ++ [x]) = filter f l ++ (if f x then [x] else []).
Proof. rewrite filter_app. reflexivity. Qed.

Lemma filter_none {A} (f : A -> bool) l : (forall x, In x l -> f x = false) -> filter f l = [].
Proof.
  induction l as [|x r IH]; intro H; cbn [filter]; [reflexivity|].
  rewrite (H x (or_introl eq_refl)). apply IH. intros y Hy. apply H. right. exact Hy.
Qed.

Lemma NoDup_app_snoc {A} (l : list A) x : NoDup l -> ~ In x l -> NoDup (l ++ [x]).
Proof.
  induction l as [|y r IH]; intros Hnd Hni; cbn [app].
  - constructor; [intros []|constructor].
  - inversion Hnd as [|? ? Hy Hr]; subst. constructor.
    + intro Hin. apply in_app_or in Hin. destruct Hin as [Hin|[Hin|[]]]; [exact (Hy Hin)|].
      subst y. apply Hni. left. reflexivity.
    + apply IH; [exact Hr|]. intro Hin. apply Hni. right. exact Hin.
Qed.

Lemma fm_inv_nil : fm_inv [] [].
Proof.
  constructor; cbn.
  - constructor.
  - intros a [].
  - intros k [].
  - intros k g [].
Qed.

Lemma fm_inv_push m L a : fm_inv m L -> fm_inv (fm_push (ad_key a) a m) (L ++ [a]).
Proof.
  intros [Hnd Hk Hkb Hg]. unfold fm_push. destruct (al_get (ad_key a) m) as [l|] eqn:E.
  - pose proof (al_get_Some_In _ _ _ E) as Hin.
    assert (Hkin : In (ad_key a) (map fst m)) by (apply (in_map fst) in Hin; exact Hin).
    constructor.
    + rewrite al_set_keys by exact Hkin. exact Hnd.
    + rewrite al_set_keys by exact Hkin. intros b Hb. apply in_app_or in Hb. destruct Hb as [Hb|[Hb|[]]].
      * apply Hk, Hb.
      * subst b. exact Hkin.
    + rewrite al_set_keys by exact Hkin. intros k Hk'. destruct (Hkb k Hk') as [b [Hb1 Hb2]].
      exists b. split; [apply in_or_app; left; exact Hb1|exact Hb2].
    + intros k g Hkg. destruct (al_set_In _ _ _ _ _ Hnd Hkin Hkg) as [[-> ->]|[Hne Hkg']].
      * rewrite filter_snoc. unfold key_is at 2. rewrite c5_name_eqb_refl. rewrite (Hg _ _ Hin). reflexivity.
      * rewrite filter_snoc. unfold key_is at 2.
        replace (name_eqb (ad_key a) k) with false by (symmetry; apply c5_name_eqb_neq; congruence).
        rewrite app_nil_r. apply Hg, Hkg'.
  - pose proof (al_get_None _ _ E) as Hni. constructor.
    + rewrite map_app. cbn [map fst]. apply NoDup_app_snoc; assumption.
    + intros b Hb. rewrite map_app. apply in_or_app. apply in_app_or in Hb. destruct Hb as [Hb|[Hb|[]]].
      * left. apply Hk, Hb.
      * subst b. right. left. reflexivity.
    + intros k Hk'. rewrite map_app in Hk'. apply in_app_or in Hk'. destruct Hk' as [Hk'|[Hk'|[]]].
      * destruct (Hkb k Hk') as [b [Hb1 Hb2]]. exists b. split; [apply in_or_app; left; exact Hb1|exact Hb2].
      * exists a. split; [apply in_or_app; right; left; reflexivity|exact Hk'].
    + intros k g Hkg. apply in_app_or in Hkg. destruct Hkg as [Hkg|[Hkg|[]]].
      * rewrite filter_snoc. unfold key_is at 2.
        replace (name_eqb (ad_key a) k) with false.
        { rewrite app_nil_r. apply Hg, Hkg. }
        symmetry. apply c5_name_eqb_neq. intro Eq. apply Hni. rewrite Eq. apply (in_map fst) in Hkg. exact Hkg.
      * inversion Hkg; subst. rewrite filter_snoc. unfold key_is at 2. rewrite c5_name_eqb_refl.
        rewrite filter_none; [reflexivity|]. intros b Hb. unfold key_is. apply c5_name_eqb_neq.
        intro Eq. apply Hni. rewrite <- Eq. apply Hk, Hb.
Qed.

Lemma fm_inv_fm_of L2 : forall m L1, fm_inv m L1 -> fm_inv (fm_of L2 m) (L1 ++ L2).
Proof.
  induction L2 as [|a r IH]; intros m L1 H; cbn [fm_of fold_left].
  - rewrite app_nil_r. exact H.
  - change (fold_left (fun m0 a0 => fm_push (ad_key a0) a0 m0) r (fm_push (ad_key a) a m))
      with (fm_of r (fm_push (ad_key a) a m)).
    replace (L1 ++ a :: r) with ((L1 ++ [a]) ++ r) by (rewrite <- app_assoc; reflexivity).
    apply IH, fm_inv_push, H.
Qed.

Lemma fm_of_inv L : fm_inv (fm_of L []) L.
Proof. apply (fm_inv_fm_of L [] []), fm_inv_nil. Qed.

(* ------------------------------------------------------------------ the component statement *)
Lemma groups_flat (m : fmap) (C : list cfield) :
  (forall k g, In (k, g) m -> g = filter (key_is k) (map ad_of C)) ->
  flat_map (fun kf : name * list astdef => map (fun a => (ad_parent a, ad_field a)) (snd kf)) m
  = map (fun c => (cf_parent c, cf_field c))
        (flat_map (fun k => filter (fun c => name_eqb (cf_key c) k) C) (map fst m)).
Proof.
  induction m as [|[k g] r IH]; intro H; cbn [flat_map map fst snd]; [reflexivity|].
  rewrite map_app, <- IH by (intros k' g' Hin; apply H; right; exact Hin). f_equal.
  rewrite (H k g (or_introl eq_refl)). clear.
  induction C as [|c C IH]; cbn [map filter]; [reflexivity|].
  unfold key_is at 1. rewrite ad_key_of. destruct (name_eqb (cf_key c) k); cbn [map]; rewrite IH; reflexivity.
Qed.

Lemma collect_spreadfree : forall s d parent sels, spreads_in sels = [] ->
  flat_map (fun kf : name * list astdef => map (fun a => (ad_parent a, ad_field a)) (snd kf))
           (fst (get_fields_and_fragment_names s parent sels))
  = map (fun c => (cf_parent c, cf_field c))
        (flat_map (fun k => filter (fun c => name_eqb (cf_key c) k) (collected s d parent sels))
                  (map fst (fst (get_fields_and_fragment_names s parent sels)))).
Proof.
  intros s d parent sels H. apply sf_sels_of_spreads in H.
  rewrite (gff_sf s parent sels H), (collected_sf s d parent sels H). cbn [fst].
  apply groups_flat. apply (fi_groups _ _ (fm_of_inv _)).
Qed.

(* C01_C02_full_proofs.v — the composition theorems of C01 and C02 for ALL rules, the field-merging
   rule included.

   C01_proofs.v / C02_proofs.v compose the per-rule equivalences of the 22+1 rules other than
   OverlappingFieldsCanBeMerged and leave that rule's verdict as a hypothesis.  Since then
     merge_no_fuel_exhaustion   (C03_merge_fuel_all.v)  the merge rule never exhausts its fuel,
     merge_sound_acyclic        (C05_frag_proofs.v)     every reported conflict is a violation,
     merge_iff_acyclic          (C05_frag_proofs.v)     ... and every violation is reported,
   have been proved for documents with named fragment spreads, in the scope
     rule_in_scope R_OverlappingFieldsCanBeMerged s d
       = distinct_fragments d && negb (v_no_fragment_cycles d) && negb (v_unique_argument_names s d),
   each conjunct of which is "rule X is not violated" for X = UniqueFragmentNames, NoFragmentsCycle,
   UniqueArgumentNames.  This file discharges the hypotheses about the merge rule:

     spec_valid_accepted_full   C01 (with [defaults_const], shown necessary by c01_needs_const_defaults);
     violation_rejected_full    C02 for every rule r, the merge rule included; when r is the merge
                                rule: two more hypotheses (distinct field positions; type conditions
                                naming a type of the introspection system are declared by the schema);
     c02_statement_false        the second of these cannot be dropped: the unrestricted statement of
                                C02 is FALSE (closed counterexample c02_cex_facts);
     violation_rejected_errors_all  C02 for r <> merge, existential form, no fuel hypothesis. *)
From GT Require Import Visitor Validate Merge Sexp.
From GTS Require Import Annot WfSchema SpecRules SpecMerge SpecValid PoolSchemas.
From GTP Require Import PlanFacts ComposeFacts C03_proofs C07_position_proofs C01_proofs C02_proofs
     C03_merge_fuel_all C05_frag_proofs.
Local Open Scope string_scope.

Definition is_field_sel (x : selection) : bool :=
  match x with SField _ _ _ _ _ _ _ => true | _ => false end.

(* ================================================================ fuel: no rule at all *)
Lemma no_fuel_exhaustion_all r s d c : r_oof (snd (run_rule r s d c)) = false.
Proof.
  destruct (known_full r) eqn:Ek.
  - apply no_fuel_exhaustion, known_full_true, Ek.
  - rewrite (known_full_false r Ek). apply merge_no_fuel_exhaustion.
Qed.

Lemma validate_default_plan_all s d : wf_schema s = true ->
  validate s d default_plan = Ok (flat_map (fun r => run_alone r s d) default_plan).
Proof. intro Hwf. apply validate_default_plan; [exact Hwf|]. intro r. apply no_fuel_exhaustion_all. Qed.

(* a rule that reports => the default plan returns a non-empty list of errors *)
Lemma reported_rejected s d r : wf_schema s = true -> run_alone r s d <> [] ->
  exists es, validate s d default_plan = Ok es /\ es <> [].
Proof.
  intros Hwf Hne. eexists. split; [apply validate_default_plan_all, Hwf|].
  apply (flat_map_nonempty_in _ _ r (default_plan_complete r) Hne).
Qed.

(* ================================================================ C02 for the rules other than merging *)
Lemma violation_rejected_errors_all : forall s d r,
  wf_schema s = true -> doc_types_proper d = true ->
  r <> R_OverlappingFieldsCanBeMerged -> violated r s d = true ->
  (r = R_VariablesInAllowedPosition -> defaults_const d = true) ->
  exists es, validate s d default_plan = Ok es /\ es <> [].
Proof.
  intros s d r Hwf Hp Hr Hv Hc.
  apply (violation_rejected_errors s d r Hwf Hp Hr Hv Hc). apply merge_no_fuel_exhaustion.
Qed.

(* ================================================================ the scope of the merge rule *)
Lemma merge_scope_intro s d :
  violated R_UniqueFragmentNames s d = false -> violated R_NoFragmentsCycle s d = false ->
  violated R_UniqueArgumentNames s d = false ->
  rule_in_scope R_OverlappingFieldsCanBeMerged s d = true.
Proof.
  cbn [violated rule_in_scope]. unfold distinct_fragments. intros H1 H2 H3. rewrite H1, H2, H3. reflexivity.
Qed.

(* out of scope => one of three other rules is violated (none of them VariablesInAllowedPosition) *)
Lemma merge_scope_fails s d : rule_in_scope R_OverlappingFieldsCanBeMerged s d = false ->
  exists r', r' <> R_OverlappingFieldsCanBeMerged /\ r' <> R_VariablesInAllowedPosition /\ violated r' s d = true.
Proof.
  intro H.
  destruct (violated R_UniqueFragmentNames s d) eqn:E1.
  { exists R_UniqueFragmentNames. repeat split; [discriminate|discriminate|exact E1]. }
  destruct (violated R_NoFragmentsCycle s d) eqn:E2.
  { exists R_NoFragmentsCycle. repeat split; [discriminate|discriminate|exact E2]. }
  destruct (violated R_UniqueArgumentNames s d) eqn:E3.
  { exists R_UniqueArgumentNames. repeat split; [discriminate|discriminate|exact E3]. }
  rewrite (merge_scope_intro s d E1 E2 E3) in H. discriminate.
Qed.

Lemma spec_valid_merge_scope s d : spec_valid s d = true ->
  rule_in_scope R_OverlappingFieldsCanBeMerged s d = true.
Proof. intro H. apply merge_scope_intro; apply spec_valid_not_violated, H. Qed.

(* ================================================================ C01 *)
Lemma spec_valid_merge_silent s d : wf_schema s = true -> spec_valid s d = true ->
  snd (run_rule R_OverlappingFieldsCanBeMerged s d ctx0) = mkRes [] false.
Proof.
  intros Hwf Hv.
  assert (Hrun : run_alone R_OverlappingFieldsCanBeMerged s d = []).
  { destruct (run_alone R_OverlappingFieldsCanBeMerged s d) as [|e es] eqn:E; [reflexivity|]. exfalso.
    assert (Hne : run_alone R_OverlappingFieldsCanBeMerged s d <> []) by (rewrite E; discriminate).
    pose proof (merge_sound_acyclic s d Hwf (spec_valid_merge_scope s d Hv) Hne) as Hviol.
    rewrite (spec_valid_not_violated s d _ Hv) in Hviol. discriminate. }
  pose proof (merge_no_fuel_exhaustion s d ctx0) as Hf. unfold run_alone in Hrun.
  destruct (snd (run_rule R_OverlappingFieldsCanBeMerged s d ctx0)) as [es oof].
  cbn [r_errors r_oof] in Hrun, Hf. rewrite Hrun, Hf. reflexivity.
Qed.

Theorem spec_valid_accepted_full : forall s d,
  wf_schema s = true -> doc_types_proper d = true -> defaults_const d = true ->
  spec_valid s d = true ->
  validate s d default_plan = Ok [].
Proof.
  intros s d Hwf Hp Hc Hv. apply spec_valid_accepted; try assumption. apply spec_valid_merge_silent; assumption.
Qed.

(* every rule, the merge rule included, is silent on a spec-valid document *)
Lemma spec_valid_rule_silent_full : forall s d r,
  wf_schema s = true -> doc_types_proper d = true -> spec_valid s d = true ->
  (r = R_VariablesInAllowedPosition -> defaults_const d = true) ->
  run_alone r s d = [].
Proof.
  intros s d r Hwf Hp Hv Hc. destruct (known_full r) eqn:Ek.
  - apply spec_valid_rule_silent; try assumption. apply known_full_true, Ek.
  - rewrite (known_full_false r Ek). unfold run_alone. rewrite (spec_valid_merge_silent s d Hwf Hv). reflexivity.
Qed.

(* ================================================================ C02, the merge rule *)
(* the side condition on inline type conditions, from KnownTypeNames not being violated; only the
   type conditions of INLINE fragments matter *)
Definition introspection_conditions_declared (s : sdocument) (d : document) : Prop :=
  forall p tc dirs sp sels, In (SInline p (Some tc) dirs sp sels) (doc_selections d) ->
    mem_name tc introspection_type_names = true -> type_by_name s tc <> None.

Lemma introspection_conditions_declared_of_all s d :
  (forall n, In n (type_conditions d) -> mem_name n introspection_type_names = true -> type_by_name s n <> None) ->
  introspection_conditions_declared s d.
Proof.
  intros H p tc dirs sp sels Hin. apply H. unfold type_conditions. apply in_or_app. right.
  apply in_flat_map. exists (SInline p (Some tc) dirs sp sels). split; [exact Hin|left; reflexivity].
Qed.

Lemma inline_conditions_known_of_known_types_inline s d :
  violated R_KnownTypeNames s d = false -> introspection_conditions_declared s d ->
  inline_conditions_known s d = true.
Proof.
  intros Hk Hi. unfold inline_conditions_known. apply forallb_forall. intros x Hx.
  destruct x as [p al n args dirs sp sels|p n dirs|p [tc|] dirs sp sels]; try reflexivity.
  cbn [tc_ok]. cbn [violated] in Hk. unfold v_known_type_names in Hk.
  destruct (type_by_name s tc) as [t|] eqn:E; [reflexivity|]. exfalso.
  assert (Hex : existsb (fun n => negb (type_exists s n)) (type_conditions d ++ map inner_type (variable_types d)) = true).
  { apply existsb_exists. exists tc. split.
    - apply in_or_app. left. unfold type_conditions. apply in_or_app. right. apply in_flat_map.
      exists (SInline p (Some tc) dirs sp sels). split; [exact Hx|left; reflexivity].
    - unfold type_exists. rewrite E. cbn [is_some orb].
      destruct (mem_name tc introspection_type_names) eqn:Em; [|reflexivity].
      exfalso. apply (Hi p tc dirs sp sels Hx Em). exact E. }
  rewrite Hex in Hk. discriminate.
Qed.

Lemma merge_violation_rejected : forall s d,
  wf_schema s = true -> doc_types_proper d = true ->
  violated R_OverlappingFieldsCanBeMerged s d = true ->
  NoDup (map node_pos (filter is_field_sel (doc_selections d))) ->
  introspection_conditions_declared s d ->
  exists es, validate s d default_plan = Ok es /\ es <> [].
Proof.
  intros s d Hwf Hp Hv Hpos Hi.
  destruct (rule_in_scope R_OverlappingFieldsCanBeMerged s d) eqn:Hscope.
  - destruct (violated R_KnownTypeNames s d) eqn:Hk.
    + apply (violation_rejected_errors_all s d R_KnownTypeNames Hwf Hp); [discriminate|exact Hk|discriminate].
    + apply (reported_rejected s d R_OverlappingFieldsCanBeMerged Hwf).
      apply (merge_iff_acyclic s d Hwf Hscope Hpos
               (inline_conditions_known_of_known_types_inline s d Hk Hi)).
      exact Hv.
  - destruct (merge_scope_fails s d Hscope) as [r' [H1 [H2 H3]]].
    apply (violation_rejected_errors_all s d r' Hwf Hp H1 H3). intro E. contradiction.
Qed.

(* ================================================================ C02 *)
Theorem violation_rejected_full : forall s d r,
  wf_schema s = true -> doc_types_proper d = true -> violated r s d = true ->
  (r = R_VariablesInAllowedPosition -> defaults_const d = true) ->
  (r = R_OverlappingFieldsCanBeMerged ->
     NoDup (map node_pos (filter (fun x => match x with SField _ _ _ _ _ _ _ => true | _ => false end)
                                 (doc_selections d)))) ->
  (r = R_OverlappingFieldsCanBeMerged ->
     forall n, In n (type_conditions d) -> mem_name n introspection_type_names = true ->
               type_by_name s n <> None) ->
  exists es, validate s d default_plan = Ok es /\ es <> [].
Proof.
  intros s d r Hwf Hp Hv Hc Hpos Hi. destruct (known_full r) eqn:Ek.
  - apply (violation_rejected_errors_all s d r Hwf Hp (known_full_true r Ek) Hv Hc).
  - pose proof (known_full_false r Ek) as ->.
    apply (merge_violation_rejected s d Hwf Hp Hv (Hpos eq_refl)).
    apply introspection_conditions_declared_of_all, Hi. reflexivity.
Qed.

(* the same with the sharper side condition (inline fragments only) *)
Theorem violation_rejected_full_inline : forall s d r,
  wf_schema s = true -> doc_types_proper d = true -> violated r s d = true ->
  (r = R_VariablesInAllowedPosition -> defaults_const d = true) ->
  (r = R_OverlappingFieldsCanBeMerged -> NoDup (map node_pos (filter is_field_sel (doc_selections d)))) ->
  (r = R_OverlappingFieldsCanBeMerged -> introspection_conditions_declared s d) ->
  exists es, validate s d default_plan = Ok es /\ es <> [].
Proof.
  intros s d r Hwf Hp Hv Hc Hpos Hi. destruct (known_full r) eqn:Ek.
  - apply (violation_rejected_errors_all s d r Hwf Hp (known_full_true r Ek) Hv Hc).
  - pose proof (known_full_false r Ek) as ->.
    apply (merge_violation_rejected s d Hwf Hp Hv (Hpos eq_refl) (Hi eq_refl)).
Qed.

(* ================================================================ the unrestricted C02 is false *)
(* schema (cx_schema of C05_frag_proofs.v; it does not declare the introspection types):
     type Query { q: T }  type T { f: U }  type U { x: Int }  type A { x: String }
   document:
     { q { ...G }  q { ...G } }
     fragment G on T { ... on __Type { f { x  ... on A { x } } } }
   The specification of field merging is violated (the two fields q are merged; below them f is
   compared with itself and, below it, U.x : Int with A.x : String; the collection falls back to the
   enclosing type T when the type condition has no definition in the schema).  No rule's model
   reports anything: the merge rule compares the fields below f when it visits the selection set of
   f, where the visitor's parent type is None; KnownTypeNames accepts __Type (for it the types of the
   introspection system belong to every schema), and so does its specification; the specifications
   of FragmentsOnCompositeTypes / PossibleFragmentSpreads / FieldsOnCorrectType say nothing about a
   type condition without a definition.  So validate returns Ok []. *)
Definition c02_cex_schema : sdocument := cx_schema.
Definition c02_cex_doc : document :=
  [ DOp (mkOperation OpQuery (100%N, 0%N) None [] [] cx_sp0
           [cx_fld 1 "q" [SSpread (2%N, 0%N) "G" []]; cx_fld 3 "q" [SSpread (4%N, 0%N) "G" []]]);
    DFrag (mkFragment (10%N, 0%N) "G" "T" [] cx_sp0
             [SInline (11%N, 0%N) (Some "__Type") [] cx_sp0
                [cx_fld 12 "f" [cx_fld 13 "x" []; SInline (14%N, 0%N) (Some "A") [] cx_sp0 [cx_fld 15 "x" []]]]]) ].

Lemma c02_cex_facts :
  wf_schema c02_cex_schema = true /\ doc_types_proper c02_cex_doc = true /\
  defaults_const c02_cex_doc = true /\
  violated R_OverlappingFieldsCanBeMerged c02_cex_schema c02_cex_doc = true /\
  filter (fun r => violated r c02_cex_schema c02_cex_doc) all_rules = [R_OverlappingFieldsCanBeMerged] /\
  rule_in_scope R_OverlappingFieldsCanBeMerged c02_cex_schema c02_cex_doc = true /\
  validate c02_cex_schema c02_cex_doc default_plan = Ok [] /\
  type_by_name c02_cex_schema "__Type" = None /\
  In "__Type" (type_conditions c02_cex_doc) /\
  mem_name "__Type" introspection_type_names = true.
Proof. vm_compute. repeat split; auto. Qed.

(* the positions of its fields are distinct: the only hypothesis of violation_rejected_full that
   fails is the one on introspection type names *)
Lemma c02_cex_positions :
  NoDup (map node_pos (filter is_field_sel (doc_selections c02_cex_doc))).
Proof.
  vm_compute. repeat (constructor; [cbn; intro H; repeat (destruct H as [H|H]; [discriminate H|]); exact H|]).
  constructor.
Qed.

Lemma c02_statement_false :
  ~ (forall s d r, wf_schema s = true -> doc_types_proper d = true -> violated r s d = true ->
       exists es, validate s d default_plan = Ok es /\ es <> []).
Proof.
  intro H. destruct c02_cex_facts as [H1 [H2 [_ [H3 [_ [_ [H4 _]]]]]]].
  destruct (H c02_cex_schema c02_cex_doc R_OverlappingFieldsCanBeMerged H1 H2 H3) as [es [He Hne]].
  rewrite H4 in He. injection He as <-. apply Hne. reflexivity.
Qed.

(* ================================================================ non-vacuity *)
Definition nv_schema : sdocument := match pool_minimal with Some s => s | None => [] end.
Definition nv_sp0 : span := ((0%N, 0%N), (0%N, 0%N)).
Definition nv_fld (p : N) (al : option name) (n : name) (sels : list selection) : selection :=
  SField (p, 0%N) al n [] [] nv_sp0 sels.

(* { t { ...F } }  fragment F on T { a b }   over pool_minimal *)
Definition nv_valid_doc : document :=
  [ DOp (mkOperation OpQuery (100%N, 0%N) None [] [] nv_sp0
           [nv_fld 1 None "t" [SSpread (2%N, 0%N) "F" []]]);
    DFrag (mkFragment (10%N, 0%N) "F" "T" [] nv_sp0 [nv_fld 11 None "a" []; nv_fld 12 None "b" []]) ].

Example nv_valid_hyps :
  wf_schema nv_schema = true /\ doc_types_proper nv_valid_doc = true /\
  defaults_const nv_valid_doc = true /\ spec_valid nv_schema nv_valid_doc = true.
Proof. vm_compute. repeat split. Qed.

Example nv_valid_accepted : validate nv_schema nv_valid_doc default_plan = Ok [].
Proof.
  destruct nv_valid_hyps as [H1 [H2 [H3 H4]]]. exact (spec_valid_accepted_full _ _ H1 H2 H3 H4).
Qed.

(* { t { ...F  x: b } }  fragment F on T { x: a }   (String against Int under the response name x) *)
Definition nv_invalid_doc : document :=
  [ DOp (mkOperation OpQuery (100%N, 0%N) None [] [] nv_sp0
           [nv_fld 1 None "t" [SSpread (2%N, 0%N) "F" []; nv_fld 3 (Some "x") "b" []]]);
    DFrag (mkFragment (10%N, 0%N) "F" "T" [] nv_sp0 [nv_fld 11 (Some "x") "a" []]) ].

Example nv_invalid_hyps :
  wf_schema nv_schema = true /\ doc_types_proper nv_invalid_doc = true /\
  violated R_OverlappingFieldsCanBeMerged nv_schema nv_invalid_doc = true /\
  filter (fun r => violated r nv_schema nv_invalid_doc) all_rules = [R_OverlappingFieldsCanBeMerged] /\
  rule_in_scope R_OverlappingFieldsCanBeMerged nv_schema nv_invalid_doc = true /\
  type_conditions nv_invalid_doc = ["T"].
Proof. vm_compute. repeat split. Qed.

Example nv_invalid_positions :
  NoDup (map node_pos (filter is_field_sel (doc_selections nv_invalid_doc))).
Proof.
  vm_compute. repeat (constructor; [cbn; intro H; repeat (destruct H as [H|H]; [discriminate H|]); exact H|]).
  constructor.
Qed.

Example nv_invalid_rejected :
  exists es, validate nv_schema nv_invalid_doc default_plan = Ok es /\ es <> [].
Proof.
  destruct nv_invalid_hyps as [H1 [H2 [H3 [_ [_ H4]]]]].
  apply (violation_rejected_full nv_schema nv_invalid_doc R_OverlappingFieldsCanBeMerged H1 H2 H3).
  - discriminate.
  - intros _. exact nv_invalid_positions.
  - intros _ n Hn. rewrite H4 in Hn. destruct Hn as [<-|[]]. vm_compute. discriminate.
Qed.

(* what the model actually answers on it *)
Example nv_invalid_result :
  exists e, validate nv_schema nv_invalid_doc default_plan = Ok [e] /\ e_rule e = R_OverlappingFieldsCanBeMerged.
Proof. vm_compute. eexists. split; reflexivity. Qed.

Print Assumptions spec_valid_accepted_full.
Print Assumptions violation_rejected_full.
Print Assumptions violation_rejected_full_inline.
Print Assumptions violation_rejected_errors_all.
Print Assumptions c02_statement_false.
Print Assumptions nv_valid_accepted.
Print Assumptions nv_invalid_rejected.

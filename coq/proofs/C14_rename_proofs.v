(* C14_rename_proofs.v — C14 (d), the remaining renamings: every rule's specification predicate
   [violated r s d] is invariant under
     - consistent renaming of FRAGMENTS: [rename_fragments_doc ff d] applies ff to the name of every
       fragment definition and of every fragment spread,
     - consistent renaming of VARIABLES: [rename_variables_doc fv d] applies fv to the name of every
       variable definition and to every variable occurrence inside a value (arguments of fields and
       directives, default values, nested lists / objects),
   where the renaming is injective on the names in play ([doc_fragment_names d]: the names of the
   fragment definitions and the names the spreads mention; [doc_variable_names d]: the defined and
   the used variable names).  Both are instances of ONE function [rn_doc ff fv] and ONE theorem
   [violated_rn] (for globally injective ff, fv: every list the predicates range over is mapped
   element-wise); a renaming injective on a finite list of names agrees on that list with a
   globally injective one ([extend_injective]).  Through the per-rule equivalences the model's
   per-rule verdicts are invariant too ([run_alone_rename_fragments], [run_alone_rename_variables]). *)
From GT Require Import Visitor Validate Merge.
From Coq Require Import Permutation.
From GTS Require Import Annot WfSchema SpecCollect SpecRules SpecValues SpecMerge SpecValid.
From GTP Require Import VisitorFacts TraceFacts C14_proofs C14_more_proofs C14_merge_model_proofs.
From GTP Require C08_proofs.

(* ------------------------------------------------------------------ lists *)
Lemma flat_map_map {A B C} (g : B -> list C) (h : A -> B) l :
  flat_map g (map h l) = flat_map (fun x => g (h x)) l.
Proof. induction l as [|x l IH]; cbn [map flat_map]; [reflexivity|]. rewrite IH. reflexivity. Qed.

Lemma flat_map_map_hom {A A' B B'} (g : A -> list B) (g' : A' -> list B') (h : A -> A') (k : B -> B') l :
  (forall x, In x l -> g' (h x) = map k (g x)) -> flat_map g' (map h l) = map k (flat_map g l).
Proof.
  intro H. induction l as [|x l IH]; cbn [map flat_map]; [reflexivity|].
  rewrite map_app, H by (left; reflexivity). rewrite IH; [reflexivity|]. intros y Hy. apply H. right. exact Hy.
Qed.

Lemma existsb_map {A B} (p : B -> bool) (h : A -> B) l : existsb p (map h l) = existsb (fun x => p (h x)) l.
Proof. induction l as [|x l IH]; cbn [map existsb]; [reflexivity|]. rewrite IH. reflexivity. Qed.

Lemma existsb_ext_in {A} (p q : A -> bool) l : (forall x, In x l -> p x = q x) -> existsb p l = existsb q l.
Proof. intro H. apply existsb_eqset; [apply eqset_refl|exact H]. Qed.

Lemma existsb_map_hom {A B} (p : A -> bool) (p' : B -> bool) (h : A -> B) l :
  (forall x, In x l -> p' (h x) = p x) -> existsb p' (map h l) = existsb p l.
Proof. intro H. rewrite existsb_map. apply existsb_ext_in, H. Qed.

Lemma forallb_map_hom {A B} (p : A -> bool) (p' : B -> bool) (h : A -> B) l :
  (forall x, In x l -> p' (h x) = p x) -> forallb p' (map h l) = forallb p l.
Proof. intro H. rewrite forallb_map. apply forallb_ext_in, H. Qed.

Lemma find_first_map {A B} (p : B -> bool) (h : A -> B) l :
  find_first p (map h l) = opt_map h (find_first (fun x => p (h x)) l).
Proof. induction l as [|x l IH]; cbn [map find_first]; [reflexivity|]. destruct (p (h x)); [reflexivity|exact IH]. Qed.

Lemma find_first_ext {A} (p q : A -> bool) l : (forall x, p x = q x) -> find_first p l = find_first q l.
Proof. intro H. induction l as [|x l IH]; cbn [find_first]; [reflexivity|]. rewrite H, IH. reflexivity. Qed.

Lemma map_id_in {A} (h : A -> A) l : (forall x, In x l -> h x = x) -> map h l = l.
Proof.
  intro H. induction l as [|x l IH]; cbn [map]; [reflexivity|]. rewrite H by (left; reflexivity).
  rewrite IH; [reflexivity|]. intros y Hy. apply H. right. exact Hy.
Qed.

Lemma map_ext_Forall {A B} (h k : A -> B) l : Forall (fun x => h x = k x) l -> map h l = map k l.
Proof. induction 1 as [|x l Hx _ IH]; cbn [map]; [reflexivity|]. rewrite Hx, IH. reflexivity. Qed.

(* ------------------------------------------------------------------ injective renamings of names *)
Definition injective (f : name -> name) : Prop := forall a b, f a = f b -> a = b.

Section Inj.
  Variable f : name -> name.
  Hypothesis Hf : injective f.

  Lemma name_eqb_inj a b : name_eqb (f a) (f b) = name_eqb a b.
  Proof. apply bool_iff_eq. rewrite !name_eqb_eq. split; [apply Hf|intros ->; reflexivity]. Qed.
  Lemma mem_name_inj n l : mem_name (f n) (map f l) = mem_name n l.
  Proof. unfold mem_name. apply existsb_map_hom. intros x _. apply name_eqb_inj. Qed.
  Lemma nodup_names_inj l : nodup_names (map f l) = nodup_names l.
  Proof. apply nodup_names_map_inj. intros a b _ _. apply Hf. Qed.
  Lemma dedup_names_inj l : dedup_names (map f l) = map f (dedup_names l).
  Proof.
    induction l as [|x l IH]; cbn [map dedup_names]; [reflexivity|]. rewrite mem_name_inj.
    destruct (mem_name x l); cbn [map]; rewrite IH; reflexivity.
  Qed.
End Inj.

(* ------------------------------------------------------------------ the renaming *)
Section Rn.
  Variables ff fv : name -> name.

  Fixpoint rn_value (v : value) : value :=
    match v with
    | VVar n => VVar (fv n)
    | VList l => VList (map rn_value l)
    | VObject l => VObject (map (fun kv : name * value => (fst kv, rn_value (snd kv))) l)
    | _ => v
    end.
  Definition rn_kv (kv : name * value) : name * value := (fst kv, rn_value (snd kv)).
  Definition rn_arg (a : argument) : argument := (fst a, rn_value (snd a)).
  Definition rn_dir (x : directive) : directive := mkDirective (d_pos x) (d_name x) (map rn_arg (d_args x)).
  Fixpoint rn_sel (x : selection) : selection :=
    match x with
    | SField p al n args dirs sp sels => SField p al n (map rn_arg args) (map rn_dir dirs) sp (map rn_sel sels)
    | SSpread p n dirs => SSpread p (ff n) (map rn_dir dirs)
    | SInline p tc dirs sp sels => SInline p tc (map rn_dir dirs) sp (map rn_sel sels)
    end.
  Definition rn_vardef (v : vardef) : vardef :=
    mkVardef (v_pos v) (fv (v_name v)) (v_type v) (opt_map rn_value (v_default v)).
  Definition rn_op (o : operation) : operation :=
    mkOperation (o_kind o) (o_pos o) (o_name o) (map rn_vardef (o_vars o)) (map rn_dir (o_dirs o)) (o_span o)
                (map rn_sel (o_sels o)).
  Definition rn_frag (f : fragment_def) : fragment_def :=
    mkFragment (fr_pos f) (ff (fr_name f)) (fr_tc f) (map rn_dir (fr_dirs f)) (fr_span f) (map rn_sel (fr_sels f)).
  Definition rn_def (x : definition) : definition :=
    match x with DOp o => DOp (rn_op o) | DFrag f => DFrag (rn_frag f) end.
  Definition rn_doc (d : document) : document := map rn_def d.

  Definition rn_node (n : node) : node :=
    match n with
    | NDocument d => NDocument (rn_doc d)
    | NOperation o => NOperation (rn_op o)
    | NFragmentDef f => NFragmentDef (rn_frag f)
    | NVarDef v => NVarDef (rn_vardef v)
    | NDirective x => NDirective (rn_dir x)
    | NArgument a => NArgument (rn_arg a)
    | NSelectionSet sp l => NSelectionSet sp (map rn_sel l)
    | NField f => NField (rn_sel f)
    | NSpread f => NSpread (rn_sel f)
    | NInline f => NInline (rn_sel f)
    | NNull => NNull
    | NScalar v => NScalar (rn_value v)
    | NEnum n => NEnum n
    | NVariable n => NVariable (fv n)
    | NList l => NList (map rn_value l)
    | NObject l => NObject (map rn_kv l)
    | NObjectField kv => NObjectField (rn_kv kv)
    end.
  Definition rn_event (ev : event) : event :=
    match ev with Enter n => Enter (rn_node n) | Leave n => Leave (rn_node n) end.
  Definition rn_aev (ea : aev) : aev := (rn_event (fst ea), snd ea).

  (* ---------------------------------------------------------------- the annotation *)
  Lemma annot_value_rn s v : forall e, annot_value s (rn_value v) e = map rn_aev (annot_value s v e).
  Proof.
    induction v as [n|z|b|str|b| |n|l IH|l IH] using value_ind'; intro e; try reflexivity.
    - cbn [rn_value annot_value map]. unfold rn_aev at 1. cbn [fst snd rn_event rn_node]. f_equal.
      rewrite map_app. cbn [map]. f_equal. rewrite flat_map_map, map_flat_map.
      apply flat_map_Forall_ext. eapply Forall_impl; [|exact IH]. intros x Hx. apply Hx.
    - cbn [rn_value annot_value map]. unfold rn_aev at 1. cbn [fst snd rn_event rn_node]. f_equal.
      rewrite map_app. cbn [map]. f_equal. rewrite flat_map_map, map_flat_map.
      apply flat_map_Forall_ext. eapply Forall_impl; [|exact IH]. intros kv Hkv. cbv beta zeta. cbn [fst snd map].
      rewrite map_app, Hkv. reflexivity.
  Qed.

  Lemma annot_arguments_rn s decls args e :
    annot_arguments s decls (map rn_arg args) e = map rn_aev (annot_arguments s decls args e).
  Proof.
    unfold annot_arguments. rewrite flat_map_map, map_flat_map. apply flat_map_all_ext. intro a.
    cbv beta zeta. cbn [rn_arg fst snd map]. rewrite map_app, annot_value_rn. reflexivity.
  Qed.
  Lemma annot_directives_rn s dirs e :
    annot_directives s (map rn_dir dirs) e = map rn_aev (annot_directives s dirs e).
  Proof.
    unfold annot_directives. rewrite flat_map_map, map_flat_map. apply flat_map_all_ext. intro x.
    cbn [rn_dir d_name d_args map]. rewrite map_app, annot_arguments_rn. reflexivity.
  Qed.
  Lemma annot_vardefs_rn s vars e :
    annot_vardefs s (map rn_vardef vars) e = map rn_aev (annot_vardefs s vars e).
  Proof.
    unfold annot_vardefs. rewrite flat_map_map, map_flat_map. apply flat_map_all_ext. intro v.
    cbv beta zeta. cbn [rn_vardef v_type v_default map]. rewrite map_app. f_equal. f_equal.
    destruct (v_default v) as [dv|]; cbn [opt_map]; [apply annot_value_rn|reflexivity].
  Qed.
  Lemma annot_selection_rn s x : forall e, annot_selection s (rn_sel x) e = map rn_aev (annot_selection s x e).
  Proof.
    induction x as [p al n args dirs sp sels IH|p n dirs|p tc dirs sp sels IH] using selection_ind'; intro e.
    - assert (EF : forall e3, flat_map (fun y => annot_selection s y e3) (map rn_sel sels) =
                              map rn_aev (flat_map (fun y => annot_selection s y e3) sels)).
      { intro e3. rewrite flat_map_map, map_flat_map. apply flat_map_Forall_ext.
        eapply Forall_impl; [|exact IH]. intros y Hy. apply Hy. }
      cbn [rn_sel annot_selection]. cbv zeta. cbn [map]. rewrite !map_app. cbn [map].
      rewrite annot_arguments_rn, annot_directives_rn, EF, map_app. reflexivity.
    - cbn [rn_sel annot_selection map]. rewrite map_app, annot_directives_rn. reflexivity.
    - assert (EF : forall e3, flat_map (fun y => annot_selection s y e3) (map rn_sel sels) =
                              map rn_aev (flat_map (fun y => annot_selection s y e3) sels)).
      { intro e3. rewrite flat_map_map, map_flat_map. apply flat_map_Forall_ext.
        eapply Forall_impl; [|exact IH]. intros y Hy. apply Hy. }
      cbn [rn_sel annot_selection]. cbv zeta. cbn [map]. rewrite !map_app. cbn [map].
      rewrite annot_directives_rn, EF, map_app. reflexivity.
  Qed.
  Lemma annot_selection_set_rn s sp sels e :
    annot_selection_set s sp (map rn_sel sels) e = map rn_aev (annot_selection_set s sp sels e).
  Proof.
    unfold annot_selection_set. cbv zeta. cbn [map]. rewrite map_app. cbn [map]. f_equal. f_equal.
    rewrite flat_map_map, map_flat_map. apply flat_map_all_ext. intro y. apply annot_selection_rn.
  Qed.

  Lemma op_variable_definitions_rn o : op_variable_definitions (rn_op o) = map rn_vardef (op_variable_definitions o).
  Proof. unfold op_variable_definitions. cbn [rn_op o_kind o_vars]. destruct (o_kind o); reflexivity. Qed.
  Lemma op_directives_rn o : op_directives (rn_op o) = map rn_dir (op_directives o).
  Proof. unfold op_directives. cbn [rn_op o_kind o_dirs]. destruct (o_kind o); reflexivity. Qed.
  Lemma op_node_name_rn o : op_node_name (rn_op o) = op_node_name o.
  Proof. reflexivity. Qed.

  Lemma annot_definition_rn s x e : annot_definition s (rn_def x) e = map rn_aev (annot_definition s x e).
  Proof.
    destruct x as [o|f]; cbn [rn_def annot_definition]; cbv zeta.
    - rewrite op_variable_definitions_rn, op_directives_rn. cbn [rn_op o_kind o_span o_sels map].
      rewrite !map_app. cbn [map]. rewrite annot_directives_rn, annot_vardefs_rn, annot_selection_set_rn. reflexivity.
    - cbn [rn_frag fr_tc fr_dirs fr_span fr_sels map]. rewrite !map_app. cbn [map].
      rewrite annot_directives_rn, annot_selection_set_rn. reflexivity.
  Qed.
  Lemma annot_rn s d : annot s (rn_doc d) = map rn_aev (annot s d).
  Proof.
    unfold annot. cbn [map]. rewrite map_app. cbn [map]. f_equal. f_equal.
    unfold rn_doc. rewrite flat_map_map, map_flat_map. apply flat_map_all_ext. intro x. apply annot_definition_rn.
  Qed.
End Rn.

(* ------------------------------------------------------------------ the lists the predicates range over *)
Section RnStruct.
  Variables ff fv : name -> name.
  Notation rn_value := (rn_value fv).
  Notation rn_arg := (rn_arg fv).
  Notation rn_dir := (rn_dir fv).
  Notation rn_sel := (rn_sel ff fv).
  Notation rn_vardef := (rn_vardef fv).
  Notation rn_op := (rn_op ff fv).
  Notation rn_frag := (rn_frag ff fv).
  Notation rn_def := (rn_def ff fv).
  Notation rn_doc := (rn_doc ff fv).
  Notation rn_aev := (rn_aev ff fv).

  Lemma fragments_of_rn d : fragments_of (rn_doc d) = map rn_frag (fragments_of d).
  Proof.
    unfold fragments_of, rn_doc. rewrite flat_map_map, map_flat_map. apply flat_map_all_ext.
    intros [o|f]; reflexivity.
  Qed.
  Lemma operations_of_rn d : operations_of (rn_doc d) = map rn_op (operations_of d).
  Proof.
    unfold operations_of, rn_doc. rewrite flat_map_map, map_flat_map. apply flat_map_all_ext.
    intros [o|f]; reflexivity.
  Qed.
  Lemma frags_length_rn d : List.length (fragments_of (rn_doc d)) = List.length (fragments_of d).
  Proof. rewrite fragments_of_rn. apply map_length. Qed.

  Lemma sel_all_rn x : sel_all (rn_sel x) = map rn_sel (sel_all x).
  Proof.
    induction x as [p al n args dirs sp sels IH|p n dirs|p tc dirs sp sels IH] using selection_ind';
      cbn [rn_sel sel_all map]; f_equal; try reflexivity;
      (rewrite flat_map_map, map_flat_map; apply flat_map_Forall_ext, IH).
  Qed.
  Lemma sels_all_rn l : sels_all (map rn_sel l) = map rn_sel (sels_all l).
  Proof. unfold sels_all. apply flat_map_map_hom. intros x _. apply sel_all_rn. Qed.
  Lemma root_typename_fields_of_rn x :
    root_typename_fields_of (rn_sel x) = map rn_sel (root_typename_fields_of x).
  Proof.
    induction x as [p al n args dirs sp sels IH|p n dirs|p tc dirs sp sels IH] using selection_ind'.
    - cbn [rn_sel root_typename_fields_of]. destruct (name_eqb n "__typename"); reflexivity.
    - reflexivity.
    - cbn [rn_sel root_typename_fields_of]. destruct tc as [tc|]; [reflexivity|].
      apply flat_map_map_hom. intros x Hx. rewrite Forall_forall in IH. apply IH, Hx.
  Qed.
  Lemma root_typename_fields_rn l :
    root_typename_fields (map rn_sel l) = map rn_sel (root_typename_fields l).
  Proof. unfold root_typename_fields. apply flat_map_map_hom. intros x _. apply root_typename_fields_of_rn. Qed.
  Lemma def_sels_rn x : def_sels (rn_def x) = map rn_sel (def_sels x).
  Proof. destruct x; reflexivity. Qed.
  Lemma doc_selections_rn d : doc_selections (rn_doc d) = map rn_sel (doc_selections d).
  Proof.
    unfold doc_selections, rn_doc. apply flat_map_map_hom. intros x _. rewrite def_sels_rn. apply sels_all_rn.
  Qed.
  Lemma doc_def_sels_rn d : flat_map def_sels (rn_doc d) = map rn_sel (flat_map def_sels d).
  Proof. unfold rn_doc. apply flat_map_map_hom. intros x _. apply def_sels_rn. Qed.
  Lemma spreads_in_rn l : spreads_in (map rn_sel l) = map ff (spreads_in l).
  Proof.
    unfold spreads_in. rewrite sels_all_rn. apply flat_map_map_hom. intros [] _; reflexivity.
  Qed.
  Lemma frag_names_rn d : frag_names (rn_doc d) = map ff (frag_names d).
  Proof. unfold frag_names. rewrite fragments_of_rn, !map_map. reflexivity. Qed.

  Lemma sel_name_field_rn x : is_field_sel x = true -> sel_name (rn_sel x) = sel_name x.
  Proof. destruct x; try discriminate; reflexivity. Qed.
  Lemma sel_args_rn x : sel_args (rn_sel x) = map rn_arg (sel_args x).
  Proof. destruct x; reflexivity. Qed.
  Lemma sel_sels_rn x : sel_sels (rn_sel x) = map rn_sel (sel_sels x).
  Proof. destruct x; reflexivity. Qed.
  Lemma sel_dirs_rn x : sel_dirs (rn_sel x) = map rn_dir (sel_dirs x).
  Proof. destruct x; reflexivity. Qed.
  Lemma field_response_key_rn x : field_response_key (rn_sel x) = field_response_key x.
  Proof. destruct x as [p [a|] n args dirs sp sels| |]; reflexivity. Qed.
  Lemma is_field_sel_rn x : is_field_sel (rn_sel x) = is_field_sel x.
  Proof. destruct x; reflexivity. Qed.
  Lemma map_fst_rn_arg (args : list argument) : map fst (map rn_arg args) = map fst args.
  Proof. rewrite map_map. reflexivity. Qed.

  (* ---- variables ---- *)
  Lemma var_leaves_rn v : var_leaves (rn_value v) = map fv (var_leaves v).
  Proof.
    induction v as [n|z|b|str|b| |n|l IH|l IH] using value_ind'; try reflexivity.
    - cbn [C14_rename_proofs.rn_value var_leaves]. rewrite flat_map_map, map_flat_map. apply flat_map_Forall_ext, IH.
    - cbn [C14_rename_proofs.rn_value var_leaves]. rewrite flat_map_map, map_flat_map. apply flat_map_Forall_ext, IH.
  Qed.
  Lemma args_vars_rn (args : list argument) :
    flat_map (fun a : argument => var_leaves (snd a)) (map rn_arg args) =
    map fv (flat_map (fun a : argument => var_leaves (snd a)) args).
  Proof. apply flat_map_map_hom. intros a _. apply var_leaves_rn. Qed.
  Lemma dirs_vars_rn dirs : dirs_vars (map rn_dir dirs) = map fv (dirs_vars dirs).
  Proof. unfold dirs_vars. apply flat_map_map_hom. intros x _. apply args_vars_rn. Qed.
  Lemma sels_vars_rn l : sels_vars (map rn_sel l) = map fv (sels_vars l).
  Proof.
    unfold sels_vars. rewrite sels_all_rn. apply flat_map_map_hom. intros x _.
    rewrite sel_args_rn, sel_dirs_rn, map_app, args_vars_rn, dirs_vars_rn. reflexivity.
  Qed.
  Lemma op_var_names_rn o : op_var_names (rn_op o) = map fv (op_var_names o).
  Proof. unfold op_var_names. rewrite op_variable_definitions_rn, !map_map. reflexivity. Qed.

  Hypothesis Hff : injective ff.
  Hypothesis Hfv : injective fv.

  Lemma find_fragment_rn d n : find_fragment (rn_doc d) (ff n) = opt_map rn_frag (find_fragment d n).
  Proof.
    unfold find_fragment. rewrite fragments_of_rn, <- map_rev, find_first_map. f_equal.
    apply find_first_ext. intro f. cbn [C14_rename_proofs.rn_frag fr_name]. apply name_eqb_inj, Hff.
  Qed.
  Lemma fragment_spreads_rn d n : fragment_spreads (rn_doc d) (ff n) = map ff (fragment_spreads d n).
  Proof.
    unfold fragment_spreads. rewrite fragments_of_rn. apply flat_map_map_hom. intros f _.
    cbn [C14_rename_proofs.rn_frag fr_name fr_sels]. rewrite (name_eqb_inj ff Hff).
    destruct (name_eqb (fr_name f) n); [apply spreads_in_rn|reflexivity].
  Qed.
  Lemma fragment_vars_rn d n : fragment_vars (rn_doc d) (ff n) = map fv (fragment_vars d n).
  Proof.
    unfold fragment_vars. rewrite fragments_of_rn. apply flat_map_map_hom. intros f _.
    cbn [C14_rename_proofs.rn_frag fr_name fr_sels fr_dirs]. rewrite (name_eqb_inj ff Hff).
    destruct (name_eqb (fr_name f) n); [|reflexivity]. rewrite map_app, dirs_vars_rn, sels_vars_rn. reflexivity.
  Qed.
  Lemma spread_closure_rn d k : forall set,
    spread_closure k (rn_doc d) (map ff set) = map ff (spread_closure k d set).
  Proof.
    induction k as [|k IH]; intro set; cbn [spread_closure]; [reflexivity|].
    rewrite <- IH. f_equal. rewrite <- (dedup_names_inj ff Hff), map_app. f_equal. f_equal.
    apply flat_map_map_hom. intros n _. apply fragment_spreads_rn.
  Qed.
  Lemma reachable_rn d : reachable_from_operations (rn_doc d) = map ff (reachable_from_operations d).
  Proof.
    unfold reachable_from_operations. rewrite frags_length_rn, <- spread_closure_rn. f_equal.
    rewrite <- (dedup_names_inj ff Hff). f_equal. rewrite operations_of_rn. apply flat_map_map_hom.
    intros o _. apply spreads_in_rn.
  Qed.
  Lemma op_reachable_rn d o : op_reachable_fragments (rn_doc d) (rn_op o) = map ff (op_reachable_fragments d o).
  Proof.
    unfold op_reachable_fragments. rewrite frags_length_rn, <- spread_closure_rn. f_equal.
    rewrite <- (dedup_names_inj ff Hff). f_equal. apply spreads_in_rn.
  Qed.
  Lemma vars_used_rn d o : vars_used_in_op (rn_doc d) (rn_op o) = map fv (vars_used_in_op d o).
  Proof.
    unfold vars_used_in_op. rewrite op_directives_rn, dirs_vars_rn, op_reachable_rn. cbn [C14_rename_proofs.rn_op o_sels].
    rewrite sels_vars_rn, !map_app. f_equal. f_equal. apply flat_map_map_hom. intros n _. apply fragment_vars_rn.
  Qed.

  (* ---------------------------------------------------------------- rules that do not read the annotation *)
  Section Doc.
    Variables (s : sdocument) (d : document).

    Lemma n_unique_operation_names : v_unique_operation_names (rn_doc d) = v_unique_operation_names d.
    Proof.
      unfold v_unique_operation_names, named_operation_names. rewrite operations_of_rn, flat_map_map. reflexivity.
    Qed.
    Lemma n_lone_anonymous : v_lone_anonymous (rn_doc d) = v_lone_anonymous d.
    Proof. unfold v_lone_anonymous. rewrite operations_of_rn, map_length, existsb_map. reflexivity. Qed.
    Lemma n_unique_fragment_names : v_unique_fragment_names (rn_doc d) = v_unique_fragment_names d.
    Proof. unfold v_unique_fragment_names. rewrite frag_names_rn, (nodup_names_inj ff Hff). reflexivity. Qed.
    Lemma n_known_fragment_names : v_known_fragment_names (rn_doc d) = v_known_fragment_names d.
    Proof.
      unfold v_known_fragment_names. rewrite doc_def_sels_rn, spreads_in_rn, frag_names_rn.
      apply existsb_map_hom. intros n _. rewrite (mem_name_inj ff Hff). reflexivity.
    Qed.
    Lemma n_no_unused_fragments : v_no_unused_fragments (rn_doc d) = v_no_unused_fragments d.
    Proof.
      unfold v_no_unused_fragments. rewrite frag_names_rn, reachable_rn.
      apply existsb_map_hom. intros n _. rewrite (mem_name_inj ff Hff). reflexivity.
    Qed.
    Lemma n_no_fragment_cycles : v_no_fragment_cycles (rn_doc d) = v_no_fragment_cycles d.
    Proof.
      unfold v_no_fragment_cycles. rewrite frag_names_rn, frags_length_rn.
      apply existsb_map_hom. intros n _.
      rewrite fragment_spreads_rn, (dedup_names_inj ff Hff), spread_closure_rn. apply mem_name_inj, Hff.
    Qed.

    Lemma type_conditions_rn : type_conditions (rn_doc d) = type_conditions d.
    Proof.
      unfold type_conditions. rewrite fragments_of_rn, map_map, doc_selections_rn, flat_map_map. f_equal.
      apply flat_map_all_ext. intros []; reflexivity.
    Qed.
    Lemma variable_types_rn : variable_types (rn_doc d) = variable_types d.
    Proof.
      unfold variable_types. rewrite operations_of_rn, flat_map_map. apply flat_map_all_ext. intro o.
      rewrite op_variable_definitions_rn, map_map. reflexivity.
    Qed.
    Lemma n_known_type_names : v_known_type_names s (rn_doc d) = v_known_type_names s d.
    Proof. unfold v_known_type_names. rewrite type_conditions_rn, variable_types_rn. reflexivity. Qed.
    Lemma n_fragments_on_composite : v_fragments_on_composite s (rn_doc d) = v_fragments_on_composite s d.
    Proof. unfold v_fragments_on_composite. rewrite type_conditions_rn. reflexivity. Qed.
    Lemma n_variables_are_input_types : v_variables_are_input_types s (rn_doc d) = v_variables_are_input_types s d.
    Proof. unfold v_variables_are_input_types. rewrite variable_types_rn. reflexivity. Qed.

    Lemma n_unique_variable_names : v_unique_variable_names (rn_doc d) = v_unique_variable_names d.
    Proof.
      unfold v_unique_variable_names. rewrite operations_of_rn. apply existsb_map_hom. intros o _.
      rewrite op_var_names_rn, (nodup_names_inj fv Hfv). reflexivity.
    Qed.
    Lemma n_no_undefined_variables : v_no_undefined_variables (rn_doc d) = v_no_undefined_variables d.
    Proof.
      unfold v_no_undefined_variables. rewrite operations_of_rn. apply existsb_map_hom. intros o _.
      rewrite vars_used_rn, op_var_names_rn. apply existsb_map_hom. intros x _.
      rewrite (mem_name_inj fv Hfv). reflexivity.
    Qed.
    Lemma n_no_unused_variables : v_no_unused_variables (rn_doc d) = v_no_unused_variables d.
    Proof.
      unfold v_no_unused_variables. rewrite operations_of_rn. apply existsb_map_hom. intros o _.
      rewrite vars_used_rn, op_var_names_rn. apply existsb_map_hom. intros x _.
      rewrite (mem_name_inj fv Hfv). reflexivity.
    Qed.

    (* ---- directives ---- *)
    Definition rn_site (x : dir_loc * list directive) : dir_loc * list directive := (fst x, map rn_dir (snd x)).
    Lemma sel_directive_sites_rn x : sel_directive_sites (rn_sel x) = map rn_site (sel_directive_sites x).
    Proof.
      induction x as [p al n args dirs sp sels IH|p n dirs|p tc dirs sp sels IH] using selection_ind';
        cbn [C14_rename_proofs.rn_sel sel_directive_sites map]; unfold rn_site at 1; cbn [fst snd]; f_equal;
        (rewrite flat_map_map, map_flat_map; apply flat_map_Forall_ext, IH).
    Qed.
    Lemma directive_sites_rn : directive_sites (rn_doc d) = map rn_site (directive_sites d).
    Proof.
      unfold directive_sites, rn_doc. apply flat_map_map_hom. intros [o|f] _; cbn [C14_rename_proofs.rn_def].
      - rewrite op_directives_rn. cbn [C14_rename_proofs.rn_op o_kind o_sels map]. unfold rn_site at 1. cbn [fst snd]. f_equal.
        apply flat_map_map_hom. intros x _. apply sel_directive_sites_rn.
      - cbn [C14_rename_proofs.rn_frag fr_dirs fr_sels map]. unfold rn_site at 1. cbn [fst snd]. f_equal.
        apply flat_map_map_hom. intros x _. apply sel_directive_sites_rn.
    Qed.
    Lemma n_known_directives : v_known_directives s (rn_doc d) = v_known_directives s d.
    Proof.
      unfold v_known_directives. rewrite directive_sites_rn. apply existsb_map_hom. intros site _.
      cbn [rn_site fst snd]. apply existsb_map_hom. intros x _. reflexivity.
    Qed.
    Lemma n_unique_directives_per_location :
      v_unique_directives_per_location s (rn_doc d) = v_unique_directives_per_location s d.
    Proof.
      unfold v_unique_directives_per_location. rewrite directive_sites_rn. apply existsb_map_hom. intros site _.
      cbn [rn_site fst snd]. rewrite flat_map_map. reflexivity.
    Qed.
  End Doc.
End RnStruct.

(* ------------------------------------------------------------------ the field events of the annotation
   carry field selections *)
Definition fld_ok (ea : aev) : Prop :=
  match fst ea with Enter (NField f) => is_field_sel f = true | _ => True end.

Lemma Forall_flat_map_intro {A B} (P : B -> Prop) (g : A -> list B) l :
  (forall x, In x l -> Forall P (g x)) -> Forall P (flat_map g l).
Proof.
  intro H. apply Forall_forall. intros y Hy. apply in_flat_map in Hy. destruct Hy as (x & Hx & Hy).
  specialize (H x Hx). rewrite Forall_forall in H. apply H, Hy.
Qed.

Lemma plain_fld_ok l : Forall (plain_aev) l -> Forall fld_ok l.
Proof.
  apply Forall_impl. intros [[n|n] e]; unfold plain_aev, fld_ok; cbn [fst]; [|trivial].
  destruct n; try trivial; discriminate.
Qed.

Lemma annot_arguments_fld s decls args e : Forall fld_ok (annot_arguments s decls args e).
Proof. apply plain_fld_ok. exact (annot_arguments_plain s decls args e). Qed.
Lemma annot_directives_fld s dirs e : Forall fld_ok (annot_directives s dirs e).
Proof.
  unfold annot_directives. apply Forall_flat_map_intro. intros x _. constructor; [exact I|].
  apply Forall_app. split; [apply annot_arguments_fld|constructor; [exact I|constructor]].
Qed.
Lemma annot_vardefs_fld s vars e : Forall fld_ok (annot_vardefs s vars e).
Proof.
  unfold annot_vardefs. apply Forall_flat_map_intro. intros v _. cbv zeta. constructor; [exact I|].
  apply Forall_app. split; [|constructor; [exact I|constructor]].
  destruct (v_default v) as [dv|]; [|constructor]. apply plain_fld_ok. exact (annot_value_plain s dv _).
Qed.
Lemma annot_selection_fld s x : forall e, Forall fld_ok (annot_selection s x e).
Proof.
  induction x as [p al n args dirs sp sels IH|p n dirs|p tc dirs sp sels IH] using selection_ind'; intro e;
    cbn [annot_selection]; cbv zeta.
  - constructor; [reflexivity|]. apply Forall_app. split; [apply annot_arguments_fld|].
    apply Forall_app. split; [apply annot_directives_fld|]. constructor; [exact I|].
    apply Forall_app. split; [|repeat (constructor; [exact I|]); constructor].
    apply Forall_flat_map_intro. intros y Hy. rewrite Forall_forall in IH. apply IH, Hy.
  - constructor; [exact I|]. apply Forall_app. split; [apply annot_directives_fld|constructor; [exact I|constructor]].
  - constructor; [exact I|]. apply Forall_app. split; [apply annot_directives_fld|]. constructor; [exact I|].
    apply Forall_app. split; [|repeat (constructor; [exact I|]); constructor].
    apply Forall_flat_map_intro. intros y Hy. rewrite Forall_forall in IH. apply IH, Hy.
Qed.
Lemma annot_selection_set_fld s sp sels e : Forall fld_ok (annot_selection_set s sp sels e).
Proof.
  unfold annot_selection_set. cbv zeta. constructor; [exact I|]. apply Forall_app.
  split; [|constructor; [exact I|constructor]]. apply Forall_flat_map_intro. intros y _. apply annot_selection_fld.
Qed.
Lemma annot_definition_fld s x e : Forall fld_ok (annot_definition s x e).
Proof.
  destruct x as [o|f]; cbn [annot_definition]; cbv zeta; (constructor; [exact I|]).
  - apply Forall_app. split; [apply annot_directives_fld|]. apply Forall_app. split; [apply annot_vardefs_fld|].
    apply Forall_app. split; [apply annot_selection_set_fld|constructor; [exact I|constructor]].
  - apply Forall_app. split; [apply annot_directives_fld|].
    apply Forall_app. split; [apply annot_selection_set_fld|constructor; [exact I|constructor]].
Qed.
Lemma annot_fld s d : Forall fld_ok (annot s d).
Proof.
  unfold annot. constructor; [exact I|]. apply Forall_app. split; [|constructor; [exact I|constructor]].
  apply Forall_flat_map_intro. intros x _. apply annot_definition_fld.
Qed.
Lemma field_events_fields s d fe : In fe (field_events s d) -> is_field_sel (fst fe) = true.
Proof.
  unfold field_events. intro H. apply in_flat_map in H. destruct H as ([ev e] & Hin & H).
  pose proof (annot_fld s d) as Hok. rewrite Forall_forall in Hok. specialize (Hok _ Hin).
  unfold fld_ok in Hok. cbn [fst snd] in *. destruct ev as [n|n]; [|destruct H]. destruct n; try contradiction.
  destruct H as [<-|[]]. exact Hok.
Qed.

(* ------------------------------------------------------------------ values *)
Section RnValues.
  Variable fv : name -> name.
  Hypothesis Hfv : injective fv.
  Notation rn_value := (rn_value fv).
  Notation rn_arg := (rn_arg fv).

  Lemma value_eqb_rn a : forall b, value_eqb (rn_value a) (rn_value b) = value_eqb a b.
  Proof.
    induction a as [n|z|b0|str|b0| |n|l IH|l IH] using value_ind'; intros [m|z'|b'|str'|b'| |m|l'|l'];
      try reflexivity.
    - cbn [C14_rename_proofs.rn_value value_eqb]. apply name_eqb_inj, Hfv.
    - cbn [C14_rename_proofs.rn_value value_eqb]. revert l'.
      induction IH as [|x r Hx _ IHr]; intros [|y r']; cbn [map]; try reflexivity.
      rewrite Hx, IHr. reflexivity.
    - cbn [C14_rename_proofs.rn_value value_eqb]. revert l'.
      induction IH as [|[k u] r Hx _ IHr]; intros [|[k' u'] r']; cbn [map fst snd] in *; try reflexivity.
      rewrite Hx, IHr. reflexivity.
  Qed.

  Lemma same_arguments_rn (a b : list argument) : same_arguments (map rn_arg a) (map rn_arg b) = same_arguments a b.
  Proof.
    assert (H : forall a b : list argument, args_subset (map rn_arg a) (map rn_arg b) = args_subset a b).
    { intros x y. unfold args_subset. apply forallb_map_hom. intros u _. apply existsb_map_hom. intros w _.
      cbn [C14_rename_proofs.rn_arg fst snd]. rewrite value_eqb_rn. reflexivity. }
    unfold same_arguments. rewrite !H. reflexivity.
  Qed.

  Lemma coercibleb_rn s v : forall t, coercibleb s (rn_value v) t = coercibleb s v t.
  Proof.
    induction v as [n|z|b|str|b| |n|l IH|l IH] using value_ind'; intro t; try reflexivity;
      induction t as [m|i IHt|i IHt]; cbn [C14_rename_proofs.rn_value];
      rewrite ?C08_proofs.coercibleb_named, ?C08_proofs.coercibleb_list, ?C08_proofs.coercibleb_nonnull;
      try reflexivity; try exact IHt.
    - apply forallb_map_hom. intros x Hx. rewrite Forall_forall in IH. apply IH, Hx.
    - unfold C08_proofs.named_spec. destruct (type_by_name s m) as [[]|]; try reflexivity. f_equal.
      + apply forallb_map_hom. intros kv Hkv. cbn [fst snd].
        destruct (find_first (fun f => name_eqb (iv_name f) (fst kv)) fields) as [f|]; [|reflexivity].
        rewrite Forall_forall in IH. apply (IH kv Hkv).
      + apply forallb_ext_in. intros f _. f_equal. rewrite existsb_map. reflexivity.
  Qed.

  Definition rn_usage (u : name * ty * bool) : name * ty * bool := (fv (fst (fst u)), snd (fst u), snd u).
  Lemma value_usages_rn s v : forall t dflt, value_usages s (rn_value v) t dflt = map rn_usage (value_usages s v t dflt).
  Proof.
    induction v as [n|z|b|str|b| |n|l IH|l IH] using value_ind'; intros t dflt; try reflexivity.
    - cbn [C14_rename_proofs.rn_value value_usages]. destruct t; reflexivity.
    - cbn [C14_rename_proofs.rn_value value_usages]. rewrite flat_map_map, map_flat_map.
      apply flat_map_Forall_ext. eapply Forall_impl; [|exact IH]. intros x Hx. apply Hx.
    - cbn [C14_rename_proofs.rn_value value_usages]. rewrite flat_map_map, map_flat_map.
      apply flat_map_Forall_ext. eapply Forall_impl; [|exact IH]. intros kv Hkv. cbv beta zeta. cbn [fst snd].
      apply Hkv.
  Qed.
  Lemma args_usages_rn s decls (args : list argument) :
    args_usages s decls (map rn_arg args) = map rn_usage (args_usages s decls args).
  Proof.
    unfold args_usages. apply flat_map_map_hom. intros a _. cbv zeta. cbn [C14_rename_proofs.rn_arg fst snd].
    apply value_usages_rn.
  Qed.

  Lemma args_unknown_rn decls (args : list argument) : v_args_unknown decls (map rn_arg args) = v_args_unknown decls args.
  Proof. destruct decls as [ds|]; [|reflexivity]. cbn [v_args_unknown]. apply existsb_map_hom. intros a _. reflexivity. Qed.
  Lemma args_missing_rn decls (args : list argument) : v_args_missing decls (map rn_arg args) = v_args_missing decls args.
  Proof.
    destruct decls as [ds|]; [|reflexivity]. cbn [v_args_missing]. apply existsb_ext_in. intros x _.
    rewrite existsb_map. reflexivity.
  Qed.
  Lemma args_duplicated_rn (args : list argument) : v_args_duplicated (map rn_arg args) = v_args_duplicated args.
  Proof. unfold v_args_duplicated. rewrite map_map. reflexivity. Qed.
End RnValues.

(* ------------------------------------------------------------------ rules that read the annotation *)
Section RnRules.
  Variables ff fv : name -> name.
  Hypothesis Hff : injective ff.
  Hypothesis Hfv : injective fv.
  Notation rn_value := (rn_value fv).
  Notation rn_arg := (rn_arg fv).
  Notation rn_dir := (rn_dir fv).
  Notation rn_sel := (rn_sel ff fv).
  Notation rn_vardef := (rn_vardef fv).
  Notation rn_op := (rn_op ff fv).
  Notation rn_frag := (rn_frag ff fv).
  Notation rn_def := (rn_def ff fv).
  Notation rn_doc := (rn_doc ff fv).
  Notation rn_aev := (rn_aev ff fv).
  Notation rn_usage := (rn_usage fv).

  Definition rn_fe (fe : selection * env) : selection * env := (rn_sel (fst fe), snd fe).

  Variables (s : sdocument) (d : document).

  Lemma field_events_rn : field_events s (rn_doc d) = map rn_fe (field_events s d).
  Proof.
    unfold field_events. rewrite annot_rn. apply flat_map_map_hom.
    intros [[n|n] e] _; [destruct n|]; reflexivity.
  Qed.
  Lemma directive_events_rn : directive_events s (rn_doc d) = map rn_dir (directive_events s d).
  Proof.
    unfold directive_events. rewrite annot_rn. apply flat_map_map_hom.
    intros [[n|n] e] _; [destruct n|]; reflexivity.
  Qed.
  Lemma literal_positions_rn :
    literal_positions s (rn_doc d) = map (fun tv : ty * value => (fst tv, rn_value (snd tv))) (literal_positions s d).
  Proof.
    unfold literal_positions. rewrite annot_rn. apply flat_map_map_hom.
    intros [[n|n] e] _; [destruct n|]; try reflexivity; cbn [C14_rename_proofs.rn_aev fst snd rn_event rn_node].
    - destruct (a_input_lit e); [|reflexivity]. cbn [C14_rename_proofs.rn_vardef v_default].
      destruct (v_default v); reflexivity.
    - destruct (a_input_lit e); reflexivity.
  Qed.
  Lemma selection_sets_rn :
    selection_sets s (rn_doc d) =
    map (fun ps : option type_def * list selection => (fst ps, map rn_sel (snd ps))) (selection_sets s d).
  Proof.
    unfold selection_sets. rewrite annot_rn. apply flat_map_map_hom.
    intros [[n|n] e] _; [destruct n|]; reflexivity.
  Qed.

  Lemma sels_nil_rn (f : selection) :
    match sel_sels (rn_sel f) with [] => true | _ => false end = match sel_sels f with [] => true | _ => false end.
  Proof. rewrite sel_sels_rn. destruct (sel_sels f); reflexivity. Qed.

  Lemma n_leaf_field_selections : v_leaf_field_selections s (rn_doc d) = v_leaf_field_selections s d.
  Proof.
    unfold v_leaf_field_selections. rewrite field_events_rn. apply existsb_map_hom. intros [f e] Hin.
    apply field_events_fields in Hin. cbn [fst] in Hin. cbn [rn_fe fst snd].
    rewrite sels_nil_rn, (sel_name_field_rn ff fv f Hin). reflexivity.
  Qed.
  Lemma n_fields_on_correct_type : v_fields_on_correct_type s (rn_doc d) = v_fields_on_correct_type s d.
  Proof.
    unfold v_fields_on_correct_type. f_equal.
    - rewrite field_events_rn. apply existsb_map_hom. intros [f e] Hin.
      apply field_events_fields in Hin. cbn [fst] in Hin. cbn [rn_fe fst snd].
      rewrite (sel_name_field_rn ff fv f Hin). reflexivity.
    - rewrite operations_of_rn. apply existsb_map_hom. intros o _. cbn [C14_rename_proofs.rn_op o_kind o_sels].
      destruct (o_kind o); try reflexivity. rewrite root_typename_fields_rn.
      destruct (root_typename_fields (o_sels o)); reflexivity.
  Qed.
  Lemma n_possible_fragment_spreads : v_possible_fragment_spreads s (rn_doc d) = v_possible_fragment_spreads s d.
  Proof.
    unfold v_possible_fragment_spreads. rewrite annot_rn. apply existsb_map_hom.
    intros [[n|n] e] _; [destruct n|]; try reflexivity. cbn [C14_rename_proofs.rn_aev fst snd rn_event rn_node].
    destruct f as [p al n args dirs sp sels|p n dirs|p tc dirs sp sels]; try reflexivity.
    cbn [C14_rename_proofs.rn_sel]. rewrite (find_fragment_rn ff fv Hff).
    destruct (find_fragment d n) as [fr|]; reflexivity.
  Qed.

  (* ---- arguments ---- *)
  Lemma field_decls_rn fe : is_field_sel (fst fe) = true -> field_decls (rn_fe fe) = field_decls fe.
  Proof. intro H. unfold field_decls. cbn [rn_fe fst snd]. rewrite (sel_name_field_rn ff fv _ H). reflexivity. Qed.

  Lemma n_known_argument_names : v_known_argument_names s (rn_doc d) = v_known_argument_names s d.
  Proof.
    unfold v_known_argument_names. f_equal.
    - rewrite field_events_rn. apply existsb_map_hom. intros fe Hin. apply field_events_fields in Hin.
      rewrite (field_decls_rn fe Hin). cbn [rn_fe fst]. rewrite sel_args_rn. apply args_unknown_rn.
    - rewrite directive_events_rn. apply existsb_map_hom. intros x _. apply (args_unknown_rn fv).
  Qed.
  Lemma n_unique_argument_names : v_unique_argument_names s (rn_doc d) = v_unique_argument_names s d.
  Proof.
    unfold v_unique_argument_names. f_equal.
    - rewrite field_events_rn. apply existsb_map_hom. intros fe _. cbn [rn_fe fst]. rewrite sel_args_rn.
      apply args_duplicated_rn.
    - rewrite directive_events_rn. apply existsb_map_hom. intros x _. apply (args_duplicated_rn fv).
  Qed.
  Lemma n_provided_required_arguments : v_provided_required_arguments s (rn_doc d) = v_provided_required_arguments s d.
  Proof.
    unfold v_provided_required_arguments. f_equal.
    - rewrite field_events_rn. apply existsb_map_hom. intros fe Hin. apply field_events_fields in Hin.
      rewrite (field_decls_rn fe Hin). cbn [rn_fe fst]. rewrite sel_args_rn. apply args_missing_rn.
    - rewrite directive_events_rn. apply existsb_map_hom. intros x _. apply (args_missing_rn fv).
  Qed.

  (* ---- values ---- *)
  Lemma n_values_of_correct_type : v_values_of_correct_type s (rn_doc d) = v_values_of_correct_type s d.
  Proof.
    unfold v_values_of_correct_type. rewrite literal_positions_rn. apply existsb_map_hom. intros tv _.
    cbn [fst snd]. rewrite coercibleb_rn. reflexivity.
  Qed.

  Lemma definition_usages_rn x : definition_usages s (rn_def x) = map rn_usage (definition_usages s x).
  Proof.
    unfold definition_usages. rewrite annot_definition_rn. apply flat_map_map_hom. intros [ev e] Hin.
    pose proof (annot_definition_fld s x env0) as Hok. rewrite Forall_forall in Hok. specialize (Hok _ Hin).
    unfold fld_ok in Hok. cbn [fst snd] in *. destruct ev as [n|n]; [|reflexivity]. destruct n; try reflexivity.
    - cbn [C14_rename_proofs.rn_aev fst snd rn_event rn_node]. apply (args_usages_rn fv).
    - cbn [C14_rename_proofs.rn_aev fst snd rn_event rn_node].
      change (field_decls (rn_sel f, e)) with (field_decls (rn_fe (f, e))).
      rewrite (field_decls_rn (f, e) Hok), sel_args_rn. apply args_usages_rn.
  Qed.
  Lemma op_usages_rn o : op_usages s (rn_doc d) (rn_op o) = map rn_usage (op_usages s d o).
  Proof.
    unfold op_usages. rewrite map_app. f_equal; [apply (definition_usages_rn (DOp o))|].
    rewrite (op_reachable_rn ff fv Hff). apply flat_map_map_hom. intros n _.
    rewrite fragments_of_rn. apply flat_map_map_hom. intros f _.
    cbn [C14_rename_proofs.rn_frag fr_name]. rewrite (name_eqb_inj ff Hff).
    destruct (name_eqb (fr_name f) n); [apply (definition_usages_rn (DFrag f))|reflexivity].
  Qed.
  Lemma n_variables_in_allowed_position :
    v_variables_in_allowed_position s (rn_doc d) = v_variables_in_allowed_position s d.
  Proof.
    unfold v_variables_in_allowed_position. rewrite operations_of_rn. apply existsb_map_hom. intros o _.
    rewrite op_usages_rn. apply existsb_map_hom. intros [[x lt] ld] _. cbn [C14_rename_proofs.rn_usage fst snd].
    rewrite op_variable_definitions_rn, find_first_map.
    rewrite (find_first_ext _ (fun vd => name_eqb (v_name vd) x))
      by (intro vd; cbn [C14_rename_proofs.rn_vardef v_name]; apply name_eqb_inj, Hfv).
    destruct (find_first (fun vd => name_eqb (v_name vd) x) (op_variable_definitions o)) as [vd|]; [|reflexivity].
    cbn [opt_map C14_rename_proofs.rn_vardef v_type v_default]. f_equal.
    unfold is_variable_usage_allowed.
    assert (E : has_non_null_default (opt_map rn_value (v_default vd)) = has_non_null_default (v_default vd))
      by (destruct (v_default vd) as [[]|]; reflexivity).
    rewrite E. reflexivity.
  Qed.

  (* ---- CollectFields of the subscription rule ---- *)
  Definition rnresS (r : list selection * list name) : list selection * list name :=
    (map rn_sel (fst r), map ff (snd r)).
  Section CollectS.
    Variable obj : type_def.
    Variables rec rec' : list selection -> list name -> list selection * list name.
    Hypothesis Hrec : forall l v, rec' (map rn_sel l) (map ff v) = rnresS (rec l v).

    Lemma sm_rn_F l :
      Forall (fun x => forall v, so s (rn_doc d) obj rec' (rn_sel x) (map ff v) = rnresS (so s d obj rec x v)) l ->
      forall v, sm s (rn_doc d) obj rec' (map rn_sel l) (map ff v) = rnresS (sm s d obj rec l v).
    Proof.
      induction 1 as [|y r Hy _ IH]; intro v; [reflexivity|]. cbn [map sm]. rewrite Hy.
      destruct (so s d obj rec y v) as [a v1]. unfold rnresS at 1. cbn [fst snd]. rewrite IH.
      destruct (sm s d obj rec r v1) as [b v2]. unfold rnresS. cbn [fst snd]. rewrite map_app. reflexivity.
    Qed.
    Lemma so_rn x : forall v, so s (rn_doc d) obj rec' (rn_sel x) (map ff v) = rnresS (so s d obj rec x v).
    Proof.
      induction x as [p al n args dirs sp sels IH|p n dirs|p tc dirs sp sels IH] using selection_ind'; intro v.
      - reflexivity.
      - cbn [C14_rename_proofs.rn_sel so]. rewrite (mem_name_inj ff Hff).
        destruct (mem_name n v); [reflexivity|]. rewrite (find_fragment_rn ff fv Hff).
        destruct (find_fragment d n) as [fr|]; cbn [opt_map]; [|reflexivity].
        cbn [C14_rename_proofs.rn_frag fr_tc fr_sels].
        destruct (fragment_type_applies s obj (fr_tc fr)); [|reflexivity].
        change (ff n :: map ff v) with (map ff (n :: v)). apply Hrec.
      - cbn [C14_rename_proofs.rn_sel]. rewrite !so_inline.
        destruct (match tc with None => true | Some c => fragment_type_applies s obj c end); [|reflexivity].
        apply sm_rn_F, IH.
    Qed.
    Lemma sm_rn l v : sm s (rn_doc d) obj rec' (map rn_sel l) (map ff v) = rnresS (sm s d obj rec l v).
    Proof. apply sm_rn_F. apply Forall_forall. intros x _. apply so_rn. Qed.
  End CollectS.

  Lemma spec_collect_list_rn obj : forall fuel sels v,
    spec_collect_list fuel s (rn_doc d) obj (map rn_sel sels) (map ff v) =
    rnresS (spec_collect_list fuel s d obj sels v).
  Proof.
    induction fuel as [|fuel IH]; intros sels v; [reflexivity|]. rewrite !spec_collect_list_S.
    apply sm_rn. exact IH.
  Qed.

  Lemma is_introspection_field_rn x : is_introspection_field (rn_sel x) = is_introspection_field x.
  Proof. destruct x; reflexivity. Qed.
  Lemma sfs_bad_rn l : sfs_bad (map rn_sel l) = sfs_bad l.
  Proof.
    unfold sfs_bad. rewrite !group_introspection. f_equal.
    - unfold group_by_key. rewrite !map_length, map_map.
      rewrite (map_ext _ field_response_key) by (intro x; apply field_response_key_rn). reflexivity.
    - apply existsb_map_hom. intros x _. apply is_introspection_field_rn.
  Qed.

  Lemma n_single_field_subscriptions : v_single_field_subscriptions s (rn_doc d) = v_single_field_subscriptions s d.
  Proof.
    unfold v_single_field_subscriptions. rewrite operations_of_rn. apply existsb_map_hom. intros o _.
    cbn [C14_rename_proofs.rn_op o_kind o_sels]. destruct (o_kind o); try reflexivity.
    destruct (root s OpSubscription) as [t|]; [|reflexivity]. unfold spec_collect.
    rewrite frags_length_rn. change (@nil name) with (map ff []) at 1 2.
    rewrite spec_collect_list_rn. cbn [rnresS fst]. apply sfs_bad_rn.
  Qed.
End RnRules.

(* ------------------------------------------------------------------ field merging *)
Definition cf_ok (c : cfield) : Prop := is_field_sel (cf_field c) = true.

Section CollectFields.
  Variables (s : sdocument) (d : document).
  Variable rec : option type_def -> list selection -> list name -> list cfield * list name.
  Hypothesis Hrec : forall p l v, Forall cf_ok (fst (rec p l v)).

  Lemma cm_fields_F l : Forall (fun x => forall p v, Forall cf_ok (fst (co s d rec p x v))) l ->
    forall p v, Forall cf_ok (fst (cm s d rec p l v)).
  Proof.
    induction 1 as [|y r Hy _ IH]; intros p v; [constructor|]. rewrite cm_cons.
    specialize (Hy p v). destruct (co s d rec p y v) as [a v1]. specialize (IH p v1).
    destruct (cm s d rec p r v1) as [b v2]. cbn [fst] in *. apply Forall_app. split; assumption.
  Qed.
  Lemma co_fields x : forall p v, Forall cf_ok (fst (co s d rec p x v)).
  Proof.
    induction x as [q al n args dirs sp sels IH|q n dirs|q tc dirs sp sels IH] using selection_ind'; intros p v.
    - constructor; [reflexivity|constructor].
    - cbn [co]. destruct (mem_name n v); [constructor|]. destruct (find_fragment d n); [apply Hrec|constructor].
    - rewrite co_inline. apply cm_fields_F, IH.
  Qed.
  Lemma cm_fields p l v : Forall cf_ok (fst (cm s d rec p l v)).
  Proof. apply cm_fields_F. apply Forall_forall. intros x _. apply co_fields. Qed.
End CollectFields.

Lemma collect_set_fields s d : forall fuel p l v, Forall cf_ok (fst (collect_set fuel s d p l v)).
Proof.
  induction fuel as [|fuel IH]; intros p l v; [constructor|]. rewrite collect_set_S. apply cm_fields. exact IH.
Qed.
Lemma collected_fields s d p l : Forall cf_ok (collected s d p l).
Proof. apply collect_set_fields. Qed.
Lemma sub_set_fields s d c : Forall cf_ok (sub_set s d c).
Proof. apply collected_fields. Qed.

Section RnMerge.
  Variables ff fv : name -> name.
  Hypothesis Hff : injective ff.
  Hypothesis Hfv : injective fv.
  Notation rn_sel := (rn_sel ff fv).
  Notation rn_doc := (rn_doc ff fv).
  Variables (s : sdocument) (d : document).

  Definition rn_cf (c : cfield) : cfield := mkCF (cf_parent c) (rn_sel (cf_field c)).
  Definition rnresC (r : list cfield * list name) : list cfield * list name := (map rn_cf (fst r), map ff (snd r)).

  Section CollectC.
    Variables rec rec' : option type_def -> list selection -> list name -> list cfield * list name.
    Hypothesis Hrec : forall p l v, rec' p (map rn_sel l) (map ff v) = rnresC (rec p l v).

    Lemma cm_rn_F l :
      Forall (fun x => forall p v, co s (rn_doc d) rec' p (rn_sel x) (map ff v) = rnresC (co s d rec p x v)) l ->
      forall p v, cm s (rn_doc d) rec' p (map rn_sel l) (map ff v) = rnresC (cm s d rec p l v).
    Proof.
      induction 1 as [|y r Hy _ IH]; intros p v; [reflexivity|]. cbn [map]. rewrite !cm_cons, Hy.
      destruct (co s d rec p y v) as [a v1]. unfold rnresC at 1. cbn [fst snd]. rewrite IH.
      destruct (cm s d rec p r v1) as [b v2]. unfold rnresC. cbn [fst snd]. rewrite map_app. reflexivity.
    Qed.
    Lemma co_rn x : forall p v, co s (rn_doc d) rec' p (rn_sel x) (map ff v) = rnresC (co s d rec p x v).
    Proof.
      induction x as [q al n args dirs sp sels IH|q n dirs|q tc dirs sp sels IH] using selection_ind'; intros p v.
      - reflexivity.
      - cbn [C14_rename_proofs.rn_sel co]. rewrite (mem_name_inj ff Hff).
        destruct (mem_name n v); [reflexivity|]. rewrite (find_fragment_rn ff fv Hff).
        destruct (find_fragment d n) as [fr|]; cbn [opt_map]; [|reflexivity].
        cbn [C14_rename_proofs.rn_frag fr_tc fr_sels].
        change (ff n :: map ff v) with (map ff (n :: v)). apply Hrec.
      - cbn [C14_rename_proofs.rn_sel]. rewrite !co_inline. apply cm_rn_F, IH.
    Qed.
    Lemma cm_rn p l v : cm s (rn_doc d) rec' p (map rn_sel l) (map ff v) = rnresC (cm s d rec p l v).
    Proof. apply cm_rn_F. apply Forall_forall. intros x _. apply co_rn. Qed.
  End CollectC.

  Lemma collect_set_rn : forall fuel p sels v,
    collect_set fuel s (rn_doc d) p (map rn_sel sels) (map ff v) = rnresC (collect_set fuel s d p sels v).
  Proof.
    induction fuel as [|fuel IH]; intros p sels v; [reflexivity|]. rewrite !collect_set_S. apply cm_rn. exact IH.
  Qed.
  Lemma collected_rn p l : collected s (rn_doc d) p (map rn_sel l) = map rn_cf (collected s d p l).
  Proof.
    unfold collected, set_fuel. rewrite frags_length_rn. change (@nil name) with (map ff []) at 1.
    rewrite collect_set_rn. reflexivity.
  Qed.

  Lemma cf_def_rn c : cf_ok c -> cf_def (rn_cf c) = cf_def c.
  Proof. intro H. unfold cf_def. cbn [rn_cf cf_parent cf_field]. rewrite (sel_name_field_rn ff fv _ H). reflexivity. Qed.
  Lemma cf_key_rn c : cf_key (rn_cf c) = cf_key c.
  Proof. unfold cf_key. cbn [rn_cf cf_field]. apply field_response_key_rn. Qed.
  Lemma sub_set_rn c : cf_ok c -> sub_set s (rn_doc d) (rn_cf c) = map rn_cf (sub_set s d c).
  Proof.
    intro H. unfold sub_set. rewrite (cf_def_rn c H). cbn [rn_cf cf_field]. rewrite sel_sels_rn. apply collected_rn.
  Qed.

  (* related collected fields *)
  Definition rcfn (c c' : cfield) : Prop := c' = rn_cf c /\ cf_ok c.
  Lemma rcfn_map l : Forall cf_ok l -> Forall2 rcfn l (map rn_cf l).
  Proof. induction 1 as [|c l Hc _ IH]; cbn [map]; constructor; [split; [reflexivity|exact Hc]|exact IH]. Qed.

  Lemma fcm_rn : forall f m a b, cf_ok a -> cf_ok b ->
    fields_can_merge f s (rn_doc d) m (rn_cf a) (rn_cf b) = fields_can_merge f s d m a b.
  Proof.
    induction f as [|f IH]; intros m a b Ha Hb; [reflexivity|]. rewrite !fcm_unfold.
    rewrite (cf_def_rn a Ha), (cf_def_rn b Hb), (sub_set_rn a Ha), (sub_set_rn b Hb).
    change (parents_exclusive (rn_cf a) (rn_cf b)) with (parents_exclusive a b).
    cbn [rn_cf cf_field]. rewrite (sel_name_field_rn ff fv _ Ha), (sel_name_field_rn ff fv _ Hb).
    rewrite !sel_args_rn, (same_arguments_rn fv Hfv). f_equal.
    unfold cross_all. symmetry. apply F2_forallb. eapply Forall2_impl_in; [|apply rcfn_map, sub_set_fields].
    intros x x' _ [-> Hx]. apply F2_forallb. eapply Forall2_impl_in; [|apply rcfn_map, sub_set_fields].
    intros y y' _ [-> Hy]. rewrite !cf_key_rn, (IH _ x y Hx Hy). reflexivity.
  Qed.

  Lemma count_fields_rn x : count_fields (rn_sel x) = count_fields x.
  Proof.
    induction x as [q al n args dirs sp sels IH|q n dirs|q tc dirs sp sels IH] using selection_ind';
      cbn [C14_rename_proofs.rn_sel count_fields]; try reflexivity; [f_equal|];
      (symmetry; apply (fold_add_F2 (fun x y => y = rn_sel x));
       [clear IH; induction sels; cbn [map]; constructor; [reflexivity|assumption]|];
       intros a b Ha ->; rewrite Forall_forall in IH; symmetry; apply IH, Ha).
  Qed.
  Lemma sels_fields_rn l :
    fold_left (fun n y => n + count_fields y) (map rn_sel l) 0 = fold_left (fun n y => n + count_fields y) l 0.
  Proof.
    symmetry. apply (fold_add_F2 (fun x y => y = rn_sel x)).
    - induction l; cbn [map]; constructor; [reflexivity|assumption].
    - intros a b _ ->. symmetry. apply count_fields_rn.
  Qed.
  Lemma doc_fields_rn : doc_fields (rn_doc d) = doc_fields d.
  Proof.
    unfold doc_fields. symmetry. apply (fold_add_F2 (fun x y => y = rn_def ff fv x)).
    - unfold rn_doc. induction d; cbn [map]; constructor; [reflexivity|assumption].
    - intros x y _ ->. destruct x as [o|f]; cbn [C14_rename_proofs.rn_def C14_rename_proofs.rn_op C14_rename_proofs.rn_frag o_sels fr_sels];
        symmetry; apply sels_fields_rn.
  Qed.

  Lemma fisc_rn set : Forall cf_ok set ->
    fields_in_set_can_merge s (rn_doc d) (map rn_cf set) = fields_in_set_can_merge s d set.
  Proof.
    intro Hset. unfold fields_in_set_can_merge, same_key_pairs, merge_fuel_spec. rewrite doc_fields_rn.
    rewrite !forallb_filter.
    rewrite (pairs_within_forallb (fun a b => negb (name_eqb (cf_key a) (cf_key b)) ||
                                              fields_can_merge (S (S (doc_fields d))) s (rn_doc d) false a b)).
    rewrite (pairs_within_forallb (fun a b => negb (name_eqb (cf_key a) (cf_key b)) ||
                                              fields_can_merge (S (S (doc_fields d))) s d false a b)).
    symmetry. apply (pw_all_F2 rcfn); [apply rcfn_map, Hset|].
    intros x x' y y' [-> Hx] [-> Hy]. rewrite !cf_key_rn, (fcm_rn _ _ x y Hx Hy). reflexivity.
  Qed.

  Lemma n_overlapping_fields : v_overlapping_fields s (rn_doc d) = v_overlapping_fields s d.
  Proof.
    unfold v_overlapping_fields. rewrite (selection_sets_rn ff fv). apply existsb_map_hom. intros [p l] _.
    cbn [fst snd]. rewrite collected_rn, fisc_rn; [reflexivity|apply collected_fields].
  Qed.
End RnMerge.

(* ------------------------------------------------------------------ all rules, globally injective renamings *)
Theorem violated_rn ff fv r s d : injective ff -> injective fv ->
  violated r s (rn_doc ff fv d) = violated r s d.
Proof.
  intros Hff Hfv. destruct r; cbn [violated].
  - apply n_unique_operation_names.
  - apply n_lone_anonymous.
  - apply n_single_field_subscriptions; assumption.
  - apply n_known_type_names.
  - apply n_fragments_on_composite.
  - apply n_variables_are_input_types.
  - apply n_leaf_field_selections.
  - apply n_fields_on_correct_type.
  - apply n_unique_fragment_names; assumption.
  - apply n_known_fragment_names; assumption.
  - apply n_no_unused_fragments; assumption.
  - rewrite (n_no_fragment_cycles ff fv Hff d), (n_overlapping_fields ff fv Hff Hfv s d). reflexivity.
  - apply n_no_fragment_cycles; assumption.
  - apply n_possible_fragment_spreads; assumption.
  - apply n_no_unused_variables; assumption.
  - apply n_no_undefined_variables; assumption.
  - apply n_known_argument_names.
  - apply n_unique_argument_names.
  - apply n_unique_variable_names; assumption.
  - apply n_provided_required_arguments.
  - apply n_known_directives.
  - apply n_variables_in_allowed_position; assumption.
  - apply n_values_of_correct_type.
  - apply n_unique_directives_per_location.
Qed.

(* ------------------------------------------------------------------ the names in play *)
(* the names of the fragment definitions and the names the spreads mention *)
Definition doc_fragment_names (d : document) : list name := frag_names d ++ spreads_in (flat_map def_sels d).
(* the variables defined and the variables used anywhere in the document *)
Definition vardefs_names (vars : list vardef) : list name :=
  flat_map (fun v => v_name v :: match v_default v with Some dv => var_leaves dv | None => [] end) vars.
Definition doc_variable_names (d : document) : list name :=
  flat_map (fun x => match x with
                     | DOp o => vardefs_names (o_vars o) ++ dirs_vars (o_dirs o) ++ sels_vars (o_sels o)
                     | DFrag f => dirs_vars (fr_dirs f) ++ sels_vars (fr_sels f)
                     end) d.

(* the renaming reads ff and fv on these names only *)
Section RnExt.
  Variables ff ff' fv fv' : name -> name.

  Lemma rn_value_ext v : (forall n, In n (var_leaves v) -> fv n = fv' n) -> rn_value fv v = rn_value fv' v.
  Proof.
    induction v as [n|z|b|str|b| |n|l IH|l IH] using value_ind'; intro H; try reflexivity.
    - cbn [rn_value]. rewrite (H n (or_introl eq_refl)). reflexivity.
    - cbn [rn_value]. f_equal. apply map_ext_Forall. rewrite Forall_forall in *. intros x Hx. apply (IH x Hx).
      intros n Hn. apply H. cbn [var_leaves]. apply in_flat_map. exists x. split; assumption.
    - cbn [rn_value]. f_equal. apply map_ext_Forall. rewrite Forall_forall in *. intros kv Hkv. f_equal.
      apply (IH kv Hkv). intros n Hn. apply H. cbn [var_leaves]. apply in_flat_map. exists kv. split; assumption.
  Qed.
  Lemma rn_args_ext (args : list argument) :
    (forall n, In n (flat_map (fun a : argument => var_leaves (snd a)) args) -> fv n = fv' n) ->
    map (rn_arg fv) args = map (rn_arg fv') args.
  Proof.
    intro H. apply map_ext_in. intros a Ha. unfold rn_arg. f_equal. apply rn_value_ext.
    intros n Hn. apply H. apply in_flat_map. exists a. split; assumption.
  Qed.
  Lemma rn_dirs_ext dirs : (forall n, In n (dirs_vars dirs) -> fv n = fv' n) -> map (rn_dir fv) dirs = map (rn_dir fv') dirs.
  Proof.
    intro H. apply map_ext_in. intros x Hx. unfold rn_dir. f_equal. apply rn_args_ext.
    intros n Hn. apply H. unfold dirs_vars. apply in_flat_map. exists x. split; assumption.
  Qed.
  Lemma rn_vardefs_ext vars : (forall n, In n (vardefs_names vars) -> fv n = fv' n) ->
    map (rn_vardef fv) vars = map (rn_vardef fv') vars.
  Proof.
    intro H. apply map_ext_in. intros v Hv.
    assert (Hv' : forall n, In n (v_name v :: match v_default v with Some dv => var_leaves dv | None => [] end) -> fv n = fv' n).
    { intros n Hn. apply H. unfold vardefs_names. apply in_flat_map. exists v. split; assumption. }
    unfold rn_vardef. rewrite (Hv' _ (or_introl eq_refl)). f_equal.
    destruct (v_default v) as [dv|]; [|reflexivity]. cbn [opt_map]. f_equal. apply rn_value_ext.
    intros n Hn. apply Hv'. right. exact Hn.
  Qed.

  Definition sel_local_ok (y : selection) : Prop :=
    match y with SSpread _ n _ => ff n = ff' n | _ => True end /\
    forall n, In n (flat_map (fun a : argument => var_leaves (snd a)) (sel_args y) ++ dirs_vars (sel_dirs y)) -> fv n = fv' n.

  Lemma rn_sel_ext x : (forall y, In y (sel_all x) -> sel_local_ok y) -> rn_sel ff fv x = rn_sel ff' fv' x.
  Proof.
    induction x as [p al n args dirs sp sels IH|p n dirs|p tc dirs sp sels IH] using selection_ind'; intro H;
      destruct (H _ (or_introl eq_refl)) as [H1 H2]; cbn [sel_args sel_dirs] in H2; cbn [rn_sel].
    - rewrite rn_args_ext by (intros k Hk; apply H2, in_app_iff; left; exact Hk).
      rewrite rn_dirs_ext by (intros k Hk; apply H2, in_app_iff; right; exact Hk).
      f_equal. apply map_ext_Forall. rewrite Forall_forall in *. intros y Hy. apply (IH y Hy).
      intros z Hz. apply H. right. apply in_flat_map. exists y. split; assumption.
    - rewrite H1. rewrite rn_dirs_ext by (intros k Hk; apply H2; exact Hk). reflexivity.
    - rewrite rn_dirs_ext by (intros k Hk; apply H2; exact Hk).
      f_equal. apply map_ext_Forall. rewrite Forall_forall in *. intros y Hy. apply (IH y Hy).
      intros z Hz. apply H. right. apply in_flat_map. exists y. split; assumption.
  Qed.
  Lemma rn_sels_ext l :
    (forall n, In n (spreads_in l) -> ff n = ff' n) -> (forall n, In n (sels_vars l) -> fv n = fv' n) ->
    map (rn_sel ff fv) l = map (rn_sel ff' fv') l.
  Proof.
    intros Hs Hv. apply map_ext_in. intros x Hx. apply rn_sel_ext. intros y Hy.
    assert (Hy' : In y (sels_all l)) by (unfold sels_all; apply in_flat_map; exists x; split; assumption).
    split.
    - destruct y as [| p n dirs |]; try exact I. apply Hs. unfold spreads_in. apply in_flat_map.
      exists (SSpread p n dirs). split; [exact Hy'|left; reflexivity].
    - intros n Hn. apply Hv. unfold sels_vars. apply in_flat_map. exists y. split; assumption.
  Qed.

  Lemma rn_doc_ext d :
    (forall n, In n (doc_fragment_names d) -> ff n = ff' n) ->
    (forall n, In n (doc_variable_names d) -> fv n = fv' n) ->
    rn_doc ff fv d = rn_doc ff' fv' d.
  Proof.
    intros Hf Hv. unfold rn_doc. apply map_ext_in. intros x Hx.
    assert (Hs : forall n, In n (spreads_in (def_sels x)) -> ff n = ff' n).
    { intros n Hn. apply Hf. unfold doc_fragment_names. apply in_app_iff. right.
      unfold spreads_in, sels_all in *. apply in_flat_map in Hn.
      destruct Hn as (y & Hy & Hn). apply in_flat_map in Hy. destruct Hy as (z & Hz & Hy).
      apply in_flat_map. exists y. split; [|exact Hn]. apply in_flat_map. exists z. split; [|exact Hy].
      apply in_flat_map. exists x. split; assumption. }
    assert (Hv' : forall n, In n (match x with
                                  | DOp o => vardefs_names (o_vars o) ++ dirs_vars (o_dirs o) ++ sels_vars (o_sels o)
                                  | DFrag f => dirs_vars (fr_dirs f) ++ sels_vars (fr_sels f)
                                  end) -> fv n = fv' n).
    { intros n Hn. apply Hv. unfold doc_variable_names. apply in_flat_map. exists x. split; assumption. }
    destruct x as [o|f]; cbn [rn_def def_sels] in *.
    - unfold rn_op. rewrite rn_vardefs_ext by (intros n Hn; apply Hv', in_app_iff; left; exact Hn).
      rewrite rn_dirs_ext by (intros n Hn; apply Hv', in_app_iff; right; apply in_app_iff; left; exact Hn).
      rewrite (rn_sels_ext (o_sels o) Hs) by (intros n Hn; apply Hv', in_app_iff; right; apply in_app_iff; right; exact Hn).
      reflexivity.
    - unfold rn_frag. rewrite rn_dirs_ext by (intros n Hn; apply Hv', in_app_iff; left; exact Hn).
      rewrite (rn_sels_ext (fr_sels f) Hs) by (intros n Hn; apply Hv', in_app_iff; right; exact Hn).
      rewrite (Hf (fr_name f)); [reflexivity|]. unfold doc_fragment_names. apply in_app_iff. left.
      unfold frag_names. apply in_map. unfold fragments_of. apply in_flat_map. exists (DFrag f).
      split; [exact Hx|left; reflexivity].
  Qed.
End RnExt.

(* ------------------------------------------------------------------ a renaming injective on a list of names
   agrees on that list with an injective renaming *)
Fixpoint pad (n : nat) : string := match n with O => EmptyString | S k => String "_"%char (pad k) end.
Definition longest (l : list name) : nat := fold_right (fun x n => Nat.max (String.length x) n) 0 l.
Definition extend (f : name -> name) (P : list name) (x : name) : name :=
  if mem_name x P then f x else (pad (S (longest (map f P))) ++ x)%string.

Lemma string_length_append (a b : string) : String.length (a ++ b)%string = String.length a + String.length b.
Proof. induction a as [|c a IH]; cbn [String.append String.length]; [reflexivity|]. rewrite IH. reflexivity. Qed.
Lemma string_append_inj (p a b : string) : (p ++ a)%string = (p ++ b)%string -> a = b.
Proof. induction p as [|c p IH]; cbn [String.append]; intro H; [exact H|]. injection H as H. apply IH, H. Qed.
Lemma pad_length n : String.length (pad n) = n.
Proof. induction n as [|n IH]; cbn [pad String.length]; [reflexivity|]. rewrite IH. reflexivity. Qed.
Lemma longest_ge l x : In x l -> String.length x <= longest l.
Proof.
  induction l as [|y l IH]; intros []; cbn [longest fold_right].
  - subst. apply Nat.le_max_l.
  - etransitivity; [apply IH; assumption|apply Nat.le_max_r].
Qed.

Lemma extend_agrees f P x : In x P -> extend f P x = f x.
Proof. intro H. unfold extend. apply mem_In in H. rewrite H. reflexivity. Qed.
Lemma extend_injective f P : injective_on f P -> injective (extend f P).
Proof.
  intros Hinj a b. unfold extend.
  assert (Hlong : forall x y, In x P -> f x <> (pad (S (longest (map f P))) ++ y)%string).
  { intros x y Hx E. pose proof (longest_ge (map f P) (f x) (in_map f P x Hx)) as Hle.
    rewrite E, string_length_append, pad_length in Hle. lia. }
  destruct (mem_name a P) eqn:Ea, (mem_name b P) eqn:Eb; intro E.
  - apply Hinj; [apply mem_In, Ea|apply mem_In, Eb|exact E].
  - exfalso. apply mem_In in Ea. exact (Hlong a b Ea E).
  - exfalso. apply mem_In in Eb. symmetry in E. exact (Hlong b a Eb E).
  - apply string_append_inj in E. exact E.
Qed.

Theorem violated_rn_on ff fv r s d :
  injective_on ff (doc_fragment_names d) -> injective_on fv (doc_variable_names d) ->
  violated r s d = violated r s (rn_doc ff fv d).
Proof.
  intros Hff Hfv.
  rewrite (rn_doc_ext ff (extend ff (doc_fragment_names d)) fv (extend fv (doc_variable_names d)) d).
  - symmetry. apply violated_rn; apply extend_injective; assumption.
  - intros n Hn. symmetry. apply extend_agrees, Hn.
  - intros n Hn. symmetry. apply extend_agrees, Hn.
Qed.

(* ------------------------------------------------------------------ (d) fragments renamed *)
Fixpoint rename_fragments_sel (ff : name -> name) (x : selection) : selection :=
  match x with
  | SField p al n args dirs sp sels => SField p al n args dirs sp (map (rename_fragments_sel ff) sels)
  | SSpread p n dirs => SSpread p (ff n) dirs
  | SInline p tc dirs sp sels => SInline p tc dirs sp (map (rename_fragments_sel ff) sels)
  end.
Definition rename_fragments_def (ff : name -> name) (x : definition) : definition :=
  match x with
  | DOp o => DOp (mkOperation (o_kind o) (o_pos o) (o_name o) (o_vars o) (o_dirs o) (o_span o)
                              (map (rename_fragments_sel ff) (o_sels o)))
  | DFrag f => DFrag (mkFragment (fr_pos f) (ff (fr_name f)) (fr_tc f) (fr_dirs f) (fr_span f)
                                 (map (rename_fragments_sel ff) (fr_sels f)))
  end.
Definition rename_fragments_doc (ff : name -> name) (d : document) : document := map (rename_fragments_def ff) d.

Lemma rn_value_id v : rn_value (fun x => x) v = v.
Proof.
  induction v as [n|z|b|str|b| |n|l IH|l IH] using value_ind'; try reflexivity; cbn [rn_value]; f_equal.
  - apply map_id_in. rewrite Forall_forall in IH. exact IH.
  - apply map_id_in. rewrite Forall_forall in IH. intros [k u] H. cbn [fst snd]. f_equal. apply (IH _ H).
Qed.
Lemma rn_args_id (args : list argument) : map (rn_arg (fun x => x)) args = args.
Proof. apply map_id_in. intros [k u] _. unfold rn_arg. cbn [fst snd]. rewrite rn_value_id. reflexivity. Qed.
Lemma rn_dirs_id dirs : map (rn_dir (fun x => x)) dirs = dirs.
Proof. apply map_id_in. intros [p n a] _. unfold rn_dir. cbn. rewrite rn_args_id. reflexivity. Qed.
Lemma rn_vardefs_id vars : map (rn_vardef (fun x => x)) vars = vars.
Proof.
  apply map_id_in. intros [p n t dv] _. unfold rn_vardef. cbn. f_equal. destruct dv as [v|]; [|reflexivity].
  cbn [opt_map]. rewrite rn_value_id. reflexivity.
Qed.
Lemma rn_sel_frag ff x : rn_sel ff (fun x => x) x = rename_fragments_sel ff x.
Proof.
  induction x as [p al n args dirs sp sels IH|p n dirs|p tc dirs sp sels IH] using selection_ind';
    cbn [rn_sel rename_fragments_sel]; rewrite ?rn_args_id, ?rn_dirs_id; try reflexivity;
    f_equal; apply map_ext_Forall, IH.
Qed.
Lemma rn_doc_frag ff d : rn_doc ff (fun x => x) d = rename_fragments_doc ff d.
Proof.
  unfold rn_doc, rename_fragments_doc. apply map_ext. intros [o|f]; cbn [rn_def rename_fragments_def]; f_equal.
  - unfold rn_op. rewrite rn_vardefs_id, rn_dirs_id. f_equal. apply map_ext, rn_sel_frag.
  - unfold rn_frag. rewrite rn_dirs_id. f_equal. apply map_ext, rn_sel_frag.
Qed.

Lemma injective_on_id l : injective_on (fun x : name => x) l.
Proof. intros a b _ _ H. exact H. Qed.

(* [rename_fragments_doc ff d]: ff applied to the name of every fragment definition and of every fragment
   spread of d, nothing else changes; ff injective on these names *)
Theorem violated_rename_fragments : forall ff r s d,
  injective_on ff (doc_fragment_names d) ->
  violated r s d = violated r s (rename_fragments_doc ff d).
Proof.
  intros ff r s d H. rewrite <- rn_doc_frag. apply violated_rn_on; [exact H|apply injective_on_id].
Qed.

(* ------------------------------------------------------------------ (d) variables renamed *)
(* [rename_variables_doc fv d]: fv applied to the name of every variable definition and to every variable
   inside a value (arguments of fields and directives, default values; [rn_value]), nothing else changes *)
Definition rename_variables_doc (fv : name -> name) : document -> document := rn_doc (fun x => x) fv.

Theorem violated_rename_variables : forall fv r s d,
  injective_on fv (doc_variable_names d) ->
  violated r s d = violated r s (rename_variables_doc fv d).
Proof. intros fv r s d H. apply violated_rn_on; [apply injective_on_id|exact H]. Qed.

(* ------------------------------------------------------------------ the model's verdicts *)
Section SideRn.
  Variables ff fv : name -> name.
  Hypothesis Hff : injective ff.
  Hypothesis Hfv : injective fv.
  Variables (s : sdocument) (d : document).

  Lemma doc_types_proper_rn : doc_types_proper (rn_doc ff fv d) = doc_types_proper d.
  Proof.
    unfold doc_types_proper. rewrite operations_of_rn. apply forallb_map_hom. intros o _.
    rewrite op_variable_definitions_rn. apply forallb_map_hom. intros v _. reflexivity.
  Qed.
  Lemma defaults_const_rn : defaults_const (rn_doc ff fv d) = defaults_const d.
  Proof.
    unfold C07_position_proofs.defaults_const. rewrite operations_of_rn. apply forallb_map_hom. intros o _.
    rewrite op_variable_definitions_rn. apply forallb_map_hom. intros v _. cbn [rn_vardef v_default].
    destruct (v_default v) as [dv|]; [|reflexivity]. cbn [opt_map]. rewrite var_leaves_rn.
    destruct (var_leaves dv); reflexivity.
  Qed.
  Lemma distinct_fragments_rn : distinct_fragments (rn_doc ff fv d) = distinct_fragments d.
  Proof. unfold distinct_fragments. rewrite (n_unique_fragment_names ff fv Hff). reflexivity. Qed.
  Lemma rule_in_scope_rn r : rule_in_scope r s (rn_doc ff fv d) = rule_in_scope r s d.
  Proof.
    destruct r; cbn [rule_in_scope]; try reflexivity;
      rewrite ?distinct_fragments_rn, ?(n_no_fragment_cycles ff fv Hff), ?n_unique_argument_names,
              ?n_variables_are_input_types; reflexivity.
  Qed.
  Lemma side_rn r : side r s d -> side r s (rn_doc ff fv d).
  Proof.
    intros (Hwf & Hty & Hdc & Hdf & Hsc). unfold side.
    rewrite doc_types_proper_rn, defaults_const_rn, distinct_fragments_rn, rule_in_scope_rn. repeat split; assumption.
  Qed.

  Lemma merge_side_rn : merge_side s d -> merge_side s (rn_doc ff fv d).
  Proof.
    intros (H1 & H2 & H3). split; [|split].
    - rewrite doc_def_sels_rn, spreads_in_rn, H1. reflexivity.
    - rewrite doc_selections_rn.
      assert (E : forall l, map node_pos (filter is_field_sel (map (rn_sel ff fv) l)) = map node_pos (filter is_field_sel l)).
      { induction l as [|x l IH]; [reflexivity|]. cbn [map filter]. rewrite is_field_sel_rn.
        destruct (is_field_sel x); cbn [map]; rewrite IH; [|reflexivity]. f_equal. destruct x; reflexivity. }
      rewrite E. exact H2.
    - rewrite (violated_rn ff fv _ s d Hff Hfv). exact H3.
  Qed.
End SideRn.

Theorem run_alone_rn_on ff fv r s d :
  r <> R_OverlappingFieldsCanBeMerged ->
  wf_schema s = true -> doc_types_proper d = true -> defaults_const d = true ->
  distinct_fragments d = true -> rule_in_scope r s d = true ->
  injective_on ff (doc_fragment_names d) -> injective_on fv (doc_variable_names d) ->
  (run_alone r s d = [] <-> run_alone r s (rn_doc ff fv d) = []).
Proof.
  intros Hr Hwf Hty Hdc Hdf Hsc Hff Hfv.
  assert (Hside : side r s d) by (repeat split; assumption).
  rewrite (rn_doc_ext ff (extend ff (doc_fragment_names d)) fv (extend fv (doc_variable_names d)) d)
    by (intros n Hn; symmetry; apply extend_agrees, Hn).
  pose proof (extend_injective ff _ Hff) as Hff'. pose proof (extend_injective fv _ Hfv) as Hfv'.
  rewrite (nil_iff_false _ _ (rule_iff r s d Hr Hside)).
  assert (Hside' : side r s (rn_doc (extend ff (doc_fragment_names d)) (extend fv (doc_variable_names d)) d))
    by (apply side_rn; assumption).
  rewrite (nil_iff_false _ _ (rule_iff r s _ Hr Hside')).
  rewrite (violated_rn _ _ r s d Hff' Hfv'). reflexivity.
Qed.

Theorem run_alone_rename_fragments : forall ff r s d,
  r <> R_OverlappingFieldsCanBeMerged ->
  wf_schema s = true -> doc_types_proper d = true -> defaults_const d = true ->
  distinct_fragments d = true -> rule_in_scope r s d = true ->
  injective_on ff (doc_fragment_names d) ->
  (run_alone r s d = [] <-> run_alone r s (rename_fragments_doc ff d) = []).
Proof.
  intros ff r s d Hr Hwf Hty Hdc Hdf Hsc Hff. rewrite <- rn_doc_frag.
  apply run_alone_rn_on; try assumption. apply injective_on_id.
Qed.

Theorem run_alone_rename_variables : forall fv r s d,
  r <> R_OverlappingFieldsCanBeMerged ->
  wf_schema s = true -> doc_types_proper d = true -> defaults_const d = true ->
  distinct_fragments d = true -> rule_in_scope r s d = true ->
  injective_on fv (doc_variable_names d) ->
  (run_alone r s d = [] <-> run_alone r s (rename_variables_doc fv d) = []).
Proof.
  intros fv r s d Hr Hwf Hty Hdc Hdf Hsc Hfv.
  apply run_alone_rn_on; try assumption. apply injective_on_id.
Qed.

(* the model's field-merging rule, where its equivalence with the specification is proved *)
Theorem run_alone_merge_rn_on ff fv s d :
  wf_schema s = true -> merge_side s d ->
  injective_on ff (doc_fragment_names d) -> injective_on fv (doc_variable_names d) ->
  (run_alone R_OverlappingFieldsCanBeMerged s d = [] <->
   run_alone R_OverlappingFieldsCanBeMerged s (rn_doc ff fv d) = []).
Proof.
  intros Hwf Hside Hff Hfv.
  rewrite (rn_doc_ext ff (extend ff (doc_fragment_names d)) fv (extend fv (doc_variable_names d)) d)
    by (intros n Hn; symmetry; apply extend_agrees, Hn).
  pose proof (extend_injective ff _ Hff) as Hff'. pose proof (extend_injective fv _ Hfv) as Hfv'.
  rewrite (nil_iff_false _ _ (merge_iff s d Hwf Hside)).
  assert (Hside' : merge_side s (rn_doc (extend ff (doc_fragment_names d)) (extend fv (doc_variable_names d)) d))
    by (apply merge_side_rn; assumption).
  rewrite (nil_iff_false _ _ (merge_iff s _ Hwf Hside')).
  rewrite (violated_rn _ _ _ s d Hff' Hfv'). reflexivity.
Qed.
Theorem run_alone_merge_rename_variables : forall fv s d,
  wf_schema s = true -> merge_side s d -> injective_on fv (doc_variable_names d) ->
  (run_alone R_OverlappingFieldsCanBeMerged s d = [] <->
   run_alone R_OverlappingFieldsCanBeMerged s (rename_variables_doc fv d) = []).
Proof. intros fv s d Hwf Hside Hfv. apply run_alone_merge_rn_on; try assumption. apply injective_on_id. Qed.

(* ------------------------------------------------------------------ the hypotheses are needed *)
Definition cxf_frag (n : name) : definition := DFrag (mkFragment cx_z n "Query" [] (cx_z, cx_z) [cx_field "a"]).
Definition cxf_op (spreads : list name) : definition :=
  DOp (mkOperation OpQuery cx_z (Some "Q") [] [] (cx_z, cx_z) (map (fun n => SSpread cx_z n []) spreads)).
(* two fragment names identified *)
Lemma rename_fragments_needs_injective :
  violated R_UniqueFragmentNames cx_schema [cxf_frag "F"; cxf_frag "G"; cxf_op ["F"; "G"]] = false /\
  violated R_UniqueFragmentNames cx_schema
           (rename_fragments_doc (fun _ => "F") [cxf_frag "F"; cxf_frag "G"; cxf_op ["F"; "G"]]) = true.
Proof. split; vm_compute; reflexivity. Qed.
(* the name of an unknown spread identified with the name of a definition: ff is injective on the
   definition names, not on the names the spreads mention *)
Definition cxf_ff (n : name) : name := if name_eqb n "U" then "F" else n.
Lemma rename_fragments_needs_injective_on_spreads :
  injective_on cxf_ff (frag_names [cxf_frag "F"; cxf_op ["F"; "U"]]) /\
  violated R_KnownFragmentNames cx_schema [cxf_frag "F"; cxf_op ["F"; "U"]] = true /\
  violated R_KnownFragmentNames cx_schema (rename_fragments_doc cxf_ff [cxf_frag "F"; cxf_op ["F"; "U"]]) = false.
Proof.
  split; [|split; vm_compute; reflexivity].
  intros a b [<-|[]] [<-|[]] _. reflexivity.
Qed.
(* two variables identified *)
Definition cxw_doc : document :=
  [DOp (mkOperation OpQuery cx_z (Some "Q") [mkVardef cx_z "v" (TNamed "Int") None; mkVardef cx_z "w" (TNamed "Int") None]
          [] (cx_z, cx_z)
          [SField cx_z None "a" [("x", VVar "v")] [] (cx_z, cx_z) [];
           SField cx_z (Some "b") "a" [("x", VList [VVar "w"])] [] (cx_z, cx_z) []])].
Lemma rename_variables_needs_injective :
  violated R_UniqueVariableNames cxv_schema cxw_doc = false /\
  violated R_UniqueVariableNames cxv_schema (rename_variables_doc (fun _ => "v") cxw_doc) = true.
Proof. split; vm_compute; reflexivity. Qed.

(* the renamings are not degenerate *)
Example rename_fragments_example :
  rename_fragments_doc (fun n => ("X" ++ n)%string) [cxf_frag "F"; cxf_op ["F"; "U"]] =
  [cxf_frag "XF"; cxf_op ["XF"; "XU"]].
Proof. reflexivity. Qed.
Example rename_variables_example :
  rename_variables_doc (fun n => ("x" ++ n)%string) cxw_doc =
  [DOp (mkOperation OpQuery cx_z (Some "Q") [mkVardef cx_z "xv" (TNamed "Int") None; mkVardef cx_z "xw" (TNamed "Int") None]
          [] (cx_z, cx_z)
          [SField cx_z None "a" [("x", VVar "xv")] [] (cx_z, cx_z) [];
           SField cx_z (Some "b") "a" [("x", VList [VVar "xw"])] [] (cx_z, cx_z) []])].
Proof. reflexivity. Qed.

Print Assumptions violated_rename_fragments.
Print Assumptions violated_rename_variables.
Print Assumptions violated_rn_on.
Print Assumptions run_alone_rename_fragments.
Print Assumptions run_alone_rename_variables.
Print Assumptions run_alone_merge_rename_variables.

(* C05_frag_sound.v — OverlappingFieldsCanBeMerged with named fragment spreads, soundness of the
   memoised search: every conflict reported by [mrun] is a violation of FieldsInSetCanMerge on
   the collected set (fragments expanded) of the selection set being visited.  The memo tables
   only suppress work, so no invariant about them is needed here. *)
From Coq Require Import Permutation.
From GT Require Import Visitor Validate Merge.
From GTS Require Import SpecLin Annot WfSchema SpecCollect SpecRules SpecMerge SpecValid.
From GTP Require Import VisitorFacts TraceFacts RuleFacts EventFacts C06_graph_proofs C06_proofs C05_proofs
     C05_frag_graph C05_frag_spec.

(* ================================================================== unordered pairs of occurrences *)
Definition UP {A} (l : list A) (x y : A) : Prop := In (x, y) (pairs_within l) \/ In (y, x) (pairs_within l).

Lemma pw_cons_In {A} (a : A) l x y :
  In (x, y) (pairs_within (a :: l)) <-> (x = a /\ In y l) \/ In (x, y) (pairs_within l).
Proof.
  rewrite pairs_within_cons, in_app_iff, in_map_iff. split.
  - intros [[z [E Hz]]|H]; [inversion E; subst; left; split; [reflexivity|exact Hz]|right; exact H].
  - intros [[-> Hy]|H]; [left; exists y; split; [reflexivity|exact Hy]|right; exact H].
Qed.

Lemma UP_cons {A} (a : A) l x y :
  UP (a :: l) x y <-> (x = a /\ In y l) \/ (y = a /\ In x l) \/ UP l x y.
Proof. unfold UP. rewrite !pw_cons_In. tauto. Qed.

Lemma UP_In {A} (l : list A) x y : UP l x y -> In x l /\ In y l.
Proof. intros [H|H]; apply pairs_within_In in H; tauto. Qed.

Lemma UP_perm {A} (l l' : list A) x y : Permutation l l' -> UP l x y -> UP l' x y.
Proof.
  induction 1 as [|a l l' Hp IH|a b l|l1 l2 l3 H1 IH1 H2 IH2]; intro H.
  - exact H.
  - apply UP_cons in H. apply UP_cons. destruct H as [[-> Hy]|[[-> Hx]|H]].
    + left. split; [reflexivity|apply (Permutation_in _ Hp), Hy].
    + right. left. split; [reflexivity|apply (Permutation_in _ Hp), Hx].
    + right. right. apply IH, H.
  - rewrite !UP_cons in *. cbn [In] in *. intuition (subst; auto).
  - apply IH2, IH1, H.
Qed.

Lemma UP_app_cross {A} (l1 l2 : list A) x y : In x l1 -> In y l2 -> UP (l1 ++ l2) x y.
Proof.
  induction l1 as [|a r IH]; intros Hx Hy; [destruct Hx|]. cbn [app]. apply UP_cons.
  destruct Hx as [->|Hx].
  - left. split; [reflexivity|apply in_or_app; right; exact Hy].
  - right. right. apply IH; assumption.
Qed.

Lemma UP_app_r {A} (l1 l2 : list A) x y : UP l2 x y -> UP (l1 ++ l2) x y.
Proof. induction l1 as [|a r IH]; intro H; [exact H|]. cbn [app]. apply UP_cons. right. right. apply IH, H. Qed.

Lemma UP_app_l {A} (l1 l2 : list A) x y : UP l1 x y -> UP (l1 ++ l2) x y.
Proof.
  intro H. apply (UP_perm (l2 ++ l1)); [apply Permutation_app_comm|]. apply UP_app_r, H.
Qed.

Lemma UP_sym {A} (l : list A) x y : UP l x y -> UP l y x.
Proof. unfold UP. tauto. Qed.

Lemma UP_flat_map_cross {A B} (f : A -> list B) R g1 g2 x y :
  In g1 R -> In g2 R -> g1 <> g2 -> In x (f g1) -> In y (f g2) -> UP (flat_map f R) x y.
Proof.
  induction R as [|g R IH]; intros H1 H2 Hne Hx Hy; [destruct H1|]. cbn [flat_map].
  destruct H1 as [->|H1], H2 as [->|H2].
  - contradiction.
  - apply UP_app_cross; [exact Hx|]. apply in_flat_map. exists g2. split; assumption.
  - apply UP_sym. apply UP_app_cross; [exact Hy|]. apply in_flat_map. exists g1. split; assumption.
  - apply UP_app_r. apply IH; assumption.
Qed.

(* ================================================================== sequences *)
Lemma seq_nonempty run l : forall st st' cs,
  seq_calls run l st = Some (st', cs) -> cs <> [] ->
  exists c st0 st1 cs1, In c l /\ run c st0 = Some (st1, cs1) /\ cs1 <> [].
Proof.
  induction l as [|c r IH]; intros st st' cs H Hne; cbn [seq_calls] in H.
  - inversion H; subst. contradiction.
  - destruct (run c st) as [[st1 cs1]|] eqn:E1; [|discriminate].
    fold (seq_calls run r st1) in H. destruct (seq_calls run r st1) as [[st2 cs2]|] eqn:E2; [|discriminate].
    inversion H; subst. destruct cs1 as [|c1 cs1].
    + destruct (IH _ _ _ E2 Hne) as [c' [st0 [st3 [cs3 [Hin [Hr Hn]]]]]].
      exists c', st0, st3, cs3. split; [right; exact Hin|]. split; assumption.
    + exists c, st, st1, (c1 :: cs1). split; [left; reflexivity|]. split; [exact E1|discriminate].
Qed.

(* ================================================================== unfolding mrun: fragments *)
Definition ff_loop (run : mcall -> mstate -> mres) (fm : fmap) (mutex : bool) :=
  fix loop (l : list name) (st : mstate) (acc : list conflict) : mres :=
    match l with
    | [] => Some (st, acc)
    | f2 :: r =>
        if mem_name f2 (ms_visited st) then loop r st acc
        else
          match run (CFieldsAndFragment fm f2 mutex)
                    (mkMS (ms_compared st) (ms_visited st ++ [f2]) (ms_being st)) with
          | Some (st2, cs2) => loop r st2 (acc ++ cs2)
          | None => None
          end
    end.

Lemma mrun_ff fuel s d fm fname mutex st :
  mrun (S fuel) s d (CFieldsAndFragment fm fname mutex) st =
  match known_fragment d fname with
  | None => Some (st, [])
  | Some fragment =>
      let '(fm2, fr2) := get_referenced_fields_and_fragment_names s fragment in
      if mem_name fname fr2 then Some (st, [])
      else
        match mrun fuel s d (CBetween mutex fm fm2) st with
        | Some (st1, cs1) => ff_loop (mrun fuel s d) fm mutex fr2 st1 cs1
        | None => None
        end
  end.
Proof. reflexivity. Qed.

Lemma mrun_bf fuel s d n1 n2 mutex st :
  mrun (S fuel) s d (CBetweenFragments n1 n2 mutex) st =
  if name_eqb n1 n2 then Some (st, [])
  else if ps_contains (ms_compared st) n1 n2 mutex then Some (st, [])
  else
    let st1 := mkMS (ps_insert (ms_compared st) n1 n2 mutex) (ms_visited st) (ms_being st) in
    match known_fragment d n1, known_fragment d n2 with
    | Some fa, Some fb =>
        let '(fm1, fr1) := get_referenced_fields_and_fragment_names s fa in
        let '(fm2, fr2) := get_referenced_fields_and_fragment_names s fb in
        seq_calls (mrun fuel s d)
          ([CBetween mutex fm1 fm2] ++
           map (fun x => CBetweenFragments n1 x mutex) fr2 ++
           map (fun x => CBetweenFragments x n2 mutex) fr1) st1
    | _, _ => Some (st1, [])
    end.
Proof. reflexivity. Qed.

Lemma mrun_floop fuel s d fm frags mutex st :
  mrun (S fuel) s d (CFragmentLoop fm frags mutex) st =
  match seq_calls (mrun fuel s d) (map (fun f => CFieldsAndFragment fm f mutex) frags)
                  (mkMS (ms_compared st) [] (ms_being st)) with
  | Some (st1, cs) => Some (mkMS (ms_compared st1) (ms_visited st) (ms_being st1), cs)
  | None => None
  end.
Proof. reflexivity. Qed.

Definition wss_calls (fm : fmap) : list name -> list mcall :=
  fix go (l : list name) : list mcall :=
    match l with
    | [] => []
    | f1 :: r => CFieldsAndFragment fm f1 false :: map (fun f2 => CBetweenFragments f1 f2 false) r ++ go r
    end.
Lemma wss_calls_cons fm f1 r :
  wss_calls fm (f1 :: r) = CFieldsAndFragment fm f1 false :: map (fun f2 => CBetweenFragments f1 f2 false) r ++ wss_calls fm r.
Proof. reflexivity. Qed.

Lemma mrun_wss fuel s d parent sels st :
  mrun (S fuel) s d (CWithinSelectionSet parent sels) st =
  let '(fm, frs) := get_fields_and_fragment_names s parent sels in
  match mrun fuel s d (CWithin fm) st with
  | Some (st0, cs0) =>
      match seq_calls (mrun fuel s d) (wss_calls fm frs) (mkMS (ms_compared st0) [] (ms_being st0)) with
      | Some (st1, cs1) => Some (mkMS (ms_compared st1) (ms_visited st0) (ms_being st1), cs0 ++ cs1)
      | None => None
      end
  | None => None
  end.
Proof. reflexivity. Qed.

Lemma wss_calls_In fm l c : In c (wss_calls fm l) ->
  (exists f, In f l /\ c = CFieldsAndFragment fm f false) \/
  (exists f1 f2, In f1 l /\ In f2 l /\ c = CBetweenFragments f1 f2 false).
Proof.
  induction l as [|f1 r IH]; [intros []|]. rewrite wss_calls_cons. intro H.
  destruct H as [<-|H].
  - left. exists f1. split; [left; reflexivity|reflexivity].
  - apply in_app_or in H. destruct H as [H|H].
    + apply in_map_iff in H. destruct H as [f2 [<- Hf2]]. right. exists f1, f2.
      split; [left; reflexivity|]. split; [right; exact Hf2|reflexivity].
    + destruct (IH H) as [[f [Hf ->]]|[g1 [g2 [H1 [H2 ->]]]]].
      * left. exists f. split; [right; exact Hf|reflexivity].
      * right. exists g1, g2. split; [right; exact H1|]. split; [right; exact H2|reflexivity].
Qed.

Lemma ff_loop_nonempty run fm m l : forall st acc st' cs,
  ff_loop run fm m l st acc = Some (st', cs) -> cs <> [] ->
  acc <> [] \/ exists f st0 st1 cs1, In f l /\ run (CFieldsAndFragment fm f m) st0 = Some (st1, cs1) /\ cs1 <> [].
Proof.
  induction l as [|f r IH]; intros st acc st' cs H Hne; cbn [ff_loop] in H.
  - inversion H; subst. left. exact Hne.
  - fold (ff_loop run fm m) in H. destruct (mem_name f (ms_visited st)).
    + destruct (IH _ _ _ _ H Hne) as [Ha|[f' [st0 [st1 [cs1 [Hin [Hr Hn]]]]]]]; [left; exact Ha|].
      right. exists f', st0, st1, cs1. split; [right; exact Hin|]. split; assumption.
    + destruct (run (CFieldsAndFragment fm f m) (mkMS (ms_compared st) (ms_visited st ++ [f]) (ms_being st)))
        as [[st2 cs2]|] eqn:E; [|discriminate].
      destruct (IH _ _ _ _ H Hne) as [Ha|[f' [st0 [st1 [cs1 [Hin [Hr Hn]]]]]]].
      * destruct cs2 as [|c2 cs2].
        -- rewrite app_nil_r in Ha. left. exact Ha.
        -- right. eexists f, _, st2, (c2 :: cs2). split; [left; reflexivity|]. split; [exact E|discriminate].
      * right. exists f', st0, st1, cs1. split; [right; exact Hin|]. split; assumption.
Qed.

(* ================================================================== the search reports only violations *)
Definition cf_of (a : astdef) : cfield := mkCF (ad_parent a) (ad_field a).

Lemma cf_of_ad_of c : cf_of (ad_of c) = c.
Proof. destruct c; reflexivity. Qed.

Section Sound.
  Variables (s : sdocument) (d : document).
  Hypothesis Hargs : forall y, In y (doc_selections d) -> C05_merge_proofs.is_field y = true ->
                               nodup_names (map fst (sel_args y)) = true.

  Definition wfad (a : astdef) : Prop := ad_of (cf_of a) = a /\ In (ad_field a) (F0 d).
  Definition indoc (sels : list selection) : Prop := incl (sels_all sels) (doc_selections d).
  Definition fmok (fm : fmap) : Prop :=
    (forall a, In a (fm_fields fm) -> wfad a) /\ (forall k g a, In (k, g) fm -> In a g -> ad_key a = k).
  Definition bad (m : bool) (x y : cfield) : Prop := exists n, fields_can_merge n s d m x y = false.

  Definition viol_ff (fm : fmap) (f : name) (m : bool) : Prop :=
    exists a g y, In a (fm_fields fm) /\ lreach d f g /\ In y (fdirect s d g) /\
                  cf_key (cf_of a) = cf_key y /\ bad m (cf_of a) y.

  Definition viol (c : mcall) : Prop :=
    match c with
    | CFindConflict a b pm => bad pm (cf_of a) (cf_of b)
    | CBetweenSub m pn1 sels1 pn2 sels2 =>
        exists x y, In x (collected s d (opt_bind pn1 (type_by_name s)) sels1) /\
                    In y (collected s d (opt_bind pn2 (type_by_name s)) sels2) /\
                    cf_key x = cf_key y /\ bad m x y
    | CFieldsAndFragment fm f m => viol_ff fm f m
    | CBetweenFragments f1 f2 m =>
        exists g1 g2 x y, lreach d f1 g1 /\ lreach d f2 g2 /\ g1 <> g2 /\
                          In x (fdirect s d g1) /\ In y (fdirect s d g2) /\ cf_key x = cf_key y /\ bad m x y
    | CBetween m fm1 fm2 =>
        exists a b, In a (fm_fields fm1) /\ In b (fm_fields fm2) /\ ad_key a = ad_key b /\
                    bad m (cf_of a) (cf_of b)
    | CFragmentLoop fm frs m => exists f, In f frs /\ viol_ff fm f m
    | CWithin fm =>
        exists k g a b, In (k, g) fm /\ In (a, b) (pairs_within g) /\ bad false (cf_of a) (cf_of b)
    | CWithinSelectionSet parent sels =>
        exists x y, UP (collected s d parent sels) x y /\ cf_key x = cf_key y /\ bad false x y
    end.

  Definition legit (c : mcall) : Prop :=
    match c with
    | CFindConflict a b _ => wfad a /\ wfad b
    | CBetweenSub _ _ sels1 _ sels2 => indoc sels1 /\ indoc sels2
    | CFieldsAndFragment fm _ _ => fmok fm
    | CBetweenFragments _ _ _ => True
    | CBetween _ fm1 fm2 => fmok fm1 /\ fmok fm2
    | CFragmentLoop fm _ _ => fmok fm
    | CWithin fm => fmok fm
    | CWithinSelectionSet _ sels => indoc sels
    end.

  Lemma bad_sym m x y : bad m x y -> bad m y x.
  Proof. intros [n H]. exists n. rewrite fcm_sym. exact H. Qed.

  (* ---- field maps built from the collection of one level ---- *)
  Lemma fm_fields_of C a : In a (fm_fields (fm_of (map ad_of C) [])) <-> exists c, In c C /\ a = ad_of c.
  Proof.
    split.
    - intro H. apply (Permutation_in _ (fm_of_perm0 _)) in H. apply in_map_iff in H. destruct H as [c [<- Hc]].
      exists c. split; [exact Hc|reflexivity].
    - intros [c [Hc ->]]. apply (Permutation_in _ (Permutation_sym (fm_of_perm0 _))). apply in_map, Hc.
  Qed.

  Lemma fmok_of C : (forall c, In c C -> In (cf_field c) (F0 d)) -> fmok (fm_of (map ad_of C) []).
  Proof.
    intro H. split.
    - intros a Ha. apply fm_fields_of in Ha. destruct Ha as [c [Hc ->]]. split.
      + rewrite cf_of_ad_of. reflexivity.
      + apply H, Hc.
    - intros k g a Hkg Ha. rewrite (fi_groups _ _ (fm_of_inv (map ad_of C)) k g Hkg) in Ha.
      apply filter_In in Ha. destruct Ha as [_ Ha]. unfold key_is in Ha. apply c5_name_eqb_eq in Ha. exact Ha.
  Qed.

  Lemma cfl_in_doc parent sels c : indoc sels -> In c (cfl s parent sels) -> In (cf_field c) (F0 d).
  Proof.
    intros Hd Hc. apply cfl_In in Hc. destruct Hc as [H1 H2]. apply filter_In. split; [apply Hd, H1|exact H2].
  Qed.

  Lemma fmok_cfl parent sels : indoc sels -> fmok (fm_of (map ad_of (cfl s parent sels)) []).
  Proof. intro H. apply fmok_of. intros c Hc. apply (cfl_in_doc parent sels c H Hc). Qed.

  Lemma frag_indoc fr : In fr (fragments_of d) -> indoc (fr_sels fr).
  Proof. apply frag_in_doc. Qed.

  Lemma sub_indoc x : In x (F0 d) -> indoc (sel_sels x).
  Proof. intro H. apply filter_In in H. apply below_in_doc, H. Qed.

  (* ---- one pair of fields ---- *)
  Lemma simple_conflict_level pm a b : wfad a -> wfad b ->
    simple_conflict s (find_mutex pm a b) a b = negb (level_ok s pm (cf_of a) (cf_of b)).
  Proof.
    intros [Ea Ia] [Eb Ib]. rewrite <- Ea, <- Eb. set (x := cf_of a). set (y := cf_of b).
    rewrite !cf_of_ad_of. unfold simple_conflict, level_ok. rewrite find_mutex_spec, type_conf_spec.
    cbn [ad_of ad_field].
    apply filter_In in Ia. apply filter_In in Ib.
    assert (Nx : nodup_names (map fst (sel_args (cf_field x))) = true) by (apply Hargs; apply Ia).
    assert (Ny : nodup_names (map fst (sel_args (cf_field y))) = true) by (apply Hargs; apply Ib).
    rewrite (is_same_arguments_spec (sel_args (cf_field x)) (sel_args (cf_field y)) Nx Ny).
    destruct (pm || parents_exclusive x y), (name_eqb (sel_name (cf_field x)) (sel_name (cf_field y))),
      (same_arguments (sel_args (cf_field x)) (sel_args (cf_field y))),
      (match cf_def x, cf_def y with
       | Some da, Some db => negb (shape_conflict s (fd_type da) (fd_type db))
       | _, _ => true end); reflexivity.
  Qed.

  Lemma bad_level pm x y : level_ok s pm x y = false -> bad pm x y.
  Proof.
    intro H. exists 1. apply not_true_is_false. intro Ht. apply fcm_true_iff in Ht. destruct Ht as [Ht _].
    rewrite Ht in H. discriminate.
  Qed.

  Lemma bad_sub pm x y u v : In u (sub_set s d x) -> In v (sub_set s d y) -> cf_key u = cf_key v ->
    bad (pm || parents_exclusive x y) u v -> bad pm x y.
  Proof.
    intros Hu Hv Hk [n H]. exists (S n). apply not_true_is_false. intro Ht. apply fcm_true_iff in Ht.
    destruct Ht as [_ Ht]. rewrite (Ht u v Hu Hv) in H; [discriminate|]. rewrite Hk. apply c5_name_eqb_refl.
  Qed.

  Lemma fdirect_known n fr : known_fragment d n = Some fr ->
    fdirect s d n = cfl s (type_by_name s (fr_tc fr)) (fr_sels fr) /\ fnext d n = lsp (fr_sels fr) /\
    In fr (fragments_of d).
  Proof.
    intro H. pose proof (known_fragment_Some _ _ _ H) as [Hf _]. rewrite known_fragment_find in H.
    unfold fdirect, fnext. rewrite H. split; [reflexivity|]. split; [reflexivity|exact Hf].
  Qed.

  Lemma grf_eq fr : get_referenced_fields_and_fragment_names s fr
    = (fm_of (map ad_of (cfl s (type_by_name s (fr_tc fr)) (fr_sels fr))) [], frs_of (fr_sels fr)).
  Proof. unfold get_referenced_fields_and_fragment_names. apply gff_gen. Qed.

  Theorem mrun_sound : forall fuel c st st' cs,
    mrun fuel s d c st = Some (st', cs) -> cs <> [] -> legit c -> viol c.
  Proof.
    induction fuel as [|fuel IH]; intros c st st' cs Hrun Hne Hleg; [discriminate|].
    destruct c as [a b pm|m pn1 sels1 pn2 sels2|fm f m|f1 f2 m|m fm1 fm2|fm frs m|fm|parent sels].
    - (* CFindConflict *)
      destruct Hleg as [Wa Wb]. rewrite mrun_find in Hrun. cbv zeta in Hrun. cbn [viol].
      pose proof (simple_conflict_level pm a b Wa Wb) as Hsc. unfold simple_conflict in Hsc.
      set (mutex := find_mutex pm a b) in *.
      destruct (negb mutex && negb (name_eqb (sel_name (ad_field a)) (sel_name (ad_field b)))) eqn:E1.
      { apply bad_level. cbn [orb] in Hsc. apply negb_true_iff. symmetry. exact Hsc. }
      destruct (negb mutex && negb (is_same_arguments (sel_args (ad_field a)) (sel_args (ad_field b)))) eqn:E2.
      { apply bad_level. cbn [orb] in Hsc. apply negb_true_iff. symmetry. exact Hsc. }
      destruct (type_conf s a b) eqn:E3.
      { apply bad_level. cbn [orb] in Hsc. apply negb_true_iff. symmetry. exact Hsc. }
      destruct (negb (is_nil (sel_sels (ad_field a))) && negb (is_nil (sel_sels (ad_field b)))) eqn:E4.
      2:{ inversion Hrun; subst. contradiction. }
      destruct (being_hit st (sel_pos (ad_field a)) (sel_pos (ad_field b)) mutex).
      { inversion Hrun; subst. contradiction. }
      match type of Hrun with
      | match ?r with _ => _ end = _ => destruct r as [[st2 cs2]|] eqn:Er; [|discriminate]
      end.
      destruct cs2 as [|c2 cs2]; [cbn [is_nil] in Hrun; inversion Hrun; subst; contradiction|].
      destruct Wa as [Ea Ia]. destruct Wb as [Eb Ib].
      assert (Hv := IH _ _ _ _ Er ltac:(discriminate) (conj (sub_indoc _ Ia) (sub_indoc _ Ib))).
      cbn [viol] in Hv. destruct Hv as [u [v [Hu [Hv [Hk Hb]]]]].
      apply (bad_sub pm (cf_of a) (cf_of b) u v).
      + unfold sub_set. rewrite <- (sub_parent_eq s (cf_of a)), Ea. exact Hu.
      + unfold sub_set. rewrite <- (sub_parent_eq s (cf_of b)), Eb. exact Hv.
      + exact Hk.
      + unfold mutex in Hb. rewrite <- Ea, <- Eb, find_mutex_spec in Hb. exact Hb.
    - (* CBetweenSub *)
      destruct Hleg as [D1 D2]. rewrite mrun_between_sub in Hrun. rewrite !gff_gen in Hrun. cbn [viol].
      set (P1 := opt_bind pn1 (type_by_name s)) in *. set (P2 := opt_bind pn2 (type_by_name s)) in *.
      set (fm1 := fm_of (map ad_of (cfl s P1 sels1)) []) in *.
      set (fm2 := fm_of (map ad_of (cfl s P2 sels2)) []) in *.
      destruct (seq_nonempty _ _ _ _ _ Hrun Hne) as [c [st0 [st1 [cs1 [Hin [Hr Hn]]]]]].
      assert (O1 : fmok fm1) by (apply fmok_cfl, D1). assert (O2 : fmok fm2) by (apply fmok_cfl, D2).
      cbn [app] in Hin. destruct Hin as [<-|[<-|[<-|Hin]]].
      + pose proof (IH _ _ _ _ Hr Hn (conj O1 O2)) as Hv. cbn [viol] in Hv.
        destruct Hv as [a [b [Ha [Hb [Hk Hbad]]]]].
        apply fm_fields_of in Ha. destruct Ha as [x [Hx ->]]. apply fm_fields_of in Hb. destruct Hb as [y [Hy ->]].
        rewrite !cf_of_ad_of in Hbad. exists x, y. split; [apply collected_In; left; exact Hx|].
        split; [apply collected_In; left; exact Hy|]. split; [exact Hk|exact Hbad].
      + pose proof (IH _ _ _ _ Hr Hn O1) as Hv. cbn [viol] in Hv.
        destruct Hv as [f [Hf [a [g [y [Ha [Hg [Hy [Hk Hbad]]]]]]]]].
        apply fm_fields_of in Ha. destruct Ha as [x [Hx ->]]. rewrite !cf_of_ad_of in *.
        exists x, y. split; [apply collected_In; left; exact Hx|]. split.
        { apply collected_In. right. exists g. split; [|exact Hy]. exists f. split; [apply frs_of_In, Hf|exact Hg]. }
        split; [exact Hk|exact Hbad].
      + pose proof (IH _ _ _ _ Hr Hn O2) as Hv. cbn [viol] in Hv.
        destruct Hv as [f [Hf [a [g [y [Ha [Hg [Hy [Hk Hbad]]]]]]]]].
        apply fm_fields_of in Ha. destruct Ha as [x [Hx ->]]. rewrite !cf_of_ad_of in *.
        exists y, x. split.
        { apply collected_In. right. exists g. split; [|exact Hy]. exists f. split; [apply frs_of_In, Hf|exact Hg]. }
        split; [apply collected_In; left; exact Hx|]. split; [symmetry; exact Hk|apply bad_sym, Hbad].
      + apply in_flat_map in Hin. destruct Hin as [a [Ha Hin]]. apply in_map_iff in Hin. destruct Hin as [b [<- Hb]].
        pose proof (IH _ _ _ _ Hr Hn I) as Hv. cbn [viol] in Hv.
        destruct Hv as [g1 [g2 [x [y [H1 [H2 [_ [Hx [Hy [Hk Hbad]]]]]]]]]].
        exists x, y. split.
        { apply collected_In. right. exists g1. split; [|exact Hx]. exists a. split; [apply frs_of_In, Ha|exact H1]. }
        split.
        { apply collected_In. right. exists g2. split; [|exact Hy]. exists b. split; [apply frs_of_In, Hb|exact H2]. }
        split; [exact Hk|exact Hbad].
    - (* CFieldsAndFragment *)
      rename Hleg into O1. rewrite mrun_ff in Hrun. cbn [viol].
      destruct (known_fragment d f) as [fr|] eqn:Ek; [|inversion Hrun; subst; contradiction].
      destruct (fdirect_known f fr Ek) as [Hfd [Hfn Hfr]].
      rewrite grf_eq in Hrun. destruct (mem_name f (frs_of (fr_sels fr))); [inversion Hrun; subst; contradiction|].
      set (fm2 := fm_of (map ad_of (cfl s (type_by_name s (fr_tc fr)) (fr_sels fr))) []) in *.
      assert (O2 : fmok fm2) by (apply fmok_cfl, frag_indoc, Hfr).
      destruct (mrun fuel s d (CBetween m fm fm2) st) as [[st1 cs1]|] eqn:E1; [|discriminate].
      destruct (ff_loop_nonempty _ _ _ _ _ _ _ _ Hrun Hne) as [Ha|[f2 [st0 [st2 [cs2 [Hin [Hr Hn]]]]]]].
      + pose proof (IH _ _ _ _ E1 Ha (conj O1 O2)) as Hv. cbn [viol] in Hv.
        destruct Hv as [a [b [Ha' [Hb [Hk Hbad]]]]]. apply fm_fields_of in Hb. destruct Hb as [y [Hy ->]].
        rewrite cf_of_ad_of in Hbad. exists a, f, y. split; [exact Ha'|]. split; [constructor|].
        split; [rewrite Hfd; exact Hy|]. split; [exact Hk|exact Hbad].
      + pose proof (IH _ _ _ _ Hr Hn O1) as Hv. cbn [viol] in Hv.
        destruct Hv as [a [g [y [Ha [Hg [Hy [Hk Hbad]]]]]]].
        exists a, g, y. split; [exact Ha|]. split; [|split; [exact Hy|split; [exact Hk|exact Hbad]]].
        econstructor; [|exact Hg]. unfold ledge. rewrite Hfn. apply frs_of_In, Hin.
    - (* CBetweenFragments *)
      rewrite mrun_bf in Hrun. cbn [viol].
      destruct (name_eqb f1 f2) eqn:En; [inversion Hrun; subst; contradiction|].
      destruct (ps_contains (ms_compared st) f1 f2 m); [inversion Hrun; subst; contradiction|].
      cbv zeta in Hrun.
      destruct (known_fragment d f1) as [fa|] eqn:Ea; [|inversion Hrun; subst; contradiction].
      destruct (known_fragment d f2) as [fb|] eqn:Eb; [|inversion Hrun; subst; contradiction].
      destruct (fdirect_known f1 fa Ea) as [Hfd1 [Hfn1 Hfr1]]. destruct (fdirect_known f2 fb Eb) as [Hfd2 [Hfn2 Hfr2]].
      rewrite !grf_eq in Hrun.
      destruct (seq_nonempty _ _ _ _ _ Hrun Hne) as [c [st0 [st1 [cs1 [Hin [Hr Hn]]]]]].
      cbn [app] in Hin. destruct Hin as [<-|Hin].
      + assert (Hv := IH _ _ _ _ Hr Hn (conj (fmok_cfl _ _ (frag_indoc _ Hfr1)) (fmok_cfl _ _ (frag_indoc _ Hfr2)))).
        cbn [viol] in Hv. destruct Hv as [a [b [Ha [Hb [Hk Hbad]]]]].
        apply fm_fields_of in Ha. destruct Ha as [x [Hx ->]]. apply fm_fields_of in Hb. destruct Hb as [y [Hy ->]].
        rewrite !cf_of_ad_of in Hbad. exists f1, f2, x, y. split; [constructor|]. split; [constructor|].
        split; [apply c5_name_eqb_neq, En|]. split; [rewrite Hfd1; exact Hx|]. split; [rewrite Hfd2; exact Hy|].
        split; [exact Hk|exact Hbad].
      + apply in_app_or in Hin. destruct Hin as [Hin|Hin]; apply in_map_iff in Hin; destruct Hin as [z [<- Hz]];
          pose proof (IH _ _ _ _ Hr Hn I) as Hv; cbn [viol] in Hv;
          destruct Hv as [g1 [g2 [x [y [H1 [H2 [Hne' [Hx [Hy [Hk Hbad]]]]]]]]]]; exists g1, g2, x, y.
        * split; [exact H1|]. split; [|repeat split; assumption].
          econstructor; [|exact H2]. unfold ledge. rewrite Hfn2. apply frs_of_In, Hz.
        * split; [|repeat split; assumption].
          econstructor; [|exact H1]. unfold ledge. rewrite Hfn1. apply frs_of_In, Hz.
    - (* CBetween *)
      destruct Hleg as [O1 O2]. rewrite mrun_between in Hrun. cbn [viol].
      destruct (seq_nonempty _ _ _ _ _ Hrun Hne) as [c [st0 [st1 [cs1 [Hin [Hr Hn]]]]]].
      destruct (in_between_calls _ _ _ _ Hin) as [k [g [g2 [a [b [Hkg [Eg [Ha [Hb ->]]]]]]]]].
      assert (Hfa : In a (fm_fields fm1)) by (apply in_flat_map; exists (k, g); split; assumption).
      assert (Hfb : In b (fm_fields fm2)).
      { apply in_flat_map. exists (k, g2). split; [apply al_get_Some_In, Eg|exact Hb]. }
      assert (Hv := IH _ _ _ _ Hr Hn (conj (proj1 O1 a Hfa) (proj1 O2 b Hfb))). cbn [viol] in Hv.
      exists a, b. split; [exact Hfa|]. split; [exact Hfb|]. split; [|exact Hv].
      rewrite (proj2 O1 k g a Hkg Ha), (proj2 O2 k g2 b (al_get_Some_In _ _ _ Eg) Hb). reflexivity.
    - (* CFragmentLoop *)
      rename Hleg into O1. rewrite mrun_floop in Hrun. cbn [viol].
      match type of Hrun with
      | match ?r with _ => _ end = _ => destruct r as [[st2 cs2]|] eqn:Er; [|discriminate]
      end.
      inversion Hrun; subst.
      destruct (seq_nonempty _ _ _ _ _ Er Hne) as [c [st0 [st1 [cs1 [Hin [Hr Hn]]]]]].
      apply in_map_iff in Hin. destruct Hin as [f [<- Hf]]. exists f. split; [exact Hf|].
      apply (IH _ _ _ _ Hr Hn O1).
    - (* CWithin *)
      rename Hleg into O1. rewrite mrun_within in Hrun. cbn [viol].
      destruct (seq_nonempty _ _ _ _ _ Hrun Hne) as [c [st0 [st1 [cs1 [Hin [Hr Hn]]]]]].
      unfold within_calls in Hin. apply in_flat_map in Hin. destruct Hin as [[k g] [Hkg Hin]]. cbn [snd] in Hin.
      apply in_map_iff in Hin. destruct Hin as [[a b] [<- Hab]]. cbn [fst snd] in *.
      pose proof (pairs_within_In _ _ _ Hab) as [Ha Hb].
      assert (Hfa : In a (fm_fields fm)) by (apply in_flat_map; exists (k, g); split; assumption).
      assert (Hfb : In b (fm_fields fm)) by (apply in_flat_map; exists (k, g); split; assumption).
      assert (Hv := IH _ _ _ _ Hr Hn (conj (proj1 O1 a Hfa) (proj1 O1 b Hfb))). cbn [viol] in Hv.
      exists k, g, a, b. split; [exact Hkg|]. split; [exact Hab|exact Hv].
    - (* CWithinSelectionSet *)
      rename Hleg into D1. rewrite mrun_wss, gff_gen in Hrun. cbn [viol].
      set (C := cfl s parent sels) in *. set (fm := fm_of (map ad_of C) []) in *.
      assert (O1 : fmok fm) by (apply fmok_cfl, D1).
      destruct (collected_perm s d parent sels) as [R [NR [PR HR]]]. fold C in PR.
      destruct (mrun fuel s d (CWithin fm) st) as [[st0 cs0]|] eqn:E0; [|discriminate].
      match type of Hrun with
      | match ?r with _ => _ end = _ => destruct r as [[st1 cs1]|] eqn:E1; [|discriminate]
      end.
      inversion Hrun; subst. destruct cs0 as [|c0 cs0].
      + cbn [app] in Hne. destruct (seq_nonempty _ _ _ _ _ E1 Hne) as [c [st2 [st3 [cs3 [Hin [Hr Hn]]]]]].
        apply wss_calls_In in Hin. destruct Hin as [[f [Hf ->]]|[g1 [g2 [Hg1 [Hg2 ->]]]]].
        * pose proof (IH _ _ _ _ Hr Hn O1) as Hv. cbn [viol] in Hv.
          destruct Hv as [a [g [y [Ha [Hg [Hy [Hk Hbad]]]]]]].
          apply fm_fields_of in Ha. destruct Ha as [x [Hx ->]]. rewrite !cf_of_ad_of in *.
          exists x, y. split; [|split; [exact Hk|exact Hbad]].
          apply (UP_perm _ _ _ _ (Permutation_sym PR)). apply UP_app_cross; [exact Hx|].
          apply in_flat_map. exists g. split; [|exact Hy]. apply HR. exists f. split; [apply frs_of_In, Hf|exact Hg].
        * pose proof (IH _ _ _ _ Hr Hn I) as Hv. cbn [viol] in Hv.
          destruct Hv as [h1 [h2 [x [y [H1 [H2 [Hne' [Hx [Hy [Hk Hbad]]]]]]]]]].
          exists x, y. split; [|split; [exact Hk|exact Hbad]].
          apply (UP_perm _ _ _ _ (Permutation_sym PR)). apply UP_app_r.
          apply (UP_flat_map_cross (fdirect s d) R h1 h2); try assumption.
          -- apply HR. exists g1. split; [apply frs_of_In, Hg1|exact H1].
          -- apply HR. exists g2. split; [apply frs_of_In, Hg2|exact H2].
      + pose proof (IH _ _ _ _ E0 ltac:(discriminate) O1) as Hv. cbn [viol] in Hv.
        destruct Hv as [k [g [a [b [Hkg [Hab Hbad]]]]]].
        rewrite (fi_groups _ _ (fm_of_inv (map ad_of C)) k g Hkg), filter_key_map, pairs_within_map in Hab.
        apply in_map_iff in Hab. destruct Hab as [[x y] [E Hxy]]. cbn [fst snd] in E. inversion E; subst a b.
        apply pairs_within_filter_In in Hxy. destruct Hxy as [Hxy [Kx Ky]].
        rewrite !cf_of_ad_of in Hbad. exists x, y. split; [|split; [|exact Hbad]].
        * apply (UP_perm _ _ _ _ (Permutation_sym PR)). apply UP_app_l. left. exact Hxy.
        * apply c5_name_eqb_eq in Kx. apply c5_name_eqb_eq in Ky. congruence.
  Qed.
End Sound.

(* ================================================================== the rule on whole documents *)
Lemma ofm_errors_origin s d tr : forall st,
  r_errors (ofm_res (fold_left (hh (ofm_step s d)) tr st)) <> [] ->
  r_errors (ofm_res st) <> [] \/
  exists sp sels c cmp ms cs,
    In (Enter (NSelectionSet sp sels), c) tr /\
    mrun (merge_fuel d) s d (CWithinSelectionSet (current_parent_type c) sels) (mkMS cmp [] []) = Some (ms, cs) /\
    cs <> [].
Proof.
  induction tr as [|[e c] r IH]; intros st H; cbn [fold_left] in H; [left; exact H|].
  destruct (IH _ H) as [H1|[sp [sels [c' [cmp [ms [cs [Hin [Hr Hn]]]]]]]]].
  - unfold hh in H1. cbn [fst snd] in H1.
    destruct e as [n|n]; [destruct n|]; cbn [ofm_step ofm_step_with] in H1; try (left; exact H1).
    destruct (mrun (merge_fuel d) s d (CWithinSelectionSet (current_parent_type c) items) (mkMS (ofm_compared st) [] []))
      as [[ms cs]|] eqn:E.
    + cbn [ofm_res r_errors] in H1. destruct (r_errors (ofm_res st)) as [|e0 l0] eqn:El.
      * right. exists sp, items, c, (ofm_compared st), ms, cs. split; [left; reflexivity|]. split; [exact E|].
        intro Hc. subst cs. apply H1. reflexivity.
      * left. discriminate.
    + cbn [ofm_res r_errors] in H1. left. exact H1.
  - right. exists sp, sels, c', cmp, ms, cs. split; [right; exact Hin|]. split; assumption.
Qed.

Lemma overlapping_as_trace s d : wf_schema s = true ->
  v_overlapping_fields s d
  = existsb (fun ec : event * ctx => set_spec s d (fst ec) (answers_of (snd ec))) (ctr_document s d ctx0).
Proof.
  intro Hwf. rewrite (existsb_ctr_annot s d (wf_query_entry_ok s Hwf) (set_spec s d)).
  unfold v_overlapping_fields, selection_sets. rewrite existsb_flat_map'.
  apply existsb_ext_in'. intros [e a] _. cbn [fst snd].
  destruct e as [n|n]; [destruct n|]; cbn [set_spec existsb fst snd]; try reflexivity.
  rewrite orb_false_r. reflexivity.
Qed.

Lemma acyclic_of_scope s d : rule_in_scope R_OverlappingFieldsCanBeMerged s d = true ->
  NoDup (frag_names d) /\ (forall u, ~ cyc d u) /\ negb (violated R_UniqueArgumentNames s d) = true.
Proof.
  cbn [rule_in_scope]. intro H. apply andb_prop in H. destruct H as [H H3]. apply andb_prop in H. destruct H as [H1 H2].
  split; [|split].
  - unfold distinct_fragments, v_unique_fragment_names in H1. rewrite negb_involutive in H1.
    apply nodup_names_NoDup, H1.
  - intros u Hu. apply negb_true_iff in H2. assert (Hc : v_no_fragment_cycles d = true) by (apply cycles_spec; exists u; exact Hu).
    rewrite Hc in H2. discriminate.
  - exact H3.
Qed.

Lemma UP_same_key (l : list cfield) x y : UP l x y -> cf_key x = cf_key y ->
  In (x, y) (same_key_pairs l) \/ In (y, x) (same_key_pairs l).
Proof.
  intros [H|H] Hk; [left|right]; unfold same_key_pairs; apply filter_In; (split; [exact H|]); cbn [fst snd];
    rewrite Hk; apply c5_name_eqb_refl.
Qed.

Theorem merge_sound_acyclic : forall s d,
  wf_schema s = true -> rule_in_scope R_OverlappingFieldsCanBeMerged s d = true ->
  run_alone R_OverlappingFieldsCanBeMerged s d <> [] -> violated R_OverlappingFieldsCanBeMerged s d = true.
Proof.
  intros s d Hwf Hscope Hrun. destruct (acyclic_of_scope s d Hscope) as [Hnd [Hacyc Hargs]].
  cbn [violated]. assert (Hc : v_no_fragment_cycles d = false).
  { apply not_true_is_false. intro Ht. apply cycles_spec in Ht. destruct Ht as [u Hu]. exact (Hacyc u Hu). }
  rewrite Hc. cbn [negb andb]. rewrite (overlapping_as_trace s d Hwf).
  unfold run_alone in Hrun. cbn [run_rule] in Hrun. rewrite visit_fold in Hrun. cbn [snd] in Hrun.
  destruct (ofm_errors_origin s d _ _ Hrun) as [H|[sp [sels [c [cmp [ms [cs [Hin [Hr Hn]]]]]]]]].
  { cbn [ofm_res r_errors] in H. contradiction. }
  apply existsb_exists. exists (Enter (NSelectionSet sp sels), c). split; [exact Hin|]. cbn [fst snd set_spec].
  assert (He : In (Enter (NSelectionSet sp sels)) (lin_document d)).
  { rewrite <- (ctr_document_events s d ctx0). apply in_map_iff. exists (Enter (NSelectionSet sp sels), c).
    split; [reflexivity|exact Hin]. }
  assert (Hdoc : indoc d sels).
  { destruct (seg_selset d sp sels He) as [l1 [l3 E]]. unfold indoc. rewrite E. intros z Hz.
    apply in_or_app. right. apply in_or_app. left. exact Hz. }
  pose proof (mrun_sound s d (doc_args_ok s d Hwf Hargs) _ _ _ _ _ Hr Hn Hdoc) as Hv. cbn [viol] in Hv.
  destruct Hv as [x [y [Hup [Hk [n Hbad]]]]].
  change (a_parent (answers_of c)) with (current_parent_type c).
  set (P := current_parent_type c) in *.
  apply negb_true_iff. apply not_true_is_false. intro Hok. unfold fields_in_set_can_merge in Hok.
  rewrite forallb_forall in Hok. destruct (UP_In _ _ _ Hup) as [Hx Hy].
  destruct (collected_below s d P sels x Hdoc Hx) as [Fx _].
  destruct (collected_below s d P sels y Hdoc Hy) as [Fy _].
  destruct (UP_same_key _ _ _ Hup Hk) as [Hp|Hp].
  - specialize (Hok _ Hp). cbn [fst snd] in Hok.
    rewrite (fcm_fuel_ok s d Hacyc x y false n Fx Hbad) in Hok. discriminate.
  - specialize (Hok _ Hp). cbn [fst snd] in Hok. rewrite fcm_sym in Hbad.
    rewrite (fcm_fuel_ok s d Hacyc y x false n Fy Hbad) in Hok. discriminate.
Qed.

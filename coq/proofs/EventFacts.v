(* EventFacts.v — which Enter events occur in the structural linearisation [lin_document d]
   (and hence in the annotation [annot s d]), in terms of the structural enumerators of
   SpecRules.v (operations_of, fragments_of, doc_selections, directive_sites).

   Two forms are provided:
   * an equational one: for any "picker" [pk : node -> list X] that ignores argument / value
     nodes, [flat_map (pick pk) (lin_document d)] is a structural enumeration (order and
     multiplicity preserved), theorem [pick_document]; specialised in [pick_*_document];
   * membership characterisations [in_lin_*] and the transfer to [annot] ([annot_events],
     [in_annot_lin], [in_lin_annot], [existsb_annot_events], ...). *)
From GT Require Import Visitor Validate.
From GTS Require Import SpecLin Annot WfSchema SpecCollect SpecRules.
From GTP Require Import VisitorFacts TraceFacts.

(* ------------------------------------------------------------------ list helpers *)
Lemma flat_map_nil_fn {A B} (l : list A) : flat_map (fun _ : A => @nil B) l = [].
Proof. induction l as [|x r IH]; cbn; [reflexivity|exact IH]. Qed.

Lemma flat_map_all_nil {A B} (f : A -> list B) (l : list A) :
  (forall x, f x = []) -> flat_map f l = [].
Proof. intro H. rewrite (flat_map_all_ext f (fun _ => []) l H). apply flat_map_nil_fn. Qed.

Lemma flat_map_flat_map {A B C} (f : B -> list C) (g : A -> list B) (l : list A) :
  flat_map f (flat_map g l) = flat_map (fun x => flat_map f (g x)) l.
Proof. induction l as [|x r IH]; cbn; [reflexivity|]. rewrite flat_map_app, IH. reflexivity. Qed.

Lemma flat_map_map {A B C} (f : B -> list C) (g : A -> B) (l : list A) :
  flat_map f (map g l) = flat_map (fun x => f (g x)) l.
Proof. induction l as [|x r IH]; cbn; [reflexivity|]. rewrite IH. reflexivity. Qed.

Lemma flat_map_singleton {A B} (g : A -> B) (l : list A) :
  flat_map (fun x => [g x]) l = map g l.
Proof. induction l as [|x r IH]; cbn; [reflexivity|]. rewrite IH. reflexivity. Qed.

Lemma existsb_flat_map {A B} (p : B -> bool) (f : A -> list B) (l : list A) :
  existsb p (flat_map f l) = existsb (fun x => existsb p (f x)) l.
Proof. induction l as [|x r IH]; cbn; [reflexivity|]. rewrite existsb_app, IH. reflexivity. Qed.

Lemma existsb_map {A B} (p : B -> bool) (f : A -> B) (l : list A) :
  existsb p (map f l) = existsb (fun x => p (f x)) l.
Proof. induction l as [|x r IH]; cbn; [reflexivity|]. rewrite IH. reflexivity. Qed.

Lemma existsb_ext_fn {A} (p q : A -> bool) (l : list A) :
  (forall x, p x = q x) -> existsb p l = existsb q l.
Proof. intro H. induction l as [|x r IH]; cbn; [reflexivity|]. rewrite H, IH. reflexivity. Qed.

Lemma existsb_ext_in {A} (p q : A -> bool) (l : list A) :
  (forall x, In x l -> p x = q x) -> existsb p l = existsb q l.
Proof.
  induction l as [|x r IH]; cbn; intro H; [reflexivity|].
  rewrite (H x (or_introl eq_refl)), IH; [reflexivity|]. intros y Hy. apply H. right. exact Hy.
Qed.

(* ------------------------------------------------------------------ structure helpers *)
(* the node a selection is entered with *)
Definition sel_node (x : selection) : node :=
  match x with
  | SField _ _ _ _ _ _ _ => NField x
  | SSpread _ _ _ => NSpread x
  | SInline _ _ _ _ _ => NInline x
  end.

Definition is_field (x : selection) : bool := match x with SField _ _ _ _ _ _ _ => true | _ => false end.
Definition is_spread (x : selection) : bool := match x with SSpread _ _ _ => true | _ => false end.
Definition is_inline (x : selection) : bool := match x with SInline _ _ _ _ _ => true | _ => false end.

(* the directive site of a selection *)
Definition sel_loc (x : selection) : dir_loc :=
  match x with
  | SField _ _ _ _ _ _ _ => LField
  | SSpread _ _ _ => LFragmentSpread
  | SInline _ _ _ _ _ => LInlineFragment
  end.
Definition sel_site (x : selection) : dir_loc * list directive := (sel_loc x, sel_dirs x).

Lemma sel_directive_sites_all x : sel_directive_sites x = map sel_site (sel_all x).
Proof.
  induction x as [p al n args dirs sp sels IH|p n dirs|p tc dirs sp sels IH] using selection_ind';
    cbn [sel_directive_sites sel_all map]; try reflexivity.
  - unfold sel_site at 1. cbn [sel_loc sel_dirs]. f_equal.
    rewrite map_flat_map. apply flat_map_Forall_ext. exact IH.
  - unfold sel_site at 1. cbn [sel_loc sel_dirs]. f_equal.
    rewrite map_flat_map. apply flat_map_Forall_ext. exact IH.
Qed.

Lemma sels_directive_sites_all l : flat_map sel_directive_sites l = map sel_site (sels_all l).
Proof.
  unfold sels_all. rewrite map_flat_map. apply flat_map_all_ext. intro x. apply sel_directive_sites_all.
Qed.

(* the directive site of a definition itself *)
Definition def_site (x : definition) : dir_loc * list directive :=
  match x with
  | DOp o => (op_location (o_kind o), op_directives o)
  | DFrag f => (LFragmentDefinition, fr_dirs f)
  end.

Lemma directive_sites_eq d :
  directive_sites d = flat_map (fun x => def_site x :: map sel_site (sels_all (def_sels x))) d.
Proof.
  unfold directive_sites. apply flat_map_all_ext. intros [o|f]; cbn [def_site def_sels];
    rewrite sels_directive_sites_all; reflexivity.
Qed.

Lemma in_directive_sites d site :
  In site (directive_sites d) <->
  (exists o, In o (operations_of d) /\ site = (op_location (o_kind o), op_directives o)) \/
  (exists f, In f (fragments_of d) /\ site = (LFragmentDefinition, fr_dirs f)) \/
  (exists x, In x (doc_selections d) /\ site = sel_site x).
Proof.
  rewrite directive_sites_eq. unfold operations_of, fragments_of, doc_selections.
  rewrite in_flat_map. split.
  - intros [x [Hx [H|H]]].
    + destruct x as [o|f]; cbn [def_site] in H.
      * left. exists o. split; [|symmetry; exact H]. apply in_flat_map. exists (DOp o). split; [exact Hx|left; reflexivity].
      * right. left. exists f. split; [|symmetry; exact H]. apply in_flat_map. exists (DFrag f). split; [exact Hx|left; reflexivity].
    + right. right. apply in_map_iff in H. destruct H as [y [Hy Hin]]. exists y. split; [|symmetry; exact Hy].
      apply in_flat_map. exists x. split; assumption.
  - intros [[o [Ho E]]|[[f [Hf E]]|[y [Hy E]]]].
    + apply in_flat_map in Ho. destruct Ho as [x [Hx Hin]]. destruct x as [o'|f']; cbn in Hin; [|tauto].
      destruct Hin as [->|[]]. exists (DOp o). split; [exact Hx|]. left. symmetry. exact E.
    + apply in_flat_map in Hf. destruct Hf as [x [Hx Hin]]. destruct x as [o'|f']; cbn in Hin; [tauto|].
      destruct Hin as [->|[]]. exists (DFrag f). split; [exact Hx|]. left. symmetry. exact E.
    + apply in_flat_map in Hy. destruct Hy as [x [Hx Hin]]. exists x. split; [exact Hx|]. right.
      apply in_map_iff. exists y. split; [symmetry; exact E|exact Hin].
Qed.

(* ------------------------------------------------------------------ generic pickers *)
(* argument and value nodes *)
Definition low_node (n : node) : bool :=
  match n with
  | NArgument _ | NNull | NScalar _ | NEnum _ | NVariable _ | NList _ | NObject _ | NObjectField _ => true
  | _ => false
  end.

Section Pick.
  Context {X : Type}.
  Variable pk : node -> list X.

  Definition pick (e : event) : list X := match e with Enter n => pk n | Leave _ => [] end.

  Hypothesis Hlow : forall n, low_node n = true -> pk n = [].

  Lemma pick_value v : flat_map pick (lin_value v) = [].
  Proof.
    induction v as [n|z|b|str|b| |n|l IH|l IH] using value_ind';
      cbn [lin_value flat_map pick app]; rewrite ?Hlow by reflexivity; try reflexivity.
    - rewrite flat_map_app, flat_map_flat_map. cbn [flat_map pick app].
      rewrite (flat_map_Forall_ext _ (fun _ => []) l IH), flat_map_nil_fn. reflexivity.
    - rewrite flat_map_app, flat_map_flat_map. cbn [flat_map pick app].
      rewrite (flat_map_Forall_ext _ (fun _ => []) l), flat_map_nil_fn; [reflexivity|].
      eapply Forall_impl; [|exact IH]. intros kv Hkv. cbn [flat_map pick].
      rewrite Hlow by reflexivity. rewrite flat_map_app, Hkv. reflexivity.
  Qed.

  Lemma pick_argument a : flat_map pick (lin_argument a) = [].
  Proof.
    unfold lin_argument. cbn [flat_map pick]. rewrite Hlow by reflexivity.
    rewrite flat_map_app, pick_value. reflexivity.
  Qed.

  Lemma pick_arguments args : flat_map pick (flat_map lin_argument args) = [].
  Proof. rewrite flat_map_flat_map. apply flat_map_all_nil. exact pick_argument. Qed.

  Definition dirs_pick (dirs : list directive) : list X := flat_map (fun dr => pk (NDirective dr)) dirs.

  Lemma pick_directive dr : flat_map pick (lin_directive dr) = pk (NDirective dr).
  Proof.
    unfold lin_directive. cbn [flat_map pick]. rewrite flat_map_app, pick_arguments.
    cbn [flat_map pick app]. rewrite app_nil_r. reflexivity.
  Qed.

  Lemma pick_directives dirs : flat_map pick (flat_map lin_directive dirs) = dirs_pick dirs.
  Proof. rewrite flat_map_flat_map. apply flat_map_all_ext. exact pick_directive. Qed.

  Lemma pick_vardef v : flat_map pick (lin_vardef v) = pk (NVarDef v).
  Proof.
    unfold lin_vardef. cbn [flat_map pick]. rewrite flat_map_app.
    destruct (v_default v) as [dv|]; [rewrite pick_value|]; cbn [flat_map pick app];
      rewrite app_nil_r; reflexivity.
  Qed.

  Lemma pick_vardefs vars :
    flat_map pick (flat_map lin_vardef vars) = flat_map (fun v => pk (NVarDef v)) vars.
  Proof. rewrite flat_map_flat_map. apply flat_map_all_ext. exact pick_vardef. Qed.

  (* what one selection node contributes by itself (not its sub-selections) *)
  Definition sel_set_pick (x : selection) : list X :=
    match x with
    | SField _ _ _ _ _ sp ss | SInline _ _ _ sp ss => pk (NSelectionSet sp ss)
    | SSpread _ _ _ => []
    end.
  Definition node_pick (x : selection) : list X :=
    pk (sel_node x) ++ dirs_pick (sel_dirs x) ++ sel_set_pick x.

  Lemma pick_selection x : flat_map pick (lin_selection x) = flat_map node_pick (sel_all x).
  Proof.
    induction x as [p al n args dirs sp sels IH|p n dirs|p tc dirs sp sels IH] using selection_ind'.
    - cbn [lin_selection sel_all flat_map pick].
      rewrite !flat_map_app, pick_arguments, pick_directives. cbn [flat_map pick app].
      unfold node_pick at 1. cbn [sel_node sel_dirs sel_set_pick].
      rewrite !flat_map_app. cbn [flat_map pick app]. rewrite app_nil_r.
      rewrite <- ?app_assoc. do 3 f_equal.
      rewrite !flat_map_flat_map. apply flat_map_Forall_ext. exact IH.
    - cbn [lin_selection sel_all flat_map pick].
      rewrite !flat_map_app, pick_directives. cbn [flat_map pick app].
      unfold node_pick. cbn [sel_node sel_dirs sel_set_pick]. rewrite !app_nil_r. reflexivity.
    - cbn [lin_selection sel_all flat_map pick].
      rewrite !flat_map_app, pick_directives. cbn [flat_map pick app].
      unfold node_pick at 1. cbn [sel_node sel_dirs sel_set_pick].
      rewrite !flat_map_app. cbn [flat_map pick app]. rewrite app_nil_r.
      rewrite <- ?app_assoc. do 3 f_equal.
      rewrite !flat_map_flat_map. apply flat_map_Forall_ext. exact IH.
  Qed.

  Lemma pick_selections sels :
    flat_map pick (flat_map lin_selection sels) = flat_map node_pick (sels_all sels).
  Proof.
    unfold sels_all. rewrite !flat_map_flat_map. apply flat_map_all_ext. exact pick_selection.
  Qed.

  Lemma pick_selection_set sp sels :
    flat_map pick (lin_selection_set sp sels) = pk (NSelectionSet sp sels) ++ flat_map node_pick (sels_all sels).
  Proof.
    unfold lin_selection_set. cbn [flat_map pick]. rewrite flat_map_app, pick_selections.
    cbn [flat_map pick app]. rewrite app_nil_r. reflexivity.
  Qed.

  Definition def_pick (x : definition) : list X :=
    match x with
    | DOp o =>
        pk (NOperation o) ++ dirs_pick (op_directives o) ++
        flat_map (fun v => pk (NVarDef v)) (op_variable_definitions o) ++
        pk (NSelectionSet (o_span o) (o_sels o)) ++ flat_map node_pick (sels_all (o_sels o))
    | DFrag f =>
        pk (NFragmentDef f) ++ dirs_pick (fr_dirs f) ++
        pk (NSelectionSet (fr_span f) (fr_sels f)) ++ flat_map node_pick (sels_all (fr_sels f))
    end.

  Lemma pick_definition x : flat_map pick (lin_definition x) = def_pick x.
  Proof.
    destruct x as [o|f]; cbn [lin_definition def_pick flat_map pick].
    - rewrite !flat_map_app, pick_directives, pick_vardefs, pick_selection_set.
      cbn [flat_map pick app]. rewrite app_nil_r, <- ?app_assoc. reflexivity.
    - rewrite !flat_map_app, pick_directives, pick_selection_set.
      cbn [flat_map pick app]. rewrite app_nil_r, <- ?app_assoc. reflexivity.
  Qed.

  Theorem pick_document d : flat_map pick (lin_document d) = pk (NDocument d) ++ flat_map def_pick d.
  Proof.
    unfold lin_document. cbn [flat_map pick]. rewrite flat_map_app, flat_map_flat_map.
    cbn [flat_map pick app]. rewrite app_nil_r. f_equal. apply flat_map_all_ext. exact pick_definition.
  Qed.
End Pick.

(* ------------------------------------------------------------------ the specific pickers *)
Definition pk_fragment (n : node) : list fragment_def := match n with NFragmentDef f => [f] | _ => [] end.
Definition pk_operation (n : node) : list operation := match n with NOperation o => [o] | _ => [] end.
Definition pk_vardef (n : node) : list vardef := match n with NVarDef v => [v] | _ => [] end.
Definition pk_field (n : node) : list selection := match n with NField x => [x] | _ => [] end.
Definition pk_spread (n : node) : list selection := match n with NSpread x => [x] | _ => [] end.
Definition pk_inline (n : node) : list selection := match n with NInline x => [x] | _ => [] end.
Definition pk_directive (n : node) : list directive := match n with NDirective dr => [dr] | _ => [] end.
(* the directive site opened by a node (an operation, a fragment definition or a selection) *)
Definition pk_site (n : node) : list (dir_loc * list directive) :=
  match n with
  | NOperation o => [(op_location (o_kind o), op_directives o)]
  | NFragmentDef f => [(LFragmentDefinition, fr_dirs f)]
  | NField x | NSpread x | NInline x => [sel_site x]
  | _ => []
  end.

Ltac low_tac := let n := fresh "n" in let H := fresh "H" in intros n H; destruct n; (discriminate H || reflexivity).

Ltac pick_doc_tac :=
  rewrite pick_document by low_tac; cbn [pk_fragment pk_operation pk_vardef pk_field pk_spread pk_inline pk_directive pk_site app].

Ltac pk_simp :=
  cbn [def_pick def_site def_sels];
  unfold dirs_pick;
  cbn [pk_fragment pk_operation pk_vardef pk_field pk_spread pk_inline pk_directive pk_site app];
  rewrite ?flat_map_nil_fn; cbn [app].

Lemma pick_fragment_document d : flat_map (pick pk_fragment) (lin_document d) = fragments_of d.
Proof.
  pick_doc_tac. unfold fragments_of. apply flat_map_all_ext. intros [o|f]; pk_simp.
  - apply flat_map_all_nil.
    intros [? ? ? ? ? ? ?|? ? ?|? ? ? ? ?]; unfold node_pick, dirs_pick; cbn; rewrite flat_map_nil_fn; reflexivity.
  - f_equal. apply flat_map_all_nil.
    intros [? ? ? ? ? ? ?|? ? ?|? ? ? ? ?]; unfold node_pick, dirs_pick; cbn; rewrite flat_map_nil_fn; reflexivity.
Qed.

Lemma pick_operation_document d : flat_map (pick pk_operation) (lin_document d) = operations_of d.
Proof.
  pick_doc_tac. unfold operations_of. apply flat_map_all_ext. intros [o|f]; pk_simp.
  - f_equal. apply flat_map_all_nil.
    intros [? ? ? ? ? ? ?|? ? ?|? ? ? ? ?]; unfold node_pick, dirs_pick; cbn; rewrite flat_map_nil_fn; reflexivity.
  - apply flat_map_all_nil.
    intros [? ? ? ? ? ? ?|? ? ?|? ? ? ? ?]; unfold node_pick, dirs_pick; cbn; rewrite flat_map_nil_fn; reflexivity.
Qed.

Lemma pick_vardef_document d :
  flat_map (pick pk_vardef) (lin_document d) = flat_map op_variable_definitions (operations_of d).
Proof.
  pick_doc_tac. unfold operations_of. rewrite flat_map_flat_map. apply flat_map_all_ext.
  intros [o|f]; cbn [flat_map]; pk_simp.
  - rewrite app_nil_r.
    rewrite (flat_map_singleton (fun v => v)), map_id.
    rewrite <- (app_nil_r (op_variable_definitions o)) at 2. f_equal. apply flat_map_all_nil.
    intros [? ? ? ? ? ? ?|? ? ?|? ? ? ? ?]; unfold node_pick, dirs_pick; cbn; rewrite flat_map_nil_fn; reflexivity.
  - apply flat_map_all_nil.
    intros [? ? ? ? ? ? ?|? ? ?|? ? ? ? ?]; unfold node_pick, dirs_pick; cbn; rewrite flat_map_nil_fn; reflexivity.
Qed.

Lemma doc_selections_pick {X} (g : selection -> list X) d :
  flat_map (fun x => flat_map g (sels_all (def_sels x))) d = flat_map g (doc_selections d).
Proof. unfold doc_selections. rewrite flat_map_flat_map. reflexivity. Qed.

Lemma pick_field_document d :
  flat_map (pick pk_field) (lin_document d) = filter is_field (doc_selections d).
Proof.
  pick_doc_tac.
  transitivity (flat_map (fun x => if is_field x then [x] else []) (doc_selections d)).
  - rewrite <- doc_selections_pick. apply flat_map_all_ext.
    intros [o|f]; pk_simp;
      apply flat_map_all_ext;
      intros [? ? ? ? ? ? ?|? ? ?|? ? ? ? ?]; unfold node_pick, dirs_pick; cbn; rewrite flat_map_nil_fn; reflexivity.
  - induction (doc_selections d) as [|x r IH]; cbn; [reflexivity|]. rewrite IH. destruct (is_field x); reflexivity.
Qed.

Lemma pick_spread_document d :
  flat_map (pick pk_spread) (lin_document d) = filter is_spread (doc_selections d).
Proof.
  pick_doc_tac.
  transitivity (flat_map (fun x => if is_spread x then [x] else []) (doc_selections d)).
  - rewrite <- doc_selections_pick. apply flat_map_all_ext.
    intros [o|f]; pk_simp;
      apply flat_map_all_ext;
      intros [? ? ? ? ? ? ?|? ? ?|? ? ? ? ?]; unfold node_pick, dirs_pick; cbn; rewrite flat_map_nil_fn; reflexivity.
  - induction (doc_selections d) as [|x r IH]; cbn; [reflexivity|]. rewrite IH. destruct (is_spread x); reflexivity.
Qed.

Lemma pick_inline_document d :
  flat_map (pick pk_inline) (lin_document d) = filter is_inline (doc_selections d).
Proof.
  pick_doc_tac.
  transitivity (flat_map (fun x => if is_inline x then [x] else []) (doc_selections d)).
  - rewrite <- doc_selections_pick. apply flat_map_all_ext.
    intros [o|f]; pk_simp;
      apply flat_map_all_ext;
      intros [? ? ? ? ? ? ?|? ? ?|? ? ? ? ?]; unfold node_pick, dirs_pick; cbn; rewrite flat_map_nil_fn; reflexivity.
  - induction (doc_selections d) as [|x r IH]; cbn; [reflexivity|]. rewrite IH. destruct (is_inline x); reflexivity.
Qed.

(* all directive occurrences, in document order = the directive lists of the sites, in order *)
Lemma pick_directive_document d :
  flat_map (pick pk_directive) (lin_document d) = flat_map snd (directive_sites d).
Proof.
  pick_doc_tac. rewrite directive_sites_eq, flat_map_flat_map. apply flat_map_all_ext.
  assert (Hd : forall dirs, dirs_pick pk_directive dirs = dirs).
  { intro dirs. unfold dirs_pick. cbn [pk_directive]. rewrite (flat_map_singleton (fun x => x)). apply map_id. }
  assert (Hn : forall l, flat_map (node_pick pk_directive) l = flat_map snd (map sel_site l)).
  { intro l. rewrite flat_map_map. apply flat_map_all_ext.
    intros [? ? ? ? ? ? ?|? ? ?|? ? ? ? ?]; unfold node_pick; rewrite Hd; cbn; rewrite ?app_nil_r; reflexivity. }
  intros [o|f]; cbn [def_pick pk_directive app def_site def_sels flat_map snd]; rewrite Hd, Hn.
  - rewrite flat_map_nil_fn. reflexivity.
  - reflexivity.
Qed.

(* the directive sites, in document order *)
Lemma pick_site_document d : flat_map (pick pk_site) (lin_document d) = directive_sites d.
Proof.
  pick_doc_tac. rewrite directive_sites_eq. apply flat_map_all_ext.
  assert (Hn : forall l, flat_map (node_pick pk_site) l = map sel_site l).
  { intro l. rewrite <- (flat_map_singleton sel_site). apply flat_map_all_ext.
    intros [? ? ? ? ? ? ?|? ? ?|? ? ? ? ?]; unfold node_pick, dirs_pick; cbn; rewrite flat_map_nil_fn; reflexivity. }
  intros [o|f]; pk_simp; rewrite Hn; reflexivity.
Qed.

(* ------------------------------------------------------------------ membership *)
Lemma in_pick_iff {X} (pk : node -> list X) (mk : X -> node) (l : list event) (x : X) :
  (forall n y, In y (pk n) <-> n = mk y) ->
  (In (Enter (mk x)) l <-> In x (flat_map (pick pk) l)).
Proof.
  intro H. rewrite in_flat_map. split.
  - intro Hin. exists (Enter (mk x)). split; [exact Hin|]. cbn [pick]. apply H. reflexivity.
  - intros [e [Hin Hx]]. destruct e as [n|n]; cbn [pick] in Hx; [|destruct Hx].
    apply H in Hx. subst n. exact Hin.
Qed.

Ltac pk_inj := let n := fresh "n" in let y := fresh "y" in let H := fresh "H" in
  intros n y; destruct n; cbn; split; intro H;
  try (destruct H as [H|[]]); try contradiction; try discriminate; try (left; congruence); try congruence.

Lemma in_lin_fragment_def d f : In (Enter (NFragmentDef f)) (lin_document d) <-> In f (fragments_of d).
Proof. rewrite (in_pick_iff pk_fragment NFragmentDef) by pk_inj. rewrite pick_fragment_document. reflexivity. Qed.

Lemma in_lin_operation d o : In (Enter (NOperation o)) (lin_document d) <-> In o (operations_of d).
Proof. rewrite (in_pick_iff pk_operation NOperation) by pk_inj. rewrite pick_operation_document. reflexivity. Qed.

Lemma in_lin_vardef d v :
  In (Enter (NVarDef v)) (lin_document d) <->
  exists o, In o (operations_of d) /\ In v (op_variable_definitions o).
Proof.
  rewrite (in_pick_iff pk_vardef NVarDef) by pk_inj. rewrite pick_vardef_document. apply in_flat_map.
Qed.

Lemma in_lin_field d x :
  In (Enter (NField x)) (lin_document d) <-> In x (doc_selections d) /\ is_field x = true.
Proof. rewrite (in_pick_iff pk_field NField) by pk_inj. rewrite pick_field_document. apply filter_In. Qed.

Lemma in_lin_spread d x :
  In (Enter (NSpread x)) (lin_document d) <-> In x (doc_selections d) /\ is_spread x = true.
Proof. rewrite (in_pick_iff pk_spread NSpread) by pk_inj. rewrite pick_spread_document. apply filter_In. Qed.

Lemma in_lin_inline d x :
  In (Enter (NInline x)) (lin_document d) <-> In x (doc_selections d) /\ is_inline x = true.
Proof. rewrite (in_pick_iff pk_inline NInline) by pk_inj. rewrite pick_inline_document. apply filter_In. Qed.

Lemma in_lin_directive d dr :
  In (Enter (NDirective dr)) (lin_document d) <->
  exists site, In site (directive_sites d) /\ In dr (snd site).
Proof.
  rewrite (in_pick_iff pk_directive NDirective) by pk_inj. rewrite pick_directive_document. apply in_flat_map.
Qed.

(* "x is an SField" in constructor form *)
Lemma is_field_iff x : is_field x = true <-> exists p al n args dirs sp sels, x = SField p al n args dirs sp sels.
Proof.
  split.
  - destruct x as [p al n args dirs sp sels|? ? ?|? ? ? ? ?]; cbn; try discriminate.
    intros _. repeat eexists.
  - intros (p & al & n & args & dirs & sp & sels & ->). reflexivity.
Qed.
Lemma is_spread_iff x : is_spread x = true <-> exists p n dirs, x = SSpread p n dirs.
Proof.
  split.
  - destruct x as [? ? ? ? ? ? ?|p n dirs|? ? ? ? ?]; cbn; try discriminate. intros _. repeat eexists.
  - intros (p & n & dirs & ->). reflexivity.
Qed.
Lemma is_inline_iff x : is_inline x = true <-> exists p tc dirs sp sels, x = SInline p tc dirs sp sels.
Proof.
  split.
  - destruct x as [? ? ? ? ? ? ?|? ? ?|p tc dirs sp sels]; cbn; try discriminate. intros _. repeat eexists.
  - intros (p & tc & dirs & sp & sels & ->). reflexivity.
Qed.

(* ------------------------------------------------------------------ transfer to the annotation *)
Lemma annot_events s d : query_entry_ok s = true -> map fst (annot s d) = lin_document d.
Proof.
  intro Hq. rewrite <- (ctr_document_answers s Hq d), map_map.
  rewrite <- (ctr_document_events s d ctx0). apply map_ext. intros [e c]. reflexivity.
Qed.

Lemma annot_events_wf s d : wf_schema s = true -> map fst (annot s d) = lin_document d.
Proof. intro H. apply annot_events, wf_query_entry_ok, H. Qed.

Lemma in_annot_lin s d e env :
  query_entry_ok s = true -> In (e, env) (annot s d) -> In e (lin_document d).
Proof.
  intros Hq Hin. rewrite <- (annot_events s d Hq). apply in_map_iff. exists (e, env). split; [reflexivity|exact Hin].
Qed.

Lemma in_lin_annot s d e :
  query_entry_ok s = true -> In e (lin_document d) -> exists env, In (e, env) (annot s d).
Proof.
  intros Hq Hin. rewrite <- (annot_events s d Hq) in Hin. apply in_map_iff in Hin.
  destruct Hin as [[e' env] [E Hin]]. cbn in E. subst e'. exists env. exact Hin.
Qed.

(* a check that reads only the event can be evaluated on the linearisation *)
Lemma existsb_annot_events s d (p : event -> bool) :
  query_entry_ok s = true ->
  existsb (fun ea : aev => p (fst ea)) (annot s d) = existsb p (lin_document d).
Proof. intro Hq. rewrite <- (annot_events s d Hq), existsb_map. reflexivity. Qed.

Lemma flat_map_annot_events {X} s d (f : event -> list X) :
  query_entry_ok s = true ->
  flat_map (fun ea : aev => f (fst ea)) (annot s d) = flat_map f (lin_document d).
Proof. intro Hq. rewrite <- (annot_events s d Hq), flat_map_map. reflexivity. Qed.

(* the same for the functional trace of the model *)
Lemma flat_map_ctr_events {X} s d c (f : event -> list X) :
  flat_map (fun ec : event * ctx => f (fst ec)) (ctr_document s d c) = flat_map f (lin_document d).
Proof. rewrite <- (ctr_document_events s d c), flat_map_map. reflexivity. Qed.

(* the directive occurrences of the annotation are those of the sites *)
Lemma directive_events_sites s d :
  query_entry_ok s = true -> directive_events s d = flat_map snd (directive_sites d).
Proof.
  intro Hq. unfold directive_events.
  rewrite <- pick_directive_document.
  rewrite <- (flat_map_annot_events s d (pick pk_directive) Hq). apply flat_map_all_ext.
  intros [[n|n] env]; cbn [fst pick]; [destruct n|]; reflexivity.
Qed.

(* the field occurrences of the annotation are the field selections of the document *)
Lemma field_events_selections s d :
  query_entry_ok s = true -> map fst (field_events s d) = filter is_field (doc_selections d).
Proof.
  intro Hq. unfold field_events. rewrite <- pick_field_document.
  rewrite <- (flat_map_annot_events s d (pick pk_field) Hq). rewrite map_flat_map. apply flat_map_all_ext.
  intros [[n|n] env]; cbn [fst pick]; [destruct n|]; reflexivity.
Qed.

(* C03_merge_fuel_proofs.v — the field-merging rule and its fuel.
   [mrun] uses its fuel as a bound on the NESTING DEPTH of calls.  Results:
   (0) [merge_fuel d] (the constant of theories/Merge.v, linear in nf * ng) is NOT sufficient for
       every document: see C03_merge_fuel_cex.v (one cyclic fragment, 25 fields, unique positions:
       the rule runs out of fuel, [validate] answers OutOfFuel on a well-formed schema).  The depth
       that is really needed is quadratic in the number of fields (the chain of field pairs that
       the memo [ms_being] cuts can visit about nf^2/4 distinct pairs before it repeats).
   (1) [merge_fuel' d] = (ng+5) * 2*nf^2 + 2*ng^2 + ng + 4 IS sufficient for every schema, every
       document (cyclic fragments, unknown fragments, duplicate names, duplicate positions ...)
       and every selection set of the document: [merge_fuel'_sufficient].  The proof is by a
       measure on (call, memo state) that strictly decreases along every nested call:
         (ng+5) * #(triples (pos,pos,bool) of field positions not yet in ms_being)
         + sum over pairs of fragment names of the weight of their ms_compared entry
         + rank of the call (+ #(fragment names not yet in ms_visited) for CFieldsAndFragment).
   (2) hence the rule never reports out-of-fuel, and [validate] terminates on every document,
       as soon as the model's fuel is at least [merge_fuel' d]:
       [merge_no_fuel_exhaustion_gen], [validate_terminates_all_gen].
   (3) more fuel never changes a result ([mrun_more_fuel]); the rule with an arbitrary fuel F
       ([ofm_run_f]; F = merge_fuel d is the model) never runs out of fuel for F >= merge_fuel' d
       and agrees with the model wherever the model does not run out of fuel
       ([ofm_corrected_never_out_of_fuel], [ofm_corrected_conservative]): correcting the constant
       only turns OutOfFuel answers into results. *)
From Coq Require Import Permutation.
From GT Require Import Visitor Validate Merge.
From GTS Require Import SpecLin Annot WfSchema SpecRules SpecValid.
From GTP Require Import VisitorFacts TraceFacts RuleFacts PlanFacts C03_proofs C05_proofs.

(* ================================================================== generic list facts *)
Lemma mf_filter_len_le {A} (f g : A -> bool) l :
  (forall x, In x l -> g x = true -> f x = true) -> List.length (filter g l) <= List.length (filter f l).
Proof.
  induction l as [|x r IH]; intro H; cbn [filter]; [apply le_n|].
  assert (IH' := IH (fun y Hy => H y (or_intror Hy))).
  destruct (g x) eqn:Eg.
  - rewrite (H x (or_introl eq_refl) Eg). cbn [List.length]. lia.
  - destruct (f x); cbn [List.length]; lia.
Qed.

Lemma mf_filter_len_lt {A} (f g : A -> bool) l x0 :
  (forall x, In x l -> g x = true -> f x = true) -> In x0 l -> f x0 = true -> g x0 = false ->
  List.length (filter g l) < List.length (filter f l).
Proof.
  induction l as [|x r IH]; intros H Hin Hf Hg; [destruct Hin|]. cbn [filter].
  assert (Hr : forall y, In y r -> g y = true -> f y = true) by (intros y Hy; apply H; right; exact Hy).
  pose proof (mf_filter_len_le f g r Hr) as Hle.
  destruct Hin as [->|Hin].
  - rewrite Hf, Hg. cbn [List.length]. lia.
  - specialize (IH Hr Hin Hf Hg). destruct (g x) eqn:Eg.
    + rewrite (H x (or_introl eq_refl) Eg). cbn [List.length]. lia.
    + destruct (f x); cbn [List.length]; lia.
Qed.

Lemma mf_filter_len_all {A} (f : A -> bool) l : List.length (filter f l) <= List.length l.
Proof. induction l as [|x r IH]; cbn [filter]; [apply le_n|]. destruct (f x); cbn [List.length]; lia. Qed.

Lemma mf_sum_le {A} (f g : A -> nat) l :
  (forall x, In x l -> g x <= f x) -> list_sum (map g l) <= list_sum (map f l).
Proof.
  induction l as [|x r IH]; intro H; [apply le_n|].
  change (g x + list_sum (map g r) <= f x + list_sum (map f r)).
  pose proof (H x (or_introl eq_refl)). pose proof (IH (fun y Hy => H y (or_intror Hy))). lia.
Qed.

Lemma mf_sum_lt {A} (f g : A -> nat) l x0 :
  (forall x, In x l -> g x <= f x) -> In x0 l -> g x0 < f x0 -> list_sum (map g l) < list_sum (map f l).
Proof.
  induction l as [|x r IH]; intros H Hin Hlt; [destruct Hin|].
  change (g x + list_sum (map g r) < f x + list_sum (map f r)).
  assert (Hr : forall y, In y r -> g y <= f y) by (intros y Hy; apply H; right; exact Hy).
  pose proof (mf_sum_le f g r Hr). pose proof (H x (or_introl eq_refl)).
  destruct Hin as [->|Hin]; [lia|]. specialize (IH Hr Hin Hlt). lia.
Qed.

Lemma mf_sum_bound {A} (f : A -> nat) l k : (forall x, f x <= k) -> list_sum (map f l) <= k * List.length l.
Proof.
  intro H. induction l as [|x r IH]; [cbn; lia|].
  change (f x + list_sum (map f r) <= k * S (List.length r)). pose proof (H x). lia.
Qed.

Lemma mf_flat_map_length {A B} (f : A -> list B) k l :
  (forall x, List.length (f x) = k) -> List.length (flat_map f l) = k * List.length l.
Proof.
  intro H. induction l as [|x r IH]; cbn [flat_map List.length]; [lia|]. rewrite app_length, H, IH. lia.
Qed.

Lemma seq_calls_cons run c r st :
  seq_calls run (c :: r) st =
  match run c st with
  | Some (st1, cs1) => match seq_calls run r st1 with Some (st2, cs2) => Some (st2, cs1 ++ cs2) | None => None end
  | None => None
  end.
Proof. reflexivity. Qed.

(* ================================================================== unfolding the remaining calls *)
Definition ff_loop (run : mcall -> mstate -> mres) (fm : fmap) (mutex : bool)
  : list name -> mstate -> list conflict -> mres :=
  fix loop (l : list name) (st : mstate) (acc : list conflict) : mres :=
    match l with
    | [] => Some (st, acc)
    | f2 :: r =>
        if mem_name f2 (ms_visited st) then loop r st acc
        else
          match run (CFieldsAndFragment fm f2 mutex)
                    (mkMS (ms_compared st) (ms_visited st ++ [f2]) (ms_being st)) with
          | Some (st2, cs2) => loop r st2 (acc ++ cs2)
          | None => None
          end
    end.

Lemma ff_loop_cons run fm mutex f2 r st acc :
  ff_loop run fm mutex (f2 :: r) st acc =
  if mem_name f2 (ms_visited st) then ff_loop run fm mutex r st acc
  else match run (CFieldsAndFragment fm f2 mutex)
                 (mkMS (ms_compared st) (ms_visited st ++ [f2]) (ms_being st)) with
       | Some (st2, cs2) => ff_loop run fm mutex r st2 (acc ++ cs2)
       | None => None
       end.
Proof. reflexivity. Qed.

Definition wss_calls (fm : fmap) : list name -> list mcall :=
  fix go (l : list name) : list mcall :=
    match l with
    | [] => []
    | f1 :: r => CFieldsAndFragment fm f1 false :: map (fun f2 => CBetweenFragments f1 f2 false) r ++ go r
    end.

Lemma wss_calls_cons fm f1 r :
  wss_calls fm (f1 :: r) =
  CFieldsAndFragment fm f1 false :: map (fun f2 => CBetweenFragments f1 f2 false) r ++ wss_calls fm r.
Proof. reflexivity. Qed.

Lemma wss_calls_in fm l c : In c (wss_calls fm l) ->
  (exists f, c = CFieldsAndFragment fm f false) \/ (exists a b, c = CBetweenFragments a b false).
Proof.
  induction l as [|f1 r IH]; intro H; [destruct H|]. rewrite wss_calls_cons in H.
  destruct H as [<-|H]; [left; exists f1; reflexivity|].
  apply in_app_or in H. destruct H as [H|H]; [|exact (IH H)].
  apply in_map_iff in H. destruct H as [f2 [<- _]]. right. exists f1, f2. reflexivity.
Qed.

Lemma mrun_floop fuel s d fm frags m st :
  mrun (S fuel) s d (CFragmentLoop fm frags m) st =
  match seq_calls (mrun fuel s d) (map (fun f => CFieldsAndFragment fm f m) frags)
                  (mkMS (ms_compared st) [] (ms_being st)) with
  | Some (st1, cs) => Some (mkMS (ms_compared st1) (ms_visited st) (ms_being st1), cs)
  | None => None
  end.
Proof. reflexivity. Qed.

Lemma mrun_ff fuel s d fm f m st :
  mrun (S fuel) s d (CFieldsAndFragment fm f m) st =
  match known_fragment d f with
  | None => Some (st, [])
  | Some fragment =>
      let '(fm2, fr2) := get_referenced_fields_and_fragment_names s fragment in
      if mem_name f fr2 then Some (st, [])
      else match mrun fuel s d (CBetween m fm fm2) st with
           | Some (st1, cs1) => ff_loop (mrun fuel s d) fm m fr2 st1 cs1
           | None => None
           end
  end.
Proof. reflexivity. Qed.

Lemma mrun_bf fuel s d n1 n2 m st :
  mrun (S fuel) s d (CBetweenFragments n1 n2 m) st =
  if name_eqb n1 n2 then Some (st, [])
  else if ps_contains (ms_compared st) n1 n2 m then Some (st, [])
  else
    match known_fragment d n1, known_fragment d n2 with
    | Some fa, Some fb =>
        let '(fm1, fr1) := get_referenced_fields_and_fragment_names s fa in
        let '(fm2, fr2) := get_referenced_fields_and_fragment_names s fb in
        seq_calls (mrun fuel s d)
          ([CBetween m fm1 fm2] ++
           map (fun x => CBetweenFragments n1 x m) fr2 ++
           map (fun x => CBetweenFragments x n2 m) fr1)
          (mkMS (ps_insert (ms_compared st) n1 n2 m) (ms_visited st) (ms_being st))
    | _, _ => Some (mkMS (ps_insert (ms_compared st) n1 n2 m) (ms_visited st) (ms_being st), [])
    end.
Proof. reflexivity. Qed.

Lemma mrun_wss fuel s d parent sels st :
  mrun (S fuel) s d (CWithinSelectionSet parent sels) st =
  let '(fm, frs) := get_fields_and_fragment_names s parent sels in
  match mrun fuel s d (CWithin fm) st with
  | Some (st0, cs0) =>
      match seq_calls (mrun fuel s d) (wss_calls fm frs) (mkMS (ms_compared st0) [] (ms_being st0)) with
      | Some (st1, cs1) => Some (mkMS (ms_compared st1) (ms_visited st0) (ms_being st1), cs0 ++ cs1)
      | None => None
      end
  | None => None
  end.
Proof. reflexivity. Qed.

(* ================================================================== counting fields *)
Lemma fields_count_sels l :
  Forall (fun y => List.length (filter is_field (sel_all y)) = count_fields y) l ->
  List.length (filter is_field (sels_all l)) = cnt l.
Proof.
  induction 1 as [|y r Hy Hr IH]; [reflexivity|].
  unfold sels_all in *. cbn [flat_map]. rewrite filter_app, app_length, Hy, IH, cnt_cons. reflexivity.
Qed.

Lemma fields_count_sel x : List.length (filter is_field (sel_all x)) = count_fields x.
Proof.
  induction x as [p al n args dirs sp sels IH|p n dirs|p tc dirs sp sels IH] using selection_ind'.
  - cbn [sel_all filter is_field List.length count_fields]. fold (cnt sels). f_equal.
    apply (fields_count_sels sels IH).
  - reflexivity.
  - cbn [sel_all filter is_field count_fields]. fold (cnt sels). apply (fields_count_sels sels IH).
Qed.

Lemma fields_count l : List.length (filter is_field (sels_all l)) = cnt l.
Proof. apply fields_count_sels. apply Forall_forall. intros y _. apply fields_count_sel. Qed.

Lemma doc_fields_cons x r : doc_fields (x :: r) = cnt (def_sels x) + doc_fields r.
Proof.
  unfold doc_fields. cbn [fold_left]. rewrite fold_sum. destruct x; reflexivity.
Qed.

Lemma doc_fields_count d : List.length (filter is_field (doc_selections d)) = doc_fields d.
Proof.
  induction d as [|x r IH]; [reflexivity|].
  unfold doc_selections in *. cbn [flat_map]. rewrite filter_app, app_length, IH, fields_count, doc_fields_cons.
  reflexivity.
Qed.

(* ================================================================== the measure *)
Definition triple := (pos * pos * bool)%type.
Definition bhas (l : list triple) (t : triple) : bool :=
  existsb (fun pq : triple =>
             pos_eqb (fst (fst pq)) (fst (fst t)) && pos_eqb (snd (fst pq)) (snd (fst t)) &&
             Bool.eqb (snd pq) (snd t)) l.
Definition bext (b b' : list triple) : Prop := forall t, bhas b t = true -> bhas b' t = true.

Lemma bhas_app b b' t : bhas (b ++ b') t = bhas b t || bhas b' t.
Proof. apply existsb_app. Qed.

Lemma bhas_self t : bhas [t] t = true.
Proof.
  unfold bhas. cbn [existsb].
  rewrite (proj2 (pos_eqb_eq _ _) eq_refl), (proj2 (pos_eqb_eq _ _) eq_refl), Bool.eqb_reflx. reflexivity.
Qed.

Definition wt (o : option bool) : nat := match o with None => 2 | Some true => 1 | Some false => 0 end.
Definition cget (m : pairset) (k : name * name) : option bool := as_get pair_eqb k m.
Definition cle (m m' : pairset) : Prop := forall k, wt (cget m' k) <= wt (cget m k).
Definition psym (m : pairset) : Prop := forall a b, cget m (a, b) = cget m (b, a).

Lemma pair_eqb_eq x y : pair_eqb x y = true <-> x = y.
Proof.
  destruct x as [a b], y as [a' b']. unfold pair_eqb. cbn [fst snd].
  rewrite andb_true_iff, !G6.name_eqb_eq.
  split; [intros [-> ->]; reflexivity|intro H; inversion H; split; reflexivity].
Qed.

Lemma cget_insert m a b mx k :
  cget (ps_insert m a b mx) k =
  if pair_eqb k (b, a) then Some mx else if pair_eqb k (a, b) then Some mx else cget m k.
Proof. unfold cget, ps_insert. rewrite !(G7.as_get_set pair_eqb pair_eqb_eq). reflexivity. Qed.

Lemma pair_eqb_swap x y a b : pair_eqb (x, y) (b, a) = pair_eqb (y, x) (a, b).
Proof. unfold pair_eqb. cbn [fst snd]. apply andb_comm. Qed.

Lemma insert_psym m a b mx : psym m -> psym (ps_insert m a b mx).
Proof.
  intros H x y. rewrite !cget_insert. rewrite (pair_eqb_swap x y a b), (pair_eqb_swap y x a b).
  destruct (pair_eqb (y, x) (a, b)), (pair_eqb (x, y) (a, b)); try reflexivity. apply H.
Qed.

Lemma contains_false m a b mx : ps_contains m a b mx = false -> wt (Some mx) < wt (cget m (a, b)).
Proof.
  unfold ps_contains, cget. destruct (as_get pair_eqb (a, b) m) as [r|]; [|destruct mx; cbn [wt]; lia].
  destruct mx; [discriminate|]. destruct r; cbn [negb wt]; [lia|discriminate].
Qed.

Lemma insert_cle m a b mx : psym m -> ps_contains m a b mx = false -> cle m (ps_insert m a b mx).
Proof.
  intros Hs Hc k. rewrite cget_insert. pose proof (contains_false _ _ _ _ Hc) as Hlt.
  destruct (pair_eqb k (b, a)) eqn:E1.
  - apply pair_eqb_eq in E1. subst k. rewrite <- (Hs a b). lia.
  - destruct (pair_eqb k (a, b)) eqn:E2; [|apply le_n]. apply pair_eqb_eq in E2. subst k. lia.
Qed.

Lemma psym_nil : psym [].
Proof. intros a b. reflexivity. Qed.

Section MergeFuel.
  Variables (s : sdocument) (d : document).

  (* ---- ms_being: triples of field positions ---- *)
  Definition FP : list pos := map sel_pos (filter is_field (doc_selections d)).
  Definition TU : list triple :=
    flat_map (fun p1 => flat_map (fun p2 => [(p1, p2, true); (p1, p2, false)]) FP) FP.
  Definition NB (b : list triple) : nat := List.length (filter (fun t => negb (bhas b t)) TU).

  Lemma FP_length : List.length FP = doc_fields d.
  Proof. unfold FP. rewrite map_length. apply doc_fields_count. Qed.

  Lemma TU_in p1 p2 m : In p1 FP -> In p2 FP -> In (p1, p2, m) TU.
  Proof.
    intros H1 H2. unfold TU. apply in_flat_map. exists p1. split; [exact H1|].
    apply in_flat_map. exists p2. split; [exact H2|]. destruct m; [left|right; left]; reflexivity.
  Qed.

  Lemma TU_length : List.length TU = 2 * (doc_fields d * doc_fields d).
  Proof.
    unfold TU. rewrite (mf_flat_map_length _ (2 * List.length FP)).
    - rewrite FP_length. lia.
    - intro p1. rewrite (mf_flat_map_length _ 2); [lia|]. intro p2. reflexivity.
  Qed.

  Lemma NB_mono b b' : bext b b' -> NB b' <= NB b.
  Proof.
    intro H. unfold NB. apply mf_filter_len_le. intros t _ Ht.
    apply negb_true_iff in Ht. apply negb_true_iff.
    destruct (bhas b t) eqn:E; [|reflexivity]. rewrite (H t E) in Ht. discriminate.
  Qed.

  Lemma NB_lt b t : In t TU -> bhas b t = false -> NB (b ++ [t]) < NB b.
  Proof.
    intros Hin Hb. unfold NB. apply (mf_filter_len_lt _ _ TU t).
    - intros x _ Hx. rewrite bhas_app in Hx. apply negb_true_iff in Hx. apply orb_false_elim in Hx.
      apply negb_true_iff. apply Hx.
    - exact Hin.
    - rewrite Hb. reflexivity.
    - rewrite bhas_app, bhas_self, orb_true_r. reflexivity.
  Qed.

  Lemma NB_bound b : NB b <= 2 * (doc_fields d * doc_fields d).
  Proof. unfold NB. rewrite <- TU_length. apply mf_filter_len_all. Qed.

  (* ---- ms_compared: pairs of fragment names ---- *)
  Definition FN : list name := map fr_name (fragments_of d).
  Definition G : nat := List.length FN.
  Definition PU : list (name * name) := list_prod FN FN.
  Definition NC (m : pairset) : nat := list_sum (map (fun k => wt (cget m k)) PU).

  Lemma G_eq : G = List.length (fragments_of d).
  Proof. unfold G, FN. apply map_length. Qed.

  Lemma NC_mono m m' : cle m m' -> NC m' <= NC m.
  Proof. intro H. unfold NC. apply mf_sum_le. intros k _. apply H. Qed.

  Lemma NC_bound m : NC m <= 2 * (G * G).
  Proof.
    unfold NC. etransitivity; [apply (mf_sum_bound _ PU 2)|].
    - intro k. unfold wt. destruct (cget m k) as [[|]|]; lia.
    - unfold PU. rewrite prod_length. fold G. lia.
  Qed.

  Lemma insert_lt m a b mx : psym m -> ps_contains m a b mx = false -> In a FN -> In b FN ->
    NC (ps_insert m a b mx) < NC m.
  Proof.
    intros Hs Hc Ha Hb. unfold NC. apply (mf_sum_lt _ _ PU (a, b)).
    - intros k _. apply (insert_cle m a b mx Hs Hc).
    - apply in_prod; assumption.
    - rewrite cget_insert. pose proof (contains_false _ _ _ _ Hc) as Hlt.
      destruct (pair_eqb (a, b) (b, a)); [lia|].
      rewrite (proj2 (pair_eqb_eq (a, b) (a, b)) eq_refl). lia.
  Qed.

  (* ---- ms_visited: fragment names ---- *)
  Definition NV (v : list name) : nat := List.length (filter (fun n => negb (mem_name n v)) FN).

  Lemma mem_name_incl n v v' : incl v v' -> mem_name n v = true -> mem_name n v' = true.
  Proof.
    unfold mem_name. intros H Hm. apply existsb_exists in Hm. destruct Hm as [x [Hx E]].
    apply existsb_exists. exists x. split; [apply H, Hx|exact E].
  Qed.

  Lemma NV_mono v v' : incl v v' -> NV v' <= NV v.
  Proof.
    intro H. unfold NV. apply mf_filter_len_le. intros n _ Hn.
    apply negb_true_iff in Hn. apply negb_true_iff.
    destruct (mem_name n v) eqn:E; [|reflexivity]. rewrite (mem_name_incl n v v' H E) in Hn. discriminate.
  Qed.

  Lemma NV_lt v n : In n FN -> mem_name n v = false -> NV (v ++ [n]) < NV v.
  Proof.
    intros Hin Hm. unfold NV. apply (mf_filter_len_lt _ _ FN n).
    - intros x _ Hx. apply negb_true_iff in Hx. apply negb_true_iff.
      destruct (mem_name x v) eqn:E; [|reflexivity].
      rewrite (mem_name_incl x v (v ++ [n]) (incl_appl _ (incl_refl _)) E) in Hx. discriminate.
    - exact Hin.
    - rewrite Hm. reflexivity.
    - unfold mem_name. rewrite existsb_app. cbn [existsb]. rewrite G6.name_eqb_refl, orb_true_r. reflexivity.
  Qed.

  Lemma NV_bound v : NV v <= G.
  Proof. unfold NV, G. apply mf_filter_len_all. Qed.

  (* ---- states ---- *)
  Definition inv (st : mstate) : Prop := psym (ms_compared st).
  Definition ext (st st' : mstate) : Prop :=
    bext (ms_being st) (ms_being st') /\ cle (ms_compared st) (ms_compared st') /\
    incl (ms_visited st) (ms_visited st').

  Lemma ext_refl st : ext st st.
  Proof. split; [intros t Ht; exact Ht|]. split; [intro k; apply le_n|apply incl_refl]. Qed.

  Lemma ext_trans st1 st2 st3 : ext st1 st2 -> ext st2 st3 -> ext st1 st3.
  Proof.
    intros (B1 & C1 & V1) (B2 & C2 & V2). split; [|split].
    - intros t Ht. apply B2, B1, Ht.
    - intro k. etransitivity; [apply C2|apply C1].
    - eapply incl_tran; eassumption.
  Qed.

  Lemma ext_being_app st t : ext st (mkMS (ms_compared st) (ms_visited st) (ms_being st ++ [t])).
  Proof.
    split; [|split]; cbn [ms_being ms_compared ms_visited].
    - intros x Hx. rewrite bhas_app, Hx. reflexivity.
    - intro k. apply le_n.
    - apply incl_refl.
  Qed.

  Lemma ext_visit_app st f : ext st (mkMS (ms_compared st) (ms_visited st ++ [f]) (ms_being st)).
  Proof.
    split; [|split]; cbn [ms_being ms_compared ms_visited].
    - intros x Hx. exact Hx.
    - intro k. apply le_n.
    - apply incl_appl, incl_refl.
  Qed.

  Lemma ext_restore st v st1 :
    ext (mkMS (ms_compared st) v (ms_being st)) st1 ->
    ext st (mkMS (ms_compared st1) (ms_visited st) (ms_being st1)).
  Proof.
    intros (B & C & _). cbn [ms_being ms_compared] in B, C.
    split; [exact B|]. split; [exact C|apply incl_refl].
  Qed.

  Definition base (st : mstate) : nat := (G + 5) * NB (ms_being st) + NC (ms_compared st).
  Definition rank (c : mcall) (st : mstate) : nat :=
    match c with
    | CFindConflict _ _ _ => 1
    | CBetween _ _ _ => 2
    | CWithin _ => 2
    | CBetweenFragments _ _ _ => 3
    | CFieldsAndFragment _ f _ =>
        match known_fragment d f with Some _ => 3 + NV (ms_visited st) | None => 1 end
    | CFragmentLoop _ _ _ => 4 + G
    | CBetweenSub _ _ _ _ _ => 5 + G
    | CWithinSelectionSet _ _ => 4 + G
    end.
  Definition mu (c : mcall) (st : mstate) : nat := base st + rank c st.

  Lemma base_mono st st' : ext st st' -> base st' <= base st.
  Proof.
    intros (B & C & _). unfold base. pose proof (NB_mono _ _ B) as H1. pose proof (NC_mono _ _ C) as H2.
    pose proof (Nat.mul_le_mono_l _ _ (G + 5) H1). lia.
  Qed.

  Lemma mu_mono c st st' : ext st st' -> mu c st' <= mu c st.
  Proof.
    intro X. pose proof (base_mono _ _ X) as Hb. destruct X as (_ & _ & V).
    pose proof (NV_mono _ _ V) as Hv.
    unfold mu. destruct c; cbn [rank]; try lia. destruct (known_fragment d frag); lia.
  Qed.

  (* ---- the calls stay inside the document ---- *)
  Definition sels_ok (sels : list selection) : Prop := incl (sels_all sels) (doc_selections d).
  Definition fld_ok (x : selection) : Prop := is_field x = true /\ In x (doc_selections d).
  Definition gfm (fm : fmap) : Prop := forall a, In a (fm_fields fm) -> fld_ok (ad_field a).

  Lemma sels_all_sub L y : In y (sels_all L) -> incl (sels_all (sel_sels y)) (sels_all L).
  Proof.
    intro Hy. destruct (seg_sels L y Hy) as [l1 [l3 E]]. rewrite E. intros z Hz.
    apply in_or_app. right. apply in_or_app. left. exact Hz.
  Qed.

  Lemma fld_sub x : In x (doc_selections d) -> sels_ok (sel_sels x).
  Proof. intro H. unfold sels_ok. rewrite <- doc_selections_all in *. apply sels_all_sub, H. Qed.

  Lemma def_ok x : In x d -> sels_ok (def_sels x).
  Proof. intros Hx y Hy. unfold doc_selections. apply in_flat_map. exists x. split; assumption. Qed.

  Lemma frag_ok n f : known_fragment d n = Some f -> sels_ok (fr_sels f) /\ In n FN.
  Proof.
    intro H. destruct (G6.known_fragment_Some d n f H) as [Hin Hn]. split.
    - apply (def_ok (DFrag f)). unfold fragments_of in Hin. apply in_flat_map in Hin.
      destruct Hin as [x [Hx Hf]]. destruct x as [o|g]; [destruct Hf|]. destruct Hf as [<-|[]]. exact Hx.
    - rewrite <- Hn. unfold FN. apply in_map, Hin.
  Qed.

  Lemma fp_in x : fld_ok x -> In (sel_pos x) FP.
  Proof. intros [Hf Hin]. unfold FP. apply in_map. apply filter_In. split; assumption. Qed.

  Lemma selset_ok sp sels : In (Enter (NSelectionSet sp sels)) (lin_document d) -> sels_ok sels.
  Proof.
    intro H. destruct (selset_in_doc d sp sels H) as [x [Hx [->|[y [Hy ->]]]]].
    - apply def_ok, Hx.
    - apply fld_sub. apply (def_ok x Hx), Hy.
  Qed.

  (* ---- the collected fields are fields of the selection set ---- *)
  Lemma fm_push_in k v m a : In a (fm_fields (fm_push k v m)) -> a = v \/ In a (fm_fields m).
  Proof.
    intro H. apply (Permutation_in _ (fm_push_perm k v m)) in H.
    destruct H as [<-|H]; [left; reflexivity|right; exact H].
  Qed.

  Definition below (y : selection) (a : astdef) : Prop :=
    is_field (ad_field a) = true /\ In (ad_field a) (sel_all y).

  Lemma collect_fold_in ft l :
    Forall (fun y => forall parent acc a,
                In a (fm_fields (fst (collect_ff_sel s parent y acc))) ->
                In a (fm_fields (fst acc)) \/ below y a) l ->
    forall acc a,
      In a (fm_fields (fst (fold_left (fun a0 y => collect_ff_sel s ft y a0) l acc))) ->
      In a (fm_fields (fst acc)) \/ exists y, In y l /\ below y a.
  Proof.
    induction 1 as [|y r Hy Hr IH]; intros acc a H; cbn [fold_left] in H; [left; exact H|].
    destruct (IH _ _ H) as [H1|[z [Hz Hb]]].
    - destruct (Hy _ _ _ H1) as [H2|H2]; [left; exact H2|].
      right. exists y. split; [left; reflexivity|exact H2].
    - right. exists z. split; [right; exact Hz|exact Hb].
  Qed.

  Lemma collect_sel_in x : forall parent acc a,
    In a (fm_fields (fst (collect_ff_sel s parent x acc))) -> In a (fm_fields (fst acc)) \/ below x a.
  Proof.
    induction x as [p al n args dirs sp sels IH|p n dirs|p tc dirs sp sels IH] using selection_ind';
      intros parent acc a H.
    - cbn [collect_ff_sel fst] in H. apply fm_push_in in H. destruct H as [->|H]; [right|left; exact H].
      split; [reflexivity|]. cbn [ad_field sel_all]. left. reflexivity.
    - cbn [collect_ff_sel fst] in H. left. exact H.
    - cbn [collect_ff_sel] in H. apply (collect_fold_in _ sels IH) in H.
      destruct H as [H|[y [Hy [Hf Hin]]]]; [left; exact H|]. right. split; [exact Hf|].
      cbn [sel_all]. right. apply in_flat_map. exists y. split; assumption.
  Qed.

  Lemma collect_in parent sels a :
    In a (fm_fields (fst (get_fields_and_fragment_names s parent sels))) ->
    is_field (ad_field a) = true /\ In (ad_field a) (sels_all sels).
  Proof.
    unfold get_fields_and_fragment_names. intro H.
    apply (collect_fold_in parent sels) in H.
    - destruct H as [[]|[y [Hy [Hf Hin]]]]. split; [exact Hf|].
      unfold sels_all. apply in_flat_map. exists y. split; assumption.
    - apply Forall_forall. intros y _. apply collect_sel_in.
  Qed.

  Lemma collect_gfm parent sels : sels_ok sels -> gfm (fst (get_fields_and_fragment_names s parent sels)).
  Proof. intros H a Ha. apply collect_in in Ha. destruct Ha as [Hf Hin]. split; [exact Hf|apply H, Hin]. Qed.

  Definition cwf (c : mcall) : Prop :=
    match c with
    | CFindConflict a b _ => fld_ok (ad_field a) /\ fld_ok (ad_field b)
    | CBetweenSub _ _ s1 _ s2 => sels_ok s1 /\ sels_ok s2
    | CFieldsAndFragment fm _ _ => gfm fm
    | CBetweenFragments _ _ _ => True
    | CBetween _ fm1 fm2 => gfm fm1 /\ gfm fm2
    | CFragmentLoop fm _ _ => gfm fm
    | CWithin fm => gfm fm
    | CWithinSelectionSet _ sels => sels_ok sels
    end.

  (* ---- totality ---- *)
  Definition total (fuel : nat) : Prop :=
    forall c st, cwf c -> inv st -> mu c st <= fuel ->
      exists st' cs, mrun fuel s d c st = Some (st', cs) /\ inv st' /\ ext st st'.

  Lemma seq_total fuel (IH : total fuel) l : forall st, inv st ->
    (forall c, In c l -> cwf c /\ mu c st <= fuel) ->
    exists st' cs, seq_calls (mrun fuel s d) l st = Some (st', cs) /\ inv st' /\ ext st st'.
  Proof.
    induction l as [|c r IHl]; intros st Hinv Hl.
    - exists st, []. split; [reflexivity|]. split; [exact Hinv|apply ext_refl].
    - destruct (Hl c (or_introl eq_refl)) as [Hc Hm].
      destruct (IH c st Hc Hinv Hm) as (st1 & cs1 & E1 & I1 & X1).
      destruct (IHl st1 I1) as (st2 & cs2 & E2 & I2 & X2).
      { intros c' Hc'. destruct (Hl c' (or_intror Hc')) as [Hw Hm']. split; [exact Hw|].
        pose proof (mu_mono c' st st1 X1). lia. }
      exists st2, (cs1 ++ cs2). split; [|split; [exact I2|eapply ext_trans; eassumption]].
      rewrite seq_calls_cons, E1, E2. reflexivity.
  Qed.

  Lemma ff_loop_total fuel (IH : total fuel) fm m (Hfm : gfm fm) : forall l st acc, inv st ->
    base st + 3 + NV (ms_visited st) <= S fuel ->
    exists st' cs, ff_loop (mrun fuel s d) fm m l st acc = Some (st', cs) /\ inv st' /\ ext st st'.
  Proof.
    induction l as [|f2 r IHl]; intros st acc Hinv Hb.
    - exists st, acc. split; [reflexivity|]. split; [exact Hinv|apply ext_refl].
    - rewrite ff_loop_cons. destruct (mem_name f2 (ms_visited st)) eqn:Em; [apply IHl; assumption|].
      pose proof (ext_visit_app st f2) as X01.
      destruct (IH (CFieldsAndFragment fm f2 m)
                   (mkMS (ms_compared st) (ms_visited st ++ [f2]) (ms_being st)) Hfm Hinv)
        as (st2 & cs2 & E2 & I2 & X2).
      { unfold mu, base. cbn [rank ms_visited ms_being ms_compared]. unfold base in Hb.
        destruct (known_fragment d f2) as [g|] eqn:Ek; [|lia].
        destruct (frag_ok f2 g Ek) as [_ HN]. pose proof (NV_lt (ms_visited st) f2 HN Em). lia. }
      rewrite E2.
      pose proof (ext_trans _ _ _ X01 X2) as X02.
      destruct (IHl st2 (acc ++ cs2) I2) as (st3 & cs3 & E3 & I3 & X3).
      { pose proof (base_mono _ _ X02). destruct X02 as (_ & _ & V). pose proof (NV_mono _ _ V). lia. }
      exists st3, cs3. split; [exact E3|]. split; [exact I3|eapply ext_trans; eassumption].
  Qed.

  Ltac now_done Hinv :=
    eexists; eexists; split; [reflexivity|split; [exact Hinv|apply ext_refl]].

  Lemma mrun_total : forall fuel, total fuel.
  Proof.
    induction fuel as [|fuel IH]; intros c st Hw Hinv Hmu.
    - exfalso. unfold mu in Hmu. destruct c; cbn [rank] in Hmu; try lia.
      destruct (known_fragment d frag); lia.
    - destruct c as [a b pm|m pn1 sels1 pn2 sels2|fm f m|n1 n2 m|m fm1 fm2|fm frags m|fm|parent sels].
      + (* CFindConflict *)
        cbn [cwf] in Hw. destruct Hw as [Ha Hb].
        rewrite mrun_find. cbv zeta.
        destruct (negb (find_mutex pm a b) &&
                  negb (name_eqb (sel_name (ad_field a)) (sel_name (ad_field b)))); [now_done Hinv|].
        destruct (negb (find_mutex pm a b) &&
                  negb (is_same_arguments (sel_args (ad_field a)) (sel_args (ad_field b)))); [now_done Hinv|].
        destruct (type_conf s a b); [now_done Hinv|].
        destruct (negb (is_nil (sel_sels (ad_field a))) && negb (is_nil (sel_sels (ad_field b))));
          [|now_done Hinv].
        destruct (being_hit st (sel_pos (ad_field a)) (sel_pos (ad_field b)) (find_mutex pm a b)) eqn:Eh;
          [now_done Hinv|].
        assert (Hlt : NB (ms_being st ++ [(sel_pos (ad_field a), sel_pos (ad_field b), find_mutex pm a b)])
                      < NB (ms_being st)).
        { apply NB_lt; [apply TU_in; apply fp_in; assumption|exact Eh]. }
        pose proof (ext_being_app st (sel_pos (ad_field a), sel_pos (ad_field b), find_mutex pm a b)) as X01.
        destruct (IH (CBetweenSub (find_mutex pm a b) (sub_pn a) (sel_sels (ad_field a))
                                  (sub_pn b) (sel_sels (ad_field b)))
                     (mkMS (ms_compared st) (ms_visited st)
                           (ms_being st ++ [(sel_pos (ad_field a), sel_pos (ad_field b), find_mutex pm a b)])))
          as (st2 & cs & E & I2 & X2).
        { cbn [cwf]. split; apply fld_sub; [apply Ha|apply Hb]. }
        { exact Hinv. }
        { unfold mu, base in *. cbn [rank ms_being ms_compared] in *.
          assert (Hm : (G + 5) * (NB (ms_being st ++ [(sel_pos (ad_field a), sel_pos (ad_field b), find_mutex pm a b)]) + 1)
                       <= (G + 5) * NB (ms_being st)) by (apply Nat.mul_le_mono_l; lia).
          lia. }
        rewrite E. pose proof (ext_trans _ _ _ X01 X2) as X.
        destruct (is_nil cs); eexists; eexists; (split; [reflexivity|split; [exact I2|exact X]]).
      + (* CBetweenSub *)
        cbn [cwf] in Hw. destruct Hw as [H1 H2]. rewrite mrun_between_sub.
        pose proof (collect_gfm (opt_bind pn1 (type_by_name s)) sels1 H1) as Gf1.
        pose proof (collect_gfm (opt_bind pn2 (type_by_name s)) sels2 H2) as Gf2.
        destruct (get_fields_and_fragment_names s (opt_bind pn1 (type_by_name s)) sels1) as [fm1 fr1].
        destruct (get_fields_and_fragment_names s (opt_bind pn2 (type_by_name s)) sels2) as [fm2 fr2].
        cbn [fst] in Gf1, Gf2.
        apply (seq_total fuel IH); [exact Hinv|].
        intros c Hc. unfold mu in *. cbn [rank] in Hmu.
        cbn [app] in Hc. destruct Hc as [<-|[<-|[<-|Hc]]].
        * split; [cbn [cwf]; split; assumption|cbn [rank]; lia].
        * split; [exact Gf1|cbn [rank]; lia].
        * split; [exact Gf2|cbn [rank]; lia].
        * apply in_flat_map in Hc. destruct Hc as [x [_ Hc]]. apply in_map_iff in Hc.
          destruct Hc as [y [<- _]]. split; [exact I|cbn [rank]; lia].
      + (* CFieldsAndFragment *)
        cbn [cwf] in Hw. rewrite mrun_ff. unfold mu in Hmu. cbn [rank] in Hmu.
        destruct (known_fragment d f) as [fragment|] eqn:Ek; [|now_done Hinv].
        destruct (frag_ok f fragment Ek) as [Hfs HfN].
        pose proof (collect_gfm (type_by_name s (fr_tc fragment)) (fr_sels fragment) Hfs) as Gf2.
        unfold get_referenced_fields_and_fragment_names.
        destruct (get_fields_and_fragment_names s (type_by_name s (fr_tc fragment)) (fr_sels fragment))
          as [fm2 fr2].
        cbn [fst] in Gf2.
        destruct (mem_name f fr2); [now_done Hinv|].
        destruct (IH (CBetween m fm fm2) st) as (st1 & cs1 & E1 & I1 & X1).
        { split; assumption. }
        { exact Hinv. }
        { unfold mu. cbn [rank]. lia. }
        rewrite E1.
        destruct (ff_loop_total fuel IH fm m Hw fr2 st1 cs1 I1) as (st2 & cs2 & E2 & I2 & X2).
        { pose proof (base_mono _ _ X1). destruct X1 as (_ & _ & V). pose proof (NV_mono _ _ V). lia. }
        rewrite E2. eexists; eexists; split; [reflexivity|]. split; [exact I2|eapply ext_trans; eassumption].
      + (* CBetweenFragments *)
        rewrite mrun_bf. unfold mu in Hmu. cbn [rank] in Hmu.
        destruct (name_eqb n1 n2); [now_done Hinv|].
        destruct (ps_contains (ms_compared st) n1 n2 m) eqn:Ec; [now_done Hinv|].
        assert (I1 : inv (mkMS (ps_insert (ms_compared st) n1 n2 m) (ms_visited st) (ms_being st)))
          by (apply insert_psym, Hinv).
        assert (X1 : ext st (mkMS (ps_insert (ms_compared st) n1 n2 m) (ms_visited st) (ms_being st))).
        { split; [intros t Ht; exact Ht|]. split; [apply insert_cle; assumption|apply incl_refl]. }
        destruct (known_fragment d n1) as [fa|] eqn:E1;
          [|eexists; eexists; split; [reflexivity|split; assumption]].
        destruct (known_fragment d n2) as [fb|] eqn:E2;
          [|eexists; eexists; split; [reflexivity|split; assumption]].
        destruct (frag_ok n1 fa E1) as [Hsa Hna]. destruct (frag_ok n2 fb E2) as [Hsb Hnb].
        pose proof (insert_lt (ms_compared st) n1 n2 m Hinv Ec Hna Hnb) as Hlt.
        pose proof (collect_gfm (type_by_name s (fr_tc fa)) (fr_sels fa) Hsa) as Gfa.
        pose proof (collect_gfm (type_by_name s (fr_tc fb)) (fr_sels fb) Hsb) as Gfb.
        unfold get_referenced_fields_and_fragment_names.
        destruct (get_fields_and_fragment_names s (type_by_name s (fr_tc fa)) (fr_sels fa)) as [fm1 fr1].
        destruct (get_fields_and_fragment_names s (type_by_name s (fr_tc fb)) (fr_sels fb)) as [fm2 fr2].
        cbn [fst] in Gfa, Gfb.
        destruct (seq_total fuel IH
                    ([CBetween m fm1 fm2] ++ map (fun x => CBetweenFragments n1 x m) fr2 ++
                     map (fun x => CBetweenFragments x n2 m) fr1)
                    (mkMS (ps_insert (ms_compared st) n1 n2 m) (ms_visited st) (ms_being st)) I1)
          as (st2 & cs & E & I2 & X2).
        { intros c Hc. cbn [app] in Hc. destruct Hc as [<-|Hc].
          - split; [split; assumption|]. unfold mu, base in *. cbn [rank ms_being ms_compared] in *. lia.
          - apply in_app_or in Hc.
            destruct Hc as [Hc|Hc]; apply in_map_iff in Hc; destruct Hc as [x [<- _]];
              (split; [exact I|unfold mu, base in *; cbn [rank ms_being ms_compared] in *; lia]). }
        rewrite E. eexists; eexists; split; [reflexivity|]. split; [exact I2|eapply ext_trans; eassumption].
      + (* CBetween *)
        cbn [cwf] in Hw. destruct Hw as [Gf1 Gf2]. rewrite mrun_between.
        apply (seq_total fuel IH); [exact Hinv|].
        intros c Hc. destruct (in_between_calls _ _ _ _ Hc) as (k & g & f2 & a & b & Hkg & Eg & Ha & Hb & ->).
        split.
        * cbn [cwf]. split; [apply Gf1|apply Gf2]; unfold fm_fields; apply in_flat_map.
          -- exists (k, g). split; [exact Hkg|exact Ha].
          -- exists (k, f2). split; [apply al_get_Some_In, Eg|exact Hb].
        * unfold mu in *. cbn [rank] in *. lia.
      + (* CFragmentLoop *)
        cbn [cwf] in Hw. rewrite mrun_floop. unfold mu in Hmu. cbn [rank] in Hmu.
        destruct (seq_total fuel IH (map (fun f => CFieldsAndFragment fm f m) frags)
                            (mkMS (ms_compared st) [] (ms_being st)) Hinv)
          as (st1 & cs & E & I1 & X1).
        { intros c Hc. apply in_map_iff in Hc. destruct Hc as [f [<- _]]. split; [exact Hw|].
          unfold mu, base in *. cbn [rank ms_being ms_compared ms_visited] in *.
          pose proof (NV_bound []). destruct (known_fragment d f); lia. }
        rewrite E. eexists; eexists; split; [reflexivity|]. split; [exact I1|].
        apply (ext_restore st [] st1 X1).
      + (* CWithin *)
        cbn [cwf] in Hw. rewrite mrun_within.
        apply (seq_total fuel IH); [exact Hinv|].
        intros c Hc. destruct (in_within_calls _ _ Hc) as (k & g & a & b & Hkg & Ha & Hb & ->).
        split.
        * cbn [cwf]. split; apply Hw; unfold fm_fields; apply in_flat_map; exists (k, g); split; assumption.
        * unfold mu in *. cbn [rank] in *. lia.
      + (* CWithinSelectionSet *)
        cbn [cwf] in Hw. rewrite mrun_wss. pose proof (collect_gfm parent sels Hw) as Gf.
        destruct (get_fields_and_fragment_names s parent sels) as [fm frs]. cbn [fst] in Gf.
        unfold mu in Hmu. cbn [rank] in Hmu.
        destruct (IH (CWithin fm) st Gf Hinv) as (st0 & cs0 & E0 & I0 & X0).
        { unfold mu. cbn [rank]. lia. }
        rewrite E0.
        destruct (seq_total fuel IH (wss_calls fm frs) (mkMS (ms_compared st0) [] (ms_being st0)) I0)
          as (st1 & cs1 & E1 & I1 & X1).
        { intros c Hc. pose proof (base_mono _ _ X0) as Hb0. apply wss_calls_in in Hc.
          destruct Hc as [[f ->]|[a [b ->]]].
          - split; [exact Gf|]. unfold mu, base in *. cbn [rank ms_being ms_compared ms_visited] in *.
            pose proof (NV_bound []). destruct (known_fragment d f); lia.
          - split; [exact I|]. unfold mu, base in *. cbn [rank ms_being ms_compared ms_visited] in *. lia. }
        rewrite E1. eexists; eexists; split; [reflexivity|]. split; [exact I1|].
        eapply ext_trans; [exact X0|]. apply (ext_restore st0 [] st1 X1).
  Qed.

  (* ---- the corrected constant ---- *)
  Definition merge_fuel' : nat :=
    let nf := doc_fields d in
    let ng := List.length (fragments_of d) in
    (ng + 5) * (2 * (nf * nf)) + 2 * (ng * ng) + ng + 4.

  Lemma top_total fuel parent sels cmp : merge_fuel' <= fuel -> psym cmp -> sels_ok sels ->
    exists ms cs, mrun fuel s d (CWithinSelectionSet parent sels) (mkMS cmp [] []) = Some (ms, cs) /\
                  psym (ms_compared ms).
  Proof.
    intros Hf Hs Hok.
    destruct (mrun_total fuel (CWithinSelectionSet parent sels) (mkMS cmp [] [])) as (ms & cs & E & I & _).
    - exact Hok.
    - exact Hs.
    - unfold mu, base. cbn [rank ms_being ms_compared].
      pose proof (NB_bound (ms_being (mkMS cmp [] []))) as H1. cbn [ms_being] in H1.
      pose proof (NC_bound cmp) as H2.
      unfold merge_fuel' in Hf. cbv zeta in Hf. rewrite <- G_eq in Hf.
      pose proof (Nat.mul_le_mono_l _ _ (G + 5) H1) as H3.
      set (y := (G + 5) * (2 * (doc_fields d * doc_fields d))) in *. set (z := G * G) in *.
      clearbody y z. lia.
    - exists ms, cs. split; [exact E|exact I].
  Qed.

  (* ---- more fuel never changes a result ---- *)
  Definition rle (run run' : mcall -> mstate -> mres) : Prop :=
    forall c st r, run c st = Some r -> run' c st = Some r.

  Lemma seq_calls_rle run run' : rle run run' ->
    forall l st r, seq_calls run l st = Some r -> seq_calls run' l st = Some r.
  Proof.
    intros H. induction l as [|c l IHl]; intros st r Hr; [exact Hr|].
    rewrite seq_calls_cons in *.
    destruct (run c st) as [[st1 cs1]|] eqn:E1; [|discriminate Hr]. rewrite (H _ _ _ E1).
    destruct (seq_calls run l st1) as [[st2 cs2]|] eqn:E2; [|discriminate Hr]. rewrite (IHl _ _ E2).
    exact Hr.
  Qed.

  Lemma ff_loop_rle run run' fm m : rle run run' ->
    forall l st acc r, ff_loop run fm m l st acc = Some r -> ff_loop run' fm m l st acc = Some r.
  Proof.
    intros H. induction l as [|f2 l IHl]; intros st acc r Hr; [exact Hr|].
    rewrite ff_loop_cons in *. destruct (mem_name f2 (ms_visited st)); [apply IHl, Hr|].
    destruct (run (CFieldsAndFragment fm f2 m) (mkMS (ms_compared st) (ms_visited st ++ [f2]) (ms_being st)))
      as [[st2 cs2]|] eqn:E; [|discriminate Hr].
    rewrite (H _ _ _ E). apply IHl, Hr.
  Qed.

  Lemma mrun_S : forall fuel, rle (mrun fuel s d) (mrun (S fuel) s d).
  Proof.
    induction fuel as [|fuel IH]; intros c st r Hr; [discriminate Hr|].
    destruct c as [a b pm|m pn1 sels1 pn2 sels2|fm f m|n1 n2 m|m fm1 fm2|fm frags m|fm|parent sels].
    - rewrite mrun_find in Hr |- *. cbv zeta in Hr |- *.
      destruct (negb (find_mutex pm a b) &&
                negb (name_eqb (sel_name (ad_field a)) (sel_name (ad_field b)))); [exact Hr|].
      destruct (negb (find_mutex pm a b) &&
                negb (is_same_arguments (sel_args (ad_field a)) (sel_args (ad_field b)))); [exact Hr|].
      destruct (type_conf s a b); [exact Hr|].
      destruct (negb (is_nil (sel_sels (ad_field a))) && negb (is_nil (sel_sels (ad_field b)))); [|exact Hr].
      destruct (being_hit st (sel_pos (ad_field a)) (sel_pos (ad_field b)) (find_mutex pm a b)); [exact Hr|].
      match type of Hr with
      | match ?x with _ => _ end = _ => destruct x as [[st2 cs]|] eqn:E; [|discriminate Hr]
      end.
      rewrite (IH _ _ _ E). exact Hr.
    - rewrite mrun_between_sub in Hr |- *.
      destruct (get_fields_and_fragment_names s (opt_bind pn1 (type_by_name s)) sels1) as [fm1 fr1].
      destruct (get_fields_and_fragment_names s (opt_bind pn2 (type_by_name s)) sels2) as [fm2 fr2].
      apply (seq_calls_rle _ _ IH), Hr.
    - rewrite mrun_ff in Hr |- *. destruct (known_fragment d f) as [fragment|]; [|exact Hr].
      destruct (get_referenced_fields_and_fragment_names s fragment) as [fm2 fr2].
      destruct (mem_name f fr2); [exact Hr|].
      destruct (mrun fuel s d (CBetween m fm fm2) st) as [[st1 cs1]|] eqn:E; [|discriminate Hr].
      rewrite (IH _ _ _ E). apply (ff_loop_rle _ _ fm m IH), Hr.
    - rewrite mrun_bf in Hr |- *. destruct (name_eqb n1 n2); [exact Hr|].
      destruct (ps_contains (ms_compared st) n1 n2 m); [exact Hr|].
      destruct (known_fragment d n1) as [fa|]; [|exact Hr].
      destruct (known_fragment d n2) as [fb|]; [|exact Hr].
      destruct (get_referenced_fields_and_fragment_names s fa) as [fm1 fr1].
      destruct (get_referenced_fields_and_fragment_names s fb) as [fm2 fr2].
      apply (seq_calls_rle _ _ IH), Hr.
    - rewrite mrun_between in Hr |- *. apply (seq_calls_rle _ _ IH), Hr.
    - rewrite mrun_floop in Hr |- *.
      match type of Hr with
      | match ?x with _ => _ end = _ => destruct x as [[st1 cs]|] eqn:E; [|discriminate Hr]
      end.
      rewrite (seq_calls_rle _ _ IH _ _ _ E). exact Hr.
    - rewrite mrun_within in Hr |- *. apply (seq_calls_rle _ _ IH), Hr.
    - rewrite mrun_wss in Hr |- *.
      destruct (get_fields_and_fragment_names s parent sels) as [fm frs].
      destruct (mrun fuel s d (CWithin fm) st) as [[st0 cs0]|] eqn:E0; [|discriminate Hr].
      rewrite (IH _ _ _ E0).
      match type of Hr with
      | match ?x with _ => _ end = _ => destruct x as [[st1 cs1]|] eqn:E1; [|discriminate Hr]
      end.
      rewrite (seq_calls_rle _ _ IH _ _ _ E1). exact Hr.
  Qed.

  Lemma mrun_fuel_mono fuel fuel' c st r :
    fuel <= fuel' -> mrun fuel s d c st = Some r -> mrun fuel' s d c st = Some r.
  Proof.
    intro Hle. induction Hle as [|k Hle IH]; intro H; [exact H|]. apply mrun_S, IH, H.
  Qed.

  (* ---- the rule, with an arbitrary fuel F in place of [merge_fuel d] ---- *)
  Definition ofm_step_f (F : nat) (st : ofm_state) (e : event) (c : ctx) : ofm_state :=
    match e with
    | Enter (NSelectionSet _ sels) =>
        match mrun F s d (CWithinSelectionSet (current_parent_type c) sels)
                   (mkMS (ofm_compared st) [] []) with
        | Some (ms, cs) =>
            mkOfm (ms_compared ms)
                  (mkRes (r_errors (ofm_res st) ++
                          map (fun cf : conflict => err R_OverlappingFieldsCanBeMerged (fst cf ++ snd cf)) cs)
                         (r_oof (ofm_res st)))
        | None => mkOfm (ofm_compared st) (mkRes (r_errors (ofm_res st)) true)
        end
    | _ => st
    end.

  Lemma ofm_step_f_model st e c : ofm_step s d st e c = ofm_step_f (merge_fuel d) st e c.
  Proof. reflexivity. Qed.

  Lemma ofm_step_f_ok F st e c : merge_fuel' <= F ->
    (forall sp sels, e = Enter (NSelectionSet sp sels) -> sels_ok sels) ->
    psym (ofm_compared st) -> r_oof (ofm_res st) = false ->
    psym (ofm_compared (ofm_step_f F st e c)) /\ r_oof (ofm_res (ofm_step_f F st e c)) = false.
  Proof.
    intros HF He Hs Ho. destruct e as [n|n]; [destruct n|]; cbn [ofm_step_f]; try (split; assumption).
    match goal with
    | |- context [CWithinSelectionSet ?p ?l] =>
        destruct (top_total F p l (ofm_compared st) HF Hs (He _ _ eq_refl)) as (ms & cs & E & I)
    end.
    rewrite E. cbn [ofm_compared ofm_res r_oof]. split; assumption.
  Qed.

  Lemma ofm_fold_f_ok F tr : merge_fuel' <= F -> (forall ec, In ec tr -> In (fst ec) (lin_document d)) ->
    forall st, psym (ofm_compared st) -> r_oof (ofm_res st) = false ->
    r_oof (ofm_res (fold_left (hh (ofm_step_f F)) tr st)) = false.
  Proof.
    intro HF. induction tr as [|[e c] r IH]; intros Htr st Hs Ho; cbn [fold_left]; [exact Ho|].
    destruct (ofm_step_f_ok F st e c HF) as [Hs' Ho']; try assumption.
    { intros sp sels ->. apply (selset_ok sp). apply (Htr (_, c)). left. reflexivity. }
    apply IH; [intros ec Hec; apply Htr; right; exact Hec|exact Hs'|exact Ho'].
  Qed.

  (* out-of-fuel is sticky *)
  Lemma ofm_step_f_sticky F st e c : r_oof (ofm_res st) = true -> r_oof (ofm_res (ofm_step_f F st e c)) = true.
  Proof.
    intro H. destruct e as [n|n]; [destruct n|]; cbn [ofm_step_f]; try exact H.
    match goal with |- context [match ?x with _ => _ end] => destruct x as [[ms cs]|] end;
      cbn [ofm_res r_oof]; [exact H|reflexivity].
  Qed.

  Lemma ofm_fold_f_sticky F tr : forall st, r_oof (ofm_res st) = true ->
    r_oof (ofm_res (fold_left (hh (ofm_step_f F)) tr st)) = true.
  Proof.
    induction tr as [|[e c] r IH]; intros st H; cbn [fold_left]; [exact H|].
    apply IH. apply ofm_step_f_sticky, H.
  Qed.

  (* a walk that does not run out of fuel is unchanged by more fuel *)
  Lemma ofm_fold_f_agree F F' tr : F <= F' -> forall st,
    r_oof (ofm_res (fold_left (hh (ofm_step_f F)) tr st)) = false ->
    fold_left (hh (ofm_step_f F')) tr st = fold_left (hh (ofm_step_f F)) tr st.
  Proof.
    intro Hle. induction tr as [|[e c] r IH]; intros st H; cbn [fold_left] in *; [reflexivity|].
    assert (E : hh (ofm_step_f F') st (e, c) = hh (ofm_step_f F) st (e, c)).
    { unfold hh. cbn [fst snd]. destruct e as [n|n]; [destruct n|]; cbn [ofm_step_f]; try reflexivity.
      match goal with
      | |- context [mrun F s d ?cl ?st0] => destruct (mrun F s d cl st0) as [[ms cs]|] eqn:E
      end.
      - rewrite (mrun_fuel_mono F F' _ _ _ Hle E). reflexivity.
      - exfalso. rewrite ofm_fold_f_sticky in H; [discriminate H|].
        unfold hh. cbn [fst snd ofm_step_f]. rewrite E. reflexivity. }
    rewrite E. apply IH. exact H.
  Qed.

  Definition ofm_run_f (F : nat) (c : ctx) : rule_result :=
    ofm_res (snd (visit_document (ofm_step_f F) s d c (mkOfm [] (mkRes [] false)))).

  Lemma ofm_run_f_model c : snd (run_rule R_OverlappingFieldsCanBeMerged s d c) = ofm_run_f (merge_fuel d) c.
  Proof.
    unfold ofm_run_f. cbn [run_rule]. rewrite !visit_fold. cbn [snd]. reflexivity.
  Qed.

  Lemma ofm_run_f_no_oof F c : merge_fuel' <= F -> r_oof (ofm_run_f F c) = false.
  Proof.
    intro HF. unfold ofm_run_f. rewrite visit_fold. cbn [snd]. apply ofm_fold_f_ok.
    - exact HF.
    - intros ec Hec. rewrite <- (ctr_document_events s d c). apply in_map, Hec.
    - apply psym_nil.
    - reflexivity.
  Qed.

  Lemma ofm_run_f_agree F F' c : F <= F' -> r_oof (ofm_run_f F c) = false -> ofm_run_f F' c = ofm_run_f F c.
  Proof.
    intros Hle H. unfold ofm_run_f in *. rewrite !visit_fold in *. cbn [snd] in *.
    rewrite (ofm_fold_f_agree F F' _ Hle _ H). reflexivity.
  Qed.

  Lemma merge_no_oof c : merge_fuel' <= merge_fuel d ->
    r_oof (snd (run_rule R_OverlappingFieldsCanBeMerged s d c)) = false.
  Proof. intro H. rewrite ofm_run_f_model. apply ofm_run_f_no_oof, H. Qed.
End MergeFuel.

(* ================================================================== the theorems *)
(* every selection set of the document, any starting memo of compared fragment pairs (symmetric, as
   the rule keeps it), any fuel from merge_fuel' d on: the search returns *)
Theorem merge_fuel'_sufficient : forall s d fuel sp sels parent cmp,
  merge_fuel' d <= fuel -> In (Enter (NSelectionSet sp sels)) (lin_document d) -> psym cmp ->
  exists ms cs, mrun fuel s d (CWithinSelectionSet parent sels) (mkMS cmp [] []) = Some (ms, cs) /\
                psym (ms_compared ms).
Proof.
  intros s d fuel sp sels parent cmp Hf Hin Hs. apply top_total; [exact Hf|exact Hs|].
  apply (selset_ok d sp sels Hin).
Qed.

(* the general measure theorem (arbitrary call, arbitrary starting state) *)
Theorem mrun_never_out_of_fuel : forall s d fuel c st,
  cwf d c -> psym (ms_compared st) -> mu d c st <= fuel -> mrun fuel s d c st <> None.
Proof.
  intros s d fuel c st Hw Hs Hm. destruct (mrun_total s d fuel c st Hw Hs Hm) as (st' & cs & E & _).
  rewrite E. discriminate.
Qed.

Theorem merge_no_fuel_exhaustion_gen : forall s d c,
  merge_fuel' d <= merge_fuel d ->
  r_oof (snd (run_rule R_OverlappingFieldsCanBeMerged s d c)) = false.
Proof. intros s d c H. apply merge_no_oof, H. Qed.

Theorem validate_terminates_all_gen : forall s d plan, wf_schema s = true ->
  merge_fuel' d <= merge_fuel d -> exists es, validate s d plan = Ok es.
Proof.
  intros s d plan Hwf H. apply validate_terminates_partial; [exact Hwf|]. apply merge_no_oof, H.
Qed.

(* more fuel never changes a result of the search *)
Theorem mrun_more_fuel : forall s d fuel fuel' c st r,
  fuel <= fuel' -> mrun fuel s d c st = Some r -> mrun fuel' s d c st = Some r.
Proof. exact mrun_fuel_mono. Qed.

(* The rule with an arbitrary fuel F in place of [merge_fuel d] ([ofm_run_f s d F c]; for
   F = merge_fuel d it IS the rule of the model): with F >= merge_fuel' d it never runs out of fuel,
   and raising the fuel does not change the result of any walk that did not run out of fuel.  So
   replacing the constant of the model by any F d >= max (merge_fuel d) (merge_fuel' d) only turns
   OutOfFuel answers into results and changes nothing else. *)
Theorem ofm_rule_is_run_f : forall s d c,
  snd (run_rule R_OverlappingFieldsCanBeMerged s d c) = ofm_run_f s d (merge_fuel d) c.
Proof. exact ofm_run_f_model. Qed.

Theorem ofm_corrected_never_out_of_fuel : forall s d F c,
  merge_fuel' d <= F -> r_oof (ofm_run_f s d F c) = false.
Proof. exact ofm_run_f_no_oof. Qed.

Theorem ofm_corrected_conservative : forall s d F c,
  merge_fuel d <= F -> r_oof (snd (run_rule R_OverlappingFieldsCanBeMerged s d c)) = false ->
  ofm_run_f s d F c = snd (run_rule R_OverlappingFieldsCanBeMerged s d c).
Proof.
  intros s d F c Hle H. rewrite ofm_run_f_model in *. apply ofm_run_f_agree; assumption.
Qed.

Print Assumptions merge_fuel'_sufficient.
Print Assumptions mrun_never_out_of_fuel.
Print Assumptions merge_no_fuel_exhaustion_gen.
Print Assumptions validate_terminates_all_gen.
Print Assumptions mrun_more_fuel.
Print Assumptions ofm_corrected_never_out_of_fuel.
Print Assumptions ofm_corrected_conservative.

(* C03_proofs.v — validation terminates without panic: no rule other than the field-merging rule
   ever exhausts the fuel the model supplies (for EVERY schema, document and start context), the
   only panic is the missing query root, and a well-formed schema excludes it.
   Parts: (1) the rules built with [plain], (2) SingleFieldSubscriptions, (3) NoUnusedFragments,
   (4) NoFragmentsCycle (totality of [detect_cycles] without any distinctness hypothesis),
   (5) the spread names recorded by the collecting walks are spread names of the document,
   (6) NoUnusedVariables / NoUndefinedVariables, (7) VariablesInAllowedPosition (totality of
   [viap_walk]), (8) the theorems about [validate]. *)
From GT Require Import Visitor Validate.
From GTS Require Import SpecLin Annot WfSchema SpecRules SpecValid.
From GTP Require Import VisitorFacts TraceFacts RuleFacts PlanFacts.
From GTP Require C06_graph_proofs C07_graph_proofs C11_proofs C19_proofs.

Module G6 := C06_graph_proofs.
Module G7 := C07_graph_proofs.

(* ================================================================== generic: folds keeping oof false *)
Lemma fold_oof_false {E} (step : rule_result -> E -> rule_result) (l : list E) :
  (forall res e, In e l -> r_oof res = false -> r_oof (step res e) = false) ->
  forall res0, r_oof res0 = false -> r_oof (fold_left step l res0) = false.
Proof.
  induction l as [|e r IH]; intros Hstep res0 H0; cbn [fold_left]; [exact H0|].
  apply IH.
  - intros res e' He'. apply Hstep. right. exact He'.
  - apply Hstep; [left; reflexivity|exact H0].
Qed.

(* ================================================================== (2) SingleFieldSubscriptions *)
Lemma sfs_oof s d c : r_oof (snd (run_rule R_SingleFieldSubscriptions s d c)) = false.
Proof.
  cbn [run_rule]. rewrite visit_fold. cbn [snd].
  rewrite (C11_proofs.fold_operations (sfs_step s d) (C11_proofs.sfs_op s d) s d c (mkRes [] false)).
  - rewrite C11_proofs.sfs_fold. reflexivity.
  - intros st e c'. rewrite C11_proofs.sfs_step_pick. apply fold_left_ext_fn.
    intros a o. apply C11_proofs.sfs_step_op.
Qed.

(* ================================================================== (3) NoUnusedFragments *)
Lemma nuf_oof s d c : r_oof (snd (run_rule R_NoUnusedFragments s d c)) = false.
Proof.
  cbn [run_rule].
  rewrite (G6.visit_lin (nuf_step d) (G6.nuf_ev d)) by reflexivity.
  rewrite (G6.fold_document _ (G6.nuf_ev d) (G6.nuf_inert d)).
  change (G6.nuf_ev d (mkNuf None [] [] (mkRes [] false)) (Enter (NDocument d)))
    with (mkNuf None [] [] (mkRes [] false)).
  set (st := fold_left (G6.nuf_ev d) (flat_map G6.def_skeleton d) (mkNuf None [] [] (mkRes [] false))).
  assert (Hinv : G6.LogInv st (flat_map G6.def_log d)).
  { apply (G6.LogInv_defs d d _ []). constructor; reflexivity. }
  destruct Hinv as [Hops Hfr Hlen Hres].
  assert (Hfrags : forall n, al_get n (nuf_frags st) = G6.nonempty_opt (fragment_spreads d n)).
  { intro n. rewrite Hfr, G6.log_frags. reflexivity. }
  destruct (G6.nuf_reach_spec d (nuf_frags st) Hfrags (nuf_ops st) (S (S (total_spreads d))) (nuf_ops st) [])
    as [r [Hr _]].
  - rewrite <- G6.log_length, <- Hlen. unfold G6.wsum_of.
    assert (E : flat_map (fun kl : name * list name => if mem_name (fst kl) [] then [] else snd kl) (nuf_frags st)
                = flat_map snd (nuf_frags st)) by (apply flat_map_all_ext; intro kl; reflexivity).
    rewrite E. lia.
  - intros y [[]|Hy]. exists y. split; [exact Hy|apply G6.reach_refl].
  - intros y Hy. right. exact Hy.
  - intros a y [].
  - cbn [snd]. unfold G6.nuf_ev, nuf_step. rewrite Hr. cbn [nuf_res r_oof]. rewrite Hres. reflexivity.
Qed.

(* ================================================================== (4) NoFragmentsCycle *)
Section DcTotal.
  Variable d : document.

  Definition dc_tot (fuel : nat) : Prop :=
    forall frag paths index visited errs,
      G6.unvis d visited < fuel -> In frag (fragments_of d) ->
      exists v' e', detect_cycles fuel d frag paths index visited errs = Some (v', e') /\ incl visited v'.

  Lemma dc_loop_total fuel (IHf : dc_tot fuel) paths index1 : forall l visited errs,
    G6.unvis d visited < fuel ->
    exists v' e', G6.dc_loop (detect_cycles fuel d) d paths index1 l visited errs = Some (v', e') /\
                  incl visited v'.
  Proof.
    induction l as [|sp r IHl]; intros visited errs Hfuel; cbn [G6.dc_loop].
    - exists visited, errs. split; [reflexivity|apply incl_refl].
    - destruct (al_get (snd sp) index1) as [idx|].
      + apply IHl. exact Hfuel.
      + destruct (known_fragment d (snd sp)) as [def|] eqn:Ek.
        * destruct (G6.known_fragment_Some _ _ _ Ek) as [Hdef _].
          destruct (IHf def (paths ++ [sp]) index1 visited errs Hfuel Hdef) as [v1 [e1 [E1 Hincl1]]].
          rewrite E1.
          destruct (IHl v1 e1) as [v2 [e2 [E2 Hincl2]]].
          { pose proof (G6.unvis_mono d _ _ Hincl1). lia. }
          exists v2, e2. split; [exact E2|]. eapply incl_tran; eassumption.
        * apply IHl. exact Hfuel.
  Qed.

  Lemma dc_total : forall fuel, dc_tot fuel.
  Proof.
    induction fuel as [|fuel IHf]; intros frag paths index visited errs Hfuel Hfrag; [lia|].
    rewrite G6.detect_cycles_S.
    destruct (mem_name (fr_name frag) visited) eqn:Em.
    - exists visited, errs. split; [reflexivity|apply incl_refl].
    - apply G6.mem_name_nIn in Em.
      destruct (is_nil (get_recursive_fragment_spreads (fr_sels frag))).
      + exists (visited ++ [fr_name frag]), errs. split; [reflexivity|apply incl_appl, incl_refl].
      + assert (Hdefd : In (fr_name frag) (frag_names d)) by (apply in_map; exact Hfrag).
        destruct (dc_loop_total fuel IHf paths (al_set (fr_name frag) (List.length paths) index)
                                (get_recursive_fragment_spreads (fr_sels frag))
                                (visited ++ [fr_name frag]) errs) as [v' [e' [E Hincl]]].
        { pose proof (G6.unvis_dec d visited (fr_name frag) Hdefd Em). lia. }
        exists v', e'. split; [exact E|].
        eapply incl_tran; [apply incl_appl, incl_refl|exact Hincl].
  Qed.
End DcTotal.

Lemma nfc_frags_oof d fs : forall st,
  incl fs (fragments_of d) -> r_oof (nfc_res st) = false ->
  r_oof (nfc_res (fold_left (fun st f => G6.nfc_ev d st (Enter (NFragmentDef f))) fs st)) = false.
Proof.
  induction fs as [|f r IH]; intros st Hincl H0; cbn [fold_left]; [exact H0|].
  apply IH; [intros g Hg; apply Hincl; right; exact Hg|].
  unfold G6.nfc_ev, nfc_step.
  destruct (dc_total d (nfc_fuel d) f [] [] (nfc_visited st) (r_errors (nfc_res st))) as [v' [e' [E _]]].
  - unfold nfc_fuel. pose proof (G6.unvis_bound d (nfc_visited st)). lia.
  - apply Hincl. left. reflexivity.
  - rewrite E. cbn [nfc_res r_oof]. exact H0.
Qed.

Lemma nfc_oof s d c : r_oof (snd (run_rule R_NoFragmentsCycle s d c)) = false.
Proof.
  cbn [run_rule].
  rewrite (G6.visit_lin (nfc_step d) (G6.nfc_ev d)) by reflexivity. cbn [snd].
  rewrite (G6.fold_document _ (G6.nfc_ev d) (G6.nfc_inert d)).
  change (G6.nfc_ev d (mkNfc [] (mkRes [] false)) (Enter (NDocument d))) with (mkNfc [] (mkRes [] false)).
  rewrite G6.nfc_fold_defs.
  set (st' := fold_left _ (fragments_of d) _).
  change (nfc_res (G6.nfc_ev d st' (Leave (NDocument d)))) with (nfc_res st').
  apply nfc_frags_oof; [apply incl_refl|reflexivity].
Qed.

(* ================================================================== (5) recorded spread names *)
(* the name carried by a fragment-spread callback *)
Definition ev_spread (e : event) : list name :=
  match e with Enter (NSpread (SSpread _ n _)) => [n] | _ => [] end.

Definition doc_spread_names (d : document) : list name := flat_map ev_spread (lin_document d).

Lemma ev_spread_sp_events ts : flat_map ev_spread (map G6.sp_event ts) = map G6.sp_name ts.
Proof. induction ts as [|t r IH]; cbn [map flat_map]; [reflexivity|]. rewrite IH. reflexivity. Qed.

Lemma ev_spread_skeleton x : flat_map ev_spread (G6.def_skeleton x) = map snd (G6.def_log x).
Proof.
  destruct x as [o|f]; unfold G6.def_skeleton, G6.def_log; cbn [flat_map ev_spread app];
    rewrite flat_map_app, ev_spread_sp_events, map_map; cbn [flat_map ev_spread app snd];
    rewrite app_nil_r; reflexivity.
Qed.

Lemma doc_spread_names_length d : List.length (doc_spread_names d) = total_spreads d.
Proof.
  unfold doc_spread_names.
  pose proof (G6.fold_document (list name) (fun acc e => acc ++ ev_spread e)) as H.
  assert (Hin : forall (st : list name) e, G6.inert e = true -> st ++ ev_spread e = st).
  { intros st e He. destruct e as [n|n]; [destruct n; try discriminate He|]; cbn [ev_spread]; apply app_nil_r. }
  specialize (H Hin d []). rewrite !fold_append_flat_map in H. cbn [ev_spread app] in H.
  rewrite app_nil_r in H. rewrite H.
  rewrite <- G6.log_length. rewrite <- (map_length snd (flat_map G6.def_log d)).
  f_equal. clear H. induction d as [|x r IH]; cbn [flat_map]; [reflexivity|].
  rewrite flat_map_app, map_app, ev_spread_skeleton. f_equal. exact IH.
Qed.

(* all names stored in a scope-indexed table *)
Definition tnames (m : list (scope * list name)) : list name := flat_map snd m.

Lemma tget_tnames sc m sp : In sp (G7.tget sc m) -> In sp (tnames m).
Proof.
  unfold G7.tget. destruct (as_get scope_eqb sc m) as [l|] eqn:E; [|intros []].
  intro H. apply (G7.as_get_In scope_eqb G7.scope_eqb_eq) in E.
  unfold tnames. apply in_flat_map. exists (sc, l). split; [exact E|exact H].
Qed.

Lemma tnames_as_set sc v m n : In n (tnames (as_set scope_eqb sc v m)) -> In n v \/ In n (tnames m).
Proof.
  unfold tnames. induction m as [|[k l] r IH]; cbn [as_set flat_map snd].
  - rewrite app_nil_r. intro H. left. exact H.
  - destruct (scope_eqb sc k); cbn [flat_map snd]; rewrite !in_app_iff.
    + intros [H|H]; [left; exact H|right; right; exact H].
    + intros [H|H]; [right; left; exact H|]. destruct (IH H) as [H'|H']; [left; exact H'|right; right; exact H'].
Qed.

Lemma tnames_as_get sc m l n : as_get scope_eqb sc m = Some l -> In n l -> In n (tnames m).
Proof.
  intros E H. apply (G7.as_get_In scope_eqb G7.scope_eqb_eq) in E.
  unfold tnames. apply in_flat_map. exists (sc, l). split; [exact E|exact H].
Qed.

Lemma tnames_snoc m sc l n : In n (tnames (m ++ [(sc, l)])) -> In n l \/ In n (tnames m).
Proof.
  unfold tnames. rewrite flat_map_app, in_app_iff. cbn [flat_map snd]. rewrite app_nil_r. tauto.
Qed.

Lemma tnames_as_push sc x m n : In n (tnames (as_push scope_eqb sc x m)) -> n = x \/ In n (tnames m).
Proof.
  unfold as_push. destruct (as_get scope_eqb sc m) as [l|] eqn:E; intro H.
  - apply tnames_as_set in H. destruct H as [H|H]; [|right; exact H].
    apply in_app_or in H. destruct H as [H|[H|[]]]; [right; eapply tnames_as_get; eassumption|left; symmetry; exact H].
  - apply tnames_snoc in H. destruct H as [[H|[]]|H]; [left; symmetry; exact H|right; exact H].
Qed.

(* ================================================================== (6) NoUnusedVariables / NoUndefinedVariables *)
Lemma vars_collect_spreads st e n :
  In n (tnames (vs_spreads (vars_collect st e))) -> In n (tnames (vs_spreads st)) \/ In n (ev_spread e).
Proof.
  destruct e as [nd|nd]; [|intro H; left; exact H].
  destruct nd; cbn [vars_collect ev_spread]; try (intro H; left; exact H).
  - (* NVarDef *)
    destruct (vs_scope st) as [[oi on|fn]|]; try (intro H; left; exact H).
    destruct (as_get opkey_eqb (oi, on) (vs_defined st)); intro H; left; exact H.
  - (* NArgument *)
    destruct (vs_scope st); intro H; left; exact H.
  - (* NSpread *)
    destruct f as [p al fnm args dirs sp sels|p sn dirs|p tc dirs sp sels]; try (intro H; left; exact H).
    destruct (vs_scope st) as [sc|]; [|intro H; left; exact H].
    cbn [vs_spreads]. intro H. apply tnames_as_push in H.
    destruct H as [H|H]; [right; left; symmetry; exact H|left; exact H].
Qed.

Lemma cfold_spreads evs : forall st n,
  In n (tnames (vs_spreads (fold_left vars_collect evs st))) ->
  In n (tnames (vs_spreads st)) \/ In n (flat_map ev_spread evs).
Proof.
  induction evs as [|e r IH]; intros st n H; cbn [fold_left flat_map] in *; [left; exact H|].
  destruct (IH _ _ H) as [H1|H1].
  - destruct (vars_collect_spreads st e n H1) as [H2|H2]; [left; exact H2|].
    right. apply in_or_app. left. exact H2.
  - right. apply in_or_app. right. exact H1.
Qed.

Lemma vars_state_succs d :
  forall sc sp, In sp (G7.succs (G7.cfold (lin_document d) vars_init) sc) -> In sp (doc_spread_names d).
Proof.
  intros sc sp H. unfold G7.succs in H. apply tget_tnames in H. unfold G7.cfold in H.
  apply cfold_spreads in H. destruct H as [[]|H]. exact H.
Qed.

Lemma vars_walk_some d pick oi on :
  exists acc vis,
    vars_walk (vars_fuel d) (G7.cfold (lin_document d) vars_init) pick (ScOp oi on) [] [] = Some (acc, vis).
Proof.
  destruct (G7.walk_top (G7.cfold (lin_document d) vars_init) pick (doc_spread_names d) (vars_state_succs d)
                        (ScOp oi on) (vars_fuel d) I) as (acc & vis & E & _).
  - rewrite doc_spread_names_length. unfold vars_fuel. lia.
  - exists acc, vis. exact E.
Qed.

Lemma vars_visit s d c :
  visit_document (fun st e (_ : ctx) => vars_collect st e) s d c vars_init
  = (c, G7.cfold (lin_document d) vars_init).
Proof. rewrite visit_fold, G7.collect_fold. reflexivity. Qed.

Lemma nuv_oof s d c : r_oof (snd (run_rule R_NoUnusedVariables s d c)) = false.
Proof.
  cbn [run_rule]. rewrite vars_visit. cbn [snd]. unfold nuv_finish.
  apply fold_oof_false; [|reflexivity]. intros res entry _ H0.
  destruct (vars_walk_some d (fun v => mem_name v (snd entry)) (fst (fst entry)) (snd (fst entry))) as (acc & vis & E).
  rewrite E. cbn [r_oof]. exact H0.
Qed.

Lemma nudv_oof s d c : r_oof (snd (run_rule R_NoUndefinedVariables s d c)) = false.
Proof.
  cbn [run_rule]. rewrite vars_visit. cbn [snd]. unfold nudv_finish.
  apply fold_oof_false; [|reflexivity]. intros res entry _ H0.
  destruct (vars_walk_some d (fun v => negb (mem_name v (snd entry))) (fst (fst entry)) (snd (fst entry))) as (acc & vis & E).
  rewrite E. cbn [r_oof]. exact H0.
Qed.

(* ================================================================== (7) VariablesInAllowedPosition *)
Lemma viap_collect_spreads s st e c n :
  In n (tnames (vp_spreads (viap_collect s st e c))) -> In n (tnames (vp_spreads st)) \/ In n (ev_spread e).
Proof.
  destruct e as [nd|nd]; destruct nd; cbn [viap_collect ev_spread]; try (intro H; left; exact H).
  - (* NVarDef *)
    destruct (vp_scope st); intro H; left; exact H.
  - (* NSpread *)
    destruct f as [p al fnm args dirs sp sels|p sn dirs|p tc dirs sp sels]; try (intro H; left; exact H).
    destruct (vp_scope st) as [sc|]; [|intro H; left; exact H].
    cbn [vp_spreads]. destruct (as_get scope_eqb sc (vp_spreads st)) as [l|] eqn:E; intro H.
    + apply tnames_as_set in H. destruct H as [H|H]; [|left; exact H].
      apply G7.set_add_In in H. destruct H as [H|H]; [right; left; symmetry; exact H|].
      left. eapply tnames_as_get; eassumption.
    + apply tnames_snoc in H. destruct H as [[H|[]]|H]; [right; left; exact H|left; exact H].
  - (* NVariable *)
    destruct (vp_scope st); [destruct (current_input_type_literal c)|]; intro H; left; exact H.
Qed.

Lemma viap_fold_spreads s tr : forall st n,
  In n (tnames (vp_spreads (fold_left (hh (viap_collect s)) tr st))) ->
  In n (tnames (vp_spreads st)) \/ In n (flat_map ev_spread (map fst tr)).
Proof.
  induction tr as [|[e c] r IH]; intros st n H; cbn [fold_left map flat_map fst] in *; [left; exact H|].
  destruct (IH _ _ H) as [H1|H1].
  - unfold hh in H1. cbn [fst snd] in H1.
    destruct (viap_collect_spreads s st e c n H1) as [H2|H2]; [left; exact H2|].
    right. apply in_or_app. left. exact H2.
  - right. apply in_or_app. right. exact H1.
Qed.

Section ViapWalk.
  Variables (s : sdocument) (st : viap_state) (vds : list vardef) (U : list name).

  Definition vsuccs (sc : scope) : list name :=
    match as_get scope_eqb sc (vp_spreads st) with Some l => l | None => [] end.
  Hypothesis HU : forall sc sp, In sp (vsuccs sc) -> In sp U.

  Definition vloop (fuel : nat)
    : list name -> list verror -> list scope -> option (list verror * list scope) :=
    fix loop (l : list name) (errs : list verror) (visited : list scope) :=
      match l with
      | [] => Some (errs, visited)
      | sp :: r =>
          match viap_walk fuel s st vds (ScFrag sp) errs visited with
          | Some (e', v') => loop r e' v'
          | None => None
          end
      end.

  Lemma viap_walk_S fuel from errs vis :
    viap_walk (S fuel) s st vds from errs vis =
    if existsb (scope_eqb from) vis then Some (errs, vis)
    else vloop fuel (vsuccs from)
               (errs ++ usage_errors s vds
                          (match as_get scope_eqb from (vp_usages st) with Some l => l | None => [] end))
               (vis ++ [from]).
  Proof. reflexivity. Qed.

  Definition vfuel_ok (fuel : nat) (from : scope) (vis : list scope) : Prop :=
    G7.measure U vis + (match from with ScOp _ _ => 1 | ScFrag _ => 0 end) < fuel.

  Definition VOK (fuel : nat) : Prop :=
    forall from errs vis,
      (match from with ScFrag sp => In sp U | ScOp _ _ => True end) -> vfuel_ok fuel from vis ->
      exists e' v', viap_walk fuel s st vds from errs vis = Some (e', v') /\ incl vis v'.

  Lemma vloop_total fuel (IHf : VOK fuel) : forall l errs vis,
    (forall sp, In sp l -> In sp U) -> G7.measure U vis < fuel ->
    exists e' v', vloop fuel l errs vis = Some (e', v') /\ incl vis v'.
  Proof.
    induction l as [|sp r IH]; intros errs vis Hl Hm; cbn [vloop].
    - exists errs, vis. split; [reflexivity|apply incl_refl].
    - destruct (IHf (ScFrag sp) errs vis (Hl sp (or_introl eq_refl))) as (e1 & v1 & E1 & I1).
      { unfold vfuel_ok. lia. }
      rewrite E1. fold (vloop fuel).
      destruct (IH e1 v1) as (e2 & v2 & E2 & I2).
      { intros sp' Hsp'. apply Hl. right. exact Hsp'. }
      { pose proof (G7.measure_mono U vis v1 I1). lia. }
      exists e2, v2. split; [exact E2|]. eapply incl_tran; eassumption.
  Qed.

  Lemma viap_walk_total : forall fuel, VOK fuel.
  Proof.
    induction fuel as [|fuel IHf]; intros from errs vis HinU Hfuel.
    - unfold vfuel_ok in Hfuel. lia.
    - rewrite viap_walk_S. destruct (existsb (scope_eqb from) vis) eqn:E.
      + exists errs, vis. split; [reflexivity|apply incl_refl].
      + assert (Hnot : ~ In from vis).
        { intro H. apply G7.existsb_scope_In in H. congruence. }
        destruct (vloop_total fuel IHf (vsuccs from)
                    (errs ++ usage_errors s vds
                               (match as_get scope_eqb from (vp_usages st) with Some l => l | None => [] end))
                    (vis ++ [from])) as (e' & v' & E' & I').
        { intros sp Hsp. eapply HU. exact Hsp. }
        { unfold vfuel_ok in Hfuel. destruct from as [oi n|sp].
          - pose proof (G7.measure_mono U vis (vis ++ [ScOp oi n]) (incl_appl _ (incl_refl _))). lia.
          - pose proof (G7.measure_lt U vis sp HinU Hnot). lia. }
        exists e', v'. split; [exact E'|].
        intros x Hx. apply I', in_or_app. left. exact Hx.
  Qed.
End ViapWalk.

(* the walk from any scope, with the fuel the model supplies *)
Lemma viap_walk_some s d st vds root errs :
  (forall sp, In sp (tnames (vp_spreads st)) -> In sp (doc_spread_names d)) ->
  exists e' v', viap_walk (vars_fuel d) s st vds root errs [] = Some (e', v').
Proof.
  intro Hst.
  set (U := match root with ScFrag sp => sp :: doc_spread_names d | ScOp _ _ => doc_spread_names d end).
  assert (HU : forall sc sp, In sp (vsuccs st sc) -> In sp U).
  { intros sc sp H. assert (H' : In sp (doc_spread_names d)).
    { apply Hst. apply (tget_tnames sc). exact H. }
    unfold U. destruct root; [exact H'|right; exact H']. }
  destruct (viap_walk_total s st vds U HU (vars_fuel d) root errs []) as (e' & v' & E & _).
  - unfold U. destruct root; [exact I|left; reflexivity].
  - unfold vfuel_ok, G7.measure, vars_fuel.
    pose proof (G7.filter_len_all (fun sp => negb (existsb (scope_eqb (ScFrag sp)) [])) U) as Hle.
    assert (HlenU : List.length U <= S (total_spreads d)).
    { unfold U. rewrite <- doc_spread_names_length. destruct root; cbn [List.length]; lia. }
    destruct root; lia.
  - exists e', v'. exact E.
Qed.

Lemma viap_oof s d c : r_oof (snd (run_rule R_VariablesInAllowedPosition s d c)) = false.
Proof.
  cbn [run_rule]. rewrite visit_fold. cbn [snd]. unfold viap_finish.
  set (st := fold_left (hh (viap_collect s)) (ctr_document s d c) viap_init).
  assert (Hst : forall sp, In sp (tnames (vp_spreads st)) -> In sp (doc_spread_names d)).
  { intros sp H. unfold st in H. apply viap_fold_spreads in H. destruct H as [[]|H].
    rewrite ctr_document_events in H. exact H. }
  apply fold_oof_false; [|reflexivity]. intros res entry _ H0.
  destruct (viap_walk_some s d st (snd entry) (fst entry) (r_errors res) Hst) as (e' & v' & E).
  rewrite E. cbn [r_oof]. exact H0.
Qed.

(* ================================================================== (8) the theorems *)
Lemma no_fuel_exhaustion : forall r s d c,
  r <> R_OverlappingFieldsCanBeMerged -> r_oof (snd (run_rule r s d c)) = false.
Proof.
  intros r s d c Hr.
  destruct r; try (cbn [run_rule]; rewrite visit_fold; reflexivity).
  - apply sfs_oof.
  - apply nuf_oof.
  - exfalso. apply Hr. reflexivity.
  - apply nfc_oof.
  - apply nuv_oof.
  - apply nudv_oof.
  - apply viap_oof.
Qed.

Lemma query_type_root s : query_entry_ok s = true -> query_type s = root s OpQuery.
Proof.
  unfold query_type, root, root_name, schema_definition, query_entry_ok.
  destruct (find_schema_def s) as [sd|]; cbn [opt_bind].
  - destruct (sd_query sd); [reflexivity|discriminate].
  - reflexivity.
Qed.

Lemma wf_definition_no_panic s x : wf_schema s = true -> definition_panics s x = false.
Proof.
  intro Hwf. destruct x as [o|f]; [|reflexivity]. cbn [definition_panics]. unfold root_type_name.
  pose proof (query_type_root s (wf_query_entry_ok s Hwf)) as Hq.
  pose proof (wf_query_root s Hwf) as Hr.
  destruct (o_kind o); try reflexivity; rewrite Hq; destruct (root s OpQuery); (reflexivity || discriminate Hr).
Qed.

Lemma wf_no_panic : forall s d, wf_schema s = true -> document_panics s d = false.
Proof.
  intros s d Hwf. unfold document_panics. induction d as [|x r IH]; cbn [existsb]; [reflexivity|].
  rewrite (wf_definition_no_panic s x Hwf), IH. reflexivity.
Qed.

Lemma existsb_all_false {A} (f : A -> bool) (l : list A) :
  (forall x, In x l -> f x = false) -> existsb f l = false.
Proof.
  induction l as [|x r IH]; intro H; cbn [existsb]; [reflexivity|].
  rewrite (H x (or_introl eq_refl)), IH; [reflexivity|]. intros y Hy. apply H. right. exact Hy.
Qed.

Lemma validate_panic_exact : forall s d plan,
  validate s d plan = Panic <-> plan <> [] /\ document_panics s d = true.
Proof.
  intros s d plan. rewrite validate_eq. destruct plan as [|r0 plan']; cbn [is_nil].
  - split; [discriminate|]. intros [H _]. exfalso. apply H. reflexivity.
  - destruct (document_panics s d).
    + split; [intros _; split; [discriminate|reflexivity]|reflexivity].
    + destruct (existsb _ (r0 :: plan')); (split; [discriminate|intros [_ H]; discriminate H]).
Qed.

Lemma validate_terminates : forall s d plan, wf_schema s = true ->
  ~ In R_OverlappingFieldsCanBeMerged plan -> exists es, validate s d plan = Ok es.
Proof.
  intros s d plan Hwf Hnot. rewrite validate_eq. destruct (is_nil plan); [eexists; reflexivity|].
  rewrite (wf_no_panic s d Hwf).
  rewrite existsb_all_false; [eexists; reflexivity|].
  intros r Hr. apply no_fuel_exhaustion. intro E. apply Hnot. rewrite <- E. exact Hr.
Qed.

Lemma validate_terminates_partial : forall s d plan, wf_schema s = true ->
  r_oof (snd (run_rule R_OverlappingFieldsCanBeMerged s d ctx0)) = false ->
  exists es, validate s d plan = Ok es.
Proof.
  intros s d plan Hwf Hm. rewrite validate_eq. destruct (is_nil plan); [eexists; reflexivity|].
  rewrite (wf_no_panic s d Hwf).
  rewrite existsb_all_false; [eexists; reflexivity|].
  intros r _. destruct r; try (apply no_fuel_exhaustion; discriminate). exact Hm.
Qed.

Print Assumptions no_fuel_exhaustion.
Print Assumptions validate_terminates.
Print Assumptions validate_terminates_partial.
Print Assumptions validate_panic_exact.
Print Assumptions wf_no_panic.

(* C06_proofs.v — the fragment rules that are decided callback by callback (UniqueFragmentNames,
   KnownFragmentNames, KnownTypeNames, FragmentsOnCompositeTypes, PossibleFragmentSpreads) fire
   exactly when the specification predicate of SpecRules.v holds. *)
From GT Require Import Visitor Validate.
From GTS Require Import SpecLin Annot WfSchema SpecCollect SpecRules SpecValid.
From GTP Require Import VisitorFacts TraceFacts RuleFacts.

(* ====================================================================== generic list facts *)
Section ListFacts.
  Lemma flat_map_flat_map {A B C} (f : B -> list C) (g : A -> list B) (l : list A) :
    flat_map f (flat_map g l) = flat_map (fun x => flat_map f (g x)) l.
  Proof.
    induction l as [|x r IH]; cbn [flat_map]; [reflexivity|].
    rewrite flat_map_app, IH. reflexivity.
  Qed.

  Lemma flat_map_nil_fn {A B} (f : A -> list B) (l : list A) :
    (forall x, f x = []) -> flat_map f l = [].
  Proof.
    intro H. induction l as [|x r IH]; cbn [flat_map]; [reflexivity|].
    rewrite H, IH. reflexivity.
  Qed.

  Lemma flat_map_nil_Forall {A B} (f : A -> list B) (l : list A) :
    Forall (fun x => f x = []) l -> flat_map f l = [].
  Proof.
    induction 1 as [|x r Hx Hr IH]; cbn [flat_map]; [reflexivity|].
    rewrite Hx, IH. reflexivity.
  Qed.

  Lemma flat_map_singleton {A} (l : list A) : flat_map (fun x => [x]) l = l.
  Proof. induction l as [|x r IH]; cbn; [reflexivity|]. rewrite IH. reflexivity. Qed.

  Lemma flat_map_nonempty_ex {A B} (f : A -> list B) (l : list A) :
    flat_map f l <> [] <-> exists x, In x l /\ f x <> [].
  Proof.
    induction l as [|x r IH]; cbn [flat_map In].
    - split; [congruence|]. intros [x [[] _]].
    - split.
      + intro H. destruct (f x) eqn:E.
        * cbn [app] in H. apply IH in H. destruct H as [y [Hy Hfy]]. exists y. split; [right; exact Hy|exact Hfy].
        * exists x. split; [left; reflexivity|]. rewrite E. discriminate.
      + intros [y [[Hy|Hy] Hfy]] Hnil; apply app_eq_nil in Hnil; destruct Hnil as [H1 H2].
        * subst y. exact (Hfy H1).
        * apply IH in H2; [exact H2|]. exists y. split; assumption.
  Qed.

  Lemma fold_left_flat_map {A B S} (k : S -> B -> S) (g : A -> list B) (h : S -> A -> S) :
    (forall st a, h st a = fold_left k (g a) st) ->
    forall l st, fold_left h l st = fold_left k (flat_map g l) st.
  Proof.
    intros H l. induction l as [|a r IH]; intro st; cbn [fold_left flat_map]; [reflexivity|].
    rewrite fold_left_app, <- H. apply IH.
  Qed.

  Lemma fold_left_map {A B S} (k : S -> B -> S) (f : A -> B) (l : list A) (st : S) :
    fold_left (fun st a => k st (f a)) l st = fold_left k (map f l) st.
  Proof. revert st. induction l as [|a r IH]; intro st; cbn; [reflexivity|]. apply IH. Qed.

  Lemma existsb_Forall_ext {A} (P : A -> Prop) (f g : A -> bool) (l : list A) :
    Forall P l -> (forall x, P x -> f x = g x) -> existsb f l = existsb g l.
  Proof.
    intros HP H. induction HP as [|x r Hx Hr IH]; cbn [existsb]; [reflexivity|].
    rewrite (H x Hx), IH. reflexivity.
  Qed.

  Lemma name_eqb_eq a b : name_eqb a b = true <-> a = b.
  Proof. apply String.eqb_eq. Qed.
  Lemma name_eqb_sym a b : name_eqb a b = name_eqb b a.
  Proof. apply String.eqb_sym. Qed.
  Lemma name_eqb_refl a : name_eqb a a = true.
  Proof. apply String.eqb_refl. Qed.

  Lemma mem_name_In n l : mem_name n l = true <-> In n l.
  Proof.
    unfold mem_name. rewrite existsb_exists. split.
    - intros [x [Hx E]]. apply name_eqb_eq in E. subst x. exact Hx.
    - intro H. exists n. split; [exact H|apply name_eqb_refl].
  Qed.

  Lemma find_first_app {A} (p : A -> bool) (a b : list A) :
    find_first p (a ++ b) = match find_first p a with Some y => Some y | None => find_first p b end.
  Proof.
    induction a as [|x r IH]; cbn [app find_first]; [reflexivity|].
    destruct (p x); [reflexivity|exact IH].
  Qed.
End ListFacts.

(* ====================================================================== events of lin_document
   (to be deduplicated with EventFacts.v)
   Any extraction [g] of data from the Enter events of operations, fragment definitions, variable
   definitions and selections, mapped over the linearisation of a document, is the structural
   enumeration of these nodes in document order. *)
Definition sel_node (x : selection) : node :=
  match x with
  | SField _ _ _ _ _ _ _ => NField x
  | SSpread _ _ _ => NSpread x
  | SInline _ _ _ _ _ => NInline x
  end.

Definition inert (n : node) : bool :=
  match n with
  | NOperation _ | NFragmentDef _ | NVarDef _ | NField _ | NSpread _ | NInline _ => false
  | _ => true
  end.

Section StructEvents.
  Variable X : Type.
  Variable g : event -> list X.
  Hypothesis g_leave : forall n, g (Leave n) = [].
  Hypothesis g_inert : forall n, inert n = true -> g (Enter n) = [].

  Ltac sev_norm :=
    repeat (progress (cbn [flat_map app]; rewrite ?flat_map_app, ?flat_map_flat_map, ?g_leave, ?app_nil_r));
    repeat match goal with
           | |- context [g (Enter ?n)] => rewrite (g_inert n) by reflexivity
           end; cbn [app].

  Lemma sev_value v : flat_map g (lin_value v) = [].
  Proof.
    induction v as [n|z|b|str|b| |n|l IH|l IH] using value_ind'; cbn [lin_value]; sev_norm; try reflexivity.
    - apply flat_map_nil_Forall. exact IH.
    - apply flat_map_nil_Forall. eapply Forall_impl; [|exact IH].
      intros kv Hkv. cbv beta. sev_norm. exact Hkv.
  Qed.

  Lemma sev_argument a : flat_map g (lin_argument a) = [].
  Proof. unfold lin_argument. sev_norm. apply sev_value. Qed.

  Lemma sev_directive x : flat_map g (lin_directive x) = [].
  Proof. unfold lin_directive. sev_norm. apply flat_map_nil_fn. exact sev_argument. Qed.

  Lemma sev_arguments l : flat_map (fun a => flat_map g (lin_argument a)) l = [].
  Proof. apply flat_map_nil_fn. exact sev_argument. Qed.
  Lemma sev_directives l : flat_map (fun x => flat_map g (lin_directive x)) l = [].
  Proof. apply flat_map_nil_fn. exact sev_directive. Qed.

  Lemma sev_vardef v : flat_map g (lin_vardef v) = g (Enter (NVarDef v)).
  Proof.
    unfold lin_vardef. cbn [flat_map]. rewrite flat_map_app. cbn [flat_map]. rewrite g_leave.
    destruct (v_default v) as [dv|]; [rewrite sev_value|]; cbn [flat_map app]; rewrite app_nil_r; reflexivity.
  Qed.

  Definition sev_sel (y : selection) : list X := g (Enter (sel_node y)).

  Lemma sev_selection x : flat_map g (lin_selection x) = flat_map sev_sel (sel_all x).
  Proof.
    induction x as [p al n args dirs sp sels IH|p n dirs|p tc dirs sp sels IH] using selection_ind'.
    - cbn [lin_selection sel_all]. sev_norm. rewrite sev_arguments, sev_directives. cbn [app].
      unfold sev_sel at 1. cbn [sel_node]. f_equal.
      apply flat_map_Forall_ext. exact IH.
    - cbn [lin_selection sel_all]. sev_norm. rewrite sev_directives, app_nil_r. reflexivity.
    - cbn [lin_selection sel_all]. sev_norm. rewrite sev_directives. cbn [app].
      unfold sev_sel at 1. cbn [sel_node]. f_equal.
      apply flat_map_Forall_ext. exact IH.
  Qed.

  Definition sev_sels (l : list selection) : list X := flat_map sev_sel (sels_all l).

  Lemma sev_selection_set sp l : flat_map g (lin_selection_set sp l) = sev_sels l.
  Proof.
    unfold lin_selection_set, sev_sels, sels_all. sev_norm.
    apply flat_map_all_ext. exact sev_selection.
  Qed.

  Definition sev_def (x : definition) : list X :=
    match x with
    | DOp o => g (Enter (NOperation o)) ++
               flat_map (fun v => g (Enter (NVarDef v))) (op_variable_definitions o) ++ sev_sels (o_sels o)
    | DFrag f => g (Enter (NFragmentDef f)) ++ sev_sels (fr_sels f)
    end.

  Lemma sev_definition x : flat_map g (lin_definition x) = sev_def x.
  Proof.
    destruct x as [o|f]; unfold lin_definition, sev_def.
    - cbn [flat_map]. rewrite !flat_map_app, !flat_map_flat_map, sev_directives, sev_selection_set.
      cbn [flat_map app]. rewrite g_leave, app_nil_r. f_equal. f_equal.
      apply flat_map_all_ext. exact sev_vardef.
    - cbn [flat_map]. rewrite !flat_map_app, !flat_map_flat_map, sev_directives, sev_selection_set.
      cbn [flat_map app]. rewrite g_leave, app_nil_r. reflexivity.
  Qed.

  Lemma sev_document d : flat_map g (lin_document d) = flat_map sev_def d.
  Proof.
    unfold lin_document. cbn [flat_map]. rewrite flat_map_app, flat_map_flat_map. cbn [flat_map].
    rewrite g_leave, g_inert by reflexivity. cbn [app]. rewrite app_nil_r.
    apply flat_map_all_ext. exact sev_definition.
  Qed.
End StructEvents.
Arguments sev_sel {X} g y.
Arguments sev_sels {X} g l.
Arguments sev_def {X} g x.

(* ---- the three enumerations ---- *)
Definition ev_frag (e : event) : list fragment_def :=
  match e with Enter (NFragmentDef f) => [f] | _ => [] end.
Definition ev_vardef (e : event) : list vardef :=
  match e with Enter (NVarDef v) => [v] | _ => [] end.
Definition ev_sel (e : event) : list selection :=
  match e with
  | Enter (NField (SField _ _ _ _ _ _ _ as x)) => [x]
  | Enter (NSpread (SSpread _ _ _ as x)) => [x]
  | Enter (NInline (SInline _ _ _ _ _ as x)) => [x]
  | _ => []
  end.

Lemma lin_fragments d : flat_map ev_frag (lin_document d) = fragments_of d.
Proof.
  rewrite sev_document; [|reflexivity|intros [] Hn; try reflexivity; discriminate Hn].
  unfold fragments_of. apply flat_map_all_ext. intros [o|f]; unfold sev_def, sev_sels.
  - cbn [ev_frag app]. rewrite !flat_map_nil_fn; [reflexivity| |reflexivity].
    intro y. unfold sev_sel. destruct y; reflexivity.
  - cbn [ev_frag app]. rewrite flat_map_nil_fn; [reflexivity|].
    intro y. unfold sev_sel. destruct y; reflexivity.
Qed.

Lemma lin_vardefs d :
  flat_map ev_vardef (lin_document d) = flat_map op_variable_definitions (operations_of d).
Proof.
  rewrite sev_document; [|reflexivity|intros [] Hn; try reflexivity; discriminate Hn].
  unfold operations_of. rewrite flat_map_flat_map. apply flat_map_all_ext. intros [o|f]; unfold sev_def, sev_sels.
  - cbn [ev_vardef app flat_map]. rewrite app_nil_r.
    rewrite (flat_map_nil_fn (sev_sel ev_vardef)), app_nil_r.
    + apply flat_map_singleton.
    + intro y. unfold sev_sel. destruct y; reflexivity.
  - cbn [ev_vardef app flat_map]. apply flat_map_nil_fn.
    intro y. unfold sev_sel. destruct y; reflexivity.
Qed.

Lemma lin_selections d : flat_map ev_sel (lin_document d) = doc_selections d.
Proof.
  rewrite sev_document; [|reflexivity|intros [] Hn; try reflexivity; discriminate Hn].
  unfold doc_selections. apply flat_map_all_ext.
  assert (Hs : forall l, sev_sels ev_sel l = sels_all l).
  { intro l. unfold sev_sels. rewrite <- (flat_map_singleton (sels_all l)) at 2.
    apply flat_map_all_ext. intro y. unfold sev_sel. destruct y; reflexivity. }
  intros [o|f]; unfold sev_def; rewrite Hs; cbn [ev_sel app def_sels].
  - rewrite flat_map_nil_fn; reflexivity.
  - reflexivity.
Qed.

Lemma in_lin_fragment d f : In (Enter (NFragmentDef f)) (lin_document d) <-> In f (fragments_of d).
Proof.
  rewrite <- lin_fragments, in_flat_map. split.
  - intro H. exists (Enter (NFragmentDef f)). split; [exact H|left; reflexivity].
  - intros [e [He Hf]]. destruct e as [[]|]; cbn [ev_frag In] in Hf; try contradiction.
    destruct Hf as [<-|[]]. exact He.
Qed.

Lemma in_lin_vardef d v :
  In (Enter (NVarDef v)) (lin_document d) <-> In v (flat_map op_variable_definitions (operations_of d)).
Proof.
  rewrite <- lin_vardefs, in_flat_map. split.
  - intro H. exists (Enter (NVarDef v)). split; [exact H|left; reflexivity].
  - intros [e [He Hf]]. destruct e as [[]|]; cbn [ev_vardef In] in Hf; try contradiction.
    destruct Hf as [<-|[]]. exact He.
Qed.

Lemma in_lin_selection d x : In (Enter (sel_node x)) (lin_document d) <-> In x (doc_selections d).
Proof.
  rewrite <- lin_selections, in_flat_map. split.
  - intro H. exists (Enter (sel_node x)). split; [exact H|]. destruct x; left; reflexivity.
  - intros [e [He Hf]].
    assert (E : e = Enter (sel_node x)).
    { destruct e as [[]|]; cbn [ev_sel In] in Hf; try contradiction;
        match type of Hf with In _ (match ?y with _ => _ end) => destruct y end;
        cbn [In] in Hf; try contradiction; destruct Hf as [<-|[]]; reflexivity. }
    subst e. exact He.
Qed.

(* ====================================================================== running event-only rules *)
Lemma flat_map_map {A B C} (f : B -> list C) (g : A -> B) (l : list A) :
  flat_map f (map g l) = flat_map (fun x => f (g x)) l.
Proof. induction l as [|x r IH]; cbn; [reflexivity|]. rewrite IH. reflexivity. Qed.

Lemma fold_events {St} (h : St -> event -> ctx -> St) (h' : St -> event -> St) s d c st :
  (forall st e c, h st e c = h' st e) ->
  fold_left (hh h) (ctr_document s d c) st = fold_left h' (lin_document d) st.
Proof.
  intro H. rewrite <- (ctr_document_events s d c), <- fold_left_map.
  apply fold_left_ext_fn. intros a [e c']. unfold hh. cbn [fst snd]. apply H.
Qed.

Lemma stateless_events h (f : event -> list verror) s d :
  (forall st e c, h st e c = st ++ f e) ->
  snd (visit_document h s d ctx0 []) = flat_map f (lin_document d).
Proof.
  intro H. rewrite (@stateless_run h (fun e _ => f e) s d ctx0 H). cbn [snd].
  rewrite <- (ctr_document_events s d ctx0), flat_map_map. reflexivity.
Qed.

Lemma existsb_orb {A} (f g : A -> bool) l :
  existsb (fun x => f x || g x) l = existsb f l || existsb g l.
Proof.
  induction l as [|x r IH]; cbn [existsb]; [reflexivity|]. rewrite IH.
  destruct (f x), (g x), (existsb f r), (existsb g r); reflexivity.
Qed.

Lemma existsb_ext_fn {A} (f g : A -> bool) l : (forall x, f x = g x) -> existsb f l = existsb g l.
Proof. intro H. induction l as [|x r IH]; cbn [existsb]; [reflexivity|]. rewrite H, IH. reflexivity. Qed.

(* ====================================================================== UniqueFragmentNames *)
Definition has_big (m : list (name * nat)) : bool := existsb (fun kv => Nat.ltb 1 (snd kv)) m.

Lemma counts_finish_nonempty r m : counts_finish r m <> [] <-> has_big m = true.
Proof.
  unfold counts_finish. rewrite flat_map_nonempty_existsb. unfold has_big.
  erewrite existsb_ext_fn; [reflexivity|].
  intro kv. cbv beta. destruct (Nat.ltb 1 (snd kv)); reflexivity.
Qed.

Lemma al_get_app_single {V} k (m : list (name * V)) x v :
  al_get k (m ++ [(x, v)]) =
  match al_get k m with Some w => Some w | None => if name_eqb k x then Some v else None end.
Proof.
  induction m as [|[k' v'] r IH]; cbn [app al_get]; [reflexivity|].
  destruct (name_eqb k k'); [reflexivity|exact IH].
Qed.

Lemma al_has_app_single {V} k (m : list (name * V)) x v :
  al_has k (m ++ [(x, v)]) = al_has k m || name_eqb k x.
Proof.
  unfold al_has. rewrite al_get_app_single.
  destruct (al_get k m); cbn; [reflexivity|]. destruct (name_eqb k x); reflexivity.
Qed.

Lemma has_big_set x w m :
  al_has x m = true -> Nat.ltb 1 w = true -> has_big (al_set x w m) = true.
Proof.
  intros Hx Hw. induction m as [|[k' v'] r IH]; [discriminate Hx|].
  unfold al_has in Hx. cbn [al_get] in Hx. cbn [al_set].
  destruct (name_eqb x k'); unfold has_big; cbn [existsb snd].
  - rewrite Hw. reflexivity.
  - fold (has_big (al_set x w r)). rewrite (IH Hx). apply orb_true_r.
Qed.

Lemma al_get_pos x v (m : list (name * nat)) :
  Forall (fun kv => 1 <= snd kv) m -> al_get x m = Some v -> 1 <= v.
Proof.
  induction 1 as [|[k' v'] r Hk Hr IH]; cbn [al_get]; [discriminate|].
  destruct (name_eqb x k'); [|exact IH]. intro E. injection E as <-. exact Hk.
Qed.

Lemma al_set_pos x w (m : list (name * nat)) :
  1 <= w -> Forall (fun kv => 1 <= snd kv) m -> Forall (fun kv => 1 <= snd kv) (al_set x w m).
Proof.
  intro Hw. induction 1 as [|[k' v'] r Hk Hr IH]; cbn [al_set].
  - constructor; [exact Hw|constructor].
  - destruct (name_eqb x k'); constructor; assumption.
Qed.

Lemma count_fold l : forall m, Forall (fun kv => 1 <= snd kv) m ->
  has_big (fold_left (fun st n => count_incr n st) l m) =
  has_big m || existsb (fun x => al_has x m) l || negb (nodup_names l).
Proof.
  induction l as [|x r IH]; intros m Hm; cbn [fold_left existsb nodup_names].
  - cbn. rewrite !orb_false_r. reflexivity.
  - unfold count_incr at 2. destruct (al_get x m) as [v|] eqn:E.
    + assert (Hv : 1 <= v) by (eapply al_get_pos; eassumption).
      assert (Hx : al_has x m = true) by (unfold al_has; rewrite E; reflexivity).
      rewrite IH by (apply al_set_pos; [lia|exact Hm]).
      rewrite has_big_set; [|exact Hx|apply Nat.ltb_lt; lia].
      rewrite Hx. cbn [orb]. rewrite orb_true_r. reflexivity.
    + assert (Hx : al_has x m = false) by (unfold al_has; rewrite E; reflexivity).
      rewrite IH.
      2:{ apply Forall_app. split; [exact Hm|]. constructor; [cbn; lia|constructor]. }
      rewrite Hx. cbn [orb].
      replace (has_big (m ++ [(x, 1)])) with (has_big m).
      2:{ unfold has_big. rewrite existsb_app. cbn. rewrite !orb_false_r. reflexivity. }
      rewrite (existsb_ext_fn (fun y => al_has y (m ++ [(x, 1)])) (fun y => al_has y m || name_eqb x y)).
      2:{ intro y. rewrite al_has_app_single, (name_eqb_sym y x). reflexivity. }
      rewrite existsb_orb. fold (mem_name x r).
      destruct (has_big m), (existsb (fun y => al_has y m) r), (mem_name x r), (nodup_names r); reflexivity.
Qed.

Lemma unique_fragment_names_iff : forall s d,
  (run_alone R_UniqueFragmentNames s d <> [] <-> violated R_UniqueFragmentNames s d = true).
Proof.
  intros s d. unfold run_alone. cbn [run_rule violated].
  rewrite visit_fold. cbn [snd plain r_errors].
  rewrite counts_finish_nonempty.
  rewrite (fold_events ufn_step (fun st e => ufn_step st e ctx0)) by (intros st [[]|] c; reflexivity).
  rewrite (fold_left_flat_map (fun st n => count_incr n st) (fun e => map fr_name (ev_frag e))).
  2:{ intros st [[]|]; reflexivity. }
  rewrite <- map_flat_map, lin_fragments.
  rewrite count_fold by constructor.
  unfold v_unique_fragment_names, frag_names. cbn [has_big existsb orb].
  replace (existsb (fun x => al_has x []) (map fr_name (fragments_of d))) with false; [reflexivity|].
  symmetry. induction (map fr_name (fragments_of d)) as [|x r IH]; cbn; [reflexivity|exact IH].
Qed.

(* ====================================================================== shared by the stateless rules *)
Lemma run_plain (p : ctx * list verror) :
  r_errors (snd (let '(c', st) := p in (c', plain st))) = snd p.
Proof. destruct p; reflexivity. Qed.

Lemma sels_all_defs d : sels_all (flat_map def_sels d) = doc_selections d.
Proof. unfold sels_all, doc_selections. apply flat_map_flat_map. Qed.

Lemma variable_types_map d :
  variable_types d = map v_type (flat_map op_variable_definitions (operations_of d)).
Proof. unfold variable_types. rewrite map_flat_map. reflexivity. Qed.

(* ====================================================================== KnownFragmentNames *)
Definition kfn_f (d : document) (e : event) : list verror :=
  match e with
  | Enter (NSpread (SSpread p n _)) =>
      if is_none (known_fragment d n) then [err R_KnownFragmentNames [p]] else []
  | _ => []
  end.

Lemma kfn_stateless d st e c : kfn_step d st e c = st ++ kfn_f d e.
Proof.
  destruct e as [[]|]; try (cbn [kfn_step kfn_f]; rewrite app_nil_r; reflexivity).
  destruct f; cbn [kfn_step kfn_f]; try (rewrite app_nil_r; reflexivity).
  destruct (is_none (known_fragment d n)); [reflexivity|rewrite app_nil_r; reflexivity].
Qed.

Lemma known_fragment_none d n : is_none (known_fragment d n) = negb (mem_name n (frag_names d)).
Proof.
  induction d as [|[o|f] r IH]; [reflexivity|exact IH|].
  change (frag_names (DFrag f :: r)) with (fr_name f :: frag_names r).
  cbn [known_fragment mem_name existsb]. fold (mem_name n (frag_names r)).
  destruct (known_fragment r n) as [g|]; cbn [is_none] in IH |- *.
  - destruct (mem_name n (frag_names r)); [|discriminate IH]. rewrite orb_true_r. reflexivity.
  - destruct (mem_name n (frag_names r)); [discriminate IH|].
    destruct (name_eqb n (fr_name f)); reflexivity.
Qed.

Lemma known_fragment_names_iff : forall s d,
  (run_alone R_KnownFragmentNames s d <> [] <-> violated R_KnownFragmentNames s d = true).
Proof.
  intros s d. unfold run_alone. cbn [run_rule violated]. rewrite run_plain.
  rewrite (stateless_events (kfn_step d) (kfn_f d)) by apply kfn_stateless.
  rewrite flat_map_nonempty_ex. unfold v_known_fragment_names, spreads_in.
  rewrite existsb_exists, sels_all_defs. split.
  - intros [e [He Hf]].
    destruct e as [[]|]; try (exfalso; apply Hf; reflexivity).
    destruct f as [| p n dirs |]; try (exfalso; apply Hf; reflexivity).
    cbn [kfn_f] in Hf. destruct (is_none (known_fragment d n)) eqn:E; [|exfalso; apply Hf; reflexivity].
    exists n. split.
    + apply in_flat_map. exists (SSpread p n dirs). split; [|left; reflexivity].
      apply in_lin_selection. exact He.
    + rewrite <- known_fragment_none. exact E.
  - intros [n [Hn Hk]]. apply in_flat_map in Hn. destruct Hn as [x [Hx Hn]].
    destruct x as [| p n' dirs |]; cbn [In] in Hn; try contradiction.
    destruct Hn as [<-|[]].
    exists (Enter (NSpread (SSpread p n' dirs))). split.
    + apply (in_lin_selection d (SSpread p n' dirs)). exact Hx.
    + cbn [kfn_f]. rewrite known_fragment_none, Hk. discriminate.
Qed.

(* ====================================================================== KnownTypeNames *)
Definition ktn_f (s : sdocument) (e : event) : list verror :=
  match e with
  | Enter (NFragmentDef f) => if unknown_type s (fr_tc f) then [err R_KnownTypeNames [fr_pos f]] else []
  | Enter (NInline (SInline p (Some tc) _ _ _)) => if unknown_type s tc then [err R_KnownTypeNames [p]] else []
  | Enter (NVarDef v) =>
      if unknown_type s (inner_type (v_type v)) then [err R_KnownTypeNames [v_pos v]] else []
  | _ => []
  end.

Lemma ktn_stateless s st e c : ktn_step s st e c = st ++ ktn_f s e.
Proof.
  destruct e as [[]|]; try (cbn [ktn_step ktn_f]; rewrite app_nil_r; reflexivity).
  - cbn [ktn_step ktn_f]. destruct (unknown_type s (fr_tc f)); [reflexivity|rewrite app_nil_r; reflexivity].
  - cbn [ktn_step ktn_f]. destruct (unknown_type s (inner_type (v_type v))); [reflexivity|rewrite app_nil_r; reflexivity].
  - destruct f as [| |p [tc|] dirs sp sels]; cbn [ktn_step ktn_f]; try (rewrite app_nil_r; reflexivity).
    destruct (unknown_type s tc); [reflexivity|rewrite app_nil_r; reflexivity].
Qed.

Lemma unknown_type_spec s n : unknown_type s n = negb (type_exists s n).
Proof.
  unfold unknown_type, type_exists.
  change (is_introspection_type_name n) with (mem_name n introspection_type_names).
  destruct (type_by_name s n); cbn [is_none is_some andb orb]; reflexivity.
Qed.

Lemma known_type_names_iff : forall s d,
  (run_alone R_KnownTypeNames s d <> [] <-> violated R_KnownTypeNames s d = true).
Proof.
  intros s d. unfold run_alone. cbn [run_rule violated]. rewrite run_plain.
  rewrite (stateless_events (ktn_step s) (ktn_f s)) by apply ktn_stateless.
  rewrite flat_map_nonempty_ex. unfold v_known_type_names.
  rewrite existsb_exists. split.
  - intros [e [He Hf]].
    destruct e as [[]|]; try (exfalso; apply Hf; reflexivity).
    + (* fragment definition *)
      cbn [ktn_f] in Hf. destruct (unknown_type s (fr_tc f)) eqn:E; [|exfalso; apply Hf; reflexivity].
      exists (fr_tc f). split; [|rewrite <- unknown_type_spec; exact E].
      apply in_or_app. left. unfold type_conditions. apply in_or_app. left.
      apply in_map. apply in_lin_fragment. exact He.
    + (* variable definition *)
      cbn [ktn_f] in Hf. destruct (unknown_type s (inner_type (v_type v))) eqn:E; [|exfalso; apply Hf; reflexivity].
      exists (inner_type (v_type v)). split; [|rewrite <- unknown_type_spec; exact E].
      apply in_or_app. right. rewrite variable_types_map. apply in_map. apply in_map.
      apply in_lin_vardef. exact He.
    + (* inline fragment *)
      destruct f as [| |p [tc|] dirs sp sels]; try (exfalso; apply Hf; reflexivity).
      cbn [ktn_f] in Hf. destruct (unknown_type s tc) eqn:E; [|exfalso; apply Hf; reflexivity].
      exists tc. split; [|rewrite <- unknown_type_spec; exact E].
      apply in_or_app. left. unfold type_conditions. apply in_or_app. right.
      apply in_flat_map. exists (SInline p (Some tc) dirs sp sels). split; [|left; reflexivity].
      apply in_lin_selection. exact He.
  - intros [n [Hn Hk]]. rewrite <- unknown_type_spec in Hk.
    apply in_app_or in Hn. destruct Hn as [Hn|Hn].
    + unfold type_conditions in Hn. apply in_app_or in Hn. destruct Hn as [Hn|Hn].
      * apply in_map_iff in Hn. destruct Hn as [f [<- Hf]].
        exists (Enter (NFragmentDef f)). split; [apply in_lin_fragment; exact Hf|].
        cbn [ktn_f]. rewrite Hk. discriminate.
      * apply in_flat_map in Hn. destruct Hn as [x [Hx Hn]].
        destruct x as [| |p [tc|] dirs sp sels]; cbn [In] in Hn; try contradiction.
        destruct Hn as [<-|[]].
        exists (Enter (NInline (SInline p (Some tc) dirs sp sels))). split.
        -- apply (in_lin_selection d (SInline p (Some tc) dirs sp sels)). exact Hx.
        -- cbn [ktn_f]. rewrite Hk. discriminate.
    + rewrite variable_types_map in Hn. apply in_map_iff in Hn. destruct Hn as [t [<- Ht]].
      apply in_map_iff in Ht. destruct Ht as [v [<- Hv]].
      exists (Enter (NVarDef v)). split; [apply in_lin_vardef; exact Hv|].
      cbn [ktn_f]. rewrite Hk. discriminate.
Qed.

(* ====================================================================== FragmentsOnCompositeTypes *)
Definition foc_f (s : sdocument) (e : event) : list verror :=
  match e with
  | Enter (NInline (SInline p (Some tc) _ _ _)) =>
      if non_composite s tc then [err R_FragmentsOnCompositeTypes [p]] else []
  | Enter (NFragmentDef f) =>
      if non_composite s (fr_tc f) then [err R_FragmentsOnCompositeTypes [fr_pos f]] else []
  | _ => []
  end.

Lemma foc_stateless s st e c : foc_step s st e c = st ++ foc_f s e.
Proof.
  destruct e as [[]|]; try (cbn [foc_step foc_f]; rewrite app_nil_r; reflexivity).
  - cbn [foc_step foc_f]. destruct (non_composite s (fr_tc f)); [reflexivity|rewrite app_nil_r; reflexivity].
  - destruct f as [| |p [tc|] dirs sp sels]; cbn [foc_step foc_f]; try (rewrite app_nil_r; reflexivity).
    destruct (non_composite s tc); [reflexivity|rewrite app_nil_r; reflexivity].
Qed.

Lemma fragments_on_composite_iff : forall s d,
  (run_alone R_FragmentsOnCompositeTypes s d <> [] <-> violated R_FragmentsOnCompositeTypes s d = true).
Proof.
  intros s d. unfold run_alone. cbn [run_rule violated]. rewrite run_plain.
  rewrite (stateless_events (foc_step s) (foc_f s)) by apply foc_stateless.
  rewrite flat_map_nonempty_ex. unfold v_fragments_on_composite.
  fold (non_composite s). change (fun n : name => non_composite s n) with (non_composite s).
  rewrite existsb_exists. split.
  - intros [e [He Hf]].
    destruct e as [[]|]; try (exfalso; apply Hf; reflexivity).
    + cbn [foc_f] in Hf. destruct (non_composite s (fr_tc f)) eqn:E; [|exfalso; apply Hf; reflexivity].
      exists (fr_tc f). split; [|exact E].
      unfold type_conditions. apply in_or_app. left.
      apply in_map. apply in_lin_fragment. exact He.
    + destruct f as [| |p [tc|] dirs sp sels]; try (exfalso; apply Hf; reflexivity).
      cbn [foc_f] in Hf. destruct (non_composite s tc) eqn:E; [|exfalso; apply Hf; reflexivity].
      exists tc. split; [|exact E].
      unfold type_conditions. apply in_or_app. right.
      apply in_flat_map. exists (SInline p (Some tc) dirs sp sels). split; [|left; reflexivity].
      apply in_lin_selection. exact He.
  - intros [n [Hn Hk]].
    unfold type_conditions in Hn. apply in_app_or in Hn. destruct Hn as [Hn|Hn].
    + apply in_map_iff in Hn. destruct Hn as [f [<- Hf]].
      exists (Enter (NFragmentDef f)). split; [apply in_lin_fragment; exact Hf|].
      cbn [foc_f]. rewrite Hk. discriminate.
    + apply in_flat_map in Hn. destruct Hn as [x [Hx Hn]].
      destruct x as [| |p [tc|] dirs sp sels]; cbn [In] in Hn; try contradiction.
      destruct Hn as [<-|[]].
      exists (Enter (NInline (SInline p (Some tc) dirs sp sels))). split.
      * apply (in_lin_selection d (SInline p (Some tc) dirs sp sels)). exact Hx.
      * cbn [foc_f]. rewrite Hk. discriminate.
Qed.

(* ====================================================================== PossibleFragmentSpreads *)
(* ---- schema look-ups as look-ups in the list of type definitions ---- *)
Lemma type_defs_cons_type t r : type_defs (SDType t :: r) = t :: type_defs r.
Proof. reflexivity. Qed.

Lemma type_by_name_find s n :
  type_by_name s n = find_first (fun t => name_eqb (td_name t) n) (type_defs s).
Proof.
  induction s as [|x r IH]; [reflexivity|].
  destruct x as [sd|t|dd|ext]; cbn [type_by_name]; try exact IH.
  rewrite type_defs_cons_type. cbn [find_first]. rewrite IH. reflexivity.
Qed.

Lemma find_first_some {A} (p : A -> bool) l x : find_first p l = Some x -> In x l /\ p x = true.
Proof.
  induction l as [|y r IH]; cbn [find_first]; [discriminate|].
  destruct (p y) eqn:E.
  - intro H. injection H as <-. split; [left; reflexivity|exact E].
  - intro H. destruct (IH H) as [H1 H2]. split; [right; exact H1|exact H2].
Qed.

Lemma type_by_name_some s n t : type_by_name s n = Some t -> td_name t = n /\ In t (type_defs s).
Proof.
  rewrite type_by_name_find. intro H. apply find_first_some in H. destruct H as [H1 H2].
  apply name_eqb_eq in H2. split; assumption.
Qed.

Lemma nodup_key_inj {A} (f : A -> name) (l : list A) :
  nodup_names (map f l) = true -> forall a b, In a l -> In b l -> f a = f b -> a = b.
Proof.
  induction l as [|x r IH]; cbn [map nodup_names]; intros H a b Ha Hb E; [destruct Ha|].
  apply andb_prop in H. destruct H as [Hx Hr].
  assert (Hnot : forall c, In c r -> f c <> f x).
  { intros c Hc Ec. apply negb_true_iff in Hx.
    assert (Hm : mem_name (f x) (map f r) = true).
    { apply mem_name_In. rewrite <- Ec. apply in_map. exact Hc. }
    rewrite Hm in Hx. discriminate Hx. }
  destruct Ha as [<-|Ha], Hb as [<-|Hb].
  - reflexivity.
  - exfalso. apply (Hnot b Hb). symmetry. exact E.
  - exfalso. apply (Hnot a Ha). exact E.
  - apply (IH Hr a b Ha Hb E).
Qed.

Lemma find_first_key {A} (f : A -> name) (l : list A) x :
  nodup_names (map f l) = true -> In x l ->
  find_first (fun t => name_eqb (f t) (f x)) l = Some x.
Proof.
  intros Hu Hx. induction l as [|y r IH]; [destruct Hx|].
  cbn [find_first]. destruct (name_eqb (f y) (f x)) eqn:E.
  - apply name_eqb_eq in E. f_equal.
    apply (nodup_key_inj f (y :: r) Hu); [left; reflexivity|exact Hx|exact E].
  - destruct Hx as [->|Hx]; [rewrite name_eqb_refl in E; discriminate E|].
    cbn [map nodup_names] in Hu. apply andb_prop in Hu. apply IH; [apply Hu|exact Hx].
Qed.

Definition uniq_types (s : sdocument) : Prop := nodup_names (map td_name (type_defs s)) = true.

Lemma type_by_name_in s t : uniq_types s -> In t (type_defs s) -> type_by_name s (td_name t) = Some t.
Proof. intros Hu Ht. rewrite type_by_name_find. apply find_first_key; assumption. Qed.

Lemma type_defs_inj s a b :
  uniq_types s -> In a (type_defs s) -> In b (type_defs s) -> td_name a = td_name b -> a = b.
Proof. intro Hu. apply (nodup_key_inj td_name (type_defs s) Hu). Qed.

(* ---- type_map_values lists the type definitions ---- *)
Lemma type_map_get_some s n t : type_map_get s n = Some t -> td_name t = n /\ In t (type_defs s).
Proof.
  revert t. induction s as [|x r IH]; intro t; cbn [type_map_get]; [discriminate|].
  destruct x as [sd|t0|dd|ext]; try exact (IH t).
  rewrite type_defs_cons_type. destruct (type_map_get r n) as [u|].
  - intro H. injection H as <-. destruct (IH u eq_refl) as [H1 H2]. split; [exact H1|right; exact H2].
  - destruct (name_eqb (td_name t0) n) eqn:E; [|discriminate].
    intro H. injection H as <-. apply name_eqb_eq in E. split; [exact E|left; reflexivity].
Qed.

Lemma type_map_get_by_name s n : uniq_types s -> type_map_get s n = type_by_name s n.
Proof.
  unfold uniq_types. induction s as [|x r IH]; intro Hu; [reflexivity|].
  destruct x as [sd|t0|dd|ext]; cbn [type_map_get type_by_name]; try exact (IH Hu).
  rewrite type_defs_cons_type in Hu. cbn [map nodup_names] in Hu.
  apply andb_prop in Hu. destruct Hu as [H0 Hr]. rewrite (IH Hr).
  destruct (name_eqb (td_name t0) n) eqn:E.
  - destruct (type_by_name r n) as [u|] eqn:Eu; [|reflexivity].
    exfalso. apply type_by_name_some in Eu. destruct Eu as [E1 E2].
    apply name_eqb_eq in E. apply negb_true_iff in H0.
    assert (Hm : mem_name (td_name t0) (map td_name (type_defs r)) = true).
    { apply mem_name_In. rewrite E, <- E1. apply in_map. exact E2. }
    rewrite Hm in H0. discriminate H0.
  - destruct (type_by_name r n); reflexivity.
Qed.

Lemma dedup_names_In n l : In n (dedup_names l) <-> In n l.
Proof.
  induction l as [|x r IH]; cbn [dedup_names]; [reflexivity|].
  destruct (mem_name x r) eqn:E; cbn [In]; rewrite IH.
  - split; [intro H; right; exact H|]. intros [<-|H]; [apply mem_name_In; exact E|exact H].
  - reflexivity.
Qed.

Lemma type_map_values_In s t : uniq_types s -> (In t (type_map_values s) <-> In t (type_defs s)).
Proof.
  intro Hu. unfold type_map_values. rewrite in_flat_map. split.
  - intros [n [_ Hn]]. destruct (type_map_get s n) as [u|] eqn:E; [|destruct Hn].
    destruct Hn as [<-|[]]. apply type_map_get_some in E. apply E.
  - intro Ht. exists (td_name t). split.
    + unfold type_map_keys. apply -> in_rev. apply dedup_names_In. apply -> in_rev.
      apply in_map. exact Ht.
    + rewrite (type_map_get_by_name s (td_name t) Hu), (type_by_name_in s t Hu Ht). left. reflexivity.
Qed.

(* ---- the common reading of both overlap tests: a shared possible object type ---- *)
Definition rel (t o : type_def) : bool :=
  match t with
  | TDObject n _ _ => name_eqb n (td_name o)
  | TDInterface n _ _ => mem_name n (td_interfaces o)
  | TDUnion _ types => mem_name (td_name o) types
  | _ => false
  end.

Definition common (s : sdocument) (t1 t2 : type_def) : Prop :=
  exists o, In o (type_defs s) /\ td_is_object o = true /\ rel t1 o = true /\ rel t2 o = true.

Lemma filter_nonempty {A} (f : A -> bool) l :
  negb (Nat.eqb (List.length (filter f l)) 0) = existsb f l.
Proof.
  induction l as [|x r IH]; cbn [filter existsb]; [reflexivity|].
  destruct (f x); [reflexivity|exact IH].
Qed.

Section Overlap.
  Variable s : sdocument.
  Hypothesis Hu : uniq_types s.

  Lemma possible_object_names_spec t m :
    In t (type_defs s) -> td_is_composite t = true ->
    (In m (possible_object_names s t) <->
     exists o, In o (type_defs s) /\ td_is_object o = true /\ rel t o = true /\ td_name o = m).
  Proof.
    intros Ht Hc. destruct t as [n ifs fs|n ifs fs|n types|n|n vs|n fs]; try discriminate Hc;
      cbn [possible_object_names rel].
    - (* object *)
      cbn [In]. split.
      + intros [<-|[]]. exists (TDObject n ifs fs). repeat split; [exact Ht|apply name_eqb_refl].
      + intros [o [_ [_ [Hr <-]]]]. left. apply name_eqb_eq. exact Hr.
    - (* interface *)
      rewrite in_flat_map. split.
      + intros [o [Ho Hm]]. destruct o as [m' ifs' fs'| | | | |]; try (exfalso; exact Hm).
        destruct (mem_name n ifs') eqn:E; [|destruct Hm]. destruct Hm as [<-|[]].
        exists (TDObject m' ifs' fs'). repeat split; [exact Ho|exact E].
      + intros [o [Ho [Hobj [Hr <-]]]]. exists o. split; [exact Ho|].
        destruct o as [m' ifs' fs'| | | | |]; try discriminate Hobj.
        cbn [td_interfaces] in Hr. rewrite Hr. left. reflexivity.
    - (* union *)
      rewrite in_flat_map. split.
      + intros [mm [Hmm Hm]]. destruct (type_by_name s mm) as [o|] eqn:E; [|destruct Hm].
        destruct o as [m' ifs' fs'| | | | |]; try (exfalso; exact Hm). destruct Hm as [<-|[]].
        apply type_by_name_some in E. destruct E as [E1 E2]. cbn [td_name] in E1. subst mm.
        exists (TDObject m' ifs' fs'). repeat split; [exact E2|].
        cbn [td_name]. apply mem_name_In. exact Hmm.
      + intros [o [Ho [Hobj [Hr <-]]]]. exists (td_name o). split; [apply mem_name_In; exact Hr|].
        rewrite (type_by_name_in s o Hu Ho).
        destruct o as [m' ifs' fs'| | | | |]; try discriminate Hobj. left. reflexivity.
  Qed.

  Lemma types_can_overlap_spec t1 t2 :
    In t1 (type_defs s) -> In t2 (type_defs s) ->
    td_is_composite t1 = true -> td_is_composite t2 = true ->
    (types_can_overlap s t1 t2 = true <-> td_name t1 = td_name t2 \/ common s t1 t2).
  Proof.
    intros H1 H2 C1 C2. unfold types_can_overlap.
    rewrite orb_true_iff, name_eqb_eq, existsb_exists.
    apply or_iff_compat_l. split.
    - intros [m [Hm1 Hm2]]. apply mem_name_In in Hm2.
      apply (possible_object_names_spec t1 m H1 C1) in Hm1.
      apply (possible_object_names_spec t2 m H2 C2) in Hm2.
      destruct Hm1 as [o1 [Ho1 [Hobj1 [Hr1 Hn1]]]]. destruct Hm2 as [o2 [Ho2 [Hobj2 [Hr2 Hn2]]]].
      assert (E : o1 = o2) by (apply (type_defs_inj s o1 o2 Hu Ho1 Ho2); congruence).
      subst o2. exists o1. repeat split; assumption.
    - intros [o [Ho [Hobj [Hr1 Hr2]]]]. exists (td_name o). split.
      + apply (possible_object_names_spec t1 _ H1 C1). exists o. repeat split; assumption.
      + apply mem_name_In. apply (possible_object_names_spec t2 _ H2 C2). exists o. repeat split; assumption.
  Qed.

  Lemma possible_types_spec t p :
    td_is_abstract t = true ->
    (In p (possible_types s t) <-> In p (type_defs s) /\ td_is_object p = true /\ rel t p = true).
  Proof.
    intro Ha. destruct t as [n ifs fs|n ifs fs|n types|n|n vs|n fs]; try discriminate Ha;
      cbn [possible_types rel].
    - rewrite filter_In, (type_map_values_In s p Hu), andb_true_iff.
      change (iface_is_implemented_by n p) with (mem_name n (td_interfaces p)). reflexivity.
    - rewrite in_flat_map. split.
      + intros [mm [Hmm Hp]]. destruct (type_by_name s mm) as [o|] eqn:E; [|destruct Hp].
        destruct o as [m' ifs' fs'| | | | |]; try (exfalso; exact Hp). destruct Hp as [<-|[]].
        apply type_by_name_some in E. destruct E as [E1 E2]. cbn [td_name] in E1. subst mm.
        repeat split; [exact E2|]. cbn [td_name]. apply mem_name_In. exact Hmm.
      + intros [Hp [Hobj Hr]]. exists (td_name p). split; [apply mem_name_In; exact Hr|].
        rewrite (type_by_name_in s p Hu Hp).
        destruct p as [m' ifs' fs'| | | | |]; try discriminate Hobj. left. reflexivity.
  Qed.

  Lemma concrete_sub_rel t p : td_is_abstract t = true -> td_has_concrete_sub_type t p = rel t p.
  Proof. destruct t; try discriminate; intros _; reflexivity. Qed.
  Lemma sub_type_rel t p : td_is_abstract t = true -> td_has_sub_type t p = rel t p.
  Proof. destruct t; try discriminate; intros _; reflexivity. Qed.

  Lemma rel_object_self t : td_is_object t = true -> rel t t = true.
  Proof. destruct t; try discriminate. intros _. apply name_eqb_refl. Qed.
  Lemma rel_object_name t o : td_is_object t = true -> rel t o = true -> td_name t = td_name o.
  Proof. destruct t; try discriminate. intros _ H. apply name_eqb_eq in H. exact H. Qed.

  Lemma composite_cases t : td_is_composite t = true -> td_is_abstract t = true \/ td_is_object t = true.
  Proof. destruct t; try discriminate; intros _; [right|left|left]; reflexivity. Qed.
  Lemma object_not_abstract t : td_is_object t = true -> td_is_abstract t = false.
  Proof. destruct t; try discriminate; reflexivity. Qed.

  Lemma do_types_overlap_spec t1 t2 :
    In t1 (type_defs s) -> In t2 (type_defs s) ->
    td_is_composite t1 = true -> td_is_composite t2 = true ->
    (do_types_overlap s t1 t2 = true <-> td_name t1 = td_name t2 \/ common s t1 t2).
  Proof.
    intros H1 H2 C1 C2. unfold do_types_overlap.
    destruct (name_eqb (td_name t1) (td_name t2)) eqn:En.
    { apply name_eqb_eq in En. split; [intros _; left; exact En|reflexivity]. }
    assert (Hne : td_name t1 <> td_name t2).
    { intro E. apply name_eqb_eq in E. rewrite E in En. discriminate En. }
    destruct (composite_cases t1 C1) as [A1|O1], (composite_cases t2 C2) as [A2|O2].
    - (* abstract, abstract *)
      rewrite A1, A2, filter_nonempty, existsb_exists. split.
      + intros [p [Hp Hc]]. right. apply (possible_types_spec t1 p A1) in Hp.
        destruct Hp as [Hp [Hobj Hr]]. rewrite (concrete_sub_rel t2 p A2) in Hc.
        exists p. repeat split; assumption.
      + intros [E|[o [Ho [Hobj [Hr1 Hr2]]]]]; [contradiction|].
        exists o. split; [apply (possible_types_spec t1 o A1); repeat split; assumption|].
        rewrite (concrete_sub_rel t2 o A2). exact Hr2.
    - (* abstract, object *)
      rewrite A1, (object_not_abstract t2 O2), (sub_type_rel t1 t2 A1). split.
      + intro Hr. right. exists t2. repeat split; [exact H2|exact O2|exact Hr|apply rel_object_self; exact O2].
      + intros [E|[o [Ho [Hobj [Hr1 Hr2]]]]]; [contradiction|].
        assert (E : t2 = o) by (apply (type_defs_inj s t2 o Hu H2 Ho); apply rel_object_name; assumption).
        subst o. exact Hr1.
    - (* object, abstract *)
      rewrite (object_not_abstract t1 O1), A2, (sub_type_rel t2 t1 A2). split.
      + intro Hr. right. exists t1. repeat split; [exact H1|exact O1|apply rel_object_self; exact O1|exact Hr].
      + intros [E|[o [Ho [Hobj [Hr1 Hr2]]]]]; [contradiction|].
        assert (E : t1 = o) by (apply (type_defs_inj s t1 o Hu H1 Ho); apply rel_object_name; assumption).
        subst o. exact Hr2.
    - (* object, object *)
      rewrite (object_not_abstract t1 O1), (object_not_abstract t2 O2). split; [discriminate|].
      intros [E|[o [Ho [Hobj [Hr1 Hr2]]]]]; [contradiction|].
      exfalso. apply Hne. rewrite (rel_object_name t1 o O1 Hr1), (rel_object_name t2 o O2 Hr2). reflexivity.
  Qed.

  Lemma do_types_overlap_eq t1 t2 :
    In t1 (type_defs s) -> In t2 (type_defs s) ->
    td_is_composite t1 = true -> td_is_composite t2 = true ->
    do_types_overlap s t1 t2 = types_can_overlap s t1 t2.
  Proof.
    intros H1 H2 C1 C2. apply eq_true_iff_eq.
    rewrite (do_types_overlap_spec t1 t2 H1 H2 C1 C2), (types_can_overlap_spec t1 t2 H1 H2 C1 C2).
    reflexivity.
  Qed.
End Overlap.

(* ---- every type met in the annotation is a definition of the schema ---- *)
Definition otd_ok (s : sdocument) (o : option type_def) : Prop :=
  match o with Some t => In t (type_defs s) | None => True end.
Definition env_ok (s : sdocument) (e : env) : Prop := otd_ok s (a_type e) /\ otd_ok s (a_parent e).

Section AnnotOk.
  Variable s : sdocument.
  Notation P := (fun ea : aev => env_ok s (snd ea)).

  Lemma ok_lookup t : otd_ok s (lookup_named s t).
  Proof.
    destruct t as [t|]; cbn [lookup_named opt_bind otd_ok]; [|exact I].
    destruct (type_by_name s (inner_type t)) as [u|] eqn:E; [|exact I].
    apply type_by_name_some in E. apply E.
  Qed.
  Lemma ok_env0 : env_ok s env0.
  Proof. split; exact I. Qed.
  Lemma ok_at_type e t : env_ok s e -> env_ok s (at_type s e t).
  Proof. intros [H1 H2]. split; [apply ok_lookup|exact H2]. Qed.
  Lemma ok_in_sel e : env_ok s e -> env_ok s (in_selection_set e).
  Proof. intros [H1 H2]. split; exact H1. Qed.
  Lemma ok_in_field e f : env_ok s e -> env_ok s (in_field e f).
  Proof. intro H. exact H. Qed.
  Lemma ok_expecting e t : env_ok s e -> env_ok s (expecting s e t).
  Proof. intro H. exact H. Qed.

  Ltac ok_step :=
    match goal with
    | |- Forall _ (_ :: _) => apply Forall_cons; [cbn [snd]|]
    | |- Forall _ (_ ++ _) => apply Forall_app; split
    | |- Forall _ [] => apply Forall_nil
    | |- Forall _ (flat_map _ _) => apply Forall_flat_map
    end.

  Lemma ok_value v : forall e, env_ok s e -> Forall P (annot_value s v e).
  Proof.
    induction v as [n|z|b|str|b| |n|l IH|l IH] using value_ind'; intros e He; cbn [annot_value];
      repeat ok_step; try exact He.
    - eapply Forall_impl; [|exact IH]. intros x Hx. apply Hx. apply ok_expecting. exact He.
    - eapply Forall_impl; [|exact IH]. intros kv Hkv. cbv zeta. repeat ok_step; try exact He.
      apply Hkv. apply ok_expecting. exact He.
  Qed.

  Lemma ok_arguments decls args e : env_ok s e -> Forall P (annot_arguments s decls args e).
  Proof.
    intro He. unfold annot_arguments. apply Forall_flat_map. apply Forall_forall. intros a _.
    cbv zeta. repeat ok_step; try exact He. apply ok_value. apply ok_expecting. exact He.
  Qed.

  Lemma ok_directives dirs e : env_ok s e -> Forall P (annot_directives s dirs e).
  Proof.
    intro He. unfold annot_directives. apply Forall_flat_map. apply Forall_forall. intros x _.
    repeat ok_step; try exact He. apply ok_arguments. exact He.
  Qed.

  Lemma ok_vardefs vars e : env_ok s e -> Forall P (annot_vardefs s vars e).
  Proof.
    intro He. unfold annot_vardefs. apply Forall_flat_map. apply Forall_forall. intros v _.
    cbv zeta. repeat ok_step; try exact He.
    destruct (v_default v); [apply ok_value; apply ok_expecting; exact He|apply Forall_nil].
  Qed.

  Lemma ok_selection x : forall e, env_ok s e -> Forall P (annot_selection s x e).
  Proof.
    induction x as [p al n args dirs sp sels IH|p n dirs|p tc dirs sp sels IH] using selection_ind';
      intros e He; cbn [annot_selection]; cbv zeta.
    - set (e1 := at_type s e _).
      assert (H1 : env_ok s e1) by (apply ok_at_type; exact He).
      assert (H3 : env_ok s (in_selection_set (in_field e1 (opt_bind (a_parent e) (fun t => field_by_name t n)))))
        by (apply ok_in_sel, ok_in_field; exact H1).
      repeat ok_step; try assumption.
      + apply ok_arguments. apply ok_in_field. exact H1.
      + apply ok_directives. apply ok_in_field. exact H1.
      + eapply Forall_impl; [|exact IH]. intros y Hy. apply Hy. exact H3.
    - repeat ok_step; try exact He. apply ok_directives. exact He.
    - set (e1 := match tc with Some cond => at_type s e (Some (TNamed cond)) | None => e end).
      assert (H1 : env_ok s e1) by (subst e1; destruct tc; [apply ok_at_type|]; exact He).
      assert (H3 : env_ok s (in_selection_set e1)) by (apply ok_in_sel; exact H1).
      repeat ok_step; try assumption.
      + apply ok_directives. exact H1.
      + eapply Forall_impl; [|exact IH]. intros y Hy. apply Hy. exact H3.
  Qed.

  Lemma ok_selection_set sp sels e : env_ok s e -> Forall P (annot_selection_set s sp sels e).
  Proof.
    intro He. unfold annot_selection_set. cbv zeta.
    assert (H3 : env_ok s (in_selection_set e)) by (apply ok_in_sel; exact He).
    repeat ok_step; try exact H3.
    apply Forall_forall. intros y _. apply ok_selection. exact H3.
  Qed.

  Lemma ok_definition x e : env_ok s e -> Forall P (annot_definition s x e).
  Proof.
    intro He. destruct x as [o|f]; unfold annot_definition; cbv zeta.
    - set (e1 := at_type s e _). assert (H1 : env_ok s e1) by (apply ok_at_type; exact He).
      repeat ok_step; try exact H1.
      + apply ok_directives. exact H1.
      + apply ok_vardefs. exact H1.
      + apply ok_selection_set. exact H1.
    - set (e1 := at_type s e _). assert (H1 : env_ok s e1) by (apply ok_at_type; exact He).
      repeat ok_step; try exact H1.
      + apply ok_directives. exact H1.
      + apply ok_selection_set. exact H1.
  Qed.

  Lemma ok_annot d : Forall P (annot s d).
  Proof.
    unfold annot. repeat ok_step; try exact ok_env0.
    apply Forall_forall. intros x _. apply ok_definition. exact ok_env0.
  Qed.
End AnnotOk.

(* ---- the fragment map and the specification's fragment look-up ---- *)
Lemma known_fragment_find d n : known_fragment d n = find_fragment d n.
Proof.
  unfold find_fragment. induction d as [|[o|f] r IH]; [reflexivity|exact IH|].
  change (fragments_of (DFrag f :: r)) with (f :: fragments_of r).
  cbn [known_fragment rev]. rewrite find_first_app, <- IH. cbn [find_first].
  rewrite (name_eqb_sym (fr_name f) n). destruct (known_fragment r n); reflexivity.
Qed.

(* ---- the rule ---- *)
Definition pfs_p (s : sdocument) (d : document) (e : event) (a : answers) : bool :=
  match e with
  | Enter (NInline _) =>
      match a_type a, a_parent a with
      | Some ft, Some pt => td_is_composite ft && td_is_composite pt && negb (do_types_overlap s ft pt)
      | _, _ => false
      end
  | Enter (NSpread (SSpread _ n _)) =>
      match known_fragment d n with
      | Some fr =>
          match type_by_name s (fr_tc fr), a_parent a with
          | Some ft, Some pt => td_is_composite ft && td_is_composite pt && negb (do_types_overlap s ft pt)
          | _, _ => false
          end
      | None => false
      end
  | _ => false
  end.

Definition pfs_f (s : sdocument) (d : document) (e : event) (c : ctx) : list verror :=
  if pfs_p s d e (answers_of c) then [err R_PossibleFragmentSpreads []] else [].

Lemma pfs_stateless s d : stateless (pfs_step s d) (pfs_f s d).
Proof.
  intros st e c. unfold pfs_f, pfs_p. cbn [answers_of a_type a_parent].
  destruct e as [[]|]; cbn [pfs_step]; try (rewrite app_nil_r; reflexivity).
  - destruct f as [|p n dirs|]; try (rewrite app_nil_r; reflexivity).
    destruct (known_fragment d n) as [fr|]; [|rewrite app_nil_r; reflexivity].
    destruct (type_by_name s (fr_tc fr)) as [ft|]; [|rewrite app_nil_r; reflexivity].
    destruct (current_parent_type c) as [pt|]; [|rewrite app_nil_r; reflexivity].
    destruct (td_is_composite ft && td_is_composite pt && negb (do_types_overlap s ft pt));
      [reflexivity|rewrite app_nil_r; reflexivity].
  - destruct (current_type c) as [ft|]; [|rewrite app_nil_r; reflexivity].
    destruct (current_parent_type c) as [pt|]; [|rewrite app_nil_r; reflexivity].
    destruct (td_is_composite ft && td_is_composite pt && negb (do_types_overlap s ft pt));
      [reflexivity|rewrite app_nil_r; reflexivity].
Qed.

Lemma spread_impossible_eq s ft pt :
  uniq_types s -> otd_ok s ft -> otd_ok s pt ->
  match ft, pt with
  | Some ft, Some pt => td_is_composite ft && td_is_composite pt && negb (do_types_overlap s ft pt)
  | _, _ => false
  end = spread_impossible s ft pt.
Proof.
  intros Hu Hf Hp. unfold spread_impossible.
  destruct ft as [ft|]; [|reflexivity]. destruct pt as [pt|]; [|reflexivity].
  cbn [otd_ok] in Hf, Hp.
  destruct (td_is_composite ft) eqn:C1; [|reflexivity].
  destruct (td_is_composite pt) eqn:C2; [|reflexivity].
  rewrite (do_types_overlap_eq s Hu ft pt Hf Hp C1 C2). reflexivity.
Qed.

Lemma possible_fragment_spreads_iff : forall s d, wf_schema s = true -> distinct_fragments d = true ->
  (run_alone R_PossibleFragmentSpreads s d <> [] <-> violated R_PossibleFragmentSpreads s d = true).
Proof.
  intros s d Hwf _. unfold run_alone. cbn [run_rule violated]. rewrite run_plain.
  rewrite (stateless_run s d ctx0 (pfs_stateless s d)). cbn [snd].
  rewrite flat_map_nonempty_existsb.
  rewrite (existsb_ext_fn _ (fun ec : event * ctx => pfs_p s d (fst ec) (answers_of (snd ec)))).
  2:{ intros [e c]. cbn [fst snd]. unfold pfs_f. destruct (pfs_p s d e (answers_of c)); reflexivity. }
  rewrite (existsb_ctr_annot s d (wf_query_entry_ok s Hwf) (pfs_p s d)).
  unfold v_possible_fragment_spreads.
  assert (Hu : uniq_types s) by (apply wf_unique_types; exact Hwf).
  rewrite (existsb_Forall_ext _ _
             (fun ea : aev =>
                match fst ea with
                | Enter (NInline _) => spread_impossible s (a_type (snd ea)) (a_parent (snd ea))
                | Enter (NSpread (SSpread _ n _)) =>
                    match find_fragment d n with
                    | Some fr => spread_impossible s (type_by_name s (fr_tc fr)) (a_parent (snd ea))
                    | None => false
                    end
                | _ => false
                end) _ (ok_annot s d)); [reflexivity|].
  intros [e a] [Ht Hp]. cbn [fst snd] in *. unfold pfs_p.
  destruct e as [[]|]; try reflexivity.
  - destruct f as [|p n dirs|]; try reflexivity.
    rewrite known_fragment_find. destruct (find_fragment d n) as [fr|]; [|reflexivity].
    apply (spread_impossible_eq s (type_by_name s (fr_tc fr)) (a_parent a) Hu); [|exact Hp].
    exact (ok_lookup s (Some (TNamed (fr_tc fr)))).
  - apply (spread_impossible_eq s (a_type a) (a_parent a) Hu Ht Hp).
Qed.

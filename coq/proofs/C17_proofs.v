(* C17_proofs.v — the transformer of Transformer.v against the specification SpecTransform.v:
   result = eager structural map, state = fold of [pre] over the pre-order hook-call list,
   Keep <-> nothing rewritten, and the general behaviour of [transform_list]. *)
From GT Require Import Transformer.
From GTS Require Import SpecTransform.
From GTP Require Import VisitorFacts.

(* ------------------------------------------------------------------------------------------ *)
(* transform_list, for an arbitrary item transformer                                           *)
(* ------------------------------------------------------------------------------------------ *)
Section TlGo.
  Context {St A : Type} (f : A -> St -> St * tr A).
  Fixpoint tl_go (l : list A) (st : St) : St * list A * bool :=
    match l with
    | [] => (st, [], false)
    | x :: r =>
        let '(st1, rx) := f x st in
        let '(st2, rest, ch) := tl_go r st1 in
        (st2, replace_or x rx :: rest, negb (should_keep rx) || ch)
    end.
End TlGo.

Lemma transform_list_go {St A} (f : A -> St -> St * tr A) l st :
  transform_list f l st =
  let '(st', items, changed) := tl_go f l st in (st', if changed then Replace items else Keep).
Proof. reflexivity. Qed.

Lemma tl_go_thread {St A} (f : A -> St -> St * tr A) l st :
  tl_go f l st =
  (fst (thread f l st), patched l (snd (thread f l st)),
   negb (forallb should_keep (snd (thread f l st)))).
Proof.
  revert st. induction l as [|x r IH]; intros st.
  - reflexivity.
  - cbn [tl_go thread]. destruct (f x st) as [st1 rx]. rewrite IH.
    destruct (thread f r st1) as [st2 rs]. cbn [fst snd forallb].
    unfold patched. cbn [combine map fst snd].
    rewrite negb_andb. reflexivity.
Qed.

Lemma thread_length {St A} (f : A -> St -> St * tr A) l st :
  List.length (snd (thread f l st)) = List.length l.
Proof.
  revert st. induction l as [|x r IH]; intros st.
  - reflexivity.
  - cbn [thread]. destruct (f x st) as [st1 rx]. specialize (IH st1).
    destruct (thread f r st1) as [st2 rs]. cbn [snd List.length] in *. now rewrite IH.
Qed.

Lemma patched_length {A} (l : list A) rs :
  List.length rs = List.length l -> List.length (patched l rs) = List.length l.
Proof.
  intros E. unfold patched. rewrite map_length, combine_length, E. apply Nat.min_id.
Qed.

(* [transform_list f l st]: run [f] over the items left to right threading the state
   ([thread]); the result is Keep iff every item's result is Keep, and otherwise a Replace of
   the item-wise patched list (same length, same order). *)
Theorem transform_list_spec :
  forall St A (f : A -> St -> St * tr A) (l : list A) (st : St),
    let rs := snd (thread f l st) in
    List.length rs = List.length l /\
    fst (transform_list f l st) = fst (thread f l st) /\
    (snd (transform_list f l st) = Keep <-> Forall (fun r => r = Keep) rs) /\
    (snd (transform_list f l st) <> Keep -> snd (transform_list f l st) = Replace (patched l rs)) /\
    List.length (patched l rs) = List.length l /\
    (forall i x, nth_error l i = Some x ->
       exists rx, nth_error rs i = Some rx /\ nth_error (patched l rs) i = Some (replace_or x rx)).
Proof.
  intros St A f l st rs. subst rs.
  assert (Hlen := thread_length f l st).
  rewrite transform_list_go, tl_go_thread.
  set (rs := snd (thread f l st)) in *. cbn [fst snd].
  split; [exact Hlen|]. split; [reflexivity|].
  assert (Hall : forallb should_keep rs = true <-> Forall (fun r => r = Keep) rs).
  { rewrite forallb_forall, Forall_forall. split; intros Hk r Hin; specialize (Hk r Hin).
    - destruct r; [reflexivity|discriminate].
    - subst r. reflexivity. }
  split; [|split; [|split]].
  - destruct (forallb should_keep rs) eqn:E; cbn [negb].
    + split; [intros _; now apply Hall | reflexivity].
    + split; [discriminate|]. intros Hf. apply Hall in Hf. discriminate.
  - destruct (forallb should_keep rs); cbn [negb]; [intros C; now contradiction C | reflexivity].
  - now apply patched_length.
  - clear Hall. revert Hlen. generalize rs. clear rs.
    induction l as [|y r IH]; intros rs Hlen i x Hi.
    + destruct i; discriminate.
    + destruct rs as [|ry rs]; [discriminate|]. cbn [List.length] in Hlen.
      destruct i as [|i]; cbn [nth_error] in *.
      * injection Hi as <-. exists ry. split; reflexivity.
      * unfold patched. cbn [combine map nth_error]. apply IH; [lia|exact Hi].
Qed.

(* ------------------------------------------------------------------------------------------ *)
(* the invariant carried through the traversal                                                 *)
(* ------------------------------------------------------------------------------------------ *)
Section Good.
  Variable St : Type.
  Variable H : hooks St.

  (* the computation [m] on node [x]: logs exactly [cs], in order; its result does not depend
     on the state, patches [x] into [y], and is Keep iff [b] is false *)
  Definition good {A} (m : St -> St * tr A) (x y : A) (cs : list hnode) (b : bool) : Prop :=
    exists r, (forall st, m st = (fold_left (pre H) cs st, r)) /\
              replace_or x r = y /\ should_keep r = negb b.

  Lemma good_ext {A} (m m' : St -> St * tr A) x y y' cs cs' b b' :
    good m x y cs b -> (forall st, m' st = m st) -> y = y' -> cs = cs' -> b = b' ->
    good m' x y' cs' b'.
  Proof.
    intros (r & Hm & Hy & Hb) Em <- <- <-. exists r. split; [|split]; try assumption.
    intros st. now rewrite Em.
  Qed.

  Lemma good_hooked {A} (mk : A -> hnode) (rw : A -> option A) (dflt : St -> St * tr A) x y cs b :
    good dflt x y cs b ->
    good (hooked St H mk rw dflt x) x (rewrite rw y) (mk x :: cs) (b || fires rw y).
  Proof.
    intros (r & Hm & Hy & Hb). unfold hooked, rewrite, fires.
    destruct (rw y) as [z|] eqn:E.
    - exists (Replace z). split; [|split].
      + intros st. rewrite Hm, Hy, E. reflexivity.
      + reflexivity.
      + rewrite orb_true_r. reflexivity.
    - exists r. split; [|split].
      + intros st. rewrite Hm, Hy, E. reflexivity.
      + exact Hy.
      + rewrite orb_false_r. exact Hb.
  Qed.

  Lemma good_list {A} (f : A -> St -> St * tr A) (g : A -> A) (cs : A -> list hnode) (b : A -> bool) l :
    Forall (fun x => good (f x) x (g x) (cs x) (b x)) l ->
    good (transform_list f l) l (map g l) (flat_map cs l) (existsb b l).
  Proof.
    intros HF.
    assert (Hgo : exists ch, (forall st, tl_go f l st = (fold_left (pre H) (flat_map cs l) st, map g l, ch))
                             /\ ch = existsb b l /\ (ch = false -> map g l = l)).
    { induction HF as [|x r (rx & Hm & Hy & Hb) _ (ch & Hgo & Hch & Hid)].
      - exists false. split; [|split]; reflexivity.
      - exists (negb (should_keep rx) || ch). split; [|split].
        + intros st. cbn [tl_go flat_map map]. rewrite Hm, Hgo, Hy, fold_left_app. reflexivity.
        + cbn [existsb]. rewrite Hb, negb_involutive, Hch. reflexivity.
        + intros E. apply orb_false_elim in E. destruct E as [E1 E2].
          cbn [map]. rewrite (Hid E2). destruct rx; [|discriminate]. cbn in Hy. now rewrite <- Hy. }
    destruct Hgo as (ch & Hgo & Hch & Hid).
    exists (if ch then Replace (map g l) else Keep). split; [|split].
    - intros st. rewrite transform_list_go, Hgo. reflexivity.
    - destruct ch; cbn [replace_or]; [reflexivity|]. symmetry. now apply Hid.
    - rewrite <- Hch. destruct ch; reflexivity.
  Qed.

  (* ---- leaves and the non-recursive nodes ---- *)
  Lemma good_value v :
    good (transform_value St H v) v (smap_value H v) (calls_value v) (rws_value H v).
  Proof.
    unfold transform_value, smap_value, calls_value, rws_value.
    eapply good_ext; [apply (good_hooked HValue (rw_value H)) with (y := v) (cs := []) (b := false)| | | |];
      try reflexivity.
    exists Keep. split; [|split]; reflexivity.
  Qed.

  Lemma good_argument a :
    good (transform_argument St H a) a (smap_argument H a) (calls_argument a) (rws_argument H a).
  Proof.
    unfold transform_argument, smap_argument, calls_argument, rws_argument.
    apply good_hooked.
    destruct (good_value (snd a)) as (r & Hm & Hy & Hb).
    exists (match r with Keep => Keep | Replace v' => Replace (fst a, v') end). split; [|split].
    - intros st. rewrite Hm. reflexivity.
    - rewrite <- Hy. destruct r; cbn [replace_or]; [destruct a|]; reflexivity.
    - rewrite <- Hb. destruct r; reflexivity.
  Qed.

  Lemma good_arguments args :
    good (transform_arguments St H args) args (map (smap_argument H) args)
         (flat_map calls_argument args) (existsb (rws_argument H) args).
  Proof.
    unfold transform_arguments. apply good_list. apply Forall_forall. intros a _. apply good_argument.
  Qed.

  Lemma good_directive d :
    good (transform_directive St H d) d (smap_directive H d) (calls_directive d) (rws_directive H d).
  Proof.
    unfold transform_directive, smap_directive, calls_directive, rws_directive.
    apply good_hooked.
    destruct (good_arguments (d_args d)) as (r & Hm & Hy & Hb).
    exists (match r with Keep => Keep | Replace a' => Replace (mkDirective (d_pos d) (d_name d) a') end).
    split; [|split].
    - intros st. rewrite Hm. reflexivity.
    - rewrite <- Hy. destruct r; cbn [replace_or]; [destruct d|]; reflexivity.
    - rewrite <- Hb. destruct r; reflexivity.
  Qed.

  Lemma good_directives ds :
    good (transform_directives St H ds) ds (map (smap_directive H) ds)
         (flat_map calls_directive ds) (existsb (rws_directive H) ds).
  Proof.
    unfold transform_directives. apply good_list. apply Forall_forall. intros a _. apply good_directive.
  Qed.

  Lemma good_vardef v :
    good (transform_variable_definition St H v) v (smap_vardef H v) (calls_vardef v) (rws_vardef H v).
  Proof.
    unfold transform_variable_definition, smap_vardef, calls_vardef, rws_vardef.
    apply good_hooked.
    destruct (v_default v) as [dv|] eqn:E.
    - destruct (good_value dv) as (r & Hm & Hy & Hb).
      exists (match r with
              | Keep => Keep
              | Replace v' => Replace (mkVardef (v_pos v) (v_name v) (v_type v) (Some v'))
              end).
      split; [|split].
      + intros st. rewrite Hm. reflexivity.
      + rewrite <- Hy. destruct r; cbn [replace_or]; [|reflexivity].
        destruct v; cbn in *. now subst.
      + rewrite <- Hb. destruct r; reflexivity.
    - exists Keep. split; [|split]; try reflexivity.
      destruct v; cbn in *. now subst.
  Qed.

  Lemma good_vardefs vs :
    good (transform_variable_definitions St H vs) vs (map (smap_vardef H) vs)
         (flat_map calls_vardef vs) (existsb (rws_vardef H) vs).
  Proof.
    unfold transform_variable_definitions. apply good_list. apply Forall_forall. intros a _. apply good_vardef.
  Qed.

  (* ---- selections ---- *)
  Lemma good_selset_of sels :
    Forall (fun x => good (transform_selection St H x) x (smap_selection H x) (calls_selection x)
                          (rws_selection H x)) sels ->
    good (hooked St H HSelectionSet (rw_selection_set H) (transform_list (transform_selection St H) sels) sels)
         sels (smap_selection_set H sels) (calls_selection_set sels) (rws_selection_set H sels).
  Proof.
    intros HF. unfold smap_selection_set, calls_selection_set, rws_selection_set.
    apply good_hooked. now apply good_list.
  Qed.

  Lemma good_selection x :
    good (transform_selection St H x) x (smap_selection H x) (calls_selection x) (rws_selection H x).
  Proof.
    induction x as [p al n args dirs sp sels IH|p n dirs|p tc dirs sp sels IH] using selection_ind'.
    - (* field *)
      cbn [transform_selection smap_selection calls_selection rws_selection].
      fold (smap_selection_set H sels).
      apply good_hooked.
      destruct (good_selset_of sels IH) as (rs & Hs & Ys & Bs).
      destruct (good_arguments args) as (ra & Ha & Ya & Ba).
      destruct (good_directives dirs) as (rd & Hd & Yd & Bd).
      exists (if should_keep rs && should_keep ra && should_keep rd then Keep
              else Replace (SField p al n (replace_or args ra) (replace_or dirs rd) sp (replace_or sels rs))).
      split; [|split].
      + intros st. rewrite Hs, Ha, Hd.
        change (HSelectionSet sels :: flat_map calls_selection sels) with (calls_selection_set sels).
        rewrite !fold_left_app. reflexivity.
      + rewrite <- Ys, <- Ya, <- Yd. destruct rs, ra, rd; reflexivity.
      + fold (rws_selection_set H sels). rewrite Bs, Ba, Bd, !negb_orb.
        destruct (negb (rws_selection_set H sels) && negb (existsb (rws_argument H) args)
                  && negb (existsb (rws_directive H) dirs)); reflexivity.
    - (* spread *)
      cbn [transform_selection smap_selection calls_selection rws_selection].
      eapply good_ext; [apply good_hooked with (b := true)| | | |]; try reflexivity.
      destruct (good_directives dirs) as (rd & Hd & Yd & Bd).
      exists (Replace (SSpread p n (replace_or dirs rd))). split; [|split].
      + intros st. rewrite Hd. reflexivity.
      + cbn [replace_or]. rewrite Yd. reflexivity.
      + reflexivity.
    - (* inline fragment *)
      cbn [transform_selection smap_selection calls_selection rws_selection].
      fold (smap_selection_set H sels).
      apply good_hooked.
      destruct (good_selset_of sels IH) as (rs & Hs & Ys & Bs).
      destruct (good_directives dirs) as (rd & Hd & Yd & Bd).
      exists (if should_keep rs && should_keep rd then Keep
              else Replace (SInline p tc (replace_or dirs rd) sp (replace_or sels rs))).
      split; [|split].
      + intros st. rewrite Hs, Hd.
        change (HSelectionSet sels :: flat_map calls_selection sels) with (calls_selection_set sels).
        rewrite !fold_left_app. reflexivity.
      + rewrite <- Ys, <- Yd. destruct rs, rd; reflexivity.
      + fold (rws_selection_set H sels). rewrite Bs, Bd, !negb_orb.
        destruct (negb (rws_selection_set H sels) && negb (existsb (rws_directive H) dirs)); reflexivity.
  Qed.

  Lemma good_selection_set sels :
    good (transform_selection_set St H sels) sels (smap_selection_set H sels)
         (calls_selection_set sels) (rws_selection_set H sels).
  Proof.
    unfold transform_selection_set. apply good_selset_of. apply Forall_forall. intros x _. apply good_selection.
  Qed.

  (* ---- definitions ---- *)
  Lemma good_operation o :
    good (transform_operation St H o) o (smap_operation H o) (calls_operation o) (rws_operation H o).
  Proof.
    unfold transform_operation, smap_operation, calls_operation, rws_operation.
    destruct (good_selection_set (o_sels o)) as (rs & Hs & Ys & Bs).
    destruct (good_directives (o_dirs o)) as (rd & Hd & Yd & Bd).
    destruct (good_vardefs (o_vars o)) as (rv & Hv & Yv & Bv).
    assert (Hnamed : forall k, k <> OpSelSet -> o_kind o = k ->
      good (fun st =>
              let '(st1, rs) := transform_selection_set St H (o_sels o) st in
              let '(st2, rd) := transform_directives St H (o_dirs o) st1 in
              let '(st3, rv) := transform_variable_definitions St H (o_vars o) st2 in
              (st3, if should_keep rs && should_keep rd && should_keep rv then Keep
                    else Replace (mkOperation k (o_pos o) (o_name o) (replace_or (o_vars o) rv)
                                              (replace_or (o_dirs o) rd) (o_span o) (replace_or (o_sels o) rs))))
           o
           (mkOperation k (o_pos o) (o_name o) (map (smap_vardef H) (o_vars o))
                        (map (smap_directive H) (o_dirs o)) (o_span o) (smap_selection_set H (o_sels o)))
           (calls_selection_set (o_sels o) ++ flat_map calls_directive (o_dirs o)
              ++ flat_map calls_vardef (o_vars o))
           (rws_selection_set H (o_sels o) || existsb (rws_directive H) (o_dirs o)
              || existsb (rws_vardef H) (o_vars o))).
    { intros k _ Ek.
      exists (if should_keep rs && should_keep rd && should_keep rv then Keep
              else Replace (mkOperation k (o_pos o) (o_name o) (replace_or (o_vars o) rv)
                                        (replace_or (o_dirs o) rd) (o_span o) (replace_or (o_sels o) rs))).
      split; [|split].
      - intros st. rewrite Hs, Hd, Hv, !fold_left_app. reflexivity.
      - rewrite <- Ys, <- Yd, <- Yv. destruct rs, rd, rv; cbn [should_keep andb replace_or]; try reflexivity.
        destruct o; cbn in *. now subst.
      - rewrite Bs, Bd, Bv, !negb_orb.
        destruct (negb (rws_selection_set H (o_sels o)) && negb (existsb (rws_directive H) (o_dirs o))
                  && negb (existsb (rws_vardef H) (o_vars o))); reflexivity. }
    destruct (o_kind o) eqn:Ek.
    - (* bare selection set *)
      apply good_hooked.
      exists (match rs with
              | Keep => Keep
              | Replace items => Replace (mkOperation OpSelSet (o_pos o) (o_name o) (o_vars o) (o_dirs o) (o_span o) items)
              end).
      split; [|split].
      + intros st. rewrite Hs. reflexivity.
      + rewrite <- Ys. destruct rs; cbn [replace_or]; [|reflexivity].
        destruct o; cbn in *. now subst.
      + rewrite <- Bs. destruct rs; reflexivity.
    - apply good_hooked. apply Hnamed; [discriminate|reflexivity].
    - apply good_hooked. apply Hnamed; [discriminate|reflexivity].
    - apply good_hooked. apply Hnamed; [discriminate|reflexivity].
  Qed.

  Lemma good_fragment f :
    good (transform_fragment St H f) f (smap_fragment H f) (calls_fragment f) (rws_fragment H f).
  Proof.
    unfold transform_fragment, smap_fragment, calls_fragment, rws_fragment.
    apply good_hooked.
    destruct (good_selection_set (fr_sels f)) as (rs & Hs & Ys & Bs).
    destruct (good_directives (fr_dirs f)) as (rd & Hd & Yd & Bd).
    exists (if should_keep rs && should_keep rd then Keep
            else Replace (mkFragment (fr_pos f) (fr_name f) (fr_tc f) (replace_or (fr_dirs f) rd)
                                     (fr_span f) (replace_or (fr_sels f) rs))).
    split; [|split].
    - intros st. rewrite Hs, Hd, !fold_left_app. reflexivity.
    - rewrite <- Ys, <- Yd. destruct rs, rd; cbn [should_keep andb replace_or]; try reflexivity.
      destruct f; reflexivity.
    - rewrite Bs, Bd, !negb_orb.
      destruct (negb (rws_selection_set H (fr_sels f)) && negb (existsb (rws_directive H) (fr_dirs f)));
        reflexivity.
  Qed.

  Lemma good_definition x :
    good (transform_definition St H x) x (smap_definition H x) (calls_definition x) (rws_definition H x).
  Proof.
    unfold transform_definition, smap_definition, calls_definition, rws_definition.
    destruct x as [o|f].
    - apply good_hooked.
      destruct (good_operation o) as (r & Hm & Hy & Hb).
      exists (match r with Keep => Keep | Replace o' => Replace (DOp o') end). split; [|split].
      + intros st. rewrite Hm. reflexivity.
      + rewrite <- Hy. destruct r; reflexivity.
      + rewrite <- Hb. destruct r; reflexivity.
    - apply good_hooked.
      destruct (good_fragment f) as (r & Hm & Hy & Hb).
      exists (match r with Keep => Keep | Replace f' => Replace (DFrag f') end). split; [|split].
      + intros st. rewrite Hm. reflexivity.
      + rewrite <- Hy. destruct r; reflexivity.
      + rewrite <- Hb. destruct r; reflexivity.
  Qed.

  Lemma good_document d :
    good (transform_document H d) d (smap_document H d) (hook_calls d) (rewrites_somewhere H d).
  Proof.
    unfold transform_document, smap_document, hook_calls, rewrites_somewhere.
    apply good_list. apply Forall_forall. intros x _. apply good_definition.
  Qed.
End Good.

(* ------------------------------------------------------------------------------------------ *)
(* the theorems                                                                                *)
(* ------------------------------------------------------------------------------------------ *)
Theorem transform_result :
  forall St (H : hooks St) d st,
    replace_or d (snd (transform_document H d st)) = smap_document H d.
Proof.
  intros St H d st. destruct (good_document St H d) as (r & Hm & Hy & _). now rewrite Hm.
Qed.

Theorem transform_calls :
  forall St (H : hooks St) d st,
    fst (transform_document H d st) = fold_left (pre H) (hook_calls d) st.
Proof.
  intros St H d st. destruct (good_document St H d) as (r & Hm & _). now rewrite Hm.
Qed.

(* Keep exactly when nothing is rewritten (the direction asked for is [transform_keep]) *)
Theorem transform_keep_iff :
  forall St (H : hooks St) d st,
    snd (transform_document H d st) = Keep <-> rewrites_somewhere H d = false.
Proof.
  intros St H d st. destruct (good_document St H d) as (r & Hm & _ & Hb). rewrite Hm. cbn [snd].
  destruct r, (rewrites_somewhere H d); cbn in Hb; split; intros E; try reflexivity; discriminate.
Qed.

Theorem transform_keep :
  forall St (H : hooks St) d st,
    snd (transform_document H d st) = Keep -> rewrites_somewhere H d = false.
Proof. intros St H d st. apply transform_keep_iff. Qed.

(* ---- with no hook rewriting anything, the eager map is the identity ---- *)
Lemma map_id_Forall {A} (g : A -> A) {l} : Forall (fun x => g x = x) l -> map g l = l.
Proof. induction 1 as [|x r E _ IH]; cbn [map]; congruence. Qed.

Section Identity.
  Variable St : Type.
  Variable H : hooks St.
  Hypothesis HN : no_rewrites H.

  Lemma rewrite_none {A} (rw : A -> option A) x : (forall y, rw y = None) -> rewrite rw x = x.
  Proof. intros E. unfold rewrite. now rewrite E. Qed.

  Let N_def := proj1 HN.
  Let N_op := proj1 (proj2 HN).
  Let N_frag := proj1 (proj2 (proj2 HN)).
  Let N_ss := proj1 (proj2 (proj2 (proj2 HN))).
  Let N_field := proj1 (proj2 (proj2 (proj2 (proj2 HN)))).
  Let N_spread := proj1 (proj2 (proj2 (proj2 (proj2 (proj2 HN))))).
  Let N_inline := proj1 (proj2 (proj2 (proj2 (proj2 (proj2 (proj2 HN)))))).
  Let N_dir := proj1 (proj2 (proj2 (proj2 (proj2 (proj2 (proj2 (proj2 HN))))))).
  Let N_arg := proj1 (proj2 (proj2 (proj2 (proj2 (proj2 (proj2 (proj2 (proj2 HN)))))))).
  Let N_val := proj1 (proj2 (proj2 (proj2 (proj2 (proj2 (proj2 (proj2 (proj2 (proj2 HN))))))))).
  Let N_var := proj2 (proj2 (proj2 (proj2 (proj2 (proj2 (proj2 (proj2 (proj2 (proj2 HN))))))))).

  Lemma smap_value_id v : smap_value H v = v.
  Proof. unfold smap_value. now apply rewrite_none. Qed.

  Lemma smap_argument_id a : smap_argument H a = a.
  Proof. unfold smap_argument. rewrite rewrite_none by exact N_arg. rewrite smap_value_id. now destruct a. Qed.

  Lemma smap_arguments_id l : map (smap_argument H) l = l.
  Proof. apply map_id_Forall, Forall_forall. intros a _. apply smap_argument_id. Qed.

  Lemma smap_directive_id d : smap_directive H d = d.
  Proof.
    unfold smap_directive. rewrite rewrite_none by exact N_dir. rewrite smap_arguments_id. now destruct d.
  Qed.

  Lemma smap_directives_id l : map (smap_directive H) l = l.
  Proof. apply map_id_Forall, Forall_forall. intros a _. apply smap_directive_id. Qed.

  Lemma smap_vardef_id v : smap_vardef H v = v.
  Proof.
    unfold smap_vardef. rewrite rewrite_none by exact N_var.
    destruct v as [p n t [dv|]]; cbn; [rewrite smap_value_id|]; reflexivity.
  Qed.

  Lemma smap_vardefs_id l : map (smap_vardef H) l = l.
  Proof. apply map_id_Forall, Forall_forall. intros a _. apply smap_vardef_id. Qed.

  Lemma smap_selection_id x : smap_selection H x = x.
  Proof.
    induction x as [p al n args dirs sp sels IH|p n dirs|p tc dirs sp sels IH] using selection_ind';
      cbn [smap_selection].
    - rewrite rewrite_none by exact N_field. rewrite rewrite_none by exact N_ss.
      now rewrite smap_arguments_id, smap_directives_id, (map_id_Forall _ IH).
    - rewrite rewrite_none by exact N_spread. now rewrite smap_directives_id.
    - rewrite rewrite_none by exact N_inline. rewrite rewrite_none by exact N_ss.
      now rewrite smap_directives_id, (map_id_Forall _ IH).
  Qed.

  Lemma smap_selection_set_id l : smap_selection_set H l = l.
  Proof.
    unfold smap_selection_set. rewrite rewrite_none by exact N_ss.
    apply map_id_Forall, Forall_forall. intros a _. apply smap_selection_id.
  Qed.

  Lemma smap_operation_id o : smap_operation H o = o.
  Proof.
    unfold smap_operation. rewrite rewrite_none by exact N_op.
    rewrite smap_selection_set_id, smap_directives_id, smap_vardefs_id.
    destruct o as [[] p n vs ds sp sels]; reflexivity.
  Qed.

  Lemma smap_fragment_id f : smap_fragment H f = f.
  Proof.
    unfold smap_fragment. rewrite rewrite_none by exact N_frag.
    rewrite smap_selection_set_id, smap_directives_id. now destruct f.
  Qed.

  Lemma smap_definition_id x : smap_definition H x = x.
  Proof.
    unfold smap_definition. rewrite rewrite_none by exact N_def.
    destruct x; [rewrite smap_operation_id | rewrite smap_fragment_id]; reflexivity.
  Qed.

  Lemma smap_document_id d : smap_document H d = d.
  Proof. apply map_id_Forall, Forall_forall. intros a _. apply smap_definition_id. Qed.
End Identity.

Theorem transform_identity :
  forall St (H : hooks St) d st,
    no_rewrites H -> replace_or d (snd (transform_document H d st)) = d.
Proof.
  intros St H d st HN. rewrite transform_result. now apply smap_document_id.
Qed.

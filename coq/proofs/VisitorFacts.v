(* VisitorFacts.v — the stack-threading traversal of Visitor.v equals a fold of the handler over
   an explicitly defined, purely functional trace [ctr_*] (context passed down as an argument,
   pushes only, no pops), and restores the context.  Everything about visitors and rules is
   derived from this one fusion theorem. *)
From GT Require Import Visitor.
Set Implicit Arguments.

(* ---- induction principles for the nested inductives ---- *)
Section ValueInd.
  Variable P : value -> Prop.
  Hypothesis Hvar : forall n, P (VVar n).
  Hypothesis Hint : forall z, P (VInt z).
  Hypothesis Hflt : forall b, P (VFloat b).
  Hypothesis Hstr : forall s, P (VString s).
  Hypothesis Hbool : forall b, P (VBool b).
  Hypothesis Hnull : P VNull.
  Hypothesis Henum : forall n, P (VEnum n).
  Hypothesis Hlist : forall l, Forall P l -> P (VList l).
  Hypothesis Hobj : forall l, Forall (fun kv => P (snd kv)) l -> P (VObject l).
  Fixpoint value_ind' (v : value) : P v :=
    match v with
    | VVar n => Hvar n | VInt z => Hint z | VFloat b => Hflt b | VString s => Hstr s
    | VBool b => Hbool b | VNull => Hnull | VEnum n => Henum n
    | VList l => Hlist ((fix go (l : list value) : Forall P l :=
                           match l with [] => Forall_nil _ | x :: r => Forall_cons _ (value_ind' x) (go r) end) l)
    | VObject l => Hobj ((fix go (l : list (name * value)) : Forall (fun kv => P (snd kv)) l :=
                            match l with [] => Forall_nil _ | x :: r => Forall_cons _ (value_ind' (snd x)) (go r) end) l)
    end.
End ValueInd.

Section SelInd.
  Variable P : selection -> Prop.
  Hypothesis Hf : forall p al n args dirs sp sels, Forall P sels -> P (SField p al n args dirs sp sels).
  Hypothesis Hs : forall p n dirs, P (SSpread p n dirs).
  Hypothesis Hi : forall p tc dirs sp sels, Forall P sels -> P (SInline p tc dirs sp sels).
  Fixpoint selection_ind' (x : selection) : P x :=
    let go := fix go (l : list selection) : Forall P l :=
        match l with [] => Forall_nil _ | y :: r => Forall_cons _ (selection_ind' y) (go r) end in
    match x with
    | SField p al n args dirs sp sels => Hf p al n args dirs sp (go sels)
    | SSpread p n dirs => Hs p n dirs
    | SInline p tc dirs sp sels => Hi p tc dirs sp (go sels)
    end.
End SelInd.

(* ---- pop after push is the identity ---- *)
Lemma pop_push_type s t c : pop_type (push_type s t c) = c.
Proof. destruct c; reflexivity. Qed.
Lemma pop_push_parent_type c : pop_parent_type (push_parent_type c) = c.
Proof. destruct c; reflexivity. Qed.
Lemma pop_push_field f c : pop_field (push_field f c) = c.
Proof. destruct c; reflexivity. Qed.
Lemma pop_push_input_type s t c : pop_input_type (push_input_type s t c) = c.
Proof. destruct c; reflexivity. Qed.

(* ---- the functional trace ---- *)
Definition ctrace := list (event * ctx).

Section Ctr.
  Variable s : sdocument.

  Fixpoint ctr_value (v : value) (c : ctx) : ctrace :=
    match v with
    | VBool _ | VFloat _ | VInt _ | VString _ => [(Enter (NScalar v), c); (Leave (NScalar v), c)]
    | VNull => [(Enter NNull, c); (Leave NNull, c)]
    | VEnum n => [(Enter (NEnum n), c); (Leave (NEnum n), c)]
    | VVar n => [(Enter (NVariable n), c); (Leave (NVariable n), c)]
    | VList l =>
        (Enter (NList l), c) ::
        flat_map (fun x => ctr_value x (push_input_type s (list_item_type c) c)) l ++
        [(Leave (NList l), c)]
    | VObject l =>
        (Enter (NObject l), c) ::
        flat_map (fun kv : name * value =>
                    let c' := push_input_type s (object_field_type s c (fst kv)) c in
                    (Enter (NObjectField kv), c') :: ctr_value (snd kv) c' ++ [(Leave (NObjectField kv), c')]) l ++
        [(Leave (NObject l), c)]
    end.

  Definition arg_type (defs : option (list input_value_def)) (a : argument) : option ty :=
    opt_map iv_type (opt_bind defs (fun ds => find_first (fun x => name_eqb (iv_name x) (fst a)) ds)).

  Definition ctr_argument (defs : option (list input_value_def)) (a : argument) (c : ctx) : ctrace :=
    let c' := push_input_type s (arg_type defs a) c in
    (Enter (NArgument a), c') :: ctr_value (snd a) c' ++ [(Leave (NArgument a), c')].

  Definition ctr_arguments defs (args : list argument) (c : ctx) : ctrace :=
    flat_map (fun a => ctr_argument defs a c) args.

  Definition ctr_directive (d : directive) (c : ctx) : ctrace :=
    (Enter (NDirective d), c) ::
    ctr_arguments (opt_map dd_args (directive_by_name s (d_name d))) (d_args d) c ++
    [(Leave (NDirective d), c)].

  Definition ctr_directives (dirs : list directive) (c : ctx) : ctrace :=
    flat_map (fun d => ctr_directive d c) dirs.

  Definition ctr_vardef (v : vardef) (c : ctx) : ctrace :=
    let c' := push_input_type s (Some (v_type v)) c in
    (Enter (NVarDef v), c') ::
    match v_default v with Some dv => ctr_value dv c' | None => [] end ++
    [(Leave (NVarDef v), c')].

  Definition ctr_vardefs (vars : list vardef) (c : ctx) : ctrace :=
    flat_map (fun v => ctr_vardef v c) vars.

  Fixpoint ctr_selection (sel : selection) (c : ctx) : ctrace :=
    match sel with
    | SField p alias n args dirs sp sels =>
        let fdef := opt_bind (current_parent_type c) (fun t => field_by_name t n) in
        let c1 := push_type s (opt_map fd_type fdef) c in
        let c2 := push_field (opt_bind (current_parent_type c1) (fun t => field_by_name t n)) c1 in
        let c3 := push_parent_type c2 in
        (Enter (NField sel), c1) ::
        ctr_arguments (opt_map fd_args fdef) args c2 ++
        ctr_directives dirs c2 ++
        (Enter (NSelectionSet sp sels), c3) ::
        flat_map (fun x => ctr_selection x c3) sels ++
        [(Leave (NSelectionSet sp sels), c3); (Leave (NField sel), c1)]
    | SSpread p n dirs =>
        (Enter (NSpread sel), c) :: ctr_directives dirs c ++ [(Leave (NSpread sel), c)]
    | SInline p tc dirs sp sels =>
        let c1 := match tc with Some cond => push_type s (Some (TNamed cond)) c | None => c end in
        let c3 := push_parent_type c1 in
        (Enter (NInline sel), c1) ::
        ctr_directives dirs c1 ++
        (Enter (NSelectionSet sp sels), c3) ::
        flat_map (fun x => ctr_selection x c3) sels ++
        [(Leave (NSelectionSet sp sels), c3); (Leave (NInline sel), c1)]
    end.

  Definition ctr_selection_set (sp : span) (sels : list selection) (c : ctx) : ctrace :=
    let c3 := push_parent_type c in
    (Enter (NSelectionSet sp sels), c3) :: flat_map (fun x => ctr_selection x c3) sels ++
    [(Leave (NSelectionSet sp sels), c3)].

  Definition ctr_fragment (f : fragment_def) (c : ctx) : ctrace :=
    (Enter (NFragmentDef f), c) :: ctr_directives (fr_dirs f) c ++
    ctr_selection_set (fr_span f) (fr_sels f) c ++ [(Leave (NFragmentDef f), c)].

  Definition ctr_operation (o : operation) (c : ctx) : ctrace :=
    (Enter (NOperation o), c) :: ctr_directives (op_directives o) c ++
    ctr_vardefs (op_variable_definitions o) c ++
    ctr_selection_set (o_span o) (o_sels o) c ++ [(Leave (NOperation o), c)].

  Definition def_type (x : definition) : option ty :=
    match x with
    | DFrag f => Some (TNamed (fr_tc f))
    | DOp o => opt_map TNamed (match root_type_name s o with Some r => r | None => None end)
    end.

  Definition ctr_definition (x : definition) (c : ctx) : ctrace :=
    let c1 := push_type s (def_type x) c in
    match x with
    | DFrag f => ctr_fragment f c1
    | DOp o => ctr_operation o c1
    end.

  Definition ctr_document (d : document) (c : ctx) : ctrace :=
    (Enter (NDocument d), c) :: flat_map (fun x => ctr_definition x c) d ++ [(Leave (NDocument d), c)].
End Ctr.

(* ---- fusion ---- *)
Section Fusion.
  Variable St : Type.
  Variable h : St -> event -> ctx -> St.
  Variable s : sdocument.

  Definition hh (st : St) (ec : event * ctx) : St := h st (fst ec) (snd ec).

  Definition Good (f : vfun St) (t : ctx -> ctrace) : Prop :=
    forall c st, f c st = (c, fold_left hh (t c) st).

  Lemma Good_ext f t t' : (forall c, t c = t' c) -> Good f t -> Good f t'.
  Proof. intros E G c st. rewrite G, E. reflexivity. Qed.

  Lemma Good_id : Good (fun c st => (c, st)) (fun _ => []).
  Proof. intros c st. reflexivity. Qed.

  Lemma Good_emit e : Good (emit h e) (fun c => [(e, c)]).
  Proof. intros c st. reflexivity. Qed.

  Lemma Good_andthen f g tf tg :
    Good f tf -> Good g tg -> Good (andthen f g) (fun c => tf c ++ tg c).
  Proof.
    intros Gf Gg c st. unfold andthen. rewrite Gf, Gg, fold_left_app. reflexivity.
  Qed.

  Lemma Good_seqv A (f : A -> vfun St) (t : A -> ctx -> ctrace) (l : list A) :
    Forall (fun x => Good (f x) (t x)) l ->
    Good (seqv f l) (fun c => flat_map (fun x => t x c) l).
  Proof.
    induction 1 as [|x r Hx Hr IH]; intros c st; cbn [seqv flat_map].
    - reflexivity.
    - unfold andthen. rewrite Hx. fold (seqv f r). rewrite IH, fold_left_app. reflexivity.
  Qed.

  Lemma Good_with_ctx (f : ctx -> vfun St) (t : ctx -> ctx -> ctrace) :
    (forall c0, Good (f c0) (t c0)) -> Good (with_ctx f) (fun c => t c c).
  Proof. intros G c st. unfold with_ctx. apply G. Qed.

  Lemma Good_with_input_type ty f t :
    Good f t -> Good (with_input_type s ty f) (fun c => t (push_input_type s ty c)).
  Proof. intros G c st. unfold with_input_type. rewrite G, pop_push_input_type. reflexivity. Qed.

  Lemma Good_with_type ty f t :
    Good f t -> Good (with_type s ty f) (fun c => t (push_type s ty c)).
  Proof. intros G c st. unfold with_type. rewrite G, pop_push_type. reflexivity. Qed.

  Lemma Good_with_parent_type f t :
    Good f t -> Good (with_parent_type f) (fun c => t (push_parent_type c)).
  Proof. intros G c st. unfold with_parent_type. rewrite G, pop_push_parent_type. reflexivity. Qed.

  Lemma Good_with_field fd f t :
    Good f t -> Good (with_field fd f) (fun c => t (push_field fd c)).
  Proof. intros G c st. unfold with_field. rewrite G, pop_push_field. reflexivity. Qed.

  Ltac good_step :=
    lazymatch goal with
    | |- Good (emit _ _) _ => apply Good_emit
    | |- Good (fun c st => (c, st)) _ => apply Good_id
    | |- Good (andthen _ _) _ => apply Good_andthen
    | |- Good (with_input_type _ _ _) _ => apply Good_with_input_type
    | |- Good (with_type _ _ _) _ => apply Good_with_type
    | |- Good (with_parent_type _) _ => apply Good_with_parent_type
    | |- Good (with_field _ _) _ => apply Good_with_field
    | |- Good (with_ctx _) _ => apply Good_with_ctx; intro
    end.
  Ltac good_core := repeat good_step.

  Ltac finish_ext := intro; cbv zeta; cbn [app ctr_selection ctr_value]; cbv zeta; repeat (progress (cbn [app]; rewrite <- ?app_assoc)); reflexivity.

  Lemma Good_value v : Good (visit_input_value h s v) (ctr_value s v).
  Proof.
    induction v as [n|z|b|str|b| |n|l IH|l IH] using value_ind'; try (intros c st; reflexivity).
    - (* list *)
      cbn [visit_input_value]. eapply Good_ext; cycle 1.
      { good_core. apply (Good_seqv _ _ IH). }
      finish_ext.
    - (* object *)
      cbn [visit_input_value]. eapply Good_ext; cycle 1.
      { good_core. apply Good_seqv.
        instantiate (1 := fun kv c => let c' := push_input_type s (object_field_type s c (fst kv)) c in
                         (Enter (NObjectField kv), c') :: ctr_value s (snd kv) c' ++ [(Leave (NObjectField kv), c')]).
        induction IH as [|kv r Hkv Hr IHr]; constructor; [|exact IHr].
        eapply Good_ext; cycle 1.
        { good_core. exact Hkv. }
        finish_ext. }
      finish_ext.
  Qed.

  Lemma Good_arguments defs args : Good (visit_arguments h s defs args) (ctr_arguments s defs args).
  Proof.
    unfold visit_arguments, ctr_arguments. apply Good_seqv.
    apply Forall_forall. intros a _. unfold ctr_argument.
    eapply Good_ext; cycle 1.
    { good_core. apply Good_value. }
    finish_ext.
  Qed.

  Lemma Good_directives dirs : Good (visit_directives h s dirs) (ctr_directives s dirs).
  Proof.
    unfold visit_directives, ctr_directives. apply Good_seqv.
    apply Forall_forall. intros d _. unfold ctr_directive.
    eapply Good_ext; cycle 1.
    { good_core. apply Good_arguments. }
    finish_ext.
  Qed.

  Lemma Good_vardefs vars : Good (visit_variable_definitions h s vars) (ctr_vardefs s vars).
  Proof.
    unfold visit_variable_definitions, ctr_vardefs. apply Good_seqv.
    apply Forall_forall. intros v _. unfold ctr_vardef.
    destruct (v_default v) as [dv|].
    - eapply Good_ext; cycle 1.
      { good_core. apply Good_value. }
      finish_ext.
    - eapply Good_ext; cycle 1.
      { good_core. }
      finish_ext.
  Qed.

  Lemma Good_selection x : Good (visit_selection h s x) (ctr_selection s x).
  Proof.
    induction x as [p al n args dirs sp sels IH|p n dirs|p tc dirs sp sels IH] using selection_ind'.
    - (* field *)
      cbn [visit_selection]. eapply Good_ext; cycle 1.
      { good_core; first [apply Good_arguments | apply Good_directives | apply (Good_seqv _ _ IH)]. }
      finish_ext.
    - (* spread *)
      cbn [visit_selection]. eapply Good_ext; cycle 1.
      { good_core. apply Good_directives. }
      finish_ext.
    - (* inline *)
      cbn [visit_selection]. destruct tc as [cond|].
      + eapply Good_ext; cycle 1.
        { good_core; first [apply Good_directives | apply (Good_seqv _ _ IH)]. }
        finish_ext.
      + eapply Good_ext; cycle 1.
        { good_core; first [apply Good_directives | apply (Good_seqv _ _ IH)]. }
        finish_ext.
  Qed.

  Lemma Good_selection_set sp sels : Good (visit_selection_set h s sp sels) (ctr_selection_set s sp sels).
  Proof.
    unfold visit_selection_set, ctr_selection_set.
    eapply Good_ext; cycle 1.
    { good_core. apply Good_seqv. apply Forall_forall. intros x _. apply Good_selection. }
    finish_ext.
  Qed.

  Lemma Good_definition x : Good (visit_definition h s x) (ctr_definition s x).
  Proof.
    destruct x as [o|f]; unfold visit_definition, ctr_definition, def_type.
    - unfold visit_operation_definition, ctr_operation.
      eapply Good_ext; cycle 1.
      { good_core; first [apply Good_directives | apply Good_vardefs | apply Good_selection_set]. }
      finish_ext.
    - unfold visit_fragment_definition, ctr_fragment.
      eapply Good_ext; cycle 1.
      { good_core; first [apply Good_directives | apply Good_selection_set]. }
      finish_ext.
  Qed.

  Theorem visit_document_fusion d : Good (visit_document h s d) (ctr_document s d).
  Proof.
    unfold visit_document, ctr_document.
    eapply Good_ext; cycle 1.
    { good_core. apply Good_seqv. apply Forall_forall. intros x _. apply Good_definition. }
    finish_ext.
  Qed.
End Fusion.

(* C19_proofs.v — collect_fields: totality, equality with the specification's CollectFields,
   and the grouping lemma.  Also: reusable facts about name lists / association lists
   (mem_name, distinct_keys, al_get / al_set on a tabulated map) used by C11_proofs.v. *)
From GT Require Import Visitor CollectFields Validate.
From GTS Require Import Annot WfSchema SpecRules SpecCollect SpecValid.
From GTP Require Import VisitorFacts.

(* ================================================================ names *)
Lemma name_eqb_eq a b : name_eqb a b = true <-> a = b.
Proof. unfold name_eqb. apply String.eqb_eq. Qed.
Lemma name_eqb_neq a b : name_eqb a b = false <-> a <> b.
Proof. unfold name_eqb. apply String.eqb_neq. Qed.
Lemma name_eqb_refl a : name_eqb a a = true.
Proof. apply name_eqb_eq. reflexivity. Qed.
Lemma name_eqb_sym a b : name_eqb a b = name_eqb b a.
Proof. unfold name_eqb. apply String.eqb_sym. Qed.

Lemma mem_name_In n l : mem_name n l = true <-> In n l.
Proof.
  unfold mem_name. rewrite existsb_exists. split.
  - intros [x [Hin Heq]]. apply name_eqb_eq in Heq. subst x. exact Hin.
  - intro Hin. exists n. split; [exact Hin|apply name_eqb_refl].
Qed.
Lemma mem_name_not_In n l : mem_name n l = false <-> ~ In n l.
Proof.
  rewrite <- mem_name_In. destruct (mem_name n l); intuition congruence.
Qed.
Lemma mem_name_app n a b : mem_name n (a ++ b) = mem_name n a || mem_name n b.
Proof. unfold mem_name. apply existsb_app. Qed.
Lemma mem_name_rev n l : mem_name n (rev l) = mem_name n l.
Proof.
  destruct (mem_name n l) eqn:E.
  - apply mem_name_In. apply in_rev. rewrite rev_involutive. apply mem_name_In. exact E.
  - apply mem_name_not_In. intro H. apply in_rev in H. apply mem_name_In in H. congruence.
Qed.

(* ================================================================ distinct_keys *)
Lemma distinct_keys_In k a : forall seen, In k (distinct_keys a seen) <-> In k a /\ ~ In k seen.
Proof.
  induction a as [|x r IH]; intro seen; cbn [distinct_keys In].
  - tauto.
  - destruct (mem_name x seen) eqn:E.
    + rewrite IH. apply mem_name_In in E. split.
      * intros [H1 H2]. auto.
      * intros [[H1|H1] H2]; [subst x; contradiction|auto].
    + apply mem_name_not_In in E. cbn [In]. rewrite IH. cbn [In]. split.
      * intros [H|[H1 H2]]; [subst x; auto|]. split; [auto|]. intro H3. apply H2. auto.
      * intros [[H1|H1] H2]; [auto|]. destruct (string_dec x k) as [Heq|Hne]; [auto|].
        right. split; [exact H1|]. intros [H3|H3]; contradiction.
Qed.

Lemma distinct_keys_NoDup a : forall seen, NoDup (distinct_keys a seen).
Proof.
  induction a as [|x r IH]; intro seen; cbn [distinct_keys].
  - constructor.
  - destruct (mem_name x seen) eqn:E; [apply IH|].
    constructor; [|apply IH]. rewrite distinct_keys_In. intros [_ H]. apply H. left. reflexivity.
Qed.

Lemma distinct_keys_snoc k a : forall seen,
  distinct_keys (a ++ [k]) seen =
  distinct_keys a seen ++ (if mem_name k seen || mem_name k a then [] else [k]).
Proof.
  induction a as [|x r IH]; intro seen.
  - cbn [app distinct_keys mem_name existsb]. rewrite orb_false_r.
    destruct (mem_name k seen); reflexivity.
  - cbn [app distinct_keys]. destruct (mem_name x seen) eqn:E.
    + rewrite IH. f_equal. cbn [mem_name existsb]. fold (mem_name k r).
      destruct (name_eqb k x) eqn:Ek; [|reflexivity].
      apply name_eqb_eq in Ek. subst x. rewrite E. reflexivity.
    + rewrite IH. cbn [app]. f_equal. f_equal. cbn [mem_name existsb].
      fold (mem_name k r). fold (mem_name k seen).
      destruct (name_eqb k x), (mem_name k seen), (mem_name k r); reflexivity.
Qed.

(* ================================================================ tabulated association lists *)
Definition tab {V} (G : name -> V) (ks : list name) : list (name * V) := map (fun k => (k, G k)) ks.

Lemma al_get_tab {V} (G : name -> V) k ks :
  al_get k (tab G ks) = if mem_name k ks then Some (G k) else None.
Proof.
  induction ks as [|x r IH]; [reflexivity|].
  cbn [tab map al_get mem_name existsb]. fold (tab G r). fold (mem_name k r).
  destruct (name_eqb k x) eqn:E.
  - apply name_eqb_eq in E. subst x. reflexivity.
  - cbn [orb]. exact IH.
Qed.

Lemma al_set_tab {V} (G G' : name -> V) k ks :
  NoDup ks -> In k ks -> (forall k', k' <> k -> G' k' = G k') ->
  al_set k (G' k) (tab G ks) = tab G' ks.
Proof.
  intros Hnd Hin Hext. induction ks as [|x r IH]; [destruct Hin|].
  cbn [tab map al_set]. fold (tab G r). fold (tab G' r). inversion Hnd as [|x' r' Hx Hr]; subst.
  destruct (name_eqb k x) eqn:E.
  - apply name_eqb_eq in E. subst x. f_equal. unfold tab. apply map_ext_in.
    intros k' Hk'. f_equal. symmetry. apply Hext. intro Heq. subst k'. contradiction.
  - apply name_eqb_neq in E. rewrite (Hext x) by congruence. f_equal. apply IH; [exact Hr|].
    destruct Hin as [Heq|Hin]; [congruence|exact Hin].
Qed.

Lemma tab_app {V} (G : name -> V) a b : tab G (a ++ b) = tab G a ++ tab G b.
Proof. unfold tab. apply map_app. Qed.

Lemma tab_ext_in {V} (G G' : name -> V) ks : (forall k, In k ks -> G k = G' k) -> tab G ks = tab G' ks.
Proof. intro H. unfold tab. apply map_ext_in. intros k Hk. rewrite H by exact Hk. reflexivity. Qed.

(* one "update or insert at the end" step on a tabulated map whose keys are the distinct keys of
   a list [a], when key [k] is appended to [a] *)
Lemma upsert_tab {V} (G G' : name -> V) (upd : V -> V) (init : V) (a : list name) (k : name) :
  (forall k', k' <> k -> G' k' = G k') ->
  (In k a -> G' k = upd (G k)) ->
  (~ In k a -> G' k = init) ->
  match al_get k (tab G (distinct_keys a [])) with
  | Some v => al_set k (upd v) (tab G (distinct_keys a []))
  | None => tab G (distinct_keys a []) ++ [(k, init)]
  end = tab G' (distinct_keys (a ++ [k]) []).
Proof.
  intros Hext Hupd Hinit. rewrite al_get_tab, distinct_keys_snoc. cbn [mem_name existsb orb].
  fold (mem_name k a).
  destruct (mem_name k (distinct_keys a [])) eqn:E.
  - apply mem_name_In in E. pose proof E as E'. apply distinct_keys_In in E'. destruct E' as [Hin _].
    pose proof Hin as Hm. apply mem_name_In in Hm. rewrite Hm, app_nil_r.
    rewrite <- (Hupd Hin). apply al_set_tab; [apply distinct_keys_NoDup|exact E|exact Hext].
  - apply mem_name_not_In in E. assert (Hnin : ~ In k a).
    { intro Hin. apply E. apply distinct_keys_In. split; [exact Hin|]. intros []. }
    pose proof Hnin as Hm. apply mem_name_not_In in Hm.
    rewrite Hm, tab_app, <- (Hinit Hnin). f_equal. apply tab_ext_in. intros k' Hk'. symmetry. apply Hext.
    intro Heq. subst k'. contradiction.
Qed.

(* ================================================================ group_by_key *)
Definition keyfilter (l : list selection) (k : name) : list selection :=
  filter (fun g => name_eqb (field_response_key g) k) l.

Lemma group_by_key_tab l :
  group_by_key l = tab (keyfilter l) (distinct_keys (map field_response_key l) []).
Proof. reflexivity. Qed.

Lemma response_key_eq f : response_key f = field_response_key f.
Proof. reflexivity. Qed.

Lemma keyfilter_nil l k : ~ In k (map field_response_key l) -> keyfilter l k = [].
Proof.
  intro Hnin. unfold keyfilter.
  destruct (filter (fun g => name_eqb (field_response_key g) k) l) as [|g r] eqn:Ef; [reflexivity|].
  exfalso. assert (Hg : In g (g :: r)) by (left; reflexivity). rewrite <- Ef in Hg.
  apply filter_In in Hg. destruct Hg as [Hg Hk]. apply name_eqb_eq in Hk.
  apply Hnin. rewrite <- Hk. apply in_map. exact Hg.
Qed.

Lemma keyfilter_snoc l f k :
  keyfilter (l ++ [f]) k = keyfilter l k ++ (if name_eqb (field_response_key f) k then [f] else []).
Proof. unfold keyfilter. rewrite filter_app. reflexivity. Qed.

Lemma cf_push_group l f :
  cf_push (response_key f) f (group_by_key l) = group_by_key (l ++ [f]).
Proof.
  rewrite !group_by_key_tab, map_app. cbn [map]. rewrite response_key_eq.
  unfold cf_push.
  apply (upsert_tab (keyfilter l) (keyfilter (l ++ [f])) (fun fs => fs ++ [f]) [f]
                    (map field_response_key l) (field_response_key f)).
  - intros k' Hne. rewrite keyfilter_snoc.
    destruct (name_eqb (field_response_key f) k') eqn:E.
    + apply name_eqb_eq in E. congruence.
    + apply app_nil_r.
  - intros _. rewrite keyfilter_snoc, name_eqb_refl. reflexivity.
  - intro Hnin. rewrite keyfilter_snoc, name_eqb_refl, (keyfilter_nil l _ Hnin). reflexivity.
Qed.

Definition push_all (l : list selection) (m : field_groups) : field_groups :=
  fold_left (fun m f => cf_push (response_key f) f m) l m.

Lemma push_all_app a b m : push_all (a ++ b) m = push_all b (push_all a m).
Proof. unfold push_all. apply fold_left_app. Qed.

Lemma push_all_group l : forall l0, push_all l (group_by_key l0) = group_by_key (l0 ++ l).
Proof.
  induction l as [|f r IH]; intro l0.
  - rewrite app_nil_r. reflexivity.
  - unfold push_all. cbn [fold_left]. fold (push_all r (cf_push (response_key f) f (group_by_key l0))).
    rewrite cf_push_group, IH, <- app_assoc. reflexivity.
Qed.

Lemma push_all_nil l : push_all l [] = group_by_key l.
Proof. exact (push_all_group l []). Qed.

Lemma group_by_key_spec : forall l : list selection,
  NoDup (map fst (group_by_key l)) /\
  (forall k fs, In (k, fs) (group_by_key l) ->
     fs <> [] /\ fs = filter (fun g => name_eqb (field_response_key g) k) l) /\
  (forall f, In f l <-> exists k fs, In (k, fs) (group_by_key l) /\ In f fs).
Proof.
  intro l. rewrite group_by_key_tab. unfold tab. split; [|split].
  - rewrite map_map. cbn [fst]. rewrite map_id. apply distinct_keys_NoDup.
  - intros k fs Hin. apply in_map_iff in Hin. destruct Hin as [k0 [Heq Hk0]].
    inversion Heq; subst k0 fs. split; [|reflexivity].
    apply distinct_keys_In in Hk0. destruct Hk0 as [Hk0 _]. apply in_map_iff in Hk0.
    destruct Hk0 as [g [Hg Hgl]]. intro Hnil.
    assert (Hgf : In g (keyfilter l k)).
    { unfold keyfilter. apply filter_In. split; [exact Hgl|]. apply name_eqb_eq. exact Hg. }
    rewrite Hnil in Hgf. destruct Hgf.
  - intro f. split.
    + intro Hf. exists (field_response_key f), (keyfilter l (field_response_key f)). split.
      * apply in_map_iff. exists (field_response_key f). split; [reflexivity|].
        apply distinct_keys_In. split; [apply in_map; exact Hf|intros []].
      * unfold keyfilter. apply filter_In. split; [exact Hf|apply name_eqb_refl].
    + intros [k [fs [Hin Hf]]]. apply in_map_iff in Hin. destruct Hin as [k0 [Heq _]].
      inversion Heq; subst k0 fs. unfold keyfilter in Hf. apply filter_In in Hf. tauto.
Qed.

(* ================================================================ the model's recursion, opened *)
Section CFM.
  Variables (s : sdocument) (d : document) (parent : type_def).
  Variable rec : list selection -> cf_state -> option cf_state.
  Fixpoint m_one (x : selection) (st : cf_state) {struct x} : option cf_state :=
    match x with
    | SField _ _ _ _ _ _ _ => Some (cf_push (response_key x) x (fst st), snd st)
    | SInline _ tc _ _ ss =>
        if does_fragment_condition_match s tc parent then
          (fix many (l : list selection) (st : cf_state) {struct l} : option cf_state :=
             match l with
             | [] => Some st
             | y :: r => match m_one y st with Some st' => many r st' | None => None end
             end) ss st
        else Some st
    | SSpread _ n _ =>
        if mem_name n (snd st) then Some st
        else
          let st1 := (fst st, snd st ++ [n]) in
          match known_fragment d n with
          | Some fr =>
              if does_fragment_condition_match s (Some (fr_tc fr)) parent
              then rec (fr_sels fr) st1
              else Some st1
          | None => Some st1
          end
    end.
  Fixpoint m_many (l : list selection) (st : cf_state) {struct l} : option cf_state :=
    match l with
    | [] => Some st
    | y :: r => match m_one y st with Some st' => m_many r st' | None => None end
    end.
  Lemma m_one_inline p tc dirs sp ss st :
    m_one (SInline p tc dirs sp ss) st =
    if does_fragment_condition_match s tc parent then m_many ss st else Some st.
  Proof. reflexivity. Qed.
End CFM.

Lemma inner_S fuel s d p sels st :
  collect_fields_inner (S fuel) s d p sels st = m_many s d p (collect_fields_inner fuel s d p) sels st.
Proof. reflexivity. Qed.

(* ================================================================ totality *)
Definition frag_name_list (d : document) : list name := map fr_name (fragments_of d).

(* number of fragment definitions whose name has not been visited yet *)
Definition avail (d : document) (visited : list name) : nat :=
  List.length (filter (fun n => negb (mem_name n visited)) (frag_name_list d)).

Definition vsub (v v' : list name) : Prop := forall n, mem_name n v = true -> mem_name n v' = true.

Lemma vsub_refl v : vsub v v.
Proof. intros n H. exact H. Qed.
Lemma vsub_trans a b c : vsub a b -> vsub b c -> vsub a c.
Proof. intros H1 H2 n H. apply H2, H1, H. Qed.
Lemma vsub_snoc v n : vsub v (v ++ [n]).
Proof. intros k H. rewrite mem_name_app, H. reflexivity. Qed.

Lemma filter_length_le {A} (p q : A -> bool) l :
  (forall x, p x = true -> q x = true) -> List.length (filter p l) <= List.length (filter q l).
Proof.
  intro H. induction l as [|x r IH]; cbn [filter]; [lia|].
  destruct (p x) eqn:Ep.
  - rewrite (H x Ep). cbn [List.length]. lia.
  - destruct (q x); cbn [List.length]; lia.
Qed.
Lemma filter_length_lt {A} (p q : A -> bool) l x0 :
  (forall x, p x = true -> q x = true) -> In x0 l -> p x0 = false -> q x0 = true ->
  List.length (filter p l) < List.length (filter q l).
Proof.
  intros H Hin Hp Hq. induction l as [|x r IH]; [destruct Hin|]. cbn [filter].
  destruct Hin as [Heq|Hin].
  - subst x. rewrite Hp, Hq. cbn [List.length]. pose proof (filter_length_le p q r H). lia.
  - specialize (IH Hin). destruct (p x) eqn:Ep.
    + rewrite (H x Ep). cbn [List.length]. lia.
    + destruct (q x); cbn [List.length]; lia.
Qed.

Lemma avail_mono d v v' : vsub v v' -> avail d v' <= avail d v.
Proof.
  intro H. unfold avail. apply filter_length_le. intros n Hn.
  destruct (mem_name n v) eqn:E; [|reflexivity]. rewrite (H n E) in Hn. discriminate.
Qed.
Lemma avail_snoc d v n :
  In n (frag_name_list d) -> mem_name n v = false -> avail d (v ++ [n]) < avail d v.
Proof.
  intros Hin Hm. unfold avail. apply filter_length_lt with (x0 := n).
  - intros k Hk. rewrite mem_name_app in Hk. destruct (mem_name k v); [discriminate|reflexivity].
  - exact Hin.
  - rewrite mem_name_app. cbn [mem_name existsb]. rewrite name_eqb_refl, orb_true_r. reflexivity.
  - rewrite Hm. reflexivity.
Qed.

Lemma known_fragment_name d n fr : known_fragment d n = Some fr -> fr_name fr = n /\ In fr (fragments_of d).
Proof.
  induction d as [|x r IH]; cbn [known_fragment]; [discriminate|].
  destruct x as [o|f]; cbn [fragments_of flat_map app]; fold (fragments_of r).
  - exact IH.
  - destruct (known_fragment r n) as [g|] eqn:E.
    + intro H. inversion H; subst g. destruct (IH eq_refl) as [H1 H2]. split; [exact H1|right; exact H2].
    + destruct (name_eqb n (fr_name f)) eqn:En; [|discriminate].
      intro H. inversion H; subst f. apply name_eqb_eq in En. split; [auto|left; reflexivity].
Qed.

Section Total.
  Variables (s : sdocument) (d : document) (p : type_def).
  Variable rec : list selection -> cf_state -> option cf_state.
  Variable f : nat.
  Hypothesis Hrec : forall sels st, avail d (snd st) < f ->
    exists st', rec sels st = Some st' /\ vsub (snd st) (snd st').

  Definition tot_one (x : selection) : Prop :=
    forall st, avail d (snd st) <= f ->
    exists st', m_one s d p rec x st = Some st' /\ vsub (snd st) (snd st').

  Lemma tot_many l : Forall tot_one l ->
    forall st, avail d (snd st) <= f ->
    exists st', m_many s d p rec l st = Some st' /\ vsub (snd st) (snd st').
  Proof.
    induction 1 as [|y r Hy Hr IH]; intros st Hst; cbn [m_many].
    - exists st. split; [reflexivity|apply vsub_refl].
    - destruct (Hy st Hst) as [st1 [E1 S1]]. rewrite E1.
      assert (H1 : avail d (snd st1) <= f) by (pose proof (avail_mono d _ _ S1); lia).
      destruct (IH st1 H1) as [st2 [E2 S2]]. exists st2. split; [exact E2|].
      eapply vsub_trans; eassumption.
  Qed.

  Lemma tot_one_all x : tot_one x.
  Proof.
    induction x as [pp al n args dirs sp sels IH|pp n dirs|pp tc dirs sp sels IH] using selection_ind';
      intros st Hst.
    - cbn [m_one]. eexists. split; [reflexivity|]. cbn [snd]. apply vsub_refl.
    - cbn [m_one]. destruct (mem_name n (snd st)) eqn:Em.
      + exists st. split; [reflexivity|apply vsub_refl].
      + cbv zeta. destruct (known_fragment d n) as [fr|] eqn:Ek.
        * destruct (does_fragment_condition_match s (Some (fr_tc fr)) p).
          -- apply known_fragment_name in Ek. destruct Ek as [Hn Hin].
             assert (Hlt : avail d (snd st ++ [n]) < avail d (snd st)).
             { apply avail_snoc; [|exact Em]. unfold frag_name_list. rewrite <- Hn. apply in_map. exact Hin. }
             destruct (Hrec (fr_sels fr) (fst st, snd st ++ [n])) as [st' [E S]]; [cbn [snd]; lia|].
             exists st'. split; [exact E|]. cbn [snd] in S. eapply vsub_trans; [apply vsub_snoc|exact S].
          -- eexists. split; [reflexivity|]. cbn [snd]. apply vsub_snoc.
        * eexists. split; [reflexivity|]. cbn [snd]. apply vsub_snoc.
    - rewrite m_one_inline. destruct (does_fragment_condition_match s tc p).
      + apply tot_many; assumption.
      + exists st. split; [reflexivity|apply vsub_refl].
  Qed.
End Total.

Lemma inner_total s d p : forall fuel sels st, avail d (snd st) < fuel ->
  exists st', collect_fields_inner fuel s d p sels st = Some st' /\ vsub (snd st) (snd st').
Proof.
  induction fuel as [|f IH]; intros sels st Hst; [lia|].
  rewrite inner_S. apply (tot_many s d p (collect_fields_inner f s d p) f).
  - apply Forall_forall. intros x _. apply tot_one_all. exact IH.
  - lia.
Qed.

Lemma avail_nil d : avail d [] = List.length (fragments_of d).
Proof.
  unfold avail, frag_name_list. cbn [mem_name existsb negb].
  rewrite <- (map_length fr_name (fragments_of d)).
  induction (map fr_name (fragments_of d)) as [|x r IH]; [reflexivity|].
  cbn [filter List.length]. rewrite IH. reflexivity.
Qed.

Lemma collect_fields_total : forall s d p sels, exists r, collect_fields s d p sels = Some r.
Proof.
  intros s d p sels. unfold collect_fields.
  destruct (inner_total s d p (collect_fields_fuel d) sels ([], [])) as [st' [E _]].
  - cbn [snd]. rewrite avail_nil. unfold collect_fields_fuel. lia.
  - rewrite E. exists (fst st'). reflexivity.
Qed.

(* ================================================================ the spec's recursion, opened *)
Section CFS.
  Variables (s : sdocument) (d : document) (obj : type_def).
  Variable rec : list selection -> list name -> list selection * list name.
  Fixpoint s_one (x : selection) (visited : list name) {struct x} : list selection * list name :=
    match x with
    | SField _ _ _ _ _ _ _ => ([x], visited)
    | SInline _ tc _ _ ss =>
        if match tc with None => true | Some c => fragment_type_applies s obj c end then
          (fix many (l : list selection) (visited : list name) {struct l} :=
             match l with
             | [] => ([], visited)
             | y :: r => let '(a, v1) := s_one y visited in
                         let '(b, v2) := many r v1 in (a ++ b, v2)
             end) ss visited
        else ([], visited)
    | SSpread _ n _ =>
        if mem_name n visited then ([], visited)
        else match find_fragment d n with
             | Some fr =>
                 if fragment_type_applies s obj (fr_tc fr)
                 then rec (fr_sels fr) (n :: visited)
                 else ([], n :: visited)
             | None => ([], n :: visited)
             end
    end.
  Fixpoint s_many (l : list selection) (visited : list name) {struct l} : list selection * list name :=
    match l with
    | [] => ([], visited)
    | y :: r => let '(a, v1) := s_one y visited in
                let '(b, v2) := s_many r v1 in (a ++ b, v2)
    end.
  Lemma s_one_inline p tc dirs sp ss v :
    s_one (SInline p tc dirs sp ss) v =
    if match tc with None => true | Some c => fragment_type_applies s obj c end then s_many ss v else ([], v).
  Proof. reflexivity. Qed.
End CFS.

Lemma spec_S fuel s d p sels v :
  spec_collect_list (S fuel) s d p sels v = s_many s d p (spec_collect_list fuel s d p) sels v.
Proof. reflexivity. Qed.

(* ================================================================ ingredients *)
Lemma type_by_name_name s n t : type_by_name s n = Some t -> td_name t = n.
Proof.
  induction s as [|x r IH]; cbn [type_by_name]; [discriminate|].
  destruct x as [sd|t'|dd|ext]; try exact IH.
  destruct (name_eqb (td_name t') n) eqn:E; [|exact IH].
  intro H. inversion H; subst t'. apply name_eqb_eq. exact E.
Qed.

Lemma cond_match_spec s p c :
  type_by_name s (td_name p) = Some p -> td_is_object p = true ->
  does_fragment_condition_match s (Some c) p = fragment_type_applies s p c.
Proof.
  intros Hp Hobj. unfold does_fragment_condition_match, fragment_type_applies.
  destruct (type_by_name s c) as [ct|] eqn:Ec; [|reflexivity].
  pose proof (type_by_name_name _ _ _ Ec) as Hn.
  destruct (name_eqb (td_name ct) (td_name p)) eqn:E.
  - apply name_eqb_eq in E. assert (Hct : ct = p).
    { rewrite <- E, Hn in Hp. congruence. }
    subst ct. destruct p; try discriminate Hobj. cbn [td_name]. symmetry. apply name_eqb_refl.
  - destruct ct; cbn [td_name] in E; try reflexivity. symmetry. exact E.
Qed.

Lemma cond_match_spec_opt s p tc :
  type_by_name s (td_name p) = Some p -> td_is_object p = true ->
  does_fragment_condition_match s tc p =
  match tc with None => true | Some c => fragment_type_applies s p c end.
Proof. intros Hp Hobj. destruct tc as [c|]; [apply cond_match_spec; assumption|reflexivity]. Qed.

Lemma find_first_snoc {A} (q : A -> bool) l x :
  find_first q (l ++ [x]) =
  match find_first q l with Some g => Some g | None => if q x then Some x else None end.
Proof.
  induction l as [|y r IH]; cbn [app find_first]; [reflexivity|].
  destruct (q y); [reflexivity|exact IH].
Qed.

(* the HashMap of fragments and the spec's lookup agree (the last definition of a name wins) *)
Lemma known_fragment_find d n : known_fragment d n = find_fragment d n.
Proof.
  unfold find_fragment. induction d as [|x r IH]; [reflexivity|].
  destruct x as [o|f]; cbn [known_fragment fragments_of flat_map app]; fold (fragments_of r).
  - exact IH.
  - cbn [rev]. rewrite find_first_snoc, <- IH, (name_eqb_sym (fr_name f) n). reflexivity.
Qed.

(* ================================================================ model result = spec result *)
Section Rel.
  Variables (s : sdocument) (d : document) (p : type_def).
  Hypothesis Hp : type_by_name s (td_name p) = Some p.
  Hypothesis Hobj : td_is_object p = true.
  Variable recm : list selection -> cf_state -> option cf_state.
  Variable recs : list selection -> list name -> list selection * list name.
  Hypothesis Hrec : forall sels m v st', recm sels (m, rev v) = Some st' ->
    st' = (push_all (fst (recs sels v)) m, rev (snd (recs sels v))).

  Definition rel_one (x : selection) : Prop :=
    forall m v st', m_one s d p recm x (m, rev v) = Some st' ->
    st' = (push_all (fst (s_one s d p recs x v)) m, rev (snd (s_one s d p recs x v))).

  Lemma rel_many l : Forall rel_one l ->
    forall m v st', m_many s d p recm l (m, rev v) = Some st' ->
    st' = (push_all (fst (s_many s d p recs l v)) m, rev (snd (s_many s d p recs l v))).
  Proof.
    induction 1 as [|y r Hy Hr IH]; intros m v st' H; cbn [m_many s_many] in *.
    - inversion H. reflexivity.
    - destruct (m_one s d p recm y (m, rev v)) as [st1|] eqn:E1; [|discriminate].
      apply Hy in E1. subst st1. apply IH in H. subst st'.
      destruct (s_one s d p recs y v) as [a v1]. cbn [fst snd].
      destruct (s_many s d p recs r v1) as [b v2]. cbn [fst snd].
      rewrite push_all_app. reflexivity.
  Qed.

  Lemma rel_one_all x : rel_one x.
  Proof.
    induction x as [pp al n args dirs sp sels IH|pp n dirs|pp tc dirs sp sels IH] using selection_ind';
      intros m v st' H.
    - cbn [m_one s_one fst snd] in *. inversion H. reflexivity.
    - cbn [m_one s_one fst snd] in *. rewrite mem_name_rev in H.
      destruct (mem_name n v) eqn:Em.
      + inversion H. reflexivity.
      + cbv zeta in H. cbn [fst snd] in H. rewrite known_fragment_find in H.
        change (rev v ++ [n]) with (rev (n :: v)) in H.
        destruct (find_fragment d n) as [fr|].
        * rewrite (cond_match_spec s p (fr_tc fr) Hp Hobj) in H.
          destruct (fragment_type_applies s p (fr_tc fr)).
          -- apply Hrec. exact H.
          -- inversion H. reflexivity.
        * inversion H. reflexivity.
    - rewrite m_one_inline in H. rewrite s_one_inline.
      rewrite (cond_match_spec_opt s p tc Hp Hobj) in H.
      destruct (match tc with None => true | Some c => fragment_type_applies s p c end).
      + apply rel_many; assumption.
      + inversion H. reflexivity.
  Qed.
End Rel.

Lemma inner_rel s d p :
  type_by_name s (td_name p) = Some p -> td_is_object p = true ->
  forall fuel sels m v st',
    collect_fields_inner fuel s d p sels (m, rev v) = Some st' ->
    st' = (push_all (fst (spec_collect_list fuel s d p sels v)) m,
           rev (snd (spec_collect_list fuel s d p sels v))).
Proof.
  intros Hp Hobj. induction fuel as [|f IH]; intros sels m v st' H; [discriminate|].
  rewrite inner_S in H. rewrite spec_S.
  apply (rel_many s d p (collect_fields_inner f s d p) (spec_collect_list f s d p)); [|exact H].
  apply Forall_forall. intros x _. apply rel_one_all; assumption.
Qed.

(* the hypotheses actually used: p is the definition the schema gives for its own name, and an object *)
Lemma collect_fields_spec_strong s d p sels :
  type_by_name s (td_name p) = Some p -> td_is_object p = true ->
  collect_fields s d p sels = Some (spec_collect s d p sels).
Proof.
  intros Hp Hobj. destruct (collect_fields_total s d p sels) as [r Hr]. rewrite Hr. f_equal.
  unfold collect_fields in Hr.
  destruct (collect_fields_inner (collect_fields_fuel d) s d p sels ([], [])) as [st'|] eqn:E; [|discriminate].
  cbn [opt_map] in Hr. inversion Hr; subst r.
  apply (inner_rel s d p Hp Hobj (collect_fields_fuel d) sels [] []) in E. subst st'. cbn [fst].
  rewrite push_all_nil. reflexivity.
Qed.

Lemma collect_fields_spec : forall s d p sels,
  wf_schema s = true -> distinct_fragments d = true ->
  type_by_name s (td_name p) = Some p -> td_is_object p = true ->
  collect_fields s d p sels = Some (spec_collect s d p sels).
Proof. intros s d p sels _ _. apply collect_fields_spec_strong. Qed.

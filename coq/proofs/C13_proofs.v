(* C13_proofs.v — the errors of every rule carry the rule's own code, and (for every rule but the
   merge rule) every reported location is the position of a node of the validated document. *)
From GT Require Import Visitor Validate.
From GTS Require Import SpecLin Annot WfSchema SpecRules SpecValid.
From GTP Require Import VisitorFacts TraceFacts RuleFacts EventFacts.

(* ================================================================== generic *)
Lemma fold_inv {St X} (P : St -> Prop) (f : St -> X -> St) (l : list X) (st : St) :
  P st -> (forall st x, In x l -> P st -> P (f st x)) -> P (fold_left f l st).
Proof.
  revert st. induction l as [|x r IH]; intros st H0 Hs; cbn [fold_left]; [exact H0|].
  apply IH.
  - apply Hs; [left; reflexivity|exact H0].
  - intros st' y Hy. apply Hs. right. exact Hy.
Qed.

Lemma Forall_flat_map_all {A B} (Q : B -> Prop) (f : A -> list B) (l : list A) :
  (forall x, In x l -> Forall Q (f x)) -> Forall Q (flat_map f l).
Proof.
  induction l as [|x r IH]; intro H; cbn [flat_map]; [constructor|].
  apply Forall_app. split; [apply H; left; reflexivity|apply IH; intros y Hy; apply H; right; exact Hy].
Qed.

Lemma Forall_map_all {A B} (Q : B -> Prop) (f : A -> B) (l : list A) :
  (forall x, In x l -> Q (f x)) -> Forall Q (map f l).
Proof.
  induction l as [|x r IH]; intro H; cbn [map]; constructor.
  - apply H. left. reflexivity.
  - apply IH. intros y Hy. apply H. right. exact Hy.
Qed.

Lemma Forall_repeat_all {B} (Q : B -> Prop) (x : B) (n : nat) : Q x -> Forall Q (repeat x n).
Proof. intro H. induction n; cbn [repeat]; constructor; assumption. Qed.

(* decompose a goal [Forall Q errs] along the shape of [errs]; [fin] proves [Q e] for a single error *)
Ltac allq fin :=
  repeat first
    [ assumption
    | apply Forall_nil
    | apply Forall_app; split
    | apply Forall_cons; [solve [fin]|]
    | apply Forall_flat_map_all; intros
    | apply Forall_map_all; intros; solve [fin]
    | apply Forall_repeat_all; solve [fin]
    | match goal with
      | |- Forall _ (if ?b then _ else _) => destruct b eqn:?
      | |- Forall _ (match ?x with _ => _ end) => destruct x eqn:?
      end ].

(* ================================================================== 1. codes *)
Definition has_rule (r : rule_id) (e : verror) : Prop := e_rule e = r.
Definition allr (r : rule_id) (l : list verror) : Prop := Forall (has_rule r) l.

Ltac allr_tac := unfold allr in *; allq ltac:(reflexivity).
Ltac by_event e := let n := fresh "n" in destruct e as [n|n]; [destruct n|].

Lemma lao_codes st e c : allr R_LoneAnonymousOperation st -> allr R_LoneAnonymousOperation (lao_step st e c).
Proof. intro H. by_event e; cbn [lao_step]; allr_tac. Qed.

Lemma sfs_codes s d st e c :
  allr R_SingleFieldSubscriptions (r_errors st) -> allr R_SingleFieldSubscriptions (r_errors (sfs_step s d st e c)).
Proof.
  intro H. by_event e; cbn [sfs_step]; try exact H.
  destruct (o_kind o); try exact H. destruct (subscription_type s); try exact H.
  destruct (collect_fields s d t (o_sels o)); cbn [r_errors]; allr_tac.
Qed.

Lemma ktn_codes s st e c : allr R_KnownTypeNames st -> allr R_KnownTypeNames (ktn_step s st e c).
Proof. intro H. by_event e; cbn [ktn_step]; allr_tac. Qed.

Lemma foc_codes s st e c : allr R_FragmentsOnCompositeTypes st -> allr R_FragmentsOnCompositeTypes (foc_step s st e c).
Proof. intro H. by_event e; cbn [foc_step]; allr_tac. Qed.

Lemma vit_codes s st e c : allr R_VariablesAreInputTypes st -> allr R_VariablesAreInputTypes (vit_step s st e c).
Proof. intro H. by_event e; cbn [vit_step]; allr_tac. Qed.

Lemma lfs_codes st e c : allr R_LeafFieldSelections st -> allr R_LeafFieldSelections (lfs_step st e c).
Proof. intro H. by_event e; cbn [lfs_step]; allr_tac. Qed.

Lemma foct_codes s st e c : allr R_FieldsOnCorrectType st -> allr R_FieldsOnCorrectType (foct_step s st e c).
Proof. intro H. by_event e; cbn [foct_step]; allr_tac. Qed.

Lemma kfn_codes d st e c : allr R_KnownFragmentNames st -> allr R_KnownFragmentNames (kfn_step d st e c).
Proof. intro H. by_event e; cbn [kfn_step]; allr_tac. Qed.

Lemma nuf_codes d st e c :
  allr R_NoUnusedFragments (r_errors (nuf_res st)) -> allr R_NoUnusedFragments (r_errors (nuf_res (nuf_step d st e c))).
Proof.
  intro H. by_event e; cbn [nuf_step]; try exact H.
  - destruct f; try exact H. destruct (nuf_current st); exact H.
  - destruct n; try exact H.
    destruct (nuf_reach _ _ _ _); cbn [nuf_res r_errors]; allr_tac.
Qed.

(* the depth-first search of no_fragments_cycle *)
Lemma detect_cycles_inv (Q : verror -> Prop) d (P : fragment_def -> list (pos * name) -> Prop) :
  (forall frag paths sp def,
      P frag paths -> In sp (get_recursive_fragment_spreads (fr_sels frag)) ->
      known_fragment d (snd sp) = Some def -> P def (paths ++ [sp])) ->
  (forall frag paths sp idx,
      P frag paths -> In sp (get_recursive_fragment_spreads (fr_sels frag)) ->
      Q (err R_NoFragmentsCycle (map fst (skipn idx (paths ++ [sp]))))) ->
  forall fuel frag paths index visited errs v' e',
    P frag paths -> Forall Q errs ->
    detect_cycles fuel d frag paths index visited errs = Some (v', e') -> Forall Q e'.
Proof.
  intros HP HQ. induction fuel as [|fuel IH]; intros frag paths index visited errs v' e' Hp He Hd; [discriminate|].
  cbn [detect_cycles] in Hd.
  destruct (mem_name (fr_name frag) visited); [inversion Hd; subst; exact He|].
  destruct (is_nil (get_recursive_fragment_spreads (fr_sels frag))); [inversion Hd; subst; exact He|].
  revert Hd. generalize (visited ++ [fr_name frag]) as vis.
  generalize (al_set (fr_name frag) (List.length paths) index) as index1.
  assert (Hincl : incl (get_recursive_fragment_spreads (fr_sels frag)) (get_recursive_fragment_spreads (fr_sels frag)))
    by apply incl_refl.
  revert Hincl He. generalize errs.
  generalize (get_recursive_fragment_spreads (fr_sels frag)) at 1 3 as l.
  induction l as [|sp r IHl]; intros errs0 Hincl He index1 vis Hd.
  - inversion Hd; subst. exact He.
  - assert (Hsp : In sp (get_recursive_fragment_spreads (fr_sels frag))) by (apply Hincl; left; reflexivity).
    assert (Hr : incl r (get_recursive_fragment_spreads (fr_sels frag))) by (intros y Hy; apply Hincl; right; exact Hy).
    destruct (al_get (snd sp) index1) as [idx|].
    + eapply IHl; [exact Hr| |exact Hd]. apply Forall_app. split; [exact He|].
      constructor; [|constructor]. eapply HQ; eassumption.
    + destruct (known_fragment d (snd sp)) as [def|] eqn:Ek.
      * destruct (detect_cycles fuel d def (paths ++ [sp]) index1 vis errs0) as [[v1 e1]|] eqn:Edc; [|discriminate].
        eapply IHl; [exact Hr| |exact Hd].
        eapply IH; [|exact He|exact Edc]. eapply HP; eassumption.
      * eapply IHl; [exact Hr|exact He|exact Hd].
Qed.

Lemma nfc_codes d st e c :
  allr R_NoFragmentsCycle (r_errors (nfc_res st)) -> allr R_NoFragmentsCycle (r_errors (nfc_res (nfc_step d st e c))).
Proof.
  intro H. by_event e; cbn [nfc_step]; try exact H.
  destruct (detect_cycles _ _ _ _ _ _ _) as [[v errs]|] eqn:E; cbn [nfc_res r_errors]; [|exact H].
  eapply (detect_cycles_inv (has_rule R_NoFragmentsCycle) d (fun _ _ => True)); [auto|reflexivity|exact I|exact H|exact E].
Qed.

Lemma pfs_codes s d st e c : allr R_PossibleFragmentSpreads st -> allr R_PossibleFragmentSpreads (pfs_step s d st e c).
Proof. intro H. by_event e; cbn [pfs_step]; allr_tac. Qed.

Lemma nuv_finish_codes d st : allr R_NoUnusedVariables (r_errors (nuv_finish d st)).
Proof.
  unfold nuv_finish. apply (fold_inv (fun res => allr R_NoUnusedVariables (r_errors res))).
  - constructor.
  - intros res entry _ H. destruct (vars_walk _ _ _ _ _ _) as [[used vis]|]; cbn [r_errors]; allr_tac.
Qed.

Lemma nudv_finish_codes d st : allr R_NoUndefinedVariables (r_errors (nudv_finish d st)).
Proof.
  unfold nudv_finish. apply (fold_inv (fun res => allr R_NoUndefinedVariables (r_errors res))).
  - constructor.
  - intros res entry _ H. destruct (vars_walk _ _ _ _ _ _) as [[used vis]|]; cbn [r_errors]; allr_tac.
Qed.

Lemma kan_codes s st e c :
  allr R_KnownArgumentNames (kan_errs st) -> allr R_KnownArgumentNames (kan_errs (kan_step s st e c)).
Proof.
  intro H. by_event e; cbn [kan_step]; try exact H.
  - destruct (kan_slot st) as [[owner defs]|]; try exact H.
    destruct (existsb _ defs); cbn [kan_errs]; allr_tac.
  - destruct f; exact H.
  - destruct n; exact H.
Qed.

Lemma uan_errors_codes p args : allr R_UniqueArgumentNames (uan_errors p args).
Proof. unfold uan_errors. allr_tac. Qed.

Lemma uan_codes st e c : allr R_UniqueArgumentNames st -> allr R_UniqueArgumentNames (uan_step st e c).
Proof.
  intro H. by_event e; cbn [uan_step]; try exact H.
  - apply Forall_app. split; [exact H|apply uan_errors_codes].
  - destruct f; try exact H. apply Forall_app. split; [exact H|apply uan_errors_codes].
Qed.

Lemma uvn_codes st e c :
  allr R_UniqueVariableNames (uvn_errs st) -> allr R_UniqueVariableNames (uvn_errs (uvn_step st e c)).
Proof.
  intro H. by_event e; cbn [uvn_step]; try exact H.
  destruct (al_get _ _); cbn [uvn_errs]; allr_tac.
Qed.

Lemma pra_codes s st e c : allr R_ProvidedRequiredArguments st -> allr R_ProvidedRequiredArguments (pra_step s st e c).
Proof. intro H. by_event e; cbn [pra_step]; allr_tac. Qed.

Lemma kd_codes s st e c : allr R_KnownDirectives (kd_errs st) -> allr R_KnownDirectives (kd_errs (kd_step s st e c)).
Proof.
  intro H. by_event e; cbn [kd_step]; try exact H.
  - destruct (directive_map_get s (d_name d)); [destruct (kd_loc st); [destruct (existsb _ _)|]|];
      cbn [kd_errs]; allr_tac.
  - destruct n; exact H.
Qed.

Lemma check_duplicate_directive_inv (Q : verror -> Prop) s dirs :
  (forall x, In x dirs -> Q (err R_UniqueDirectivesPerLocation [d_pos x])) ->
  Forall Q (check_duplicate_directive s dirs).
Proof.
  intro HQ. unfold check_duplicate_directive.
  apply (fold_inv (fun acc : list name * list verror => Forall Q (snd acc))).
  - constructor.
  - intros acc x Hx H. destruct (directive_map_get s (d_name x)); [|exact H].
    destruct (dd_repeatable d); [exact H|]. destruct (mem_name _ _); cbn [snd]; [|exact H].
    apply Forall_app. split; [exact H|]. constructor; [apply HQ; exact Hx|constructor].
Qed.

Lemma udl_codes s st e c : allr R_UniqueDirectivesPerLocation st -> allr R_UniqueDirectivesPerLocation (udl_step s st e c).
Proof.
  intro H. by_event e; cbn [udl_step]; try exact H; try destruct f; try exact H;
    (apply Forall_app; split; [exact H|apply check_duplicate_directive_inv; reflexivity]).
Qed.

(* variables_in_allowed_position: the reachability walk *)
Lemma viap_walk_inv (Q : verror -> Prop) s st var_defs :
  (forall from, Forall Q (usage_errors s var_defs
                            (match as_get scope_eqb from (vp_usages st) with Some l => l | None => [] end))) ->
  forall fuel from errs visited e' v',
    Forall Q errs -> viap_walk fuel s st var_defs from errs visited = Some (e', v') -> Forall Q e'.
Proof.
  intro HU. induction fuel as [|fuel IH]; intros from errs visited e' v' He Hw; [discriminate|].
  cbn [viap_walk] in Hw.
  destruct (existsb (scope_eqb from) visited); [inversion Hw; subst; exact He|].
  revert Hw. generalize (visited ++ [from]) as vis.
  assert (He1 : Forall Q (errs ++ usage_errors s var_defs
                            (match as_get scope_eqb from (vp_usages st) with Some l => l | None => [] end))).
  { apply Forall_app. split; [exact He|apply HU]. }
  revert He1. generalize (errs ++ usage_errors s var_defs
                            (match as_get scope_eqb from (vp_usages st) with Some l => l | None => [] end)) as errs1.
  generalize (match as_get scope_eqb from (vp_spreads st) with Some l => l | None => [] end) as l.
  induction l as [|sp r IHl]; intros errs1 He1 vis Hw.
  - inversion Hw; subst. exact He1.
  - destruct (viap_walk fuel s st var_defs (ScFrag sp) errs1 vis) as [[e1 v1]|] eqn:E; [|discriminate].
    eapply IHl; [|exact Hw]. eapply IH; [exact He1|exact E].
Qed.

Lemma viap_finish_inv (Q : verror -> Prop) s d st :
  (forall entry u, In entry (vp_defs st) -> Forall Q (usage_errors s (snd entry) u)) ->
  Forall Q (r_errors (viap_finish s d st)).
Proof.
  intro HU. unfold viap_finish. apply (fold_inv (fun res => Forall Q (r_errors res))).
  - constructor.
  - intros res entry Hin H.
    destruct (viap_walk _ _ _ _ _ _ _) as [[errs vis]|] eqn:E; cbn [r_errors]; [|exact H].
    eapply viap_walk_inv; [|exact H|exact E]. intro from. apply HU. exact Hin.
Qed.

Lemma usage_errors_codes s vds u : allr R_VariablesInAllowedPosition (usage_errors s vds u).
Proof.
  unfold usage_errors. apply Forall_flat_map_all. intros [[vn vt] hd] _. allr_tac.
Qed.

Lemma vct_codes s st e c : allr R_ValuesOfCorrectType st -> allr R_ValuesOfCorrectType (vct_step s st e c).
Proof.
  assert (HV : forall c v, allr R_ValuesOfCorrectType (validate_value s c v)).
  { intros c0 v. unfold validate_value, vct_err. allr_tac. }
  intro H. by_event e; cbn [vct_step]; try exact H; unfold vct_err;
    repeat first [ apply HV | progress allr_tac ].
Qed.

Lemma ofm_codes s d st e c :
  allr R_OverlappingFieldsCanBeMerged (r_errors (ofm_res st)) ->
  allr R_OverlappingFieldsCanBeMerged (r_errors (ofm_res (ofm_step s d st e c))).
Proof.
  intro H. by_event e; cbn [ofm_step ofm_step_with]; try exact H.
  destruct (mrun _ _ _ _ _) as [[ms cs]|]; cbn [ofm_res r_errors]; allr_tac.
Qed.

Lemma counts_finish_codes r st : allr r (counts_finish r st).
Proof. unfold counts_finish. allr_tac. Qed.

(* fold of a handler over a trace, for an invariant on the state *)
Lemma walk_inv {St} (P : St -> Prop) (h : St -> event -> ctx -> St) (t : list (event * ctx)) st :
  P st -> (forall st e c, In (e, c) t -> P st -> P (h st e c)) -> P (fold_left (hh h) t st).
Proof.
  intros H0 Hs. apply fold_inv; [exact H0|]. intros st' [e c] Hin HP. unfold hh. cbn [fst snd]. apply Hs; assumption.
Qed.

Lemma run_alone_codes_allr r s d : allr r (run_alone r s d).
Proof.
  unfold run_alone. destruct r; cbn [run_rule]; rewrite visit_fold; cbn [snd r_errors plain].
  - apply counts_finish_codes.
  - apply (walk_inv (allr R_LoneAnonymousOperation)); [constructor|]. intros; apply lao_codes; assumption.
  - apply (walk_inv (fun st => allr R_SingleFieldSubscriptions (r_errors st))); [constructor|]. intros; apply sfs_codes; assumption.
  - apply (walk_inv (allr R_KnownTypeNames)); [constructor|]. intros; apply ktn_codes; assumption.
  - apply (walk_inv (allr R_FragmentsOnCompositeTypes)); [constructor|]. intros; apply foc_codes; assumption.
  - apply (walk_inv (allr R_VariablesAreInputTypes)); [constructor|]. intros; apply vit_codes; assumption.
  - apply (walk_inv (allr R_LeafFieldSelections)); [constructor|]. intros; apply lfs_codes; assumption.
  - apply (walk_inv (allr R_FieldsOnCorrectType)); [constructor|]. intros; apply foct_codes; assumption.
  - apply counts_finish_codes.
  - apply (walk_inv (allr R_KnownFragmentNames)); [constructor|]. intros; apply kfn_codes; assumption.
  - apply (walk_inv (fun st => allr R_NoUnusedFragments (r_errors (nuf_res st)))); [constructor|]. intros; apply nuf_codes; assumption.
  - apply (walk_inv (fun st => allr R_OverlappingFieldsCanBeMerged (r_errors (ofm_res st)))); [constructor|]. intros; apply ofm_codes; assumption.
  - apply (walk_inv (fun st => allr R_NoFragmentsCycle (r_errors (nfc_res st)))); [constructor|]. intros; apply nfc_codes; assumption.
  - apply (walk_inv (allr R_PossibleFragmentSpreads)); [constructor|]. intros; apply pfs_codes; assumption.
  - apply nuv_finish_codes.
  - apply nudv_finish_codes.
  - apply (walk_inv (fun st => allr R_KnownArgumentNames (kan_errs st))); [constructor|]. intros; apply kan_codes; assumption.
  - apply (walk_inv (allr R_UniqueArgumentNames)); [constructor|]. intros; apply uan_codes; assumption.
  - apply (walk_inv (fun st => allr R_UniqueVariableNames (uvn_errs st))); [constructor|]. intros; apply uvn_codes; assumption.
  - apply (walk_inv (allr R_ProvidedRequiredArguments)); [constructor|]. intros; apply pra_codes; assumption.
  - apply (walk_inv (fun st => allr R_KnownDirectives (kd_errs st))); [constructor|]. intros; apply kd_codes; assumption.
  - apply viap_finish_inv. intros entry u _. apply usage_errors_codes.
  - apply (walk_inv (allr R_ValuesOfCorrectType)); [constructor|]. intros; apply vct_codes; assumption.
  - apply (walk_inv (allr R_UniqueDirectivesPerLocation)); [constructor|]. intros; apply udl_codes; assumption.
Qed.

Lemma run_alone_codes : forall r s d e, In e (run_alone r s d) -> e_rule e = r.
Proof.
  intros r s d e Hin. pose proof (run_alone_codes_allr r s d) as H. unfold allr in H.
  rewrite Forall_forall in H. apply H. exact Hin.
Qed.

(* ================================================================== 2. locations *)
(* ---- positions of the nodes of a document ---- *)
Definition dirs_ok (d : document) (dirs : list directive) : Prop :=
  forall x, In x dirs -> In (d_pos x) (doc_positions d).

Lemma in_operations_of d o : In o (operations_of d) <-> In (DOp o) d.
Proof.
  unfold operations_of. rewrite in_flat_map. split.
  - intros [x [Hx Hin]]. destruct x as [o'|f]; cbn in Hin; [|contradiction].
    destruct Hin as [->|[]]. exact Hx.
  - intro H. exists (DOp o). split; [exact H|left; reflexivity].
Qed.

Lemma in_fragments_of d f : In f (fragments_of d) <-> In (DFrag f) d.
Proof.
  unfold fragments_of. rewrite in_flat_map. split.
  - intros [x [Hx Hin]]. destruct x as [o|f']; cbn in Hin; [contradiction|].
    destruct Hin as [->|[]]. exact Hx.
  - intro H. exists (DFrag f). split; [exact H|left; reflexivity].
Qed.

Lemma sels_positions_in l x :
  In x (sels_all l) ->
  In (node_pos x) (sels_positions l) /\ (forall dr, In dr (sel_dirs x) -> In (d_pos dr) (sels_positions l)).
Proof.
  intro Hx. unfold sels_positions. split.
  - apply in_flat_map. exists x. split; [exact Hx|left; reflexivity].
  - intros dr Hdr. apply in_flat_map. exists x. split; [exact Hx|]. right. apply in_map. exact Hdr.
Qed.

Lemma def_positions_in d x p :
  In x d ->
  In p (match x with
        | DOp o =>
            match o_kind o with OpSelSet => [] | _ => [o_pos o] end ++
            map v_pos (op_variable_definitions o) ++ map d_pos (op_directives o) ++
            sels_positions (o_sels o)
        | DFrag f => fr_pos f :: map d_pos (fr_dirs f) ++ sels_positions (fr_sels f)
        end) ->
  In p (doc_positions d).
Proof. intros Hx Hp. unfold doc_positions. apply in_flat_map. exists x. split; assumption. Qed.

Lemma def_sels_positions_in d x p : In x d -> In p (sels_positions (def_sels x)) -> In p (doc_positions d).
Proof.
  intros Hx Hp. apply (def_positions_in d x p Hx). destruct x as [o|f]; cbn [def_sels] in Hp.
  - apply in_or_app. right. apply in_or_app. right. apply in_or_app. right. exact Hp.
  - right. apply in_or_app. right. exact Hp.
Qed.

Lemma operation_pos_in d o : In o (operations_of d) -> o_kind o <> OpSelSet -> In (o_pos o) (doc_positions d).
Proof.
  intros Ho Hk. apply in_operations_of in Ho. apply (def_positions_in d (DOp o) _ Ho).
  apply in_or_app. left. destruct (o_kind o); [contradiction| | |]; left; reflexivity.
Qed.

Lemma operation_dirs_in d o : In o (operations_of d) -> dirs_ok d (op_directives o).
Proof.
  intros Ho x Hx. apply in_operations_of in Ho. apply (def_positions_in d (DOp o) _ Ho).
  apply in_or_app. right. apply in_or_app. right. apply in_or_app. left. apply in_map. exact Hx.
Qed.

Lemma operation_vardef_in d o v :
  In o (operations_of d) -> In v (op_variable_definitions o) -> In (v_pos v) (doc_positions d).
Proof.
  intros Ho Hv. apply in_operations_of in Ho. apply (def_positions_in d (DOp o) _ Ho).
  apply in_or_app. right. apply in_or_app. left. apply in_map. exact Hv.
Qed.

Lemma fragment_pos_in d f : In f (fragments_of d) -> In (fr_pos f) (doc_positions d).
Proof.
  intro Hf. apply in_fragments_of in Hf. apply (def_positions_in d (DFrag f) _ Hf). left. reflexivity.
Qed.

Lemma fragment_dirs_in d f : In f (fragments_of d) -> dirs_ok d (fr_dirs f).
Proof.
  intros Hf x Hx. apply in_fragments_of in Hf. apply (def_positions_in d (DFrag f) _ Hf).
  right. apply in_or_app. left. apply in_map. exact Hx.
Qed.

Lemma selection_pos_in d x : In x (doc_selections d) -> In (node_pos x) (doc_positions d) /\ dirs_ok d (sel_dirs x).
Proof.
  intro Hx. unfold doc_selections in Hx. apply in_flat_map in Hx. destruct Hx as [df [Hdf Hx]].
  destruct (sels_positions_in _ _ Hx) as [H1 H2]. split.
  - apply (def_sels_positions_in d df _ Hdf H1).
  - intros dr Hdr. apply (def_sels_positions_in d df _ Hdf). apply H2. exact Hdr.
Qed.

Lemma directive_pos_in d site dr : In site (directive_sites d) -> In dr (snd site) -> In (d_pos dr) (doc_positions d).
Proof.
  intros Hs Hdr. apply in_directive_sites in Hs.
  destruct Hs as [[o [Ho E]]|[[f [Hf E]]|[x [Hx E]]]]; subst site; cbn [snd sel_site] in Hdr.
  - apply (operation_dirs_in d o Ho). exact Hdr.
  - apply (fragment_dirs_in d f Hf). exact Hdr.
  - apply (selection_pos_in d x Hx). exact Hdr.
Qed.

(* the document node is entered once, with the document itself *)
Definition pk_document (n : node) : list document := match n with NDocument d => [d] | _ => [] end.

Lemma pick_document_document d : flat_map (pick pk_document) (lin_document d) = [d].
Proof.
  rewrite pick_document by (intros n H; destruct n; (discriminate H || reflexivity)).
  cbn [pk_document app]. f_equal. apply flat_map_all_nil.
  assert (Hn : forall l, flat_map (node_pick pk_document) l = []).
  { intro l. apply flat_map_all_nil.
    intros [? ? ? ? ? ? ?|? ? ?|? ? ? ? ?]; unfold node_pick, dirs_pick; cbn; rewrite flat_map_nil_fn; reflexivity. }
  intros [o|f]; cbn [def_pick pk_document app]; unfold dirs_pick; cbn [pk_document];
    rewrite ?flat_map_nil_fn, Hn; reflexivity.
Qed.

Lemma in_lin_document_node d d' : In (Enter (NDocument d')) (lin_document d) -> d' = d.
Proof.
  intro H.
  assert (Hin : In d' (flat_map (pick pk_document) (lin_document d))).
  { apply in_flat_map. exists (Enter (NDocument d')). split; [exact H|left; reflexivity]. }
  rewrite pick_document_document in Hin. destruct Hin as [E|[]]. symmetry. exact E.
Qed.

(* what the rules use about the node of the current callback *)
Definition node_ok (d : document) (e : event) : Prop :=
  match e with
  | Enter (NDocument d') => d' = d
  | Enter (NOperation o) => (o_kind o <> OpSelSet -> In (o_pos o) (doc_positions d)) /\ dirs_ok d (op_directives o)
  | Enter (NFragmentDef f) => In (fr_pos f) (doc_positions d) /\ In f (fragments_of d) /\ dirs_ok d (fr_dirs f)
  | Enter (NVarDef v) => In (v_pos v) (doc_positions d)
  | Enter (NDirective dr) => In (d_pos dr) (doc_positions d)
  | Enter (NField x) | Enter (NSpread x) | Enter (NInline x) =>
      In (node_pos x) (doc_positions d) /\ dirs_ok d (sel_dirs x)
  | _ => True
  end.

Lemma node_ok_lin d e : In e (lin_document d) -> node_ok d e.
Proof.
  intro H. destruct e as [n|n]; [|exact I]. destruct n; cbn [node_ok]; try exact I.
  - apply in_lin_document_node. exact H.
  - apply in_lin_operation in H. split; [apply operation_pos_in; exact H|apply operation_dirs_in; exact H].
  - apply in_lin_fragment_def in H.
    split; [apply fragment_pos_in; exact H|]. split; [exact H|apply fragment_dirs_in; exact H].
  - apply in_lin_vardef in H. destruct H as [o [Ho Hv]]. eapply operation_vardef_in; eassumption.
  - apply in_lin_directive in H. destruct H as [site [Hs Hd]]. eapply directive_pos_in; eassumption.
  - apply in_lin_field in H. apply selection_pos_in. apply H.
  - apply in_lin_spread in H. apply selection_pos_in. apply H.
  - apply in_lin_inline in H. apply selection_pos_in. apply H.
Qed.

Lemma node_ok_trace s d c e c' : In (e, c') (ctr_document s d c) -> node_ok d e.
Proof.
  intro H. apply node_ok_lin. rewrite <- (ctr_document_events s d c).
  apply in_map_iff. exists (e, c'). split; [reflexivity|exact H].
Qed.

(* ---- the invariant ---- *)
Definition locs_ok (d : document) (e : verror) : Prop := incl (e_locs e) (doc_positions d).
Definition allok (d : document) (l : list verror) : Prop := Forall (locs_ok d) l.

Ltac fin_ok :=
  unfold locs_ok, err, vct_err; cbn [e_locs node_pos sel_dirs] in *;
  let q := fresh "q" in let Hq := fresh "Hq" in
  intros q Hq; cbn [In] in Hq;
  repeat match goal with
         | H : _ /\ _ |- _ => destruct H
         | H : _ \/ _ |- _ => destruct H
         end;
  try contradiction; subst; auto.

Ltac allok_tac := unfold allok in *; allq fin_ok.

Lemma counts_finish_ok d r st : allok d (counts_finish r st).
Proof. unfold counts_finish. allok_tac. Qed.

Lemma lao_ok d st e c : node_ok d e -> allok d st -> allok d (lao_step st e c).
Proof.
  intros Hn H. by_event e; cbn [lao_step]; try exact H. cbn [node_ok] in Hn. subst d0.
  apply Forall_app. split; [exact H|]. apply Forall_flat_map_all. intros x Hx.
  destruct x as [o|f]; [|constructor].
  destruct (o_kind o) eqn:Ek.
  - allok_tac.
  - assert (Hp : In (o_pos o) (doc_positions d)) by (apply operation_pos_in; [apply in_operations_of; exact Hx|rewrite Ek; discriminate]).
    allok_tac.
  - assert (Hp : In (o_pos o) (doc_positions d)) by (apply operation_pos_in; [apply in_operations_of; exact Hx|rewrite Ek; discriminate]).
    allok_tac.
  - assert (Hp : In (o_pos o) (doc_positions d)) by (apply operation_pos_in; [apply in_operations_of; exact Hx|rewrite Ek; discriminate]).
    allok_tac.
Qed.

Lemma sfs_ok s d st e c : node_ok d e -> allok d (r_errors st) -> allok d (r_errors (sfs_step s d st e c)).
Proof.
  intros Hn H. by_event e; cbn [sfs_step]; try exact H. cbn [node_ok] in Hn. destruct Hn as [Hn _].
  destruct (o_kind o); try exact H. specialize (Hn ltac:(discriminate)).
  destruct (subscription_type s); try exact H.
  destruct (collect_fields s d t (o_sels o)); cbn [r_errors]; allok_tac.
Qed.

Lemma ktn_ok s d st e c : node_ok d e -> allok d st -> allok d (ktn_step s st e c).
Proof. intros Hn H. by_event e; cbn [ktn_step node_ok] in *; allok_tac. Qed.

Lemma foc_ok s d st e c : node_ok d e -> allok d st -> allok d (foc_step s st e c).
Proof. intros Hn H. by_event e; cbn [foc_step node_ok] in *; allok_tac. Qed.

Lemma vit_ok s d st e c : node_ok d e -> allok d st -> allok d (vit_step s st e c).
Proof. intros Hn H. by_event e; cbn [vit_step node_ok] in *; allok_tac. Qed.

Lemma lfs_ok d st e c : node_ok d e -> allok d st -> allok d (lfs_step st e c).
Proof. intros Hn H. by_event e; cbn [lfs_step node_ok] in *; allok_tac. Qed.

Lemma foct_ok s d st e c : node_ok d e -> allok d st -> allok d (foct_step s st e c).
Proof.
  intros Hn H. by_event e; cbn [foct_step node_ok] in *; try exact H.
  - destruct Hn as [Hn _]. destruct (o_kind o); try exact H. specialize (Hn ltac:(discriminate)). allok_tac.
  - allok_tac.
Qed.

Lemma kfn_ok d st e c : node_ok d e -> allok d st -> allok d (kfn_step d st e c).
Proof. intros Hn H. by_event e; cbn [kfn_step node_ok] in *; allok_tac. Qed.

Lemma nuf_ok d st e c :
  allok d (r_errors (nuf_res st)) -> allok d (r_errors (nuf_res (nuf_step d st e c))).
Proof.
  intro H. by_event e; cbn [nuf_step]; try exact H.
  - destruct f; try exact H. destruct (nuf_current st); exact H.
  - destruct n; try exact H.
    destruct (nuf_reach _ _ _ _); cbn [nuf_res r_errors]; allok_tac.
Qed.

(* no_fragments_cycle *)
Lemma c13_known_fragment_in d n f : known_fragment d n = Some f -> In f (fragments_of d).
Proof.
  induction d as [|x r IH]; cbn [known_fragment]; [discriminate|].
  destruct x as [o|g]; cbn [fragments_of flat_map app].
  - exact IH.
  - destruct (known_fragment r n) as [g'|].
    + intro E. right. apply IH. exact E.
    + destruct (name_eqb n (fr_name g)); [|discriminate]. intro E. inversion E; subst. left. reflexivity.
Qed.

Lemma spreads_of_selection_in x sp :
  In sp (spreads_of_selection x) -> exists y, In y (sel_all x) /\ node_pos y = fst sp.
Proof.
  induction x as [p al n args dirs spn sels IH|p n dirs|p tc dirs spn sels IH] using selection_ind';
    cbn [spreads_of_selection sel_all]; intro H.
  - apply in_flat_map in H. destruct H as [z [Hz Hsp]]. rewrite Forall_forall in IH.
    destruct (IH z Hz Hsp) as [y [Hy E]]. exists y. split; [|exact E].
    right. apply in_flat_map. exists z. split; assumption.
  - destruct H as [<-|[]]. exists (SSpread p n dirs). split; [left; reflexivity|reflexivity].
  - apply in_flat_map in H. destruct H as [z [Hz Hsp]]. rewrite Forall_forall in IH.
    destruct (IH z Hz Hsp) as [y [Hy E]]. exists y. split; [|exact E].
    right. apply in_flat_map. exists z. split; assumption.
Qed.

Lemma recursive_spreads_positions d f sp :
  In f (fragments_of d) -> In sp (get_recursive_fragment_spreads (fr_sels f)) -> In (fst sp) (doc_positions d).
Proof.
  intros Hf Hsp. unfold get_recursive_fragment_spreads in Hsp. apply in_flat_map in Hsp.
  destruct Hsp as [x [Hx Hsp]]. destruct (spreads_of_selection_in x sp Hsp) as [y [Hy E]]. rewrite <- E.
  apply selection_pos_in. unfold doc_selections. apply in_flat_map. exists (DFrag f).
  split; [apply in_fragments_of; exact Hf|]. cbn [def_sels]. unfold sels_all. apply in_flat_map.
  exists x. split; assumption.
Qed.

Lemma nfc_ok d st e c :
  node_ok d e -> allok d (r_errors (nfc_res st)) -> allok d (r_errors (nfc_res (nfc_step d st e c))).
Proof.
  intros Hn H. by_event e; cbn [nfc_step]; try exact H. cbn [node_ok] in Hn. destruct Hn as [_ [Hf _]].
  destruct (detect_cycles _ _ _ _ _ _ _) as [[v errs]|] eqn:E; cbn [nfc_res r_errors]; [|exact H].
  eapply (detect_cycles_inv (locs_ok d) d
            (fun frag paths => In frag (fragments_of d) /\ Forall (fun sp => In (fst sp) (doc_positions d)) paths));
    [| |split; [exact Hf|constructor]|exact H|exact E].
  - intros frag paths sp def [Hfr Hp] Hsp Hk. split; [eapply c13_known_fragment_in; exact Hk|].
    apply Forall_app. split; [exact Hp|]. constructor; [|constructor].
    eapply recursive_spreads_positions; eassumption.
  - intros frag paths sp idx [Hfr Hp] Hsp. unfold locs_ok, err. cbn [e_locs]. intros q Hq.
    apply in_map_iff in Hq. destruct Hq as [sp' [<- Hin]].
    assert (Hin' : In sp' (paths ++ [sp])).
    { rewrite <- (firstn_skipn idx (paths ++ [sp])). apply in_or_app. right. exact Hin. }
    apply in_app_or in Hin'. destruct Hin' as [Hin'|[<-|[]]].
    + rewrite Forall_forall in Hp. apply Hp. exact Hin'.
    + eapply recursive_spreads_positions; eassumption.
Qed.

Lemma pfs_ok s d st e c : allok d st -> allok d (pfs_step s d st e c).
Proof. intro H. by_event e; cbn [pfs_step]; allok_tac. Qed.

Lemma nuv_finish_ok d st : allok d (r_errors (nuv_finish d st)).
Proof.
  unfold nuv_finish. apply (fold_inv (fun res => allok d (r_errors res))).
  - constructor.
  - intros res entry _ H. destruct (vars_walk _ _ _ _ _ _) as [[used vis]|]; cbn [r_errors]; allok_tac.
Qed.

Lemma nudv_finish_ok d st : allok d (r_errors (nudv_finish d st)).
Proof.
  unfold nudv_finish. apply (fold_inv (fun res => allok d (r_errors res))).
  - constructor.
  - intros res entry _ H. destruct (vars_walk _ _ _ _ _ _) as [[used vis]|]; cbn [r_errors]; allok_tac.
Qed.

Lemma kan_ok s d st e c : allok d (kan_errs st) -> allok d (kan_errs (kan_step s st e c)).
Proof.
  intro H. by_event e; cbn [kan_step]; try exact H.
  - destruct (kan_slot st) as [[owner defs]|]; try exact H.
    destruct (existsb _ defs); cbn [kan_errs]; allok_tac.
  - destruct f; exact H.
  - destruct n; exact H.
Qed.

Lemma uan_errors_ok d p args : In p (doc_positions d) -> allok d (uan_errors p args).
Proof.
  intro Hp. unfold uan_errors. apply Forall_flat_map_all. intros kv _.
  destruct (Nat.ltb 1 (snd kv)); [|constructor]. constructor; [|constructor].
  unfold locs_ok, err. cbn [e_locs]. intros q Hq. apply repeat_spec in Hq. subst q. exact Hp.
Qed.

Lemma uan_ok d st e c : node_ok d e -> allok d st -> allok d (uan_step st e c).
Proof.
  intros Hn H. by_event e; cbn [uan_step node_ok] in *; try exact H.
  - apply Forall_app. split; [exact H|apply uan_errors_ok; exact Hn].
  - destruct f; try exact H. apply Forall_app. split; [exact H|apply uan_errors_ok; apply Hn].
Qed.

Lemma al_get_in {V} k (m : list (name * V)) v : al_get k m = Some v -> exists k', In (k', v) m.
Proof.
  induction m as [|[k' v'] r IH]; cbn [al_get]; [discriminate|].
  destruct (name_eqb k k').
  - intro E. inversion E; subst. exists k'. left. reflexivity.
  - intro E. destruct (IH E) as [k2 H2]. exists k2. right. exact H2.
Qed.

Definition uvn_inv (d : document) (st : uvn_state) : Prop :=
  Forall (fun np : name * pos => In (snd np) (doc_positions d)) (uvn_found st) /\ allok d (uvn_errs st).

Lemma uvn_ok d st e c : node_ok d e -> uvn_inv d st -> uvn_inv d (uvn_step st e c).
Proof.
  intros Hn [Hf H]. by_event e; cbn [uvn_step node_ok] in *; try (split; assumption).
  - split; [constructor|exact H].
  - destruct (al_get (v_name v) (uvn_found st)) as [p0|] eqn:Eg; split; cbn [uvn_found uvn_errs]; try assumption.
    + destruct (al_get_in _ _ _ Eg) as [k' Hk]. rewrite Forall_forall in Hf. specialize (Hf _ Hk). cbn [snd] in Hf.
      allok_tac.
    + apply Forall_app. split; [exact Hf|]. constructor; [exact Hn|constructor].
Qed.

Lemma pra_ok s d st e c : node_ok d e -> allok d st -> allok d (pra_step s st e c).
Proof. intros Hn H. by_event e; cbn [pra_step node_ok] in *; allok_tac. Qed.

Lemma kd_ok s d st e c : node_ok d e -> allok d (kd_errs st) -> allok d (kd_errs (kd_step s st e c)).
Proof.
  intros Hn H. by_event e; cbn [kd_step node_ok] in *; try exact H.
  - destruct (directive_map_get s (d_name d0)); [destruct (kd_loc st); [destruct (existsb _ _)|]|];
      cbn [kd_errs]; allok_tac.
  - destruct n; exact H.
Qed.

Lemma check_duplicate_directive_ok s d dirs : dirs_ok d dirs -> allok d (check_duplicate_directive s dirs).
Proof.
  intro Hd. apply check_duplicate_directive_inv. intros x Hx. unfold locs_ok, err. cbn [e_locs].
  intros q [<-|[]]. apply Hd. exact Hx.
Qed.

Lemma udl_ok s d st e c : node_ok d e -> allok d st -> allok d (udl_step s st e c).
Proof.
  intros Hn H. by_event e; cbn [udl_step node_ok] in *; try exact H; try destruct f; try exact H;
    cbn [sel_dirs] in Hn;
    (apply Forall_app; split; [exact H|apply check_duplicate_directive_ok; apply Hn]).
Qed.

(* variables_in_allowed_position *)
Definition vardefs_ok (d : document) (vds : list vardef) : Prop := Forall (fun v => In (v_pos v) (doc_positions d)) vds.
Definition viap_inv (d : document) (st : viap_state) : Prop :=
  Forall (fun entry : scope * list vardef => vardefs_ok d (snd entry)) (vp_defs st).

Lemma as_get_in {K V} (keq : K -> K -> bool) k (m : list (K * V)) v : as_get keq k m = Some v -> exists k', In (k', v) m.
Proof.
  induction m as [|[k' v'] r IH]; cbn [as_get]; [discriminate|].
  destruct (keq k k').
  - intro E. inversion E; subst. exists k'. left. reflexivity.
  - intro E. destruct (IH E) as [k2 H2]. exists k2. right. exact H2.
Qed.

Lemma as_set_Forall {K V} (keq : K -> K -> bool) (P : V -> Prop) k v (m : list (K * V)) :
  P v -> Forall (fun kv => P (snd kv)) m -> Forall (fun kv => P (snd kv)) (as_set keq k v m).
Proof.
  intros Hv. induction m as [|[k' v'] r IH]; cbn [as_set]; intro H.
  - constructor; [exact Hv|constructor].
  - inversion H as [|? ? H1 H2]; subst. destruct (keq k k'); constructor; try assumption.
    apply IH. exact H2.
Qed.

Lemma as_push_vardefs_ok d sc v m :
  In (v_pos v) (doc_positions d) ->
  Forall (fun entry : scope * list vardef => vardefs_ok d (snd entry)) m ->
  Forall (fun entry : scope * list vardef => vardefs_ok d (snd entry)) (as_push scope_eqb sc v m).
Proof.
  intros Hv Hm. unfold as_push. destruct (as_get scope_eqb sc m) as [l|] eqn:Eg.
  - apply (as_set_Forall scope_eqb (vardefs_ok d)); [|exact Hm].
    destruct (as_get_in _ _ _ _ Eg) as [k' Hk]. rewrite Forall_forall in Hm. specialize (Hm _ Hk). cbn [snd] in Hm.
    apply Forall_app. split; [exact Hm|constructor; [exact Hv|constructor]].
  - apply Forall_app. split; [exact Hm|]. constructor; [|constructor]. cbn [snd]. constructor; [exact Hv|constructor].
Qed.

Lemma viap_collect_ok s d st e c : node_ok d e -> viap_inv d st -> viap_inv d (viap_collect s st e c).
Proof.
  unfold viap_inv. intros Hn H. by_event e; cbn [viap_collect node_ok] in *; try exact H.
  - destruct (vp_scope st); [|exact H]. cbn [vp_defs]. apply as_push_vardefs_ok; assumption.
  - destruct f; try exact H. destruct (vp_scope st); exact H.
  - destruct (vp_scope st); [|exact H]. destruct (current_input_type_literal c); exact H.
  - destruct n; exact H.
Qed.

Lemma find_first_in {A} (p : A -> bool) l x : find_first p l = Some x -> In x l.
Proof.
  induction l as [|y r IH]; cbn [find_first]; [discriminate|].
  destruct (p y); intro E; [inversion E; subst; left; reflexivity|right; apply IH; exact E].
Qed.

Lemma usage_errors_ok s d vds u : vardefs_ok d vds -> allok d (usage_errors s vds u).
Proof.
  intro Hv. unfold usage_errors. apply Forall_flat_map_all. intros [[vn vt] hd] _.
  destruct (find_first _ vds) as [vd|] eqn:Ef; [|constructor].
  destruct (is_subtype _ _ _); [constructor|]. constructor; [|constructor].
  unfold locs_ok, err. cbn [e_locs]. intros q [<-|[]].
  apply find_first_in in Ef. unfold vardefs_ok in Hv. rewrite Forall_forall in Hv. apply Hv. exact Ef.
Qed.

Lemma vct_ok s d st e c : allok d st -> allok d (vct_step s st e c).
Proof.
  assert (HV : forall c v, allok d (validate_value s c v)).
  { intros c0 v. unfold validate_value. allok_tac. }
  intro H. by_event e; cbn [vct_step]; try exact H;
    repeat first [ apply HV | progress allok_tac ].
Qed.

Lemma run_alone_locations_allok r s d : r <> R_OverlappingFieldsCanBeMerged -> allok d (run_alone r s d).
Proof.
  intro Hr. unfold run_alone. destruct r; try (exfalso; apply Hr; reflexivity);
    cbn [run_rule]; rewrite visit_fold; cbn [snd r_errors plain].
  - apply counts_finish_ok.
  - apply (walk_inv (allok d)); [constructor|]. intros st e c Hin; apply lao_ok; eapply node_ok_trace; exact Hin.
  - apply (walk_inv (fun st => allok d (r_errors st))); [constructor|]. intros st e c Hin; apply sfs_ok; eapply node_ok_trace; exact Hin.
  - apply (walk_inv (allok d)); [constructor|]. intros st e c Hin; apply ktn_ok; eapply node_ok_trace; exact Hin.
  - apply (walk_inv (allok d)); [constructor|]. intros st e c Hin; apply foc_ok; eapply node_ok_trace; exact Hin.
  - apply (walk_inv (allok d)); [constructor|]. intros st e c Hin; apply vit_ok; eapply node_ok_trace; exact Hin.
  - apply (walk_inv (allok d)); [constructor|]. intros st e c Hin; apply lfs_ok; eapply node_ok_trace; exact Hin.
  - apply (walk_inv (allok d)); [constructor|]. intros st e c Hin; apply foct_ok; eapply node_ok_trace; exact Hin.
  - apply counts_finish_ok.
  - apply (walk_inv (allok d)); [constructor|]. intros st e c Hin; apply kfn_ok; eapply node_ok_trace; exact Hin.
  - apply (walk_inv (fun st => allok d (r_errors (nuf_res st)))); [constructor|]. intros st e c Hin; apply nuf_ok.
  - apply (walk_inv (fun st => allok d (r_errors (nfc_res st)))); [constructor|]. intros st e c Hin; apply nfc_ok; eapply node_ok_trace; exact Hin.
  - apply (walk_inv (allok d)); [constructor|]. intros st e c Hin; apply pfs_ok.
  - apply nuv_finish_ok.
  - apply nudv_finish_ok.
  - apply (walk_inv (fun st => allok d (kan_errs st))); [constructor|]. intros st e c Hin; apply kan_ok.
  - apply (walk_inv (allok d)); [constructor|]. intros st e c Hin; apply uan_ok; eapply node_ok_trace; exact Hin.
  - apply (walk_inv (uvn_inv d) uvn_step); [split; constructor|]. intros st e c Hin; apply uvn_ok; eapply node_ok_trace; exact Hin.
  - apply (walk_inv (allok d)); [constructor|]. intros st e c Hin; apply pra_ok; eapply node_ok_trace; exact Hin.
  - apply (walk_inv (fun st => allok d (kd_errs st))); [constructor|]. intros st e c Hin; apply kd_ok; eapply node_ok_trace; exact Hin.
  - apply viap_finish_inv. intros entry u Hentry. apply usage_errors_ok.
    assert (Hinv : viap_inv d (fold_left (hh (viap_collect s)) (ctr_document s d ctx0) viap_init)).
    { apply (walk_inv (viap_inv d)); [constructor|]. intros st e c Hin; apply viap_collect_ok; eapply node_ok_trace; exact Hin. }
    unfold viap_inv in Hinv. rewrite Forall_forall in Hinv. apply Hinv. exact Hentry.
  - apply (walk_inv (allok d)); [constructor|]. intros st e c Hin; apply vct_ok.
  - apply (walk_inv (allok d)); [constructor|]. intros st e c Hin; apply udl_ok; eapply node_ok_trace; exact Hin.
Qed.

Lemma run_alone_locations : forall r s d e p, r <> R_OverlappingFieldsCanBeMerged ->
  In e (run_alone r s d) -> In p (e_locs e) -> In p (doc_positions d).
Proof.
  intros r s d e p Hr Hin Hp. pose proof (run_alone_locations_allok r s d Hr) as H. unfold allok in H.
  rewrite Forall_forall in H. apply (H e Hin). exact Hp.
Qed.

(* C13_proofs.v — the errors of every rule carry the rule's own code, and (for every rule but the
   merge rule) every reported location is the position of a node of the validated document. *)
From GT Require Import Visitor Validate.
From GTS Require Import SpecLin Annot WfSchema SpecRules SpecValid.
From GTP Require Import VisitorFacts TraceFacts RuleFacts EventFacts.

(* ================================================================== generic *)
Lemma fold_inv {St X} (P : St -> Prop) (f : St -> X -> St) (l : list X) (st : St) :
  P st -> (forall st x, In x l -> P st -> P (f st x)) -> P (fold_left f l st).
Proof.
  revert st. induction l as [|x r IH]; intros st H0 Hs; cbn [fold_left]; [exact H0|].
  apply IH.
  - apply Hs; [left; reflexivity|exact H0].
  - intros st' y Hy. apply Hs. right. exact Hy.
Qed.

Lemma Forall_flat_map_all {A B} (Q : B -> Prop) (f : A -> list B) (l : list A) :
  (forall x, In x l -> Forall Q (f x)) -> Forall Q (flat_map f l).
Proof.
  induction l as [|x r IH]; intro H; cbn [flat_map]; [constructor|].
  apply Forall_app. split; [apply H; left; reflexivity|apply IH; intros y Hy; apply H; right; exact Hy].
Qed.

Lemma Forall_map_all {A B} (Q : B -> Prop) (f : A -> B) (l : list A) :
  (forall x, In x l -> Q (f x)) -> Forall Q (map f l).
Proof.
  induction l as [|x r IH]; intro H; cbn [map]; constructor.
  - apply H. left. reflexivity.
  - apply IH. intros y Hy. apply H. right. exact Hy.
Qed.

(* decompose a goal [Forall Q errs] along the shape of [errs]; [fin] proves [Q e] for a single error *)
Ltac allq fin :=
  repeat first
    [ assumption
    | apply Forall_nil
    | apply Forall_app; split
    | apply Forall_cons; [solve [fin]|]
    | apply Forall_flat_map_all; intros
    | apply Forall_map_all; intros; solve [fin]
    | match goal with
      | |- Forall _ (if ?b then _ else _) => destruct b eqn:?
      | |- Forall _ (match ?x with _ => _ end) => destruct x eqn:?
      end ].

(* ================================================================== 1. codes *)
Definition has_rule (r : rule_id) (e : verror) : Prop := e_rule e = r.
Definition allr (r : rule_id) (l : list verror) : Prop := Forall (has_rule r) l.

Ltac allr_tac := unfold allr in *; allq ltac:(reflexivity).
Ltac by_event e := let n := fresh "n" in destruct e as [n|n]; [destruct n|].

Lemma lao_codes st e c : allr R_LoneAnonymousOperation st -> allr R_LoneAnonymousOperation (lao_step st e c).
Proof. intro H. by_event e; cbn [lao_step]; allr_tac. Qed.

Lemma sfs_codes s d st e c :
  allr R_SingleFieldSubscriptions (r_errors st) -> allr R_SingleFieldSubscriptions (r_errors (sfs_step s d st e c)).
Proof.
  intro H. by_event e; cbn [sfs_step]; try exact H.
  destruct (o_kind o); try exact H. destruct (subscription_type s); try exact H.
  destruct (collect_fields s d t (o_sels o)); cbn [r_errors]; allr_tac.
Qed.

Lemma ktn_codes s st e c : allr R_KnownTypeNames st -> allr R_KnownTypeNames (ktn_step s st e c).
Proof. intro H. by_event e; cbn [ktn_step]; allr_tac. Qed.

Lemma foc_codes s st e c : allr R_FragmentsOnCompositeTypes st -> allr R_FragmentsOnCompositeTypes (foc_step s st e c).
Proof. intro H. by_event e; cbn [foc_step]; allr_tac. Qed.

Lemma vit_codes s st e c : allr R_VariablesAreInputTypes st -> allr R_VariablesAreInputTypes (vit_step s st e c).
Proof. intro H. by_event e; cbn [vit_step]; allr_tac. Qed.

Lemma lfs_codes st e c : allr R_LeafFieldSelections st -> allr R_LeafFieldSelections (lfs_step st e c).
Proof. intro H. by_event e; cbn [lfs_step]; allr_tac. Qed.

Lemma foct_codes s st e c : allr R_FieldsOnCorrectType st -> allr R_FieldsOnCorrectType (foct_step s st e c).
Proof. intro H. by_event e; cbn [foct_step]; allr_tac. Qed.

Lemma kfn_codes d st e c : allr R_KnownFragmentNames st -> allr R_KnownFragmentNames (kfn_step d st e c).
Proof. intro H. by_event e; cbn [kfn_step]; allr_tac. Qed.

Lemma nuf_codes d st e c :
  allr R_NoUnusedFragments (r_errors (nuf_res st)) -> allr R_NoUnusedFragments (r_errors (nuf_res (nuf_step d st e c))).
Proof.
  intro H. by_event e; cbn [nuf_step]; try exact H.
  - destruct f; try exact H. destruct (nuf_current st); exact H.
  - destruct n; try exact H.
    destruct (nuf_reach _ _ _ _); cbn [nuf_res r_errors]; allr_tac.
Qed.

(* the depth-first search of no_fragments_cycle *)
Lemma detect_cycles_inv (Q : verror -> Prop) d (P : fragment_def -> list (pos * name) -> Prop) :
  (forall frag paths sp def,
      P frag paths -> In sp (get_recursive_fragment_spreads (fr_sels frag)) ->
      known_fragment d (snd sp) = Some def -> P def (paths ++ [sp])) ->
  (forall frag paths sp idx,
      P frag paths -> In sp (get_recursive_fragment_spreads (fr_sels frag)) ->
      Q (err R_NoFragmentsCycle (map fst (skipn idx (paths ++ [sp]))))) ->
  forall fuel frag paths index visited errs v' e',
    P frag paths -> Forall Q errs ->
    detect_cycles fuel d frag paths index visited errs = Some (v', e') -> Forall Q e'.
Proof.
  intros HP HQ. induction fuel as [|fuel IH]; intros frag paths index visited errs v' e' Hp He Hd; [discriminate|].
  cbn [detect_cycles] in Hd.
  destruct (mem_name (fr_name frag) visited); [inversion Hd; subst; exact He|].
  destruct (is_nil (get_recursive_fragment_spreads (fr_sels frag))); [inversion Hd; subst; exact He|].
  revert Hd. generalize (visited ++ [fr_name frag]) as vis.
  generalize (al_set (fr_name frag) (List.length paths) index) as index1.
  assert (Hincl : incl (get_recursive_fragment_spreads (fr_sels frag)) (get_recursive_fragment_spreads (fr_sels frag)))
    by apply incl_refl.
  revert Hincl He. generalize errs.
  generalize (get_recursive_fragment_spreads (fr_sels frag)) at 1 3 as l.
  induction l as [|sp r IHl]; intros errs0 Hincl He index1 vis Hd.
  - inversion Hd; subst. exact He.
  - assert (Hsp : In sp (get_recursive_fragment_spreads (fr_sels frag))) by (apply Hincl; left; reflexivity).
    assert (Hr : incl r (get_recursive_fragment_spreads (fr_sels frag))) by (intros y Hy; apply Hincl; right; exact Hy).
    destruct (al_get (snd sp) index1) as [idx|].
    + eapply IHl; [exact Hr| |exact Hd]. apply Forall_app. split; [exact He|].
      constructor; [|constructor]. eapply HQ; eassumption.
    + destruct (known_fragment d (snd sp)) as [def|] eqn:Ek.
      * destruct (detect_cycles fuel d def (paths ++ [sp]) index1 vis errs0) as [[v1 e1]|] eqn:Edc; [|discriminate].
        eapply IHl; [exact Hr| |exact Hd].
        eapply IH; [|exact He|exact Edc]. eapply HP; eassumption.
      * eapply IHl; [exact Hr|exact He|exact Hd].
Qed.

Lemma nfc_codes d st e c :
  allr R_NoFragmentsCycle (r_errors (nfc_res st)) -> allr R_NoFragmentsCycle (r_errors (nfc_res (nfc_step d st e c))).
Proof.
  intro H. by_event e; cbn [nfc_step]; try exact H.
  destruct (detect_cycles _ _ _ _ _ _ _) as [[v errs]|] eqn:E; cbn [nfc_res r_errors]; [|exact H].
  eapply (detect_cycles_inv (has_rule R_NoFragmentsCycle) d (fun _ _ => True)); [auto|reflexivity|exact I|exact H|exact E].
Qed.

Lemma pfs_codes s d st e c : allr R_PossibleFragmentSpreads st -> allr R_PossibleFragmentSpreads (pfs_step s d st e c).
Proof. intro H. by_event e; cbn [pfs_step]; allr_tac. Qed.

Lemma nuv_finish_codes d st : allr R_NoUnusedVariables (r_errors (nuv_finish d st)).
Proof.
  unfold nuv_finish. apply (fold_inv (fun res => allr R_NoUnusedVariables (r_errors res))).
  - constructor.
  - intros res entry _ H. destruct (vars_walk _ _ _ _ _ _) as [[used vis]|]; cbn [r_errors]; allr_tac.
Qed.

Lemma nudv_finish_codes d st : allr R_NoUndefinedVariables (r_errors (nudv_finish d st)).
Proof.
  unfold nudv_finish. apply (fold_inv (fun res => allr R_NoUndefinedVariables (r_errors res))).
  - constructor.
  - intros res entry _ H. destruct (vars_walk _ _ _ _ _ _) as [[used vis]|]; cbn [r_errors]; allr_tac.
Qed.

Lemma kan_codes s st e c :
  allr R_KnownArgumentNames (kan_errs st) -> allr R_KnownArgumentNames (kan_errs (kan_step s st e c)).
Proof.
  intro H. by_event e; cbn [kan_step]; try exact H.
  - destruct (kan_slot st) as [[owner defs]|]; try exact H.
    destruct (existsb _ defs); cbn [kan_errs]; allr_tac.
  - destruct f; exact H.
  - destruct n; exact H.
Qed.

Lemma uan_errors_codes p args : allr R_UniqueArgumentNames (uan_errors p args).
Proof. unfold uan_errors. allr_tac. Qed.

Lemma uan_codes st e c : allr R_UniqueArgumentNames st -> allr R_UniqueArgumentNames (uan_step st e c).
Proof.
  intro H. by_event e; cbn [uan_step]; try exact H.
  - apply Forall_app. split; [exact H|apply uan_errors_codes].
  - destruct f; try exact H. apply Forall_app. split; [exact H|apply uan_errors_codes].
Qed.

Lemma uvn_codes st e c :
  allr R_UniqueVariableNames (uvn_errs st) -> allr R_UniqueVariableNames (uvn_errs (uvn_step st e c)).
Proof.
  intro H. by_event e; cbn [uvn_step]; try exact H.
  destruct (al_get _ _); cbn [uvn_errs]; allr_tac.
Qed.

Lemma pra_codes s st e c : allr R_ProvidedRequiredArguments st -> allr R_ProvidedRequiredArguments (pra_step s st e c).
Proof. intro H. by_event e; cbn [pra_step]; allr_tac. Qed.

Lemma kd_codes s st e c : allr R_KnownDirectives (kd_errs st) -> allr R_KnownDirectives (kd_errs (kd_step s st e c)).
Proof.
  intro H. by_event e; cbn [kd_step]; try exact H.
  - destruct (directive_map_get s (d_name d)); [destruct (kd_loc st); [destruct (existsb _ _)|]|];
      cbn [kd_errs]; allr_tac.
  - destruct n; exact H.
Qed.

Lemma check_duplicate_directive_inv (Q : verror -> Prop) s dirs :
  (forall x, In x dirs -> Q (err R_UniqueDirectivesPerLocation [d_pos x])) ->
  Forall Q (check_duplicate_directive s dirs).
Proof.
  intro HQ. unfold check_duplicate_directive.
  apply (fold_inv (fun acc : list name * list verror => Forall Q (snd acc))).
  - constructor.
  - intros acc x Hx H. destruct (directive_map_get s (d_name x)); [|exact H].
    destruct (dd_repeatable d); [exact H|]. destruct (mem_name _ _); cbn [snd]; [|exact H].
    apply Forall_app. split; [exact H|]. constructor; [apply HQ; exact Hx|constructor].
Qed.

Lemma udl_codes s st e c : allr R_UniqueDirectivesPerLocation st -> allr R_UniqueDirectivesPerLocation (udl_step s st e c).
Proof.
  intro H. by_event e; cbn [udl_step]; try exact H; try destruct f; try exact H;
    (apply Forall_app; split; [exact H|apply check_duplicate_directive_inv; reflexivity]).
Qed.

(* variables_in_allowed_position: the reachability walk *)
Lemma viap_walk_inv (Q : verror -> Prop) s st var_defs :
  (forall from, Forall Q (usage_errors s var_defs
                            (match as_get scope_eqb from (vp_usages st) with Some l => l | None => [] end))) ->
  forall fuel from errs visited e' v',
    Forall Q errs -> viap_walk fuel s st var_defs from errs visited = Some (e', v') -> Forall Q e'.
Proof.
  intro HU. induction fuel as [|fuel IH]; intros from errs visited e' v' He Hw; [discriminate|].
  cbn [viap_walk] in Hw.
  destruct (existsb (scope_eqb from) visited); [inversion Hw; subst; exact He|].
  revert Hw. generalize (visited ++ [from]) as vis.
  assert (He1 : Forall Q (errs ++ usage_errors s var_defs
                            (match as_get scope_eqb from (vp_usages st) with Some l => l | None => [] end))).
  { apply Forall_app. split; [exact He|apply HU]. }
  revert He1. generalize (errs ++ usage_errors s var_defs
                            (match as_get scope_eqb from (vp_usages st) with Some l => l | None => [] end)) as errs1.
  generalize (match as_get scope_eqb from (vp_spreads st) with Some l => l | None => [] end) as l.
  induction l as [|sp r IHl]; intros errs1 He1 vis Hw.
  - inversion Hw; subst. exact He1.
  - destruct (viap_walk fuel s st var_defs (ScFrag sp) errs1 vis) as [[e1 v1]|] eqn:E; [|discriminate].
    eapply IHl; [|exact Hw]. eapply IH; [exact He1|exact E].
Qed.

Lemma viap_finish_inv (Q : verror -> Prop) s d st :
  (forall entry u, In entry (vp_defs st) -> Forall Q (usage_errors s (snd entry) u)) ->
  Forall Q (r_errors (viap_finish s d st)).
Proof.
  intro HU. unfold viap_finish. apply (fold_inv (fun res => Forall Q (r_errors res))).
  - constructor.
  - intros res entry Hin H.
    destruct (viap_walk _ _ _ _ _ _ _) as [[errs vis]|] eqn:E; cbn [r_errors]; [|exact H].
    eapply viap_walk_inv; [|exact H|exact E]. intro from. apply HU. exact Hin.
Qed.

Lemma usage_errors_codes s vds u : allr R_VariablesInAllowedPosition (usage_errors s vds u).
Proof.
  unfold usage_errors. apply Forall_flat_map_all. intros [[vn vt] hd] _. allr_tac.
Qed.

Lemma vct_codes s st e c : allr R_ValuesOfCorrectType st -> allr R_ValuesOfCorrectType (vct_step s st e c).
Proof.
  assert (HV : forall c v, allr R_ValuesOfCorrectType (validate_value s c v)).
  { intros c0 v. unfold validate_value, vct_err. allr_tac. }
  intro H. by_event e; cbn [vct_step]; try exact H; unfold vct_err;
    repeat first [ apply HV | progress allr_tac ].
Qed.

Lemma ofm_codes s d st e c :
  allr R_OverlappingFieldsCanBeMerged (r_errors (ofm_res st)) ->
  allr R_OverlappingFieldsCanBeMerged (r_errors (ofm_res (ofm_step s d st e c))).
Proof.
  intro H. by_event e; cbn [ofm_step]; try exact H.
  destruct (mrun _ _ _ _ _) as [[ms cs]|]; cbn [ofm_res r_errors]; allr_tac.
Qed.

Lemma counts_finish_codes r st : allr r (counts_finish r st).
Proof. unfold counts_finish. allr_tac. Qed.

(* fold of a handler over a trace, for an invariant on the state *)
Lemma walk_inv {St} (P : St -> Prop) (h : St -> event -> ctx -> St) (t : list (event * ctx)) st :
  P st -> (forall st e c, In (e, c) t -> P st -> P (h st e c)) -> P (fold_left (hh h) t st).
Proof.
  intros H0 Hs. apply fold_inv; [exact H0|]. intros st' [e c] Hin HP. unfold hh. cbn [fst snd]. apply Hs; assumption.
Qed.

Lemma run_alone_codes_allr r s d : allr r (run_alone r s d).
Proof.
  unfold run_alone. destruct r; cbn [run_rule]; rewrite visit_fold; cbn [snd r_errors plain].
  - apply counts_finish_codes.
  - apply (walk_inv (allr R_LoneAnonymousOperation)); [constructor|]. intros; apply lao_codes; assumption.
  - apply (walk_inv (fun st => allr R_SingleFieldSubscriptions (r_errors st))); [constructor|]. intros; apply sfs_codes; assumption.
  - apply (walk_inv (allr R_KnownTypeNames)); [constructor|]. intros; apply ktn_codes; assumption.
  - apply (walk_inv (allr R_FragmentsOnCompositeTypes)); [constructor|]. intros; apply foc_codes; assumption.
  - apply (walk_inv (allr R_VariablesAreInputTypes)); [constructor|]. intros; apply vit_codes; assumption.
  - apply (walk_inv (allr R_LeafFieldSelections)); [constructor|]. intros; apply lfs_codes; assumption.
  - apply (walk_inv (allr R_FieldsOnCorrectType)); [constructor|]. intros; apply foct_codes; assumption.
  - apply counts_finish_codes.
  - apply (walk_inv (allr R_KnownFragmentNames)); [constructor|]. intros; apply kfn_codes; assumption.
  - apply (walk_inv (fun st => allr R_NoUnusedFragments (r_errors (nuf_res st)))); [constructor|]. intros; apply nuf_codes; assumption.
  - apply (walk_inv (fun st => allr R_OverlappingFieldsCanBeMerged (r_errors (ofm_res st)))); [constructor|]. intros; apply ofm_codes; assumption.
  - apply (walk_inv (fun st => allr R_NoFragmentsCycle (r_errors (nfc_res st)))); [constructor|]. intros; apply nfc_codes; assumption.
  - apply (walk_inv (allr R_PossibleFragmentSpreads)); [constructor|]. intros; apply pfs_codes; assumption.
  - apply nuv_finish_codes.
  - apply nudv_finish_codes.
  - apply (walk_inv (fun st => allr R_KnownArgumentNames (kan_errs st))); [constructor|]. intros; apply kan_codes; assumption.
  - apply (walk_inv (allr R_UniqueArgumentNames)); [constructor|]. intros; apply uan_codes; assumption.
  - apply (walk_inv (fun st => allr R_UniqueVariableNames (uvn_errs st))); [constructor|]. intros; apply uvn_codes; assumption.
  - apply (walk_inv (allr R_ProvidedRequiredArguments)); [constructor|]. intros; apply pra_codes; assumption.
  - apply (walk_inv (fun st => allr R_KnownDirectives (kd_errs st))); [constructor|]. intros; apply kd_codes; assumption.
  - apply viap_finish_inv. intros entry u _. apply usage_errors_codes.
  - apply (walk_inv (allr R_ValuesOfCorrectType)); [constructor|]. intros; apply vct_codes; assumption.
  - apply (walk_inv (allr R_UniqueDirectivesPerLocation)); [constructor|]. intros; apply udl_codes; assumption.
Qed.

Lemma run_alone_codes : forall r s d e, In e (run_alone r s d) -> e_rule e = r.
Proof.
  intros r s d e Hin. pose proof (run_alone_codes_allr r s d) as H. unfold allr in H.
  rewrite Forall_forall in H. apply H. exact Hin.
Qed.

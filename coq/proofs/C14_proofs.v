(* C14_proofs.v — every rule's specification predicate is invariant under permutation of the
   top-level definitions of the document (fragment names distinct) and under permutation of the
   definitions of a well-formed schema; through the per-rule equivalences the model's per-rule
   verdicts are invariant under permutation of the document's definitions. *)
From GT Require Import Visitor Validate Merge.
From Coq Require Import Permutation.
From GTS Require Import Annot WfSchema SpecCollect SpecRules SpecValues SpecMerge SpecValid.
From GTP Require Import VisitorFacts TraceFacts.
From GTS Require SpecLin.
From GTP Require RuleFacts EventFacts StatelessFacts.
From GTP Require C04_proofs C06_proofs C06_graph_proofs C07_proofs C07_graph_proofs C07_position_proofs
  C08_proofs C09_proofs C09_slot_proofs C10_proofs C10_slot_proofs C11_proofs.

(* ------------------------------------------------------------------ lists with the same elements *)
Definition eqset {A} (l l' : list A) : Prop := forall x, In x l <-> In x l'.

Lemma eqset_refl {A} (l : list A) : eqset l l.
Proof. intro x. reflexivity. Qed.
Lemma eqset_sym {A} (l l' : list A) : eqset l l' -> eqset l' l.
Proof. intros H x. symmetry. apply H. Qed.
Lemma eqset_trans {A} (l1 l2 l3 : list A) : eqset l1 l2 -> eqset l2 l3 -> eqset l1 l3.
Proof. intros H1 H2 x. rewrite (H1 x). apply H2. Qed.

Lemma perm_eqset {A} (l l' : list A) : Permutation l l' -> eqset l l'.
Proof.
  intros H x. split; intro Hx.
  - eapply Permutation_in; [exact H|exact Hx].
  - eapply Permutation_in; [apply Permutation_sym; exact H|exact Hx].
Qed.

Lemma eqset_app {A} (a a' b b' : list A) : eqset a a' -> eqset b b' -> eqset (a ++ b) (a' ++ b').
Proof. intros Ha Hb x. rewrite !in_app_iff, (Ha x), (Hb x). reflexivity. Qed.

Lemma eqset_flat_map {A B} (f g : A -> list B) l l' :
  eqset l l' -> (forall x, In x l -> eqset (f x) (g x)) -> eqset (flat_map f l) (flat_map g l').
Proof.
  intros Hl Hfg y. rewrite !in_flat_map. split.
  - intros (x & Hx & Hy). exists x. split; [apply Hl, Hx|apply (Hfg x Hx), Hy].
  - intros (x & Hx & Hy). apply Hl in Hx. exists x. split; [exact Hx|apply (Hfg x Hx), Hy].
Qed.

Lemma eqset_map {A B} (f : A -> B) l l' : eqset l l' -> eqset (map f l) (map f l').
Proof.
  intros Hl y. rewrite !in_map_iff. split; intros (x & Hx & Hy); exists x; (split; [exact Hx|apply Hl, Hy]).
Qed.

Lemma bool_iff_eq (a b : bool) : (a = true <-> b = true) -> a = b.
Proof. destruct a, b; intros [H1 H2]; try reflexivity; [symmetry; apply H1|apply H2]; reflexivity. Qed.

Lemma existsb_eqset {A} (p q : A -> bool) l l' :
  eqset l l' -> (forall x, In x l -> p x = q x) -> existsb p l = existsb q l'.
Proof.
  intros Hl Hpq. apply bool_iff_eq. rewrite !existsb_exists. split.
  - intros (x & Hx & Hp). exists x. split; [apply Hl, Hx|rewrite <- (Hpq x Hx); exact Hp].
  - intros (x & Hx & Hp). apply Hl in Hx. exists x. split; [exact Hx|rewrite (Hpq x Hx); exact Hp].
Qed.

Lemma existsb_perm {A} (p : A -> bool) l l' : Permutation l l' -> existsb p l = existsb p l'.
Proof. intro H. apply existsb_eqset; [apply perm_eqset, H|reflexivity]. Qed.

Lemma forallb_eqset {A} (p q : A -> bool) l l' :
  eqset l l' -> (forall x, In x l -> p x = q x) -> forallb p l = forallb q l'.
Proof.
  intros Hl Hpq. apply bool_iff_eq. rewrite !forallb_forall. split.
  - intros H x Hx. apply Hl in Hx. rewrite <- (Hpq x Hx). apply H, Hx.
  - intros H x Hx. rewrite (Hpq x Hx). apply H, Hl, Hx.
Qed.

Lemma perm_flat_map {A B} (g : A -> list B) l l' :
  Permutation l l' -> Permutation (flat_map g l) (flat_map g l').
Proof.
  induction 1 as [|x l l' _ IH|x y l|l1 l2 l3 _ IH1 _ IH2]; cbn [flat_map].
  - constructor.
  - apply Permutation_app_head, IH.
  - rewrite !app_assoc. apply Permutation_app_tail, Permutation_app_comm.
  - eapply Permutation_trans; eassumption.
Qed.

(* ------------------------------------------------------------------ names *)
Lemma name_eqb_eq a b : name_eqb a b = true <-> a = b.
Proof. apply String.eqb_eq. Qed.
Lemma name_eqb_refl a : name_eqb a a = true.
Proof. apply name_eqb_eq. reflexivity. Qed.

Lemma mem_In x l : mem_name x l = true <-> In x l.
Proof.
  unfold mem_name. rewrite existsb_exists. split.
  - intros (y & Hy & E). apply name_eqb_eq in E. subst. exact Hy.
  - intro H. exists x. split; [exact H|apply name_eqb_refl].
Qed.

Lemma mem_name_eqset x l l' : eqset l l' -> mem_name x l = mem_name x l'.
Proof. intro H. apply bool_iff_eq. rewrite !mem_In. apply H. Qed.

Lemma dedup_eqset l : eqset (dedup_names l) l.
Proof.
  intro x. induction l as [|y r IH]; cbn [dedup_names]; [reflexivity|].
  destruct (mem_name y r) eqn:E.
  - rewrite IH. cbn [In]. split; [intro H; right; exact H|].
    intros [->|H]; [apply mem_In, E|exact H].
  - cbn [In]. rewrite IH. reflexivity.
Qed.

Lemma nodup_names_iff l : nodup_names l = true <-> NoDup l.
Proof.
  induction l as [|x r IH]; cbn [nodup_names].
  - split; [constructor|reflexivity].
  - rewrite andb_true_iff, negb_true_iff, IH. split.
    + intros [Hm Hr]. constructor; [|exact Hr]. intro Hin. apply mem_In in Hin. congruence.
    + intro H. inversion H as [|? ? Hn Hr]; subst. split; [|exact Hr].
      destruct (mem_name x r) eqn:E; [|reflexivity]. apply mem_In in E. contradiction.
Qed.

Lemma nodup_names_perm l l' : Permutation l l' -> nodup_names l = nodup_names l'.
Proof.
  intro H. apply bool_iff_eq. rewrite !nodup_names_iff. split; intro Hn.
  - eapply Permutation_NoDup; eassumption.
  - eapply Permutation_NoDup; [apply Permutation_sym|]; eassumption.
Qed.

(* first match in a list with distinct keys: determined by the elements *)
Lemma find_first_none_iff {A} (p : A -> bool) l :
  find_first p l = None <-> forall x, In x l -> p x = false.
Proof.
  induction l as [|y r IH]; cbn [find_first].
  - split; [intros _ x []|reflexivity].
  - destruct (p y) eqn:E.
    + split; [discriminate|]. intro H. rewrite (H y (or_introl eq_refl)) in E. discriminate.
    + rewrite IH. split.
      * intros H x [->|Hx]; [exact E|apply H, Hx].
      * intros H x Hx. apply H. right. exact Hx.
Qed.

Lemma find_first_some_in {A} (p : A -> bool) l x : find_first p l = Some x -> In x l /\ p x = true.
Proof.
  induction l as [|y r IH]; cbn [find_first]; [discriminate|].
  destruct (p y) eqn:E.
  - intro H. injection H as <-. split; [left; reflexivity|exact E].
  - intro H. destruct (IH H) as [H1 H2]. split; [right; exact H1|exact H2].
Qed.

Lemma find_first_key_unique {A} (key : A -> name) l n x :
  nodup_names (map key l) = true -> In x l -> key x = n ->
  find_first (fun f => name_eqb (key f) n) l = Some x.
Proof.
  induction l as [|y r IH]; cbn [map nodup_names find_first]; [intros _ []|].
  intros Hn Hx Hk. apply andb_true_iff in Hn. destruct Hn as [Hm Hr].
  destruct Hx as [->|Hx].
  - subst n. rewrite name_eqb_refl. reflexivity.
  - destruct (name_eqb (key y) n) eqn:E.
    + apply name_eqb_eq in E. apply negb_true_iff in Hm.
      assert (Hin : In (key y) (map key r)) by (rewrite E, <- Hk; apply in_map, Hx).
      apply mem_In in Hin. congruence.
    + apply IH; assumption.
Qed.

Lemma find_first_key_eqset {A} (key : A -> name) l l' n :
  nodup_names (map key l) = true -> nodup_names (map key l') = true -> eqset l l' ->
  find_first (fun f => name_eqb (key f) n) l = find_first (fun f => name_eqb (key f) n) l'.
Proof.
  intros Hn Hn' Hl. destruct (find_first (fun f => name_eqb (key f) n) l) as [x|] eqn:E.
  - apply find_first_some_in in E. destruct E as [Hx Hk]. apply name_eqb_eq in Hk.
    symmetry. apply find_first_key_unique; [exact Hn'|apply Hl, Hx|exact Hk].
  - symmetry. apply find_first_none_iff. intros x Hx.
    rewrite find_first_none_iff in E. apply E, Hl, Hx.
Qed.

(* ------------------------------------------------------------------ what the predicates read *)
(* two schemas that answer every lookup alike (and declare the same types) *)
Record seqv (s s' : sdocument) : Prop := {
  sq_type : forall n, type_by_name s n = type_by_name s' n;
  sq_dir : forall n, directive_by_name s n = directive_by_name s' n;
  sq_schema : find_schema_def s = find_schema_def s';
  sq_types : eqset (type_defs s) (type_defs s') }.
(* two documents with the same definitions, in which every fragment name denotes the same definition *)
Record deqv (d d' : document) : Prop := {
  dq_perm : Permutation d d';
  dq_frag : forall n, find_fragment d n = find_fragment d' n }.

Lemma seqv_refl s : seqv s s.
Proof. constructor; try reflexivity. apply eqset_refl. Qed.
Lemma deqv_refl d : deqv d d.
Proof. constructor; [apply Permutation_refl|reflexivity]. Qed.

(* ------------------------------------------------------------------ CollectFields, opened *)
Section SC.
  Variables (s : sdocument) (d : document) (obj : type_def).
  Variable rec : list selection -> list name -> list selection * list name.
  Fixpoint so (x : selection) (visited : list name) {struct x} : list selection * list name :=
    match x with
    | SField _ _ _ _ _ _ _ => ([x], visited)
    | SInline _ tc _ _ ss =>
        if match tc with None => true | Some c => fragment_type_applies s obj c end then
          (fix many (l : list selection) (visited : list name) {struct l} :=
             match l with
             | [] => ([], visited)
             | y :: r => let '(a, v1) := so y visited in
                         let '(b, v2) := many r v1 in (a ++ b, v2)
             end) ss visited
        else ([], visited)
    | SSpread _ n _ =>
        if mem_name n visited then ([], visited)
        else match find_fragment d n with
             | Some fr =>
                 if fragment_type_applies s obj (fr_tc fr)
                 then rec (fr_sels fr) (n :: visited)
                 else ([], n :: visited)
             | None => ([], n :: visited)
             end
    end.
  Fixpoint sm (l : list selection) (visited : list name) {struct l} : list selection * list name :=
    match l with
    | [] => ([], visited)
    | y :: r => let '(a, v1) := so y visited in
                let '(b, v2) := sm r v1 in (a ++ b, v2)
    end.
  Lemma so_inline p tc dirs sp ss v :
    so (SInline p tc dirs sp ss) v =
    if match tc with None => true | Some c => fragment_type_applies s obj c end then sm ss v else ([], v).
  Proof. reflexivity. Qed.
End SC.

Lemma spec_collect_list_S fuel s d p sels v :
  spec_collect_list (S fuel) s d p sels v = sm s d p (spec_collect_list fuel s d p) sels v.
Proof. reflexivity. Qed.

Lemma fragment_type_applies_ext s s' obj c : seqv s s' ->
  fragment_type_applies s obj c = fragment_type_applies s' obj c.
Proof. intro H. unfold fragment_type_applies. rewrite (sq_type _ _ H). reflexivity. Qed.

Section SCExt.
  Variables (s s' : sdocument) (d d' : document) (obj : type_def).
  Hypothesis Hs : seqv s s'.
  Hypothesis Hd : forall n, find_fragment d n = find_fragment d' n.
  Variables rec rec' : list selection -> list name -> list selection * list name.
  Hypothesis Hrec : forall l v, rec l v = rec' l v.

  Lemma sm_ext_F l : Forall (fun x => forall v, so s d obj rec x v = so s' d' obj rec' x v) l ->
    forall v, sm s d obj rec l v = sm s' d' obj rec' l v.
  Proof.
    induction 1 as [|y r Hy Hr IH]; intro v; [reflexivity|].
    cbn [sm]. rewrite Hy. destruct (so s' d' obj rec' y v) as [a v1]. rewrite IH. reflexivity.
  Qed.

  Lemma so_ext x : forall v, so s d obj rec x v = so s' d' obj rec' x v.
  Proof.
    induction x as [p al n args dirs sp sels IH|p n dirs|p tc dirs sp sels IH] using selection_ind'; intro v.
    - reflexivity.
    - cbn [so]. rewrite <- Hd. destruct (mem_name n v); [reflexivity|].
      destruct (find_fragment d n) as [fr|]; [|reflexivity].
      rewrite (fragment_type_applies_ext s s' obj _ Hs), Hrec. reflexivity.
    - rewrite !so_inline, (sm_ext_F sels IH). destruct tc as [c|]; [|reflexivity].
      rewrite (fragment_type_applies_ext s s' obj _ Hs). reflexivity.
  Qed.

  Lemma sm_ext l v : sm s d obj rec l v = sm s' d' obj rec' l v.
  Proof. apply sm_ext_F. apply Forall_forall. intros x _. apply so_ext. Qed.
End SCExt.

Lemma spec_collect_list_ext s s' d d' obj : seqv s s' -> (forall n, find_fragment d n = find_fragment d' n) ->
  forall fuel sels v, spec_collect_list fuel s d obj sels v = spec_collect_list fuel s' d' obj sels v.
Proof.
  intros Hs Hd. induction fuel as [|fuel IH]; intros sels v; [reflexivity|].
  rewrite !spec_collect_list_S. apply sm_ext; assumption.
Qed.

Lemma frags_perm d d' : Permutation d d' -> Permutation (fragments_of d) (fragments_of d').
Proof. apply perm_flat_map. Qed.
Lemma ops_perm d d' : Permutation d d' -> Permutation (operations_of d) (operations_of d').
Proof. apply perm_flat_map. Qed.

Lemma spec_collect_ext s s' d d' obj sels : seqv s s' -> deqv d d' ->
  spec_collect s d obj sels = spec_collect s' d' obj sels.
Proof.
  intros Hs Hd. unfold spec_collect.
  rewrite (Permutation_length (frags_perm _ _ (dq_perm _ _ Hd))).
  rewrite (spec_collect_list_ext s s' d d' obj Hs (dq_frag _ _ Hd)). reflexivity.
Qed.

(* ------------------------------------------------------------------ collected sets, opened *)
Section CS.
  Variables (s : sdocument) (d : document).
  Variable rec : option type_def -> list selection -> list name -> list cfield * list name.
  Fixpoint co (parent : option type_def) (x : selection) (visited : list name) {struct x}
    : list cfield * list name :=
    match x with
    | SField _ _ _ _ _ _ _ => ([mkCF parent x], visited)
    | SInline _ tc _ _ ss =>
        let p := match opt_bind tc (type_by_name s) with Some t => Some t | None => parent end in
        (fix many (l : list selection) (visited : list name) {struct l} :=
           match l with
           | [] => ([], visited)
           | y :: r => let '(a, v1) := co p y visited in
                       let '(b, v2) := many r v1 in (a ++ b, v2)
           end) ss visited
    | SSpread _ n _ =>
        if mem_name n visited then ([], visited)
        else match find_fragment d n with
             | Some fr => rec (type_by_name s (fr_tc fr)) (fr_sels fr) (n :: visited)
             | None => ([], n :: visited)
             end
    end.
  Definition cm (parent : option type_def) :=
    fix many (l : list selection) (visited : list name) {struct l} : list cfield * list name :=
      match l with
      | [] => ([], visited)
      | y :: r => let '(a, v1) := co parent y visited in
                  let '(b, v2) := many r v1 in (a ++ b, v2)
      end.
  Lemma cm_cons parent y r v :
    cm parent (y :: r) v = let '(a, v1) := co parent y v in
                           let '(b, v2) := cm parent r v1 in (a ++ b, v2).
  Proof. reflexivity. Qed.
  Lemma co_inline parent p tc dirs sp ss v :
    co parent (SInline p tc dirs sp ss) v =
    cm (match opt_bind tc (type_by_name s) with Some t => Some t | None => parent end) ss v.
  Proof. reflexivity. Qed.
End CS.

Lemma collect_set_S fuel s d parent sels v :
  collect_set (S fuel) s d parent sels v = cm s d (collect_set fuel s d) parent sels v.
Proof. reflexivity. Qed.

Section CSExt.
  Variables (s s' : sdocument) (d d' : document).
  Hypothesis Hs : seqv s s'.
  Hypothesis Hd : forall n, find_fragment d n = find_fragment d' n.
  Variables rec rec' : option type_def -> list selection -> list name -> list cfield * list name.
  Hypothesis Hrec : forall p l v, rec p l v = rec' p l v.

  Lemma cm_ext_F l : Forall (fun x => forall p v, co s d rec p x v = co s' d' rec' p x v) l ->
    forall p v, cm s d rec p l v = cm s' d' rec' p l v.
  Proof.
    induction 1 as [|y r Hy Hr IH]; intros p v; [reflexivity|].
    rewrite !cm_cons, Hy. destruct (co s' d' rec' p y v) as [a v1]. rewrite IH. reflexivity.
  Qed.

  Lemma co_ext x : forall p v, co s d rec p x v = co s' d' rec' p x v.
  Proof.
    induction x as [q al n args dirs sp sels IH|q n dirs|q tc dirs sp sels IH] using selection_ind'; intros p v.
    - reflexivity.
    - cbn [co]. rewrite <- Hd. destruct (mem_name n v); [reflexivity|].
      destruct (find_fragment d n) as [fr|]; [|reflexivity].
      rewrite (sq_type _ _ Hs), Hrec. reflexivity.
    - rewrite !co_inline, (cm_ext_F sels IH). destruct tc as [c|]; [|reflexivity].
      cbn [opt_bind]. rewrite (sq_type _ _ Hs). reflexivity.
  Qed.

  Lemma cm_ext p l v : cm s d rec p l v = cm s' d' rec' p l v.
  Proof. apply cm_ext_F. apply Forall_forall. intros x _. apply co_ext. Qed.
End CSExt.

Lemma collect_set_ext s s' d d' : seqv s s' -> (forall n, find_fragment d n = find_fragment d' n) ->
  forall fuel p sels v, collect_set fuel s d p sels v = collect_set fuel s' d' p sels v.
Proof.
  intros Hs Hd. induction fuel as [|fuel IH]; intros p sels v; [reflexivity|].
  rewrite !collect_set_S. apply cm_ext; assumption.
Qed.

Lemma collected_ext s s' d d' p sels : seqv s s' -> deqv d d' ->
  collected s d p sels = collected s' d' p sels.
Proof.
  intros Hs Hd. unfold collected, set_fuel.
  rewrite (Permutation_length (frags_perm _ _ (dq_perm _ _ Hd))).
  rewrite (collect_set_ext s s' d d' Hs (dq_frag _ _ Hd)). reflexivity.
Qed.

(* ------------------------------------------------------------------ the annotation reads the schema
   through its lookups only *)
Section AnnotExt.
  Variables s s' : sdocument.
  Hypothesis Hs : seqv s s'.

  Lemma lookup_named_ext t : lookup_named s t = lookup_named s' t.
  Proof. destruct t as [t|]; [|reflexivity]. cbn [lookup_named opt_bind]. apply (sq_type _ _ Hs). Qed.
  Lemma at_type_ext e t : at_type s e t = at_type s' e t.
  Proof. unfold at_type. rewrite lookup_named_ext. reflexivity. Qed.
  Lemma expecting_ext e t : expecting s e t = expecting s' e t.
  Proof. unfold expecting. rewrite lookup_named_ext. reflexivity. Qed.
  Lemma input_field_type_ext t k : input_field_type s t k = input_field_type s' t k.
  Proof. unfold input_field_type. rewrite lookup_named_ext. reflexivity. Qed.
  Lemma object_type_by_name_ext n : object_type_by_name s n = object_type_by_name s' n.
  Proof. unfold object_type_by_name. rewrite (sq_type _ _ Hs). reflexivity. Qed.
  Lemma root_name_ext k : root_name s k = root_name s' k.
  Proof. unfold root_name. rewrite (sq_schema _ _ Hs). reflexivity. Qed.
  Lemma root_ext k : root s k = root s' k.
  Proof.
    unfold root. rewrite root_name_ext. destruct (root_name s' k) as [n|]; [|reflexivity].
    cbn [opt_bind]. apply object_type_by_name_ext.
  Qed.

  Lemma annot_value_ext v : forall e, annot_value s v e = annot_value s' v e.
  Proof.
    induction v as [n|z|b|str|b| |n|l IH|l IH] using value_ind'; intro e; try reflexivity.
    - cbn [annot_value]. rewrite expecting_ext.
      rewrite (flat_map_Forall_ext _ (fun x => annot_value s' x (expecting s' e (item_type (a_input_lit e)))) l);
        [reflexivity|].
      eapply Forall_impl; [|exact IH]. intros x Hx. apply Hx.
    - cbn [annot_value].
      rewrite (flat_map_Forall_ext _ (fun kv : name * value =>
                  let e' := expecting s' e (input_field_type s' (a_input_lit e) (fst kv)) in
                  (Enter (NObjectField kv), e') :: annot_value s' (snd kv) e' ++ [(Leave (NObjectField kv), e')]) l);
        [reflexivity|].
      eapply Forall_impl; [|exact IH]. intros kv Hkv. cbv beta zeta.
      rewrite input_field_type_ext, expecting_ext, Hkv. reflexivity.
  Qed.

  Lemma annot_arguments_ext decls args e : annot_arguments s decls args e = annot_arguments s' decls args e.
  Proof.
    unfold annot_arguments. apply flat_map_all_ext. intro a. cbv beta.
    rewrite expecting_ext, annot_value_ext. reflexivity.
  Qed.
  Lemma annot_directives_ext dirs e : annot_directives s dirs e = annot_directives s' dirs e.
  Proof.
    unfold annot_directives. apply flat_map_all_ext. intro x.
    rewrite (sq_dir _ _ Hs), annot_arguments_ext. reflexivity.
  Qed.
  Lemma annot_vardefs_ext vars e : annot_vardefs s vars e = annot_vardefs s' vars e.
  Proof.
    unfold annot_vardefs. apply flat_map_all_ext. intro v. cbv beta.
    rewrite expecting_ext. destruct (v_default v) as [dv|]; [|reflexivity].
    rewrite annot_value_ext. reflexivity.
  Qed.
  Lemma annot_selection_ext x : forall e, annot_selection s x e = annot_selection s' x e.
  Proof.
    induction x as [p al n args dirs sp sels IH|p n dirs|p tc dirs sp sels IH] using selection_ind'; intro e.
    - assert (EF : forall e3, flat_map (fun y => annot_selection s y e3) sels =
                              flat_map (fun y => annot_selection s' y e3) sels).
      { intro e3. apply flat_map_Forall_ext. eapply Forall_impl; [|exact IH]. intros y Hy. apply Hy. }
      cbn [annot_selection]. rewrite at_type_ext, annot_arguments_ext, annot_directives_ext, EF. reflexivity.
    - cbn [annot_selection]. rewrite annot_directives_ext. reflexivity.
    - assert (EF : forall e3, flat_map (fun y => annot_selection s y e3) sels =
                              flat_map (fun y => annot_selection s' y e3) sels).
      { intro e3. apply flat_map_Forall_ext. eapply Forall_impl; [|exact IH]. intros y Hy. apply Hy. }
      cbn [annot_selection].
      assert (E : match tc with Some cond => at_type s e (Some (TNamed cond)) | None => e end =
                  match tc with Some cond => at_type s' e (Some (TNamed cond)) | None => e end)
        by (destruct tc; [apply at_type_ext|reflexivity]).
      rewrite E, annot_directives_ext, EF. reflexivity.
  Qed.
  Lemma annot_selection_set_ext sp sels e : annot_selection_set s sp sels e = annot_selection_set s' sp sels e.
  Proof.
    unfold annot_selection_set. f_equal. f_equal. apply flat_map_all_ext. intro y. apply annot_selection_ext.
  Qed.
  Lemma annot_definition_ext x e : annot_definition s x e = annot_definition s' x e.
  Proof.
    destruct x as [o|f]; cbn [annot_definition].
    - rewrite root_ext, at_type_ext, annot_directives_ext, annot_vardefs_ext, annot_selection_set_ext. reflexivity.
    - rewrite at_type_ext, annot_directives_ext, annot_selection_set_ext. reflexivity.
  Qed.
End AnnotExt.

Definition annot_body (s : sdocument) (d : document) : list aev :=
  flat_map (fun x => annot_definition s x env0) d.

Lemma annot_body_perm s s' d d' : seqv s s' -> Permutation d d' ->
  Permutation (annot_body s d) (annot_body s' d').
Proof.
  intros Hs Hp. unfold annot_body.
  rewrite (flat_map_all_ext _ (fun x => annot_definition s' x env0) d)
    by (intro x; apply annot_definition_ext, Hs).
  apply perm_flat_map, Hp.
Qed.

(* predicates and collectors that do not look at the document events *)
Definition is_doc_event (ea : aev) : bool :=
  match fst ea with Enter (NDocument _) | Leave (NDocument _) => true | _ => false end.

Lemma flat_map_annot {B} (g : aev -> list B) s d :
  (forall ea, is_doc_event ea = true -> g ea = []) ->
  flat_map g (annot s d) = flat_map g (annot_body s d).
Proof.
  intro Hg. unfold annot. cbn [flat_map]. rewrite flat_map_app. cbn [flat_map].
  rewrite !Hg by reflexivity. rewrite !app_nil_r. reflexivity.
Qed.

Lemma flat_map_annot_perm {B} (g : aev -> list B) s s' d d' :
  (forall ea, is_doc_event ea = true -> g ea = []) -> seqv s s' -> Permutation d d' ->
  Permutation (flat_map g (annot s d)) (flat_map g (annot s' d')).
Proof.
  intros Hg Hs Hp. rewrite !flat_map_annot by exact Hg. apply perm_flat_map, annot_body_perm; assumption.
Qed.

Lemma existsb_annot_ext (p p' : aev -> bool) s s' d d' :
  (forall ea, is_doc_event ea = true -> p ea = false) ->
  (forall ea, is_doc_event ea = true -> p' ea = false) ->
  (forall ea, is_doc_event ea = false -> p ea = p' ea) ->
  seqv s s' -> Permutation d d' ->
  existsb p (annot s d) = existsb p' (annot s' d').
Proof.
  intros Hp Hp' Hpp Hs Hd. unfold annot. cbn [existsb]. rewrite !existsb_app. cbn [existsb].
  rewrite !Hp, !Hp' by reflexivity. cbn [orb]. rewrite !orb_false_r.
  apply existsb_eqset; [apply perm_eqset, annot_body_perm; assumption|].
  intros ea _. destruct (is_doc_event ea) eqn:E; [rewrite Hp, Hp' by exact E; reflexivity|apply Hpp, E].
Qed.

(* ------------------------------------------------------------------ the lists the predicates range over *)
Section DocPerm.
  Variables d d' : document.
  Hypothesis Hp : Permutation d d'.

  Lemma frag_names_perm : Permutation (frag_names d) (frag_names d').
  Proof. unfold frag_names. apply Permutation_map, frags_perm, Hp. Qed.
  Lemma named_operation_names_perm : Permutation (named_operation_names d) (named_operation_names d').
  Proof. unfold named_operation_names. apply perm_flat_map, ops_perm, Hp. Qed.
  Lemma doc_selections_perm : Permutation (doc_selections d) (doc_selections d').
  Proof. unfold doc_selections. apply perm_flat_map, Hp. Qed.
  Lemma type_conditions_perm : Permutation (type_conditions d) (type_conditions d').
  Proof.
    unfold type_conditions. apply Permutation_app.
    - apply Permutation_map, frags_perm, Hp.
    - apply perm_flat_map, doc_selections_perm.
  Qed.
  Lemma variable_types_perm : Permutation (variable_types d) (variable_types d').
  Proof. unfold variable_types. apply perm_flat_map, ops_perm, Hp. Qed.
  Lemma doc_spreads_perm :
    Permutation (spreads_in (flat_map def_sels d)) (spreads_in (flat_map def_sels d')).
  Proof. unfold spreads_in, sels_all. do 3 apply perm_flat_map. exact Hp. Qed.
  Lemma directive_sites_perm : Permutation (directive_sites d) (directive_sites d').
  Proof. unfold directive_sites. apply perm_flat_map, Hp. Qed.
  Lemma fragment_spreads_perm n : Permutation (fragment_spreads d n) (fragment_spreads d' n).
  Proof. unfold fragment_spreads. apply perm_flat_map, frags_perm, Hp. Qed.
  Lemma fragment_vars_perm n : Permutation (fragment_vars d n) (fragment_vars d' n).
  Proof. unfold fragment_vars. apply perm_flat_map, frags_perm, Hp. Qed.
  Lemma frags_length : List.length (fragments_of d) = List.length (fragments_of d').
  Proof. apply Permutation_length, frags_perm, Hp. Qed.

  Lemma dedup_eqset_congr a a' : eqset a a' -> eqset (dedup_names a) (dedup_names a').
  Proof.
    intro H. eapply eqset_trans; [apply dedup_eqset|]. eapply eqset_trans; [exact H|].
    apply eqset_sym, dedup_eqset.
  Qed.

  Lemma spread_closure_eqset k : forall set set', eqset set set' ->
    eqset (spread_closure k d set) (spread_closure k d' set').
  Proof.
    induction k as [|k IH]; intros set set' H; cbn [spread_closure]; [exact H|].
    apply IH, dedup_eqset_congr, eqset_app; [exact H|].
    apply eqset_flat_map; [exact H|]. intros n _. apply perm_eqset, fragment_spreads_perm.
  Qed.

  Lemma reachable_eqset : eqset (reachable_from_operations d) (reachable_from_operations d').
  Proof.
    unfold reachable_from_operations. rewrite frags_length.
    apply spread_closure_eqset, dedup_eqset_congr, perm_eqset, perm_flat_map, ops_perm, Hp.
  Qed.
  Lemma op_reachable_eqset o : eqset (op_reachable_fragments d o) (op_reachable_fragments d' o).
  Proof.
    unfold op_reachable_fragments. rewrite frags_length.
    apply spread_closure_eqset, eqset_refl.
  Qed.
  Lemma vars_used_eqset o : eqset (vars_used_in_op d o) (vars_used_in_op d' o).
  Proof.
    unfold vars_used_in_op. apply eqset_app; [apply eqset_refl|]. apply eqset_app; [apply eqset_refl|].
    apply eqset_flat_map; [apply op_reachable_eqset|]. intros n _. apply perm_eqset, fragment_vars_perm.
  Qed.

  (* ---- rules that do not consult the schema ---- *)
  Lemma p_unique_operation_names : v_unique_operation_names d = v_unique_operation_names d'.
  Proof. unfold v_unique_operation_names. rewrite (nodup_names_perm _ _ named_operation_names_perm). reflexivity. Qed.
  Lemma p_lone_anonymous : v_lone_anonymous d = v_lone_anonymous d'.
  Proof.
    unfold v_lone_anonymous.
    rewrite (existsb_perm _ _ _ (ops_perm _ _ Hp)), (Permutation_length (ops_perm _ _ Hp)). reflexivity.
  Qed.
  Lemma p_unique_fragment_names : v_unique_fragment_names d = v_unique_fragment_names d'.
  Proof. unfold v_unique_fragment_names. rewrite (nodup_names_perm _ _ frag_names_perm). reflexivity. Qed.
  Lemma p_known_fragment_names : v_known_fragment_names d = v_known_fragment_names d'.
  Proof.
    unfold v_known_fragment_names. apply existsb_eqset; [apply perm_eqset, doc_spreads_perm|].
    intros n _. rewrite (mem_name_eqset n _ _ (perm_eqset _ _ frag_names_perm)). reflexivity.
  Qed.
  Lemma p_no_unused_fragments : v_no_unused_fragments d = v_no_unused_fragments d'.
  Proof.
    unfold v_no_unused_fragments. apply existsb_eqset; [apply perm_eqset, frag_names_perm|].
    intros n _. rewrite (mem_name_eqset n _ _ reachable_eqset). reflexivity.
  Qed.
  Lemma p_no_fragment_cycles : v_no_fragment_cycles d = v_no_fragment_cycles d'.
  Proof.
    unfold v_no_fragment_cycles. apply existsb_eqset; [apply perm_eqset, frag_names_perm|].
    intros n _. rewrite frags_length. apply mem_name_eqset, spread_closure_eqset, dedup_eqset_congr.
    apply perm_eqset, fragment_spreads_perm.
  Qed.
  Lemma p_unique_variable_names : v_unique_variable_names d = v_unique_variable_names d'.
  Proof. unfold v_unique_variable_names. apply existsb_perm, ops_perm, Hp. Qed.
  Lemma p_no_undefined_variables : v_no_undefined_variables d = v_no_undefined_variables d'.
  Proof.
    unfold v_no_undefined_variables. apply existsb_eqset; [apply perm_eqset, ops_perm, Hp|].
    intros o _. apply existsb_eqset; [apply vars_used_eqset|reflexivity].
  Qed.
  Lemma p_no_unused_variables : v_no_unused_variables d = v_no_unused_variables d'.
  Proof.
    unfold v_no_unused_variables. apply existsb_eqset; [apply perm_eqset, ops_perm, Hp|].
    intros o _. apply existsb_eqset; [apply eqset_refl|].
    intros x _. rewrite (mem_name_eqset x _ _ (vars_used_eqset o)). reflexivity.
  Qed.
End DocPerm.

(* ------------------------------------------------------------------ rules that consult the schema *)
Lemma event_cases_doc (ea : aev) : is_doc_event ea = true ->
  exists x e, ea = (Enter (NDocument x), e) \/ ea = (Leave (NDocument x), e).
Proof.
  destruct ea as [[[]|[]] e]; cbn; try discriminate; intros _; eexists; eexists; [left|right]; reflexivity.
Qed.

Section Rules.
  Variables (s s' : sdocument) (d d' : document).
  Hypothesis Hs : seqv s s'.
  Hypothesis Hd : deqv d d'.
  Let Hp : Permutation d d' := dq_perm _ _ Hd.

  Lemma field_events_perm : Permutation (field_events s d) (field_events s' d').
  Proof.
    unfold field_events. apply flat_map_annot_perm; [|exact Hs|exact Hp].
    intros ea H. apply event_cases_doc in H. destruct H as (x & e & [->| ->]); reflexivity.
  Qed.
  Lemma directive_events_perm : Permutation (directive_events s d) (directive_events s' d').
  Proof.
    unfold directive_events. apply flat_map_annot_perm; [|exact Hs|exact Hp].
    intros ea H. apply event_cases_doc in H. destruct H as (x & e & [->| ->]); reflexivity.
  Qed.
  Lemma literal_positions_perm : Permutation (literal_positions s d) (literal_positions s' d').
  Proof.
    unfold literal_positions. apply flat_map_annot_perm; [|exact Hs|exact Hp].
    intros ea H. apply event_cases_doc in H. destruct H as (x & e & [->| ->]); reflexivity.
  Qed.
  Lemma selection_sets_perm : Permutation (selection_sets s d) (selection_sets s' d').
  Proof.
    unfold selection_sets. apply flat_map_annot_perm; [|exact Hs|exact Hp].
    intros ea H. apply event_cases_doc in H. destruct H as (x & e & [->| ->]); reflexivity.
  Qed.

  Lemma p_single_field_subscriptions : v_single_field_subscriptions s d = v_single_field_subscriptions s' d'.
  Proof.
    unfold v_single_field_subscriptions. apply existsb_eqset; [apply perm_eqset, ops_perm, Hp|].
    intros o _. destruct (o_kind o); try reflexivity.
    rewrite (root_ext s s' Hs). destruct (root s' OpSubscription) as [t|]; [|reflexivity].
    rewrite (spec_collect_ext s s' d d' t (o_sels o) Hs Hd). reflexivity.
  Qed.

  Lemma type_exists_ext n : type_exists s n = type_exists s' n.
  Proof. unfold type_exists. rewrite (sq_type _ _ Hs). reflexivity. Qed.

  Lemma p_known_type_names : v_known_type_names s d = v_known_type_names s' d'.
  Proof.
    unfold v_known_type_names. apply existsb_eqset.
    - apply perm_eqset, Permutation_app; [apply type_conditions_perm, Hp|].
      apply Permutation_map, variable_types_perm, Hp.
    - intros n _. rewrite type_exists_ext. reflexivity.
  Qed.
  Lemma p_fragments_on_composite : v_fragments_on_composite s d = v_fragments_on_composite s' d'.
  Proof.
    unfold v_fragments_on_composite. apply existsb_eqset; [apply perm_eqset, type_conditions_perm, Hp|].
    intros n _. rewrite (sq_type _ _ Hs). reflexivity.
  Qed.
  Lemma p_variables_are_input_types : v_variables_are_input_types s d = v_variables_are_input_types s' d'.
  Proof.
    unfold v_variables_are_input_types. apply existsb_eqset; [apply perm_eqset, variable_types_perm, Hp|].
    intros t _. rewrite (sq_type _ _ Hs). reflexivity.
  Qed.
  Lemma p_leaf_field_selections : v_leaf_field_selections s d = v_leaf_field_selections s' d'.
  Proof. unfold v_leaf_field_selections. apply existsb_perm, field_events_perm. Qed.
  Lemma p_fields_on_correct_type : v_fields_on_correct_type s d = v_fields_on_correct_type s' d'.
  Proof.
    unfold v_fields_on_correct_type. f_equal.
    - apply existsb_eqset; [apply perm_eqset, field_events_perm|].
      intros [f e] _. unfold query_root_name. rewrite (root_ext s s' Hs). reflexivity.
    - apply existsb_perm, ops_perm, Hp.
  Qed.

  Lemma possible_object_names_eqset t : eqset (possible_object_names s t) (possible_object_names s' t).
  Proof.
    destruct t as [n ifs fs|n ifs fs|n ms|n|n vs|n fs]; cbn [possible_object_names]; try apply eqset_refl.
    - apply eqset_flat_map; [apply (sq_types _ _ Hs)|]. intros o _. apply eqset_refl.
    - rewrite (flat_map_all_ext _ (fun m => match type_by_name s' m with
                                            | Some (TDObject m' _ _) => [m'] | _ => [] end) ms).
      + apply eqset_refl.
      + intro m. rewrite (sq_type _ _ Hs). reflexivity.
  Qed.
  Lemma types_can_overlap_ext a b : types_can_overlap s a b = types_can_overlap s' a b.
  Proof.
    unfold types_can_overlap. f_equal. apply existsb_eqset; [apply possible_object_names_eqset|].
    intros x _. apply mem_name_eqset, possible_object_names_eqset.
  Qed.
  Lemma spread_impossible_ext a b : spread_impossible s a b = spread_impossible s' a b.
  Proof.
    unfold spread_impossible. destruct a as [a|]; [|reflexivity]. destruct b as [b|]; [|reflexivity].
    rewrite types_can_overlap_ext. reflexivity.
  Qed.

  Lemma p_possible_fragment_spreads : v_possible_fragment_spreads s d = v_possible_fragment_spreads s' d'.
  Proof.
    unfold v_possible_fragment_spreads. apply existsb_annot_ext; [| | |exact Hs|exact Hp].
    - intros ea H. apply event_cases_doc in H. destruct H as (x & e & [->| ->]); reflexivity.
    - intros ea H. apply event_cases_doc in H. destruct H as (x & e & [->| ->]); reflexivity.
    - intros [[n|n] e] _; cbn [fst snd]; [|reflexivity]. destruct n; try reflexivity.
      + destruct f as [p al n args dirs sp sels|p n dirs|p tc dirs sp sels]; try reflexivity.
        rewrite <- (dq_frag _ _ Hd). destruct (find_fragment d n) as [fr|]; [|reflexivity].
        rewrite (sq_type _ _ Hs). apply spread_impossible_ext.
      + apply spread_impossible_ext.
  Qed.

  Lemma directive_decls_ext x : directive_decls s x = directive_decls s' x.
  Proof. unfold directive_decls. rewrite (sq_dir _ _ Hs). reflexivity. Qed.

  Lemma p_known_argument_names : v_known_argument_names s d = v_known_argument_names s' d'.
  Proof.
    unfold v_known_argument_names. f_equal.
    - apply existsb_perm, field_events_perm.
    - apply existsb_eqset; [apply perm_eqset, directive_events_perm|].
      intros x _. rewrite directive_decls_ext. reflexivity.
  Qed.
  Lemma p_unique_argument_names : v_unique_argument_names s d = v_unique_argument_names s' d'.
  Proof.
    unfold v_unique_argument_names. f_equal.
    - apply existsb_perm, field_events_perm.
    - apply existsb_perm, directive_events_perm.
  Qed.
  Lemma p_provided_required_arguments : v_provided_required_arguments s d = v_provided_required_arguments s' d'.
  Proof.
    unfold v_provided_required_arguments. f_equal.
    - apply existsb_perm, field_events_perm.
    - apply existsb_eqset; [apply perm_eqset, directive_events_perm|].
      intros x _. rewrite directive_decls_ext. reflexivity.
  Qed.
  Lemma p_known_directives : v_known_directives s d = v_known_directives s' d'.
  Proof.
    unfold v_known_directives. apply existsb_eqset; [apply perm_eqset, directive_sites_perm, Hp|].
    intros site _. apply existsb_eqset; [apply eqset_refl|]. intros x _. rewrite (sq_dir _ _ Hs). reflexivity.
  Qed.
  Lemma p_unique_directives_per_location :
    v_unique_directives_per_location s d = v_unique_directives_per_location s' d'.
  Proof.
    unfold v_unique_directives_per_location. apply existsb_eqset; [apply perm_eqset, directive_sites_perm, Hp|].
    intros site _. f_equal. f_equal. apply flat_map_all_ext. intro x. rewrite (sq_dir _ _ Hs). reflexivity.
  Qed.
End Rules.

(* ------------------------------------------------------------------ values *)
Lemma coercibleb_ext s s' : seqv s s' -> forall v t, coercibleb s v t = coercibleb s' v t.
Proof.
  intros Hs v.
  induction v as [n|z|b|str|b| |n|l IH|l IH] using value_ind'; intro t;
    induction t as [m|i IHt|i IHt];
    rewrite ?C08_proofs.coercibleb_named, ?C08_proofs.coercibleb_list, ?C08_proofs.coercibleb_nonnull;
    try reflexivity; try exact IHt;
    try (unfold C08_proofs.named_spec; rewrite (sq_type _ _ Hs);
         destruct (type_by_name s' _) as [[]|]; reflexivity).
  - (* list value, list type *)
    apply forallb_eqset; [apply eqset_refl|]. intros x Hx. rewrite Forall_forall in IH. apply IH, Hx.
  - (* object value, named type *)
    unfold C08_proofs.named_spec. rewrite (sq_type _ _ Hs m).
    destruct (type_by_name s' m) as [[]|]; try reflexivity.
    f_equal. apply forallb_eqset; [apply eqset_refl|]. intros kv Hkv.
    destruct (find_first (fun f => name_eqb (iv_name f) (fst kv)) fields) as [f|]; [|reflexivity].
    rewrite Forall_forall in IH. apply (IH kv Hkv).
Qed.

Lemma value_usages_ext s s' : seqv s s' -> forall v t dflt, value_usages s v t dflt = value_usages s' v t dflt.
Proof.
  intros Hs v.
  induction v as [n|z|b|str|b| |n|l IH|l IH] using value_ind'; intros t dflt; try reflexivity.
  - cbn [value_usages]. apply flat_map_Forall_ext. eapply Forall_impl; [|exact IH]. intros x Hx. apply Hx.
  - cbn [value_usages]. apply flat_map_Forall_ext. eapply Forall_impl; [|exact IH]. intros kv Hkv. cbv beta zeta.
    rewrite (lookup_named_ext s s' Hs). apply Hkv.
Qed.

Lemma args_usages_ext s s' decls args : seqv s s' -> args_usages s decls args = args_usages s' decls args.
Proof. intro Hs. unfold args_usages. apply flat_map_all_ext. intro a. apply value_usages_ext, Hs. Qed.

Lemma definition_usages_ext s s' x : seqv s s' -> definition_usages s x = definition_usages s' x.
Proof.
  intro Hs. unfold definition_usages. rewrite (annot_definition_ext s s' Hs).
  apply flat_map_all_ext. intros [[n|n] e]; cbn [fst snd]; [|reflexivity].
  destruct n; try reflexivity.
  - rewrite (directive_decls_ext s s' Hs). apply args_usages_ext, Hs.
  - apply args_usages_ext, Hs.
Qed.

Section Rules2.
  Variables (s s' : sdocument) (d d' : document).
  Hypothesis Hs : seqv s s'.
  Hypothesis Hd : deqv d d'.
  Let Hp : Permutation d d' := dq_perm _ _ Hd.

  Lemma op_usages_eqset o : eqset (op_usages s d o) (op_usages s' d' o).
  Proof.
    unfold op_usages. apply eqset_app.
    - rewrite (definition_usages_ext s s' _ Hs). apply eqset_refl.
    - apply eqset_flat_map; [apply op_reachable_eqset, Hp|]. intros n _.
      apply eqset_flat_map; [apply perm_eqset, frags_perm, Hp|]. intros f _.
      rewrite (definition_usages_ext s s' _ Hs). apply eqset_refl.
  Qed.

  Lemma p_variables_in_allowed_position :
    v_variables_in_allowed_position s d = v_variables_in_allowed_position s' d'.
  Proof.
    unfold v_variables_in_allowed_position. apply existsb_eqset; [apply perm_eqset, ops_perm, Hp|].
    intros o _. apply existsb_eqset; [apply op_usages_eqset|reflexivity].
  Qed.

  Lemma p_values_of_correct_type : v_values_of_correct_type s d = v_values_of_correct_type s' d'.
  Proof.
    unfold v_values_of_correct_type.
    apply existsb_eqset; [apply perm_eqset, literal_positions_perm; assumption|].
    intros tv _. rewrite (coercibleb_ext s s' Hs). reflexivity.
  Qed.
End Rules2.

(* ------------------------------------------------------------------ field merging *)
Lemma fold_add_shift {A} (g : A -> nat) l : forall a,
  fold_left (fun n x => n + g x) l a = a + fold_left (fun n x => n + g x) l 0.
Proof.
  induction l as [|y r IH]; intro a; cbn [fold_left]; [lia|].
  rewrite (IH (a + g y)), (IH (0 + g y)). lia.
Qed.
Lemma fold_add_perm {A} (g : A -> nat) l l' : Permutation l l' -> forall a,
  fold_left (fun n x => n + g x) l a = fold_left (fun n x => n + g x) l' a.
Proof.
  induction 1 as [|x l l' _ IH|x y l|l1 l2 l3 _ IH1 _ IH2]; intro a; cbn [fold_left].
  - reflexivity.
  - apply IH.
  - f_equal. lia.
  - rewrite IH1. apply IH2.
Qed.
Lemma doc_fields_perm d d' : Permutation d d' -> doc_fields d = doc_fields d'.
Proof. intro H. unfold doc_fields. apply fold_add_perm, H. Qed.

Lemma shape_conflict_ext s s' : seqv s s' -> forall a b, shape_conflict s a b = shape_conflict s' a b.
Proof.
  intros Hs a. induction a as [x|x IH|x IH]; intros [y|y|y]; cbn [shape_conflict]; try reflexivity; try apply IH.
  unfold is_leaf_named. rewrite !(sq_type _ _ Hs). reflexivity.
Qed.

Section Merge.
  Variables (s s' : sdocument) (d d' : document).
  Hypothesis Hs : seqv s s'.
  Hypothesis Hd : deqv d d'.

  Lemma sub_set_ext c : sub_set s d c = sub_set s' d' c.
  Proof.
    unfold sub_set. rewrite (collected_ext s s' d d' _ _ Hs Hd).
    destruct (opt_map fd_type (cf_def c)) as [t|]; [|reflexivity].
    cbn [opt_bind]. rewrite (sq_type _ _ Hs). reflexivity.
  Qed.

  Lemma fields_can_merge_ext fuel : forall mutex a b,
    fields_can_merge fuel s d mutex a b = fields_can_merge fuel s' d' mutex a b.
  Proof.
    induction fuel as [|fuel IH]; intros mutex a b; [reflexivity|].
    cbn [fields_can_merge]. rewrite !sub_set_ext. f_equal; [f_equal|].
    - destruct (cf_def a), (cf_def b); try reflexivity. rewrite (shape_conflict_ext s s' Hs). reflexivity.
    - apply forallb_eqset; [apply eqset_refl|]. intros xy _. apply IH.
  Qed.

  Lemma fields_in_set_can_merge_ext set : fields_in_set_can_merge s d set = fields_in_set_can_merge s' d' set.
  Proof.
    unfold fields_in_set_can_merge, merge_fuel_spec. rewrite (doc_fields_perm d d' (dq_perm _ _ Hd)).
    apply forallb_eqset; [apply eqset_refl|]. intros ab _. apply fields_can_merge_ext.
  Qed.

  Lemma p_overlapping_fields : v_overlapping_fields s d = v_overlapping_fields s' d'.
  Proof.
    unfold v_overlapping_fields.
    apply existsb_eqset; [apply perm_eqset, selection_sets_perm; assumption|].
    intros ps _. rewrite (collected_ext s s' d d' _ _ Hs Hd), fields_in_set_can_merge_ext. reflexivity.
  Qed.
End Merge.

(* ------------------------------------------------------------------ all rules *)
Theorem violated_ext r s s' d d' : seqv s s' -> deqv d d' -> violated r s d = violated r s' d'.
Proof.
  intros Hs Hd. pose proof (dq_perm _ _ Hd) as Hp. destruct r; cbn [violated].
  - apply p_unique_operation_names, Hp.
  - apply p_lone_anonymous, Hp.
  - apply p_single_field_subscriptions; assumption.
  - apply p_known_type_names; assumption.
  - apply p_fragments_on_composite; assumption.
  - apply p_variables_are_input_types; assumption.
  - apply p_leaf_field_selections; assumption.
  - apply p_fields_on_correct_type; assumption.
  - apply p_unique_fragment_names, Hp.
  - apply p_known_fragment_names, Hp.
  - apply p_no_unused_fragments, Hp.
  - rewrite (p_no_fragment_cycles d d' Hp), (p_overlapping_fields s s' d d' Hs Hd). reflexivity.
  - apply p_no_fragment_cycles, Hp.
  - apply p_possible_fragment_spreads; assumption.
  - apply p_no_unused_variables, Hp.
  - apply p_no_undefined_variables, Hp.
  - apply p_known_argument_names; assumption.
  - apply p_unique_argument_names; assumption.
  - apply p_unique_variable_names, Hp.
  - apply p_provided_required_arguments; assumption.
  - apply p_known_directives; assumption.
  - apply p_variables_in_allowed_position; assumption.
  - apply p_values_of_correct_type; assumption.
  - apply p_unique_directives_per_location; assumption.
Qed.

(* ------------------------------------------------------------------ permuted documents *)
Lemma distinct_fragments_nodup d : distinct_fragments d = true -> nodup_names (frag_names d) = true.
Proof.
  unfold distinct_fragments, v_unique_fragment_names. rewrite negb_involutive. exact (fun H => H).
Qed.

Lemma deqv_of_perm d d' : Permutation d d' -> distinct_fragments d = true -> deqv d d'.
Proof.
  intros Hp Hdf. constructor; [exact Hp|]. intro n. unfold find_fragment.
  pose proof (frags_perm d d' Hp) as Hf.
  pose proof (distinct_fragments_nodup d Hdf) as Hn. unfold frag_names in Hn.
  apply (find_first_key_eqset fr_name).
  - rewrite <- Hn. apply nodup_names_perm, Permutation_map, Permutation_sym, Permutation_rev.
  - rewrite <- Hn. apply nodup_names_perm, Permutation_map.
    eapply Permutation_trans; [apply Permutation_sym, Permutation_rev|apply Permutation_sym, Hf].
  - apply perm_eqset.
    eapply Permutation_trans; [apply Permutation_sym, Permutation_rev|].
    eapply Permutation_trans; [exact Hf|apply Permutation_rev].
Qed.

Theorem violated_perm_definitions : forall r s d d',
  Permutation d d' -> distinct_fragments d = true ->
  violated r s d = violated r s d'.
Proof.
  intros r s d d' Hp Hdf. apply violated_ext; [apply seqv_refl|apply deqv_of_perm; assumption].
Qed.

(* ------------------------------------------------------------------ permuted schemas *)
Lemma type_by_name_find s n :
  type_by_name s n = find_first (fun t => name_eqb (td_name t) n) (type_defs s).
Proof.
  induction s as [|x r IH]; [reflexivity|].
  destruct x as [sd|t|dd|ext]; cbn [type_by_name type_defs flat_map app find_first]; try exact IH.
  rewrite IH. reflexivity.
Qed.
Lemma directive_by_name_find s n :
  directive_by_name s n = find_first (fun x => name_eqb (dd_name x) n) (directive_defs s).
Proof.
  induction s as [|x r IH]; [reflexivity|].
  destruct x as [sd|t|dd|ext]; cbn [directive_by_name directive_defs flat_map app find_first]; try exact IH.
  rewrite IH. reflexivity.
Qed.
Lemma find_schema_def_hd s : find_schema_def s = hd_error (schema_defs s).
Proof.
  induction s as [|x r IH]; [reflexivity|].
  destruct x as [sd|t|dd|ext]; cbn [find_schema_def schema_defs flat_map app hd_error]; try exact IH.
  reflexivity.
Qed.

Lemma wf_one_schema_def s : wf_schema s = true -> Nat.leb (List.length (schema_defs s)) 1 = true.
Proof.
  unfold wf_schema. intro H. repeat (apply andb_prop in H; destruct H as [H ?]). assumption.
Qed.

Lemma perm_short {A} (l l' : list A) : Permutation l l' -> List.length l <= 1 -> l = l'.
Proof.
  intros Hp Hl. destruct l as [|x [|y r]].
  - apply Permutation_nil in Hp. symmetry. exact Hp.
  - apply Permutation_length_1_inv in Hp. symmetry. exact Hp.
  - cbn [List.length] in Hl. lia.
Qed.

Lemma seqv_of_perm s s' : Permutation s s' -> wf_schema s = true -> seqv s s'.
Proof.
  intros Hp Hwf.
  assert (Ht : Permutation (type_defs s) (type_defs s')) by (apply perm_flat_map, Hp).
  assert (Hdd : Permutation (directive_defs s) (directive_defs s')) by (apply perm_flat_map, Hp).
  assert (Hsd : Permutation (schema_defs s) (schema_defs s')) by (apply perm_flat_map, Hp).
  constructor.
  - intro n. rewrite !type_by_name_find. apply (find_first_key_eqset td_name).
    + apply wf_unique_types, Hwf.
    + rewrite <- (wf_unique_types s Hwf). apply nodup_names_perm, Permutation_map, Permutation_sym, Ht.
    + apply perm_eqset, Ht.
  - intro n. rewrite !directive_by_name_find. apply (find_first_key_eqset dd_name).
    + apply wf_unique_directives, Hwf.
    + rewrite <- (wf_unique_directives s Hwf). apply nodup_names_perm, Permutation_map, Permutation_sym, Hdd.
    + apply perm_eqset, Hdd.
  - rewrite !find_schema_def_hd. rewrite (perm_short _ _ Hsd); [reflexivity|].
    apply Nat.leb_le, wf_one_schema_def, Hwf.
  - apply perm_eqset, Ht.
Qed.

Theorem violated_perm_schema : forall r s s' d,
  Permutation s s' -> wf_schema s = true ->
  violated r s d = violated r s' d.
Proof.
  intros r s s' d Hp Hwf. apply violated_ext; [apply seqv_of_perm; assumption|apply deqv_refl].
Qed.

(* ------------------------------------------------------------------ the model's verdicts *)
(* C07_position_proofs.variables_in_allowed_position_iff carries hypotheses its proof does not
   use ([doc_types_proper d], [negb (violated R_VariablesAreInputTypes s d)], also
   [distinct_fragments d]); the statement without them: *)
Module ViapCore.
  Definition variables_in_allowed_position_core : forall s d,
    wf_schema s = true -> C07_position_proofs.defaults_const d = true ->
    (run_alone R_VariablesInAllowedPosition s d <> [] <-> violated R_VariablesInAllowedPosition s d = true)
    := C07_position_proofs.variables_in_allowed_position_core.
End ViapCore.

(* [defaults_const d] (C07_position_proofs): no variable occurs in a variable default value *)
Notation defaults_const := C07_position_proofs.defaults_const.

(* the side conditions of the per-rule equivalences *)
Definition side (r : rule_id) (s : sdocument) (d : document) : Prop :=
  wf_schema s = true /\ doc_types_proper d = true /\ defaults_const d = true /\
  distinct_fragments d = true /\ rule_in_scope r s d = true.

Lemma rule_iff r s d : r <> R_OverlappingFieldsCanBeMerged -> side r s d ->
  (run_alone r s d <> [] <-> violated r s d = true).
Proof.
  intros Hr (Hwf & Hty & Hdc & Hdf & Hsc). destruct r.
  - apply C11_proofs.unique_operation_names_iff.
  - apply C11_proofs.lone_anonymous_iff.
  - apply C11_proofs.single_field_subscriptions_iff; assumption.
  - apply C06_proofs.known_type_names_iff.
  - apply C06_proofs.fragments_on_composite_iff.
  - apply C07_proofs.variables_are_input_types_iff.
  - apply C04_proofs.leaf_field_selections_iff; assumption.
  - apply C04_proofs.fields_on_correct_type_iff; assumption.
  - apply C06_proofs.unique_fragment_names_iff.
  - apply C06_proofs.known_fragment_names_iff.
  - apply C06_graph_proofs.no_unused_fragments_iff; assumption.
  - contradiction Hr; reflexivity.
  - apply C06_graph_proofs.no_fragment_cycles_iff; assumption.
  - apply C06_proofs.possible_fragment_spreads_iff; assumption.
  - apply C07_graph_proofs.no_unused_variables_iff; assumption.
  - apply C07_graph_proofs.no_undefined_variables_iff; assumption.
  - apply C09_slot_proofs.known_argument_names_iff; assumption.
  - apply C09_proofs.unique_argument_names_iff; assumption.
  - apply C07_proofs.unique_variable_names_iff.
  - apply C09_proofs.provided_required_arguments_iff; assumption.
  - apply C10_slot_proofs.known_directives_iff; assumption.
  - apply ViapCore.variables_in_allowed_position_core; assumption.
  - apply C08_proofs.values_of_correct_type_iff; assumption.
  - apply C10_proofs.unique_directives_iff; assumption.
Qed.

Lemma filter_perm {A} (p : A -> bool) l l' : Permutation l l' -> Permutation (filter p l) (filter p l').
Proof.
  induction 1 as [|x l l' _ IH|x y l|l1 l2 l3 _ IH1 _ IH2]; cbn [filter].
  - constructor.
  - destruct (p x); [constructor|]; exact IH.
  - destruct (p x), (p y); try apply Permutation_refl. constructor.
  - eapply Permutation_trans; eassumption.
Qed.

Lemma distinct_fragments_perm d d' : Permutation d d' -> distinct_fragments d = distinct_fragments d'.
Proof. intro Hp. unfold distinct_fragments. rewrite (p_unique_fragment_names d d' Hp). reflexivity. Qed.
Lemma distinct_operations_perm d d' : Permutation d d' -> distinct_operations d = distinct_operations d'.
Proof.
  intro Hp. unfold distinct_operations. rewrite (p_unique_operation_names d d' Hp).
  rewrite (Permutation_length (filter_perm _ _ _ (ops_perm d d' Hp))). reflexivity.
Qed.
Lemma doc_types_proper_perm d d' : Permutation d d' -> doc_types_proper d = doc_types_proper d'.
Proof. intro Hp. unfold doc_types_proper. apply forallb_eqset; [apply perm_eqset, ops_perm, Hp|reflexivity]. Qed.
Lemma defaults_const_perm d d' : Permutation d d' -> defaults_const d = defaults_const d'.
Proof.
  intro Hp. unfold C07_position_proofs.defaults_const.
  apply forallb_eqset; [apply perm_eqset, ops_perm, Hp|reflexivity].
Qed.
Lemma rule_in_scope_perm r s d d' : Permutation d d' -> rule_in_scope r s d = rule_in_scope r s d'.
Proof.
  intro Hp.
  destruct r; cbn [rule_in_scope]; try reflexivity;
    rewrite ?(distinct_fragments_perm d d' Hp), ?(distinct_operations_perm d d' Hp),
            ?(p_no_fragment_cycles d d' Hp); try reflexivity.
  - (* field merging: unique argument names *)
    assert (E : v_unique_argument_names s d = v_unique_argument_names s d').
    { unfold v_unique_argument_names. f_equal; apply existsb_perm.
      - unfold field_events. apply flat_map_annot_perm; [|apply seqv_refl|exact Hp].
        intros ea H. apply event_cases_doc in H. destruct H as (x & e & [->| ->]); reflexivity.
      - unfold directive_events. apply flat_map_annot_perm; [|apply seqv_refl|exact Hp].
        intros ea H. apply event_cases_doc in H. destruct H as (x & e & [->| ->]); reflexivity. }
    rewrite E. reflexivity.
  - (* values of correct type: variables are input types *)
    assert (E : v_variables_are_input_types s d = v_variables_are_input_types s d').
    { unfold v_variables_are_input_types. apply existsb_perm, variable_types_perm, Hp. }
    rewrite E. reflexivity.
Qed.

Lemma side_perm r s d d' : Permutation d d' -> side r s d -> side r s d'.
Proof.
  intros Hp (Hwf & Hty & Hdc & Hdf & Hsc).
  rewrite (doc_types_proper_perm d d' Hp) in Hty. rewrite (defaults_const_perm d d' Hp) in Hdc.
  rewrite (distinct_fragments_perm d d' Hp) in Hdf.
  rewrite (rule_in_scope_perm r s d d' Hp) in Hsc. repeat split; assumption.
Qed.

Lemma nil_iff_false {A} (l : list A) (b : bool) : (l <> [] <-> b = true) -> (l = [] <-> b = false).
Proof.
  intros [H1 H2]. destruct b.
  - split; [|discriminate]. intro E. exfalso. apply (H2 eq_refl E).
  - split; [reflexivity|]. intros _. destruct l as [|x r]; [reflexivity|].
    assert (H : x :: r <> []) by discriminate. apply H1 in H. discriminate.
Qed.

Theorem run_alone_perm_definitions : forall r s d d',
  r <> R_OverlappingFieldsCanBeMerged ->
  wf_schema s = true -> doc_types_proper d = true -> defaults_const d = true ->
  distinct_fragments d = true -> rule_in_scope r s d = true ->
  Permutation d d' ->
  (run_alone r s d = [] <-> run_alone r s d' = []).
Proof.
  intros r s d d' Hr Hwf Hty Hdc Hdf Hsc Hp.
  assert (Hside : side r s d) by (repeat split; assumption).
  rewrite (nil_iff_false _ _ (rule_iff r s d Hr Hside)).
  rewrite (nil_iff_false _ _ (rule_iff r s d' Hr (side_perm r s d d' Hp Hside))).
  rewrite (violated_perm_definitions r s d d' Hp Hdf). reflexivity.
Qed.

(* ------------------------------------------------------------------ the hypotheses are needed *)
(* two definitions of fragment F with different type conditions: the spread resolves to the later *)
Definition cx_z : pos := (0%N, 0%N).
Definition cx_schema : sdocument :=
  [SDType (TDObject "Query" [] [mkFD "a" [] (TNamed "String"); mkFD "t" [] (TNamed "T")]);
   SDType (TDObject "T" [] [mkFD "a" [] (TNamed "String")]); SDType (TDScalar "String")].
Definition cx_field (n : name) : selection := SField cx_z None n [] [] (cx_z, cx_z) [].
Definition cx_f1 : definition := DFrag (mkFragment cx_z "F" "Query" [] (cx_z, cx_z) [cx_field "a"]).
Definition cx_f2 : definition := DFrag (mkFragment cx_z "F" "T" [] (cx_z, cx_z) [cx_field "a"]).
Definition cx_op : definition :=
  DOp (mkOperation OpQuery cx_z (Some "Q") [] [] (cx_z, cx_z) [SSpread cx_z "F" []]).

Lemma perm_definitions_needs_distinct_fragments :
  wf_schema cx_schema = true /\
  Permutation [cx_f1; cx_f2; cx_op] [cx_f2; cx_f1; cx_op] /\
  violated R_PossibleFragmentSpreads cx_schema [cx_f1; cx_f2; cx_op] = true /\
  violated R_PossibleFragmentSpreads cx_schema [cx_f2; cx_f1; cx_op] = false.
Proof. repeat split; try (vm_compute; reflexivity). apply perm_swap. Qed.

(* two definitions of type Query: the lookup finds the earlier *)
Definition cx_schema2 : sdocument :=
  [SDType (TDObject "Query" [] [mkFD "a" [] (TNamed "String")]);
   SDType (TDObject "Query" [] [mkFD "b" [] (TNamed "String")]); SDType (TDScalar "String")].
Definition cx_schema2' : sdocument :=
  [SDType (TDObject "Query" [] [mkFD "b" [] (TNamed "String")]);
   SDType (TDObject "Query" [] [mkFD "a" [] (TNamed "String")]); SDType (TDScalar "String")].
Definition cx_doc2 : document :=
  [DOp (mkOperation OpQuery cx_z (Some "Q") [] [] (cx_z, cx_z) [cx_field "a"])].

Lemma perm_schema_needs_wf :
  Permutation cx_schema2 cx_schema2' /\
  violated R_FieldsOnCorrectType cx_schema2 cx_doc2 = false /\
  violated R_FieldsOnCorrectType cx_schema2' cx_doc2 = true.
Proof. repeat split; try (vm_compute; reflexivity). apply perm_swap. Qed.

Print Assumptions violated_perm_definitions.
Print Assumptions run_alone_perm_definitions.
Print Assumptions violated_perm_schema.

(* C05_frag_doc.v — OverlappingFieldsCanBeMerged with named fragment spreads, on whole documents:
   the memo of compared fragment pairs is carried from one selection set to the next; when the walk
   reports nothing and no run of the search exhausted its fuel, every selection set of the document
   passes FieldsInSetCanMerge (completeness). *)
From Coq Require Import Permutation.
From GT Require Import Visitor Validate Merge.
From GTS Require Import SpecLin Annot WfSchema SpecCollect SpecRules SpecMerge SpecValid.
From GTP Require Import VisitorFacts TraceFacts RuleFacts EventFacts C06_graph_proofs C06_proofs C05_proofs
     C05_frag_graph C05_frag_spec C05_frag_sound C05_frag_annot C05_frag_rank C05_frag_complete C05_frag_global.

Lemma ofm_mono s d tr : forall st,
  (exists extra, r_errors (ofm_res (fold_left (hh (ofm_step s d)) tr st)) = r_errors (ofm_res st) ++ extra) /\
  (r_oof (ofm_res st) = true -> r_oof (ofm_res (fold_left (hh (ofm_step s d)) tr st)) = true).
Proof.
  induction tr as [|[e c] r IH]; intro st; cbn [fold_left].
  - split; [exists []; symmetry; apply app_nil_r|intro H; exact H].
  - destruct (IH (hh (ofm_step s d) st (e, c))) as [[extra He] Ho]. unfold hh in *. cbn [fst snd] in *.
    destruct e as [n|n]; [destruct n|]; cbn [ofm_step ofm_step_with] in *; try (split; [exists extra; exact He|exact Ho]).
    destruct (mrun (merge_fuel d) s d (CWithinSelectionSet (current_parent_type c) items) (mkMS (ofm_compared st) [] []))
      as [[ms cs]|]; cbn [ofm_res r_errors r_oof] in *.
    + split; [|exact Ho]. eexists. rewrite He, <- app_assoc. reflexivity.
    + split; [exists extra; exact He|]. intros _. apply Ho. reflexivity.
Qed.

Section DocComplete.
  Variables (s : sdocument) (d : document).
  Hypothesis Hacyc : forall u, ~ cyc d u.
  Hypothesis Hargs : forall y, In y (doc_selections d) -> C05_merge_proofs.is_field y = true ->
                               nodup_names (map fst (sel_args y)) = true.
  Hypothesis Hpos : NoDup (map sel_pos (F0 d)).
  Hypothesis Hknown : inline_conditions_known s d = true.

  Definition AllValidC (cmp : pairset) : Prop :=
    forall a b flag, as_get pair_eqb (a, b) cmp = Some flag -> BFcov s d flag a b.

  Lemma fold_silent tr : forall st, AllValidC (ofm_compared st) ->
    (forall sp sels c, In (Enter (NSelectionSet sp sels), c) tr -> In (current_parent_type c, sels) (EE s d)) ->
    r_errors (ofm_res (fold_left (hh (ofm_step s d)) tr st)) = [] ->
    r_oof (ofm_res (fold_left (hh (ofm_step s d)) tr st)) = false ->
    forall sp sels c, In (Enter (NSelectionSet sp sels), c) tr -> LocalOK s d (current_parent_type c) sels.
  Proof.
    induction tr as [|[e c] r IH]; intros st HV Hleg Herr Hoof sp sels c' Hin; [destruct Hin|].
    cbn [fold_left] in Herr, Hoof.
    set (st1 := hh (ofm_step s d) st (e, c)) in *.
    destruct (ofm_mono s d r st1) as [[extra He] Ho].
    assert (Herr1 : r_errors (ofm_res st1) = []).
    { rewrite Herr in He. symmetry in He. apply app_eq_nil in He. apply He. }
    assert (Hoof1 : r_oof (ofm_res st1) = false).
    { apply not_true_is_false. intro Ht. rewrite (Ho Ht) in Hoof. discriminate. }
    assert (Hleg' : forall sp0 sels0 c0, In (Enter (NSelectionSet sp0 sels0), c0) r ->
                                        In (current_parent_type c0, sels0) (EE s d)).
    { intros sp0 sels0 c0 H0. apply (Hleg sp0 sels0 c0). right. exact H0. }
    assert (Hstep : AllValidC (ofm_compared st1) /\
                    (forall sp0 sels0, e = Enter (NSelectionSet sp0 sels0) -> LocalOK s d (current_parent_type c) sels0)).
    { unfold st1, hh in *. cbn [fst snd] in *.
      destruct e as [n|n]; [destruct n|]; cbn [ofm_step ofm_step_with] in *; try (split; [exact HV|intros spx selsx E; discriminate]).
      destruct (mrun (merge_fuel d) s d (CWithinSelectionSet (current_parent_type c) items) (mkMS (ofm_compared st) [] []))
        as [[ms cs]|] eqn:Er; cbn [ofm_res r_errors r_oof ofm_compared] in *; [|discriminate].
      apply app_eq_nil in Herr1. destruct Herr1 as [_ Hcs]. apply map_eq_nil in Hcs. subst cs.
      destruct (mrun_complete s d Hacyc Hargs Hpos Hknown _ _ _ _ Er) as [HC [[FC _] _]].
      - cbn [legitU]. eapply Hleg. left. reflexivity.
      - split; cbn [ms_compared ms_being].
        + intros a b flag H _. apply (HV a b flag H).
        + intros e0 [].
      - exact I.
      - cbn [Cov] in HC. split.
        + intros a b flag H. cbn [ms_compared] in FC. destruct (FC a b flag H) as [H1|H1]; [apply (HV a b flag H1)|exact H1].
        + intros spx selsx E. inversion E; subst. exact HC. }
    destruct Hstep as [HV1 Hloc]. destruct Hin as [E|Hin].
    - inversion E; subst. apply (Hloc sp sels eq_refl).
    - apply (IH st1 HV1 Hleg' Herr Hoof sp sels c' Hin).
  Qed.
End DocComplete.

Lemma selection_set_events s d : wf_schema s = true -> forall P sels,
  In (P, sels) (EE s d) <->
  exists sp c, In (Enter (NSelectionSet sp sels), c) (ctr_document s d ctx0) /\ P = current_parent_type c.
Proof.
  intros Hwf P sels. rewrite <- selection_sets_struct. unfold selection_sets.
  rewrite <- (ctr_document_answers s (wf_query_entry_ok s Hwf) d). rewrite in_flat_map. split.
  - intros [ea [Hea Hin]]. apply in_map_iff in Hea. destruct Hea as [[e c] [<- Hec]].
    unfold ev_answers in Hin. cbn [fst snd] in Hin. destruct e as [n|n]; [destruct n|]; try (destruct Hin; fail).
    destruct Hin as [E|[]]. inversion E; subst. exists sp, c. split; [exact Hec|reflexivity].
  - intros [sp [c [Hec ->]]]. exists (ev_answers (Enter (NSelectionSet sp sels), c)). split.
    + apply in_map, Hec.
    + unfold ev_answers. cbn [fst snd]. left. reflexivity.
Qed.

Theorem merge_complete_no_oof : forall s d,
  wf_schema s = true -> rule_in_scope R_OverlappingFieldsCanBeMerged s d = true ->
  NoDup (map node_pos (filter (fun x => match x with SField _ _ _ _ _ _ _ => true | _ => false end) (doc_selections d))) ->
  inline_conditions_known s d = true ->
  r_oof (snd (run_rule R_OverlappingFieldsCanBeMerged s d ctx0)) = false ->
  violated R_OverlappingFieldsCanBeMerged s d = true -> run_alone R_OverlappingFieldsCanBeMerged s d <> [].
Proof.
  intros s d Hwf Hscope Hpos Hknown Hoof Hviol Hrun.
  destruct (acyclic_of_scope s d Hscope) as [Hnd [Hacyc Hargs]].
  pose proof (doc_args_ok s d Hwf Hargs) as Hargs'.
  unfold run_alone in Hrun. cbn [run_rule] in Hrun, Hoof. rewrite visit_fold in Hrun, Hoof. cbn [snd] in Hrun, Hoof.
  assert (HL : forall P sels, In (P, sels) (EE s d) -> LocalOK s d P sels).
  { intros P sels HE. apply (selection_set_events s d Hwf) in HE. destruct HE as [sp [c [Hin ->]]].
    apply (fold_silent s d Hacyc Hargs' Hpos Hknown (ctr_document s d ctx0) (mkOfm [] (mkRes [] false))) with (sp := sp);
      [intros a b flag H; discriminate| |exact Hrun|exact Hoof|exact Hin].
    intros sp0 sels0 c0 H0. apply (selection_set_events s d Hwf). exists sp0, c0. split; [exact H0|reflexivity]. }
  cbn [violated] in Hviol. apply andb_prop in Hviol. destruct Hviol as [_ Hv].
  unfold v_overlapping_fields in Hv. apply existsb_exists in Hv. destruct Hv as [[P sels] [Hin Hneg]].
  cbn [fst snd] in Hneg. rewrite selection_sets_struct in Hin.
  rewrite (all_sets_merge s d Hacyc Hpos Hknown HL P sels Hin) in Hneg. discriminate.
Qed.

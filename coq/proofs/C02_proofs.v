(* C02_proofs.v — a document violating any rule other than field merging is rejected by the
   default rule plan: composition of the per-rule equivalences (ComposeFacts.v) with
   variables_in_allowed_position_iff (C07_position_proofs.v) and no_fuel_exhaustion (C03_proofs.v).

   CHANGED HYPOTHESIS.  The equivalence for VariablesInAllowedPosition is available only for
   documents whose variable default values are constants ([defaults_const d]); both lemmas have
   the additional hypothesis (r = R_VariablesInAllowedPosition -> defaults_const d = true), i.e.
   nothing is added for the other 22 rules.  (Unlike for C01, no counterexample is known for the
   statement without it: the model sees more variable usages than the specification, not fewer.) *)
From GT Require Import Visitor Validate.
From GTS Require Import Annot WfSchema SpecRules SpecValid.
From GTP Require Import PlanFacts ComposeFacts C03_proofs C07_position_proofs C01_proofs.

Lemma violation_rejected : forall s d r,
  wf_schema s = true -> doc_types_proper d = true ->
  r <> R_OverlappingFieldsCanBeMerged -> violated r s d = true ->
  (r = R_VariablesInAllowedPosition -> defaults_const d = true) ->
  validate s d default_plan <> Ok [].
Proof. exact (violation_rejected_sec viap_statement_holds). Qed.

Lemma violation_rejected_errors : forall s d r,
  wf_schema s = true -> doc_types_proper d = true ->
  r <> R_OverlappingFieldsCanBeMerged -> violated r s d = true ->
  (r = R_VariablesInAllowedPosition -> defaults_const d = true) ->
  r_oof (snd (run_rule R_OverlappingFieldsCanBeMerged s d ctx0)) = false ->
  exists es, validate s d default_plan = Ok es /\ es <> [].
Proof. exact (violation_rejected_errors_sec viap_statement_holds fuel_statement_holds). Qed.

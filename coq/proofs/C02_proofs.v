(* C02_proofs.v — a document violating any rule other than field merging is rejected by the
   default rule plan (composition of the per-rule equivalences, see ComposeFacts.v).

   Status of the ingredients: as in C01_proofs.v.  When C07_position_proofs.v is available, the
   closed lemmas expected by properties/C02.v are
       From GTP Require Import C07_position_proofs.
       Definition violation_rejected := violation_rejected_from_viap variables_in_allowed_position_iff.
       Definition violation_rejected_errors := violation_rejected_errors_from_viap variables_in_allowed_position_iff. *)
From GT Require Import Visitor Validate.
From GTS Require Import Annot WfSchema SpecRules SpecValid.
From GTP Require Import PlanFacts ComposeFacts C03_proofs.

(* ---------------------------------------------------------------- (a) from the pending lemma *)
Lemma violation_rejected_from_viap : viap_statement -> forall s d r,
  wf_schema s = true -> doc_types_proper d = true ->
  r <> R_OverlappingFieldsCanBeMerged -> violated r s d = true ->
  validate s d default_plan <> Ok [].
Proof. intro H. exact (violation_rejected_sec H). Qed.

Lemma violation_rejected_errors_from_viap : viap_statement -> forall s d r,
  wf_schema s = true -> doc_types_proper d = true ->
  r <> R_OverlappingFieldsCanBeMerged -> violated r s d = true ->
  r_oof (snd (run_rule R_OverlappingFieldsCanBeMerged s d ctx0)) = false ->
  exists es, validate s d default_plan = Ok es /\ es <> [].
Proof. intro H. exact (violation_rejected_errors_sec H no_fuel_exhaustion). Qed.

(* ---------------------------------------------------------------- (b) closed, without it *)
Lemma violation_rejected_partial : forall s d r,
  wf_schema s = true -> doc_types_proper d = true ->
  r <> R_OverlappingFieldsCanBeMerged -> r <> R_VariablesInAllowedPosition ->
  violated r s d = true ->
  validate s d default_plan <> Ok [].
Proof. exact violation_rejected_noviap. Qed.

Lemma violation_rejected_errors_partial : forall s d r,
  wf_schema s = true -> doc_types_proper d = true ->
  r <> R_OverlappingFieldsCanBeMerged -> r <> R_VariablesInAllowedPosition ->
  violated r s d = true ->
  r_oof (snd (run_rule R_OverlappingFieldsCanBeMerged s d ctx0)) = false ->
  exists es, validate s d default_plan = Ok es /\ es <> [].
Proof.
  intros s d r Hwf Hp H1 H2 Hv Hm.
  apply (violation_rejected_errors_noviap s d r); try assumption.
  intro r0. destruct (known_full r0) eqn:Ek.
  - apply no_fuel_exhaustion, known_full_true, Ek.
  - rewrite (known_full_false r0 Ek). exact Hm.
Qed.

(* C05_merge_proofs.v — OverlappingFieldsCanBeMerged on selection sets without named spreads:
   the memoised pairwise search [mrun] never hits its memo, terminates within its fuel and reports
   a conflict exactly when the specification's FieldsInSetCanMerge fails. *)
From Coq Require Import Permutation.
From GT Require Import Visitor Validate Merge.
From GTS Require Import Annot WfSchema SpecCollect SpecRules SpecMerge SpecValid.
From GTP Require Import VisitorFacts TraceFacts RuleFacts C05_base_proofs.

(* ================================================================== generic list facts *)
Lemma NoDup_app_iff {A} (l1 l2 : list A) :
  NoDup (l1 ++ l2) <-> NoDup l1 /\ NoDup l2 /\ (forall x, In x l1 -> In x l2 -> False).
Proof.
  induction l1 as [|a r IH]; cbn [app].
  - split.
    + intro H. split; [constructor|]. split; [exact H|]. intros x [].
    + intros [_ [H _]]. exact H.
  - split.
    + intro H. inversion H as [|? ? Hni Hnd]; subst. apply IH in Hnd. destruct Hnd as [H1 [H2 H3]].
      split; [|split].
      * constructor; [|exact H1]. intro Hin. apply Hni. apply in_or_app. left. exact Hin.
      * exact H2.
      * intros x [Hx|Hx] Hx2; [subst x; apply Hni; apply in_or_app; right; exact Hx2|exact (H3 x Hx Hx2)].
    + intros [H1 [H2 H3]]. inversion H1 as [|? ? Hni Hnd]; subst. constructor.
      * intro Hin. apply in_app_or in Hin. destruct Hin as [Hin|Hin]; [exact (Hni Hin)|].
        exact (H3 a (or_introl eq_refl) Hin).
      * apply IH. split; [exact Hnd|]. split; [exact H2|]. intros x Hx Hx2. exact (H3 x (or_intror Hx) Hx2).
Qed.

Lemma NoDup_segment {A} (l1 l2 l3 : list A) : NoDup (l1 ++ l2 ++ l3) -> NoDup l2.
Proof. intro H. apply NoDup_app_iff in H. destruct H as [_ [H _]]. apply NoDup_app_iff in H. apply H. Qed.

Lemma NoDup_flat_map_piece {A B} (f : A -> list B) l x : NoDup (flat_map f l) -> In x l -> NoDup (f x).
Proof.
  induction l as [|y r IH]; cbn [flat_map]; intros H Hin; [destruct Hin|].
  apply NoDup_app_iff in H. destruct H as [H1 [H2 _]]. destruct Hin as [->|Hin]; [exact H1|exact (IH H2 Hin)].
Qed.

Lemma FOP_app {A} (R : A -> A -> Prop) l1 l2 :
  ForallOrdPairs R l1 -> ForallOrdPairs R l2 -> (forall x y, In x l1 -> In y l2 -> R x y) ->
  ForallOrdPairs R (l1 ++ l2).
Proof.
  induction 1 as [|a r Ha Hr IH]; intros H2 H12; cbn [app]; [exact H2|].
  constructor.
  - apply Forall_app. split; [exact Ha|]. apply Forall_forall. intros y Hy. apply H12; [left; reflexivity|exact Hy].
  - apply IH; [exact H2|]. intros x y Hx Hy. apply H12; [right; exact Hx|exact Hy].
Qed.

Lemma FOP_flat_map {A B} (R : B -> B -> Prop) (f : A -> list B) l :
  (forall x, In x l -> ForallOrdPairs R (f x)) ->
  ForallOrdPairs (fun x y => forall u v, In u (f x) -> In v (f y) -> R u v) l ->
  ForallOrdPairs R (flat_map f l).
Proof.
  intros H1 H2. induction H2 as [|a r Ha Hr IH]; cbn [flat_map]; [constructor|].
  apply FOP_app.
  - apply H1. left. reflexivity.
  - apply IH. intros x Hx. apply H1. right. exact Hx.
  - intros u v Hu Hv. apply in_flat_map in Hv. destruct Hv as [y [Hy Hv]].
    rewrite Forall_forall in Ha. exact (Ha y Hy u v Hu Hv).
Qed.

Lemma FOP_map {A B} (R : B -> B -> Prop) (g : A -> B) l :
  ForallOrdPairs (fun x y => R (g x) (g y)) l -> ForallOrdPairs R (map g l).
Proof.
  induction 1 as [|a r Ha Hr IH]; cbn [map]; constructor; [|exact IH].
  apply Forall_forall. intros y Hy. apply in_map_iff in Hy. destruct Hy as [x [<- Hx]].
  rewrite Forall_forall in Ha. exact (Ha x Hx).
Qed.

Lemma FOP_impl {A} (R R' : A -> A -> Prop) l :
  (forall x y, In x l -> In y l -> R x y -> R' x y) -> ForallOrdPairs R l -> ForallOrdPairs R' l.
Proof.
  intros H HR. induction HR as [|a r Ha Hr IH]; constructor.
  - rewrite Forall_forall in *. intros y Hy. apply H; [left; reflexivity|right; exact Hy|exact (Ha y Hy)].
  - apply IH. intros x y Hx Hy. apply H; right; assumption.
Qed.

Definition ldisj {B} (l1 l2 : list B) : Prop := forall x, In x l1 -> In x l2 -> False.

Lemma NoDup_flat_map_FOP {A B} (f : A -> list B) l :
  NoDup (flat_map f l) -> ForallOrdPairs (fun x y => ldisj (f x) (f y)) l.
Proof.
  induction l as [|a r IH]; cbn [flat_map]; intro H; [constructor|].
  apply NoDup_app_iff in H. destruct H as [_ [H2 H3]]. constructor; [|exact (IH H2)].
  apply Forall_forall. intros y Hy u Hu Hv. apply (H3 u Hu). apply in_flat_map. exists y. split; assumption.
Qed.

Lemma existsb_flat_map' {A B} (p : B -> bool) (f : A -> list B) l :
  existsb p (flat_map f l) = existsb (fun x => existsb p (f x)) l.
Proof. induction l as [|x r IH]; cbn [flat_map existsb]; [reflexivity|]. rewrite existsb_app, IH. reflexivity. Qed.

Lemma existsb_map' {A B} (p : B -> bool) (g : A -> B) l : existsb p (map g l) = existsb (fun x => p (g x)) l.
Proof. induction l as [|x r IH]; cbn [map existsb]; [reflexivity|]. rewrite IH. reflexivity. Qed.

Lemma existsb_ext_in' {A} (p q : A -> bool) l : (forall x, In x l -> p x = q x) -> existsb p l = existsb q l.
Proof.
  induction l as [|x r IH]; intro H; cbn [existsb]; [reflexivity|].
  rewrite (H x (or_introl eq_refl)), IH; [reflexivity|]. intros y Hy. apply H. right. exact Hy.
Qed.

Lemma existsb_negb_forallb {A} (f g : A -> bool) l :
  (forall x, In x l -> f x = negb (g x)) -> existsb f l = negb (forallb g l).
Proof.
  induction l as [|x r IH]; intro H; cbn [existsb forallb]; [reflexivity|].
  rewrite (H x (or_introl eq_refl)), IH by (intros y Hy; apply H; right; exact Hy).
  rewrite negb_andb. reflexivity.
Qed.

Lemma bool_eq_iff (a b : bool) : (a = true <-> b = true) -> a = b.
Proof. destruct a, b; intros [H1 H2]; try reflexivity; [symmetry; apply H1|apply H2]; reflexivity. Qed.

Lemma pos_eqb_eq (a b : pos) : pos_eqb a b = true <-> a = b.
Proof.
  unfold pos_eqb. destruct a as [a1 a2], b as [b1 b2]. cbn [fst snd]. rewrite andb_true_iff, !N.eqb_eq.
  split; [intros [-> ->]; reflexivity|intro H; inversion H; split; reflexivity].
Qed.

(* ================================================================== measures *)
Fixpoint sd (x : selection) : nat :=
  match x with
  | SField _ _ _ _ _ _ ss => S (list_max (map sd ss))
  | SSpread _ _ _ => 0
  | SInline _ _ _ _ ss => list_max (map sd ss)
  end.
Definition maxd (l : list selection) : nat := list_max (map sd l).

Lemma list_max_In n l : In n l -> n <= list_max l.
Proof.
  intro H. assert (Hl : list_max l <= list_max l) by apply le_n.
  apply list_max_le in Hl. rewrite Forall_forall in Hl. exact (Hl n H).
Qed.

Lemma maxd_In y l : In y l -> sd y <= maxd l.
Proof. intro H. apply list_max_In. apply in_map, H. Qed.

Lemma maxd_le l n : (forall y, In y l -> sd y <= n) -> maxd l <= n.
Proof.
  intro H. apply list_max_le. apply Forall_forall. intros k Hk. apply in_map_iff in Hk.
  destruct Hk as [y [<- Hy]]. exact (H y Hy).
Qed.

Definition is_field (x : selection) : bool := match x with SField _ _ _ _ _ _ _ => true | _ => false end.

Lemma sd_field x : is_field x = true -> sd x = S (maxd (sel_sels x)).
Proof. destruct x; try discriminate. reflexivity. Qed.

Lemma sf_sel_sels x : sf_sel x = true -> sf_sels (sel_sels x) = true.
Proof. destruct x; try discriminate; intro H; exact H. Qed.

(* argument names distinct, everywhere below *)
Fixpoint args_ok (x : selection) : bool :=
  match x with
  | SField _ _ _ args _ _ ss => nodup_names (map fst args) && forallb args_ok ss
  | SSpread _ _ _ => true
  | SInline _ _ _ _ ss => forallb args_ok ss
  end.

Lemma args_ok_nodup x : args_ok x = true -> nodup_names (map fst (sel_args x)) = true.
Proof. destruct x; cbn [args_ok sel_args]; intro H; try reflexivity. apply andb_prop in H. apply H. Qed.
Lemma args_ok_sels x : args_ok x = true -> forallb args_ok (sel_sels x) = true.
Proof. destruct x; cbn [args_ok sel_sels]; intro H; try reflexivity; [apply andb_prop in H; apply H|exact H]. Qed.

(* ================================================================== facts about the flat collection *)
Lemma cfl_sel_facts s (P : selection -> bool) :
  (forall p tc dirs sp ss, P (SInline p tc dirs sp ss) = true -> forallb P ss = true) ->
  forall x parent c, P x = true -> In c (cfl_sel s parent x) ->
    is_field (cf_field c) = true /\ P (cf_field c) = true /\ sd (cf_field c) <= sd x.
Proof.
  intros HP x. induction x as [p al n args dirs sp sels IH|p n dirs|p tc dirs sp sels IH] using selection_ind';
    intros parent c Hx Hin; cbn [cfl_sel] in Hin.
  - destruct Hin as [<-|[]]. cbn [cf_field]. split; [reflexivity|]. split; [exact Hx|apply le_n].
  - destruct Hin.
  - apply HP in Hx. apply in_flat_map in Hin. destruct Hin as [y [Hy Hin]].
    rewrite Forall_forall in IH. rewrite forallb_forall in Hx.
    destruct (IH y Hy _ c (Hx y Hy) Hin) as [H1 [H2 H3]]. split; [exact H1|]. split; [exact H2|].
    cbn [sd]. etransitivity; [exact H3|]. apply (maxd_In y sels Hy).
Qed.

Lemma cfl_facts s (P : selection -> bool) :
  (forall p tc dirs sp ss, P (SInline p tc dirs sp ss) = true -> forallb P ss = true) ->
  forall sels parent c, forallb P sels = true -> In c (cfl s parent sels) ->
    is_field (cf_field c) = true /\ P (cf_field c) = true /\ sd (cf_field c) <= maxd sels.
Proof.
  intros HP sels parent c Hs Hin. unfold cfl in Hin. apply in_flat_map in Hin. destruct Hin as [y [Hy Hin]].
  rewrite forallb_forall in Hs.
  destruct (cfl_sel_facts s P HP y parent c (Hs y Hy) Hin) as [H1 [H2 H3]].
  split; [exact H1|]. split; [exact H2|]. etransitivity; [exact H3|apply maxd_In, Hy].
Qed.

Lemma sf_inline p tc dirs sp ss : sf_sel (SInline p tc dirs sp ss) = true -> forallb sf_sel ss = true.
Proof. intro H. exact H. Qed.
Lemma args_ok_inline p tc dirs sp ss : args_ok (SInline p tc dirs sp ss) = true -> forallb args_ok ss = true.
Proof. intro H. exact H. Qed.

(* the field nodes below the collected fields are the field nodes below the selection set, in order *)
Definition Fx (x : selection) : list selection := filter is_field (sel_all x).

Lemma filter_flat_map {A B} (p : B -> bool) (f : A -> list B) l :
  filter p (flat_map f l) = flat_map (fun x => filter p (f x)) l.
Proof. induction l as [|x r IH]; cbn [flat_map]; [reflexivity|]. rewrite filter_app, IH. reflexivity. Qed.

Lemma flat_map_flat_map' {A B C} (f : B -> list C) (g : A -> list B) l :
  flat_map f (flat_map g l) = flat_map (fun x => flat_map f (g x)) l.
Proof. induction l as [|x r IH]; cbn [flat_map]; [reflexivity|]. rewrite flat_map_app, IH. reflexivity. Qed.

Lemma cfl_sel_fields s x : forall parent,
  flat_map (fun c => Fx (cf_field c)) (cfl_sel s parent x) = Fx x.
Proof.
  induction x as [p al n args dirs sp sels IH|p n dirs|p tc dirs sp sels IH] using selection_ind'; intro parent.
  - cbn [cfl_sel flat_map cf_field]. apply app_nil_r.
  - reflexivity.
  - cbn [cfl_sel]. unfold Fx at 2. cbn [sel_all filter is_field]. rewrite filter_flat_map, flat_map_flat_map'.
    apply flat_map_Forall_ext. eapply Forall_impl; [|exact IH]. intros y Hy. apply Hy.
Qed.

Lemma cfl_fields s parent sels :
  flat_map (fun c => Fx (cf_field c)) (cfl s parent sels) = filter is_field (sels_all sels).
Proof.
  unfold cfl, sels_all. rewrite flat_map_flat_map', filter_flat_map. apply flat_map_all_ext.
  intro x. apply cfl_sel_fields.
Qed.

Lemma flat_map_map' {A B C} (f : B -> list C) (g : A -> B) l : flat_map f (map g l) = flat_map (fun x => f (g x)) l.
Proof. induction l as [|x r IH]; cbn [map flat_map]; [reflexivity|]. rewrite IH. reflexivity. Qed.

(* ================================================================== positions *)
Definition Dx (x : selection) : list pos := map sel_pos (Fx x).
Definition DS (l : list selection) : list pos := map sel_pos (filter is_field (sels_all l)).
Definition D (a : astdef) : list pos := Dx (ad_field a).
Definition DL (l : list astdef) : list pos := flat_map D l.
Definition fm_fields (m : fmap) : list astdef := flat_map snd m.

Lemma Dx_field x : is_field x = true -> Dx x = sel_pos x :: DS (sel_sels x).
Proof. destruct x; try discriminate. intros _. reflexivity. Qed.

Lemma DL_cfl s parent sels : DL (map ad_of (cfl s parent sels)) = DS sels.
Proof.
  unfold DL, DS. rewrite <- (cfl_fields s parent sels).
  rewrite map_flat_map, flat_map_map'. reflexivity.
Qed.

Lemma DL_fm_fields m : DL (fm_fields m) = flat_map (fun kf : name * list astdef => DL (snd kf)) m.
Proof. unfold DL, fm_fields. apply flat_map_flat_map'. Qed.

(* ---- the field map is a rearrangement of the collected fields ---- *)
Lemma al_set_perm k l a (m : fmap) :
  al_get k m = Some l -> Permutation (fm_fields (al_set k (l ++ [a]) m)) (a :: fm_fields m).
Proof.
  induction m as [|[k' v'] r IH]; cbn [al_get al_set]; intro H; [discriminate|].
  destruct (name_eqb k k') eqn:E.
  - inversion H; subst v'. unfold fm_fields. cbn [flat_map snd]. rewrite <- app_assoc. cbn [app].
    symmetry. apply Permutation_middle.
  - unfold fm_fields. cbn [flat_map snd]. fold (fm_fields (al_set k (l ++ [a]) r)). fold (fm_fields r).
    etransitivity; [apply Permutation_app_head, IH, H|]. symmetry. apply Permutation_middle.
Qed.

Lemma fm_push_perm k a m : Permutation (fm_fields (fm_push k a m)) (a :: fm_fields m).
Proof.
  unfold fm_push. destruct (al_get k m) as [l|] eqn:E.
  - apply al_set_perm, E.
  - unfold fm_fields. rewrite flat_map_app. cbn [flat_map snd app]. symmetry. apply Permutation_cons_append.
Qed.

Lemma fm_of_perm L : forall m, Permutation (fm_fields (fm_of L m)) (fm_fields m ++ L).
Proof.
  induction L as [|a r IH]; intro m; cbn [fm_of fold_left].
  - rewrite app_nil_r. apply Permutation_refl.
  - change (fold_left (fun m0 a0 => fm_push (ad_key a0) a0 m0) r (fm_push (ad_key a) a m))
      with (fm_of r (fm_push (ad_key a) a m)).
    etransitivity; [apply IH|]. etransitivity; [apply Permutation_app_tail, fm_push_perm|].
    cbn [app]. apply Permutation_middle.
Qed.

Lemma fm_of_perm0 L : Permutation (fm_fields (fm_of L [])) L.
Proof. apply (fm_of_perm L []). Qed.

(* ================================================================== well-formed calls *)
Definition wfa (a : astdef) : Prop :=
  is_field (ad_field a) = true /\ sf_sel (ad_field a) = true /\ NoDup (D a).
Definition wfs (sels : list selection) : Prop := sf_sels sels = true /\ NoDup (DS sels).
Definition gm (m : fmap) : Prop := Forall wfa (fm_fields m) /\ NoDup (DL (fm_fields m)).

Lemma fm_cfl_facts s parent sels : wfs sels ->
  let m := fm_of (map ad_of (cfl s parent sels)) [] in
  gm m /\ incl (DL (fm_fields m)) (DS sels) /\ (forall a, In a (fm_fields m) -> sd (ad_field a) <= maxd sels).
Proof.
  intros [Hsf Hnd] m.
  pose proof (fm_of_perm0 (map ad_of (cfl s parent sels))) as Hp. fold m in Hp.
  assert (HDL : Permutation (DL (fm_fields m)) (DS sels)).
  { rewrite <- (DL_cfl s parent sels). unfold DL. apply Permutation_flat_map, Hp. }
  assert (Hel : forall a, In a (fm_fields m) -> exists c, In c (cfl s parent sels) /\ a = ad_of c).
  { intros a Ha. apply (Permutation_in _ Hp) in Ha. apply in_map_iff in Ha. destruct Ha as [c [<- Hc]].
    exists c. split; [exact Hc|reflexivity]. }
  split; [split|split].
  - apply Forall_forall. intros a Ha. destruct (Hel a Ha) as [c [Hc ->]].
    destruct (cfl_facts s sf_sel sf_inline sels parent c Hsf Hc) as [H1 [H2 _]].
    split; [exact H1|]. split; [exact H2|].
    apply (NoDup_flat_map_piece D (map ad_of (cfl s parent sels))).
    + fold (DL (map ad_of (cfl s parent sels))). rewrite DL_cfl. exact Hnd.
    + apply in_map, Hc.
  - apply (Permutation_NoDup (Permutation_sym HDL)), Hnd.
  - intros x Hx. apply (Permutation_in _ HDL), Hx.
  - intros a Ha. destruct (Hel a Ha) as [c [Hc ->]].
    apply (cfl_facts s sf_sel sf_inline sels parent c Hsf Hc).
Qed.

Definition wfc (c : mcall) : Prop :=
  match c with
  | CFindConflict a b _ => wfa a /\ wfa b
  | CBetweenSub _ _ sels1 _ sels2 => wfs sels1 /\ wfs sels2
  | CBetween _ fm1 fm2 => gm fm1 /\ gm fm2
  | CFragmentLoop _ frags _ => frags = []
  | CWithin fm => gm fm
  | CWithinSelectionSet _ sels => wfs sels
  | _ => False
  end.

Definition sda (a : astdef) : nat := sd (ad_field a).
Definition dep (c : mcall) : nat :=
  match c with
  | CFindConflict a _ _ => sda a
  | CBetweenSub _ _ sels1 _ _ => maxd sels1
  | CBetween _ fm1 _ => list_max (map sda (fm_fields fm1))
  | CWithin fm => list_max (map sda (fm_fields fm))
  | CWithinSelectionSet _ sels => maxd sels
  | _ => 0
  end.
Definition need (c : mcall) : nat :=
  3 * dep c + match c with
              | CFindConflict _ _ _ => 0
              | CBetweenSub _ _ _ _ _ => 2
              | CBetween _ _ _ => 1
              | CFragmentLoop _ _ _ => 1
              | CWithin _ => 1
              | CWithinSelectionSet _ _ => 2
              | _ => 0
              end.

Definition cL (c : mcall) : list pos :=
  match c with
  | CFindConflict a _ _ => D a
  | CBetweenSub _ _ sels1 _ _ => DS sels1
  | CBetween _ fm1 _ => DL (fm_fields fm1)
  | CWithin fm => DL (fm_fields fm)
  | CWithinSelectionSet _ sels => DS sels
  | _ => []
  end.
Definition cR (c : mcall) : list pos :=
  match c with
  | CFindConflict _ b _ => D b
  | CBetweenSub _ _ _ _ sels2 => DS sels2
  | CBetween _ _ fm2 => DL (fm_fields fm2)
  | CWithin fm => DL (fm_fields fm)
  | CWithinSelectionSet _ sels => DS sels
  | _ => []
  end.

Definition entry := (pos * pos * bool)%type.
Definition inrect (pq : entry) (c : mcall) : Prop := In (fst (fst pq)) (cL c) /\ In (snd (fst pq)) (cR c).
Definition nohit (c : mcall) (st : mstate) : Prop := forall pq, In pq (ms_being st) -> ~ inrect pq c.
Definition rdisj (c c' : mcall) : Prop := forall pq, inrect pq c -> inrect pq c' -> False.
Definition frame_in (P : entry -> Prop) (st st' : mstate) : Prop :=
  ms_compared st' = ms_compared st /\ ms_visited st' = ms_visited st /\
  exists extra, ms_being st' = ms_being st ++ extra /\ forall pq, In pq extra -> P pq.
Definition frame (c : mcall) : mstate -> mstate -> Prop := frame_in (fun pq => inrect pq c).

Lemma frame_in_impl (P Q : entry -> Prop) st st' : (forall pq, P pq -> Q pq) -> frame_in P st st' -> frame_in Q st st'.
Proof.
  intros H [H1 [H2 [extra [H3 H4]]]]. split; [exact H1|]. split; [exact H2|].
  exists extra. split; [exact H3|]. intros pq Hpq. apply H, H4, Hpq.
Qed.

Lemma frame_in_refl P st : frame_in P st st.
Proof. split; [reflexivity|]. split; [reflexivity|]. exists []. split; [symmetry; apply app_nil_r|intros pq []]. Qed.

Lemma nohit_sub c c' st : (forall pq, inrect pq c' -> inrect pq c) -> nohit c st -> nohit c' st.
Proof. intros H Hn pq Hpq Hr. exact (Hn pq Hpq (H pq Hr)). Qed.

(* ================================================================== the search without memo *)
Definition find_mutex (pm : bool) (a b : astdef) : bool :=
  pm || (negb (name_eqb (otd_name (ad_parent a)) (otd_name (ad_parent b))) &&
         otd_is_object (ad_parent a) && otd_is_object (ad_parent b)).
Definition type_conf (s : sdocument) (a b : astdef) : bool :=
  match opt_map fd_type (ad_def a), opt_map fd_type (ad_def b) with
  | Some x, Some y => is_type_conflict s x y
  | _, _ => false
  end.
Definition simple_conflict (s : sdocument) (mutex : bool) (a b : astdef) : bool :=
  (negb mutex && negb (name_eqb (sel_name (ad_field a)) (sel_name (ad_field b)))) ||
  (negb mutex && negb (is_same_arguments (sel_args (ad_field a)) (sel_args (ad_field b)))) ||
  type_conf s a b.
Definition sub_pn (a : astdef) : option name := opt_map inner_type (opt_map fd_type (ad_def a)).
Definition sub_fm (s : sdocument) (a : astdef) : fmap :=
  fst (get_fields_and_fragment_names s (opt_bind (sub_pn a) (type_by_name s)) (sel_sels (ad_field a))).

Definition pbetween (f : astdef -> astdef -> bool) (fm1 fm2 : fmap) : bool :=
  existsb (fun kf : name * list astdef =>
             match al_get (fst kf) fm2 with
             | Some fields2 => existsb (fun a => existsb (f a) fields2) (snd kf)
             | None => false
             end) fm1.
Definition pwithin (f : astdef -> astdef -> bool) (fm : fmap) : bool :=
  existsb (fun kf : name * list astdef =>
             existsb (fun ab : astdef * astdef => f (fst ab) (snd ab)) (pairs_within (snd kf))) fm.

Fixpoint pconf (n : nat) (s : sdocument) (pm : bool) (a b : astdef) : bool :=
  match n with
  | O => false
  | S n' =>
      let mutex := find_mutex pm a b in
      simple_conflict s mutex a b ||
      (negb (is_nil (sel_sels (ad_field a))) && negb (is_nil (sel_sels (ad_field b))) &&
       pbetween (pconf n' s mutex) (sub_fm s a) (sub_fm s b))
  end.

Definition pure (n : nat) (s : sdocument) (c : mcall) : bool :=
  match c with
  | CFindConflict a b m => pconf n s m a b
  | CBetweenSub m pn1 sels1 pn2 sels2 =>
      pbetween (pconf n s m)
               (fst (get_fields_and_fragment_names s (opt_bind pn1 (type_by_name s)) sels1))
               (fst (get_fields_and_fragment_names s (opt_bind pn2 (type_by_name s)) sels2))
  | CBetween m fm1 fm2 => pbetween (pconf n s m) fm1 fm2
  | CWithin fm => pwithin (pconf n s false) fm
  | CWithinSelectionSet parent sels => pwithin (pconf n s false) (fst (get_fields_and_fragment_names s parent sels))
  | _ => false
  end.

(* ================================================================== sequences of calls *)
Section Seq.
  Variables (s : sdocument) (n : nat).

  Definition ok_result (c : mcall) (st : mstate) (r : mres) : Prop :=
    exists st' cs, r = Some (st', cs) /\ frame c st st' /\ is_nil cs = negb (pure n s c).

  Lemma is_nil_app' {A} (l l' : list A) : is_nil (l ++ l') = is_nil l && is_nil l'.
  Proof. destruct l; reflexivity. Qed.

  Lemma seq_ok (run : mcall -> mstate -> mres) (l : list mcall) : forall st,
    (forall c, In c l -> forall st0, nohit c st0 -> ok_result c st0 (run c st0)) ->
    ForallOrdPairs rdisj l ->
    (forall c, In c l -> nohit c st) ->
    exists st' cs, seq_calls run l st = Some (st', cs) /\
      frame_in (fun pq => exists c, In c l /\ inrect pq c) st st' /\
      is_nil cs = negb (existsb (pure n s) l).
  Proof.
    induction l as [|c r IH]; intros st Hrun Hfop Hno.
    - exists st, []. split; [reflexivity|]. split; [apply frame_in_refl|reflexivity].
    - inversion Hfop as [|? ? Hc Hr]; subst.
      destruct (Hrun c (or_introl eq_refl) st (Hno c (or_introl eq_refl))) as [st1 [cs1 [E1 [F1 N1]]]].
      destruct F1 as [Fc [Fv [ex1 [Fb Fin]]]].
      destruct (IH st1) as [st2 [cs2 [E2 [F2 N2]]]].
      + intros c' Hc' st0. apply Hrun. right. exact Hc'.
      + exact Hr.
      + intros c' Hc' pq Hpq. rewrite Fb in Hpq. apply in_app_or in Hpq. destruct Hpq as [Hpq|Hpq].
        * apply (Hno c' (or_intror Hc') pq Hpq).
        * intro Hr'. rewrite Forall_forall in Hc. exact (Hc c' Hc' pq (Fin pq Hpq) Hr').
      + destruct F2 as [Gc [Gv [ex2 [Gb Gin]]]].
        exists st2, (cs1 ++ cs2). split; [|split].
        * cbn [seq_calls]. rewrite E1. fold (seq_calls run r st1). rewrite E2. reflexivity.
        * split; [congruence|]. split; [congruence|]. exists (ex1 ++ ex2). split.
          -- rewrite Gb, Fb, app_assoc. reflexivity.
          -- intros pq Hpq. apply in_app_or in Hpq. destruct Hpq as [Hpq|Hpq].
             ++ exists c. split; [left; reflexivity|apply Fin, Hpq].
             ++ destruct (Gin pq Hpq) as [c' [Hc' Hr']]. exists c'. split; [right; exact Hc'|exact Hr'].
        * rewrite is_nil_app', N1, N2. cbn [existsb]. rewrite negb_orb. reflexivity.
  Qed.
End Seq.

(* ================================================================== unfolding mrun *)
Definition being_hit (st : mstate) (p1 p2 : pos) (mutex : bool) : bool :=
  existsb (fun pq : pos * pos * bool =>
             pos_eqb (fst (fst pq)) p1 && pos_eqb (snd (fst pq)) p2 && Bool.eqb (snd pq) mutex) (ms_being st).

Lemma mrun_find fuel s d a b pm st :
  mrun (S fuel) s d (CFindConflict a b pm) st =
  let f1 := ad_field a in
  let f2 := ad_field b in
  let mutex := find_mutex pm a b in
  let simple := ([sel_pos f1], [sel_pos f2]) in
  if negb mutex && negb (name_eqb (sel_name f1) (sel_name f2)) then Some (st, [simple])
  else if negb mutex && negb (is_same_arguments (sel_args f1) (sel_args f2)) then Some (st, [simple])
  else if type_conf s a b then Some (st, [simple])
  else if negb (is_nil (sel_sels f1)) && negb (is_nil (sel_sels f2)) then
    if being_hit st (sel_pos f1) (sel_pos f2) mutex then Some (st, [])
    else
      match mrun fuel s d (CBetweenSub mutex (sub_pn a) (sel_sels f1) (sub_pn b) (sel_sels f2))
                 (mkMS (ms_compared st) (ms_visited st) (ms_being st ++ [(sel_pos f1, sel_pos f2, mutex)])) with
      | Some (st2, cs) =>
          if is_nil cs then Some (st2, [])
          else Some (st2, [(sel_pos f1 :: flat_map fst cs, sel_pos f1 :: flat_map fst cs)])
      | None => None
      end
  else Some (st, []).
Proof. reflexivity. Qed.

Lemma mrun_between_sub fuel s d m pn1 sels1 pn2 sels2 st :
  mrun (S fuel) s d (CBetweenSub m pn1 sels1 pn2 sels2) st =
  let '(fm1, fr1) := get_fields_and_fragment_names s (opt_bind pn1 (type_by_name s)) sels1 in
  let '(fm2, fr2) := get_fields_and_fragment_names s (opt_bind pn2 (type_by_name s)) sels2 in
  seq_calls (mrun fuel s d)
    ([CBetween m fm1 fm2; CFragmentLoop fm1 fr2 m; CFragmentLoop fm2 fr1 m] ++
     flat_map (fun a => map (fun b => CBetweenFragments a b m) fr2) fr1) st.
Proof. reflexivity. Qed.

Lemma mrun_fragment_loop_nil fuel s d fm m st :
  mrun (S fuel) s d (CFragmentLoop fm [] m) st
  = Some (mkMS (ms_compared st) (ms_visited st) (ms_being st), []).
Proof. reflexivity. Qed.

Definition between_calls (m : bool) (fm1 fm2 : fmap) : list mcall :=
  flat_map (fun kf : name * list astdef =>
              match al_get (fst kf) fm2 with
              | Some fields2 => flat_map (fun a => map (fun b => CFindConflict a b m) fields2) (snd kf)
              | None => []
              end) fm1.
Definition within_calls (fm : fmap) : list mcall :=
  flat_map (fun kf : name * list astdef =>
              map (fun ab : astdef * astdef => CFindConflict (fst ab) (snd ab) false)
                  (pairs_within (snd kf))) fm.

Lemma mrun_between fuel s d m fm1 fm2 st :
  mrun (S fuel) s d (CBetween m fm1 fm2) st = seq_calls (mrun fuel s d) (between_calls m fm1 fm2) st.
Proof. reflexivity. Qed.

Lemma mrun_within fuel s d fm st :
  mrun (S fuel) s d (CWithin fm) st = seq_calls (mrun fuel s d) (within_calls fm) st.
Proof. reflexivity. Qed.

Lemma mrun_within_set fuel s d parent sels st :
  mrun (S fuel) s d (CWithinSelectionSet parent sels) st =
  let '(fm, frs) := get_fields_and_fragment_names s parent sels in
  match mrun fuel s d (CWithin fm) st with
  | Some (st0, cs0) =>
      let saved := ms_visited st0 in
      match seq_calls (mrun fuel s d)
              ((fix go (l : list name) : list mcall :=
                  match l with
                  | [] => []
                  | f1 :: r => CFieldsAndFragment fm f1 false :: map (fun f2 => CBetweenFragments f1 f2 false) r ++ go r
                  end) frs)
              (mkMS (ms_compared st0) [] (ms_being st0)) with
      | Some (st1, cs1) => Some (mkMS (ms_compared st1) saved (ms_being st1), cs0 ++ cs1)
      | None => None
      end
  | None => None
  end.
Proof. reflexivity. Qed.

(* ================================================================== the calls of CBetween / CWithin *)
Lemma pure_between_calls n s m fm1 fm2 :
  existsb (pure n s) (between_calls m fm1 fm2) = pbetween (pconf n s m) fm1 fm2.
Proof.
  unfold between_calls, pbetween. rewrite existsb_flat_map'. apply existsb_ext_in'. intros [k g] _. cbn [fst snd].
  destruct (al_get k fm2) as [f2|]; [|reflexivity].
  rewrite existsb_flat_map'. apply existsb_ext_in'. intros a _. rewrite existsb_map'. reflexivity.
Qed.

Lemma pure_within_calls n s fm : existsb (pure n s) (within_calls fm) = pwithin (pconf n s false) fm.
Proof.
  unfold within_calls, pwithin. rewrite existsb_flat_map'. apply existsb_ext_in'. intros [k g] _. cbn [fst snd].
  rewrite existsb_map'. reflexivity.
Qed.

Lemma rdisj_left a b m a' b' m' : ldisj (D a) (D a') -> rdisj (CFindConflict a b m) (CFindConflict a' b' m').
Proof. intros H pq [H1 _] [H2 _]. exact (H _ H1 H2). Qed.
Lemma rdisj_right a b m a' b' m' : ldisj (D b) (D b') -> rdisj (CFindConflict a b m) (CFindConflict a' b' m').
Proof. intros H pq [_ H1] [_ H2]. exact (H _ H1 H2). Qed.

Lemma gm_group m k g : gm m -> In (k, g) m ->
  NoDup (DL g) /\ (forall a, In a g -> wfa a /\ In a (fm_fields m)) /\ incl (DL g) (DL (fm_fields m)).
Proof.
  intros [Hw Hn] Hin.
  assert (Hsub : forall a, In a g -> In a (fm_fields m)).
  { intros a Ha. apply in_flat_map. exists (k, g). split; [exact Hin|exact Ha]. }
  split; [|split].
  - rewrite DL_fm_fields in Hn. apply (NoDup_flat_map_piece _ m (k, g) Hn Hin).
  - intros a Ha. split; [|apply Hsub, Ha]. rewrite Forall_forall in Hw. apply Hw, Hsub, Ha.
  - intros x Hx. apply in_flat_map in Hx. destruct Hx as [a [Ha Hx]]. apply in_flat_map. exists a.
    split; [apply Hsub, Ha|exact Hx].
Qed.

Lemma in_pair_calls m g f2 c :
  In c (flat_map (fun a => map (fun b => CFindConflict a b m) f2) g) ->
  exists a b, In a g /\ In b f2 /\ c = CFindConflict a b m.
Proof.
  intro H. apply in_flat_map in H. destruct H as [a [Ha H]]. apply in_map_iff in H. destruct H as [b [<- Hb]].
  exists a, b. split; [exact Ha|]. split; [exact Hb|reflexivity].
Qed.

Lemma in_between_calls m fm1 fm2 c : In c (between_calls m fm1 fm2) ->
  exists k g f2 a b, In (k, g) fm1 /\ al_get k fm2 = Some f2 /\ In a g /\ In b f2 /\ c = CFindConflict a b m.
Proof.
  intro H. unfold between_calls in H. apply in_flat_map in H. destruct H as [[k g] [Hkg H]]. cbn [fst snd] in H.
  destruct (al_get k fm2) as [f2|] eqn:E; [|destruct H].
  destruct (in_pair_calls _ _ _ _ H) as [a [b [Ha [Hb ->]]]].
  exists k, g, f2, a, b. repeat split; assumption.
Qed.

Lemma DL_In a g : In a g -> incl (D a) (DL g).
Proof. intros Ha x Hx. apply in_flat_map. exists a. split; assumption. Qed.

Lemma FOP_between m fm1 fm2 : gm fm1 -> gm fm2 -> ForallOrdPairs rdisj (between_calls m fm1 fm2).
Proof.
  intros G1 G2. unfold between_calls. apply FOP_flat_map.
  - intros [k g] Hkg. cbn [fst snd]. destruct (al_get k fm2) as [f2|] eqn:E; [|constructor].
    destruct (gm_group fm2 k f2 G2 (al_get_Some_In _ _ _ E)) as [Nf2 _].
    destruct (gm_group fm1 k g G1 Hkg) as [Ng _].
    apply FOP_flat_map.
    + intros a _. apply FOP_map. eapply FOP_impl; [|apply (NoDup_flat_map_FOP D f2 Nf2)].
      intros b b' _ _ Hd. apply rdisj_right, Hd.
    + eapply FOP_impl; [|apply (NoDup_flat_map_FOP D g Ng)].
      intros a a' _ _ Hd u v Hu Hv. apply in_map_iff in Hu. apply in_map_iff in Hv.
      destruct Hu as [b [<- _]]. destruct Hv as [b' [<- _]]. apply rdisj_left, Hd.
  - destruct G1 as [_ N1]. rewrite DL_fm_fields in N1.
    eapply FOP_impl; [|apply (NoDup_flat_map_FOP _ fm1 N1)].
    intros [k g] [k' g'] _ _ Hd u v Hu Hv. cbn [fst snd] in *.
    destruct (al_get k fm2) as [f2|]; [|destruct Hu]. destruct (al_get k' fm2) as [f2'|]; [|destruct Hv].
    destruct (in_pair_calls _ _ _ _ Hu) as [a [b [Ha [_ ->]]]].
    destruct (in_pair_calls _ _ _ _ Hv) as [a' [b' [Ha' [_ ->]]]].
    apply rdisj_left. intros x Hx Hx'. apply (Hd x); [apply (DL_In a g Ha), Hx|apply (DL_In a' g' Ha'), Hx'].
Qed.

Lemma pairs_within_cons {A} (x : A) r : pairs_within (x :: r) = map (fun y => (x, y)) r ++ pairs_within r.
Proof. reflexivity. Qed.

Lemma pairs_within_In {A} (l : list A) a b : In (a, b) (pairs_within l) -> In a l /\ In b l.
Proof.
  induction l as [|x r IH]; [intros []|]. rewrite pairs_within_cons. intro H. apply in_app_or in H.
  destruct H as [H|H].
  - apply in_map_iff in H. destruct H as [y [E Hy]]. inversion E; subst. split; [left; reflexivity|right; exact Hy].
  - destruct (IH H) as [H1 H2]. split; right; assumption.
Qed.

Lemma FOP_pairs_within g : NoDup (DL g) ->
  ForallOrdPairs (fun ab ab' : astdef * astdef =>
                    ldisj (D (fst ab)) (D (fst ab')) \/ ldisj (D (snd ab)) (D (snd ab'))) (pairs_within g).
Proof.
  induction g as [|x r IH]; intro H; [constructor|]. rewrite pairs_within_cons.
  unfold DL in H. cbn [flat_map] in H. apply NoDup_app_iff in H. destruct H as [_ [Hr Hx]].
  apply FOP_app.
  - apply FOP_map. eapply FOP_impl; [|apply (NoDup_flat_map_FOP D r Hr)].
    intros y y' _ _ Hd. right. exact Hd.
  - apply IH, Hr.
  - intros ab ab' Hab Hab'. apply in_map_iff in Hab. destruct Hab as [y [<- _]]. destruct ab' as [u v].
    apply pairs_within_In in Hab'. destruct Hab' as [Hu _]. left. cbn [fst].
    intros p Hp Hp'. apply (Hx p Hp). apply (DL_In u r Hu), Hp'.
Qed.

Lemma in_within_calls fm c : In c (within_calls fm) ->
  exists k g a b, In (k, g) fm /\ In a g /\ In b g /\ c = CFindConflict a b false.
Proof.
  intro H. unfold within_calls in H. apply in_flat_map in H. destruct H as [[k g] [Hkg H]]. cbn [snd] in H.
  apply in_map_iff in H. destruct H as [[a b] [<- Hab]]. apply pairs_within_In in Hab.
  exists k, g, a, b. cbn [fst snd]. repeat split; try apply Hab. exact Hkg.
Qed.

Lemma FOP_within fm : gm fm -> ForallOrdPairs rdisj (within_calls fm).
Proof.
  intro G. unfold within_calls. apply FOP_flat_map.
  - intros [k g] Hkg. cbn [snd]. destruct (gm_group fm k g G Hkg) as [Ng _].
    apply FOP_map. eapply FOP_impl; [|apply (FOP_pairs_within g Ng)].
    intros ab ab' _ _ [Hd|Hd]; [apply rdisj_left, Hd|apply rdisj_right, Hd].
  - destruct G as [_ N1]. rewrite DL_fm_fields in N1.
    eapply FOP_impl; [|apply (NoDup_flat_map_FOP _ fm N1)].
    intros [k g] [k' g'] _ _ Hd u v Hu Hv. cbn [snd] in *.
    apply in_map_iff in Hu. destruct Hu as [[a b] [<- Hab]]. apply pairs_within_In in Hab.
    apply in_map_iff in Hv. destruct Hv as [[a' b'] [<- Hab']]. apply pairs_within_In in Hab'.
    cbn [fst snd]. apply rdisj_left. intros x Hx Hx'.
    apply (Hd x); [apply (DL_In a g), Hx; apply Hab|apply (DL_In a' g'), Hx'; apply Hab'].
Qed.

(* ================================================================== the run *)
Lemma pconf_S n s pm a b :
  pconf (S n) s pm a b =
  simple_conflict s (find_mutex pm a b) a b ||
  (negb (is_nil (sel_sels (ad_field a))) && negb (is_nil (sel_sels (ad_field b))) &&
   pbetween (pconf n s (find_mutex pm a b)) (sub_fm s a) (sub_fm s b)).
Proof. reflexivity. Qed.

Lemma seq_single run c st :
  seq_calls run [c] st = match run c st with Some (st1, cs1) => Some (st1, cs1 ++ []) | None => None end.
Proof. cbn [seq_calls]. destruct (run c st) as [[st1 cs1]|]; reflexivity. Qed.

Lemma between_calls_el m fm1 fm2 c : gm fm1 -> gm fm2 -> In c (between_calls m fm1 fm2) ->
  exists a b, c = CFindConflict a b m /\ wfa a /\ wfa b /\ In a (fm_fields fm1) /\ In b (fm_fields fm2).
Proof.
  intros G1 G2 H. destruct (in_between_calls _ _ _ _ H) as [k [g [f2 [a [b [Hkg [E [Ha [Hb ->]]]]]]]]].
  destruct (gm_group fm1 k g G1 Hkg) as [_ [H1 _]].
  destruct (gm_group fm2 k f2 G2 (al_get_Some_In _ _ _ E)) as [_ [H2 _]].
  exists a, b. split; [reflexivity|]. destruct (H1 a Ha) as [? ?]. destruct (H2 b Hb) as [? ?]. split; [assumption|]. split; [assumption|]. split; assumption.
Qed.

Lemma within_calls_el fm c : gm fm -> In c (within_calls fm) ->
  exists a b, c = CFindConflict a b false /\ wfa a /\ wfa b /\ In a (fm_fields fm) /\ In b (fm_fields fm).
Proof.
  intros G H. destruct (in_within_calls _ _ H) as [k [g [a [b [Hkg [Ha [Hb ->]]]]]]].
  destruct (gm_group fm k g G Hkg) as [_ [H1 _]].
  exists a, b. split; [reflexivity|]. destruct (H1 a Ha) as [? ?]. destruct (H1 b Hb) as [? ?]. split; [assumption|]. split; [assumption|]. split; assumption.
Qed.

Lemma sda_le_list_max a l : In a l -> sda a <= list_max (map sda l).
Proof. intro H. apply list_max_In, in_map, H. Qed.

Section Run.
  Variables (s : sdocument) (d : document).

  Lemma mrun_ok : forall fuel n c st,
    wfc c -> nohit c st -> need c <= fuel -> dep c <= n -> ok_result s n c st (mrun fuel s d c st).
  Proof.
    induction fuel as [|fuel IH]; intros n c st Hw Hno Hfuel Hn.
    - exfalso. destruct c as [a b pm|m pn1 sels1 pn2 sels2|?|?|m fm1 fm2|fm0 frags m|fm|parent sels]; cbn [wfc] in Hw;
        try contradiction; unfold need in Hfuel; try lia.
      destruct Hw as [[Fa _] _]. cbn [dep] in Hfuel. unfold sda in Hfuel. rewrite (sd_field _ Fa) in Hfuel. lia.
    - destruct c as [a b pm|m pn1 sels1 pn2 sels2|?|?|m fm1 fm2|fm0 frags m|fm|parent sels]; cbn [wfc] in Hw; try contradiction.
      + (* CFindConflict *)
        destruct Hw as [[Fa [Sa Na]] [Fb [Sb Nb]]].
        unfold need in Hfuel. cbn [dep] in Hfuel, Hn. unfold sda in Hfuel, Hn. rewrite (sd_field _ Fa) in Hfuel, Hn.
        destruct n as [|n']; [lia|].
        assert (Da : D a = sel_pos (ad_field a) :: DS (sel_sels (ad_field a))) by (apply Dx_field, Fa).
        assert (Db : D b = sel_pos (ad_field b) :: DS (sel_sels (ad_field b))) by (apply Dx_field, Fb).
        rewrite mrun_find. cbv zeta. unfold ok_result.
        change (pure (S n') s (CFindConflict a b pm)) with (pconf (S n') s pm a b). rewrite pconf_S.
        set (mutex := find_mutex pm a b). unfold simple_conflict.
        destruct (negb mutex && negb (name_eqb (sel_name (ad_field a)) (sel_name (ad_field b)))) eqn:E1.
        { eexists st, _. split; [reflexivity|]. split; [apply frame_in_refl|reflexivity]. }
        destruct (negb mutex && negb (is_same_arguments (sel_args (ad_field a)) (sel_args (ad_field b)))) eqn:E2.
        { eexists st, _. split; [reflexivity|]. split; [apply frame_in_refl|reflexivity]. }
        destruct (type_conf s a b) eqn:E3.
        { eexists st, _. split; [reflexivity|]. split; [apply frame_in_refl|reflexivity]. }
        destruct (negb (is_nil (sel_sels (ad_field a))) && negb (is_nil (sel_sels (ad_field b)))) eqn:E4.
        2:{ eexists st, _. split; [reflexivity|]. split; [apply frame_in_refl|reflexivity]. }
        assert (Hh : being_hit st (sel_pos (ad_field a)) (sel_pos (ad_field b)) mutex = false).
        { apply not_true_is_false. intro Hh. unfold being_hit in Hh. apply existsb_exists in Hh.
          destruct Hh as [pq [Hpq Hc]]. apply andb_prop in Hc. destruct Hc as [Hc _].
          apply andb_prop in Hc. destruct Hc as [Hc1 Hc2]. apply pos_eqb_eq in Hc1. apply pos_eqb_eq in Hc2.
          apply (Hno pq Hpq). split; cbn [cL cR]; [rewrite Da|rewrite Db]; left; symmetry; assumption. }
        rewrite Hh.
        set (st1 := mkMS (ms_compared st) (ms_visited st)
                         (ms_being st ++ [(sel_pos (ad_field a), sel_pos (ad_field b), mutex)])).
        set (c' := CBetweenSub mutex (sub_pn a) (sel_sels (ad_field a)) (sub_pn b) (sel_sels (ad_field b))).
        assert (Hsub : forall pq, inrect pq c' -> inrect pq (CFindConflict a b pm)).
        { intros pq [H1 H2]. split; cbn [cL cR] in *; [rewrite Da|rewrite Db]; right; assumption. }
        rewrite Da in Na. rewrite Db in Nb. inversion Na as [|? ? Nia Nda]; subst. inversion Nb as [|? ? Nib Ndb]; subst.
        destruct (IH n' c' st1) as [st2 [cs [E [F N]]]].
        { split; split; [apply sf_sel_sels, Sa|exact Nda|apply sf_sel_sels, Sb|exact Ndb]. }
        { intros pq Hpq. unfold st1 in Hpq. cbn [ms_being] in Hpq. apply in_app_or in Hpq. destruct Hpq as [Hpq|[<-|[]]].
          - intro Hr. exact (Hno pq Hpq (Hsub pq Hr)).
          - intros [H1 _]. cbn [fst snd cL c'] in H1. exact (Nia H1). }
        { unfold need, c'. cbn [dep]. lia. }
        { unfold c'. cbn [dep]. lia. }
        rewrite E. exists st2, (if is_nil cs then [] else
                                  [(sel_pos (ad_field a) :: flat_map fst cs, sel_pos (ad_field a) :: flat_map fst cs)]).
        split; [destruct (is_nil cs); reflexivity|]. split.
        * destruct F as [Fc [Fv [ex [Fb' Fin]]]]. split; [exact Fc|]. split; [exact Fv|].
          exists ((sel_pos (ad_field a), sel_pos (ad_field b), mutex) :: ex). split.
          -- rewrite Fb'. unfold st1. cbn [ms_being]. rewrite <- app_assoc. reflexivity.
          -- intros pq [<-|Hpq].
             ++ split; cbn [fst snd cL cR]; [rewrite Da|rewrite Db]; left; reflexivity.
             ++ apply Hsub, Fin, Hpq.
        * transitivity (is_nil cs); [destruct (is_nil cs); reflexivity|]. rewrite N. reflexivity.
      + (* CBetweenSub *)
        destruct Hw as [[S1 N1] [S2 N2]]. unfold need in Hfuel. cbn [dep] in Hfuel, Hn.
        rewrite mrun_between_sub. unfold ok_result. cbn [pure].
        rewrite (gff_sf s _ sels1 S1), (gff_sf s _ sels2 S2). cbn [fst map flat_map app].
        set (fm1 := fm_of (map ad_of (cfl s (opt_bind pn1 (type_by_name s)) sels1)) []).
        set (fm2 := fm_of (map ad_of (cfl s (opt_bind pn2 (type_by_name s)) sels2)) []).
        destruct (fm_cfl_facts s (opt_bind pn1 (type_by_name s)) sels1 (conj S1 N1)) as [G1 [I1 Dp1]].
        destruct (fm_cfl_facts s (opt_bind pn2 (type_by_name s)) sels2 (conj S2 N2)) as [G2 [I2 Dp2]].
        fold fm1 in G1, I1, Dp1. fold fm2 in G2, I2, Dp2.
        assert (Hsub : forall pq, inrect pq (CBetween m fm1 fm2) -> inrect pq (CBetweenSub m pn1 sels1 pn2 sels2)).
        { intros pq [H1 H2]. split; [apply I1, H1|apply I2, H2]. }
        assert (Hd : list_max (map sda (fm_fields fm1)) <= maxd sels1).
        { apply list_max_le, Forall_forall. intros k Hk. apply in_map_iff in Hk. destruct Hk as [a [<- Ha]].
          apply Dp1, Ha. }
        set (calls := [CBetween m fm1 fm2; CFragmentLoop fm1 [] m; CFragmentLoop fm2 [] m]).
        assert (Hsubc : forall c, In c calls -> forall pq, inrect pq c -> inrect pq (CBetweenSub m pn1 sels1 pn2 sels2)).
        { intros c [<-|[<-|[<-|[]]]] pq Hr; [apply Hsub, Hr|destruct Hr as [[] _]|destruct Hr as [[] _]]. }
        destruct (seq_ok s n (mrun fuel s d) calls st) as [st1 [cs1 [E [F N]]]].
        { intros c [<-|[<-|[<-|[]]]] st0 Hno0.
          - apply IH; [split; assumption|exact Hno0|unfold need; cbn [dep]; lia|cbn [dep]; lia].
          - apply IH; [reflexivity|exact Hno0|unfold need; cbn [dep]; lia|cbn [dep]; lia].
          - apply IH; [reflexivity|exact Hno0|unfold need; cbn [dep]; lia|cbn [dep]; lia]. }
        { repeat constructor; intros pq Hr1 Hr2; try (destruct Hr2 as [[] _]); destruct Hr1 as [[] _]. }
        { intros c Hc. apply (nohit_sub _ _ _ (Hsubc c Hc) Hno). }
        exists st1, cs1. split; [exact E|]. split.
        * apply (frame_in_impl _ _ _ _ (fun pq H => match H with ex_intro _ c (conj Hc Hr) => Hsubc c Hc pq Hr end) F).
        * rewrite N. unfold calls. cbn [existsb pure]. rewrite !orb_false_r. reflexivity.
      + (* CBetween *)
        destruct Hw as [G1 G2]. unfold need in Hfuel. cbn [dep] in Hfuel, Hn.
        rewrite mrun_between.
        assert (Hsub : forall c, In c (between_calls m fm1 fm2) ->
                                 forall pq, inrect pq c -> inrect pq (CBetween m fm1 fm2)).
        { intros c Hc pq [H1 H2]. destruct (between_calls_el _ _ _ _ G1 G2 Hc) as [a [b [-> [_ [_ [Ha Hb]]]]]].
          split; [apply (DL_In a _ Ha), H1|apply (DL_In b _ Hb), H2]. }
        destruct (seq_ok s n (mrun fuel s d) (between_calls m fm1 fm2) st) as [st' [cs [E [F N]]]].
        { intros c Hc st0 Hno0. destruct (between_calls_el _ _ _ _ G1 G2 Hc) as [a [b [-> [Wa [Wb [Ha Hb]]]]]].
          pose proof (sda_le_list_max a _ Ha) as Hle.
          apply IH; [split; assumption|exact Hno0|unfold need; cbn [dep]; lia|cbn [dep]; lia]. }
        { apply FOP_between; assumption. }
        { intros c Hc. apply (nohit_sub _ _ _ (Hsub c Hc) Hno). }
        exists st', cs. split; [exact E|]. split.
        * apply (frame_in_impl _ _ _ _ (fun pq H => match H with ex_intro _ c (conj Hc Hr) => Hsub c Hc pq Hr end) F).
        * rewrite N, pure_between_calls. reflexivity.
      + (* CFragmentLoop on an empty list of fragments *)
        cbn [wfc] in Hw. subst frags. rewrite mrun_fragment_loop_nil.
        eexists _, []. split; [reflexivity|]. split; [|reflexivity].
        split; [reflexivity|]. split; [reflexivity|]. exists []. cbn [ms_being]. split; [symmetry; apply app_nil_r|intros pq []].
      + (* CWithin *)
        rename Hw into G. unfold need in Hfuel. cbn [dep] in Hfuel, Hn.
        rewrite mrun_within.
        assert (Hsub : forall c, In c (within_calls fm) -> forall pq, inrect pq c -> inrect pq (CWithin fm)).
        { intros c Hc pq [H1 H2]. destruct (within_calls_el _ _ G Hc) as [a [b [-> [_ [_ [Ha Hb]]]]]].
          split; [apply (DL_In a _ Ha), H1|apply (DL_In b _ Hb), H2]. }
        destruct (seq_ok s n (mrun fuel s d) (within_calls fm) st) as [st' [cs [E [F N]]]].
        { intros c Hc st0 Hno0. destruct (within_calls_el _ _ G Hc) as [a [b [-> [Wa [Wb [Ha Hb]]]]]].
          pose proof (sda_le_list_max a _ Ha) as Hle.
          apply IH; [split; assumption|exact Hno0|unfold need; cbn [dep]; lia|cbn [dep]; lia]. }
        { apply FOP_within; assumption. }
        { intros c Hc. apply (nohit_sub _ _ _ (Hsub c Hc) Hno). }
        exists st', cs. split; [exact E|]. split.
        * apply (frame_in_impl _ _ _ _ (fun pq H => match H with ex_intro _ c (conj Hc Hr) => Hsub c Hc pq Hr end) F).
        * rewrite N, pure_within_calls. reflexivity.
      + (* CWithinSelectionSet *)
        destruct Hw as [S1 N1]. unfold need in Hfuel. cbn [dep] in Hfuel, Hn.
        rewrite mrun_within_set. unfold ok_result. cbn [pure].
        rewrite (gff_sf s _ sels S1). cbn [fst app].
        set (fm := fm_of (map ad_of (cfl s parent sels)) []).
        destruct (fm_cfl_facts s parent sels (conj S1 N1)) as [G1 [I1 Dp1]]. fold fm in G1, I1, Dp1.
        assert (Hsub : forall pq, inrect pq (CWithin fm) -> inrect pq (CWithinSelectionSet parent sels)).
        { intros pq [H1 H2]. split; [apply I1, H1|apply I1, H2]. }
        assert (Hd : list_max (map sda (fm_fields fm)) <= maxd sels).
        { apply list_max_le, Forall_forall. intros k Hk. apply in_map_iff in Hk. destruct Hk as [a [<- Ha]].
          apply Dp1, Ha. }
        destruct (IH n (CWithin fm) st) as [st1 [cs1 [E [F N]]]].
        { exact G1. }
        { apply (nohit_sub _ _ _ Hsub Hno). }
        { unfold need. cbn [dep]. lia. }
        { cbn [dep]. lia. }
        rewrite E. cbn [seq_calls]. eexists _, (cs1 ++ []). split; [reflexivity|]. rewrite app_nil_r.
        split; [|exact N].
        apply (frame_in_impl _ _ _ _ Hsub) in F. destruct F as [Fc [Fv Fb]].
        split; [exact Fc|]. split; [exact Fv|exact Fb].
  Qed.
End Run.

(* ================================================================== the search without memo = the specification *)
Lemma find_mutex_spec pm x y : find_mutex pm (ad_of x) (ad_of y) = pm || parents_exclusive x y.
Proof.
  unfold find_mutex, parents_exclusive. cbn [ad_of ad_parent]. f_equal.
  destruct (cf_parent x) as [[]|], (cf_parent y) as [[]|]; cbn [otd_name otd_is_object td_is_object td_name];
    rewrite ?andb_false_r, ?andb_true_r; reflexivity.
Qed.

Lemma sub_parent_eq s x :
  opt_bind (sub_pn (ad_of x)) (type_by_name s)
  = opt_bind (opt_map fd_type (cf_def x)) (fun t => type_by_name s (inner_type t)).
Proof. unfold sub_pn. cbn [ad_of ad_def]. destruct (cf_def x); reflexivity. Qed.

Lemma in_cross_pairs x y C1 C2 :
  In (x, y) (cross_pairs C1 C2) <-> In x C1 /\ In y C2 /\ name_eqb (cf_key x) (cf_key y) = true.
Proof.
  unfold cross_pairs. rewrite filter_In, in_flat_map. cbn [fst snd]. split.
  - intros [[x' [Hx' Hin]] Hk]. apply in_map_iff in Hin. destruct Hin as [y' [E Hy']]. inversion E; subst.
    split; [exact Hx'|]. split; [exact Hy'|exact Hk].
  - intros [Hx [Hy Hk]]. split; [|exact Hk]. exists x. split; [exact Hx|]. apply in_map_iff. exists y.
    split; [reflexivity|exact Hy].
Qed.

Lemma cross_pairs_nil_r C1 : cross_pairs C1 [] = [].
Proof. unfold cross_pairs. induction C1 as [|x r IH]; cbn [flat_map map app]; [reflexivity|exact IH]. Qed.

Lemma filter_key_map k C :
  filter (key_is k) (map ad_of C) = map ad_of (filter (fun c => name_eqb (cf_key c) k) C).
Proof.
  induction C as [|c r IH]; cbn [map filter]; [reflexivity|]. unfold key_is at 1. rewrite ad_key_of.
  destruct (name_eqb (cf_key c) k); cbn [map]; rewrite IH; reflexivity.
Qed.

Lemma pbetween_cross (f : astdef -> astdef -> bool) C1 C2 :
  pbetween f (fm_of (map ad_of C1) []) (fm_of (map ad_of C2) [])
  = existsb (fun xy : cfield * cfield => f (ad_of (fst xy)) (ad_of (snd xy))) (cross_pairs C1 C2).
Proof.
  pose proof (fm_of_inv (map ad_of C1)) as I1. pose proof (fm_of_inv (map ad_of C2)) as I2.
  set (m1 := fm_of (map ad_of C1) []) in *. set (m2 := fm_of (map ad_of C2) []) in *.
  apply bool_eq_iff. unfold pbetween. rewrite !existsb_exists. split.
  - intros [[k g] [Hkg H]]. cbn [fst snd] in H. destruct (al_get k m2) as [f2|] eqn:E; [|discriminate].
    apply existsb_exists in H. destruct H as [a [Ha H]]. apply existsb_exists in H. destruct H as [b [Hb H]].
    rewrite (fi_groups _ _ I1 k g Hkg), filter_key_map in Ha.
    rewrite (fi_groups _ _ I2 k f2 (al_get_Some_In _ _ _ E)), filter_key_map in Hb.
    apply in_map_iff in Ha. destruct Ha as [x [<- Hx]]. apply in_map_iff in Hb. destruct Hb as [y [<- Hy]].
    apply filter_In in Hx. apply filter_In in Hy. destruct Hx as [Hx Kx]. destruct Hy as [Hy Ky].
    exists (x, y). split; [|exact H]. apply in_cross_pairs. split; [exact Hx|]. split; [exact Hy|].
    apply c5_name_eqb_eq in Kx. apply c5_name_eqb_eq in Ky. rewrite Kx, Ky. apply c5_name_eqb_refl.
  - intros [[x y] [Hxy H]]. cbn [fst snd] in H. apply in_cross_pairs in Hxy. destruct Hxy as [Hx [Hy Hk]].
    apply c5_name_eqb_eq in Hk.
    assert (K1 : In (cf_key x) (map fst m1)) by (apply (fi_keys _ _ I1 (ad_of x)), in_map, Hx).
    assert (K2 : In (cf_key x) (map fst m2)) by (rewrite Hk; apply (fi_keys _ _ I2 (ad_of y)), in_map, Hy).
    apply in_map_iff in K1. destruct K1 as [[k g] [Ek Hkg]]. cbn [fst] in Ek. subst k.
    apply in_map_iff in K2. destruct K2 as [[k f2] [Ek Hkf]]. cbn [fst] in Ek. subst k.
    exists (cf_key x, g). split; [exact Hkg|]. cbn [fst snd].
    rewrite (al_get_In_nodup _ _ _ (fi_nodup _ _ I2) Hkf).
    apply existsb_exists. exists (ad_of x). split.
    + rewrite (fi_groups _ _ I1 _ _ Hkg), filter_key_map. apply in_map, filter_In. split; [exact Hx|apply c5_name_eqb_refl].
    + apply existsb_exists. exists (ad_of y). split; [|exact H].
      rewrite (fi_groups _ _ I2 _ _ Hkf), filter_key_map. apply in_map, filter_In. split; [exact Hy|].
      rewrite Hk. apply c5_name_eqb_refl.
Qed.

Lemma pairs_within_map {A B} (h : A -> B) l :
  pairs_within (map h l) = map (fun xy : A * A => (h (fst xy), h (snd xy))) (pairs_within l).
Proof.
  induction l as [|x r IH]; [reflexivity|]. cbn [map]. rewrite !pairs_within_cons, map_app, IH, !map_map. reflexivity.
Qed.

Lemma pairs_within_filter_In {A} (p : A -> bool) l a b :
  In (a, b) (pairs_within (filter p l)) <-> In (a, b) (pairs_within l) /\ p a = true /\ p b = true.
Proof.
  induction l as [|x r IH]; [cbn; tauto|]. cbn [filter]. rewrite (pairs_within_cons x r), in_app_iff.
  destruct (p x) eqn:E.
  - rewrite pairs_within_cons, in_app_iff, IH, !in_map_iff. split.
    + intros [[y [Ey Hy]]|[H1 H2]].
      * inversion Ey; subst. apply filter_In in Hy. destruct Hy as [Hy Py].
        split; [left; exists b; split; [reflexivity|exact Hy]|]. split; [exact E|exact Py].
      * split; [right; exact H1|exact H2].
    + intros [[[y [Ey Hy]]|H1] [Pa Pb]].
      * inversion Ey; subst. left. exists b. split; [reflexivity|]. apply filter_In. split; assumption.
      * right. split; [exact H1|]. split; assumption.
  - rewrite IH, in_map_iff. split.
    + intros [H1 H2]. split; [right; exact H1|exact H2].
    + intros [[[y [Ey Hy]]|H1] [Pa Pb]].
      * inversion Ey; subst. rewrite E in Pa. discriminate.
      * split; [exact H1|]. split; assumption.
Qed.

Lemma pwithin_same_key (f : astdef -> astdef -> bool) C :
  pwithin f (fm_of (map ad_of C) [])
  = existsb (fun xy : cfield * cfield => f (ad_of (fst xy)) (ad_of (snd xy))) (same_key_pairs C).
Proof.
  pose proof (fm_of_inv (map ad_of C)) as I1. set (m := fm_of (map ad_of C) []) in *.
  apply bool_eq_iff. unfold pwithin, same_key_pairs. rewrite !existsb_exists. split.
  - intros [[k g] [Hkg H]]. cbn [snd] in H. apply existsb_exists in H. destruct H as [[a b] [Hab H]]. cbn [fst snd] in H.
    rewrite (fi_groups _ _ I1 k g Hkg), filter_key_map, pairs_within_map in Hab.
    apply in_map_iff in Hab. destruct Hab as [[x y] [E Hxy]]. cbn [fst snd] in E. inversion E; subst a b.
    apply pairs_within_filter_In in Hxy. destruct Hxy as [Hxy [Kx Ky]].
    exists (x, y). split; [|exact H]. apply filter_In. split; [exact Hxy|]. cbn [fst snd].
    apply c5_name_eqb_eq in Kx. apply c5_name_eqb_eq in Ky. rewrite Kx, Ky. apply c5_name_eqb_refl.
  - intros [[x y] [Hxy H]]. cbn [fst snd] in H. apply filter_In in Hxy. destruct Hxy as [Hxy Hk]. cbn [fst snd] in Hk.
    apply c5_name_eqb_eq in Hk. pose proof (pairs_within_In _ _ _ Hxy) as [Hx Hy].
    assert (K1 : In (cf_key x) (map fst m)) by (apply (fi_keys _ _ I1 (ad_of x)), in_map, Hx).
    apply in_map_iff in K1. destruct K1 as [[k g] [Ek Hkg]]. cbn [fst] in Ek. subst k.
    exists (cf_key x, g). split; [exact Hkg|]. cbn [snd]. apply existsb_exists. exists (ad_of x, ad_of y).
    split; [|exact H]. rewrite (fi_groups _ _ I1 _ _ Hkg), filter_key_map, pairs_within_map.
    apply in_map_iff. exists (x, y). split; [reflexivity|]. apply pairs_within_filter_In.
    split; [exact Hxy|]. split; [apply c5_name_eqb_refl|rewrite Hk; apply c5_name_eqb_refl].
Qed.

Lemma type_conf_spec s x y :
  type_conf s (ad_of x) (ad_of y)
  = negb (match cf_def x, cf_def y with
          | Some da, Some db => negb (shape_conflict s (fd_type da) (fd_type db))
          | _, _ => true
          end).
Proof.
  unfold type_conf. cbn [ad_of ad_def]. destruct (cf_def x), (cf_def y); cbn [opt_map]; try reflexivity.
  rewrite is_type_conflict_spec, negb_involutive. reflexivity.
Qed.

Lemma pconf_spec s d : forall n N pm x y,
  is_field (cf_field x) = true ->
  sf_sel (cf_field x) = true -> sf_sel (cf_field y) = true ->
  args_ok (cf_field x) = true -> args_ok (cf_field y) = true ->
  sd (cf_field x) <= n -> sd (cf_field x) <= N ->
  pconf n s pm (ad_of x) (ad_of y) = negb (fields_can_merge N s d pm x y).
Proof.
  induction n as [|n IH]; intros N pm x y Fx' Sx Sy Ax Ay Hn HN.
  - rewrite (sd_field _ Fx') in Hn. lia.
  - destruct N as [|N]; [rewrite (sd_field _ Fx') in HN; lia|].
    rewrite pconf_S. cbn [fields_can_merge]. rewrite find_mutex_spec.
    set (mutex := pm || parents_exclusive x y).
    unfold simple_conflict. rewrite type_conf_spec. cbn [ad_of ad_field].
    rewrite (is_same_arguments_spec _ _ (args_ok_nodup _ Ax) (args_ok_nodup _ Ay)).
    unfold sub_fm. rewrite !sub_parent_eq. cbn [ad_of ad_field].
    pose proof (sf_sel_sels _ Sx) as Ssx. pose proof (sf_sel_sels _ Sy) as Ssy.
    rewrite (gff_sf s _ _ Ssx), (gff_sf s _ _ Ssy). cbn [fst].
    unfold sub_set. rewrite (collected_sf s d _ _ Ssx), (collected_sf s d _ _ Ssy).
    rewrite pbetween_cross.
    set (C1 := cfl s (opt_bind (opt_map fd_type (cf_def x)) (fun t => type_by_name s (inner_type t))) (sel_sels (cf_field x))).
    set (C2 := cfl s (opt_bind (opt_map fd_type (cf_def y)) (fun t => type_by_name s (inner_type t))) (sel_sels (cf_field y))).
    assert (EX : existsb (fun xy : cfield * cfield => pconf n s mutex (ad_of (fst xy)) (ad_of (snd xy))) (cross_pairs C1 C2)
                 = negb (forallb (fun xy : cfield * cfield => fields_can_merge N s d mutex (fst xy) (snd xy)) (cross_pairs C1 C2))).
    { apply existsb_negb_forallb. intros [x' y'] Hin. cbn [fst snd]. apply in_cross_pairs in Hin.
      destruct Hin as [Hx' [Hy' _]].
      destruct (cfl_facts s sf_sel sf_inline _ _ x' Ssx Hx') as [F1 [S1 D1]].
      destruct (cfl_facts s args_ok args_ok_inline _ _ x' (args_ok_sels _ Ax) Hx') as [_ [A1 _]].
      destruct (cfl_facts s sf_sel sf_inline _ _ y' Ssy Hy') as [_ [S2 _]].
      destruct (cfl_facts s args_ok args_ok_inline _ _ y' (args_ok_sels _ Ay) Hy') as [_ [A2 _]].
      rewrite (sd_field _ Fx') in Hn, HN.
      apply IH; try assumption; lia. }
    assert (G : negb (is_nil (sel_sels (cf_field x))) && negb (is_nil (sel_sels (cf_field y))) &&
                existsb (fun xy : cfield * cfield => pconf n s mutex (ad_of (fst xy)) (ad_of (snd xy))) (cross_pairs C1 C2)
                = existsb (fun xy : cfield * cfield => pconf n s mutex (ad_of (fst xy)) (ad_of (snd xy))) (cross_pairs C1 C2)).
    { clear EX. unfold C1, C2. destruct (sel_sels (cf_field x)) as [|x1 r1]; [reflexivity|].
      destruct (sel_sels (cf_field y)) as [|y1 r2]; [|reflexivity].
      change (cfl s (opt_bind (opt_map fd_type (cf_def y)) (fun t => type_by_name s (inner_type t))) []) with (@nil cfield).
      rewrite cross_pairs_nil_r. reflexivity. }
    rewrite G, EX.
    destruct mutex, (name_eqb (sel_name (cf_field x)) (sel_name (cf_field y))),
      (same_arguments (sel_args (cf_field x)) (sel_args (cf_field y))),
      (match cf_def x, cf_def y with
       | Some da, Some db => negb (shape_conflict s (fd_type da) (fd_type db))
       | _, _ => true end),
      (forallb (fun xy : cfield * cfield => fields_can_merge N s d true (fst xy) (snd xy)) (cross_pairs C1 C2)),
      (forallb (fun xy : cfield * cfield => fields_can_merge N s d false (fst xy) (snd xy)) (cross_pairs C1 C2));
      reflexivity.
Qed.

(* ================================================================== one selection set *)
Lemma pwithin_spec s d n N parent sels :
  sf_sels sels = true -> forallb args_ok sels = true -> maxd sels <= n -> maxd sels <= N ->
  pwithin (pconf n s false) (fm_of (map ad_of (cfl s parent sels)) [])
  = negb (forallb (fun ab : cfield * cfield => fields_can_merge N s d false (fst ab) (snd ab))
                  (same_key_pairs (cfl s parent sels))).
Proof.
  intros Hsf Ha Hn HN. rewrite pwithin_same_key. apply existsb_negb_forallb.
  intros [x y] Hin. cbn [fst snd]. unfold same_key_pairs in Hin. apply filter_In in Hin. destruct Hin as [Hin _].
  apply pairs_within_In in Hin. destruct Hin as [Hx Hy].
  destruct (cfl_facts s sf_sel sf_inline _ _ x Hsf Hx) as [F1 [S1 D1]].
  destruct (cfl_facts s args_ok args_ok_inline _ _ x Ha Hx) as [_ [A1 _]].
  destruct (cfl_facts s sf_sel sf_inline _ _ y Hsf Hy) as [_ [S2 _]].
  destruct (cfl_facts s args_ok args_ok_inline _ _ y Ha Hy) as [_ [A2 _]].
  apply pconf_spec; try assumption; lia.
Qed.

Theorem within_set_ok s d parent sels :
  sf_sels sels = true -> NoDup (DS sels) -> forallb args_ok sels = true -> maxd sels <= doc_fields d ->
  exists ms cs,
    mrun (merge_fuel d) s d (CWithinSelectionSet parent sels) (mkMS [] [] []) = Some (ms, cs) /\
    ms_compared ms = [] /\
    is_nil cs = fields_in_set_can_merge s d (collected s d parent sels).
Proof.
  intros Hsf Hnd Ha Hd.
  destruct (mrun_ok s d (merge_fuel d) (maxd sels) (CWithinSelectionSet parent sels) (mkMS [] [] []))
    as [ms [cs [E [F N]]]].
  - split; assumption.
  - intros pq [].
  - unfold need, merge_fuel. cbn [dep].
    assert (16 * (doc_fields d + 2) <= 4 * (doc_fields d + 2) * (4 + 3 * List.length (fragments_of d))) by nia.
    lia.
  - apply le_n.
  - exists ms, cs. split; [exact E|]. split; [apply F|].
    rewrite N. cbn [pure]. rewrite (gff_sf s parent sels Hsf). cbn [fst].
    rewrite (pwithin_spec s d _ (merge_fuel_spec d) parent sels Hsf Ha (le_n _)) by (unfold merge_fuel_spec; lia).
    rewrite negb_involutive, (collected_sf s d parent sels Hsf). reflexivity.
Qed.

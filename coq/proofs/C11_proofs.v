(* C11_proofs.v — the operation-level rules (UniqueOperationNames, LoneAnonymousOperation,
   SingleFieldSubscriptions) fire exactly when the specification condition is violated.
   The first part (counting) is reusable: [counts_finish_dup] says that the counting map built by
   [count_incr] reports an error iff the list of counted names has a duplicate. *)
From GT Require Import Visitor CollectFields Validate.
From GTS Require Import SpecLin Annot WfSchema SpecRules SpecCollect SpecValid.
From GTP Require Import VisitorFacts TraceFacts RuleFacts EventFacts C19_proofs.

(* ================================================================ counting names *)
Definition cnt (k : name) (l : list name) : nat := List.length (filter (name_eqb k) l).

Definition incr_all (l : list name) (m : list (name * nat)) : list (name * nat) :=
  fold_left (fun m n => count_incr n m) l m.

Definition count_tab (l : list name) : list (name * nat) := tab (fun k => cnt k l) (distinct_keys l []).

Lemma cnt_snoc k l n : cnt k (l ++ [n]) = cnt k l + (if name_eqb k n then 1 else 0).
Proof.
  unfold cnt. rewrite filter_app, app_length. cbn [filter]. destruct (name_eqb k n); reflexivity.
Qed.

Lemma cnt_cons k x l : cnt k (x :: l) = (if name_eqb k x then 1 else 0) + cnt k l.
Proof. unfold cnt. cbn [filter]. destruct (name_eqb k x); reflexivity. Qed.

Lemma cnt_zero k l : mem_name k l = false -> cnt k l = 0.
Proof.
  induction l as [|x r IH]; [reflexivity|]. cbn [mem_name existsb]. fold (mem_name k r).
  rewrite cnt_cons. destruct (name_eqb k x); [discriminate|]. exact IH.
Qed.
Lemma cnt_pos k l : mem_name k l = true -> 1 <= cnt k l.
Proof.
  induction l as [|x r IH]; [discriminate|]. cbn [mem_name existsb]. fold (mem_name k r).
  rewrite cnt_cons. destruct (name_eqb k x); [lia|]. cbn [orb]. intro H. specialize (IH H). lia.
Qed.

Lemma count_incr_tab l n : count_incr n (count_tab l) = count_tab (l ++ [n]).
Proof.
  unfold count_incr, count_tab.
  apply (upsert_tab (fun k => cnt k l) (fun k => cnt k (l ++ [n])) S 1 l n).
  - intros k' Hne. rewrite cnt_snoc. apply name_eqb_neq in Hne. rewrite Hne. lia.
  - intros _. rewrite cnt_snoc, name_eqb_refl. lia.
  - intro Hnin. apply mem_name_not_In in Hnin. rewrite cnt_snoc, name_eqb_refl, (cnt_zero _ _ Hnin).
    reflexivity.
Qed.

Lemma incr_all_tab l : forall l0, incr_all l (count_tab l0) = count_tab (l0 ++ l).
Proof.
  induction l as [|n r IH]; intro l0.
  - rewrite app_nil_r. reflexivity.
  - unfold incr_all. cbn [fold_left]. fold (incr_all r (count_incr n (count_tab l0))).
    rewrite count_incr_tab, IH, <- app_assoc. reflexivity.
Qed.

(* the counting map: one entry per distinct name, in order of first occurrence, with its number of
   occurrences *)
Lemma incr_all_nil l : incr_all l [] = count_tab l.
Proof. exact (incr_all_tab l []). Qed.

Lemma nodup_names_cnt l : nodup_names l = true -> forall k, cnt k l <= 1.
Proof.
  induction l as [|x r IH]; intros H k; [cbn; lia|].
  cbn [nodup_names] in H. apply andb_prop in H. destruct H as [Hx Hr].
  rewrite cnt_cons. specialize (IH Hr k). destruct (name_eqb k x) eqn:E; [|lia].
  apply name_eqb_eq in E. subst x. apply negb_true_iff in Hx. rewrite (cnt_zero _ _ Hx). lia.
Qed.

Lemma not_nodup_names_cnt l : nodup_names l = false -> exists k, In k l /\ 2 <= cnt k l.
Proof.
  induction l as [|x r IH]; [discriminate|].
  cbn [nodup_names]. intro H. apply andb_false_iff in H. destruct H as [H|H].
  - apply negb_false_iff in H. exists x. split; [left; reflexivity|].
    rewrite cnt_cons, name_eqb_refl. pose proof (cnt_pos _ _ H). lia.
  - destruct (IH H) as [k [Hin Hc]]. exists k. split; [right; exact Hin|].
    rewrite cnt_cons. lia.
Qed.

Lemma counts_finish_tab r l : counts_finish r (count_tab l) <> [] <-> nodup_names l = false.
Proof.
  unfold counts_finish. rewrite flat_map_nonempty_existsb, existsb_exists. split.
  - intros [[k v] [Hin Hv]]. unfold count_tab, tab in Hin. apply in_map_iff in Hin.
    destruct Hin as [k0 [Heq _]]. inversion Heq; subst k0 v. cbn [snd] in Hv.
    destruct (Nat.ltb 1 (cnt k l)) eqn:E; [|discriminate]. apply Nat.ltb_lt in E.
    destruct (nodup_names l) eqn:En; [|reflexivity].
    pose proof (nodup_names_cnt l En k). lia.
  - intro H. destruct (not_nodup_names_cnt l H) as [k [Hin Hc]].
    exists (k, cnt k l). split.
    + unfold count_tab, tab. apply in_map_iff. exists k. split; [reflexivity|].
      apply distinct_keys_In. split; [exact Hin|intros []].
    + cbn [snd]. assert (E : Nat.ltb 1 (cnt k l) = true) by (apply Nat.ltb_lt; lia).
      rewrite E. reflexivity.
Qed.

(* REUSABLE: the counting rules report an error iff some counted name is repeated *)
Lemma counts_finish_dup r (l : list name) :
  counts_finish r (fold_left (fun m n => count_incr n m) l []) <> [] <-> nodup_names l = false.
Proof. fold (incr_all l []). rewrite incr_all_nil. apply counts_finish_tab. Qed.

(* ================================================================ folding a handler over the trace *)
Lemma fold_left_flat_map {A B St} (g : St -> B -> St) (f : A -> list B) (l : list A) (st : St) :
  fold_left g (flat_map f l) st = fold_left (fun st x => fold_left g (f x) st) l st.
Proof.
  revert st. induction l as [|x r IH]; intro st; cbn [flat_map fold_left]; [reflexivity|].
  rewrite fold_left_app, IH. reflexivity.
Qed.

(* a handler that reads only the event and reacts, through a picker, to some nodes *)
Lemma fold_pick {St X} (h : St -> event -> ctx -> St) (pk : node -> list X) (g : St -> X -> St) s d c st :
  (forall st e c, h st e c = fold_left g (pick pk e) st) ->
  fold_left (hh h) (ctr_document s d c) st = fold_left g (flat_map (pick pk) (lin_document d)) st.
Proof.
  intro H. rewrite <- (flat_map_ctr_events s d c (pick pk)), fold_left_flat_map.
  apply fold_left_ext_fn. intros a [e c']. unfold hh. cbn [fst snd]. apply H.
Qed.

(* a handler that reacts only to the operations *)
Lemma fold_operations {St} (h : St -> event -> ctx -> St) (g : St -> operation -> St) s d c st :
  (forall st e c, h st e c = fold_left g (pick pk_operation e) st) ->
  fold_left (hh h) (ctr_document s d c) st = fold_left g (operations_of d) st.
Proof. intro H. rewrite (fold_pick h pk_operation g s d c st H), pick_operation_document. reflexivity. Qed.

(* the same for the fragment definitions *)
Lemma fold_fragments {St} (h : St -> event -> ctx -> St) (g : St -> fragment_def -> St) s d c st :
  (forall st e c, h st e c = fold_left g (pick pk_fragment e) st) ->
  fold_left (hh h) (ctr_document s d c) st = fold_left g (fragments_of d) st.
Proof. intro H. rewrite (fold_pick h pk_fragment g s d c st H), pick_fragment_document. reflexivity. Qed.

(* ================================================================ UniqueOperationNames *)
Definition uon_op (st : list (name * nat)) (o : operation) : list (name * nat) :=
  match op_node_name o with Some n => count_incr n st | None => st end.

Lemma uon_step_pick st e c : uon_step st e c = fold_left uon_op (pick pk_operation e) st.
Proof. destruct e as [n|n]; [destruct n|]; reflexivity. Qed.

Lemma uon_ops_names ops : forall st,
  fold_left uon_op ops st =
  fold_left (fun m n => count_incr n m)
            (flat_map (fun o => match op_node_name o with Some n => [n] | None => [] end) ops) st.
Proof.
  induction ops as [|o r IH]; intro st; [reflexivity|].
  cbn [fold_left flat_map]. rewrite fold_left_app, IH. unfold uon_op.
  destruct (op_node_name o); reflexivity.
Qed.

Lemma uon_run s d :
  run_alone R_UniqueOperationNames s d =
  counts_finish R_UniqueOperationNames
                (fold_left (fun m n => count_incr n m) (named_operation_names d) []).
Proof.
  unfold run_alone. cbn [run_rule]. rewrite visit_fold. cbn [snd plain r_errors].
  rewrite (fold_operations uon_step uon_op s d ctx0 [] uon_step_pick), uon_ops_names. reflexivity.
Qed.

Lemma unique_operation_names_iff : forall s d,
  (run_alone R_UniqueOperationNames s d <> [] <-> violated R_UniqueOperationNames s d = true).
Proof.
  intros s d. rewrite uon_run, counts_finish_dup. cbn [violated]. unfold v_unique_operation_names.
  destruct (nodup_names (named_operation_names d)); cbn [negb]; intuition congruence.
Qed.

(* ================================================================ LoneAnonymousOperation *)
Definition lao_def (count : nat) (x : definition) : list verror :=
  match x with
  | DOp o =>
      match o_kind o with
      | OpSelSet => if Nat.ltb 1 count then [err R_LoneAnonymousOperation []] else []
      | _ => if is_none (o_name o) && Nat.ltb 1 count
             then [err R_LoneAnonymousOperation [o_pos o]] else []
      end
  | DFrag _ => []
  end.

Definition pk_lao (n : node) : list verror :=
  match n with
  | NDocument d => flat_map (lao_def (List.length (operations_of d))) d
  | _ => []
  end.

Lemma lao_stateless : stateless lao_step (fun e _ => pick pk_lao e).
Proof.
  intros st e c. destruct e as [n|n]; [destruct n|]; cbn [lao_step pick pk_lao];
    rewrite ?app_nil_r; reflexivity.
Qed.

Lemma node_pick_nil {X} (pk : node -> list X) :
  (forall n, match n with NDocument _ | NOperation _ | NFragmentDef _ => True | _ => pk n = [] end) ->
  forall x, node_pick pk x = [].
Proof.
  intros H x. unfold node_pick, dirs_pick.
  rewrite (flat_map_all_nil (fun dr => pk (NDirective dr)) (sel_dirs x) (fun dr => H (NDirective dr))).
  destruct x as [p al n args dirs sp sels|p n dirs|p tc dirs sp sels]; cbn [sel_node sel_set_pick].
  - rewrite (H (NField _)), (H (NSelectionSet sp sels)). reflexivity.
  - rewrite (H (NSpread _)). reflexivity.
  - rewrite (H (NInline _)), (H (NSelectionSet sp sels)). reflexivity.
Qed.

Lemma lao_run s d : run_alone R_LoneAnonymousOperation s d = pk_lao (NDocument d).
Proof.
  unfold run_alone. cbn [run_rule]. rewrite (stateless_run s d ctx0 lao_stateless).
  cbn [snd plain r_errors].
  rewrite (flat_map_ctr_events s d ctx0 (pick pk_lao)).
  rewrite pick_document by (intros n Hn; destruct n; (discriminate Hn || reflexivity)).
  rewrite <- (app_nil_r (pk_lao (NDocument d))) at 2. f_equal.
  apply flat_map_all_nil. intros [o|f]; cbn [def_pick]; unfold dirs_pick; cbn [pk_lao app];
    rewrite ?flat_map_nil_fn; cbn [app]; apply flat_map_all_nil; apply node_pick_nil;
    intro n; destruct n; exact I || reflexivity.
Qed.

Lemma lao_def_nonempty count x :
  negb (match lao_def count x with [] => true | _ => false end) =
  match x with DOp o => is_none (op_node_name o) && Nat.leb 2 count | DFrag _ => false end.
Proof.
  destruct x as [o|f]; [|reflexivity]. unfold lao_def, op_node_name.
  change (Nat.ltb 1 count) with (Nat.leb 2 count).
  destruct (o_kind o); cbn [is_none];
    destruct (Nat.leb 2 count); try destruct (is_none (o_name o)); reflexivity.
Qed.

Lemma existsb_ops (q : operation -> bool) (d : document) :
  existsb (fun x => match x with DOp o => q o | DFrag _ => false end) d = existsb q (operations_of d).
Proof.
  induction d as [|x r IH]; [reflexivity|].
  destruct x as [o|f]; cbn [existsb operations_of flat_map app]; fold (operations_of r); rewrite IH;
    reflexivity.
Qed.

Lemma existsb_andb_const {A} (q : A -> bool) (b : bool) (l : list A) :
  existsb (fun x => q x && b) l = existsb q l && b.
Proof.
  induction l as [|x r IH]; [reflexivity|]. cbn [existsb]. rewrite IH.
  destruct (q x), (existsb q r), b; reflexivity.
Qed.

Lemma lone_anonymous_iff : forall s d,
  (run_alone R_LoneAnonymousOperation s d <> [] <-> violated R_LoneAnonymousOperation s d = true).
Proof.
  intros s d. rewrite lao_run. cbn [pk_lao violated]. rewrite flat_map_nonempty_existsb.
  unfold v_lone_anonymous.
  rewrite (existsb_ext_fn _ _ d (lao_def_nonempty (List.length (operations_of d)))).
  rewrite (existsb_ops (fun o => is_none (op_node_name o) && Nat.leb 2 (List.length (operations_of d)))).
  rewrite existsb_andb_const. reflexivity.
Qed.

(* ================================================================ SingleFieldSubscriptions *)
Lemma subscription_type_root s : subscription_type s = root s OpSubscription.
Proof.
  unfold subscription_type, root, root_name, schema_definition.
  destruct (find_schema_def s); reflexivity.
Qed.

Lemma object_type_by_name_spec s n t :
  object_type_by_name s n = Some t -> type_by_name s (td_name t) = Some t /\ td_is_object t = true.
Proof.
  unfold object_type_by_name. destruct (type_by_name s n) as [t'|] eqn:E; [|discriminate].
  destruct t'; try discriminate. intro H. inversion H; subst t. split; [|reflexivity].
  pose proof (type_by_name_name _ _ _ E) as Hn. rewrite Hn. exact E.
Qed.

Lemma root_spec s k t :
  root s k = Some t -> type_by_name s (td_name t) = Some t /\ td_is_object t = true.
Proof.
  unfold root. destruct (root_name s k) as [n|]; [|discriminate]. cbn [opt_bind].
  apply object_type_by_name_spec.
Qed.

(* the errors one subscription operation contributes, in terms of the spec's CollectFields *)
Definition sfs_groups_errs (o : operation) (groups : list (name * list selection)) : list verror :=
  (if Nat.ltb 1 (List.length groups) then [err R_SingleFieldSubscriptions [o_pos o]] else []) ++
  flat_map (fun g : name * list selection =>
              if existsb is_field_named_dunder (snd g)
              then [err R_SingleFieldSubscriptions [o_pos o]] else []) groups.

Definition sfs_op_errs (s : sdocument) (d : document) (o : operation) : list verror :=
  match o_kind o with
  | OpSubscription =>
      match root s OpSubscription with
      | Some t => sfs_groups_errs o (spec_collect s d t (o_sels o))
      | None => []
      end
  | _ => []
  end.

Definition sfs_op (s : sdocument) (d : document) (st : rule_result) (o : operation) : rule_result :=
  mkRes (r_errors st ++ sfs_op_errs s d o) (r_oof st).

Lemma sfs_step_pick s d st e c :
  sfs_step s d st e c = fold_left (fun st o => sfs_step s d st (Enter (NOperation o)) c) (pick pk_operation e) st.
Proof. destruct e as [n|n]; [destruct n|]; reflexivity. Qed.

Lemma sfs_step_op s d st o c :
  sfs_step s d st (Enter (NOperation o)) c = sfs_op s d st o.
Proof.
  unfold sfs_step, sfs_op, sfs_op_errs. rewrite subscription_type_root.
  destruct (o_kind o); try (rewrite app_nil_r; destruct st; reflexivity).
  destruct (root s OpSubscription) as [t|] eqn:Er; [|rewrite app_nil_r; destruct st; reflexivity].
  destruct (root_spec s _ _ Er) as [Hp Hobj].
  rewrite (collect_fields_spec_strong s d t (o_sels o) Hp Hobj). reflexivity.
Qed.

Lemma sfs_fold s d ops : forall st,
  fold_left (sfs_op s d) ops st = mkRes (r_errors st ++ flat_map (sfs_op_errs s d) ops) (r_oof st).
Proof.
  induction ops as [|o r IH]; intro st; cbn [fold_left flat_map].
  - rewrite app_nil_r. destruct st; reflexivity.
  - rewrite IH. unfold sfs_op at 1 2. cbn [r_errors r_oof]. rewrite app_assoc. reflexivity.
Qed.

(* the rule's result, for every schema and document: the errors of the subscription operations
   computed from the spec's CollectFields, and never out of fuel *)
Lemma sfs_run s d :
  snd (run_rule R_SingleFieldSubscriptions s d ctx0) = mkRes (flat_map (sfs_op_errs s d) (operations_of d)) false.
Proof.
  cbn [run_rule]. rewrite visit_fold. cbn [snd].
  rewrite (fold_operations (sfs_step s d) (sfs_op s d) s d ctx0 (mkRes [] false)).
  - rewrite sfs_fold. reflexivity.
  - intros st e c. rewrite sfs_step_pick. apply fold_left_ext_fn. intros a o. apply sfs_step_op.
Qed.

Lemma dunder_eq f : is_field_named_dunder f = is_introspection_field f.
Proof. reflexivity. Qed.

Lemma sfs_groups_errs_nonempty o groups :
  negb (match sfs_groups_errs o groups with [] => true | _ => false end) =
  Nat.leb 2 (List.length groups) ||
  existsb (fun g : name * list selection => existsb is_introspection_field (snd g)) groups.
Proof.
  unfold sfs_groups_errs. change (Nat.ltb 1 (List.length groups)) with (Nat.leb 2 (List.length groups)).
  destruct (Nat.leb 2 (List.length groups)); [reflexivity|]. cbn [app orb].
  induction groups as [|g r IH]; [reflexivity|]. cbn [flat_map existsb].
  change (existsb is_field_named_dunder (snd g)) with (existsb is_introspection_field (snd g)).
  destruct (existsb is_introspection_field (snd g)); [reflexivity|]. cbn [app orb]. exact IH.
Qed.

Lemma single_field_subscriptions_iff_strong s d :
  (run_alone R_SingleFieldSubscriptions s d <> [] <-> violated R_SingleFieldSubscriptions s d = true).
Proof.
  unfold run_alone. rewrite sfs_run. cbn [r_errors violated]. rewrite flat_map_nonempty_existsb.
  unfold v_single_field_subscriptions.
  rewrite (existsb_ext_fn _ (fun o =>
             match o_kind o with
             | OpSubscription =>
                 match root s OpSubscription with
                 | Some t =>
                     let groups := spec_collect s d t (o_sels o) in
                     Nat.leb 2 (List.length groups) ||
                     existsb (fun g : name * list selection => existsb is_introspection_field (snd g)) groups
                 | None => false
                 end
             | _ => false
             end) (operations_of d)); [reflexivity|].
  intro o. unfold sfs_op_errs. destruct (o_kind o); try reflexivity.
  destruct (root s OpSubscription); [|reflexivity]. apply sfs_groups_errs_nonempty.
Qed.

Lemma single_field_subscriptions_iff : forall s d, wf_schema s = true -> distinct_fragments d = true ->
  (run_alone R_SingleFieldSubscriptions s d <> [] <-> violated R_SingleFieldSubscriptions s d = true).
Proof. intros s d _ _. apply single_field_subscriptions_iff_strong. Qed.

(* C05_frag_complete.v — OverlappingFieldsCanBeMerged with named fragment spreads, completeness of
   the memoised search: a reference description (no memo tables) of what a conflict-free run has
   compared, and the proof that a run of [mrun] that reports nothing, started from memo tables whose
   entries are all justified, has compared all of it and leaves justified memo tables. *)
From Coq Require Import Permutation.
From GT Require Import Visitor Validate Merge.
From GTS Require Import SpecLin Annot WfSchema SpecCollect SpecRules SpecMerge SpecValid.
From GTP Require Import VisitorFacts TraceFacts RuleFacts EventFacts C06_graph_proofs C06_proofs C05_proofs
     C05_frag_graph C05_frag_spec C05_frag_sound C05_frag_annot C05_frag_rank.

(* ================================================================== the pair set *)
Lemma pair_eqb_eq x y : pair_eqb x y = true <-> x = y.
Proof.
  unfold pair_eqb. destruct x as [a b], y as [a' b']. cbn [fst snd]. rewrite andb_true_iff, !c5_name_eqb_eq.
  split; [intros [-> ->]; reflexivity|intro H; inversion H; split; reflexivity].
Qed.

Lemma as_get_as_set_pair {V} k k' (v : V) m :
  as_get pair_eqb k (as_set pair_eqb k' v m) = if pair_eqb k k' then Some v else as_get pair_eqb k m.
Proof.
  induction m as [|[k2 v2] r IH]; cbn [as_set as_get].
  - reflexivity.
  - destruct (pair_eqb k' k2) eqn:E1; cbn [as_get].
    + apply pair_eqb_eq in E1. subst k2. destruct (pair_eqb k k'); reflexivity.
    + rewrite IH. destruct (pair_eqb k k2) eqn:E2; [|reflexivity].
      apply pair_eqb_eq in E2. subst k2. destruct (pair_eqb k k') eqn:E3; [|reflexivity].
      apply pair_eqb_eq in E3. subst k'. rewrite (proj2 (pair_eqb_eq k k) eq_refl) in E1. discriminate.
Qed.

Lemma ps_insert_get cmp a b m x y :
  as_get pair_eqb (x, y) (ps_insert cmp a b m) =
  if pair_eqb (x, y) (b, a) then Some m else if pair_eqb (x, y) (a, b) then Some m else as_get pair_eqb (x, y) cmp.
Proof. unfold ps_insert. rewrite !as_get_as_set_pair. reflexivity. Qed.

Lemma ps_contains_true cmp a b m : ps_contains cmp a b m = true ->
  exists flag, as_get pair_eqb (a, b) cmp = Some flag /\ (m = true \/ flag = false).
Proof.
  unfold ps_contains. destruct (as_get pair_eqb (a, b) cmp) as [flag|]; [|discriminate].
  intro H. exists flag. split; [reflexivity|]. destruct m; [left; reflexivity|right].
  destruct flag; [discriminate|reflexivity].
Qed.

(* ================================================================== what a silent run has compared *)
Section Complete.
  Variables (s : sdocument) (d : document).

  (* g1 and g2 lie below a common fragment c that is itself below both a and b: their fields are
     compared when the selection set of c's definition is visited *)
  Definition share (a b g1 g2 : name) : Prop :=
    exists c, lreach d a c /\ lreach d b c /\ lreach d c g1 /\ lreach d c g2.
  Definition Rle (R : bool -> cfield -> cfield -> Prop) (m : bool) (u v : cfield) : Prop := R m u v \/ R false u v.
  Definition BFcovG (R : bool -> cfield -> cfield -> Prop) (m : bool) (a b : name) : Prop :=
    forall g1 g2 u v, lreach d a g1 -> lreach d b g2 -> In u (fdirect s d g1) -> In v (fdirect s d g2) ->
                      cf_key u = cf_key v -> share a b g1 g2 \/ Rle R m u v \/ Rle R m v u.
  Definition SubCovG (R : bool -> cfield -> cfield -> Prop) (m : bool)
             (P1 : option type_def) (s1 : list selection) (P2 : option type_def) (s2 : list selection) : Prop :=
    (forall u v, In u (cfl s P1 s1) -> In v (cfl s P2 s2) -> cf_key u = cf_key v -> R m u v) /\
    (forall u g v, In u (cfl s P1 s1) -> lreach_from d (lsp s2) g -> In v (fdirect s d g) ->
                   cf_key u = cf_key v -> R m u v) /\
    (forall v g u, In v (cfl s P2 s2) -> lreach_from d (lsp s1) g -> In u (fdirect s d g) ->
                   cf_key v = cf_key u -> R m v u) /\
    (forall a b, In a (lsp s1) -> In b (lsp s2) -> BFcovG R m a b).

  Inductive CFok : bool -> cfield -> cfield -> Prop :=
  | CFok_i pm x y :
      level_ok s pm x y = true ->
      (is_nil (sel_sels (cf_field x)) = false -> is_nil (sel_sels (cf_field y)) = false ->
       SubCovG CFok (pm || parents_exclusive x y) (sub_parent s x) (sel_sels (cf_field x))
               (sub_parent s y) (sel_sels (cf_field y))) ->
      CFok pm x y.

  Hypothesis Hacyc : forall u, ~ cyc d u.
  Hypothesis Hargs : forall y, In y (doc_selections d) -> C05_merge_proofs.is_field y = true ->
                               nodup_names (map fst (sel_args y)) = true.
  Hypothesis Hpos : NoDup (map sel_pos (F0 d)).
  Hypothesis Hknown : inline_conditions_known s d = true.

  Notation r := (rk d).
  Notation W := (Wd d).
  Definition BFcov := BFcovG CFok.
  Definition SubCov' := SubCovG CFok.
  Definition SubCov (m : bool) (x y : cfield) : Prop :=
    SubCov' m (sub_parent s x) (sel_sels (cf_field x)) (sub_parent s y) (sel_sels (cf_field y)).
  Definition FFcov (fm : fmap) (m : bool) (f : name) : Prop :=
    forall a g v, In a (fm_fields fm) -> lreach d f g -> In v (fdirect s d g) -> cf_key (cf_of a) = cf_key v ->
                  CFok m (cf_of a) v.
  Definition LocalOK (P : option type_def) (sels : list selection) : Prop :=
    (forall x y, In (x, y) (pairs_within (cfl s P sels)) -> cf_key x = cf_key y -> CFok false x y) /\
    (forall x g v, In x (cfl s P sels) -> lreach_from d (lsp sels) g -> In v (fdirect s d g) ->
                   cf_key x = cf_key v -> CFok false x v) /\
    (forall a b, In a (lsp sels) -> In b (lsp sels) -> BFcov false a b).

  Definition Cov (c : mcall) : Prop :=
    match c with
    | CFindConflict a b pm => CFok pm (cf_of a) (cf_of b)
    | CBetweenSub m pn1 s1 pn2 s2 =>
        SubCov' m (opt_bind pn1 (type_by_name s)) s1 (opt_bind pn2 (type_by_name s)) s2
    | CFieldsAndFragment fm f m => FFcov fm m f
    | CBetweenFragments a b m => BFcov m a b
    | CBetween m fm1 fm2 =>
        forall a b, In a (fm_fields fm1) -> In b (fm_fields fm2) -> ad_key a = ad_key b -> CFok m (cf_of a) (cf_of b)
    | CFragmentLoop fm frs m => forall f, In f frs -> FFcov fm m f
    | CWithin fm => forall k g a b, In (k, g) fm -> In (a, b) (pairs_within g) -> CFok false (cf_of a) (cf_of b)
    | CWithinSelectionSet P sels => LocalOK P sels
    end.

  Definition wfU (a : astdef) : Prop := ad_of (cf_of a) = a /\ In (cf_of a) (FE s d).
  Definition fmU (fm : fmap) : Prop := exists L, fm_inv fm L /\ forall a, In a L -> wfU a.
  Definition legitU (c : mcall) : Prop :=
    match c with
    | CFindConflict a b _ => wfU a /\ wfU b
    | CBetweenSub _ pn1 s1 pn2 s2 =>
        In (opt_bind pn1 (type_by_name s), s1) (EE s d) /\ In (opt_bind pn2 (type_by_name s), s2) (EE s d)
    | CFieldsAndFragment fm _ _ => fmU fm
    | CBetweenFragments _ _ _ => True
    | CBetween _ fm1 fm2 => fmU fm1 /\ fmU fm2
    | CFragmentLoop fm _ _ => fmU fm
    | CWithin fm => fmU fm
    | CWithinSelectionSet P sels => In (P, sels) (EE s d)
    end.

  (* ---------------------------------------------------------------- the memo tables *)
  Definition InvC (k : nat) (cmp : pairset) : Prop :=
    forall a b flag, as_get pair_eqb (a, b) cmp = Some flag -> (r a + r b) * W < k -> BFcov flag a b.
  Definition FrC (cmp cmp' : pairset) : Prop :=
    forall a b flag, as_get pair_eqb (a, b) cmp' = Some flag ->
                     as_get pair_eqb (a, b) cmp = Some flag \/ BFcov flag a b.
  Definition matches (e : pos * pos * bool) (x y : cfield) : Prop :=
    In x (FE s d) /\ In y (FE s d) /\ sel_pos (cf_field x) = fst (fst e) /\ sel_pos (cf_field y) = snd (fst e) /\
    is_nil (sel_sels (cf_field x)) = false /\ is_nil (sel_sels (cf_field y)) = false.
  Definition ValidB (e : pos * pos * bool) : Prop := forall x y, matches e x y -> SubCov (snd e) x y.
  Definition InvB (k : nat) (bg : list (pos * pos * bool)) : Prop :=
    forall e, In e bg -> forall x y, matches e x y -> hf d (cf_field x) + hf d (cf_field y) < k -> SubCov (snd e) x y.
  Definition FrB (bg bg' : list (pos * pos * bool)) : Prop := forall e, In e bg' -> In e bg \/ ValidB e.
  Definition InvV (fm : fmap) (m : bool) (k : nat) (V : list name) : Prop :=
    forall g, In g V -> r g < k -> FFcov fm m g.

  Definition Inv (k : nat) (st : mstate) : Prop := InvC k (ms_compared st) /\ InvB k (ms_being st).
  Definition Fr (st st' : mstate) : Prop :=
    FrC (ms_compared st) (ms_compared st') /\ FrB (ms_being st) (ms_being st').

  Lemma Fr_refl st : Fr st st.
  Proof. split; [intros a b flag H; left; exact H|intros e H; left; exact H]. Qed.

  Lemma Fr_trans st1 st2 st3 : Fr st1 st2 -> Fr st2 st3 -> Fr st1 st3.
  Proof.
    intros [C1 B1] [C2 B2]. split.
    - intros a b flag H. destruct (C2 a b flag H) as [H'|H']; [apply C1, H'|right; exact H'].
    - intros e H. destruct (B2 e H) as [H'|H']; [apply B1, H'|right; exact H'].
  Qed.

  Lemma Inv_mono k k' st : k' <= k -> Inv k st -> Inv k' st.
  Proof.
    intros Hle [HC HB]. split.
    - intros a b flag H Hk. apply (HC a b flag H). lia.
    - intros e He x y Hm Hk. apply (HB e He x y Hm). lia.
  Qed.

  Lemma Inv_Fr k st st' : Inv k st -> Fr st st' -> Inv k st'.
  Proof.
    intros [HC HB] [FC FB]. split.
    - intros a b flag H Hk. destruct (FC a b flag H) as [H'|H']; [apply (HC a b flag H' Hk)|exact H'].
    - intros e He x y Hm Hk. destruct (FB e He) as [H'|H']; [apply (HB e H' x y Hm Hk)|apply (H' x y Hm)].
  Qed.

  Definition VisPre (c : mcall) (st : mstate) : Prop :=
    match c with CFieldsAndFragment fm f m => InvV fm m (r f) (ms_visited st) | _ => True end.
  Definition VisPost (c : mcall) (st st' : mstate) : Prop :=
    match c with
    | CFieldsAndFragment fm f m => forall g, In g (ms_visited st') -> In g (ms_visited st) \/ FFcov fm m g
    | _ => ms_visited st' = ms_visited st
    end.

  (* ---------------------------------------------------------------- generic facts *)
  Lemma share_sym a b g1 g2 : share a b g1 g2 -> share b a g2 g1.
  Proof. intros [c [H1 [H2 [H3 H4]]]]. exists c. repeat split; assumption. Qed.

  Lemma BFcov_sym m a b : BFcov m a b -> BFcov m b a.
  Proof.
    intros H g1 g2 u v H1 H2 Hu Hv Hk. destruct (H g2 g1 v u H2 H1 Hv Hu (eq_sym Hk)) as [Hs|[Hr|Hr]].
    - left. apply share_sym, Hs.
    - right. right. exact Hr.
    - right. left. exact Hr.
  Qed.

  Lemma Rle_weaken m u v : Rle CFok false u v -> Rle CFok m u v.
  Proof. intros [H|H]; right; exact H. Qed.

  Lemma BFcov_weaken m a b : BFcov false a b -> BFcov m a b.
  Proof.
    intros H g1 g2 u v H1 H2 Hu Hv Hk. destruct (H g1 g2 u v H1 H2 Hu Hv Hk) as [Hs|[Hr|Hr]].
    - left. exact Hs.
    - right. left. apply Rle_weaken, Hr.
    - right. right. apply Rle_weaken, Hr.
  Qed.

  Lemma BFcov_refl m a : BFcov m a a.
  Proof. intros g1 g2 u v H1 H2 _ _ _. left. exists a. repeat split; try assumption; constructor. Qed.

  Lemma lreach_inv a g : lreach d a g -> g = a \/ exists b, ledge d a b /\ lreach d b g.
  Proof. intro H. inversion H; subst; [left; reflexivity|right; eexists; split; eassumption]. Qed.

  Lemma seq_inv (run : mcall -> mstate -> mres) (J : mstate -> Prop) (Q : mcall -> Prop) l :
    (forall c, In c l -> forall st st', J st -> run c st = Some (st', []) -> Q c /\ J st') ->
    forall st st', seq_calls run l st = Some (st', []) -> J st -> (forall c, In c l -> Q c) /\ J st'.
  Proof.
    induction l as [|c l' IH]; intros Hstep st st' Hrun HJ; cbn [seq_calls] in Hrun.
    - inversion Hrun; subst. split; [intros c []|exact HJ].
    - destruct (run c st) as [[st1 cs1]|] eqn:E1; [|discriminate]. fold (seq_calls run l' st1) in Hrun.
      destruct (seq_calls run l' st1) as [[st2 cs2]|] eqn:E2; [|discriminate].
      inversion Hrun as [[Hst Hcs]]. apply app_eq_nil in Hcs. destruct Hcs as [-> ->]. subst st2.
      destruct (Hstep c (or_introl eq_refl) st st1 HJ E1) as [Qc J1].
      destruct (IH (fun c' Hc' => Hstep c' (or_intror Hc')) st1 st' E2 J1) as [Qs J2].
      split; [|exact J2]. intros c' [<-|Hc']; [exact Qc|apply Qs, Hc'].
  Qed.

  Lemma ff_loop_prefix (run : mcall -> mstate -> mres) fm m l : forall st acc st' cs,
    ff_loop run fm m l st acc = Some (st', cs) -> exists tl, cs = acc ++ tl.
  Proof.
    induction l as [|f l' IH]; intros st acc st' cs Hrun; cbn [ff_loop] in Hrun.
    - inversion Hrun; subst. exists []. symmetry. apply app_nil_r.
    - fold (ff_loop run fm m) in Hrun. destruct (mem_name f (ms_visited st)).
      + apply (IH _ _ _ _ Hrun).
      + destruct (run (CFieldsAndFragment fm f m) (mkMS (ms_compared st) (ms_visited st ++ [f]) (ms_being st)))
          as [[st2 cs2]|]; [|discriminate].
        destruct (IH _ _ _ _ Hrun) as [tl ->]. exists (cs2 ++ tl). rewrite app_assoc. reflexivity.
  Qed.

  Lemma ff_loop_inv (run : mcall -> mstate -> mres) fm m (J : mstate -> Prop) (Q : name -> Prop) l :
    (forall f st, In f l -> J st -> mem_name f (ms_visited st) = true -> Q f) ->
    (forall f st st', In f l -> J st -> mem_name f (ms_visited st) = false ->
       run (CFieldsAndFragment fm f m) (mkMS (ms_compared st) (ms_visited st ++ [f]) (ms_being st)) = Some (st', []) ->
       Q f /\ J st') ->
    forall st acc st', ff_loop run fm m l st acc = Some (st', []) -> J st ->
      acc = [] /\ (forall f, In f l -> Q f) /\ J st'.
  Proof.
    induction l as [|f l' IH]; intros Hskip Hcall st acc st' Hrun HJ; cbn [ff_loop] in Hrun.
    - inversion Hrun; subst. split; [reflexivity|]. split; [intros f []|exact HJ].
    - fold (ff_loop run fm m) in Hrun. destruct (mem_name f (ms_visited st)) eqn:Em.
      + destruct (IH (fun f0 st0 H0 => Hskip f0 st0 (or_intror H0)) (fun f0 st0 st0' H0 => Hcall f0 st0 st0' (or_intror H0))
                     st acc st' Hrun HJ) as [Ha [Hq HJ']].
        split; [exact Ha|]. split; [|exact HJ']. intros f0 [<-|H0]; [|apply Hq, H0].
        apply (Hskip f st (or_introl eq_refl) HJ Em).
      + destruct (run (CFieldsAndFragment fm f m) (mkMS (ms_compared st) (ms_visited st ++ [f]) (ms_being st)))
          as [[st2 cs2]|] eqn:E; [|discriminate].
        destruct (ff_loop_prefix _ _ _ _ _ _ _ _ Hrun) as [tl Htl]. symmetry in Htl.
        apply app_eq_nil in Htl. destruct Htl as [Htl _]. apply app_eq_nil in Htl. destruct Htl as [-> ->].
        destruct (Hcall f st st2 (or_introl eq_refl) HJ Em E) as [Qf J2].
        destruct (IH (fun f0 st0 H0 => Hskip f0 st0 (or_intror H0)) (fun f0 st0 st0' H0 => Hcall f0 st0 st0' (or_intror H0))
                     st2 [] st' Hrun J2) as [_ [Hq HJ']].
        split; [reflexivity|]. split; [|exact HJ']. intros f0 [<-|H0]; [exact Qf|apply Hq, H0].
  Qed.

  (* ---------------------------------------------------------------- field maps over the document's fields *)
  Lemma fm_inv_fields fm L a : fm_inv fm L -> (In a (fm_fields fm) <-> In a L).
  Proof.
    intros I1. split.
    - intro H. apply in_flat_map in H. destruct H as [[k g] [Hkg Ha]]. cbn [snd] in Ha.
      rewrite (fi_groups _ _ I1 k g Hkg) in Ha. apply filter_In in Ha. apply Ha.
    - intro H. pose proof (fi_keys _ _ I1 a H) as Hk. apply in_map_iff in Hk. destruct Hk as [[k g] [Ek Hkg]].
      cbn [fst] in Ek. subst k. apply in_flat_map. exists (ad_key a, g). split; [exact Hkg|]. cbn [snd].
      rewrite (fi_groups _ _ I1 _ _ Hkg). apply filter_In. split; [exact H|]. unfold key_is. apply c5_name_eqb_refl.
  Qed.

  Lemma fmU_of C : (forall c, In c C -> In c (FE s d)) -> fmU (fm_of (map ad_of C) []).
  Proof.
    intro H. exists (map ad_of C). split; [apply fm_of_inv|]. intros a Ha. apply in_map_iff in Ha.
    destruct Ha as [c [<- Hc]]. split; rewrite cf_of_ad_of; [reflexivity|apply H, Hc].
  Qed.

  Lemma fmU_cfl P sels : In (P, sels) (EE s d) -> fmU (fm_of (map ad_of (cfl s P sels)) []).
  Proof. intro H. apply fmU_of. apply (cfl_FE s d P sels Hknown H). Qed.

  Lemma fmU_wf fm a : fmU fm -> In a (fm_fields fm) -> wfU a.
  Proof. intros [L [I1 HL]] Ha. apply HL. apply (fm_inv_fields fm L a I1), Ha. Qed.

  Lemma fmU_group fm k g a : fmU fm -> In (k, g) fm -> In a g -> ad_key a = k /\ In a (fm_fields fm).
  Proof.
    intros [L [I1 HL]] Hkg Ha. split.
    - rewrite (fi_groups _ _ I1 k g Hkg) in Ha. apply filter_In in Ha. destruct Ha as [_ Ha].
      unfold key_is in Ha. apply c5_name_eqb_eq in Ha. exact Ha.
    - apply in_flat_map. exists (k, g). split; assumption.
  Qed.

  Lemma fmU_between m fm1 fm2 a b : fmU fm1 -> fmU fm2 ->
    In a (fm_fields fm1) -> In b (fm_fields fm2) -> ad_key a = ad_key b ->
    In (CFindConflict a b m) (between_calls m fm1 fm2).
  Proof.
    intros [L1 [I1 _]] [L2 [I2 _]] Ha Hb Hk.
    apply in_flat_map in Ha. destruct Ha as [[k g] [Hkg Ha]]. cbn [snd] in Ha.
    apply in_flat_map in Hb. destruct Hb as [[k2 g2] [Hkg2 Hb]]. cbn [snd] in Hb.
    assert (Ek : ad_key a = k).
    { rewrite (fi_groups _ _ I1 k g Hkg) in Ha. apply filter_In in Ha. destruct Ha as [_ Ha].
      unfold key_is in Ha. apply c5_name_eqb_eq in Ha. exact Ha. }
    assert (Ek2 : ad_key b = k2).
    { rewrite (fi_groups _ _ I2 k2 g2 Hkg2) in Hb. apply filter_In in Hb. destruct Hb as [_ Hb].
      unfold key_is in Hb. apply c5_name_eqb_eq in Hb. exact Hb. }
    assert (E2 : k2 = k) by congruence. rewrite E2 in Hkg2.
    unfold between_calls. apply in_flat_map. exists (k, g). split; [exact Hkg|]. cbn [fst snd].
    rewrite (al_get_In_nodup _ _ _ (fi_nodup _ _ I2) Hkg2). apply in_flat_map. exists a. split; [exact Ha|].
    apply in_map_iff. exists b. split; [reflexivity|exact Hb].
  Qed.

  Lemma wfU_wfad a : wfU a -> wfad d a.
  Proof.
    intros [E Hin]. split; [exact E|]. rewrite <- (FE_fields s d). apply in_map_iff. exists (cf_of a).
    split; [reflexivity|exact Hin].
  Qed.

  Lemma FE_in_doc x : In x (FE s d) -> In (cf_field x) (doc_selections d).
  Proof.
    intro H. assert (Hf : In (cf_field x) (F0 d)) by (rewrite <- (FE_fields s d); apply in_map, H).
    apply filter_In in Hf. apply Hf.
  Qed.

  (* ---------------------------------------------------------------- measures *)
  Lemma hfm_cfl P sels : hfm d (fm_of (map ad_of (cfl s P sels)) []) <= hfl d sels.
  Proof.
    apply hfm_le. intros a Ha. apply fm_fields_of in Ha. destruct Ha as [c [Hc ->]]. cbn [ad_of ad_field].
    apply hf_below. apply (cfl_In s P sels c Hc).
  Qed.

  Lemma hfm_frag fr P : In fr (fragments_of d) ->
    hfm d (fm_of (map ad_of (cfl s P (fr_sels fr))) []) + W <= r (fr_name fr) * W + Mx d.
  Proof.
    intro Hf. pose proof (rk_defined d (fr_name fr) ltac:(unfold frag_names; apply in_map, Hf)) as H1.
    assert (H2 : W <= r (fr_name fr) * W) by nia.
    assert (H3 : hfm d (fm_of (map ad_of (cfl s P (fr_sels fr))) []) <= r (fr_name fr) * W + Mx d - W).
    { apply hfm_le. intros a Ha. apply fm_fields_of in Ha. destruct Ha as [c [Hc ->]]. cbn [ad_of ad_field].
      pose proof (hf_in_frag d Hacyc fr (cf_field c) Hf (proj1 (cfl_In s P _ c Hc))). lia. }
    lia.
  Qed.

  Lemma Mx_lt_W : Mx d < W.
  Proof. unfold Wd. lia. Qed.

  Lemma maxr_frs sels : maxr d (frs_of sels) * W <= hfl d sels.
  Proof.
    assert (H : maxr d (frs_of sels) <= frk d sels).
    { unfold maxr. apply list_max_le_all. intros k Hk. apply in_map_iff in Hk. destruct Hk as [f [<- Hf]].
      apply frk_In, lsp_spreads, frs_of_In, Hf. }
    unfold hfl. assert (maxr d (frs_of sels) * W <= frk d sels * W) by (apply Nat.mul_le_mono_r, H). lia.
  Qed.

  Lemma sub_parent_of a : ad_of (cf_of a) = a -> opt_bind (sub_pn a) (type_by_name s) = sub_parent s (cf_of a).
  Proof. intro E. rewrite <- E at 1. rewrite sub_parent_eq. reflexivity. Qed.

  (* ---------------------------------------------------------------- one level of the interpreter *)
  Section Step.
    Variable fuel : nat.
    Hypothesis IH : forall c st st', mrun fuel s d c st = Some (st', []) -> legitU c ->
      Inv (S (mu d c)) st -> VisPre c st -> Cov c /\ Fr st st' /\ VisPost c st st'.

    Definition notFF (c : mcall) : Prop := match c with CFieldsAndFragment _ _ _ => False | _ => True end.
    Definition JJ (K : nat) (st st0 : mstate) : Prop :=
      Inv K st0 /\ Fr st st0 /\ ms_visited st0 = ms_visited st.

    Lemma IH_J K st c st0 st1 : notFF c -> legitU c -> S (mu d c) <= K -> JJ K st st0 ->
      mrun fuel s d c st0 = Some (st1, []) -> Cov c /\ JJ K st st1.
    Proof.
      intros Hn Hl Hk [HI [HF HV]] Hrun.
      destruct (IH c st0 st1 Hrun Hl (Inv_mono _ _ _ Hk HI)) as [HC [HF1 HV1]].
      { destruct c; try exact I. destruct Hn. }
      split; [exact HC|]. split; [apply (Inv_Fr _ _ _ HI HF1)|]. split; [apply (Fr_trans _ _ _ HF HF1)|].
      destruct c; cbn [VisPost] in HV1; try (rewrite HV1; exact HV). destruct Hn.
    Qed.

    Lemma seq_J K st l st' : (forall c, In c l -> notFF c /\ legitU c /\ S (mu d c) <= K) -> Inv K st ->
      seq_calls (mrun fuel s d) l st = Some (st', []) -> (forall c, In c l -> Cov c) /\ JJ K st st'.
    Proof.
      intros Hl HI Hrun. apply (seq_inv (mrun fuel s d) (JJ K st) Cov l) with (st := st); [|exact Hrun|].
      - intros c Hc st0 st1 HJ Hr. destruct (Hl c Hc) as [H1 [H2 H3]]. apply (IH_J K st c st0 st1 H1 H2 H3 HJ Hr).
      - split; [exact HI|]. split; [apply Fr_refl|reflexivity].
    Qed.

    Lemma step_between m fm1 fm2 st st' :
      mrun (S fuel) s d (CBetween m fm1 fm2) st = Some (st', []) -> fmU fm1 -> fmU fm2 ->
      Inv (S (hfm d fm1 + hfm d fm2)) st ->
      Cov (CBetween m fm1 fm2) /\ Fr st st' /\ ms_visited st' = ms_visited st.
    Proof.
      intros Hrun O1 O2 HI. rewrite mrun_between in Hrun.
      assert (Hl : forall c, In c (between_calls m fm1 fm2) ->
                             notFF c /\ legitU c /\ S (mu d c) <= S (hfm d fm1 + hfm d fm2)).
      { intros c Hc. destruct (in_between_calls _ _ _ _ Hc) as [k [g [g2 [a [b [Hkg [Eg [Ha [Hb ->]]]]]]]]].
        destruct (fmU_group fm1 k g a O1 Hkg Ha) as [_ Fa].
        destruct (fmU_group fm2 k g2 b O2 (al_get_Some_In _ _ _ Eg) Hb) as [_ Fb].
        split; [exact I|]. split; [split; [apply (fmU_wf fm1 a O1 Fa)|apply (fmU_wf fm2 b O2 Fb)]|].
        cbn [mu]. pose proof (hfm_In d fm1 a Fa). pose proof (hfm_In d fm2 b Fb). lia. }
      destruct (seq_J _ st _ st' Hl HI Hrun) as [HC [_ [HF HV]]].
      split; [|split; assumption]. intros a b Ha Hb Hk. apply (HC (CFindConflict a b m)).
      apply fmU_between; assumption.
    Qed.

    Lemma step_within fm st st' :
      mrun (S fuel) s d (CWithin fm) st = Some (st', []) -> fmU fm -> Inv (S (hfm d fm + hfm d fm)) st ->
      Cov (CWithin fm) /\ Fr st st' /\ ms_visited st' = ms_visited st.
    Proof.
      intros Hrun O1 HI. rewrite mrun_within in Hrun.
      assert (Hl : forall c, In c (within_calls fm) ->
                             notFF c /\ legitU c /\ S (mu d c) <= S (hfm d fm + hfm d fm)).
      { intros c Hc. destruct (in_within_calls _ _ Hc) as [k [g [a [b [Hkg [Ha [Hb ->]]]]]]].
        destruct (fmU_group fm k g a O1 Hkg Ha) as [_ Fa]. destruct (fmU_group fm k g b O1 Hkg Hb) as [_ Fb].
        split; [exact I|]. split; [split; [apply (fmU_wf fm a O1 Fa)|apply (fmU_wf fm b O1 Fb)]|].
        cbn [mu]. pose proof (hfm_In d fm a Fa). pose proof (hfm_In d fm b Fb). lia. }
      destruct (seq_J _ st _ st' Hl HI Hrun) as [HC [_ [HF HV]]].
      split; [|split; assumption]. intros k g a b Hkg Hab. apply (HC (CFindConflict a b false)).
        unfold within_calls. apply in_flat_map. exists (k, g). split; [exact Hkg|]. cbn [snd].
        apply in_map_iff. exists (a, b). split; [reflexivity|exact Hab].
    Qed.

    Lemma find_mutex_cf pm a b : ad_of (cf_of a) = a -> ad_of (cf_of b) = b ->
      find_mutex pm a b = pm || parents_exclusive (cf_of a) (cf_of b).
    Proof. intros Ea Eb. rewrite <- Ea, <- Eb at 1. rewrite find_mutex_spec. reflexivity. Qed.

    Lemma step_find a b pm st st' :
      mrun (S fuel) s d (CFindConflict a b pm) st = Some (st', []) -> wfU a -> wfU b ->
      Inv (S (hf d (ad_field a) + hf d (ad_field b))) st ->
      CFok pm (cf_of a) (cf_of b) /\ Fr st st' /\ ms_visited st' = ms_visited st.
    Proof.
      intros Hrun Wa Wb HI. rewrite mrun_find in Hrun. cbv zeta in Hrun.
      pose proof (simple_conflict_level s d Hargs pm a b (wfU_wfad a Wa) (wfU_wfad b Wb)) as Hsc.
      unfold simple_conflict in Hsc. destruct Wa as [Ea Ua]. destruct Wb as [Eb Ub].
      pose proof (find_mutex_cf pm a b Ea Eb) as Hmx.
      set (mutex := find_mutex pm a b) in *. set (x := cf_of a) in *. set (y := cf_of b) in *.
      destruct (negb mutex && negb (name_eqb (sel_name (ad_field a)) (sel_name (ad_field b)))) eqn:E1; [discriminate|].
      destruct (negb mutex && negb (is_same_arguments (sel_args (ad_field a)) (sel_args (ad_field b)))) eqn:E2; [discriminate|].
      destruct (type_conf s a b) eqn:E3; [discriminate|].
      cbn [orb] in Hsc. assert (Hlv : level_ok s pm x y = true) by (apply negb_false_iff; symmetry; exact Hsc).
      destruct (negb (is_nil (sel_sels (ad_field a))) && negb (is_nil (sel_sels (ad_field b)))) eqn:E4.
      2:{ inversion Hrun; subst st'. split; [|split; [apply Fr_refl|reflexivity]].
          constructor; [exact Hlv|]. intros N1 N2. exfalso. unfold x, y in N1, N2. cbn [cf_of cf_field] in N1, N2.
          rewrite N1, N2 in E4. discriminate. }
      apply andb_prop in E4. destruct E4 as [N1 N2]. apply negb_true_iff in N1. apply negb_true_iff in N2.
      destruct (being_hit st (sel_pos (ad_field a)) (sel_pos (ad_field b)) mutex) eqn:Eh.
      - inversion Hrun; subst st'. split; [|split; [apply Fr_refl|reflexivity]].
        constructor; [exact Hlv|]. intros _ _.
        unfold being_hit in Eh. apply existsb_exists in Eh. destruct Eh as [pq [Hpq Hc]].
        apply andb_prop in Hc. destruct Hc as [Hc Hc3]. apply andb_prop in Hc. destruct Hc as [Hc1 Hc2].
        apply pos_eqb_eq in Hc1. apply pos_eqb_eq in Hc2. apply eqb_prop in Hc3.
        destruct HI as [_ HB].
        assert (Hm : matches pq x y).
        { split; [exact Ua|]. split; [exact Ub|]. split; [symmetry; exact Hc1|]. split; [symmetry; exact Hc2|].
          split; [exact N1|exact N2]. }
        specialize (HB pq Hpq x y Hm ltac:(unfold x, y; cbn [cf_of cf_field]; lia)).
        rewrite Hc3, Hmx in HB. exact HB.
      - set (st1 := mkMS (ms_compared st) (ms_visited st)
                         (ms_being st ++ [(sel_pos (ad_field a), sel_pos (ad_field b), mutex)])) in *.
        set (c' := CBetweenSub mutex (sub_pn a) (sel_sels (ad_field a)) (sub_pn b) (sel_sels (ad_field b))) in *.
        destruct (mrun fuel s d c' st1) as [[st2 cs]|] eqn:Er; [|discriminate].
        destruct cs as [|c0 cs]; [|cbn [is_nil] in Hrun; discriminate]. cbn [is_nil] in Hrun.
        inversion Hrun; subst st'.
        assert (Hmu : mu d c' < hf d (ad_field a) + hf d (ad_field b)).
        { unfold c'. cbn [mu]. pose proof (hfl_sub d (ad_field a)). pose proof (hfl_sub d (ad_field b)). lia. }
        assert (Hnew : forall x' y', matches (sel_pos (ad_field a), sel_pos (ad_field b), mutex) x' y' -> x' = x /\ y' = y).
        { intros x' y' [Hx' [Hy' [P1 [P2 _]]]]. cbn [fst snd] in P1, P2. split.
          - apply (FE_unique s d x' x Hpos Hx' Ua). exact P1.
          - apply (FE_unique s d y' y Hpos Hy' Ub). exact P2. }
        destruct (IH c' st1 st2 Er) as [HC [HF HV]].
        + unfold c'. cbn [legitU]. rewrite (sub_parent_of a Ea), (sub_parent_of b Eb).
          split; [apply (FE_sub s d x Ua)|apply (FE_sub s d y Ub)].
        + destruct HI as [HCm HB]. split.
          * intros u v flag H Hk. apply (HCm u v flag H). lia.
          * intros e He x' y' Hm Hk. unfold st1 in He. cbn [ms_being] in He. apply in_app_or in He.
            destruct He as [He|[<-|[]]].
            -- apply (HB e He x' y' Hm). lia.
            -- destruct (Hnew x' y' Hm) as [-> ->]. unfold x, y in Hk. cbn [cf_of cf_field] in Hk. lia.
        + exact I.
        + cbn [Cov c'] in HC. rewrite (sub_parent_of a Ea), (sub_parent_of b Eb) in HC. rewrite Hmx in HC.
          split; [constructor; [exact Hlv|intros _ _; exact HC]|]. split.
          * destruct HF as [FC FB]. split; [exact FC|]. intros e He. destruct (FB e He) as [H|H]; [|right; exact H].
            unfold st1 in H. cbn [ms_being] in H. apply in_app_or in H. destruct H as [H|[<-|[]]]; [left; exact H|].
            right. intros x' y' Hm. destruct (Hnew x' y' Hm) as [-> ->]. cbn [snd]. rewrite Hmx. exact HC.
          * cbn [VisPost c'] in HV. rewrite HV. reflexivity.
    Qed.

    Lemma frs_lreach_from sels g : lreach_from d (lsp sels) g <-> exists a, In a (frs_of sels) /\ lreach d a g.
    Proof.
      unfold lreach_from. split; intros [a [Ha Hr]]; exists a; (split; [|exact Hr]); apply frs_of_In; exact Ha.
    Qed.

    Lemma step_sub m pn1 s1 pn2 s2 st st' :
      mrun (S fuel) s d (CBetweenSub m pn1 s1 pn2 s2) st = Some (st', []) ->
      legitU (CBetweenSub m pn1 s1 pn2 s2) -> Inv (S (hfl d s1 + hfl d s2)) st ->
      Cov (CBetweenSub m pn1 s1 pn2 s2) /\ Fr st st' /\ ms_visited st' = ms_visited st.
    Proof.
      intros Hrun [L1 L2] HI. rewrite mrun_between_sub, !gff_gen in Hrun.
      set (P1 := opt_bind pn1 (type_by_name s)) in *. set (P2 := opt_bind pn2 (type_by_name s)) in *.
      set (fm1 := fm_of (map ad_of (cfl s P1 s1)) []) in *. set (fm2 := fm_of (map ad_of (cfl s P2 s2)) []) in *.
      pose proof (fmU_cfl P1 s1 L1) as O1. pose proof (fmU_cfl P2 s2 L2) as O2. fold fm1 in O1. fold fm2 in O2.
      pose proof (hfm_cfl P1 s1) as M1. pose proof (hfm_cfl P2 s2) as M2. fold fm1 in M1. fold fm2 in M2.
      pose proof (maxr_frs s1) as R1. pose proof (maxr_frs s2) as R2.
      match type of Hrun with seq_calls _ ?l _ = _ => set (calls := l) in * end.
      assert (Hl : forall c, In c calls -> notFF c /\ legitU c /\ S (mu d c) <= S (hfl d s1 + hfl d s2)).
      { intros c Hc. unfold calls in Hc. cbn [app] in Hc. destruct Hc as [<-|[<-|[<-|Hc]]].
        - split; [exact I|]. split; [split; assumption|]. cbn [mu]. lia.
        - split; [exact I|]. split; [exact O1|]. cbn [mu]. lia.
        - split; [exact I|]. split; [exact O2|]. cbn [mu]. lia.
        - apply in_flat_map in Hc. destruct Hc as [a [Ha Hc]]. apply in_map_iff in Hc. destruct Hc as [b [<- Hb]].
          split; [exact I|]. split; [exact I|]. cbn [mu].
          pose proof (rk_lsp d s1 a (proj1 (frs_of_In s1 a) Ha)). pose proof (rk_lsp d s2 b (proj1 (frs_of_In s2 b) Hb)).
          rewrite Nat.mul_add_distr_r. lia. }
      destruct (seq_J _ st _ st' Hl HI Hrun) as [HC [_ [HF HV]]].
      split; [|split; assumption]. cbn [Cov]. fold P1 P2.
      pose proof (HC (CBetween m fm1 fm2) ltac:(left; reflexivity)) as C1. cbn [Cov] in C1.
      pose proof (HC (CFragmentLoop fm1 (frs_of s2) m) ltac:(right; left; reflexivity)) as C2. cbn [Cov] in C2.
      pose proof (HC (CFragmentLoop fm2 (frs_of s1) m) ltac:(right; right; left; reflexivity)) as C3. cbn [Cov] in C3.
      split; [|split; [|split]].
      - intros u v Hu Hv Hk.
        specialize (C1 (ad_of u) (ad_of v) (proj2 (fm_fields_of _ _) (ex_intro _ u (conj Hu eq_refl)))
                       (proj2 (fm_fields_of _ _) (ex_intro _ v (conj Hv eq_refl))) Hk).
        rewrite !cf_of_ad_of in C1. exact C1.
      - intros u g v Hu Hg Hv Hk. apply frs_lreach_from in Hg. destruct Hg as [a [Ha Hr]].
        specialize (C2 a Ha (ad_of u) g v (proj2 (fm_fields_of _ _) (ex_intro _ u (conj Hu eq_refl))) Hr Hv).
        rewrite cf_of_ad_of in C2. apply C2, Hk.
      - intros v g u Hv Hg Hu Hk. apply frs_lreach_from in Hg. destruct Hg as [a [Ha Hr]].
        specialize (C3 a Ha (ad_of v) g u (proj2 (fm_fields_of _ _) (ex_intro _ v (conj Hv eq_refl))) Hr Hu).
        rewrite cf_of_ad_of in C3. apply C3, Hk.
      - intros a b Ha Hb. apply (HC (CBetweenFragments a b m)). unfold calls. right. right. right.
        apply in_flat_map. exists a. split; [apply frs_of_In, Ha|]. apply in_map_iff. exists b.
        split; [reflexivity|apply frs_of_In, Hb].
    Qed.

    Definition Fr_cb (st : mstate) (cmp : pairset) (bg : list (pos * pos * bool)) : Prop :=
      FrC (ms_compared st) cmp /\ FrB (ms_being st) bg.

    (* a loop of comparisons of one collection of fields against fragments *)
    Definition JV (K : nat) (fm : fmap) (m : bool) (st st0 : mstate) : Prop :=
      Inv K st0 /\ Fr st st0 /\ forall g, In g (ms_visited st0) -> FFcov fm m g.

    Lemma IH_FF K fm m st f st0 st1 : fmU fm -> S (hfm d fm + r f * W) <= K -> JV K fm m st st0 ->
      mrun fuel s d (CFieldsAndFragment fm f m) st0 = Some (st1, []) -> FFcov fm m f /\ JV K fm m st st1.
    Proof.
      intros O1 Hk [HI [HF HV]] Hrun.
      destruct (IH _ st0 st1 Hrun O1 (Inv_mono _ _ _ Hk HI)) as [HC [HF1 HV1]].
      { cbn [VisPre]. intros g Hg _. apply HV, Hg. }
      split; [exact HC|]. split; [apply (Inv_Fr _ _ _ HI HF1)|]. split; [apply (Fr_trans _ _ _ HF HF1)|].
      intros g Hg. destruct (HV1 g Hg) as [H|H]; [apply HV, H|exact H].
    Qed.

    Lemma IH_JV K fm m st c st0 st1 : notFF c -> legitU c -> S (mu d c) <= K -> JV K fm m st st0 ->
      mrun fuel s d c st0 = Some (st1, []) -> Cov c /\ JV K fm m st st1.
    Proof.
      intros Hn Hl Hk [HI [HF HV]] Hrun.
      destruct (IH c st0 st1 Hrun Hl (Inv_mono _ _ _ Hk HI)) as [HC [HF1 HV1]].
      { destruct c; try exact I. destruct Hn. }
      split; [exact HC|]. split; [apply (Inv_Fr _ _ _ HI HF1)|]. split; [apply (Fr_trans _ _ _ HF HF1)|].
      destruct c; cbn [VisPost] in HV1; try (rewrite HV1; exact HV). destruct Hn.
    Qed.

    Lemma step_floop fm frs m st st' :
      mrun (S fuel) s d (CFragmentLoop fm frs m) st = Some (st', []) -> fmU fm ->
      Inv (S (hfm d fm + maxr d frs * W)) st ->
      Cov (CFragmentLoop fm frs m) /\ Fr st st' /\ ms_visited st' = ms_visited st.
    Proof.
      intros Hrun O1 HI. rewrite mrun_floop in Hrun.
      match type of Hrun with
      | match ?r with _ => _ end = _ => destruct r as [[st2 cs2]|] eqn:Er; [|discriminate]
      end.
      inversion Hrun; subst st' cs2. clear Hrun.
      set (K := S (hfm d fm + maxr d frs * W)) in *.
      set (st0 := mkMS (ms_compared st) [] (ms_being st)) in *.
      assert (Hstep : forall c, In c (map (fun f => CFieldsAndFragment fm f m) frs) -> forall st3 st4,
                 JV K fm m st st3 -> mrun fuel s d c st3 = Some (st4, []) -> Cov c /\ JV K fm m st st4).
      { intros c Hc st3 st4 HJ Hr. apply in_map_iff in Hc. destruct Hc as [f [<- Hf]].
        apply (IH_FF K fm m st f st3 st4 O1); [|exact HJ|exact Hr].
        unfold K. pose proof (maxr_In d frs f Hf).
        assert (r f * W <= maxr d frs * W) by (apply Nat.mul_le_mono_r; assumption). lia. }
      assert (HJ0 : JV K fm m st st0).
      { split; [exact HI|]. split; [|intros g []].
        split; [intros a b flag H; left; exact H|intros e H; left; exact H]. }
      destruct (seq_inv (mrun fuel s d) (JV K fm m st) Cov _ Hstep st0 st2 Er HJ0) as [HC [_ [HF _]]].
      split; [|split; [exact HF|reflexivity]]. cbn [Cov]. intros f Hf.
      apply (HC (CFieldsAndFragment fm f m)). apply in_map_iff. exists f. split; [reflexivity|exact Hf].
    Qed.

    Lemma FFcov_undefined fm m f : known_fragment d f = None -> FFcov fm m f.
    Proof.
      intros Ek a g v Ha Hr Hv Hk. exfalso. rewrite known_fragment_find in Ek.
      apply lreach_inv in Hr. destruct Hr as [->|[b [He _]]].
      - unfold fdirect in Hv. rewrite Ek in Hv. destruct Hv.
      - unfold ledge, fnext in He. rewrite Ek in He. destruct He.
    Qed.

    Lemma step_ff fm f m st st' :
      mrun (S fuel) s d (CFieldsAndFragment fm f m) st = Some (st', []) -> fmU fm ->
      Inv (S (hfm d fm + r f * W)) st -> InvV fm m (r f) (ms_visited st) ->
      FFcov fm m f /\ Fr st st' /\ (forall g, In g (ms_visited st') -> In g (ms_visited st) \/ FFcov fm m g).
    Proof.
      intros Hrun O1 HI HV. rewrite mrun_ff in Hrun.
      destruct (known_fragment d f) as [fr|] eqn:Ek.
      2:{ inversion Hrun; subst. split; [apply FFcov_undefined, Ek|]. split; [apply Fr_refl|intros g Hg; left; exact Hg]. }
      destruct (fdirect_known s d f fr Ek) as [Hfd [Hfn Hfr]].
      rewrite (grf_eq s) in Hrun.
      destruct (mem_name f (frs_of (fr_sels fr))) eqn:Eself.
      { exfalso. apply c5_mem_name_In in Eself. apply frs_of_In in Eself.
        assert (He : ledge d f f) by (unfold ledge; rewrite Hfn; exact Eself).
        pose proof (rk_ledge d Hacyc f f He). lia. }
      set (Pf := type_by_name s (fr_tc fr)) in *. set (fm2 := fm_of (map ad_of (cfl s Pf (fr_sels fr))) []) in *.
      pose proof (known_fragment_Some _ _ _ Ek) as [_ Hname].
      assert (LE : In (Pf, fr_sels fr) (EE s d)) by (apply EE_fragment, Hfr).
      pose proof (fmU_cfl Pf (fr_sels fr) LE) as O2. fold fm2 in O2.
      pose proof (hfm_frag fr Pf Hfr) as M2. fold fm2 in M2. rewrite Hname in M2.
      pose proof Mx_lt_W as HMW.
      destruct (mrun fuel s d (CBetween m fm fm2) st) as [[st1 cs1]|] eqn:E1; [|discriminate].
      destruct (ff_loop_prefix _ _ _ _ _ _ _ _ Hrun) as [tl Htl]. symmetry in Htl. apply app_eq_nil in Htl.
      destruct Htl as [-> _].
      set (K := S (hfm d fm + r f * W)) in *.
      destruct (IH_J K st (CBetween m fm fm2) st st1 I (conj O1 O2)) as [C1 [HI1 [HF1 HV1]]].
      { cbn [mu]. unfold K. lia. }
      { split; [exact HI|]. split; [apply Fr_refl|reflexivity]. }
      { exact E1. }
      cbn [Cov] in C1.
      set (J := fun st0 : mstate => Inv K st0 /\ Fr st st0 /\
                                    forall g, In g (ms_visited st0) -> In g (ms_visited st) \/ FFcov fm m g).
      assert (Hskip : forall f2 st0, In f2 (frs_of (fr_sels fr)) -> J st0 -> mem_name f2 (ms_visited st0) = true ->
                                     FFcov fm m f2).
      { intros f2 st0 Hf2 [_ [_ HV0]] Hm. apply c5_mem_name_In in Hm. destruct (HV0 f2 Hm) as [H|H]; [|exact H].
        apply (HV f2 H). apply (rk_ledge d Hacyc). unfold ledge. rewrite Hfn. apply frs_of_In, Hf2. }
      assert (Hcall : forall f2 st0 st2, In f2 (frs_of (fr_sels fr)) -> J st0 -> mem_name f2 (ms_visited st0) = false ->
                 mrun fuel s d (CFieldsAndFragment fm f2 m)
                      (mkMS (ms_compared st0) (ms_visited st0 ++ [f2]) (ms_being st0)) = Some (st2, []) ->
                 FFcov fm m f2 /\ J st2).
      { intros f2 st0 st2 Hf2 [HI0 [HF0 HV0]] Hm Hr.
        assert (Hlt : r f2 < r f).
        { apply (rk_ledge d Hacyc). unfold ledge. rewrite Hfn. apply frs_of_In, Hf2. }
        destruct (IH _ _ st2 Hr O1) as [HC [HF2 HV2]].
        - apply (Inv_mono K); [|exact HI0]. cbn [mu]. unfold K.
          assert (r f2 * W <= r f * W) by (apply Nat.mul_le_mono_r; lia). lia.
        - cbn [VisPre ms_visited]. intros g Hg Hk. apply in_app_or in Hg. destruct Hg as [Hg|[<-|[]]]; [|lia].
          destruct (HV0 g Hg) as [H|H]; [|exact H]. apply (HV g H). lia.
        - cbn [Cov] in HC. split; [exact HC|]. split; [apply (Inv_Fr _ _ _ HI0 HF2)|].
          split; [apply (Fr_trans _ _ _ HF0 HF2)|]. cbn [VisPost ms_visited] in HV2. intros g Hg.
          destruct (HV2 g Hg) as [H|H]; [|right; exact H]. apply in_app_or in H.
          destruct H as [H|[<-|[]]]; [apply HV0, H|right; exact HC]. }
      destruct (ff_loop_inv (mrun fuel s d) fm m J (FFcov fm m) _ Hskip Hcall st1 [] st' Hrun) as [_ [HQ [_ [HF' HV']]]].
      { split; [exact HI1|]. split; [exact HF1|]. intros g Hg. left. rewrite <- HV1. exact Hg. }
      split; [|split; assumption].
      intros a g v Ha Hr Hv Hk. apply lreach_inv in Hr. destruct Hr as [->|[b [He Hr]]].
      - rewrite Hfd in Hv. fold Pf in Hv.
        specialize (C1 a (ad_of v) Ha (proj2 (fm_fields_of _ _) (ex_intro _ v (conj Hv eq_refl))) Hk).
        rewrite cf_of_ad_of in C1. exact C1.
      - unfold ledge in He. rewrite Hfn in He. apply frs_of_In in He. apply (HQ b He a g v Ha Hr Hv Hk).
    Qed.

    Lemma BFcov_undefined m a b : known_fragment d a = None -> BFcov m a b.
    Proof.
      intros Ek g1 g2 u v H1 H2 Hu Hv Hk. exfalso. rewrite known_fragment_find in Ek.
      apply lreach_inv in H1. destruct H1 as [->|[c [He _]]].
      - unfold fdirect in Hu. rewrite Ek in Hu. destruct Hu.
      - unfold ledge, fnext in He. rewrite Ek in He. destruct He.
    Qed.

    Lemma mulW_lt a b : a < b -> a * W + 1 <= b * W.
    Proof.
      intro H. assert (H1 : (a + 1) * W <= b * W) by (apply Nat.mul_le_mono_r; lia).
      rewrite Nat.mul_add_distr_r in H1. pose proof Mx_lt_W. lia.
    Qed.

    Lemma step_bf n1 n2 m st st' :
      mrun (S fuel) s d (CBetweenFragments n1 n2 m) st = Some (st', []) -> Inv (S ((r n1 + r n2) * W)) st ->
      BFcov m n1 n2 /\ Fr st st' /\ ms_visited st' = ms_visited st.
    Proof.
      intros Hrun HI. rewrite mrun_bf in Hrun.
      destruct (name_eqb n1 n2) eqn:En.
      { apply c5_name_eqb_eq in En. subst n2. inversion Hrun; subst st'.
        split; [apply BFcov_refl|]. split; [apply Fr_refl|reflexivity]. }
      destruct (ps_contains (ms_compared st) n1 n2 m) eqn:Ec.
      { inversion Hrun; subst st'. split; [|split; [apply Fr_refl|reflexivity]].
        destruct (ps_contains_true _ _ _ _ Ec) as [flag [Hg Hf]]. destruct HI as [HC _].
        pose proof (HC n1 n2 flag Hg ltac:(lia)) as Hb. destruct Hf as [-> | ->].
        - destruct flag; [exact Hb|apply BFcov_weaken, Hb].
        - apply BFcov_weaken, Hb. }
      cbv zeta in Hrun.
      set (cmp1 := ps_insert (ms_compared st) n1 n2 m) in *.
      set (st1 := mkMS cmp1 (ms_visited st) (ms_being st)) in *.
      assert (Hnew : forall x y flag, as_get pair_eqb (x, y) cmp1 = Some flag ->
                 (((x, y) = (n2, n1) \/ (x, y) = (n1, n2)) /\ flag = m) \/ as_get pair_eqb (x, y) (ms_compared st) = Some flag).
      { intros x y flag H. unfold cmp1 in H. rewrite ps_insert_get in H.
        destruct (pair_eqb (x, y) (n2, n1)) eqn:E1.
        { apply pair_eqb_eq in E1. inversion H; subst. left. split; [left; exact E1|reflexivity]. }
        destruct (pair_eqb (x, y) (n1, n2)) eqn:E2.
        { apply pair_eqb_eq in E2. inversion H; subst. left. split; [right; exact E2|reflexivity]. }
        right. exact H. }
      assert (HFr1 : BFcov m n1 n2 -> forall st2, Fr st1 st2 -> Fr st st2).
      { intros Hb st2 [FC FB]. split; [|exact FB]. intros x y flag H.
        destruct (FC x y flag H) as [H1|H1]; [|right; exact H1]. cbn [st1 ms_compared] in H1.
        destruct (Hnew x y flag H1) as [[[E|E] ->]| H2]; [| |left; exact H2]; injection E as Ex Ey; rewrite Ex, Ey; right.
        - apply BFcov_sym, Hb.
        - exact Hb. }
      destruct (known_fragment d n1) as [fa|] eqn:Ea.
      2:{ inversion Hrun; subst st'. pose proof (BFcov_undefined m n1 n2 Ea) as Hb.
          split; [exact Hb|]. split; [apply (HFr1 Hb), Fr_refl|reflexivity]. }
      destruct (known_fragment d n2) as [fb|] eqn:Eb.
      2:{ inversion Hrun; subst st'. pose proof (BFcov_sym _ _ _ (BFcov_undefined m n2 n1 Eb)) as Hb.
          split; [exact Hb|]. split; [apply (HFr1 Hb), Fr_refl|reflexivity]. }
      destruct (fdirect_known s d n1 fa Ea) as [Hfd1 [Hfn1 Hfr1]].
      destruct (fdirect_known s d n2 fb Eb) as [Hfd2 [Hfn2 Hfr2]].
      pose proof (known_fragment_Some _ _ _ Ea) as [_ Hname1]. pose proof (known_fragment_Some _ _ _ Eb) as [_ Hname2].
      rewrite !(grf_eq s) in Hrun.
      set (Pa := type_by_name s (fr_tc fa)) in *. set (Pb := type_by_name s (fr_tc fb)) in *.
      set (fm1 := fm_of (map ad_of (cfl s Pa (fr_sels fa))) []) in *.
      set (fm2 := fm_of (map ad_of (cfl s Pb (fr_sels fb))) []) in *.
      pose proof (fmU_cfl Pa _ (EE_fragment s d fa Hfr1)) as O1. fold fm1 in O1.
      pose proof (fmU_cfl Pb _ (EE_fragment s d fb Hfr2)) as O2. fold fm2 in O2.
      pose proof (hfm_frag fa Pa Hfr1) as M1. fold fm1 in M1. rewrite Hname1 in M1.
      pose proof (hfm_frag fb Pb Hfr2) as M2. fold fm2 in M2. rewrite Hname2 in M2.
      pose proof Mx_lt_W as HMW.
      set (K := (r n1 + r n2) * W) in *.
      assert (HK : K = r n1 * W + r n2 * W) by (unfold K; apply Nat.mul_add_distr_r).
      match type of Hrun with seq_calls _ ?l _ = _ => set (calls := l) in * end.
      assert (Hl : forall c, In c calls -> notFF c /\ legitU c /\ S (mu d c) <= K).
      { intros c Hc. unfold calls in Hc. cbn [app] in Hc. destruct Hc as [<-|Hc].
        - split; [exact I|]. split; [split; assumption|]. cbn [mu]. lia.
        - apply in_app_or in Hc. destruct Hc as [Hc|Hc]; apply in_map_iff in Hc; destruct Hc as [x [<- Hx]];
            (split; [exact I|]); (split; [exact I|]); cbn [mu]; apply frs_of_In in Hx.
          + assert (Hlt : r x < r n2) by (apply (rk_ledge d Hacyc); unfold ledge; rewrite Hfn2; exact Hx).
            pose proof (mulW_lt (r n1 + r x) (r n1 + r n2) ltac:(lia)). unfold K. lia.
          + assert (Hlt : r x < r n1) by (apply (rk_ledge d Hacyc); unfold ledge; rewrite Hfn1; exact Hx).
            pose proof (mulW_lt (r x + r n2) (r n1 + r n2) ltac:(lia)). unfold K. lia. }
      assert (HI1 : Inv K st1).
      { destruct HI as [HC HB]. split; [|intros e He x y Hm Hk; apply (HB e He x y Hm); lia]. intros x y flag H Hk. cbn [st1 ms_compared] in H.
        destruct (Hnew x y flag H) as [[[E|E] _]|H2].
        - injection E as Ex Ey. rewrite Ex, Ey in Hk. exfalso. unfold K in Hk. rewrite (Nat.add_comm (r n2)) in Hk. lia.
        - injection E as Ex Ey. rewrite Ex, Ey in Hk. exfalso. unfold K in Hk. lia.
        - apply (HC x y flag H2). lia. }
      destruct (seq_J K st1 calls st' Hl HI1 Hrun) as [HC [_ [HF HV]]].
      assert (Hb : BFcov m n1 n2).
      { intros g1 g2 u v H1 H2 Hu Hv Hk.
        apply lreach_inv in H2. destruct H2 as [->|[x [He H2]]].
        - apply lreach_inv in H1. destruct H1 as [->|[y [He H1]]].
          + right. left. left. pose proof (HC (CBetween m fm1 fm2) ltac:(left; reflexivity)) as C1. cbn [Cov] in C1.
            rewrite Hfd1 in Hu. rewrite Hfd2 in Hv. fold Pa in Hu. fold Pb in Hv.
            specialize (C1 (ad_of u) (ad_of v) (proj2 (fm_fields_of _ _) (ex_intro _ u (conj Hu eq_refl)))
                           (proj2 (fm_fields_of _ _) (ex_intro _ v (conj Hv eq_refl))) Hk).
            rewrite !cf_of_ad_of in C1. exact C1.
          + unfold ledge in He. rewrite Hfn1 in He. apply frs_of_In in He.
            assert (Hin : In (CBetweenFragments y n2 m) calls).
            { unfold calls. apply in_or_app. right. apply in_or_app. right. apply in_map_iff. exists y. split; [reflexivity|exact He]. }
            pose proof (HC _ Hin) as C3. cbn [Cov] in C3.
            destruct (C3 g1 n2 u v H1 (lr_refl d n2) Hu Hv Hk) as [[c [S1 [S2 [S3 S4]]]]|Hr]; [left|right; exact Hr].
            exists c. split; [|repeat split; assumption]. econstructor; [|exact S1]. unfold ledge. rewrite Hfn1.
            apply frs_of_In, He.
        - unfold ledge in He. rewrite Hfn2 in He. apply frs_of_In in He.
          assert (Hin : In (CBetweenFragments n1 x m) calls).
          { unfold calls. apply in_or_app. right. apply in_or_app. left. apply in_map_iff. exists x. split; [reflexivity|exact He]. }
          pose proof (HC _ Hin) as C2. cbn [Cov] in C2.
          destruct (C2 g1 g2 u v H1 H2 Hu Hv Hk) as [[c [S1 [S2 [S3 S4]]]]|Hr]; [left|right; exact Hr].
          exists c. split; [exact S1|]. split; [|split; assumption]. econstructor; [|exact S2]. unfold ledge. rewrite Hfn2.
          apply frs_of_In, He. }
      split; [exact Hb|]. split; [apply (HFr1 Hb), HF|]. rewrite HV. reflexivity.
    Qed.

    Lemma wss_calls_ff fm l f : In f l -> In (CFieldsAndFragment fm f false) (wss_calls fm l).
    Proof.
      induction l as [|f1 l' IHl]; [intros []|]. rewrite wss_calls_cons. intros [->|H]; [left; reflexivity|].
      right. apply in_or_app. right. apply IHl, H.
    Qed.

    Lemma wss_calls_pair fm l a b : In a l -> In b l -> a <> b ->
      In (CBetweenFragments a b false) (wss_calls fm l) \/ In (CBetweenFragments b a false) (wss_calls fm l).
    Proof.
      induction l as [|f1 l' IHl]; [intros []|]. rewrite wss_calls_cons. intros [->|Ha] [->|Hb] Hne.
      - contradiction.
      - left. right. apply in_or_app. left. apply in_map_iff. exists b. split; [reflexivity|exact Hb].
      - right. right. apply in_or_app. left. apply in_map_iff. exists a. split; [reflexivity|exact Ha].
      - destruct (IHl Ha Hb Hne) as [H|H]; [left|right]; right; apply in_or_app; right; exact H.
    Qed.

    Lemma step_wss P sels st st' :
      mrun (S fuel) s d (CWithinSelectionSet P sels) st = Some (st', []) -> In (P, sels) (EE s d) ->
      Inv (S (hfl d sels + hfl d sels)) st ->
      LocalOK P sels /\ Fr st st' /\ ms_visited st' = ms_visited st.
    Proof.
      intros Hrun LE HI. rewrite mrun_wss, gff_gen in Hrun.
      set (C := cfl s P sels) in *. set (fm := fm_of (map ad_of C) []) in *.
      pose proof (fmU_cfl P sels LE) as O1. fold C fm in O1.
      pose proof (hfm_cfl P sels) as M1. fold C fm in M1.
      set (K := S (hfl d sels + hfl d sels)) in *.
      destruct (mrun fuel s d (CWithin fm) st) as [[st0 cs0]|] eqn:E0; [|discriminate].
      match type of Hrun with
      | match ?x with _ => _ end = _ => destruct x as [[st1 cs1]|] eqn:E1; [|discriminate]
      end.
      inversion Hrun as [[Hst Hcs]]. apply app_eq_nil in Hcs. destruct Hcs as [-> ->]. clear Hrun.
      destruct (IH_J K st (CWithin fm) st st0 I O1) as [C0 [HI0 [HF0 HV0]]].
      { cbn [mu]. unfold K. lia. }
      { split; [exact HI|]. split; [apply Fr_refl|reflexivity]. }
      { exact E0. }
      cbn [Cov] in C0.
      set (st0' := mkMS (ms_compared st0) [] (ms_being st0)) in *.
      assert (Hstep : forall c, In c (wss_calls fm (frs_of sels)) -> forall st3 st4,
                 JV K fm false st st3 -> mrun fuel s d c st3 = Some (st4, []) -> Cov c /\ JV K fm false st st4).
      { intros c Hc st3 st4 HJ Hr. apply wss_calls_In in Hc. destruct Hc as [[f [Hf ->]]|[g1 [g2 [Hg1 [Hg2 ->]]]]].
        - apply (IH_FF K fm false st f st3 st4 O1); [|exact HJ|exact Hr].
          pose proof (rk_lsp d sels f (proj1 (frs_of_In sels f) Hf)). unfold K. lia.
        - apply (IH_JV K fm false st (CBetweenFragments g1 g2 false) st3 st4 I I); [|exact HJ|exact Hr]. cbn [mu].
          pose proof (rk_lsp d sels g1 (proj1 (frs_of_In sels g1) Hg1)).
          pose proof (rk_lsp d sels g2 (proj1 (frs_of_In sels g2) Hg2)).
          rewrite Nat.mul_add_distr_r. unfold K. lia. }
      assert (HJ0 : JV K fm false st st0').
      { split; [exact HI0|]. split; [|intros g []]. destruct HF0 as [FC FB]. split; assumption. }
      destruct (seq_inv (mrun fuel s d) (JV K fm false st) Cov _ Hstep st0' st1 E1 HJ0) as [HC [_ [HF1 _]]].
      split; [|split].
      - split; [|split].
        + intros x y Hxy Hk. pose proof (pairs_within_In _ _ _ Hxy) as [Hx Hy].
          pose proof (fm_of_inv (map ad_of C)) as I1. fold fm in I1.
          assert (K1 : In (cf_key x) (map fst fm)) by (apply (fi_keys _ _ I1 (ad_of x)), in_map, Hx).
          apply in_map_iff in K1. destruct K1 as [[k g] [Ek Hkg]]. cbn [fst] in Ek. subst k.
          specialize (C0 (cf_key x) g (ad_of x) (ad_of y) Hkg). rewrite !cf_of_ad_of in C0. apply C0.
          rewrite (fi_groups _ _ I1 _ _ Hkg), filter_key_map, pairs_within_map.
          apply in_map_iff. exists (x, y). split; [reflexivity|]. apply pairs_within_filter_In.
          split; [exact Hxy|]. split; [apply c5_name_eqb_refl|rewrite Hk; apply c5_name_eqb_refl].
        + intros x g v Hx Hg Hv Hk. apply frs_lreach_from in Hg. destruct Hg as [a [Ha Hr]].
          pose proof (HC _ (wss_calls_ff fm _ a Ha)) as C2. cbn [Cov] in C2.
          specialize (C2 (ad_of x) g v (proj2 (fm_fields_of _ _) (ex_intro _ x (conj Hx eq_refl))) Hr Hv).
          rewrite cf_of_ad_of in C2. apply C2, Hk.
        + intros a b Ha Hb. destruct (string_dec a b) as [->|Hne]; [apply BFcov_refl|].
          apply frs_of_In in Ha. apply frs_of_In in Hb.
          destruct (wss_calls_pair fm _ a b Ha Hb Hne) as [H|H]; pose proof (HC _ H) as C3; cbn [Cov] in C3;
            [exact C3|apply BFcov_sym, C3].
      - destruct HF1 as [FC FB]. split; assumption.
      - cbn [ms_visited]. exact HV0.
    Qed.
  End Step.

  Theorem mrun_complete : forall fuel c st st',
    mrun fuel s d c st = Some (st', []) -> legitU c -> Inv (S (mu d c)) st -> VisPre c st ->
    Cov c /\ Fr st st' /\ VisPost c st st'.
  Proof.
    induction fuel as [|fuel IH]; intros c st st' Hrun Hl HI HV; [discriminate|].
    destruct c as [a b pm|m pn1 s1 pn2 s2|fm f m|f1 f2 m|m fm1 fm2|fm frs m|fm|P sels]; cbn [Cov VisPost].
    - destruct Hl as [Wa Wb]. apply (step_find fuel IH a b pm st st' Hrun Wa Wb HI).
    - apply (step_sub fuel IH m pn1 s1 pn2 s2 st st' Hrun Hl HI).
    - apply (step_ff fuel IH fm f m st st' Hrun Hl HI HV).
    - apply (step_bf fuel IH f1 f2 m st st' Hrun HI).
    - destruct Hl as [O1 O2]. apply (step_between fuel IH m fm1 fm2 st st' Hrun O1 O2 HI).
    - apply (step_floop fuel IH fm frs m st st' Hrun Hl HI).
    - apply (step_within fuel IH fm st st' Hrun Hl HI).
    - apply (step_wss fuel IH P sels st st' Hrun Hl HI).
  Qed.
End Complete.

(* C14_schema_proofs.v — C14 (h), the finer part: every rule's specification predicate is invariant
   under permutations INSIDE the definitions of a well-formed schema: the fields of an object /
   interface type, the arguments of a field or of a directive definition, the values of an enum, the
   members of a union, the implements-lists, the fields of an input object, the locations of a
   directive definition. *)
From GT Require Import Visitor Validate Merge.
From Coq Require Import Permutation.
From GTS Require Import Annot WfSchema SpecCollect SpecRules SpecValues SpecMerge SpecValid.
From GTP Require Import VisitorFacts TraceFacts C14_proofs C14_more_proofs.

(* ------------------------------------------------------------------ the rewrite *)
Inductive pfd : field_def -> field_def -> Prop :=
| PFD n a a' t : Permutation a a' -> pfd (mkFD n a t) (mkFD n a' t).
Inductive ptd : type_def -> type_def -> Prop :=
| PObject n i i' fs fs' : Permutation i i' -> PermR pfd fs fs' -> ptd (TDObject n i fs) (TDObject n i' fs')
| PInterface n i i' fs fs' : Permutation i i' -> PermR pfd fs fs' -> ptd (TDInterface n i fs) (TDInterface n i' fs')
| PUnion n m m' : Permutation m m' -> ptd (TDUnion n m) (TDUnion n m')
| PScalar n : ptd (TDScalar n) (TDScalar n)
| PEnum n v v' : Permutation v v' -> ptd (TDEnum n v) (TDEnum n v')
| PInput n f f' : Permutation f f' -> ptd (TDInputObject n f) (TDInputObject n f').
Inductive pdd : directive_def -> directive_def -> Prop :=
| PDD n a a' r l l' : Permutation a a' -> Permutation l l' -> pdd (mkDD n a r l) (mkDD n a' r l').
Inductive psd : sdefinition -> sdefinition -> Prop :=
| PSSchema x : psd (SDSchema x) (SDSchema x)
| PSType t t' : ptd t t' -> psd (SDType t) (SDType t')
| PSDirective x x' : pdd x x' -> psd (SDDirective x) (SDDirective x')
| PSExt n : psd (SDTypeExt n) (SDTypeExt n).
(* s' is s with the lists inside its definitions permuted (the definitions stay in place; for
   their order see violated_perm_schema) *)
Definition perm_inside_schema (s s' : sdocument) : Prop := Forall2 psd s s'.

(* ------------------------------------------------------------------ names are unique inside s *)
Definition nd_ivs (a : list input_value_def) : Prop := nodup_names (map iv_name a) = true.
Definition nd_fd (f : field_def) : Prop := nd_ivs (fd_args f).
Definition nd_td (t : type_def) : Prop :=
  match t with
  | TDObject _ _ fs | TDInterface _ _ fs => nodup_names (map fd_name fs) = true /\ Forall nd_fd fs
  | TDInputObject _ f => nd_ivs f
  | _ => True
  end.
Definition ivsr (a a' : list input_value_def) : Prop := Permutation a a' /\ nd_ivs a.
Definition fdr (f f' : field_def) : Prop := pfd f f' /\ nd_fd f.
Definition tdr (t t' : type_def) : Prop := ptd t t' /\ nd_td t.
Definition ddr (x x' : directive_def) : Prop := pdd x x' /\ nd_ivs (dd_args x).

Lemma wf_input_values_nd s a : wf_input_values s a = true -> nd_ivs a.
Proof. unfold wf_input_values. intro H. apply andb_prop in H. apply H. Qed.
Lemma wf_fields_nd s fs : wf_fields s fs = true -> nodup_names (map fd_name fs) = true /\ Forall nd_fd fs.
Proof.
  unfold wf_fields. intro H. apply andb_prop in H. destruct H as [H1 H2]. split; [exact H1|].
  apply Forall_forall. intros f Hf. rewrite forallb_forall in H2. specialize (H2 f Hf).
  apply andb_prop in H2. eapply wf_input_values_nd, H2.
Qed.
Lemma wf_type_nd s t : wf_type s t = true -> nd_td t.
Proof.
  destruct t as [n i fs|n i fs|n m|n|n v|n f]; cbn [wf_type nd_td]; intro H; try exact I.
  - apply andb_prop in H. eapply wf_fields_nd, H.
  - apply andb_prop in H. destruct H as [H _]. apply andb_prop in H. eapply wf_fields_nd, H.
  - eapply wf_input_values_nd, H.
Qed.

Lemma type_by_name_In' s n t : type_by_name s n = Some t -> In t (type_defs s).
Proof.
  induction s as [|x r IH]; [discriminate|].
  destruct x as [sd|u|dd|ext]; cbn [type_by_name type_defs flat_map app]; try exact IH.
  destruct (name_eqb (td_name u) n).
  - intro H. injection H as <-. left. reflexivity.
  - intro H. right. apply IH, H.
Qed.
Lemma directive_by_name_In' s n x : directive_by_name s n = Some x -> In x (directive_defs s).
Proof.
  induction s as [|y r IH]; [discriminate|].
  destruct y as [sd|u|dd|ext]; cbn [directive_by_name directive_defs flat_map app]; try exact IH.
  destruct (name_eqb (dd_name dd) n).
  - intro H. injection H as <-. left. reflexivity.
  - intro H. right. apply IH, H.
Qed.

(* ------------------------------------------------------------------ what the predicates read *)
Record sqr (s s' : sdocument) : Prop := {
  sr_type : forall n, orel tdr (type_by_name s n) (type_by_name s' n);
  sr_dir : forall n, orel ddr (directive_by_name s n) (directive_by_name s' n);
  sr_schema : find_schema_def s = find_schema_def s';
  sr_types : Forall2 ptd (type_defs s) (type_defs s') }.

Lemma ptd_name t t' : ptd t t' -> td_name t = td_name t'.
Proof. intros []; reflexivity. Qed.
Lemma pdd_name x x' : pdd x x' -> dd_name x = dd_name x'.
Proof. intros []; reflexivity. Qed.

Lemma sqr_of s s' : perm_inside_schema s s' -> wf_schema s = true -> sqr s s'.
Proof.
  intros Hp Hwf.
  assert (Hty : forall t, In t (type_defs s) -> nd_td t).
  { intros t Ht. pose proof (wf_types s Hwf) as H. rewrite forallb_forall in H. eapply wf_type_nd, H, Ht. }
  assert (Hdd : forall x, In x (directive_defs s) -> nd_ivs (dd_args x)).
  { intros x Hx. pose proof (wf_directive_args s Hwf) as H. rewrite forallb_forall in H.
    eapply wf_input_values_nd, H, Hx. }
  constructor.
  - intro n. assert (H : forall t, type_by_name s n = Some t -> nd_td t) by (intros t Ht; eapply Hty, type_by_name_In', Ht).
    clear Hty Hdd Hwf. induction Hp as [|x y r r' Hxy _ IH]; [constructor|].
    destruct Hxy as [sd|t t' Ht|dd dd' Hd|ext]; cbn [type_by_name] in *; try (apply IH, H).
    rewrite <- (ptd_name _ _ Ht). destruct (name_eqb (td_name t) n).
    + constructor. split; [exact Ht|apply H; reflexivity].
    + apply IH, H.
  - intro n. assert (H : forall x, directive_by_name s n = Some x -> nd_ivs (dd_args x))
      by (intros x Hx; eapply Hdd, directive_by_name_In', Hx).
    clear Hty Hdd Hwf. induction Hp as [|x y r r' Hxy _ IH]; [constructor|].
    destruct Hxy as [sd|t t' Ht|dd dd' Hd|ext]; cbn [directive_by_name] in *; try (apply IH, H).
    rewrite <- (pdd_name _ _ Hd). destruct (name_eqb (dd_name dd) n).
    + constructor. split; [exact Hd|apply H; reflexivity].
    + apply IH, H.
  - clear Hty Hdd Hwf. induction Hp as [|x y r r' Hxy _ IH]; [reflexivity|].
    destruct Hxy; cbn [find_schema_def]; try exact IH. reflexivity.
  - clear Hty Hdd Hwf. induction Hp as [|x y r r' Hxy _ IH]; [constructor|].
    destruct Hxy; cbn [type_defs flat_map app]; try exact IH. constructor; assumption.
Qed.

(* ---- type definitions ---- *)
Lemma tdr_name t t' : tdr t t' -> td_name t = td_name t'.
Proof. intros [H _]. apply ptd_name, H. Qed.
Lemma tdr_is_leaf t t' : tdr t t' -> td_is_leaf t = td_is_leaf t'.
Proof. intros [[] _]; reflexivity. Qed.
Lemma tdr_is_composite t t' : tdr t t' -> td_is_composite t = td_is_composite t'.
Proof. intros [[] _]; reflexivity. Qed.
Lemma tdr_is_input t t' : tdr t t' -> td_is_input t = td_is_input t'.
Proof. intros [[] _]; reflexivity. Qed.
Lemma ptd_interfaces t t' : ptd t t' -> Permutation (td_interfaces t) (td_interfaces t').
Proof. intros []; cbn [td_interfaces]; try apply Permutation_refl; assumption. Qed.

Lemma find_first_PermR {A B} (R : A -> B -> Prop) (key : A -> name) (key' : B -> name) l l' n :
  PermR R l l' -> (forall x y, R x y -> key x = key' y) -> nodup_names (map key l) = true ->
  orel R (find_first (fun x => name_eqb (key x) n) l) (find_first (fun y => name_eqb (key' y) n) l').
Proof.
  intros (m & Hp & Hf) Hk Hn.
  rewrite (find_first_key_eqset key l m n Hn); [| |apply perm_eqset, Hp].
  - clear Hp Hn. induction Hf as [|x y m l' Hxy _ IH]; cbn [find_first]; [constructor|].
    rewrite <- (Hk x y Hxy). destruct (name_eqb (key x) n); [constructor; exact Hxy|exact IH].
  - rewrite <- Hn. apply nodup_names_perm, Permutation_map, Permutation_sym, Hp.
Qed.

Lemma pfd_name f f' : pfd f f' -> fd_name f = fd_name f'.
Proof. intros []; reflexivity. Qed.
Lemma fdr_type f f' : fdr f f' -> fd_type f = fd_type f'.
Proof. intros [[] _]; reflexivity. Qed.
Lemma fdr_args f f' : fdr f f' -> ivsr (fd_args f) (fd_args f').
Proof. intros [[n a a' t Hp] Hn]. split; assumption. Qed.
Lemma ddr_fields x x' : ddr x x' ->
  dd_name x = dd_name x' /\ ivsr (dd_args x) (dd_args x') /\ dd_repeatable x = dd_repeatable x' /\
  Permutation (dd_locs x) (dd_locs x').
Proof. intros [[n a a' r l l' Hp Hl] Hn]. cbn in *. repeat split; assumption. Qed.

Lemma fields_find fs fs' n : PermR pfd fs fs' -> nodup_names (map fd_name fs) = true -> Forall nd_fd fs ->
  orel fdr (find_first (fun f => name_eqb (fd_name f) n) fs) (find_first (fun f => name_eqb (fd_name f) n) fs').
Proof.
  intros Hp Hn Hnd. apply (find_first_PermR fdr fd_name fd_name).
  - eapply PermR_impl; [|exact Hp]. intros x y Hx Hxy. split; [exact Hxy|]. rewrite Forall_forall in Hnd. apply Hnd, Hx.
  - intros x y [H _]. apply pfd_name, H.
  - exact Hn.
Qed.

Lemma tdr_field_by_name t t' n : tdr t t' -> orel fdr (field_by_name t n) (field_by_name t' n).
Proof.
  intros [Hp Hn]. destruct Hp; cbn [field_by_name nd_td] in *; try constructor;
    destruct Hn as [Hn Hf]; apply fields_find; assumption.
Qed.

Lemma ivs_find (a a' : list input_value_def) n : ivsr a a' ->
  find_first (fun x => name_eqb (iv_name x) n) a = find_first (fun x => name_eqb (iv_name x) n) a'.
Proof.
  intros [Hp Hn]. apply (find_first_key_eqset iv_name); [exact Hn| |apply perm_eqset, Hp].
  rewrite <- Hn. apply nodup_names_perm, Permutation_map, Permutation_sym, Hp.
Qed.
Lemma tdr_input_field_by_name t t' n : tdr t t' -> input_field_by_name t n = input_field_by_name t' n.
Proof.
  intros [Hp Hn]. destruct Hp; cbn [input_field_by_name nd_td] in *; try reflexivity.
  apply ivs_find. split; assumption.
Qed.

Lemma orel_is_some {A B} (R : A -> B -> Prop) o o' : orel R o o' -> is_some o = is_some o'.
Proof. intros []; reflexivity. Qed.
Lemma orel_is_none {A B} (R : A -> B -> Prop) o o' : orel R o o' -> is_none o = is_none o'.
Proof. intros []; reflexivity. Qed.
Lemma orel_map {A B C} (R : A -> B -> Prop) (g : A -> C) (g' : B -> C) o o' :
  orel R o o' -> (forall x y, R x y -> g x = g' y) -> opt_map g o = opt_map g' o'.
Proof. intros [x y H|] Hg; cbn [opt_map]; [rewrite (Hg x y H)|]; reflexivity. Qed.
Lemma orel_map_rel {A B C D} (R : A -> B -> Prop) (R' : C -> D -> Prop) (g : A -> C) (g' : B -> D) o o' :
  orel R o o' -> (forall x y, R x y -> R' (g x) (g' y)) -> orel R' (opt_map g o) (opt_map g' o').
Proof. intros [x y H|] Hg; cbn [opt_map]; constructor. apply Hg, H. Qed.

(* ------------------------------------------------------------------ the annotation *)
Record envr (e e' : env) : Prop := {
  er_type : orel tdr (a_type e) (a_type e');
  er_type_lit : a_type_lit e = a_type_lit e';
  er_parent : orel tdr (a_parent e) (a_parent e');
  er_field : orel fdr (a_field e) (a_field e');
  er_input : orel tdr (a_input e) (a_input e');
  er_input_lit : a_input_lit e = a_input_lit e' }.
Definition aevr (x y : aev) : Prop := fst x = fst y /\ envr (snd x) (snd y).

Lemma envr0 : envr env0 env0.
Proof. constructor; cbn; constructor. Qed.

Lemma F2_app_one {A B} (R : A -> B -> Prop) x y l l' z w :
  R x y -> Forall2 R l l' -> R z w -> Forall2 R (x :: l ++ [z]) (y :: l' ++ [w]).
Proof. intros H1 H2 H3. constructor; [exact H1|]. apply Forall2_app; [exact H2|]. constructor; [exact H3|constructor]. Qed.

Lemma F2_flat_map_same {A C D} (R : C -> D -> Prop) (g : A -> list C) (g' : A -> list D) l :
  (forall x, In x l -> Forall2 R (g x) (g' x)) -> Forall2 R (flat_map g l) (flat_map g' l).
Proof.
  induction l as [|x l IH]; intro H; cbn [flat_map]; [constructor|].
  apply Forall2_app; [apply H; left; reflexivity|]. apply IH. intros y Hy. apply H. right. exact Hy.
Qed.
Lemma F2_flat_map2 {A B C D} (R : A -> B -> Prop) (R' : C -> D -> Prop) (g : A -> list C) (g' : B -> list D) l l' :
  Forall2 R l l' -> (forall x y, R x y -> Forall2 R' (g x) (g' y)) -> Forall2 R' (flat_map g l) (flat_map g' l').
Proof.
  intros H Hg. induction H as [|x y l l' Hxy _ IH]; cbn [flat_map]; [constructor|].
  apply Forall2_app; [apply Hg, Hxy|exact IH].
Qed.

Section AnnotRel.
  Variables s s' : sdocument.
  Hypothesis Hs : sqr s s'.

  Lemma lookup_named_rel t : orel tdr (lookup_named s t) (lookup_named s' t).
  Proof. destruct t as [t|]; cbn [lookup_named opt_bind]; [apply (sr_type _ _ Hs)|constructor]. Qed.
  Lemma at_type_rel e e' t : envr e e' -> envr (at_type s e t) (at_type s' e' t).
  Proof. intros []. constructor; cbn; try assumption; [apply lookup_named_rel|reflexivity]. Qed.
  Lemma in_selection_set_rel e e' : envr e e' -> envr (in_selection_set e) (in_selection_set e').
  Proof. intros []. constructor; cbn; assumption. Qed.
  Lemma in_field_rel e e' f f' : envr e e' -> orel fdr f f' -> envr (in_field e f) (in_field e' f').
  Proof. intros [] H. constructor; cbn; assumption. Qed.
  Lemma expecting_rel e e' t : envr e e' -> envr (expecting s e t) (expecting s' e' t).
  Proof. intros []. constructor; cbn; try assumption; [apply lookup_named_rel|reflexivity]. Qed.

  Lemma input_field_lookup_rel t k :
    opt_bind (lookup_named s t) (fun td => input_field_by_name td k) =
    opt_bind (lookup_named s' t) (fun td => input_field_by_name td k).
  Proof.
    destruct (lookup_named_rel t) as [x y H|]; cbn [opt_bind]; [|reflexivity].
    apply tdr_input_field_by_name, H.
  Qed.
  Lemma input_field_type_rel t k : input_field_type s t k = input_field_type s' t k.
  Proof. unfold input_field_type. rewrite input_field_lookup_rel. reflexivity. Qed.

  Lemma aevr_mk ev e e' : envr e e' -> aevr (ev, e) (ev, e').
  Proof. intro H. split; [reflexivity|exact H]. Qed.

  Lemma annot_value_rel v : forall e e', envr e e' -> Forall2 aevr (annot_value s v e) (annot_value s' v e').
  Proof.
    induction v as [n|z|b|str|b| |n|l IH|l IH] using value_ind'; intros e e' He; cbn [annot_value];
      try (constructor; [apply aevr_mk, He|constructor; [apply aevr_mk, He|constructor]]).
    - apply F2_app_one; try apply aevr_mk, He. rewrite <- (er_input_lit _ _ He).
      apply F2_flat_map_same. intros x Hx. rewrite Forall_forall in IH. apply (IH x Hx), expecting_rel, He.
    - apply F2_app_one; try apply aevr_mk, He. rewrite <- (er_input_lit _ _ He).
      apply F2_flat_map_same. intros kv Hkv. cbv beta zeta. rewrite <- input_field_type_rel.
      assert (He' : envr (expecting s e (input_field_type s (a_input_lit e) (fst kv)))
                         (expecting s' e' (input_field_type s (a_input_lit e) (fst kv)))) by apply expecting_rel, He.
      apply F2_app_one; try apply aevr_mk, He'. rewrite Forall_forall in IH. apply (IH kv Hkv), He'.
  Qed.

  Lemma declared_arg_type_rel decls decls' a : orel ivsr decls decls' ->
    declared_arg_type decls a = declared_arg_type decls' a.
  Proof.
    intros [x y H|]; [|reflexivity]. unfold declared_arg_type. cbn [opt_bind]. rewrite (ivs_find x y a H). reflexivity.
  Qed.

  Lemma annot_arguments_rel decls decls' args e e' : orel ivsr decls decls' -> envr e e' ->
    Forall2 aevr (annot_arguments s decls args e) (annot_arguments s' decls' args e').
  Proof.
    intros Hdc He. unfold annot_arguments. apply F2_flat_map_same. intros a _. cbv beta zeta.
    rewrite <- (declared_arg_type_rel decls decls' (fst a) Hdc).
    assert (He' : envr (expecting s e (declared_arg_type decls (fst a))) (expecting s' e' (declared_arg_type decls (fst a))))
      by apply expecting_rel, He.
    apply F2_app_one; try apply aevr_mk, He'. apply annot_value_rel, He'.
  Qed.

  Lemma directive_decls_rel x : orel ivsr (opt_map dd_args (directive_by_name s (d_name x)))
                                          (opt_map dd_args (directive_by_name s' (d_name x))).
  Proof.
    apply (orel_map_rel ddr); [apply (sr_dir _ _ Hs)|]. intros a b H. apply (ddr_fields _ _ H).
  Qed.

  Lemma annot_directives_rel dirs e e' : envr e e' ->
    Forall2 aevr (annot_directives s dirs e) (annot_directives s' dirs e').
  Proof.
    intro He. unfold annot_directives. apply F2_flat_map_same. intros x _.
    apply F2_app_one; try apply aevr_mk, He. apply annot_arguments_rel; [apply directive_decls_rel|exact He].
  Qed.

  Lemma annot_vardefs_rel vars e e' : envr e e' ->
    Forall2 aevr (annot_vardefs s vars e) (annot_vardefs s' vars e').
  Proof.
    intro He. unfold annot_vardefs. apply F2_flat_map_same. intros v _. cbv beta zeta.
    assert (He' : envr (expecting s e (Some (v_type v))) (expecting s' e' (Some (v_type v)))) by apply expecting_rel, He.
    apply F2_app_one; try apply aevr_mk, He'. destruct (v_default v) as [dv|]; [apply annot_value_rel, He'|constructor].
  Qed.

  Lemma parent_field_rel e e' n : envr e e' ->
    orel fdr (opt_bind (a_parent e) (fun t => field_by_name t n)) (opt_bind (a_parent e') (fun t => field_by_name t n)).
  Proof.
    intro He. destruct (er_parent _ _ He) as [t t' Ht|]; cbn [opt_bind]; [|constructor].
    apply tdr_field_by_name, Ht.
  Qed.

  Lemma annot_selection_rel x : forall e e', envr e e' ->
    Forall2 aevr (annot_selection s x e) (annot_selection s' x e').
  Proof.
    induction x as [p al n args dirs sp sels IH|p n dirs|p tc dirs sp sels IH] using selection_ind'; intros e e' He.
    - cbn [annot_selection]. cbv zeta.
      pose proof (parent_field_rel e e' n He) as Hf.
      set (fdef := opt_bind (a_parent e) (fun t => field_by_name t n)) in *.
      set (fdef' := opt_bind (a_parent e') (fun t => field_by_name t n)) in *.
      assert (Et : opt_map fd_type fdef = opt_map fd_type fdef') by (apply (orel_map fdr); [exact Hf|apply fdr_type]).
      rewrite <- Et.
      assert (He1 : envr (at_type s e (opt_map fd_type fdef)) (at_type s' e' (opt_map fd_type fdef))) by apply at_type_rel, He.
      assert (He2 : envr (in_field (at_type s e (opt_map fd_type fdef)) fdef) (in_field (at_type s' e' (opt_map fd_type fdef)) fdef'))
        by (apply in_field_rel; assumption).
      pose proof (in_selection_set_rel _ _ He2) as He3.
      constructor; [apply aevr_mk, He1|].
      apply Forall2_app; [apply annot_arguments_rel; [apply (orel_map_rel fdr); [exact Hf|apply fdr_args]|exact He2]|].
      apply Forall2_app; [apply annot_directives_rel, He2|].
      constructor; [apply aevr_mk, He3|].
      apply Forall2_app; [|constructor; [apply aevr_mk, He3|constructor; [apply aevr_mk, He1|constructor]]].
      apply F2_flat_map_same. intros y Hy. rewrite Forall_forall in IH. apply (IH y Hy), He3.
    - cbn [annot_selection]. apply F2_app_one; try apply aevr_mk, He. apply annot_directives_rel, He.
    - cbn [annot_selection]. cbv zeta.
      assert (He1 : envr (match tc with Some cond => at_type s e (Some (TNamed cond)) | None => e end)
                         (match tc with Some cond => at_type s' e' (Some (TNamed cond)) | None => e' end))
        by (destruct tc; [apply at_type_rel, He|exact He]).
      pose proof (in_selection_set_rel _ _ He1) as He3.
      constructor; [apply aevr_mk, He1|].
      apply Forall2_app; [apply annot_directives_rel, He1|].
      constructor; [apply aevr_mk, He3|].
      apply Forall2_app; [|constructor; [apply aevr_mk, He3|constructor; [apply aevr_mk, He1|constructor]]].
      apply F2_flat_map_same. intros y Hy. rewrite Forall_forall in IH. apply (IH y Hy), He3.
  Qed.

  Lemma annot_selection_set_rel sp sels e e' : envr e e' ->
    Forall2 aevr (annot_selection_set s sp sels e) (annot_selection_set s' sp sels e').
  Proof.
    intro He. unfold annot_selection_set. pose proof (in_selection_set_rel _ _ He) as He3.
    apply F2_app_one; try apply aevr_mk, He3. apply F2_flat_map_same. intros y _. apply annot_selection_rel, He3.
  Qed.

  Lemma object_type_by_name_rel n : orel tdr (object_type_by_name s n) (object_type_by_name s' n).
  Proof.
    unfold object_type_by_name. destruct (sr_type _ _ Hs n) as [t t' Ht|]; [|constructor].
    pose proof Ht as Ht0. destruct Ht as [Hp Hn]. destruct Hp; try constructor. exact Ht0.
  Qed.
  Lemma root_rel k : orel tdr (root s k) (root s' k).
  Proof.
    unfold root, root_name. rewrite <- (sr_schema _ _ Hs).
    destruct (match find_schema_def s with
              | Some sd => match k with OpSelSet | OpQuery => sd_query sd | OpMutation => sd_mutation sd | OpSubscription => sd_subscription sd end
              | None => Some (default_root_name k) end) as [n|]; cbn [opt_bind]; [apply object_type_by_name_rel|constructor].
  Qed.
  Lemma root_name_type k : opt_map (fun t => TNamed (td_name t)) (root s k) = opt_map (fun t => TNamed (td_name t)) (root s' k).
  Proof. apply (orel_map tdr); [apply root_rel|]. intros x y H. rewrite (tdr_name _ _ H). reflexivity. Qed.

  Lemma annot_definition_rel x e e' : envr e e' ->
    Forall2 aevr (annot_definition s x e) (annot_definition s' x e').
  Proof.
    intro He. destruct x as [o|f]; cbn [annot_definition]; cbv zeta.
    - rewrite <- root_name_type.
      assert (He1 : envr (at_type s e (opt_map (fun t => TNamed (td_name t)) (root s (o_kind o))))
                         (at_type s' e' (opt_map (fun t => TNamed (td_name t)) (root s (o_kind o))))) by apply at_type_rel, He.
      constructor; [apply aevr_mk, He1|]. apply Forall2_app; [apply annot_directives_rel, He1|].
      apply Forall2_app; [apply annot_vardefs_rel, He1|].
      apply Forall2_app; [apply annot_selection_set_rel, He1|]. constructor; [apply aevr_mk, He1|constructor].
    - assert (He1 : envr (at_type s e (Some (TNamed (fr_tc f)))) (at_type s' e' (Some (TNamed (fr_tc f))))) by apply at_type_rel, He.
      constructor; [apply aevr_mk, He1|]. apply Forall2_app; [apply annot_directives_rel, He1|].
      apply Forall2_app; [apply annot_selection_set_rel, He1|]. constructor; [apply aevr_mk, He1|constructor].
  Qed.

  Lemma annot_srel d : Forall2 aevr (annot s d) (annot s' d).
  Proof.
    unfold annot. apply F2_app_one; try apply aevr_mk, envr0.
    apply F2_flat_map_same. intros x _. apply annot_definition_rel, envr0.
  Qed.
End AnnotRel.

Lemma dfs_ext {X} (body body' : name -> option (list (atom X))) : (forall n, body n = body' n) ->
  forall fuel l v, dfs body fuel l v = dfs body' fuel l v.
Proof.
  intro Hb. induction fuel as [|f IH]; intros l v; [reflexivity|]. cbn [dfs]. revert v.
  induction l as [|a r IHr]; intro v; [reflexivity|]. cbn [dmany].
  assert (E : dstep body (dfs body f) a v = dstep body' (dfs body' f) a v).
  { destruct a as [x|n]; cbn [dstep]; [reflexivity|]. rewrite <- Hb. destruct (mem_name n v); [reflexivity|].
    destruct (body n); [apply IH|reflexivity]. }
  rewrite E. destruct (dstep body' (dfs body' f) a v) as [i1 v1]. rewrite IHr. reflexivity.
Qed.

Section RulesS.
  Variables s s' : sdocument.
  Hypothesis Hs : sqr s s'.
  Variable d : document.

  Definition fer (x y : selection * env) : Prop := fst x = fst y /\ envr (snd x) (snd y).

  Lemma field_events_srel : Forall2 fer (field_events s d) (field_events s' d).
  Proof.
    unfold field_events. apply (F2_flat_map2 aevr); [apply annot_srel, Hs|].
    intros [ev e] [ev' e'] [Hev He]. cbn [fst snd] in *. subst ev'.
    destruct ev as [n|n]; [|constructor]. destruct n; try constructor; [|constructor]. split; [reflexivity|exact He].
  Qed.
  Lemma directive_events_srel : directive_events s d = directive_events s' d.
  Proof.
    unfold directive_events. apply (Forall2_flat_map_eq aevr); [apply annot_srel, Hs|].
    intros [ev e] [ev' e'] [Hev He]. cbn [fst snd] in *. subst ev'. reflexivity.
  Qed.
  Lemma literal_positions_srel : literal_positions s d = literal_positions s' d.
  Proof.
    unfold literal_positions. apply (Forall2_flat_map_eq aevr); [apply annot_srel, Hs|].
    intros [ev e] [ev' e'] [Hev He]. cbn [fst snd] in *. subst ev'. rewrite (er_input_lit _ _ He). reflexivity.
  Qed.
  Definition ssr (x y : option type_def * list selection) : Prop := orel tdr (fst x) (fst y) /\ snd x = snd y.
  Lemma selection_sets_srel : Forall2 ssr (selection_sets s d) (selection_sets s' d).
  Proof.
    unfold selection_sets. apply (F2_flat_map2 aevr); [apply annot_srel, Hs|].
    intros [ev e] [ev' e'] [Hev He]. cbn [fst snd] in *. subst ev'.
    destruct ev as [n|n]; [|constructor]. destruct n; try constructor; [|constructor].
    split; [apply (er_parent _ _ He)|reflexivity].
  Qed.

  (* ---- single-field subscriptions ---- *)
  Lemma applies_srel obj obj' c : tdr obj obj' ->
    fragment_type_applies s obj c = fragment_type_applies s' obj' c.
  Proof.
    intro Ho. unfold fragment_type_applies. destruct (sr_type _ _ Hs c) as [t t' [Hp Hn]|]; [|reflexivity].
    destruct Hp; try reflexivity.
    - rewrite (tdr_name _ _ Ho). reflexivity.
    - apply mem_name_eqset, perm_eqset, ptd_interfaces, Ho.
    - rewrite (tdr_name _ _ Ho). apply mem_name_eqset, perm_eqset. assumption.
  Qed.
  Lemma flatS_srel obj obj' x : tdr obj obj' -> flatS s obj x = flatS s' obj' x.
  Proof.
    intro Ho. induction x as [p al n args dirs sp sels IH|p n dirs|p tc dirs sp sels IH] using selection_ind';
      cbn [flatS]; try reflexivity.
    assert (E : tc_applies s obj tc = tc_applies s' obj' tc) by (destruct tc; [apply applies_srel, Ho|reflexivity]).
    rewrite E. destruct (tc_applies s' obj' tc); [|reflexivity]. apply flat_map_Forall_ext, IH.
  Qed.
  Lemma spec_collect_srel obj obj' sels : tdr obj obj' -> spec_collect s d obj sels = spec_collect s' d obj' sels.
  Proof.
    intro Ho. unfold spec_collect. rewrite !spec_collect_list_flat.
    rewrite (flat_map_all_ext _ (flatS s' obj') sels) by (intro x; apply flatS_srel, Ho).
    rewrite (dfs_ext (bodyS s obj d) (bodyS s' obj' d)); [reflexivity|].
    intro n. unfold bodyS. destruct (find_fragment d n) as [fr|]; [|reflexivity].
    rewrite (applies_srel obj obj' _ Ho). destruct (fragment_type_applies s' obj' (fr_tc fr)); [|reflexivity].
    f_equal. apply flat_map_all_ext. intro x. apply flatS_srel, Ho.
  Qed.
  Lemma q_single_field_subscriptions : v_single_field_subscriptions s d = v_single_field_subscriptions s' d.
  Proof.
    unfold v_single_field_subscriptions. apply existsb_eqset; [apply eqset_refl|]. intros o _.
    destruct (o_kind o); try reflexivity.
    destruct (root_rel s s' Hs OpSubscription) as [t t' Ht|]; [|reflexivity].
    rewrite (spec_collect_srel t t' (o_sels o) Ht). reflexivity.
  Qed.

  (* ---- type names ---- *)
  Lemma q_known_type_names : v_known_type_names s d = v_known_type_names s' d.
  Proof.
    unfold v_known_type_names. apply existsb_eqset; [apply eqset_refl|]. intros n _. unfold type_exists.
    rewrite (orel_is_some _ _ _ (sr_type _ _ Hs n)). reflexivity.
  Qed.
  Lemma q_fragments_on_composite : v_fragments_on_composite s d = v_fragments_on_composite s' d.
  Proof.
    unfold v_fragments_on_composite. apply existsb_eqset; [apply eqset_refl|]. intros n _.
    destruct (sr_type _ _ Hs n) as [t t' Ht|]; [|reflexivity]. rewrite (tdr_is_composite _ _ Ht). reflexivity.
  Qed.
  Lemma q_variables_are_input_types : v_variables_are_input_types s d = v_variables_are_input_types s' d.
  Proof.
    unfold v_variables_are_input_types. apply existsb_eqset; [apply eqset_refl|]. intros t _.
    destruct (sr_type _ _ Hs (inner_type t)) as [x y Ht|]; [|reflexivity]. rewrite (tdr_is_input _ _ Ht). reflexivity.
  Qed.

  (* ---- fields ---- *)
  Lemma q_leaf_field_selections : v_leaf_field_selections s d = v_leaf_field_selections s' d.
  Proof.
    unfold v_leaf_field_selections. apply (F2_existsb fer). eapply Forall2_impl_in; [|apply field_events_srel].
    intros [f e] [f' e'] _ [Hf He]. cbn [fst snd] in *. subst f'.
    destruct (er_type _ _ He) as [t t' Ht|]; [|reflexivity]. rewrite (tdr_is_leaf _ _ Ht). reflexivity.
  Qed.
  Lemma query_root_name_srel : query_root_name s = query_root_name s'.
  Proof. unfold query_root_name. apply (orel_map tdr); [apply root_rel, Hs|apply tdr_name]. Qed.
  Lemma q_fields_on_correct_type : v_fields_on_correct_type s d = v_fields_on_correct_type s' d.
  Proof.
    unfold v_fields_on_correct_type. f_equal.
    apply (F2_existsb fer). eapply Forall2_impl_in; [|apply field_events_srel].
    intros [f e] [f' e'] _ [Hf He]. cbn [fst snd] in *. subst f'.
    destruct (er_parent _ _ He) as [t t' Ht|]; [|reflexivity].
    rewrite <- query_root_name_srel, (tdr_name _ _ Ht).
    rewrite (orel_is_none _ _ _ (tdr_field_by_name t t' (sel_name f) Ht)). reflexivity.
  Qed.

  (* ---- possible fragment spreads ---- *)
  Lemma possible_object_names_srel t t' : tdr t t' ->
    eqset (possible_object_names s t) (possible_object_names s' t').
  Proof.
    intros [Hp Hn]. destruct Hp as [n i i' fs fs' Hi Hf|n i i' fs fs' Hi Hf|n m m' Hm|n|n v v' Hv|n f f' Hf];
      cbn [possible_object_names]; try apply eqset_refl.
    - rewrite (Forall2_flat_map_eq ptd _ (fun o => match o with
                                                    | TDObject m ifs _ => if mem_name n ifs then [m] else []
                                                    | _ => [] end) _ _ (sr_types _ _ Hs)); [apply eqset_refl|].
      intros x y []; try reflexivity. rewrite (mem_name_eqset n i0 i'0); [reflexivity|apply perm_eqset; assumption].
    - apply eqset_flat_map; [apply perm_eqset, Hm|]. intros x _.
      destruct (sr_type _ _ Hs x) as [a b [[] _]|]; apply eqset_refl.
  Qed.
  Lemma types_can_overlap_srel a a' b b' : tdr a a' -> tdr b b' ->
    types_can_overlap s a b = types_can_overlap s' a' b'.
  Proof.
    intros Ha Hb. unfold types_can_overlap. rewrite (tdr_name _ _ Ha), (tdr_name _ _ Hb). f_equal.
    apply existsb_eqset; [apply possible_object_names_srel, Ha|]. intros x _.
    apply mem_name_eqset, possible_object_names_srel, Hb.
  Qed.
  Lemma spread_impossible_srel a a' b b' : orel tdr a a' -> orel tdr b b' ->
    spread_impossible s a b = spread_impossible s' a' b'.
  Proof.
    intros [x x' Hx|] [y y' Hy|]; try reflexivity. cbn [spread_impossible].
    rewrite (tdr_is_composite _ _ Hx), (tdr_is_composite _ _ Hy), (types_can_overlap_srel _ _ _ _ Hx Hy). reflexivity.
  Qed.
  Lemma q_possible_fragment_spreads : v_possible_fragment_spreads s d = v_possible_fragment_spreads s' d.
  Proof.
    unfold v_possible_fragment_spreads. apply (F2_existsb aevr). eapply Forall2_impl_in; [|apply annot_srel, Hs].
    intros [ev e] [ev' e'] _ [Hev He]. cbn [fst snd] in *. subst ev'.
    destruct ev as [n|n]; [|reflexivity]. destruct n; try reflexivity.
    - destruct f as [p al n args dirs sp sels|p n dirs|p tc dirs sp sels]; try reflexivity.
      destruct (find_fragment d n) as [fr|]; [|reflexivity].
      apply spread_impossible_srel; [apply (sr_type _ _ Hs)|apply (er_parent _ _ He)].
    - apply spread_impossible_srel; [apply (er_type _ _ He)|apply (er_parent _ _ He)].
  Qed.

  (* ---- arguments ---- *)
  Lemma args_unknown_srel decls decls' args : orel ivsr decls decls' ->
    v_args_unknown decls args = v_args_unknown decls' args.
  Proof.
    intros [x y [Hp _]|]; [|reflexivity]. cbn [v_args_unknown]. apply existsb_eqset; [apply eqset_refl|].
    intros a _. rewrite (existsb_perm _ _ _ Hp). reflexivity.
  Qed.
  Lemma args_missing_srel decls decls' args : orel ivsr decls decls' ->
    v_args_missing decls args = v_args_missing decls' args.
  Proof. intros [x y [Hp _]|]; [|reflexivity]. cbn [v_args_missing]. apply existsb_perm, Hp. Qed.
  Lemma field_decls_srel x y : fer x y -> orel ivsr (field_decls x) (field_decls y).
  Proof.
    intros [Hf He]. unfold field_decls. rewrite <- Hf.
    apply (orel_map_rel fdr); [apply parent_field_rel, He|apply fdr_args].
  Qed.
  Lemma directive_decls_srel x : orel ivsr (directive_decls s x) (directive_decls s' x).
  Proof. apply directive_decls_rel, Hs. Qed.

  Lemma q_known_argument_names : v_known_argument_names s d = v_known_argument_names s' d.
  Proof.
    unfold v_known_argument_names. rewrite <- directive_events_srel. f_equal.
    - apply (F2_existsb fer). eapply Forall2_impl_in; [|apply field_events_srel].
      intros x y _ H. rewrite <- (proj1 H). apply args_unknown_srel, field_decls_srel, H.
    - apply existsb_eqset; [apply eqset_refl|]. intros x _. apply args_unknown_srel, directive_decls_srel.
  Qed.
  Lemma q_unique_argument_names : v_unique_argument_names s d = v_unique_argument_names s' d.
  Proof.
    unfold v_unique_argument_names. rewrite <- directive_events_srel. f_equal.
    apply (F2_existsb fer). eapply Forall2_impl_in; [|apply field_events_srel].
    intros x y _ H. rewrite <- (proj1 H). reflexivity.
  Qed.
  Lemma q_provided_required_arguments : v_provided_required_arguments s d = v_provided_required_arguments s' d.
  Proof.
    unfold v_provided_required_arguments. rewrite <- directive_events_srel. f_equal.
    - apply (F2_existsb fer). eapply Forall2_impl_in; [|apply field_events_srel].
      intros x y _ H. rewrite <- (proj1 H). apply args_missing_srel, field_decls_srel, H.
    - apply existsb_eqset; [apply eqset_refl|]. intros x _. apply args_missing_srel, directive_decls_srel.
  Qed.

  (* ---- directives ---- *)
  Lemma q_known_directives : v_known_directives s d = v_known_directives s' d.
  Proof.
    unfold v_known_directives. apply existsb_eqset; [apply eqset_refl|]. intros site _.
    apply existsb_eqset; [apply eqset_refl|]. intros x _.
    destruct (sr_dir _ _ Hs (d_name x)) as [a b H|]; [|reflexivity].
    destruct (ddr_fields _ _ H) as (_ & _ & _ & Hl). rewrite (existsb_perm _ _ _ Hl). reflexivity.
  Qed.
  Lemma q_unique_directives_per_location :
    v_unique_directives_per_location s d = v_unique_directives_per_location s' d.
  Proof.
    unfold v_unique_directives_per_location. apply existsb_eqset; [apply eqset_refl|]. intros site _.
    f_equal. f_equal. apply flat_map_all_ext. intro x.
    destruct (sr_dir _ _ Hs (d_name x)) as [a b H|]; [|reflexivity].
    destruct (ddr_fields _ _ H) as (_ & _ & -> & _). reflexivity.
  Qed.

  (* ---- values ---- *)
  Lemma named_spec_simple m v : match v with VObject _ => False | _ => True end ->
    C08_proofs.named_spec s m v = C08_proofs.named_spec s' m v.
  Proof.
    intro Hv. unfold C08_proofs.named_spec. destruct (sr_type _ _ Hs m) as [t t' [Hp Hn]|]; [|reflexivity].
    destruct Hp; try reflexivity.
    - destruct v; try reflexivity. apply mem_name_eqset, perm_eqset. assumption.
    - destruct v; try reflexivity. contradiction.
  Qed.

  Lemma coercibleb_srel : forall v t, coercibleb s v t = coercibleb s' v t.
  Proof.
    intro v.
    induction v as [n|z|b|str|b| |n|l IH|l IH] using value_ind'; intro t;
      induction t as [m|i IHt|i IHt];
      rewrite ?C08_proofs.coercibleb_named, ?C08_proofs.coercibleb_list, ?C08_proofs.coercibleb_nonnull;
      try reflexivity; try exact IHt; try (apply named_spec_simple; exact I).
    - apply forallb_ext_in. intros x Hx. rewrite Forall_forall in IH. apply IH, Hx.
    - unfold C08_proofs.named_spec. destruct (sr_type _ _ Hs m) as [t t' [Hp Hn]|]; [|reflexivity].
      destruct Hp as [| | | | |n f f' Hf]; try reflexivity. cbn [nd_td] in Hn.
      rewrite (forallb_perm _ f f' Hf). f_equal. apply forallb_ext_in. intros kv Hkv.
      rewrite <- (ivs_find f f' (fst kv) (conj Hf Hn)).
      destruct (find_first (fun x => name_eqb (iv_name x) (fst kv)) f) as [x|]; [|reflexivity].
      rewrite Forall_forall in IH. apply (IH kv Hkv).
  Qed.

  Lemma q_values_of_correct_type : v_values_of_correct_type s d = v_values_of_correct_type s' d.
  Proof.
    unfold v_values_of_correct_type. rewrite <- literal_positions_srel.
    apply existsb_eqset; [apply eqset_refl|]. intros tv _. rewrite coercibleb_srel. reflexivity.
  Qed.

  Lemma value_usages_srel v : forall t dflt, value_usages s v t dflt = value_usages s' v t dflt.
  Proof.
    induction v as [n|z|b|str|b| |n|l IH|l IH] using value_ind'; intros t dflt; try reflexivity.
    - cbn [value_usages]. apply flat_map_Forall_ext. eapply Forall_impl; [|exact IH]. intros x Hx. apply Hx.
    - cbn [value_usages]. apply flat_map_Forall_ext. eapply Forall_impl; [|exact IH]. intros kv Hkv. cbv beta zeta.
      rewrite (input_field_lookup_rel s s' Hs). apply Hkv.
  Qed.
  Lemma args_usages_srel decls decls' args : orel ivsr decls decls' ->
    args_usages s decls args = args_usages s' decls' args.
  Proof.
    intro H. unfold args_usages. apply flat_map_all_ext. intro a. cbv beta zeta.
    assert (E : opt_bind decls (fun ds => find_first (fun x => name_eqb (iv_name x) (fst a)) ds) =
                opt_bind decls' (fun ds => find_first (fun x => name_eqb (iv_name x) (fst a)) ds)).
    { destruct H as [x y H|]; [|reflexivity]. cbn [opt_bind]. apply ivs_find, H. }
    rewrite E. apply value_usages_srel.
  Qed.
  Lemma definition_usages_srel x : definition_usages s x = definition_usages s' x.
  Proof.
    unfold definition_usages. apply (Forall2_flat_map_eq aevr); [apply annot_definition_rel; [exact Hs|apply envr0]|].
    intros [ev e] [ev' e'] [Hev He]. cbn [fst snd] in *. subst ev'.
    destruct ev as [n|n]; [|reflexivity]. destruct n; try reflexivity.
    - apply args_usages_srel, directive_decls_srel.
    - apply args_usages_srel. apply (field_decls_srel (f, e) (f, e')). split; [reflexivity|exact He].
  Qed.
  Lemma q_variables_in_allowed_position :
    v_variables_in_allowed_position s d = v_variables_in_allowed_position s' d.
  Proof.
    unfold v_variables_in_allowed_position. apply existsb_eqset; [apply eqset_refl|]. intros o _.
    assert (E : op_usages s d o = op_usages s' d o).
    { unfold op_usages. rewrite definition_usages_srel. f_equal. apply flat_map_all_ext. intro n.
      apply flat_map_all_ext. intro f. rewrite definition_usages_srel. reflexivity. }
    rewrite E. reflexivity.
  Qed.
End RulesS.

(* ------------------------------------------------------------------ field merging *)
Section MergeS.
  Variables s s' : sdocument.
  Hypothesis Hs : sqr s s'.
  Variable d : document.

  Definition cfr (c c' : cfield) : Prop := orel tdr (cf_parent c) (cf_parent c') /\ cf_field c = cf_field c'.

  Lemma inl_parent_srel tc p p' : orel tdr p p' -> orel tdr (inl_parent s tc p) (inl_parent s' tc p').
  Proof.
    intro Hp. unfold inl_parent. destruct tc as [c|]; cbn [opt_bind]; [|exact Hp].
    destruct (sr_type _ _ Hs c) as [t t' Ht|]; [constructor; exact Ht|exact Hp].
  Qed.
  Lemma flatC_srel x : forall p p', orel tdr p p' -> Forall2 (ratom cfr) (flatC s p x) (flatC s' p' x).
  Proof.
    induction x as [q al n args dirs sp sels IH|q n dirs|q tc dirs sp sels IH] using selection_ind';
      intros p p' Hp; cbn [flatC].
    - constructor; [|constructor]. constructor. split; [exact Hp|reflexivity].
    - constructor; [|constructor]. constructor.
    - apply F2_flat_map_same. intros y Hy. rewrite Forall_forall in IH. apply (IH y Hy), inl_parent_srel, Hp.
  Qed.
  Lemma flatC_list_srel p p' l : orel tdr p p' ->
    Forall2 (ratom cfr) (flat_map (flatC s p) l) (flat_map (flatC s' p') l).
  Proof. intro Hp. apply F2_flat_map_same. intros y _. apply flatC_srel, Hp. Qed.

  Lemma collected_srel p p' l : orel tdr p p' -> PermR cfr (collected s d p l) (collected s' d p' l).
  Proof.
    intro Hp. unfold collected, set_fuel. rewrite !collect_set_flat.
    apply (dfs_rel cfr (bodyC s d) (bodyC s' d)) with (U := frag_names d) (U' := frag_names d).
    - intro n. unfold nbody, bodyC. destruct (find_fragment d n) as [fr|]; [|apply PermR_nil].
      apply PermR_F2, flatC_list_srel, (sr_type _ _ Hs).
    - apply bodyC_U.
    - apply bodyC_U.
    - pose proof (filter_length_all (fun k => negb (mem_name k [])) (frag_names d)) as H.
      unfold unvisited, frag_names in *. rewrite map_length in *. lia.
    - pose proof (filter_length_all (fun k => negb (mem_name k [])) (frag_names d)) as H.
      unfold unvisited, frag_names in *. rewrite map_length in *. lia.
    - apply PermR_F2, flatC_list_srel, Hp.
    - apply eqset_refl.
  Qed.

  Lemma cfr_def c c' : cfr c c' -> orel fdr (cf_def c) (cf_def c').
  Proof.
    intros [Hp Hf]. unfold cf_def. rewrite <- Hf. destruct Hp as [t t' Ht|]; cbn [opt_bind]; [|constructor].
    apply tdr_field_by_name, Ht.
  Qed.
  Lemma cfr_key c c' : cfr c c' -> cf_key c = cf_key c'.
  Proof. intros [_ Hf]. unfold cf_key. rewrite Hf. reflexivity. Qed.

  Lemma sub_set_srel c c' : cfr c c' -> PermR cfr (sub_set s d c) (sub_set s' d c').
  Proof.
    intro H. unfold sub_set. rewrite <- (proj2 H).
    rewrite <- (orel_map fdr fd_type fd_type _ _ (cfr_def _ _ H) fdr_type).
    apply collected_srel. destruct (opt_map fd_type (cf_def c)) as [t|]; cbn [opt_bind]; [apply (sr_type _ _ Hs)|constructor].
  Qed.

  Lemma is_leaf_named_srel n : is_leaf_named s n = is_leaf_named s' n.
  Proof. unfold is_leaf_named. destruct (sr_type _ _ Hs n) as [t t' Ht|]; [apply tdr_is_leaf, Ht|reflexivity]. Qed.
  Lemma shape_conflict_srel : forall a b, shape_conflict s a b = shape_conflict s' a b.
  Proof.
    intro a. induction a as [x|x IH|x IH]; intros [y|y|y]; cbn [shape_conflict]; try reflexivity; try apply IH.
    rewrite !is_leaf_named_srel. reflexivity.
  Qed.
  Lemma parents_exclusive_srel a a' b b' : cfr a a' -> cfr b b' -> parents_exclusive a b = parents_exclusive a' b'.
  Proof.
    intros [Ha _] [Hb _]. unfold parents_exclusive.
    destruct Ha as [x x' [Hx _]|]; [|reflexivity]. destruct Hb as [y y' [Hy _]|].
    - destruct Hx, Hy; reflexivity.
    - destruct Hx; reflexivity.
  Qed.

  Lemma cross_all_srel h h' A A' B B' : PermR cfr A A' -> PermR cfr B B' ->
    (forall x x' y y', cfr x x' -> cfr y y' -> h x y = h' x' y') -> cross_all h A B = cross_all h' A' B'.
  Proof.
    intros HA HB Hh. unfold cross_all. apply (PermR_forallb cfr); [exact HA|]. intros x x' _ Hx.
    apply (PermR_forallb cfr); [exact HB|]. intros y y' _ Hy.
    rewrite (cfr_key _ _ Hx), (cfr_key _ _ Hy), (Hh x x' y y' Hx Hy). reflexivity.
  Qed.

  Lemma fcm_srel : forall f m a a' b b', cfr a a' -> cfr b b' ->
    fields_can_merge f s d m a b = fields_can_merge f s' d m a' b'.
  Proof.
    induction f as [|f IH]; intros m a a' b b' Ha Hb; [reflexivity|]. rewrite !fcm_unfold.
    rewrite (parents_exclusive_srel _ _ _ _ Ha Hb), <- (proj2 Ha), <- (proj2 Hb).
    f_equal; [f_equal|].
    - destruct (cfr_def _ _ Ha) as [x x' Hx|], (cfr_def _ _ Hb) as [y y' Hy|]; try reflexivity.
      rewrite (fdr_type _ _ Hx), (fdr_type _ _ Hy), shape_conflict_srel. reflexivity.
    - apply cross_all_srel; [apply sub_set_srel, Ha|apply sub_set_srel, Hb|].
      intros x x' y y' Hx Hy. apply IH; assumption.
  Qed.

  Lemma fisc_srel set set' : PermR cfr set set' ->
    fields_in_set_can_merge s d set = fields_in_set_can_merge s' d set'.
  Proof.
    intros (m & Hp & Hf). unfold fields_in_set_can_merge, same_key_pairs, merge_fuel_spec.
    rewrite !forallb_filter.
    rewrite (pairs_within_forallb (fun a b => negb (name_eqb (cf_key a) (cf_key b)) || fields_can_merge (S (S (doc_fields d))) s d false a b)).
    rewrite (pairs_within_forallb (fun a b => negb (name_eqb (cf_key a) (cf_key b)) || fields_can_merge (S (S (doc_fields d))) s' d false a b)).
    rewrite (pw_all_perm _ set m); [| |exact Hp].
    - apply (pw_all_F2 cfr); [exact Hf|]. intros x x' y y' Hx Hy.
      rewrite (cfr_key _ _ Hx), (cfr_key _ _ Hy), (fcm_srel _ _ _ _ _ _ Hx Hy). reflexivity.
    - intros x y. rewrite name_eqb_sym, fcm_sym. reflexivity.
  Qed.

  Lemma q_overlapping_fields : v_overlapping_fields s d = v_overlapping_fields s' d.
  Proof.
    unfold v_overlapping_fields. apply (F2_existsb ssr). eapply Forall2_impl_in; [|apply selection_sets_srel, Hs].
    intros [p l] [p' l'] _ [Hp Hl]. cbn [fst snd] in *. subst l'. f_equal.
    apply fisc_srel, collected_srel, Hp.
  Qed.
End MergeS.

(* ------------------------------------------------------------------ all rules *)
Theorem violated_srel r s s' d : sqr s s' -> violated r s d = violated r s' d.
Proof.
  intro Hs. destruct r; cbn [violated]; try reflexivity.
  - apply q_single_field_subscriptions, Hs.
  - apply q_known_type_names, Hs.
  - apply q_fragments_on_composite, Hs.
  - apply q_variables_are_input_types, Hs.
  - apply q_leaf_field_selections, Hs.
  - apply q_fields_on_correct_type, Hs.
  - rewrite (q_overlapping_fields s s' Hs d). reflexivity.
  - apply q_possible_fragment_spreads, Hs.
  - apply q_known_argument_names, Hs.
  - apply q_unique_argument_names, Hs.
  - apply q_provided_required_arguments, Hs.
  - apply q_known_directives, Hs.
  - apply q_variables_in_allowed_position, Hs.
  - apply q_values_of_correct_type, Hs.
  - apply q_unique_directives_per_location, Hs.
Qed.

Theorem violated_perm_inside_schema : forall r s s' d,
  perm_inside_schema s s' -> wf_schema s = true ->
  violated r s d = violated r s' d.
Proof. intros r s s' d Hp Hwf. apply violated_srel, sqr_of; assumption. Qed.

Print Assumptions violated_perm_inside_schema.

(* ------------------------------------------------------------------ well-formedness is preserved *)
Section WfS.
  Variables s s' : sdocument.
  Hypothesis Hs : sqr s s'.

  Lemma is_input_named_srel n : is_input_named s n = is_input_named s' n.
  Proof. unfold is_input_named. destruct (sr_type _ _ Hs n) as [t t' Ht|]; [apply tdr_is_input, Ht|reflexivity]. Qed.
  Lemma is_output_named_srel n : is_output_named s n = is_output_named s' n.
  Proof. unfold is_output_named. destruct (sr_type _ _ Hs n) as [t t' [[] _]|]; reflexivity. Qed.

  Lemma wf_input_values_srel a a' : Permutation a a' -> wf_input_values s a = wf_input_values s' a'.
  Proof.
    intro H. unfold wf_input_values. rewrite (nodup_names_perm _ _ (Permutation_map iv_name H)). f_equal.
    rewrite (forallb_perm _ _ _ H). apply forallb_ext_in. intros iv _. apply is_input_named_srel.
  Qed.
  Lemma pfd_fields f f' : pfd f f' -> fd_name f = fd_name f' /\ fd_type f = fd_type f' /\ Permutation (fd_args f) (fd_args f').
  Proof. intros []. cbn. repeat split. assumption. Qed.
  Lemma wf_fields_srel fs fs' : PermR pfd fs fs' -> wf_fields s fs = wf_fields s' fs'.
  Proof.
    intro H. unfold wf_fields. f_equal.
    - apply nodup_names_perm, PermR_eq_perm. apply (PermR_map pfd); [exact H|]. intros x y _. apply pfd_name.
    - apply (PermR_forallb pfd); [exact H|]. intros f f' _ Hf. destruct (pfd_fields _ _ Hf) as (_ & Ht & Ha).
      rewrite Ht, is_output_named_srel, (wf_input_values_srel _ _ Ha). reflexivity.
  Qed.

  Lemma is_possible_type_srel a a' b b' : tdr a a' -> tdr b b' -> is_possible_type a b = is_possible_type a' b'.
  Proof.
    intros [Ha _] Hb. destruct Ha; cbn [is_possible_type]; try reflexivity.
    - apply mem_name_eqset, perm_eqset, ptd_interfaces, Hb.
    - rewrite (tdr_name _ _ Hb). apply existsb_perm. assumption.
  Qed.
  Lemma tdr_kind t t' : tdr t t' ->
    td_is_abstract t = td_is_abstract t' /\ td_is_interface t = td_is_interface t' /\ td_is_object t = td_is_object t'.
  Proof. intros [[] _]; repeat split. Qed.
  Lemma is_subtype_fuel_srel : forall fuel a b, is_subtype_fuel fuel s a b = is_subtype_fuel fuel s' a b.
  Proof.
    induction fuel as [|f IH]; intros a b; [reflexivity|]. cbn [is_subtype_fuel]. rewrite !IH.
    destruct (sr_type _ _ Hs (inner_type a)) as [x x' Hx|], (sr_type _ _ Hs (inner_type b)) as [y y' Hy|];
      try reflexivity.
    destruct (tdr_kind _ _ Hx) as (_ & E2 & E3). destruct (tdr_kind _ _ Hy) as (E1 & _ & _).
    rewrite E1, E2, E3, (is_possible_type_srel _ _ _ _ Hy Hx). reflexivity.
  Qed.
  Lemma is_subtype_srel a b : is_subtype s a b = is_subtype s' a b.
  Proof. apply is_subtype_fuel_srel. Qed.

  Lemma implements_fields_srel impl impl' ifs ifs' :
    PermR pfd impl impl' -> nodup_names (map fd_name impl) = true -> Forall nd_fd impl -> PermR pfd ifs ifs' ->
    implements_fields s impl ifs = implements_fields s' impl' ifs'.
  Proof.
    intros Hi Hn Hnd Hf. unfold implements_fields. apply (PermR_forallb pfd); [exact Hf|].
    intros fi fi' _ Hfi. destruct (pfd_fields _ _ Hfi) as (En & Et & Ea). rewrite <- En, <- Et.
    destruct (fields_find impl impl' (fd_name fi) Hi Hn Hnd) as [f f' Hff|]; [|reflexivity].
    rewrite (fdr_type _ _ Hff), is_subtype_srel. f_equal.
    rewrite (forallb_perm _ _ _ Ea). apply forallb_ext_in. intros ai _.
    rewrite (ivs_find _ _ (iv_name ai) (fdr_args _ _ Hff)). reflexivity.
  Qed.

  Lemma wf_implements_srel i i' fs fs' :
    Permutation i i' -> PermR pfd fs fs' -> nodup_names (map fd_name fs) = true -> Forall nd_fd fs ->
    wf_implements s i fs = wf_implements s' i' fs'.
  Proof.
    intros Hi Hf Hn Hnd. unfold wf_implements. rewrite (nodup_names_perm _ _ Hi). f_equal.
    rewrite (forallb_perm _ _ _ Hi). apply forallb_ext_in. intros x _.
    destruct (sr_type _ _ Hs x) as [t t' [Hp Hnt]|]; [|reflexivity].
    destruct Hp as [|n j j' gs gs' Hj Hg| | | |]; try reflexivity.
    rewrite (implements_fields_srel fs fs' gs gs' Hf Hn Hnd Hg). f_equal.
    rewrite (forallb_perm _ _ _ Hj). apply forallb_ext_in. intros k _. apply mem_name_eqset, perm_eqset, Hi.
  Qed.

  Lemma wf_type_srel t t' : tdr t t' -> wf_type s t = wf_type s' t'.
  Proof.
    intros [Hp Hn]. destruct Hp as [n i i' fs fs' Hi Hf|n i i' fs fs' Hi Hf|n m m' Hm|n|n v v' Hv|n f f' Hf];
      cbn [wf_type nd_td] in *.
    - destruct Hn as [Hn Hnd]. rewrite (wf_fields_srel _ _ Hf), (wf_implements_srel _ _ _ _ Hi Hf Hn Hnd). reflexivity.
    - destruct Hn as [Hn Hnd]. rewrite (wf_fields_srel _ _ Hf), (wf_implements_srel _ _ _ _ Hi Hf Hn Hnd).
      rewrite (mem_name_eqset n _ _ (perm_eqset _ _ Hi)). reflexivity.
    - rewrite (nodup_names_perm _ _ Hm), (forallb_perm _ _ _ Hm). f_equal. apply forallb_ext_in. intros x _.
      destruct (sr_type _ _ Hs x) as [a b [[] _]|]; reflexivity.
    - reflexivity.
    - apply nodup_names_perm, Hv.
    - apply wf_input_values_srel, Hf.
  Qed.

  Lemma ivs_proper_perm a a' : Permutation a a' -> ivs_proper a = ivs_proper a'.
  Proof. apply forallb_perm. Qed.
  Lemma type_proper_srel t t' : ptd t t' -> type_proper t = type_proper t'.
  Proof.
    intros [n i i' fs fs' Hi Hf|n i i' fs fs' Hi Hf|n m m' Hm|n|n v v' Hv|n f f' Hf]; cbn [type_proper]; try reflexivity;
      try (apply ivs_proper_perm, Hf);
      (unfold fields_proper; apply (PermR_forallb pfd); [exact Hf|]; intros x y _ Hxy;
       destruct (pfd_fields _ _ Hxy) as (_ & -> & Ha); rewrite (ivs_proper_perm _ _ Ha); reflexivity).
  Qed.
End WfS.

Lemma perm_inside_directive_defs s s' : perm_inside_schema s s' -> Forall2 pdd (directive_defs s) (directive_defs s').
Proof.
  induction 1 as [|x y r r' Hxy _ IH]; [constructor|].
  destruct Hxy; cbn [directive_defs flat_map app]; try exact IH. constructor; assumption.
Qed.
Lemma perm_inside_schema_defs s s' : perm_inside_schema s s' -> schema_defs s = schema_defs s'.
Proof.
  induction 1 as [|x y r r' Hxy _ IH]; [reflexivity|].
  destruct Hxy; cbn [schema_defs flat_map app]; try exact IH. f_equal. exact IH.
Qed.

Theorem wf_schema_perm_inside : forall s s', perm_inside_schema s s' -> wf_schema s = true -> wf_schema s' = true.
Proof.
  intros s s' Hp Hwf. pose proof (sqr_of s s' Hp Hwf) as Hs. rewrite <- Hwf. symmetry. unfold wf_schema.
  assert (Htd : Forall2 tdr (type_defs s) (type_defs s')).
  { eapply Forall2_impl_in; [|apply (sr_types _ _ Hs)]. intros t t' Ht Hpt. split; [exact Hpt|].
    pose proof (wf_types s Hwf) as H. rewrite forallb_forall in H. eapply wf_type_nd, H, Ht. }
  pose proof (perm_inside_directive_defs s s' Hp) as Hdd.
  assert (Ere : forall k, root_entry_ok s k = root_entry_ok s' k).
  { intro k. unfold root_entry_ok, root_name. rewrite <- (sr_schema _ _ Hs).
    destruct (match find_schema_def s with
              | Some sd => match k with OpSelSet | OpQuery => sd_query sd | OpMutation => sd_mutation sd | OpSubscription => sd_subscription sd end
              | None => Some (default_root_name k) end) as [n|]; [|reflexivity].
    rewrite (orel_is_some _ _ _ (object_type_by_name_rel s s' Hs n)). reflexivity. }
  assert (E1 : map td_name (type_defs s) = map td_name (type_defs s'))
    by (apply (Forall2_map_eq tdr); [exact Htd|apply tdr_name]).
  assert (E2 : map dd_name (directive_defs s) = map dd_name (directive_defs s'))
    by (apply (Forall2_map_eq pdd); [exact Hdd|apply pdd_name]).
  assert (E3 : forallb (fun x => match x with SDTypeExt _ => false | _ => true end) s =
               forallb (fun x => match x with SDTypeExt _ => false | _ => true end) s').
  { apply F2_forallb. eapply Forall2_impl_in; [|exact Hp]. intros x y _ []; reflexivity. }
  assert (E4 : query_entry_ok s = query_entry_ok s') by (unfold query_entry_ok; rewrite (sr_schema _ _ Hs); reflexivity).
  assert (E5 : forallb (wf_type s) (type_defs s) = forallb (wf_type s') (type_defs s')).
  { apply F2_forallb. eapply Forall2_impl_in; [|exact Htd]. intros t t' _ Ht. apply wf_type_srel; assumption. }
  assert (E6 : forallb (fun x => wf_input_values s (dd_args x)) (directive_defs s) =
               forallb (fun x => wf_input_values s' (dd_args x)) (directive_defs s')).
  { apply F2_forallb. eapply Forall2_impl_in; [|exact Hdd]. intros x y _ [].
    cbn [dd_args]. apply wf_input_values_srel; assumption. }
  assert (E7 : schema_types_proper s = schema_types_proper s').
  { unfold schema_types_proper. f_equal.
    - apply F2_forallb. eapply Forall2_impl_in; [|apply (sr_types _ _ Hs)]. intros t t' _. apply type_proper_srel.
    - apply F2_forallb. eapply Forall2_impl_in; [|exact Hdd]. intros x y _ []. cbn [dd_args]. apply ivs_proper_perm. assumption. }
  rewrite E1, E2, E3, (perm_inside_schema_defs s s' Hp), E4, (orel_is_some _ _ _ (root_rel s s' Hs OpQuery)),
    (Ere OpMutation), (Ere OpSubscription), E5, E6, E7. reflexivity.
Qed.

(* ------------------------------------------------------------------ the model's verdicts *)
Lemma rule_in_scope_srel r s s' d : sqr s s' -> rule_in_scope r s d = rule_in_scope r s' d.
Proof.
  intro Hs. destruct r; cbn [rule_in_scope]; try reflexivity.
  - rewrite (q_unique_argument_names s s' Hs d). reflexivity.
  - rewrite (q_variables_are_input_types s s' Hs d). reflexivity.
Qed.

Theorem run_alone_perm_inside_schema : forall r s s' d,
  r <> R_OverlappingFieldsCanBeMerged ->
  wf_schema s = true ->
  doc_types_proper d = true -> defaults_const d = true ->
  distinct_fragments d = true -> rule_in_scope r s d = true ->
  perm_inside_schema s s' ->
  (run_alone r s d = [] <-> run_alone r s' d = []).
Proof.
  intros r s s' d Hr Hwf Hty Hdc Hdf Hsc Hp.
  pose proof (sqr_of s s' Hp Hwf) as Hs.
  pose proof (wf_schema_perm_inside s s' Hp Hwf) as Hwf'.
  assert (Hside : side r s d) by (repeat split; assumption).
  assert (Hside' : side r s' d).
  { rewrite (rule_in_scope_srel r s s' d Hs) in Hsc. repeat split; assumption. }
  rewrite (nil_iff_false _ _ (rule_iff r s d Hr Hside)).
  rewrite (nil_iff_false _ _ (rule_iff r s' d Hr Hside')).
  rewrite (violated_srel r s s' d Hs). reflexivity.
Qed.

Print Assumptions wf_schema_perm_inside.
Print Assumptions run_alone_perm_inside_schema.

(* C05_frag_proofs.v — OverlappingFieldsCanBeMerged with named fragment spreads: the lemmas for
   properties/C05.v (additions).
   - merge_sound_acyclic (C05_frag_sound.v): every reported conflict is a violation;
   - C05_statement_counterexample: the unrestricted statement C05_statement is false (an inline
     fragment whose type condition names an unknown type). *)
From GT Require Import Visitor Validate Merge Sexp.
From GTS Require Import Annot WfSchema SpecRules SpecMerge SpecValid.
From GTP Require Export C05_frag_graph C05_frag_spec C05_frag_sound.
Local Open Scope string_scope.

(* ------------------------------------------------------------------ a counterexample to the full statement *)
(* schema:  type Query { q: T }  type T { f: U }  type U { x: Int }  type A { x: String }
   document:
     { q { ...G }  q { ...G } }
     fragment G on T { ... on Unknown { f { x  ... on A { x } } } }
   The collected set of the operation's selection set contains the two fields q; their sub-selections
   both expand G, so FieldsInSetCanMerge compares f with itself and, below it, U.x : Int with
   A.x : String (the parent of f is T: the collection falls back to the enclosing type when the
   type condition is unknown, exactly as collect_fields_and_fragment_names does).  The rule compares
   the fields below f only when it visits the selection set of f, and there the visitor's parent type
   is None (it does not fall back), so x has no definition and no type conflict is seen. *)
Definition cx_schema_text : string :=
  "(sdoc (object Query () ((fd q () T))) (object T () ((fd f () U))) (object U () ((fd x () Int))) (object A () ((fd x () String))) (scalar Boolean) (scalar Float) (scalar Int) (scalar ID) (scalar String))".
Definition cx_schema : sdocument :=
  match parse_line cx_schema_text with
  | Some [x] => match d_sdocument x with Some s => s | None => [] end
  | _ => []
  end.
Definition cx_sp0 : span := ((0%N, 0%N), (0%N, 0%N)).
Definition cx_fld (p : N) (n : name) (sels : list selection) : selection := SField (p, 0%N) None n [] [] cx_sp0 sels.
Definition cx_doc : document :=
  [ DOp (mkOperation OpQuery (100%N, 0%N) None [] [] cx_sp0
           [cx_fld 1 "q" [SSpread (2%N, 0%N) "G" []]; cx_fld 3 "q" [SSpread (4%N, 0%N) "G" []]]);
    DFrag (mkFragment (10%N, 0%N) "G" "T" [] cx_sp0
             [SInline (11%N, 0%N) (Some "Unknown") [] cx_sp0
                [cx_fld 12 "f" [cx_fld 13 "x" []; SInline (14%N, 0%N) (Some "A") [] cx_sp0 [cx_fld 15 "x" []]]]]) ].

Lemma C05_statement_counterexample :
  wf_schema cx_schema = true /\
  rule_in_scope R_OverlappingFieldsCanBeMerged cx_schema cx_doc = true /\
  run_alone R_OverlappingFieldsCanBeMerged cx_schema cx_doc = [] /\
  violated R_OverlappingFieldsCanBeMerged cx_schema cx_doc = true.
Proof. vm_compute. repeat split. Qed.

Lemma C05_statement_false :
  ~ (forall s d, wf_schema s = true -> rule_in_scope R_OverlappingFieldsCanBeMerged s d = true ->
       (run_alone R_OverlappingFieldsCanBeMerged s d <> [] <-> violated R_OverlappingFieldsCanBeMerged s d = true)).
Proof.
  intro H. destruct C05_statement_counterexample as [H1 [H2 [H3 H4]]].
  apply (proj2 (H cx_schema cx_doc H1 H2) H4). exact H3.
Qed.

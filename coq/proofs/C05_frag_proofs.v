(* C05_frag_proofs.v — OverlappingFieldsCanBeMerged with named fragment spreads: the lemmas for
   properties/C05.v (additions).
   - merge_sound_acyclic (C05_frag_sound.v): every reported conflict is a violation;
   - merge_complete_no_oof (C05_frag_doc.v): every violation is found, unless the search ran out of fuel;
   - merge_fuel_sufficient_acyclic (C05_frag_fuel.v): it never does on documents without fragment cycles;
   - merge_iff_acyclic: the rule fires exactly when the specification is violated;
   - C05_statement_counterexample: the unrestricted statement C05_statement is false (an inline
     fragment whose type condition names an unknown type), hence the hypothesis
     [inline_conditions_known]. *)
From GT Require Import Visitor Validate Merge Sexp.
From GTS Require Import Annot WfSchema SpecRules SpecMerge SpecValid.
From GTP Require Export C05_frag_graph C05_frag_spec C05_frag_sound C05_frag_annot C05_frag_rank
     C05_frag_complete C05_frag_global C05_frag_doc C05_frag_fuel.
Local Open Scope string_scope.

(* ------------------------------------------------------------------ the rule with named fragment spreads *)
Theorem merge_iff_acyclic : forall s d,
  wf_schema s = true -> rule_in_scope R_OverlappingFieldsCanBeMerged s d = true ->
  NoDup (map node_pos (filter (fun x => match x with SField _ _ _ _ _ _ _ => true | _ => false end) (doc_selections d))) ->
  inline_conditions_known s d = true ->
  (run_alone R_OverlappingFieldsCanBeMerged s d <> [] <-> violated R_OverlappingFieldsCanBeMerged s d = true).
Proof.
  intros s d Hwf Hscope Hpos Hknown. split.
  - apply (merge_sound_acyclic s d Hwf Hscope).
  - apply (merge_complete_no_oof s d Hwf Hscope Hpos Hknown).
    apply merge_fuel_sufficient_acyclic. cbn [rule_in_scope] in Hscope.
    apply andb_prop in Hscope. destruct Hscope as [Hscope _]. apply andb_prop in Hscope. destruct Hscope as [_ H].
    apply negb_true_iff in H. exact H.
Qed.

(* the side condition on inline type conditions follows from KnownTypeNames when no type condition
   names a type of the introspection system that the schema does not define *)
Lemma inline_conditions_known_of_known_types s d :
  violated R_KnownTypeNames s d = false ->
  (forall n, In n (type_conditions d) -> mem_name n introspection_type_names = true -> type_by_name s n <> None) ->
  inline_conditions_known s d = true.
Proof.
  intros Hk Hi. unfold inline_conditions_known. apply forallb_forall. intros x Hx.
  destruct x as [p al n args dirs sp sels|p n dirs|p [tc|] dirs sp sels]; try reflexivity.
  cbn [tc_ok]. cbn [violated] in Hk. unfold v_known_type_names in Hk.
  assert (Hin : In tc (type_conditions d)).
  { unfold type_conditions. apply in_or_app. right. apply in_flat_map.
    exists (SInline p (Some tc) dirs sp sels). split; [exact Hx|left; reflexivity]. }
  destruct (type_by_name s tc) as [t|] eqn:E; [reflexivity|]. exfalso.
  assert (Hex : existsb (fun n => negb (type_exists s n)) (type_conditions d ++ map inner_type (variable_types d)) = true).
  { apply existsb_exists. exists tc. split; [apply in_or_app; left; exact Hin|]. unfold type_exists. rewrite E. cbn [is_some orb].
    destruct (mem_name tc introspection_type_names) eqn:Em; [|reflexivity].
    exfalso. apply (Hi tc Hin Em). exact E. }
  rewrite Hex in Hk. discriminate.
Qed.

(* ------------------------------------------------------------------ a counterexample to the full statement *)
(* schema:  type Query { q: T }  type T { f: U }  type U { x: Int }  type A { x: String }
   document:
     { q { ...G }  q { ...G } }
     fragment G on T { ... on Unknown { f { x  ... on A { x } } } }
   The collected set of the operation's selection set contains the two fields q; their sub-selections
   both expand G, so FieldsInSetCanMerge compares f with itself and, below it, U.x : Int with
   A.x : String (the parent of f is T: the collection falls back to the enclosing type when the
   type condition is unknown, exactly as collect_fields_and_fragment_names does).  The rule compares
   the fields below f only when it visits the selection set of f, and there the visitor's parent type
   is None (it does not fall back), so x has no definition and no type conflict is seen. *)
Definition cx_schema_text : string :=
  "(sdoc (object Query () ((fd q () T))) (object T () ((fd f () U))) (object U () ((fd x () Int))) (object A () ((fd x () String))) (scalar Boolean) (scalar Float) (scalar Int) (scalar ID) (scalar String))".
Definition cx_schema : sdocument :=
  match parse_line cx_schema_text with
  | Some [x] => match d_sdocument x with Some s => s | None => [] end
  | _ => []
  end.
Definition cx_sp0 : span := ((0%N, 0%N), (0%N, 0%N)).
Definition cx_fld (p : N) (n : name) (sels : list selection) : selection := SField (p, 0%N) None n [] [] cx_sp0 sels.
Definition cx_doc : document :=
  [ DOp (mkOperation OpQuery (100%N, 0%N) None [] [] cx_sp0
           [cx_fld 1 "q" [SSpread (2%N, 0%N) "G" []]; cx_fld 3 "q" [SSpread (4%N, 0%N) "G" []]]);
    DFrag (mkFragment (10%N, 0%N) "G" "T" [] cx_sp0
             [SInline (11%N, 0%N) (Some "Unknown") [] cx_sp0
                [cx_fld 12 "f" [cx_fld 13 "x" []; SInline (14%N, 0%N) (Some "A") [] cx_sp0 [cx_fld 15 "x" []]]]]) ].

Lemma C05_statement_counterexample :
  wf_schema cx_schema = true /\
  rule_in_scope R_OverlappingFieldsCanBeMerged cx_schema cx_doc = true /\
  run_alone R_OverlappingFieldsCanBeMerged cx_schema cx_doc = [] /\
  violated R_OverlappingFieldsCanBeMerged cx_schema cx_doc = true.
Proof. vm_compute. repeat split. Qed.

Lemma C05_statement_false :
  ~ (forall s d, wf_schema s = true -> rule_in_scope R_OverlappingFieldsCanBeMerged s d = true ->
       (run_alone R_OverlappingFieldsCanBeMerged s d <> [] <-> violated R_OverlappingFieldsCanBeMerged s d = true)).
Proof.
  intro H. destruct C05_statement_counterexample as [H1 [H2 [H3 H4]]].
  apply (proj2 (H cx_schema cx_doc H1 H2) H4). exact H3.
Qed.

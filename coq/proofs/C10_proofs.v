(* C10_proofs.v — UniqueDirectivesPerLocation fires exactly when the specification predicate holds
   (for well-formed schemas). *)
From GT Require Import Visitor Validate.
From GTS Require Import SpecLin Annot WfSchema SpecCollect SpecRules SpecValid.
From GTP Require Import VisitorFacts TraceFacts RuleFacts EventFacts StatelessFacts C04_proofs C09_proofs.

(* ================================================================ one directive list *)
Definition cdd_step (s : sdocument) (acc : list name * list verror) (d : directive) : list name * list verror :=
  match directive_map_get s (d_name d) with
  | Some dd =>
      if dd_repeatable dd then acc
      else if mem_name (d_name d) (fst acc)
           then (fst acc, snd acc ++ [err R_UniqueDirectivesPerLocation [d_pos d]])
           else (fst acc ++ [d_name d], snd acc)
  | None => acc
  end.

Lemma check_duplicate_directive_fold s dirs :
  check_duplicate_directive s dirs = snd (fold_left (cdd_step s) dirs ([], [])).
Proof. reflexivity. Qed.

(* the names of the non-repeatable declared directives of a list, in order *)
Definition unique_names (s : sdocument) (dirs : list directive) : list name :=
  flat_map (fun x => match directive_by_name s (d_name x) with
                     | Some dd => if dd_repeatable dd then [] else [d_name x]
                     | None => []
                     end) dirs.

Lemma cdd_fold s (Hwf : wf_schema s = true) dirs : forall acc done,
  (forall n, mem_name n (fst acc) = mem_name n done) ->
  is_nil (snd acc) = nodup_names done ->
  is_nil (snd (fold_left (cdd_step s) dirs acc)) = nodup_names (done ++ unique_names s dirs).
Proof.
  induction dirs as [|x rest IH]; intros acc done Hmem Herr; cbn [fold_left].
  - unfold unique_names. cbn [flat_map]. rewrite app_nil_r. exact Herr.
  - unfold unique_names. cbn [flat_map]. fold (unique_names s rest). rewrite app_assoc.
    unfold cdd_step at 2. rewrite (directive_map_get_wf s (d_name x) Hwf).
    destruct (directive_by_name s (d_name x)) as [dd|].
    + destruct (dd_repeatable dd).
      * rewrite app_nil_r. apply IH; assumption.
      * destruct (mem_name (d_name x) (fst acc)) eqn:E.
        -- apply IH; cbn [fst snd].
           ++ intro n. rewrite mem_name_app. cbn [mem_name existsb]. rewrite orb_false_r.
              fold (mem_name n done). rewrite (Hmem n).
              destruct (name_eqb n (d_name x)) eqn:En; [|rewrite orb_false_r; reflexivity].
              apply name_eqb_eq in En. subst n. rewrite <- (Hmem (d_name x)), E. reflexivity.
           ++ rewrite is_nil_app, andb_false_r, nodup_names_snoc, <- (Hmem (d_name x)), E, andb_false_r.
              reflexivity.
        -- apply IH; cbn [fst snd].
           ++ intro n. rewrite !mem_name_app, (Hmem n). reflexivity.
           ++ rewrite nodup_names_snoc, <- (Hmem (d_name x)), E, andb_true_r. exact Herr.
    + rewrite app_nil_r. apply IH; assumption.
Qed.

Lemma check_duplicate_directive_spec s dirs : wf_schema s = true ->
  negb (is_nil (check_duplicate_directive s dirs)) = negb (nodup_names (unique_names s dirs)).
Proof.
  intro Hwf. rewrite check_duplicate_directive_fold. f_equal.
  apply (cdd_fold s Hwf dirs ([], []) []); reflexivity.
Qed.

(* ================================================================ the rule *)
Definition udl_pk (s : sdocument) (n : node) : list verror :=
  match n with
  | NOperation o => check_duplicate_directive s (op_directives o)
  | NField (SField _ _ _ _ dirs _ _) => check_duplicate_directive s dirs
  | NFragmentDef f => check_duplicate_directive s (fr_dirs f)
  | NSpread (SSpread _ _ dirs) => check_duplicate_directive s dirs
  | NInline (SInline _ _ dirs _ _) => check_duplicate_directive s dirs
  | _ => []
  end.

Lemma udl_stateless s : stateless (udl_step s) (fun e _ => pick (udl_pk s) e).
Proof.
  intros st e c. destruct e as [n|n]; [destruct n|]; cbn [udl_step pick udl_pk]; rewrite ?app_nil_r; try reflexivity.
  - destruct f; rewrite ?app_nil_r; reflexivity.
  - destruct f; rewrite ?app_nil_r; reflexivity.
  - destruct f; rewrite ?app_nil_r; reflexivity.
Qed.

(* the errors of the rule, site by site *)
Lemma udl_run s d :
  run_alone R_UniqueDirectivesPerLocation s d =
  flat_map (fun site : dir_loc * list directive => check_duplicate_directive s (snd site)) (directive_sites d).
Proof.
  unfold run_alone. cbn [run_rule]. rewrite run_plain.
  rewrite (stateless_run s d ctx0 (udl_stateless s)). cbn [snd].
  rewrite (flat_map_ctr_events s d ctx0 (pick (udl_pk s))).
  rewrite pick_document by (intros n H; destruct n; (discriminate H || reflexivity)).
  cbn [udl_pk app]. rewrite directive_sites_eq, flat_map_flat_map. apply flat_map_all_ext.
  assert (Hn : forall l, flat_map (node_pick (udl_pk s)) l
                         = flat_map (fun site : dir_loc * list directive => check_duplicate_directive s (snd site))
                                    (map sel_site l)).
  { intro l. rewrite flat_map_map. apply flat_map_all_ext.
    intros [? ? ? ? ? ? ?|? ? ?|? ? ? ? ?]; unfold node_pick, dirs_pick;
      cbn [sel_node sel_dirs sel_set_pick udl_pk sel_site snd]; rewrite flat_map_nil_fn, app_nil_r; reflexivity. }
  intros [o|f]; cbn [def_pick def_site def_sels flat_map snd]; unfold dirs_pick; cbn [udl_pk];
    rewrite ?flat_map_nil_fn; cbn [app]; rewrite Hn; reflexivity.
Qed.

Lemma unique_directives_iff : forall s d, wf_schema s = true ->
  (run_alone R_UniqueDirectivesPerLocation s d <> [] <-> violated R_UniqueDirectivesPerLocation s d = true).
Proof.
  intros s d Hwf. rewrite udl_run, flat_map_nonempty_existsb.
  cbn [violated]. unfold v_unique_directives_per_location.
  apply iff_true_eq. apply existsb_ext_fn. intros [loc dirs]. cbn [snd].
  rewrite is_nil_match. apply (check_duplicate_directive_spec s dirs Hwf).
Qed.

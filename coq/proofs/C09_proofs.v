(* C09_proofs.v — UniqueArgumentNames and ProvidedRequiredArguments fire exactly when the
   specification predicate holds (for well-formed schemas). *)
From GT Require Import Visitor Validate.
From GTS Require Import SpecLin Annot WfSchema SpecCollect SpecRules SpecValid.
From GTP Require Import VisitorFacts TraceFacts RuleFacts EventFacts StatelessFacts C04_proofs.

(* ================================================================ counting names *)
Lemma al_get_set {V} n n0 (v : V) m :
  al_get n (al_set n0 v m) = if name_eqb n n0 then Some v else al_get n m.
Proof.
  induction m as [|[k' v'] r IH]; cbn [al_set al_get]; [reflexivity|].
  destruct (name_eqb n0 k') eqn:E0; cbn [al_get].
  - apply name_eqb_eq in E0. subst k'. destruct (name_eqb n n0); reflexivity.
  - rewrite IH. destruct (name_eqb n k') eqn:E1; [|reflexivity].
    apply name_eqb_eq in E1. subst k'. rewrite name_eqb_sym, E0. reflexivity.
Qed.

Lemma al_get_app {V} n (m m' : list (name * V)) :
  al_get n (m ++ m') = match al_get n m with Some v => Some v | None => al_get n m' end.
Proof.
  induction m as [|[k' v'] r IH]; cbn [app al_get]; [reflexivity|].
  destruct (name_eqb n k'); [reflexivity|exact IH].
Qed.

Definition big (m : list (name * nat)) : bool := existsb (fun kv : name * nat => Nat.ltb 1 (snd kv)) m.

Lemma big_set n v0 m : al_get n m = Some v0 -> 1 <= v0 -> big (al_set n (S v0) m) = true.
Proof.
  intros Hget Hv. induction m as [|[k' v'] r IH]; cbn [al_get al_set] in *; [discriminate|].
  destruct (name_eqb n k').
  - unfold big. cbn [existsb snd]. replace (Nat.ltb 1 (S v0)) with true; [reflexivity|].
    symmetry. apply Nat.ltb_lt. lia.
  - unfold big in *. cbn [existsb]. rewrite (IH Hget). apply orb_true_r.
Qed.

Definition counts_inv (m : list (name * nat)) (seen : list name) : Prop :=
  forall n, match al_get n m with
            | Some v => mem_name n seen = true /\ 1 <= v
            | None => mem_name n seen = false
            end.

Lemma counts_fold names : forall m seen,
  counts_inv m seen -> big m = negb (nodup_names seen) ->
  big (fold_left (fun m n => count_incr n m) names m) = negb (nodup_names (seen ++ names)).
Proof.
  induction names as [|n0 rest IH]; intros m seen Hinv Hbig; cbn [fold_left].
  - rewrite app_nil_r. exact Hbig.
  - replace (seen ++ n0 :: rest) with ((seen ++ [n0]) ++ rest) by (rewrite <- app_assoc; reflexivity).
    pose proof (Hinv n0) as H0. unfold count_incr.
    destruct (al_get n0 m) as [v0|] eqn:E0.
    + destruct H0 as [Hmem Hv]. apply IH.
      * intro n. rewrite al_get_set, mem_name_app. cbn [mem_name existsb].
        destruct (name_eqb n n0) eqn:En.
        -- split; [rewrite orb_true_r; reflexivity|lia].
        -- rewrite !orb_false_r. apply Hinv.
      * rewrite (big_set n0 v0 m E0 Hv), nodup_names_snoc, Hmem, andb_false_r. reflexivity.
    + apply IH.
      * intro n. rewrite al_get_app, mem_name_app. cbn [mem_name existsb al_get].
        pose proof (Hinv n) as Hn. destruct (al_get n m) as [v|].
        -- destruct Hn as [Hn Hv]. split; [fold (mem_name n seen); rewrite Hn; reflexivity|exact Hv].
        -- fold (mem_name n seen). rewrite Hn. destruct (name_eqb n n0); [split; [reflexivity|lia]|reflexivity].
      * unfold big in *. rewrite existsb_app. cbn [existsb snd]. rewrite Hbig, nodup_names_snoc, H0.
        cbn [negb Nat.ltb Nat.leb]. rewrite !orb_false_r, andb_true_r. reflexivity.
Qed.

Lemma fold_left_map_fn {A B C} (f : A -> B -> A) (g : C -> B) l a :
  fold_left (fun a x => f a (g x)) l a = fold_left f (map g l) a.
Proof. revert a. induction l as [|x r IH]; intro a; cbn; [reflexivity|apply IH]. Qed.

(* ================================================================ UniqueArgumentNames *)
Lemma uan_errors_dup p args : negb (is_nil (uan_errors p args)) = v_args_duplicated args.
Proof.
  unfold uan_errors, v_args_duplicated. cbv zeta. rewrite is_nil_flat_map, negb_involutive.
  unfold argument. rewrite (fold_left_map_fn (fun m n => count_incr n m) fst args []).
  change (map fst args) with ([] ++ map fst args) at 2.
  rewrite <- (counts_fold (map fst args) [] []).
  - unfold big. apply existsb_ext_fn. intros [k v]. cbn [snd]. destruct (Nat.ltb 1 v); reflexivity.
  - intro n. reflexivity.
  - reflexivity.
Qed.

Definition uan_g (e : event) (a : answers) : list verror :=
  match e with
  | Enter (NField (SField p _ _ args _ _ _)) => uan_errors p args
  | Enter (NDirective d) => uan_errors (d_pos d) (d_args d)
  | _ => []
  end.

Lemma uan_stateless : stateless uan_step (fun e c => uan_g e (answers_of c)).
Proof.
  intros st e c. destruct e as [n|n]; [destruct n|]; cbn [uan_step uan_g]; rewrite ?app_nil_r; try reflexivity.
  destruct f; rewrite ?app_nil_r; reflexivity.
Qed.

Lemma unique_argument_names_iff : forall s d, wf_schema s = true ->
  (run_alone R_UniqueArgumentNames s d <> [] <-> violated R_UniqueArgumentNames s d = true).
Proof.
  intros s d Hwf. pose proof (wf_query_entry_ok s Hwf) as Hq.
  unfold run_alone. cbn [run_rule violated]. rewrite run_plain.
  rewrite (stateless_annot_iff uan_step uan_g s d Hq uan_stateless).
  unfold v_unique_argument_names, field_events, directive_events.
  rewrite !existsb_flat_map, <- existsb_orb.
  apply iff_true_eq. apply existsb_ext_in. intros [e a] Hin. cbn [fst snd].
  destruct e as [n|n]; [destruct n|]; try reflexivity.
  - cbn [uan_g existsb orb]. rewrite orb_false_r. apply uan_errors_dup.
  - pose proof (annot_field_is_field s d f a Hq Hin) as Hf.
    destruct f as [p al n args dirs sp sels|? ? ?|? ? ? ? ?]; try discriminate Hf.
    cbn [uan_g existsb fst sel_args]. rewrite !orb_false_r. apply uan_errors_dup.
Qed.

(* ================================================================ directive look-up *)
Lemma wf_unique_directives s : wf_schema s = true -> nodup_names (map dd_name (directive_defs s)) = true.
Proof.
  unfold wf_schema. intro H. repeat (apply andb_prop in H; destruct H as [H ?]). assumption.
Qed.

Lemma directive_defs_cons x r :
  directive_defs (x :: r) = match x with SDDirective d => [d] | _ => [] end ++ directive_defs r.
Proof. reflexivity. Qed.

Lemma directive_by_name_none r n :
  mem_name n (map dd_name (directive_defs r)) = false -> directive_by_name r n = None.
Proof.
  induction r as [|x r IH]; [reflexivity|]. rewrite directive_defs_cons.
  destruct x as [sd|t|dd|ext]; cbn [directive_by_name app map]; try exact IH.
  cbn [mem_name existsb]. intro H. apply orb_false_elim in H. destruct H as [H1 H2].
  rewrite name_eqb_sym, H1. apply IH, H2.
Qed.

(* with unique directive names, "last definition wins" and "first definition wins" agree *)
Lemma directive_map_get_by_name s n :
  nodup_names (map dd_name (directive_defs s)) = true -> directive_map_get s n = directive_by_name s n.
Proof.
  induction s as [|x r IH]; [reflexivity|]. rewrite directive_defs_cons.
  destruct x as [sd|t|dd|ext]; cbn [directive_by_name directive_map_get app map]; try exact IH.
  cbn [nodup_names]. intro H. apply andb_prop in H. destruct H as [H1 H2].
  rewrite (IH H2). destruct (name_eqb (dd_name dd) n) eqn:E.
  - apply name_eqb_eq in E. subst n. rewrite directive_by_name_none; [reflexivity|].
    apply negb_true_iff, H1.
  - destruct (directive_by_name r n); reflexivity.
Qed.

Lemma directive_map_get_wf s n : wf_schema s = true -> directive_map_get s n = directive_by_name s n.
Proof. intro H. apply directive_map_get_by_name, wf_unique_directives, H. Qed.

(* ================================================================ ProvidedRequiredArguments *)
Definition pra_g (s : sdocument) (e : event) (a : answers) : list verror :=
  match e with
  | Enter (NField (SField p _ n args _ _ _)) =>
      match a_parent a with
      | Some pt =>
          match field_by_name pt n with
          | Some fd => map (fun _ => err R_ProvidedRequiredArguments [p]) (missing_required args (fd_args fd))
          | None => []
          end
      | None => []
      end
  | Enter (NDirective d) =>
      match directive_map_get s (d_name d) with
      | Some dd => map (fun _ => err R_ProvidedRequiredArguments [d_pos d]) (missing_required (d_args d) (dd_args dd))
      | None => []
      end
  | _ => []
  end.

Lemma pra_stateless s : stateless (pra_step s) (fun e c => pra_g s e (answers_of c)).
Proof.
  intros st e c. destruct e as [n|n]; [destruct n|]; cbn [pra_step pra_g]; rewrite ?app_nil_r; try reflexivity.
  - destruct (directive_map_get s (d_name d)); rewrite ?app_nil_r; reflexivity.
  - destruct f as [p al n args dirs sp sels|? ? ?|? ? ? ? ?]; rewrite ?app_nil_r; try reflexivity.
    cbn [answers_of a_parent]. destruct (current_parent_type c) as [pt|]; rewrite ?app_nil_r; try reflexivity.
    destruct (field_by_name pt n); rewrite ?app_nil_r; reflexivity.
Qed.

Lemma missing_required_args {X} (f : input_value_def -> X) args ds :
  negb (is_nil (map f (missing_required args ds))) = v_args_missing (Some ds) args.
Proof.
  unfold missing_required, v_args_missing. rewrite is_nil_map, is_nil_filter, negb_involutive. reflexivity.
Qed.

Lemma provided_required_arguments_iff : forall s d, wf_schema s = true ->
  (run_alone R_ProvidedRequiredArguments s d <> [] <-> violated R_ProvidedRequiredArguments s d = true).
Proof.
  intros s d Hwf. pose proof (wf_query_entry_ok s Hwf) as Hq.
  unfold run_alone. cbn [run_rule violated]. rewrite run_plain.
  rewrite (stateless_annot_iff (pra_step s) (pra_g s) s d Hq (pra_stateless s)).
  unfold v_provided_required_arguments, field_events, directive_events.
  rewrite !existsb_flat_map, <- existsb_orb.
  apply iff_true_eq. apply existsb_ext_in. intros [e a] Hin. cbn [fst snd].
  destruct e as [n|n]; [destruct n|]; try reflexivity.
  - match type of Hin with In (Enter (NDirective ?x), _) _ => rename x into dr end.
    cbn [pra_g existsb orb]. rewrite orb_false_r. unfold directive_decls.
    rewrite (directive_map_get_wf s (d_name dr) Hwf).
    destruct (directive_by_name s (d_name dr)) as [dd|]; cbn [opt_map]; [apply missing_required_args|reflexivity].
  - pose proof (annot_field_is_field s d f a Hq Hin) as Hf.
    destruct f as [p al n args dirs sp sels|? ? ?|? ? ? ? ?]; try discriminate Hf.
    cbn [pra_g existsb fst sel_args]. rewrite !orb_false_r.
    unfold field_decls. cbn [fst snd sel_name].
    destruct (a_parent a) as [pt|]; cbn [opt_bind opt_map]; [|reflexivity].
    destruct (field_by_name pt n) as [fd|]; cbn [opt_map]; [apply missing_required_args|reflexivity].
Qed.

(* C04_proofs.v — FieldsOnCorrectType and LeafFieldSelections fire exactly when the specification
   predicate holds (for well-formed schemas), and their errors carry their own rule code. *)
From GT Require Import Visitor Validate.
From GTS Require Import SpecLin Annot WfSchema SpecCollect SpecRules SpecValid.
From GTP Require Import VisitorFacts TraceFacts RuleFacts EventFacts StatelessFacts.

Lemma run_plain (X : ctx * list verror) :
  r_errors (snd (let '(c', st) := X in (c', plain st))) = snd X.
Proof. destruct X; reflexivity. Qed.

Lemma iff_true_eq (a b : bool) : a = b -> (a = true <-> b = true).
Proof. intros ->. reflexivity. Qed.

(* every NField event of the annotation carries a field selection *)
Lemma annot_field_is_field s d x env :
  query_entry_ok s = true -> In (Enter (NField x), env) (annot s d) -> is_field x = true.
Proof.
  intros Hq Hin. apply (in_annot_lin s d _ _ Hq) in Hin. apply in_lin_field in Hin. apply Hin.
Qed.

Ltac code_tac H :=
  repeat match type of H with
         | False => destruct H
         | In _ [] => destruct H
         | In _ (_ :: _) => destruct H as [<-|H]; [reflexivity|]
         | In _ (_ ++ _) => apply in_app_or in H; destruct H as [H|H]
         | In _ (match ?x with _ => _ end) => destruct x
         end.

(* ================================================================ LeafFieldSelections *)
Definition lfs_g (e : event) (a : answers) : list verror :=
  match e with
  | Enter (NField (SField p _ n _ _ _ sels)) =>
      let st1 := if name_eqb n "__typename" && is_none (a_type a) && negb (is_nil sels)
                 then [err R_LeafFieldSelections [p]] else [] in
      match a_type a, a_type_lit a with
      | Some ft, Some _ =>
          if td_is_leaf ft then
            (if negb (is_nil sels) then st1 ++ [err R_LeafFieldSelections [p]] else st1)
          else if is_nil sels then st1 ++ [err R_LeafFieldSelections [p]] else st1
      | _, _ => st1
      end
  | _ => []
  end.

Lemma lfs_stateless : stateless lfs_step (fun e c => lfs_g e (answers_of c)).
Proof.
  intros st e c. destruct e as [n|n]; [destruct n|]; cbn [lfs_step lfs_g]; rewrite ?app_nil_r; try reflexivity.
  destruct f as [p al n args dirs sp sels|? ? ?|? ? ? ? ?]; rewrite ?app_nil_r; try reflexivity.
  cbn [answers_of a_type a_type_lit]. cbv zeta.
  destruct (name_eqb n "__typename" && is_none (current_type c) && negb (is_nil sels));
    destruct (current_type c) as [ft|]; rewrite ?app_nil_r; try reflexivity;
    destruct (current_type_literal c); rewrite ?app_nil_r; try reflexivity;
    destruct (td_is_leaf ft), (is_nil sels); cbn [negb]; rewrite ?app_nil_r, <- ?app_assoc; reflexivity.
Qed.

Lemma leaf_field_selections_iff : forall s d, wf_schema s = true ->
  (run_alone R_LeafFieldSelections s d <> [] <-> violated R_LeafFieldSelections s d = true).
Proof.
  intros s d Hwf. pose proof (wf_query_entry_ok s Hwf) as Hq.
  unfold run_alone. cbn [run_rule violated]. rewrite run_plain.
  rewrite (stateless_annot_iff lfs_step lfs_g s d Hq lfs_stateless).
  unfold v_leaf_field_selections, field_events. rewrite existsb_flat_map.
  apply iff_true_eq. apply existsb_ext_in. intros [e a] Hin. cbn [fst snd].
  destruct e as [n|n]; [destruct n|]; try reflexivity.
  pose proof (annot_field_is_field s d f a Hq Hin) as Hf.
  destruct f as [p al n args dirs sp sels|? ? ?|? ? ? ? ?]; try discriminate Hf.
  cbn [lfs_g existsb sel_sels sel_name]. cbv zeta. rewrite is_nil_match, orb_false_r.
  destruct (a_type a) as [ft|] eqn:Et.
  - destruct (annot_type_lit_some s d _ ft Hin Et) as [l El]. cbn [snd] in El. rewrite El.
    cbn [is_none]. rewrite andb_false_r. cbn [andb app].
    destruct (td_is_leaf ft), (is_nil sels); reflexivity.
  - cbn [is_none]. rewrite andb_true_r.
    destruct (name_eqb n "__typename"), (is_nil sels); reflexivity.
Qed.

(* ================================================================ FieldsOnCorrectType *)
Definition foct_sub_errors (o : operation) : list verror :=
  repeat (err R_FieldsOnCorrectType [o_pos o]) (count_root_typename_fields (o_sels o)).

Definition foct_g (s : sdocument) (e : event) (a : answers) : list verror :=
  match e with
  | Enter (NOperation o) =>
      match o_kind o with
      | OpSubscription => foct_sub_errors o
      | _ => []
      end
  | Enter (NField (SField p _ n _ _ _ _)) =>
      match a_parent a with
      | Some pt =>
          if name_eqb n "__typename" then []
          else if (name_eqb n "__schema" || name_eqb n "__type") && name_eqb (td_name pt) (query_type_name s) then []
          else if is_none (field_by_name pt n) then [err R_FieldsOnCorrectType [p]] else []
      | None => []
      end
  | _ => []
  end.

Lemma foct_stateless s : stateless (foct_step s) (fun e c => foct_g s e (answers_of c)).
Proof.
  intros st e c. destruct e as [n|n]; [destruct n|]; cbn [foct_step foct_g]; rewrite ?app_nil_r; try reflexivity.
  - destruct (o_kind o); rewrite ?app_nil_r; reflexivity.
  - destruct f as [p al n args dirs sp sels|? ? ?|? ? ? ? ?]; rewrite ?app_nil_r; try reflexivity.
    cbn [answers_of a_parent].
    destruct (current_parent_type c) as [pt|]; rewrite ?app_nil_r; try reflexivity.
    destruct (name_eqb n "__typename"); rewrite ?app_nil_r; try reflexivity.
    destruct ((name_eqb n "__schema" || name_eqb n "__type") && name_eqb (td_name pt) (query_type_name s));
      rewrite ?app_nil_r; try reflexivity.
    destruct (is_none (field_by_name pt n)); rewrite ?app_nil_r; reflexivity.
Qed.

Lemma type_by_name_name s n t : type_by_name s n = Some t -> td_name t = n.
Proof.
  induction s as [|x r IH]; cbn [type_by_name]; [discriminate|].
  destruct x as [sd|t0|dd|ext]; try exact IH.
  destruct (name_eqb (td_name t0) n) eqn:E; [|exact IH].
  intros [= ->]. apply name_eqb_eq, E.
Qed.

Lemma object_type_by_name_name s n t : object_type_by_name s n = Some t -> td_name t = n.
Proof.
  unfold object_type_by_name. destruct (type_by_name s n) as [t0|] eqn:E; [|discriminate].
  destruct t0; try discriminate. intros [= <-]. apply (type_by_name_name s n _ E).
Qed.

(* under wf_schema the model's query type name is the name of the specification's query root *)
Lemma query_root_name_wf s : wf_schema s = true -> query_root_name s = Some (query_type_name s).
Proof.
  intro Hwf. pose proof (wf_query_entry_ok s Hwf) as Hq. pose proof (wf_query_root s Hwf) as Hr.
  unfold query_root_name, root, root_name, query_type_name, schema_definition, query_entry_ok in *.
  destruct (find_schema_def s) as [sd|].
  - destruct (sd_query sd) as [q|]; [|discriminate Hq]. cbn [opt_bind] in *.
    destruct (object_type_by_name s q) as [t|] eqn:E; [|discriminate Hr].
    cbn [opt_map]. f_equal. apply (object_type_by_name_name s q t E).
  - cbn [opt_bind default_root_name default_schema_def sd_query] in *.
    destruct (object_type_by_name s "Query") as [t|] eqn:E; [|discriminate Hr].
    cbn [opt_map]. f_equal. apply (object_type_by_name_name s _ t E).
Qed.

Definition foct_sub_check (o : operation) : bool :=
  match o_kind o with
  | OpSubscription => match root_typename_fields (o_sels o) with [] => false | _ :: _ => true end
  | _ => false
  end.

(* the model counts exactly the fields the specification collects *)
Lemma length_flat_map_sum {A B} (f : A -> list B) (g : A -> nat) l :
  Forall (fun x => List.length (f x) = g x) l -> List.length (flat_map f l) = list_sum (map g l).
Proof.
  induction 1 as [|x r Hx _ IH]; [reflexivity|].
  cbn [flat_map map list_sum fold_right]. rewrite app_length, Hx. f_equal. exact IH.
Qed.

Lemma count_root_typename_length x :
  List.length (root_typename_fields_of x) = count_root_typename x.
Proof.
  induction x as [p al n args dirs sp sels IH|p n dirs|p tc dirs sp sels IH] using selection_ind'.
  - cbn [root_typename_fields_of count_root_typename]. destruct (name_eqb n "__typename"); reflexivity.
  - reflexivity.
  - destruct tc as [tc|]; [reflexivity|].
    cbn [root_typename_fields_of count_root_typename]. apply length_flat_map_sum, IH.
Qed.

Lemma count_root_typename_fields_length l :
  List.length (root_typename_fields l) = count_root_typename_fields l.
Proof.
  unfold root_typename_fields, count_root_typename_fields. apply length_flat_map_sum.
  apply Forall_forall. intros x _. apply count_root_typename_length.
Qed.

Lemma foct_sub_errors_check o :
  negb (is_nil (match o_kind o with OpSubscription => foct_sub_errors o | _ => [] end)) = foct_sub_check o.
Proof.
  unfold foct_sub_check, foct_sub_errors. destruct (o_kind o); try reflexivity.
  rewrite <- count_root_typename_fields_length.
  destruct (root_typename_fields (o_sels o)); reflexivity.
Qed.

Lemma fields_on_correct_type_iff : forall s d, wf_schema s = true ->
  (run_alone R_FieldsOnCorrectType s d <> [] <-> violated R_FieldsOnCorrectType s d = true).
Proof.
  intros s d Hwf. pose proof (wf_query_entry_ok s Hwf) as Hq.
  unfold run_alone. cbn [run_rule violated]. rewrite run_plain.
  rewrite (stateless_annot_iff (foct_step s) (foct_g s) s d Hq (foct_stateless s)).
  unfold v_fields_on_correct_type.
  change (existsb _ (operations_of d)) with (existsb foct_sub_check (operations_of d)).
  rewrite <- pick_operation_document, existsb_flat_map.
  rewrite <- (existsb_annot_events s d (fun e => existsb foct_sub_check (pick pk_operation e)) Hq).
  unfold field_events. rewrite existsb_flat_map, <- existsb_orb.
  apply iff_true_eq. apply existsb_ext_in. intros [e a] Hin. cbn [fst snd].
  destruct e as [n|n]; [destruct n|]; try reflexivity.
  - cbn [foct_g pick pk_operation existsb orb]. rewrite orb_false_r. apply foct_sub_errors_check.
  - pose proof (annot_field_is_field s d f a Hq Hin) as Hf.
    destruct f as [p al n args dirs sp sels|? ? ?|? ? ? ? ?]; try discriminate Hf.
    cbn [foct_g pick pk_operation existsb sel_name]. rewrite !orb_false_r.
    rewrite (query_root_name_wf s Hwf).
    destruct (a_parent a) as [pt|]; [|reflexivity].
    destruct (name_eqb n "__typename"), (name_eqb n "__schema" || name_eqb n "__type"),
      (name_eqb (td_name pt) (query_type_name s)), (is_none (field_by_name pt n)); reflexivity.
Qed.

(* ================================================================ codes *)
Lemma c04_codes : forall s d e,
  (In e (run_alone R_FieldsOnCorrectType s d) -> e_rule e = R_FieldsOnCorrectType) /\
  (In e (run_alone R_LeafFieldSelections s d) -> e_rule e = R_LeafFieldSelections).
Proof.
  intros s d e. split; unfold run_alone; cbn [run_rule]; rewrite run_plain; intro Hin.
  - apply (stateless_in _ _ s d e (foct_stateless s)) in Hin. destruct Hin as (ev & c & Hin).
    unfold foct_g in Hin. destruct ev as [n|n]; [destruct n|]; try (destruct Hin; fail).
    + destruct (o_kind o); try (destruct Hin; fail).
      unfold foct_sub_errors in Hin. apply repeat_spec in Hin. rewrite Hin. reflexivity.
    + code_tac Hin.
  - apply (stateless_in _ _ s d e lfs_stateless) in Hin. destruct Hin as (ev & c & Hin).
    unfold lfs_g in Hin. destruct ev as [n|n]; [destruct n|]; try (destruct Hin; fail).
    destruct f as [p al n args dirs sp sels|? ? ?|? ? ? ? ?]; try (destruct Hin; fail).
    cbv zeta in Hin. code_tac Hin.
Qed.

(* StatelessFacts.v — helpers shared by the proofs of the "stateless" rules (handlers that only
   append errors computed from the current callback): the reduction of [run_alone <> []] to an
   [existsb] over the annotation, invariants of the environments of the annotation, and small
   facts about name lists. *)
From GT Require Import Visitor Validate.
From GTS Require Import SpecLin Annot WfSchema SpecCollect SpecRules.
From GTP Require Import VisitorFacts TraceFacts RuleFacts EventFacts.

(* ------------------------------------------------------------------ booleans / names *)
Lemma is_nil_match {A} (l : list A) : match l with [] => true | _ => false end = is_nil l.
Proof. reflexivity. Qed.

Lemma is_nil_map {A B} (f : A -> B) l : is_nil (map f l) = is_nil l.
Proof. destruct l; reflexivity. Qed.

Lemma is_nil_app {A} (l l' : list A) : is_nil (l ++ l') = is_nil l && is_nil l'.
Proof. destruct l; reflexivity. Qed.

Lemma is_nil_filter {A} (p : A -> bool) l : is_nil (filter p l) = negb (existsb p l).
Proof.
  induction l as [|x r IH]; cbn; [reflexivity|]. destruct (p x); cbn; [reflexivity|exact IH].
Qed.

Lemma is_nil_flat_map {A B} (f : A -> list B) l :
  is_nil (flat_map f l) = negb (existsb (fun x => negb (is_nil (f x))) l).
Proof.
  induction l as [|x r IH]; cbn; [reflexivity|]. rewrite is_nil_app, IH.
  destruct (is_nil (f x)); reflexivity.
Qed.

Lemma existsb_orb {A} (p q : A -> bool) l :
  existsb (fun x => p x || q x) l = existsb p l || existsb q l.
Proof.
  induction l as [|x r IH]; cbn; [reflexivity|]. rewrite IH.
  destruct (p x), (q x), (existsb p r), (existsb q r); reflexivity.
Qed.

Lemma name_eqb_eq a b : name_eqb a b = true <-> a = b.
Proof. apply String.eqb_eq. Qed.
Lemma name_eqb_sym a b : name_eqb a b = name_eqb b a.
Proof. apply String.eqb_sym. Qed.
Lemma name_eqb_refl a : name_eqb a a = true.
Proof. apply String.eqb_refl. Qed.

Lemma mem_name_app n l l' : mem_name n (l ++ l') = mem_name n l || mem_name n l'.
Proof. apply existsb_app. Qed.

Lemma nodup_names_snoc l n : nodup_names (l ++ [n]) = nodup_names l && negb (mem_name n l).
Proof.
  induction l as [|x r IH]; cbn [app nodup_names mem_name existsb].
  - reflexivity.
  - fold (mem_name x (r ++ [n])). fold (mem_name x r). fold (mem_name n r).
    rewrite mem_name_app, IH. cbn [mem_name existsb]. rewrite (name_eqb_sym n x).
    destruct (mem_name x r), (name_eqb x n), (nodup_names r), (mem_name n r); reflexivity.
Qed.

(* ------------------------------------------------------------------ stateless rules *)
(* a stateless handler whose per-callback errors read the context through the six answers *)
Lemma stateless_annot_iff h (g : event -> answers -> list verror) s d :
  query_entry_ok s = true ->
  stateless h (fun e c => g e (answers_of c)) ->
  (snd (visit_document h s d ctx0 []) <> [] <->
   existsb (fun ea : aev => negb (is_nil (g (fst ea) (snd ea)))) (annot s d) = true).
Proof.
  intros Hq Hs. rewrite (stateless_run s d ctx0 Hs). cbn [snd].
  rewrite flat_map_nonempty_existsb.
  pose proof (existsb_ctr_annot s d Hq (fun e a => negb (is_nil (g e a)))) as E.
  cbv beta in E. unfold aev, env. rewrite <- E. reflexivity.
Qed.

Lemma stateless_in h f s d e :
  stateless h f ->
  In e (snd (visit_document h s d ctx0 [])) ->
  exists ev c, In e (f ev c).
Proof.
  intros Hs. rewrite (stateless_run s d ctx0 Hs). cbn [snd]. intro Hin.
  apply in_flat_map in Hin. destruct Hin as [[ev c] [_ Hin]]. exists ev, c. exact Hin.
Qed.

(* ------------------------------------------------------------------ invariants of the annotation *)
Section Inv.
  Variable s : sdocument.
  Variable P : env -> Prop.
  Hypothesis P_at : forall e t, P e -> P (at_type s e t).
  Hypothesis P_sel : forall e, P e -> P (in_selection_set e).
  Hypothesis P_field : forall e f, P e -> P (in_field e f).
  Hypothesis P_exp : forall e t, P e -> P (expecting s e t).

  Notation ok := (Forall (fun ea : aev => P (snd ea))).

  Lemma ok_flat_map {A} (f : A -> list aev) l : (forall x, In x l -> ok (f x)) -> ok (flat_map f l).
  Proof. intro H. apply Forall_flat_map, Forall_forall. exact H. Qed.

  Lemma ok_wrap a b e (l : list aev) : P e -> ok l -> ok ((a, e) :: l ++ [(b, e)]).
  Proof.
    intros He Hl. constructor; [exact He|]. apply Forall_app. split; [exact Hl|]. constructor; [exact He|constructor].
  Qed.

  Lemma inv_value v : forall e, P e -> ok (annot_value s v e).
  Proof.
    induction v as [n|z|b|str|b| |n|l IH|l IH] using value_ind'; intros e He; cbn [annot_value];
      try (apply (ok_wrap _ _ e []); [exact He|constructor]).
    - apply ok_wrap; [exact He|]. apply ok_flat_map. intros x Hx.
      rewrite Forall_forall in IH. apply (IH x Hx). apply P_exp, He.
    - apply ok_wrap; [exact He|]. apply ok_flat_map. intros kv Hkv. cbv zeta.
      rewrite Forall_forall in IH. apply ok_wrap; [apply P_exp, He|]. apply (IH kv Hkv). apply P_exp, He.
  Qed.

  Lemma inv_arguments decls args e : P e -> ok (annot_arguments s decls args e).
  Proof.
    intro He. unfold annot_arguments. apply ok_flat_map. intros a _. cbv zeta.
    apply ok_wrap; [apply P_exp, He|]. apply inv_value, P_exp, He.
  Qed.

  Lemma inv_directives dirs e : P e -> ok (annot_directives s dirs e).
  Proof.
    intro He. unfold annot_directives. apply ok_flat_map. intros dr _.
    apply ok_wrap; [exact He|]. apply inv_arguments, He.
  Qed.

  Lemma inv_vardefs vars e : P e -> ok (annot_vardefs s vars e).
  Proof.
    intro He. unfold annot_vardefs. apply ok_flat_map. intros v _. cbv zeta.
    apply ok_wrap; [apply P_exp, He|]. destruct (v_default v); [apply inv_value, P_exp, He|constructor].
  Qed.

  Lemma inv_selection x : forall e, P e -> ok (annot_selection s x e).
  Proof.
    induction x as [p al n args dirs sp sels IH|p n dirs|p tc dirs sp sels IH] using selection_ind'; intros e He.
    - cbn [annot_selection]. cbv zeta.
      set (fdef := opt_bind (a_parent e) (fun t => field_by_name t n)).
      assert (H1 : P (at_type s e (opt_map fd_type fdef))) by (apply P_at, He).
      assert (H2 : P (in_field (at_type s e (opt_map fd_type fdef)) fdef)) by (apply P_field, H1).
      assert (H3 : P (in_selection_set (in_field (at_type s e (opt_map fd_type fdef)) fdef))) by (apply P_sel, H2).
      constructor; [exact H1|].
      apply Forall_app. split; [apply inv_arguments, H2|].
      apply Forall_app. split; [apply inv_directives, H2|].
      constructor; [exact H3|].
      apply Forall_app. split.
      + apply ok_flat_map. intros y Hy. rewrite Forall_forall in IH. apply (IH y Hy), H3.
      + constructor; [exact H3|]. constructor; [exact H1|constructor].
    - cbn [annot_selection]. apply ok_wrap; [exact He|apply inv_directives, He].
    - cbn [annot_selection]. cbv zeta.
      set (e1 := match tc with Some cond => at_type s e (Some (TNamed cond)) | None => e end).
      assert (H1 : P e1) by (unfold e1; destruct tc; [apply P_at, He|exact He]).
      assert (H3 : P (in_selection_set e1)) by (apply P_sel, H1).
      constructor; [exact H1|].
      apply Forall_app. split; [apply inv_directives, H1|].
      constructor; [exact H3|].
      apply Forall_app. split.
      + apply ok_flat_map. intros y Hy. rewrite Forall_forall in IH. apply (IH y Hy), H3.
      + constructor; [exact H3|]. constructor; [exact H1|constructor].
  Qed.

  Lemma inv_selection_set sp sels e : P e -> ok (annot_selection_set s sp sels e).
  Proof.
    intro He. unfold annot_selection_set. cbv zeta. apply ok_wrap; [apply P_sel, He|].
    apply ok_flat_map. intros y _. apply inv_selection, P_sel, He.
  Qed.

  Lemma inv_definition x e : P e -> ok (annot_definition s x e).
  Proof.
    intro He. destruct x as [o|f]; cbn [annot_definition]; cbv zeta.
    - set (e1 := at_type s e _). assert (H1 : P e1) by (apply P_at, He).
      constructor; [exact H1|].
      apply Forall_app. split; [apply inv_directives, H1|].
      apply Forall_app. split; [apply inv_vardefs, H1|].
      apply Forall_app. split; [apply inv_selection_set, H1|].
      constructor; [exact H1|constructor].
    - set (e1 := at_type s e _). assert (H1 : P e1) by (apply P_at, He).
      constructor; [exact H1|].
      apply Forall_app. split; [apply inv_directives, H1|].
      apply Forall_app. split; [apply inv_selection_set, H1|].
      constructor; [exact H1|constructor].
  Qed.

  Theorem annot_invariant d : P env0 -> ok (annot s d).
  Proof.
    intro H0. unfold annot. apply ok_wrap; [exact H0|]. apply ok_flat_map. intros x _. apply inv_definition, H0.
  Qed.
End Inv.

(* the current type is always the look-up of the current type literal *)
Lemma annot_type_consistent s d ea :
  In ea (annot s d) -> a_type (snd ea) = lookup_named s (a_type_lit (snd ea)).
Proof.
  revert ea. apply Forall_forall.
  apply (annot_invariant s (fun e => a_type e = lookup_named s (a_type_lit e))); try reflexivity.
  - intros e He. exact He.
  - intros e f He. exact He.
  - intros e t He. exact He.
Qed.

Lemma annot_type_lit_some s d ea t :
  In ea (annot s d) -> a_type (snd ea) = Some t -> exists l, a_type_lit (snd ea) = Some l.
Proof.
  intros Hin Ht. rewrite (annot_type_consistent s d ea Hin) in Ht.
  destruct (a_type_lit (snd ea)) as [l|]; [exists l; reflexivity|discriminate].
Qed.

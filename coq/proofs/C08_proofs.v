(* C08_proofs.v — values_of_correct_type: the handler's errors on a literal are empty exactly when
   the literal is coercible to the expected type (decision core), and the rule run alone agrees
   with the specification predicate over the literal positions of a document.

   NOTE (changed hypotheses).  The statements need the extra hypothesis that types are shaped as
   the GraphQL grammar produces them ([ty_proper]: no [TNonNull] directly under [TNonNull]); the
   model strips ONE non-null wrapper before testing for a list type, the specification strips all.
   Counterexample to the unrestricted statement: [C08_core_counterexample] below. *)
From GT Require Import Visitor Validate.
From GTS Require Import Annot WfSchema SpecRules SpecValues SpecValid.
From GTP Require Import VisitorFacts TraceFacts RuleFacts.

Definition value_errors (s : sdocument) (t : option ty) (v : value) : list verror :=
  snd (visit_input_value (vct_step s) s v (push_input_type s t ctx0) []).
Definition is_input_or_unknown (s : sdocument) (n : name) : bool :=
  match type_by_name s n with Some t => td_is_input t | None => true end.

(* ------------------------------------------------------------------ generic list facts *)
Lemma app_nil_iff {A} (a b : list A) : a ++ b = [] <-> a = [] /\ b = [].
Proof. split; [apply app_eq_nil|intros [-> ->]; reflexivity]. Qed.

Lemma flat_map_nil_iff {A B} (f : A -> list B) (l : list A) :
  flat_map f l = [] <-> (forall x, In x l -> f x = []).
Proof.
  induction l as [|x r IH]; cbn [flat_map In].
  - split; [intros _ x []|reflexivity].
  - rewrite app_nil_iff, IH. split.
    + intros [Hx Hr] y [<-|Hy]; [exact Hx|exact (Hr y Hy)].
    + intro H. split; [apply H; left; reflexivity|intros y Hy; apply H; right; exact Hy].
Qed.

Lemma flat_map_map {A B C} (f : B -> list C) (g : A -> B) (l : list A) :
  flat_map f (map g l) = flat_map (fun x => f (g x)) l.
Proof. induction l as [|x r IH]; cbn; [reflexivity|]. rewrite IH. reflexivity. Qed.

Lemma flat_map_flat_map {A B C} (f : B -> list C) (g : A -> list B) (l : list A) :
  flat_map f (flat_map g l) = flat_map (fun x => flat_map f (g x)) l.
Proof. induction l as [|x r IH]; cbn; [reflexivity|]. rewrite flat_map_app, IH. reflexivity. Qed.

Lemma find_first_some {A} (p : A -> bool) (l : list A) x :
  find_first p l = Some x -> In x l /\ p x = true.
Proof.
  induction l as [|y r IH]; cbn [find_first In]; [discriminate|].
  destruct (p y) eqn:E.
  - intros [= <-]. split; [left; reflexivity|exact E].
  - intro H. destruct (IH H) as [H1 H2]. split; [right; exact H1|exact H2].
Qed.

Lemma existsb_find_first {A} (p : A -> bool) (l : list A) :
  existsb p l = is_some (find_first p l).
Proof.
  induction l as [|y r IH]; cbn [find_first existsb]; [reflexivity|].
  destruct (p y); [reflexivity|exact IH].
Qed.

(* ------------------------------------------------------------------ the handler, context-free *)
Definition leaf_here (td : option type_def) (raw : value) : list verror :=
  match td with
  | Some td =>
      (if td_is_leaf td then [] else [vct_err]) ++
      match td with
      | TDScalar sn =>
          match raw with
          | VInt z =>
              if name_eqb sn "Int" then (if int32_fits z then [] else [vct_err])
              else if name_eqb sn "ID" || name_eqb sn "Float" then []
              else if is_custom_scalar sn then [] else [vct_err]
          | VString _ => if name_eqb sn "ID" || name_eqb sn "String" then []
                         else if is_custom_scalar sn then [] else [vct_err]
          | VFloat _ => if name_eqb sn "Float" then [] else if is_custom_scalar sn then [] else [vct_err]
          | VBool _ => if name_eqb sn "Boolean" then [] else if is_custom_scalar sn then [] else [vct_err]
          | _ => if is_custom_scalar sn then [] else [vct_err]
          end
      | TDEnum en values =>
          match raw with
          | VEnum ev => if mem_name ev values then [] else [vct_err]
          | _ => [vct_err]
          end
      | _ => []
      end
  | None => []
  end.

Definition null_here (t : option ty) : list verror :=
  match t with Some it => if is_non_null it then [vct_err] else [] | None => [] end.

Definition list_here (s : sdocument) (t : option ty) (l : list value) : list verror :=
  match t with
  | Some it =>
      if is_list_type (if is_non_null it then of_type it else it) then []
      else leaf_here (lookup_named s t) (VList l)
  | None => []
  end.

Definition missing_here (fields : list input_value_def) (l : list (name * value)) : list verror :=
  flat_map (fun f => if iv_is_required f && negb (existsb (fun kv : name * value => name_eqb (fst kv) (iv_name f)) l)
                     then [vct_err] else []) fields.
Definition unknown_here (fields : list input_value_def) (l : list (name * value)) : list verror :=
  flat_map (fun kv : name * value =>
              if existsb (fun f => name_eqb (iv_name f) (fst kv)) fields then [] else [vct_err]) l.

Definition obj_here (s : sdocument) (t : option ty) (td : option type_def) (l : list (name * value)) : list verror :=
  match td with
  | Some x => if td_is_leaf x then leaf_here (lookup_named s t) (VObject l) else []
  | None => []
  end ++
  match td with
  | Some (TDInputObject _ fields) => missing_here fields l ++ unknown_here fields l
  | _ => []
  end.

Definition vfa (s : sdocument) (e : event) (a : answers) : list verror :=
  match e with
  | Enter NNull => null_here (a_input_lit a)
  | Enter (NList l) => list_here s (a_input_lit a) l
  | Enter (NObject l) => obj_here s (a_input_lit a) (a_input a) l
  | Enter (NEnum n) => leaf_here (lookup_named s (a_input_lit a)) (VEnum n)
  | Enter (NScalar v) => leaf_here (lookup_named s (a_input_lit a)) v
  | _ => []
  end.

Lemma validate_value_leaf_here s c raw :
  validate_value s c raw = leaf_here (lookup_named s (current_input_type_literal c)) raw.
Proof.
  unfold validate_value, leaf_here, lookup_named.
  destruct (current_input_type_literal c) as [it|]; reflexivity.
Qed.

Lemma vct_stateless s : stateless (vct_step s) (fun e c => vfa s e (answers_of c)).
Proof.
  intros st e c. destruct e as [n|n]; [|cbn; rewrite app_nil_r; reflexivity].
  destruct n; cbn [vct_step vfa answers_of a_input_lit a_input]; try (rewrite app_nil_r; reflexivity).
  - (* null *)
    unfold null_here. destruct (current_input_type_literal c) as [it|]; [destruct (is_non_null it)|];
      rewrite ?app_nil_r; reflexivity.
  - (* scalar *) rewrite validate_value_leaf_here. reflexivity.
  - (* enum *) rewrite validate_value_leaf_here. reflexivity.
  - (* list *)
    unfold list_here. rewrite validate_value_leaf_here.
    destruct (current_input_type_literal c) as [it|]; [|rewrite app_nil_r; reflexivity].
    cbv zeta. destruct (is_list_type _); rewrite ?app_nil_r; reflexivity.
  - (* object *)
    unfold obj_here. rewrite validate_value_leaf_here.
    destruct (current_input_type c) as [td|]; [|rewrite app_nil_r; reflexivity].
    destruct td; cbn [td_is_leaf]; rewrite ?app_nil_r, ?app_nil_l; try reflexivity.
Qed.

(* errors over an annotated event list *)
Definition E (s : sdocument) (l : list aev) : list verror := flat_map (fun ea => vfa s (fst ea) (snd ea)) l.

Lemma E_app s a b : E s (a ++ b) = E s a ++ E s b.
Proof. apply flat_map_app. Qed.
Lemma E_cons s x l : E s (x :: l) = vfa s (fst x) (snd x) ++ E s l.
Proof. reflexivity. Qed.
Lemma E_flat_map {A} s (f : A -> list aev) l : E s (flat_map f l) = flat_map (fun x => E s (f x)) l.
Proof. apply flat_map_flat_map. Qed.

Lemma fold_vct_E s (tr : list (event * ctx)) :
  fold_left (hh (vct_step s)) tr [] = E s (map ev_answers tr).
Proof.
  transitivity (fold_left (fun st (ec : event * ctx) => st ++ vfa s (fst ec) (answers_of (snd ec))) tr []).
  - apply fold_left_ext_fn. intros a [e c]. unfold hh. cbn [fst snd]. apply vct_stateless.
  - rewrite fold_append_flat_map. cbn [app]. unfold E. rewrite flat_map_map. reflexivity.
Qed.

Lemma value_errors_E s t v : value_errors s t v = E s (annot_value s v (expecting s env0 t)).
Proof.
  unfold value_errors.
  rewrite (Good_value (vct_step s) s v (push_input_type s t ctx0) []). cbn [snd].
  rewrite fold_vct_E, ctr_value_answers, answers_push_input_type. reflexivity.
Qed.

(* ------------------------------------------------------------------ errors by recursion on the literal *)
Fixpoint verrs (s : sdocument) (t : option ty) (v : value) {struct v} : list verror :=
  match v with
  | VVar _ => []
  | VNull => null_here t
  | VList l => list_here s t l ++ flat_map (verrs s (item_type t)) l
  | VObject l =>
      obj_here s t (lookup_named s t) l ++
      flat_map (fun kv : name * value => verrs s (input_field_type s t (fst kv)) (snd kv)) l
  | _ => leaf_here (lookup_named s t) v
  end.

Lemma E_annot_value s v : forall e,
  a_input e = lookup_named s (a_input_lit e) -> E s (annot_value s v e) = verrs s (a_input_lit e) v.
Proof.
  induction v as [n|z|b|str|b| |n|l IH|l IH] using value_ind'; intros e He;
    try (cbn; rewrite ?app_nil_r; reflexivity).
  - (* list *)
    cbn [annot_value verrs]. unfold E. cbn [flat_map fst snd vfa].
    rewrite flat_map_app, flat_map_flat_map. cbn [flat_map fst snd vfa app]. rewrite app_nil_r.
    f_equal. apply flat_map_Forall_ext. eapply Forall_impl; [|exact IH].
    intros x Hx. apply Hx. reflexivity.
  - (* object *)
    cbn [annot_value verrs]. unfold E. cbn [flat_map fst snd vfa].
    rewrite flat_map_app, flat_map_flat_map. cbn [flat_map fst snd vfa app]. rewrite app_nil_r.
    rewrite He. f_equal. apply flat_map_Forall_ext. eapply Forall_impl; [|exact IH].
    intros kv Hkv. cbv zeta. cbn [flat_map fst snd vfa app].
    rewrite flat_map_app. cbn [flat_map fst snd vfa app]. rewrite app_nil_r.
    apply Hkv. reflexivity.
Qed.

Lemma value_errors_verrs s t v : value_errors s t v = verrs s t v.
Proof. rewrite value_errors_E, E_annot_value; reflexivity. Qed.

(* ------------------------------------------------------------------ coercibility *)
Lemma flat_map_all_nil {A B} (f : A -> list B) (l : list A) : (forall x, f x = []) -> flat_map f l = [].
Proof. intro H. apply flat_map_nil_iff. intros x _. apply H. Qed.

Lemma verrs_None s v : verrs s None v = [].
Proof.
  induction v as [n|z|b|str|b| |n|l IH|l IH] using value_ind'; try reflexivity.
  - cbn [verrs list_here item_type app]. apply flat_map_nil_iff. apply Forall_forall. exact IH.
  - cbn [verrs lookup_named opt_bind obj_here app input_field_type opt_map].
    apply flat_map_nil_iff. rewrite Forall_forall in IH. exact IH.
Qed.

Lemma coercibleb_var s n t : coercibleb s (VVar n) t = true.
Proof. destruct t; reflexivity. Qed.
Lemma coercibleb_nonnull s v i :
  coercibleb s v (TNonNull i) = match v with VVar _ => true | VNull => false | _ => coercibleb s v i end.
Proof. destruct v; reflexivity. Qed.
Lemma coercibleb_list s v i :
  coercibleb s v (TList i) =
  match v with
  | VVar _ => true | VNull => true
  | VList items => forallb (fun x => coercibleb s x i) items
  | _ => coercibleb s v i
  end.
Proof. destruct v; reflexivity. Qed.

Definition scalar_spec (sn : name) (v : value) : bool :=
  if negb (mem_name sn builtin_scalars) then true
  else match v with
       | VInt z => (name_eqb sn "Int" && int32 z) || name_eqb sn "Float" || name_eqb sn "ID"
       | VFloat _ => name_eqb sn "Float"
       | VString _ => name_eqb sn "String" || name_eqb sn "ID"
       | VBool _ => name_eqb sn "Boolean"
       | _ => false
       end.

Definition named_spec (s : sdocument) (n : name) (v : value) : bool :=
  match type_by_name s n with
  | None => true
  | Some (TDScalar sn) => scalar_spec sn v
  | Some (TDEnum _ members) => match v with VEnum e => mem_name e members | _ => false end
  | Some (TDInputObject _ fields) =>
      match v with
      | VObject entries =>
          forallb (fun kv : name * value =>
                     match find_first (fun f => name_eqb (iv_name f) (fst kv)) fields with
                     | Some f => coercibleb s (snd kv) (iv_type f)
                     | None => false
                     end) entries &&
          forallb (fun f => negb (iv_is_required f) ||
                            existsb (fun kv : name * value => name_eqb (fst kv) (iv_name f)) entries) fields
      | _ => false
      end
  | Some _ => true
  end.

Lemma coercibleb_named s v n :
  coercibleb s v (TNamed n) = match v with VVar _ => true | VNull => true | _ => named_spec s n v end.
Proof.
  destruct v; try reflexivity; unfold named_spec, scalar_spec; cbn [coercibleb];
    destruct (type_by_name s n) as [[]|]; reflexivity.
Qed.

Definition plain (v : value) : bool := match v with VVar _ | VNull | VList _ => false | _ => true end.

Lemma plain_coerc s v t : plain v = true -> coercibleb s v t = coercibleb s v (TNamed (inner_type t)).
Proof.
  intro Hp. induction t as [n|i IH|i IH]; cbn [inner_type]; [reflexivity| |].
  - rewrite coercibleb_list. destruct v; try discriminate; exact IH.
  - rewrite coercibleb_nonnull. destruct v; try discriminate; exact IH.
Qed.

Lemma plain_verrs s v t : plain v = true -> verrs s (Some t) v = verrs s (Some (TNamed (inner_type t))) v.
Proof. destruct v; try discriminate; reflexivity. Qed.

Ltac split_name sn str :=
  let E := fresh "E" in
  destruct (name_eqb sn str) eqn:E; [apply String.eqb_eq in E; subst sn|].

Lemma scalar_ok sn v : leaf_here (Some (TDScalar sn)) v = [] <-> scalar_spec sn v = true.
Proof.
  unfold leaf_here, scalar_spec, is_custom_scalar, mem_name, builtin_scalars, int32_fits, int32.
  cbn [td_is_leaf app existsb].
  split_name sn "Int"; [|split_name sn "Float"; [|split_name sn "String"; [|split_name sn "Boolean"; [|split_name sn "ID"]]]];
    destruct v; cbn;
    repeat match goal with |- context [if ?b then _ else _] => destruct b end;
    cbn; split; intro; solve [reflexivity | discriminate | assumption].
Qed.

Lemma type_by_name_in s n td : type_by_name s n = Some td -> In td (type_defs s).
Proof.
  induction s as [|x r IH]; cbn [type_by_name]; [discriminate|].
  destruct x as [sd|t|dd|e]; unfold type_defs; cbn [flat_map app]; fold (type_defs r); try exact IH.
  destruct (name_eqb (td_name t) n).
  - intros [= <-]. left; reflexivity.
  - intro H. right. exact (IH H).
Qed.

Lemma is_input_named_unknown s n : is_input_named s n = true -> is_input_or_unknown s n = true.
Proof. unfold is_input_named, is_input_or_unknown. destruct (type_by_name s n); [tauto|discriminate]. Qed.

Lemma wf_ivs_facts s ivs f :
  wf_input_values s ivs = true -> ivs_proper ivs = true -> In f ivs ->
  ty_proper (iv_type f) = true /\ is_input_or_unknown s (inner_type (iv_type f)) = true.
Proof.
  unfold wf_input_values, ivs_proper. intros Hw Hp Hf.
  apply andb_prop in Hw. destruct Hw as [_ Hw].
  rewrite forallb_forall in Hw, Hp. split; [exact (Hp f Hf)|].
  apply is_input_named_unknown. exact (Hw f Hf).
Qed.

Section Core.
  Variable s : sdocument.
  Hypothesis Hwf : wf_schema s = true.

  Lemma wf_type_of n td : type_by_name s n = Some td -> wf_type s td = true /\ type_proper td = true.
  Proof.
    intro H. apply type_by_name_in in H.
    pose proof (wf_types s Hwf) as Hw. pose proof (wf_types_proper s Hwf) as Hp.
    unfold schema_types_proper in Hp. apply andb_prop in Hp. destruct Hp as [Hp _].
    rewrite forallb_forall in Hw, Hp. split; [exact (Hw td H)|exact (Hp td H)].
  Qed.

  Lemma input_field_facts n nm fields f :
    type_by_name s n = Some (TDInputObject nm fields) -> In f fields ->
    ty_proper (iv_type f) = true /\ is_input_or_unknown s (inner_type (iv_type f)) = true.
  Proof.
    intros H Hf. destruct (wf_type_of n _ H) as [Hw Hp]. cbn [wf_type type_proper] in Hw, Hp.
    exact (wf_ivs_facts s fields f Hw Hp Hf).
  Qed.

  (* a named type, a literal without typed children *)
  Lemma named_nonobj n v :
    is_input_or_unknown s n = true ->
    match v with VVar _ | VNull | VObject _ => false | _ => true end = true ->
    (leaf_here (type_by_name s n) v = [] <-> named_spec s n v = true).
  Proof.
    unfold is_input_or_unknown, named_spec. intros Hin Hv.
    destruct (type_by_name s n) as [td|] eqn:H; [|split; reflexivity].
    destruct td; try discriminate.
    - apply scalar_ok.
    - destruct v; try discriminate; cbn [leaf_here td_is_leaf app];
        try (split; discriminate).
      destruct (mem_name n1 values); split; intro; solve [reflexivity|discriminate].
    - destruct v; try discriminate; cbn [leaf_here td_is_leaf app]; split; discriminate.
  Qed.

  Definition core_at (v : value) : Prop :=
    forall t, ty_proper t = true -> is_input_or_unknown s (inner_type t) = true ->
              (verrs s (Some t) v = [] <-> coercibleb s v t = true).

  Lemma core_leaf v :
    match v with VInt _ | VFloat _ | VString _ | VBool _ | VEnum _ => true | _ => false end = true ->
    core_at v.
  Proof.
    intros Hv t Hok Hin.
    assert (Hp : plain v = true) by (destruct v; try discriminate; reflexivity).
    rewrite (plain_verrs s v t Hp), (plain_coerc s v t Hp), coercibleb_named.
    destruct v; try discriminate; cbn [verrs lookup_named opt_bind inner_type];
      apply named_nonobj; try assumption; reflexivity.
  Qed.

  Lemma core_list_named n l :
    is_input_or_unknown s n = true ->
    (leaf_here (type_by_name s n) (VList l) ++ flat_map (verrs s None) l = [] <->
     coercibleb s (VList l) (TNamed n) = true).
  Proof.
    intro Hin. rewrite (flat_map_all_nil _ _ (verrs_None s)), app_nil_r, coercibleb_named.
    apply named_nonobj; [exact Hin|reflexivity].
  Qed.

  Lemma core_list_list i l :
    Forall core_at l -> ty_proper i = true -> is_input_or_unknown s (inner_type i) = true ->
    (flat_map (verrs s (Some i)) l = [] <-> forallb (fun x => coercibleb s x i) l = true).
  Proof.
    intros IH Hok Hin. rewrite flat_map_nil_iff, forallb_forall. rewrite Forall_forall in IH.
    split; intros H x Hx; apply (IH x Hx i Hok Hin); exact (H x Hx).
  Qed.

  Lemma core_list l : Forall core_at l -> core_at (VList l).
  Proof.
    intros IH t Hok Hin. destruct t as [n|i|[n|j|k]]; cbn [ty_proper inner_type] in Hok, Hin.
    - cbn [verrs item_type list_here is_non_null is_list_type lookup_named opt_bind inner_type].
      apply core_list_named. exact Hin.
    - cbn [verrs item_type list_here is_non_null is_list_type app]. rewrite coercibleb_list.
      apply core_list_list; assumption.
    - rewrite coercibleb_nonnull.
      cbn [verrs item_type list_here is_non_null is_list_type of_type lookup_named opt_bind inner_type].
      apply core_list_named. exact Hin.
    - rewrite coercibleb_nonnull, coercibleb_list.
      cbn [verrs item_type list_here is_non_null is_list_type of_type app].
      apply core_list_list; assumption.
    - discriminate.
  Qed.

  Lemma core_object l : Forall (fun kv : name * value => core_at (snd kv)) l -> core_at (VObject l).
  Proof.
    intros IH t Hok Hin.
    rewrite (plain_verrs s (VObject l) t eq_refl), (plain_coerc s (VObject l) t eq_refl), coercibleb_named.
    set (n := inner_type t) in *. clearbody n. clear t Hok.
    cbn [verrs lookup_named opt_bind inner_type]. unfold input_field_type.
    cbn [lookup_named opt_bind inner_type]. unfold named_spec. unfold is_input_or_unknown in Hin.
    destruct (type_by_name s n) as [td|] eqn:H.
    2:{ cbn [obj_here opt_bind opt_map app]. rewrite (flat_map_all_nil _ _ (fun kv => verrs_None s (snd kv))).
        split; reflexivity. }
    destruct td as [? ? ?|? ? ?|? ?|sn|en vals|nm fields]; try discriminate.
    - (* scalar *)
      cbn [obj_here td_is_leaf opt_bind opt_map input_field_by_name app]. rewrite app_nil_r.
      rewrite (flat_map_all_nil _ _ (fun kv => verrs_None s (snd kv))), app_nil_r.
      change (lookup_named s (Some (TNamed n))) with (type_by_name s n). rewrite H. apply scalar_ok.
    - (* enum *)
      unfold obj_here. cbn [td_is_leaf]. change (lookup_named s (Some (TNamed n))) with (type_by_name s n). rewrite H.
      cbn [leaf_here td_is_leaf app]. split; discriminate.
    - (* input object *)
      cbn [obj_here td_is_leaf opt_bind opt_map input_field_by_name app].
      rewrite andb_true_iff, !app_nil_iff.
      unfold missing_here, unknown_here. rewrite !flat_map_nil_iff, !forallb_forall.
      rewrite Forall_forall in IH.
      assert (Hkv : forall kv, In kv l ->
                ((if existsb (fun f => name_eqb (iv_name f) (fst kv)) fields then [] else [vct_err]) = [] /\
                 verrs s (opt_map iv_type (find_first (fun f => name_eqb (iv_name f) (fst kv)) fields)) (snd kv) = [])
                <-> match find_first (fun f => name_eqb (iv_name f) (fst kv)) fields with
                    | Some f => coercibleb s (snd kv) (iv_type f)
                    | None => false
                    end = true).
      { intros kv Hin_kv. rewrite existsb_find_first.
        destruct (find_first (fun f => name_eqb (iv_name f) (fst kv)) fields) as [f|] eqn:Ef; cbn [is_some opt_map].
        - apply find_first_some in Ef. destruct Ef as [Ef _].
          destruct (input_field_facts _ _ _ _ H Ef) as [Hp Hi].
          pose proof (IH kv Hin_kv (iv_type f) Hp Hi) as Hc. tauto.
        - split; [intros [Hx _]; discriminate|discriminate]. }
      assert (Hf : forall f : input_value_def,
                (if iv_is_required f && negb (existsb (fun kv : name * value => name_eqb (fst kv) (iv_name f)) l)
                 then [vct_err] else []) = [] <->
                negb (iv_is_required f) || existsb (fun kv : name * value => name_eqb (fst kv) (iv_name f)) l = true).
      { intro f. destruct (iv_is_required f); destruct (existsb _ l); cbn; split; intro; solve [reflexivity|discriminate]. }
      split.
      + intros [[Hm Hu] Hc]. split.
        * intros kv Hk. apply Hkv; [exact Hk|]. split; [exact (Hu kv Hk)|exact (Hc kv Hk)].
        * intros f Hfi. apply Hf. exact (Hm f Hfi).
      + intros [Hc Hm]. split; [split|].
        * intros f Hfi. apply Hf. exact (Hm f Hfi).
        * intros kv Hk. apply (Hkv kv Hk). exact (Hc kv Hk).
        * intros kv Hk. apply (Hkv kv Hk). exact (Hc kv Hk).
  Qed.

  Lemma verrs_coercible v : core_at v.
  Proof.
    induction v as [n|z|b|str|b| |n|l IH|l IH] using value_ind'; try (apply core_leaf; reflexivity).
    - intros t _ _. rewrite coercibleb_var. split; reflexivity.
    - intros t _ _. destruct t; cbn; split; solve [reflexivity|discriminate].
    - apply core_list. exact IH.
    - apply core_object. exact IH.
  Qed.
End Core.

Lemma value_errors_coercible : forall s t v, wf_schema s = true -> ty_proper t = true ->
  is_input_or_unknown s (inner_type t) = true ->
  (value_errors s (Some t) v = [] <-> coercibleb s v t = true).
Proof.
  intros s t v Hwf Hok Hin. rewrite value_errors_verrs. apply verrs_coercible; assumption.
Qed.

(* ------------------------------------------------------------------ the rule on a document *)
Definition L (l : list aev) : list (ty * value) :=
  flat_map (fun ea : aev =>
              match fst ea, a_input_lit (snd ea) with
              | Enter (NArgument a), Some t => [(t, snd a)]
              | Enter (NVarDef v), Some t => match v_default v with Some dv => [(t, dv)] | None => [] end
              | _, _ => []
              end) l.

Definition VE (s : sdocument) (ps : list (ty * value)) : list verror :=
  flat_map (fun tv : ty * value => verrs s (Some (fst tv)) (snd tv)) ps.

Definition ty_fine (s : sdocument) (t : ty) : Prop :=
  ty_proper t = true /\ is_input_or_unknown s (inner_type t) = true.

Definition Rel (s : sdocument) (l : list aev) : Prop :=
  E s l = VE s (L l) /\ Forall (fun tv : ty * value => ty_fine s (fst tv)) (L l).

Lemma Rel_nil s : Rel s [].
Proof. split; [reflexivity|constructor]. Qed.

Lemma L_app a b : L (a ++ b) = L a ++ L b.
Proof. apply flat_map_app. Qed.
Lemma VE_app s a b : VE s (a ++ b) = VE s a ++ VE s b.
Proof. apply flat_map_app. Qed.

Lemma Rel_app s a b : Rel s a -> Rel s b -> Rel s (a ++ b).
Proof.
  intros [Ha Fa] [Hb Fb]. split.
  - rewrite E_app, L_app, VE_app, Ha, Hb. reflexivity.
  - rewrite L_app. apply Forall_app. split; assumption.
Qed.

Lemma Rel_cons s x l : Rel s [x] -> Rel s l -> Rel s (x :: l).
Proof. intros Hx Hl. exact (Rel_app s [x] l Hx Hl). Qed.

Lemma Rel_flat_map {A} s (f : A -> list aev) (l : list A) :
  (forall x, In x l -> Rel s (f x)) -> Rel s (flat_map f l).
Proof.
  induction l as [|x r IH]; intro H; cbn [flat_map]; [apply Rel_nil|].
  apply Rel_app; [apply H; left; reflexivity|apply IH; intros y Hy; apply H; right; exact Hy].
Qed.

Definition neutral (e : event) : bool :=
  match e with
  | Enter NNull | Enter (NList _) | Enter (NObject _) | Enter (NEnum _) | Enter (NScalar _)
  | Enter (NArgument _) | Enter (NVarDef _) => false
  | _ => true
  end.

Lemma Rel_neutral s e a : neutral e = true -> Rel s [(e, a)].
Proof.
  intro H. destruct e as [n|n]; [destruct n; try discriminate|];
    (split; [reflexivity|unfold L; cbn; try constructor]).
  all: destruct (a_input_lit a); constructor.
Qed.

Lemma Rel_wrap s e a inner :
  neutral e = true -> forall e' a', neutral e' = true -> Rel s inner -> Rel s ((e, a) :: inner ++ [(e', a')]).
Proof.
  intros H e' a' H' Hi. apply Rel_cons; [apply Rel_neutral; exact H|].
  apply Rel_app; [exact Hi|apply Rel_neutral; exact H'].
Qed.

Lemma L_annot_value s v : forall e, L (annot_value s v e) = [].
Proof.
  induction v as [n|z|b|str|b| |n|l IH|l IH] using value_ind'; intro e; try reflexivity.
  - cbn [annot_value]. unfold L. cbn [flat_map fst app]. rewrite flat_map_app, flat_map_flat_map.
    cbn [flat_map fst app]. rewrite app_nil_r. apply flat_map_nil_iff. rewrite Forall_forall in IH.
    intros x Hx. apply (IH x Hx).
  - cbn [annot_value]. unfold L. cbn [flat_map fst app]. rewrite flat_map_app, flat_map_flat_map.
    cbn [flat_map fst app]. rewrite app_nil_r. apply flat_map_nil_iff. rewrite Forall_forall in IH.
    intros kv Hkv. cbv zeta. cbn [flat_map fst app]. rewrite flat_map_app. cbn [flat_map fst app].
    rewrite app_nil_r. apply (IH kv Hkv).
Qed.

Definition decls_fine (s : sdocument) (decls : option (list input_value_def)) : Prop :=
  forall ds f, decls = Some ds -> In f ds -> ty_fine s (iv_type f).

Lemma Rel_literal s (x0 x1 : aev) inner t v :
  E s [x0] = [] -> E s [x1] = [] -> L [x1] = [] ->
  E s inner = verrs s t v -> L inner = [] ->
  L [x0] = match t with Some t0 => [(t0, v)] | None => [] end ->
  (forall t0, t = Some t0 -> ty_fine s t0) ->
  Rel s (x0 :: inner ++ [x1]).
Proof.
  intros E0 E1 L1 Ei Li L0 Ht.
  change (x0 :: inner ++ [x1]) with ([x0] ++ inner ++ [x1]). split.
  - rewrite !E_app, !L_app, !VE_app, E0, E1, L1, Ei, Li, L0. cbn [app]. rewrite !app_nil_r.
    destruct t as [t0|]; cbn [VE flat_map fst snd app]; [rewrite app_nil_r; reflexivity|apply verrs_None].
  - rewrite !L_app, L1, Li, L0. cbn [app]. rewrite app_nil_r.
    destruct t as [t0|]; constructor; [|constructor]. cbn [fst]. apply Ht. reflexivity.
Qed.

Lemma Rel_argument s decls (a : argument) e :
  decls_fine s decls ->
  Rel s (let e' := expecting s e (declared_arg_type decls (fst a)) in
         (Enter (NArgument a), e') :: annot_value s (snd a) e' ++ [(Leave (NArgument a), e')]).
Proof.
  intro Hd. cbv zeta.
  apply (Rel_literal s _ _ _ (declared_arg_type decls (fst a)) (snd a)); try reflexivity.
  - apply (E_annot_value s (snd a) (expecting s e (declared_arg_type decls (fst a)))). reflexivity.
  - apply L_annot_value.
  - unfold L. cbn [flat_map fst snd a_input_lit expecting]. rewrite app_nil_r. reflexivity.
  - intros t0 Et. unfold declared_arg_type in Et.
    destruct decls as [ds|]; [|discriminate]. cbn [opt_bind] in Et.
    destruct (find_first (fun x => name_eqb (iv_name x) (fst a)) ds) as [f|] eqn:Ef; [|discriminate].
    cbn [opt_map] in Et. injection Et as <-. apply find_first_some in Ef. destruct Ef as [Ef _].
    exact (Hd ds f eq_refl Ef).
Qed.

Lemma Rel_arguments s decls args e : decls_fine s decls -> Rel s (annot_arguments s decls args e).
Proof.
  intro Hd. unfold annot_arguments. apply Rel_flat_map. intros a _. apply (Rel_argument s decls a e Hd).
Qed.

Lemma directive_by_name_in s n dd : directive_by_name s n = Some dd -> In dd (directive_defs s).
Proof.
  induction s as [|x r IH]; cbn [directive_by_name]; [discriminate|].
  destruct x as [sd|t|d|e]; unfold directive_defs; cbn [flat_map app]; fold (directive_defs r); try exact IH.
  destruct (name_eqb (dd_name d) n).
  - intros [= <-]. left; reflexivity.
  - intro H. right. exact (IH H).
Qed.

Section Doc.
  Variable s : sdocument.
  Hypothesis Hwf : wf_schema s = true.

  Lemma directive_decls_fine n : decls_fine s (opt_map dd_args (directive_by_name s n)).
  Proof.
    intros ds f Hds Hf. destruct (directive_by_name s n) as [dd|] eqn:Hd; [|discriminate].
    cbn [opt_map] in Hds. injection Hds as <-. apply directive_by_name_in in Hd.
    pose proof (wf_directive_args s Hwf) as Hw. pose proof (wf_types_proper s Hwf) as Hp.
    unfold schema_types_proper in Hp. apply andb_prop in Hp. destruct Hp as [_ Hp].
    rewrite forallb_forall in Hw, Hp.
    exact (wf_ivs_facts s (dd_args dd) f (Hw dd Hd) (Hp dd Hd) Hf).
  Qed.

  Lemma Rel_directives dirs e : Rel s (annot_directives s dirs e).
  Proof.
    unfold annot_directives. apply Rel_flat_map. intros d _.
    apply Rel_wrap; try reflexivity. apply Rel_arguments. apply directive_decls_fine.
  Qed.

  Lemma Rel_vardefs vars e :
    (forall v, In v vars -> ty_fine s (v_type v)) -> Rel s (annot_vardefs s vars e).
  Proof.
    intro Hv. unfold annot_vardefs. apply Rel_flat_map. intros v Hin. cbv zeta.
    destruct (v_default v) as [dv|] eqn:Hdv.
    - apply (Rel_literal s _ _ _ (Some (v_type v)) dv); try reflexivity.
      + apply (E_annot_value s dv (expecting s e (Some (v_type v)))). reflexivity.
      + apply L_annot_value.
      + unfold L. cbn [flat_map fst snd a_input_lit expecting]. rewrite Hdv. reflexivity.
      + intros t0 [= <-]. exact (Hv v Hin).
    - split.
      + unfold E, L, VE. cbn [flat_map fst snd vfa app a_input_lit expecting]. rewrite Hdv. reflexivity.
      + unfold L. cbn [flat_map fst snd app a_input_lit expecting]. rewrite Hdv. constructor.
  Qed.

  (* the type definitions an environment can hold come from the schema *)
  Definition td_fine (o : option type_def) : Prop :=
    forall td, o = Some td -> wf_type s td = true /\ type_proper td = true.

  Lemma lookup_named_fine t : td_fine (lookup_named s t).
  Proof.
    intros td H. destruct t as [t|]; [|discriminate]. cbn [lookup_named opt_bind] in H.
    exact (wf_type_of s Hwf _ _ H).
  Qed.

  Lemma field_decls_fine (p : option type_def) n :
    td_fine p -> decls_fine s (opt_map fd_args (opt_bind p (fun t => field_by_name t n))).
  Proof.
    intros Hp ds f Hds Hf. destruct p as [td|]; [|discriminate]. cbn [opt_bind] in Hds.
    destruct (field_by_name td n) as [fd|] eqn:Hfd; [|discriminate].
    cbn [opt_map] in Hds. injection Hds as <-.
    destruct (Hp td eq_refl) as [Hw Hpr].
    assert (Hfs : exists fs, In fd fs /\ wf_fields s fs = true /\ fields_proper fs = true).
    { destruct td as [tn ifs fs|tn ifs fs|? ?|?|? ?|? ?]; cbn [field_by_name] in Hfd; try discriminate;
        apply find_first_some in Hfd; destruct Hfd as [Hfd _]; exists fs; cbn [wf_type type_proper] in Hw, Hpr.
      - apply andb_prop in Hw. destruct Hw as [Hw _]. auto.
      - apply andb_prop in Hw. destruct Hw as [Hw _]. apply andb_prop in Hw. destruct Hw as [Hw _]. auto. }
    destruct Hfs as [fs [Hin [Hwf' Hpf]]].
    unfold wf_fields in Hwf'. apply andb_prop in Hwf'. destruct Hwf' as [_ Hwf'].
    unfold fields_proper in Hpf. rewrite forallb_forall in Hwf', Hpf.
    pose proof (Hwf' fd Hin) as H1. pose proof (Hpf fd Hin) as H2.
    apply andb_prop in H1. destruct H1 as [_ H1]. apply andb_prop in H2. destruct H2 as [_ H2].
    exact (wf_ivs_facts s (fd_args fd) f H1 H2 Hf).
  Qed.

  Definition env_fine (e : env) : Prop := td_fine (a_type e) /\ td_fine (a_parent e).

  Lemma env_fine_at_type e t : env_fine e -> env_fine (at_type s e t).
  Proof. intros [_ Hp]. split; [apply lookup_named_fine|exact Hp]. Qed.
  Lemma env_fine_in_selection_set e : env_fine e -> env_fine (in_selection_set e).
  Proof. intros [Ht _]. split; exact Ht. Qed.
  Lemma env_fine_in_field e f : env_fine e -> env_fine (in_field e f).
  Proof. intros H. exact H. Qed.

  Lemma Rel_selection x : forall e, env_fine e -> Rel s (annot_selection s x e).
  Proof.
    induction x as [p al n args dirs sp sels IH|p n dirs|p tc dirs sp sels IH] using selection_ind';
      intros e He; cbn [annot_selection]; cbv zeta.
    - apply Rel_cons; [apply Rel_neutral; reflexivity|].
      apply Rel_app; [apply Rel_arguments; apply field_decls_fine; exact (proj2 He)|].
      apply Rel_app; [apply Rel_directives|].
      apply Rel_cons; [apply Rel_neutral; reflexivity|].
      apply Rel_app.
      + apply Rel_flat_map. rewrite Forall_forall in IH. intros y Hy. apply (IH y Hy).
        apply env_fine_in_selection_set, env_fine_in_field, env_fine_at_type. exact He.
      + apply Rel_cons; apply Rel_neutral; reflexivity.
    - apply Rel_wrap; try reflexivity. apply Rel_directives.
    - apply Rel_cons; [apply Rel_neutral; reflexivity|].
      apply Rel_app; [apply Rel_directives|].
      apply Rel_cons; [apply Rel_neutral; reflexivity|].
      apply Rel_app.
      + apply Rel_flat_map. rewrite Forall_forall in IH. intros y Hy. apply (IH y Hy).
        apply env_fine_in_selection_set. destruct tc as [cond|]; [apply env_fine_at_type|]; exact He.
      + apply Rel_cons; apply Rel_neutral; reflexivity.
  Qed.

  Lemma Rel_selection_set sp sels e : env_fine e -> Rel s (annot_selection_set s sp sels e).
  Proof.
    intro He. unfold annot_selection_set. cbv zeta. apply Rel_wrap; try reflexivity.
    apply Rel_flat_map. intros y _. apply Rel_selection. apply env_fine_in_selection_set. exact He.
  Qed.

  Lemma env_fine_env0 : env_fine env0.
  Proof. split; intros td H; discriminate. Qed.

  Definition def_vars_fine (x : definition) : Prop :=
    match x with
    | DOp o => forall v, In v (op_variable_definitions o) -> ty_fine s (v_type v)
    | DFrag _ => True
    end.

  Lemma Rel_definition x : def_vars_fine x -> Rel s (annot_definition s x env0).
  Proof.
    intro Hx. destruct x as [o|f]; cbn [annot_definition]; cbv zeta.
    - apply Rel_cons; [apply Rel_neutral; reflexivity|].
      apply Rel_app; [apply Rel_directives|].
      apply Rel_app; [apply Rel_vardefs; exact Hx|].
      apply Rel_app; [|apply Rel_neutral; reflexivity].
      apply Rel_selection_set. apply env_fine_at_type. exact env_fine_env0.
    - apply Rel_cons; [apply Rel_neutral; reflexivity|].
      apply Rel_app; [apply Rel_directives|].
      apply Rel_app; [|apply Rel_neutral; reflexivity].
      apply Rel_selection_set. apply env_fine_at_type. exact env_fine_env0.
  Qed.

  Lemma Rel_document d : (forall x, In x d -> def_vars_fine x) -> Rel s (annot s d).
  Proof.
    intro Hd. unfold annot. apply Rel_wrap; try reflexivity.
    apply Rel_flat_map. intros x Hx. apply Rel_definition. exact (Hd x Hx).
  Qed.

  Lemma VE_iff ps :
    Forall (fun tv : ty * value => ty_fine s (fst tv)) ps ->
    (VE s ps <> [] <-> existsb (fun tv : ty * value => negb (coercibleb s (snd tv) (fst tv))) ps = true).
  Proof.
    induction 1 as [|[t v] r [Hp Hi] Hr IH]; cbn [VE flat_map existsb fst snd].
    - split; [congruence|discriminate].
    - pose proof (verrs_coercible s Hwf v t Hp Hi) as Hc.
      destruct (coercibleb s v t) eqn:Ec; cbn [negb orb].
      + rewrite (proj2 Hc eq_refl). cbn [app]. exact IH.
      + split; [reflexivity|]. intros _ Hnil. apply app_eq_nil in Hnil. destruct Hnil as [Hnil _].
        apply Hc in Hnil. discriminate.
  Qed.

  Lemma run_alone_E d : run_alone R_ValuesOfCorrectType s d = E s (annot s d).
  Proof.
    unfold run_alone. cbn [run_rule]. rewrite (visit_fold (vct_step s) s d ctx0 []).
    cbn [snd plain r_errors]. rewrite fold_vct_E, (ctr_document_answers s (wf_query_entry_ok s Hwf)).
    reflexivity.
  Qed.

  Lemma doc_vars_fine d :
    doc_types_proper d = true -> negb (v_variables_are_input_types s d) = true ->
    forall x, In x d -> def_vars_fine x.
  Proof.
    intros Hp Hs x Hx. destruct x as [o|f]; cbn [def_vars_fine]; [|exact I].
    intros v Hv.
    assert (Ho : In o (operations_of d)).
    { unfold operations_of. apply in_flat_map. exists (DOp o). split; [exact Hx|left; reflexivity]. }
    split.
    - unfold doc_types_proper in Hp. rewrite forallb_forall in Hp. pose proof (Hp o Ho) as Hpo.
      rewrite forallb_forall in Hpo. exact (Hpo v Hv).
    - apply negb_true_iff in Hs. unfold v_variables_are_input_types in Hs.
      unfold is_input_or_unknown.
      destruct (type_by_name s (inner_type (v_type v))) as [td|] eqn:Ht; [|reflexivity].
      destruct (td_is_input td) eqn:Hi; [reflexivity|].
      assert (Hex : existsb (fun t => match type_by_name s (inner_type t) with
                                      | Some td => negb (td_is_input td) | None => false end)
                            (variable_types d) = true).
      { apply existsb_exists. exists (v_type v). split.
        - unfold variable_types. apply in_flat_map. exists o. split; [exact Ho|]. apply in_map. exact Hv.
        - rewrite Ht, Hi. reflexivity. }
      rewrite Hex in Hs. discriminate.
  Qed.
End Doc.

Lemma values_of_correct_type_iff : forall s d, wf_schema s = true -> doc_types_proper d = true ->
  rule_in_scope R_ValuesOfCorrectType s d = true ->
  (run_alone R_ValuesOfCorrectType s d <> [] <-> violated R_ValuesOfCorrectType s d = true).
Proof.
  intros s d Hwf Hp Hs. cbn [rule_in_scope] in Hs. cbn [violated].
  destruct (Rel_document s Hwf d (doc_vars_fine s d Hp Hs)) as [HE HF].
  rewrite (run_alone_E s Hwf d), HE. exact (VE_iff s Hwf _ HF).
Qed.

(* ------------------------------------------------------------------ why [ty_proper] is needed *)
Definition cx_schema : sdocument :=
  [SDType (TDScalar "Int"); SDType (TDObject "Query" [] [mkFD "a" [] (TNamed "Int")])].
Definition cx_type : ty := TNonNull (TNonNull (TList (TNamed "Int"))).

Lemma C08_core_counterexample :
  wf_schema cx_schema = true /\ is_input_or_unknown cx_schema (inner_type cx_type) = true /\
  value_errors cx_schema (Some cx_type) (VList []) = [vct_err] /\
  coercibleb cx_schema (VList []) cx_type = true.
Proof. vm_compute. repeat split. Qed.

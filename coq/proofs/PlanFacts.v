(* PlanFacts.v — validate over a plan is the in-order concatenation of its rules run alone. *)
From GT Require Import Visitor Validate.
From GTP Require Import VisitorFacts TraceFacts RuleFacts.

Lemma validate_eq s d plan :
  validate s d plan =
  if is_nil plan then Ok []
  else if document_panics s d then Panic
  else if existsb (fun r => r_oof (snd (run_rule r s d ctx0))) plan then OutOfFuel
  else Ok (flat_map (fun r => run_alone r s d) plan).
Proof.
  unfold validate. destruct (is_nil plan); [reflexivity|].
  destruct (document_panics s d); [reflexivity|].
  rewrite (validate_fold s d plan ctx0 (mkRes [] false)). cbn [r_errors r_oof app orb].
  destruct (existsb _ plan); reflexivity.
Qed.

Lemma validate_union s d plan :
  plan <> [] -> document_panics s d = false ->
  (forall r, In r plan -> r_oof (snd (run_rule r s d ctx0)) = false) ->
  validate s d plan = Ok (flat_map (fun r => run_alone r s d) plan).
Proof.
  intros Hne Hp Hf. rewrite validate_eq.
  destruct plan as [|r0 plan']; [congruence|]. cbn [is_nil]. rewrite Hp.
  replace (existsb (fun r => r_oof (snd (run_rule r s d ctx0))) (r0 :: plan')) with false; [reflexivity|].
  symmetry. apply not_true_is_false. intro H. apply existsb_exists in H.
  destruct H as [r [Hin Hr]]. rewrite (Hf r Hin) in Hr. discriminate.
Qed.

Lemma default_plan_nodup : NoDup default_plan.
Proof. repeat (constructor; [cbn; intuition discriminate|]). constructor. Qed.

Lemma default_plan_complete : forall r : rule_id, In r default_plan.
Proof. intro r. destruct r; cbn; tauto. Qed.

(* C10_slot_proofs.v — KnownDirectives (kd_step): a one-slot state holding the location kind of
   the node being visited.  The handler ignores the context, so the run is a fold over the
   structural linearisation [lin_document d]; by induction over the [lin_*] functions the fold
   appends exactly the errors of the directive sites of the document. *)
From GT Require Import Visitor Validate.
From GTS Require Import SpecLin Annot WfSchema SpecRules SpecValid.
From GTP Require Import VisitorFacts TraceFacts RuleFacts.

(* ------------------------------------------------------------------ directive look-ups *)
Lemma directive_by_name_absent s n :
  mem_name n (map dd_name (directive_defs s)) = false -> directive_by_name s n = None.
Proof.
  induction s as [|x r IH]; intro H; [reflexivity|].
  destruct x as [sd|t|dd|ext]; cbn [directive_by_name]; try (apply IH; exact H).
  cbn in H. apply orb_false_iff in H. destruct H as [H1 H2].
  unfold name_eqb in *. rewrite String.eqb_sym, H1. apply IH. exact H2.
Qed.

Lemma directive_map_get_by_name s n :
  nodup_names (map dd_name (directive_defs s)) = true ->
  directive_map_get s n = directive_by_name s n.
Proof.
  induction s as [|x r IH]; intro H; [reflexivity|].
  destruct x as [sd|t|dd|ext]; cbn [directive_by_name directive_map_get]; try (apply IH; exact H).
  cbn in H. apply andb_prop in H. destruct H as [H1 H2].
  rewrite (IH H2). destruct (name_eqb (dd_name dd) n) eqn:E.
  - unfold name_eqb in E. apply String.eqb_eq in E. subst n.
    apply negb_true_iff in H1. rewrite (directive_by_name_absent r _ H1). reflexivity.
  - destruct (directive_by_name r n); reflexivity.
Qed.

Lemma wf_unique_directives s :
  wf_schema s = true -> nodup_names (map dd_name (directive_defs s)) = true.
Proof.
  unfold wf_schema. intro H. repeat (apply andb_prop in H; destruct H as [H ?]). assumption.
Qed.

Lemma dir_loc_eqb_sym a b : dir_loc_eqb a b = dir_loc_eqb b a.
Proof. destruct a, b; reflexivity. Qed.

(* ------------------------------------------------------------------ generic fold facts *)
Lemma fold_left_map_l {A B C} (f : A -> C -> A) (g : B -> C) (l : list B) (a : A) :
  fold_left f (map g l) a = fold_left (fun a x => f a (g x)) l a.
Proof. revert a. induction l as [|x r IH]; intro a; cbn; [reflexivity|apply IH]. Qed.

Lemma flat_map_flat_map {A B C} (f : A -> list B) (g : B -> list C) (l : list A) :
  flat_map g (flat_map f l) = flat_map (fun x => flat_map g (f x)) l.
Proof. induction l as [|x r IH]; cbn [flat_map]; [reflexivity|]. rewrite flat_map_app, IH. reflexivity. Qed.

Section KD.
  Variable s : sdocument.

  Definition kd_ev (st : kd_state) (e : event) : kd_state := kd_step s st e ctx0.

  Lemma kd_step_ctx st e c : kd_step s st e c = kd_ev st e.
  Proof. destruct e as [n|n]; destruct n; reflexivity. Qed.

  Lemma kd_fold_events (tr : ctrace) st :
    fold_left (hh (kd_step s)) tr st = fold_left kd_ev (map fst tr) st.
  Proof.
    rewrite fold_left_map_l. apply fold_left_ext_fn. intros a [e c]. unfold hh. cbn [fst snd].
    apply kd_step_ctx.
  Qed.

  (* the errors of one directive judged at location [loc] *)
  Definition dir_errs (loc : dir_loc) (x : directive) : list verror :=
    match directive_map_get s (d_name x) with
    | Some dd => if existsb (fun l => dir_loc_eqb l loc) (dd_locs dd) then []
                 else [err R_KnownDirectives [d_pos x]]
    | None => [err R_KnownDirectives [d_pos x]]
    end.
  Definition site_errs (site : dir_loc * list directive) : list verror :=
    flat_map (dir_errs (fst site)) (snd site).

  (* [Keeps l]: the events of l do not touch the state *)
  Definition Keeps (l : list event) : Prop := forall st, fold_left kd_ev l st = st.

  Lemma Keeps_nil : Keeps [].
  Proof. intro st. reflexivity. Qed.
  Lemma Keeps_app a b : Keeps a -> Keeps b -> Keeps (a ++ b).
  Proof. intros Ha Hb st. rewrite fold_left_app, Ha, Hb. reflexivity. Qed.
  Lemma Keeps_cons e l : (forall st, kd_ev st e = st) -> Keeps l -> Keeps (e :: l).
  Proof. intros He Hl st. cbn [fold_left]. rewrite He. apply Hl. Qed.
  Lemma Keeps_flat_map {A} (f : A -> list event) l :
    Forall (fun x => Keeps (f x)) l -> Keeps (flat_map f l).
  Proof. induction 1; cbn [flat_map]; [apply Keeps_nil|apply Keeps_app; assumption]. Qed.

  Lemma Keeps_value v : Keeps (lin_value v).
  Proof.
    induction v as [n|z|b|str|b| |n|l IH|l IH] using value_ind'; cbn [lin_value];
      try (intro st; reflexivity).
    - apply Keeps_cons; [reflexivity|]. apply Keeps_app; [apply Keeps_flat_map, IH|].
      intro st; reflexivity.
    - apply Keeps_cons; [reflexivity|]. apply Keeps_app; [|intro st; reflexivity].
      apply Keeps_flat_map. eapply Forall_impl; [|exact IH]. intros kv Hkv.
      apply Keeps_cons; [reflexivity|]. apply Keeps_app; [exact Hkv|intro st; reflexivity].
  Qed.

  Lemma Keeps_arguments args : Keeps (flat_map lin_argument args).
  Proof.
    apply Keeps_flat_map, Forall_forall. intros a _. unfold lin_argument.
    apply Keeps_cons; [reflexivity|]. apply Keeps_app; [apply Keeps_value|intro st; reflexivity].
  Qed.

  Lemma Keeps_vardefs vars : Keeps (flat_map lin_vardef vars).
  Proof.
    apply Keeps_flat_map, Forall_forall. intros v _. unfold lin_vardef.
    apply Keeps_cons; [reflexivity|]. apply Keeps_app; [|intro st; reflexivity].
    destruct (v_default v); [apply Keeps_value|apply Keeps_nil].
  Qed.

  (* directives visited while the slot holds [loc] *)
  Lemma kd_directive loc x errs :
    fold_left kd_ev (lin_directive x) (mkKd (Some loc) errs) = mkKd (Some loc) (errs ++ dir_errs loc x).
  Proof.
    unfold lin_directive. cbn [fold_left]. rewrite fold_left_app, Keeps_arguments. cbn [fold_left].
    unfold kd_ev at 2. cbn [kd_step]. unfold dir_errs.
    destruct (directive_map_get s (d_name x)) as [dd|]; cbn [kd_loc kd_errs]; [|reflexivity].
    destruct (existsb (fun l => dir_loc_eqb l loc) (dd_locs dd)); cbn [kd_step kd_ev];
      rewrite ?app_nil_r; reflexivity.
  Qed.

  Lemma kd_directives loc ds : forall errs,
    fold_left kd_ev (flat_map lin_directive ds) (mkKd (Some loc) errs)
    = mkKd (Some loc) (errs ++ flat_map (dir_errs loc) ds).
  Proof.
    induction ds as [|x r IH]; intro errs; cbn [flat_map fold_left].
    - rewrite app_nil_r. reflexivity.
    - rewrite fold_left_app, kd_directive, IH, app_assoc. reflexivity.
  Qed.

  (* [Appends l E]: from any state, folding over l appends exactly the errors E *)
  Definition Appends (l : list event) (E : list verror) : Prop :=
    forall st, kd_errs (fold_left kd_ev l st) = kd_errs st ++ E.

  Lemma Appends_nil : Appends [] [].
  Proof. intro st. cbn. rewrite app_nil_r. reflexivity. Qed.
  Lemma Appends_app a b Ea Eb : Appends a Ea -> Appends b Eb -> Appends (a ++ b) (Ea ++ Eb).
  Proof. intros Ha Hb st. rewrite fold_left_app, Hb, Ha, app_assoc. reflexivity. Qed.
  Lemma Appends_keeps l : Keeps l -> Appends l [].
  Proof. intros H st. rewrite H, app_nil_r. reflexivity. Qed.
  Lemma Appends_single e : (forall st, kd_errs (kd_ev st e) = kd_errs st) -> Appends [e] [].
  Proof. intros H st. cbn [fold_left]. rewrite H, app_nil_r. reflexivity. Qed.
  Lemma Appends_flat_map {A} (f : A -> list event) (g : A -> list verror) l :
    Forall (fun x => Appends (f x) (g x)) l -> Appends (flat_map f l) (flat_map g l).
  Proof. induction 1; cbn [flat_map]; [apply Appends_nil|apply Appends_app; assumption]. Qed.
  Lemma Appends_eq l E E' : E = E' -> Appends l E -> Appends l E'.
  Proof. intros <- H. exact H. Qed.

  (* a node that sets the slot to [loc], then (inert events [pre], then) its directives, then the
     rest *)
  Lemma Appends_located e loc pre ds rest E :
    (forall st, kd_ev st e = mkKd (Some loc) (kd_errs st)) ->
    Keeps pre -> Appends rest E ->
    Appends (e :: pre ++ flat_map lin_directive ds ++ rest) (site_errs (loc, ds) ++ E).
  Proof.
    intros He Hpre Hrest st. cbn [fold_left]. rewrite He, !fold_left_app, Hpre, kd_directives, Hrest.
    cbn [kd_errs]. unfold site_errs. cbn [fst snd]. rewrite app_assoc. reflexivity.
  Qed.

  Definition sites_errs (l : list (dir_loc * list directive)) : list verror := flat_map site_errs l.

  Lemma Appends_selection x : Appends (lin_selection x) (sites_errs (sel_directive_sites x)).
  Proof.
    induction x as [p al n args dirs sp sels IH|p n dirs|p tc dirs sp sels IH] using selection_ind';
      cbn [lin_selection sel_directive_sites]; unfold sites_errs; cbn [flat_map].
    - apply Appends_located; [reflexivity|apply Keeps_arguments|].
      change (Enter (NSelectionSet sp sels) :: flat_map lin_selection sels ++
              [Leave (NSelectionSet sp sels); Leave (NField (SField p al n args dirs sp sels))])
        with ([Enter (NSelectionSet sp sels)] ++ flat_map lin_selection sels ++
              [Leave (NSelectionSet sp sels)] ++ [Leave (NField (SField p al n args dirs sp sels))]).
      eapply Appends_eq; cycle 1.
      { apply Appends_app; [apply Appends_single; reflexivity|].
        apply Appends_app; [apply (Appends_flat_map _ _ _ IH)|].
        apply Appends_app; apply Appends_single; reflexivity. }
      cbn [app]. rewrite app_nil_r. unfold sites_errs. rewrite flat_map_flat_map. reflexivity.
    - eapply Appends_eq; cycle 1.
      { apply (Appends_located (Enter (NSpread (SSpread p n dirs))) LFragmentSpread [] dirs
                               [Leave (NSpread (SSpread p n dirs))] []);
          [reflexivity|apply Keeps_nil|apply Appends_single; reflexivity]. }
      reflexivity.
    - apply (Appends_located _ LInlineFragment []); [reflexivity|apply Keeps_nil|].
      change (Enter (NSelectionSet sp sels) :: flat_map lin_selection sels ++
              [Leave (NSelectionSet sp sels); Leave (NInline (SInline p tc dirs sp sels))])
        with ([Enter (NSelectionSet sp sels)] ++ flat_map lin_selection sels ++
              [Leave (NSelectionSet sp sels)] ++ [Leave (NInline (SInline p tc dirs sp sels))]).
      eapply Appends_eq; cycle 1.
      { apply Appends_app; [apply Appends_single; reflexivity|].
        apply Appends_app; [apply (Appends_flat_map _ _ _ IH)|].
        apply Appends_app; apply Appends_single; reflexivity. }
      cbn [app]. rewrite app_nil_r. unfold sites_errs. rewrite flat_map_flat_map. reflexivity.
  Qed.

  Lemma Appends_selection_set sp sels :
    Appends (lin_selection_set sp sels) (sites_errs (flat_map sel_directive_sites sels)).
  Proof.
    unfold lin_selection_set.
    change (Enter (NSelectionSet sp sels) :: flat_map lin_selection sels ++ [Leave (NSelectionSet sp sels)])
      with ([Enter (NSelectionSet sp sels)] ++ flat_map lin_selection sels ++ [Leave (NSelectionSet sp sels)]).
    eapply Appends_eq; cycle 1.
    { apply Appends_app; [apply Appends_single; reflexivity|].
      apply Appends_app; [|apply Appends_single; reflexivity].
      apply Appends_flat_map, Forall_forall. intros x _. apply Appends_selection. }
    cbn [app]. rewrite app_nil_r. unfold sites_errs. rewrite flat_map_flat_map. reflexivity.
  Qed.

  Definition def_sites (x : definition) : list (dir_loc * list directive) :=
    match x with
    | DOp o => (op_location (o_kind o), op_directives o) :: flat_map sel_directive_sites (o_sels o)
    | DFrag f => (LFragmentDefinition, fr_dirs f) :: flat_map sel_directive_sites (fr_sels f)
    end.

  Lemma Appends_definition x : Appends (lin_definition x) (sites_errs (def_sites x)).
  Proof.
    destruct x as [o|f]; cbn [lin_definition def_sites]; unfold sites_errs; cbn [flat_map].
    - eapply Appends_eq; cycle 1.
      { apply (Appends_located (Enter (NOperation o)) (op_location (o_kind o))
                               [] (op_directives o)).
        - intro st. unfold kd_ev. cbn [kd_step]. destruct (o_kind o); reflexivity.
        - apply Keeps_nil.
        - apply Appends_app; [apply Appends_keeps, Keeps_vardefs|].
          apply Appends_app; [apply Appends_selection_set|apply Appends_single; reflexivity]. }
      cbn [app]. rewrite app_nil_r. reflexivity.
    - eapply Appends_eq; cycle 1.
      { apply (Appends_located (Enter (NFragmentDef f)) LFragmentDefinition [] (fr_dirs f)).
        - reflexivity.
        - apply Keeps_nil.
        - apply Appends_app; [apply Appends_selection_set|apply Appends_single; reflexivity]. }
      cbn [app]. rewrite app_nil_r. reflexivity.
  Qed.

  Lemma Appends_document d : Appends (lin_document d) (sites_errs (directive_sites d)).
  Proof.
    unfold lin_document.
    change (Enter (NDocument d) :: flat_map lin_definition d ++ [Leave (NDocument d)])
      with ([Enter (NDocument d)] ++ flat_map lin_definition d ++ [Leave (NDocument d)]).
    eapply Appends_eq; cycle 1.
    { apply Appends_app; [apply Appends_single; reflexivity|].
      apply Appends_app; [|apply Appends_single; reflexivity].
      apply Appends_flat_map, Forall_forall. intros x _. apply Appends_definition. }
    cbn [app]. rewrite app_nil_r. unfold sites_errs, directive_sites. rewrite flat_map_flat_map.
    apply flat_map_all_ext. intros [o|f]; reflexivity.
  Qed.

  (* the run of the rule is the list of the errors of all directive sites *)
  Theorem known_directives_run d :
    run_alone R_KnownDirectives s d = sites_errs (directive_sites d).
  Proof.
    unfold run_alone. cbn [run_rule]. rewrite visit_fold. cbn [snd plain r_errors].
    rewrite kd_fold_events, ctr_document_events, Appends_document. reflexivity.
  Qed.
End KD.

Lemma dir_errs_spec s loc x :
  nodup_names (map dd_name (directive_defs s)) = true ->
  negb (match dir_errs s loc x with [] => true | _ => false end)
  = match directive_by_name s (d_name x) with
    | Some dd => negb (existsb (dir_loc_eqb loc) (dd_locs dd))
    | None => true
    end.
Proof.
  intro Hn. unfold dir_errs. rewrite (directive_map_get_by_name s _ Hn).
  destruct (directive_by_name s (d_name x)) as [dd|]; [|reflexivity].
  replace (existsb (fun l => dir_loc_eqb l loc) (dd_locs dd)) with (existsb (dir_loc_eqb loc) (dd_locs dd)).
  - destruct (existsb (dir_loc_eqb loc) (dd_locs dd)); reflexivity.
  - induction (dd_locs dd) as [|l r IH]; cbn; [reflexivity|]. rewrite IH, dir_loc_eqb_sym. reflexivity.
Qed.

Lemma existsb_ext_all {A} (f g : A -> bool) l : (forall x, f x = g x) -> existsb f l = existsb g l.
Proof. intro H. induction l as [|x r IH]; cbn; [reflexivity|]. rewrite H, IH. reflexivity. Qed.

Lemma flat_map_nonempty_b {A B} (f : A -> list B) (l : list A) :
  negb (match flat_map f l with [] => true | _ => false end)
  = existsb (fun x => negb (match f x with [] => true | _ => false end)) l.
Proof.
  induction l as [|x r IH]; cbn [flat_map existsb]; [reflexivity|].
  destruct (f x); cbn [app negb orb]; [exact IH|reflexivity].
Qed.

Theorem known_directives_iff : forall s d, wf_schema s = true ->
  (run_alone R_KnownDirectives s d <> [] <-> violated R_KnownDirectives s d = true).
Proof.
  intros s d Hwf. pose proof (wf_unique_directives s Hwf) as Hn.
  rewrite known_directives_run. unfold sites_errs. rewrite flat_map_nonempty_existsb.
  cbn [violated]. unfold v_known_directives.
  match goal with |- ?a = true <-> ?b = true => replace a with b; [tauto|] end.
  apply existsb_ext_all. intros [loc ds]. cbn [fst snd]. unfold site_errs. cbn [fst snd].
  rewrite flat_map_nonempty_b. apply existsb_ext_all. intro x. symmetry. apply dir_errs_spec, Hn.
Qed.
Print Assumptions known_directives_iff.

(* C05_frag_spec.v — facts about the specification of field merging (SpecMerge.v) used for
   documents with named fragment spreads: symmetry, monotonicity in the fuel and in the
   mutually-exclusive flag, a generic height bound for finite acyclic relations and, from it,
   the sufficiency of [merge_fuel_spec] on documents without fragment cycles. *)
From Coq Require Import Permutation.
From GT Require Import Visitor Validate Merge.
From GTS Require Import SpecLin Annot WfSchema SpecCollect SpecRules SpecMerge SpecValid.
From GTP Require Import VisitorFacts TraceFacts RuleFacts EventFacts C06_graph_proofs C06_proofs C05_proofs
     C05_frag_graph.

(* ================================================================== a height bound *)
Section Height.
  Variables (A K : Type) (key : A -> K) (child : A -> A -> Prop) (LT : K -> K -> Prop) (F : list K).
  Hypothesis LT_trans : forall a b c, LT a b -> LT b c -> LT a c.
  Hypothesis LT_irrefl : forall a, ~ LT a a.
  Hypothesis child_ok : forall x u, In (key x) F -> child x u -> LT (key u) (key x) /\ In (key u) F.

  Inductive hb : A -> nat -> Prop :=
  | hb_intro x h : (forall u, child x u -> exists h', h' < h /\ hb u h') -> hb x h.

  Lemma hb_chain : forall k anc x,
    NoDup anc -> incl anc F -> In (key x) F -> (forall a, In a anc -> LT (key x) a) ->
    List.length F <= List.length anc + k -> hb x k.
  Proof.
    induction k as [|k IH]; intros anc x Hnd Hincl Hx Hlt Hlen.
    - constructor. intros u _. exfalso.
      assert (Hnd' : NoDup (key x :: anc)).
      { constructor; [|exact Hnd]. intro Hin. exact (LT_irrefl _ (Hlt _ Hin)). }
      assert (Hincl' : incl (key x :: anc) F).
      { intros a [<-|Ha]; [exact Hx|apply Hincl, Ha]. }
      pose proof (NoDup_incl_length Hnd' Hincl') as Hl. cbn [List.length] in Hl. lia.
    - constructor. intros u Hu. destruct (child_ok x u Hx Hu) as [Hux HuF].
      exists k. split; [lia|]. apply (IH (key x :: anc)).
      + constructor; [|exact Hnd]. intro Hin. exact (LT_irrefl _ (Hlt _ Hin)).
      + intros a [<-|Ha]; [exact Hx|apply Hincl, Ha].
      + exact HuF.
      + intros a [<-|Ha]; [exact Hux|]. eapply LT_trans; [exact Hux|apply Hlt, Ha].
      + cbn [List.length]. lia.
  Qed.

  Lemma hb_bound x : In (key x) F -> hb x (List.length F).
  Proof.
    intro Hx. apply (hb_chain (List.length F) [] x); [constructor|intros a []|exact Hx|intros a []|cbn; lia].
  Qed.
End Height.

(* ================================================================== the pairwise condition *)
Lemma shape_conflict_sym s : forall a b, shape_conflict s a b = shape_conflict s b a.
Proof.
  intro a. induction a as [x|a IH|a IH]; intros [y|b|b]; cbn [shape_conflict]; try reflexivity; try apply IH.
  rewrite (c5_name_eqb_sym x y), (orb_comm (is_leaf_named s x)). reflexivity.
Qed.

Lemma parents_exclusive_sym a b : parents_exclusive a b = parents_exclusive b a.
Proof.
  unfold parents_exclusive. destruct (cf_parent a) as [[]|], (cf_parent b) as [[]|]; try reflexivity.
  rewrite c5_name_eqb_sym. reflexivity.
Qed.

Lemma same_arguments_sym a b : same_arguments a b = same_arguments b a.
Proof. unfold same_arguments. apply andb_comm. Qed.

Lemma fcm_S n s d m a b :
  fields_can_merge (S n) s d m a b =
  (let mutex' := m || parents_exclusive a b in
   (mutex' || (name_eqb (sel_name (cf_field a)) (sel_name (cf_field b)) &&
               same_arguments (sel_args (cf_field a)) (sel_args (cf_field b)))) &&
   match cf_def a, cf_def b with
   | Some da, Some db => negb (shape_conflict s (fd_type da) (fd_type db))
   | _, _ => true
   end &&
   forallb (fun xy : cfield * cfield => fields_can_merge n s d mutex' (fst xy) (snd xy))
           (cross_pairs (sub_set s d a) (sub_set s d b))).
Proof. reflexivity. Qed.

Definition level_ok (s : sdocument) (m : bool) (a b : cfield) : bool :=
  ((m || parents_exclusive a b) || (name_eqb (sel_name (cf_field a)) (sel_name (cf_field b)) &&
               same_arguments (sel_args (cf_field a)) (sel_args (cf_field b)))) &&
   match cf_def a, cf_def b with
   | Some da, Some db => negb (shape_conflict s (fd_type da) (fd_type db))
   | _, _ => true
   end.

Lemma fcm_true_iff n s d m a b :
  fields_can_merge (S n) s d m a b = true <->
  level_ok s m a b = true /\
  forall x y, In x (sub_set s d a) -> In y (sub_set s d b) -> name_eqb (cf_key x) (cf_key y) = true ->
              fields_can_merge n s d (m || parents_exclusive a b) x y = true.
Proof.
  rewrite fcm_S. cbv zeta. fold (level_ok s m a b). rewrite andb_true_iff, forallb_forall. split.
  - intros [H1 H2]. split; [exact H1|]. intros x y Hx Hy Hk. apply (H2 (x, y)). apply in_cross_pairs. auto.
  - intros [H1 H2]. split; [exact H1|]. intros [x y] Hxy. apply in_cross_pairs in Hxy. cbn [fst snd].
    apply H2; apply Hxy.
Qed.

Lemma level_ok_sym s m a b : level_ok s m a b = level_ok s m b a.
Proof.
  unfold level_ok. rewrite (parents_exclusive_sym a b), (c5_name_eqb_sym (sel_name (cf_field a))),
    (same_arguments_sym (sel_args (cf_field a))). f_equal.
  destruct (cf_def a), (cf_def b); try reflexivity. rewrite shape_conflict_sym. reflexivity.
Qed.

Lemma fcm_sym s d : forall n m a b, fields_can_merge n s d m a b = fields_can_merge n s d m b a.
Proof.
  induction n as [|n IH]; intros m a b; [reflexivity|].
  apply bool_eq_iff. rewrite !fcm_true_iff, (level_ok_sym s m a b), (parents_exclusive_sym a b).
  split; intros [H1 H2]; (split; [exact H1|]); intros x y Hx Hy Hk; rewrite IH; apply H2; try assumption;
    rewrite c5_name_eqb_sym; exact Hk.
Qed.

Lemma level_ok_mutex s m a b : level_ok s m a b = true -> level_ok s true a b = true.
Proof.
  unfold level_ok. intro H. apply andb_prop in H. destruct H as [_ H]. cbn [orb]. exact H.
Qed.

Lemma fcm_mutex s d : forall n m a b,
  fields_can_merge n s d m a b = true -> fields_can_merge n s d true a b = true.
Proof.
  induction n as [|n IH]; intros m a b H; [reflexivity|].
  apply fcm_true_iff in H. destruct H as [H1 H2]. apply fcm_true_iff. split; [apply (level_ok_mutex _ _ _ _ H1)|].
  intros x y Hx Hy Hk. cbn [orb]. apply (IH _ _ _ (H2 x y Hx Hy Hk)).
Qed.

Lemma fcm_anti_S s d : forall n m a b,
  fields_can_merge (S n) s d m a b = true -> fields_can_merge n s d m a b = true.
Proof.
  induction n as [|n IH]; intros m a b H; [reflexivity|].
  apply fcm_true_iff in H. destruct H as [H1 H2]. apply fcm_true_iff. split; [exact H1|].
  intros x y Hx Hy Hk. apply IH, H2; assumption.
Qed.

Lemma fcm_anti s d n n' m a b : n <= n' ->
  fields_can_merge n' s d m a b = true -> fields_can_merge n s d m a b = true.
Proof.
  induction 1 as [|n' Hle IH]; intro H; [exact H|]. apply IH, fcm_anti_S, H.
Qed.

(* with a height bound on the left field, the fuel beyond it does not matter *)
Section Stable.
  Variables (s : sdocument) (d : document).
  Definition sub_child (x u : cfield) : Prop := In u (sub_set s d x).

  Lemma fcm_stable : forall h x, hb cfield sub_child x h ->
    forall n m y, S h <= n -> fields_can_merge n s d m x y = fields_can_merge (S h) s d m x y.
  Proof.
    induction h as [h IH] using lt_wf_ind. intros x Hx n m y Hn.
    destruct n as [|n]; [lia|]. inversion Hx as [x' h0 Hc]; subst.
    apply bool_eq_iff. rewrite !fcm_true_iff.
    split; intros [H1 H2]; (split; [exact H1|]); intros u v Hu Hv Hk;
      destruct (Hc u Hu) as [h' [Hlt Hu']].
    - apply (fcm_anti s d h n); [lia|]. apply H2; assumption.
    - rewrite (IH h' Hlt u Hu' n) by lia.
      specialize (H2 u v Hu Hv Hk). rewrite (IH h' Hlt u Hu' h) in H2 by lia. exact H2.
  Qed.
End Stable.

(* ================================================================== the order below a field *)
Fixpoint ssz (x : selection) : nat :=
  match x with
  | SField _ _ _ _ _ _ ss => S (fold_right (fun y n => ssz y + n) 0 ss)
  | SSpread _ _ _ => 1
  | SInline _ _ _ _ ss => S (fold_right (fun y n => ssz y + n) 0 ss)
  end.
Definition ssz_list (l : list selection) : nat := fold_right (fun y n => ssz y + n) 0 l.

Lemma ssz_sels x : ssz x = S (ssz_list (sel_sels x)).
Proof. destruct x; reflexivity. Qed.

Lemma ssz_list_In y l : In y l -> ssz y <= ssz_list l.
Proof.
  induction l as [|z r IH]; intro H; [destruct H|]. cbn [ssz_list fold_right]. fold (ssz_list r).
  destruct H as [->|H]; [lia|]. specialize (IH H). lia.
Qed.

Lemma ssz_below x : forall y, In y (sel_all x) -> ssz y <= ssz x.
Proof.
  induction x as [p al n args dirs sp sels IH|p n dirs|p tc dirs sp sels IH] using selection_ind'; intros y Hy;
    cbn [sel_all] in Hy.
  - destruct Hy as [<-|Hy]; [apply le_n|]. apply in_flat_map in Hy. destruct Hy as [z [Hz Hy]].
    rewrite Forall_forall in IH. specialize (IH z Hz y Hy). pose proof (ssz_list_In z sels Hz).
    rewrite (ssz_sels (SField p al n args dirs sp sels)). cbn [sel_sels]. lia.
  - destruct Hy as [<-|[]]. apply le_n.
  - destruct Hy as [<-|Hy]; [apply le_n|]. apply in_flat_map in Hy. destruct Hy as [z [Hz Hy]].
    rewrite Forall_forall in IH. specialize (IH z Hz y Hy). pose proof (ssz_list_In z sels Hz).
    rewrite (ssz_sels (SInline p tc dirs sp sels)). cbn [sel_sels]. lia.
Qed.

Lemma ssz_below_sels L y : In y (sels_all L) -> ssz y <= ssz_list L.
Proof.
  intro Hy. unfold sels_all in Hy. apply in_flat_map in Hy. destruct Hy as [z [Hz Hy]].
  pose proof (ssz_below z y Hy). pose proof (ssz_list_In z L Hz). lia.
Qed.

Lemma not_below_self x : ~ In x (sels_all (sel_sels x)).
Proof. intro H. apply ssz_below_sels in H. rewrite (ssz_sels x) in H. lia. Qed.

Lemma sels_all_below L y : In y (sels_all L) -> incl (sels_all (sel_sels y)) (sels_all L).
Proof.
  intro Hy. destruct (seg_sels L y Hy) as [l1 [l3 E]]. rewrite E. intros z Hz.
  apply in_or_app. right. apply in_or_app. left. exact Hz.
Qed.

Lemma spreads_in_incl A B : incl (sels_all A) (sels_all B) -> incl (spreads_in A) (spreads_in B).
Proof.
  intros H n Hn. unfold spreads_in in *. apply in_flat_map in Hn. destruct Hn as [x [Hx Hn]].
  apply in_flat_map. exists x. split; [apply H, Hx|exact Hn].
Qed.

Lemma lsp_sel_spreads x n : In n (lsp_sel x) -> In n (flat_map spread_name (sel_all x)).
Proof.
  induction x as [p al m args dirs sp sels IH|p m dirs|p tc dirs sp sels IH] using selection_ind'; intro H;
    cbn [lsp_sel] in H.
  - destruct H.
  - exact H.
  - cbn [sel_all flat_map spread_name app]. apply in_flat_map in H. destruct H as [y [Hy H]].
    rewrite Forall_forall in IH. specialize (IH y Hy H). rewrite flat_map_flat_map'.
    apply in_flat_map. exists y. split; [exact Hy|exact IH].
Qed.

Lemma lsp_spreads l n : In n (lsp l) -> In n (spreads_in l).
Proof.
  intro H. unfold lsp in H. apply in_flat_map in H. destruct H as [y [Hy H]].
  apply lsp_sel_spreads in H. unfold spreads_in, sels_all. rewrite flat_map_flat_map'.
  apply in_flat_map. exists y. split; [exact Hy|exact H].
Qed.

Lemma cfl_In s parent sels c :
  In c (cfl s parent sels) -> In (cf_field c) (sels_all sels) /\ C05_merge_proofs.is_field (cf_field c) = true.
Proof.
  intro H. destruct (cfl_facts s (fun _ => true) (fun _ _ _ _ _ _ => ltac:(apply forallb_forall; reflexivity))
                               sels parent c ltac:(apply forallb_forall; reflexivity) H) as [F _].
  split; [|exact F].
  assert (Hin : In (cf_field c) (flat_map (fun c => Fx (cf_field c)) (cfl s parent sels))).
  { apply in_flat_map. exists c. split; [exact H|]. unfold Fx. apply filter_In. split; [|exact F].
    destruct (cf_field c); left; reflexivity. }
  rewrite cfl_fields in Hin. apply filter_In in Hin. apply Hin.
Qed.

Lemma count_fields_length x : count_fields x = List.length (filter C05_merge_proofs.is_field (sel_all x)).
Proof.
  induction x as [p al n args dirs sp sels IH|p n dirs|p tc dirs sp sels IH] using selection_ind';
    cbn [count_fields sel_all filter C05_merge_proofs.is_field List.length]; [f_equal| |].
  - fold (cnt sels). induction IH as [|y r Hy Hr IHr]; [reflexivity|].
    cbn [flat_map]. rewrite cnt_cons, filter_app, app_length, Hy, IHr. reflexivity.
  - reflexivity.
  - fold (cnt sels). induction IH as [|y r Hy Hr IHr]; [reflexivity|].
    cbn [flat_map]. rewrite cnt_cons, filter_app, app_length, Hy, IHr. reflexivity.
Qed.

Lemma cnt_length l : cnt l = List.length (filter C05_merge_proofs.is_field (sels_all l)).
Proof.
  induction l as [|y r IH]; [reflexivity|]. unfold sels_all. cbn [flat_map].
  rewrite cnt_cons, filter_app, app_length, count_fields_length. f_equal. exact IH.
Qed.

Lemma doc_fields_length d : doc_fields d = List.length (filter C05_merge_proofs.is_field (doc_selections d)).
Proof.
  unfold doc_fields, doc_selections.
  assert (G : forall a, fold_left (fun n x => n + match x with
                            | DOp o => fold_left (fun n y => n + count_fields y) (o_sels o) 0
                            | DFrag f => fold_left (fun n y => n + count_fields y) (fr_sels f) 0
                            end) d a
                        = a + List.length (filter C05_merge_proofs.is_field (flat_map (fun x => sels_all (def_sels x)) d))).
  { induction d as [|x r IH]; intro a; cbn [fold_left flat_map]; [cbn; lia|].
    rewrite IH, filter_app, app_length. destruct x as [o|f]; cbn [def_sels].
    - fold (cnt (o_sels o)). rewrite cnt_length. lia.
    - fold (cnt (fr_sels f)). rewrite cnt_length. lia. }
  rewrite G. reflexivity.
Qed.

Section Order.
  Variables (s : sdocument) (d : document).
  Hypothesis Hacyc : forall u, ~ cyc d u.

  Definition F0 : list selection := filter C05_merge_proofs.is_field (doc_selections d).

  Definition LT (u x : selection) : Prop :=
    In u (sels_all (sel_sels x)) \/
    exists n fr, In n (spreads_in (sel_sels x)) /\ reach d n (fr_name fr) /\ In fr (fragments_of d) /\
                 In u (sels_all (fr_sels fr)).

  Lemma edge_of_frag fr n : In fr (fragments_of d) -> In n (spreads_in (fr_sels fr)) -> edge d (fr_name fr) n.
  Proof.
    intros Hf Hn. unfold edge, fragment_spreads. apply in_flat_map. exists fr. split; [exact Hf|].
    rewrite c5_name_eqb_refl. exact Hn.
  Qed.

  Lemma LT_irrefl x : ~ LT x x.
  Proof.
    intros [H|[n [fr [Hn [Hr [Hf Hx]]]]]]; [exact (not_below_self x H)|].
    apply (Hacyc (fr_name fr)). exists n. split; [|exact Hr].
    apply edge_of_frag; [exact Hf|]. apply (spreads_in_incl _ _ (sels_all_below _ _ Hx)), Hn.
  Qed.

  Lemma LT_trans u x a : LT u x -> LT x a -> LT u a.
  Proof.
    intros [H1|[n' [fr' [Hn' [Hr' [Hf' Hu]]]]]] [H2|[n [fr [Hn [Hr [Hf Hx]]]]]].
    - left. apply (sels_all_below _ _ H2), H1.
    - right. exists n, fr. split; [exact Hn|]. split; [exact Hr|]. split; [exact Hf|].
      apply (sels_all_below _ _ Hx), H1.
    - right. exists n', fr'. split; [|split; [exact Hr'|split; [exact Hf'|exact Hu]]].
      apply (spreads_in_incl _ _ (sels_all_below _ _ H2)), Hn'.
    - right. exists n, fr'. split; [exact Hn|]. split; [|split; [exact Hf'|exact Hu]].
      eapply reach_trans; [exact Hr|]. eapply reach_step; [|exact Hr'].
      apply edge_of_frag; [exact Hf|]. apply (spreads_in_incl _ _ (sels_all_below _ _ Hx)), Hn'.
  Qed.

  Lemma ledge_edge a b : ledge d a b -> edge d a b.
  Proof.
    unfold ledge, fnext. destruct (find_fragment d a) as [fr|] eqn:E; [|intros []]. intro H.
    destruct (find_fragment_name d a fr E) as [Hf <-]. apply edge_of_frag; [exact Hf|apply lsp_spreads, H].
  Qed.

  Lemma lreach_reach a b : lreach d a b -> reach d a b.
  Proof.
    induction 1 as [a|a b c He Hr IH]; [apply reach_refl|]. eapply reach_step; [apply ledge_edge, He|exact IH].
  Qed.

  Lemma frag_in_doc fr : In fr (fragments_of d) -> incl (sels_all (fr_sels fr)) (doc_selections d).
  Proof.
    intro Hf. assert (Hd : In (DFrag fr) d).
    { unfold fragments_of in Hf. apply in_flat_map in Hf. destruct Hf as [x [Hx Hf]].
      destruct x as [o|g]; [destruct Hf|]. destruct Hf as [<-|[]]. exact Hx. }
    destruct (seg_doc d (DFrag fr) Hd) as [l1 [l3 E]]. rewrite E. cbn [def_sels]. intros z Hz.
    apply in_or_app. right. apply in_or_app. left. exact Hz.
  Qed.

  Lemma below_in_doc x : In x (doc_selections d) -> incl (sels_all (sel_sels x)) (doc_selections d).
  Proof.
    intro Hx. unfold doc_selections in Hx. apply in_flat_map in Hx. destruct Hx as [D [HD Hx]].
    intros z Hz. apply in_flat_map. exists D. split; [exact HD|]. apply (sels_all_below _ _ Hx), Hz.
  Qed.

  (* the members of the collected set of the sub-selection of a field of the document *)
  Lemma collected_below parent sels u :
    incl (sels_all sels) (doc_selections d) ->
    In u (collected s d parent sels) ->
    In (cf_field u) F0 /\
    (In (cf_field u) (sels_all sels) \/
     exists n fr, In n (spreads_in sels) /\ reach d n (fr_name fr) /\ In fr (fragments_of d) /\
                  In (cf_field u) (sels_all (fr_sels fr))).
  Proof.
    intros Hdoc Hu. apply collected_In in Hu. destruct Hu as [Hu|[n [[a [Ha Hr]] Hu]]].
    - apply cfl_In in Hu. destruct Hu as [H1 H2]. split; [|left; exact H1].
      apply filter_In. split; [apply Hdoc, H1|exact H2].
    - unfold fdirect in Hu. destruct (find_fragment d n) as [fr|] eqn:E; [|destruct Hu].
      destruct (find_fragment_name d n fr E) as [Hf Hname]. apply cfl_In in Hu. destruct Hu as [H1 H2]. split.
      + apply filter_In. split; [apply (frag_in_doc fr Hf), H1|exact H2].
      + right. exists a, fr. split; [apply lsp_spreads, Ha|]. split; [rewrite Hname; apply lreach_reach, Hr|].
        split; [exact Hf|exact H1].
  Qed.

  Lemma sub_child_ok x u : In (cf_field x) F0 -> sub_child s d x u -> LT (cf_field u) (cf_field x) /\ In (cf_field u) F0.
  Proof.
    intros Hx Hu. apply filter_In in Hx. destruct Hx as [Hx _]. unfold sub_child, sub_set in Hu.
    destruct (collected_below _ _ u (below_in_doc _ Hx) Hu) as [H1 H2]. split; [exact H2|exact H1].
  Qed.

  Lemma field_height x : In (cf_field x) F0 -> hb cfield (sub_child s d) x (doc_fields d).
  Proof.
    intro Hx. apply (hb_chain cfield selection cf_field (sub_child s d) LT F0 LT_trans LT_irrefl sub_child_ok
                              (doc_fields d) [] x); [constructor|intros a []|exact Hx|intros a []|].
    cbn [List.length]. rewrite doc_fields_length. apply le_n.
  Qed.

  (* the specification's fuel is enough: a failure at any fuel is a failure at [merge_fuel_spec] *)
  Lemma fcm_fuel_ok x y m n : In (cf_field x) F0 ->
    fields_can_merge n s d m x y = false -> fields_can_merge (merge_fuel_spec d) s d m x y = false.
  Proof.
    intros Hx H. pose proof (field_height x Hx) as Hh. unfold merge_fuel_spec.
    destruct (le_lt_dec n (S (S (doc_fields d)))) as [Hle|Hgt].
    - apply not_true_is_false. intro Ht. rewrite (fcm_anti s d n _ m x y Hle Ht) in H. discriminate.
    - rewrite (fcm_stable s d _ x Hh (S (S (doc_fields d)))) by lia.
      rewrite (fcm_stable s d _ x Hh n) in H by lia. exact H.
  Qed.
End Order.

(* C05_frag_rank.v — a rank for fragment names in documents without fragment cycles, and the
   measure on the calls of the memoised search derived from it (used to show that a memo entry
   is never consulted while the comparison that created it is still running, and to bound the
   depth of the recursion). *)
From Coq Require Import Permutation.
From GT Require Import Visitor Validate Merge.
From GTS Require Import SpecLin Annot WfSchema SpecCollect SpecRules SpecMerge SpecValid.
From GTP Require Import VisitorFacts TraceFacts RuleFacts EventFacts C06_graph_proofs C06_proofs C05_proofs
     C05_frag_graph C05_frag_spec C05_frag_sound.

Lemma dedup_NoDup l : NoDup (dedup_names l).
Proof.
  induction l as [|x r IH]; cbn [dedup_names]; [constructor|].
  destruct (mem_name x r) eqn:E; [exact IH|]. constructor; [|exact IH].
  intro Hin. apply (proj1 (dedup_In _ _)) in Hin. apply (proj2 (c5_mem_name_In _ _)) in Hin. rewrite Hin in E. discriminate.
Qed.

Lemma list_max_le_all l n : (forall k, In k l -> k <= n) -> list_max l <= n.
Proof. intro H. apply list_max_le. apply Forall_forall. exact H. Qed.

Section Rank.
  Variable d : document.
  Hypothesis Hacyc : forall u, ~ cyc d u.

  Definition defd (x : name) : bool := mem_name x (frag_names d).
  Definition reach_list (n : name) : list name :=
    filter defd (dedup_names (spread_closure (S (List.length (fragments_of d))) d [n])).
  Definition rk (n : name) : nat := List.length (reach_list n).

  Lemma reach_list_In n x : In x (reach_list n) <-> reach d n x /\ In x (frag_names d).
  Proof.
    unfold reach_list. rewrite filter_In, dedup_In, closure_reach. unfold defd. rewrite c5_mem_name_In. split.
    - intros [[a [[<-|[]] Hr]] Hd]. split; assumption.
    - intros [Hr Hd]. split; [exists n; split; [left; reflexivity|exact Hr]|exact Hd].
  Qed.

  Lemma reach_list_NoDup n : NoDup (reach_list n).
  Proof. unfold reach_list. apply NoDup_filter, dedup_NoDup. Qed.

  Lemma rk_reach a g : reach d a g -> rk g <= rk a.
  Proof.
    intro H. unfold rk. apply NoDup_incl_length; [apply reach_list_NoDup|].
    intros x Hx. apply reach_list_In in Hx. apply reach_list_In. destruct Hx as [Hr Hd].
    split; [eapply reach_trans; eassumption|exact Hd].
  Qed.

  Lemma rk_edge a b : edge d a b -> rk b < rk a.
  Proof.
    intro He. unfold rk.
    assert (Hnd : NoDup (a :: reach_list b)).
    { constructor; [|apply reach_list_NoDup]. intro Hin. apply reach_list_In in Hin. destruct Hin as [Hr _].
      apply (Hacyc a). exists b. split; assumption. }
    assert (Hincl : incl (a :: reach_list b) (reach_list a)).
    { intros x [<-|Hx]; apply reach_list_In.
      - split; [apply reach_refl|eapply edge_defined; exact He].
      - apply reach_list_In in Hx. destruct Hx as [Hr Hd]. split; [eapply reach_step; eassumption|exact Hd]. }
    pose proof (NoDup_incl_length Hnd Hincl) as Hl. cbn [List.length] in Hl. lia.
  Qed.

  Lemma rk_defined f : In f (frag_names d) -> 1 <= rk f.
  Proof.
    intro H. unfold rk. assert (Hin : In f (reach_list f)) by (apply reach_list_In; split; [apply reach_refl|exact H]).
    destruct (reach_list f); [destruct Hin|cbn; lia].
  Qed.

  Lemma rk_bound n : rk n <= List.length (fragments_of d).
  Proof.
    unfold rk. replace (List.length (fragments_of d)) with (List.length (frag_names d)) by apply map_length.
    apply NoDup_incl_length; [apply reach_list_NoDup|]. intros x Hx. apply reach_list_In in Hx. apply Hx.
  Qed.

  Lemma rk_lreach a g : lreach d a g -> rk g <= rk a.
  Proof. intro H. apply rk_reach, (lreach_reach d), H. Qed.

  Lemma rk_ledge a b : ledge d a b -> rk b < rk a.
  Proof. intro H. apply rk_edge, (ledge_edge d), H. Qed.

  (* ---------------------------------------------------------------- ranks of selection sets *)
  Definition frk (sels : list selection) : nat := list_max (map rk (spreads_in sels)).

  Lemma frk_In sels n : In n (spreads_in sels) -> rk n <= frk sels.
  Proof. intro H. unfold frk. apply list_max_In. apply in_map, H. Qed.

  Lemma frk_incl A B : incl (spreads_in A) (spreads_in B) -> frk A <= frk B.
  Proof.
    intro H. unfold frk at 1. apply list_max_le_all. intros k Hk. apply in_map_iff in Hk.
    destruct Hk as [n [<- Hn]]. apply frk_In, H, Hn.
  Qed.

  Lemma frk_frag fr : In fr (fragments_of d) -> frk (fr_sels fr) + 1 <= rk (fr_name fr).
  Proof.
    intro Hf. assert (H1 : 1 <= rk (fr_name fr)) by (apply rk_defined; unfold frag_names; apply in_map, Hf).
    assert (H2 : frk (fr_sels fr) <= rk (fr_name fr) - 1).
    { unfold frk. apply list_max_le_all. intros k Hk. apply in_map_iff in Hk. destruct Hk as [n [<- Hn]].
      pose proof (rk_edge _ _ (edge_of_frag d fr n Hf Hn)). lia. }
    lia.
  Qed.

  (* ---------------------------------------------------------------- heights of fields *)
  Definition Mx : nat := list_max (map ssz (doc_selections d)).
  Definition Wd : nat := S Mx.

  Definition hf (x : selection) : nat := frk (sel_sels x) * Wd + ssz x.
  Definition hfl (sels : list selection) : nat := frk sels * Wd + ssz_list sels.
  Definition hfm (fm : fmap) : nat := list_max (map (fun a => hf (ad_field a)) (fm_fields fm)).

  Lemma ssz_Mx x : In x (doc_selections d) -> ssz x <= Mx.
  Proof. intro H. unfold Mx. apply list_max_In, in_map, H. Qed.

  Lemma hf_below sels x : In x (sels_all sels) -> hf x <= hfl sels.
  Proof.
    intro H. unfold hf, hfl. pose proof (ssz_below_sels sels x H) as Hs.
    pose proof (frk_incl _ _ (spreads_in_incl _ _ (sels_all_below sels x H))) as Hf.
    assert (frk (sel_sels x) * Wd <= frk sels * Wd) by (apply Nat.mul_le_mono_r, Hf). lia.
  Qed.

  Lemma hfl_sub x : hfl (sel_sels x) < hf x.
  Proof. unfold hf, hfl. rewrite (ssz_sels x). lia. Qed.

  Lemma hf_in_frag fr v : In fr (fragments_of d) -> In v (sels_all (fr_sels fr)) ->
    hf v + Wd <= rk (fr_name fr) * Wd + Mx.
  Proof.
    intros Hf Hv. unfold hf.
    pose proof (frk_incl _ _ (spreads_in_incl _ _ (sels_all_below _ v Hv))) as H1.
    pose proof (frk_frag fr Hf) as H2.
    pose proof (ssz_Mx v (frag_in_doc d fr Hf v Hv)) as H3.
    assert (H4 : (frk (sel_sels v) + 1) * Wd <= rk (fr_name fr) * Wd) by (apply Nat.mul_le_mono_r; lia). lia.
  Qed.

  Lemma rk_lsp sels a : In a (lsp sels) -> rk a * Wd <= hfl sels.
  Proof.
    intro H. unfold hfl. pose proof (frk_In sels a (lsp_spreads _ _ H)) as H1.
    assert (rk a * Wd <= frk sels * Wd) by (apply Nat.mul_le_mono_r, H1). lia.
  Qed.

  Lemma hfm_In fm a : In a (fm_fields fm) -> hf (ad_field a) <= hfm fm.
  Proof. intro H. unfold hfm. apply list_max_In. apply (in_map (fun a => hf (ad_field a))), H. Qed.

  Lemma hfm_le fm n : (forall a, In a (fm_fields fm) -> hf (ad_field a) <= n) -> hfm fm <= n.
  Proof.
    intro H. unfold hfm. apply list_max_le_all. intros k Hk. apply in_map_iff in Hk.
    destruct Hk as [a [<- Ha]]. apply H, Ha.
  Qed.

  (* ---------------------------------------------------------------- the measure of a call *)
  Definition maxr (l : list name) : nat := list_max (map rk l).
  Lemma maxr_In l f : In f l -> rk f <= maxr l.
  Proof. intro H. unfold maxr. apply list_max_In, in_map, H. Qed.

  Definition mu (c : mcall) : nat :=
    match c with
    | CFindConflict a b _ => hf (ad_field a) + hf (ad_field b)
    | CBetweenSub _ _ s1 _ s2 => hfl s1 + hfl s2
    | CFieldsAndFragment fm f _ => hfm fm + rk f * Wd
    | CBetweenFragments a b _ => (rk a + rk b) * Wd
    | CBetween _ fm1 fm2 => hfm fm1 + hfm fm2
    | CFragmentLoop fm frs _ => hfm fm + maxr frs * Wd
    | CWithin fm => hfm fm + hfm fm
    | CWithinSelectionSet _ sels => hfl sels + hfl sels
    end.
End Rank.

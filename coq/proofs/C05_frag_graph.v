(* C05_frag_graph.v — OverlappingFieldsCanBeMerged with named fragment spreads, foundations:
   the rule's collection of one level (fields + names of the fragments spread at that level),
   the specification's depth-first expansion [collect_set] as a permutation of "direct fields
   + direct fields of every fragment reachable through level spreads", a generic height bound
   for finite acyclic relations. *)
From Coq Require Import Permutation.
From GT Require Import Visitor Validate Merge.
From GTS Require Import SpecLin Annot WfSchema SpecCollect SpecRules SpecMerge SpecValid.
From GTP Require Import VisitorFacts TraceFacts RuleFacts EventFacts C06_graph_proofs C06_proofs C05_proofs.

(* ================================================================== level spreads *)
Fixpoint lsp_sel (x : selection) : list name :=
  match x with
  | SField _ _ _ _ _ _ _ => []
  | SSpread _ n _ => [n]
  | SInline _ _ _ _ ss => flat_map lsp_sel ss
  end.
Definition lsp (l : list selection) : list name := flat_map lsp_sel l.

Definition push_name (acc : list name) (n : name) : list name := if mem_name n acc then acc else acc ++ [n].
Definition push_names (acc : list name) (l : list name) : list name := fold_left push_name l acc.

Lemma push_names_app acc l1 l2 : push_names acc (l1 ++ l2) = push_names (push_names acc l1) l2.
Proof. unfold push_names. apply fold_left_app. Qed.

Lemma push_name_In acc n x : In x (push_name acc n) <-> In x acc \/ x = n.
Proof.
  unfold push_name. destruct (mem_name n acc) eqn:E.
  - apply c5_mem_name_In in E. split; [intro H; left; exact H|intros [H| ->]; assumption].
  - rewrite in_app_iff. cbn [In]. split; [intros [H|[H|[]]]; [left; exact H|right; symmetry; exact H]|].
    intros [H| ->]; [left; exact H|right; left; reflexivity].
Qed.

Lemma push_names_In l : forall acc x, In x (push_names acc l) <-> In x acc \/ In x l.
Proof.
  induction l as [|n r IH]; intros acc x; cbn [push_names fold_left In].
  - tauto.
  - change (fold_left push_name r (push_name acc n)) with (push_names (push_name acc n) r).
    rewrite IH, push_name_In. split; [intros [[H|H]|H]|intros [H|[H|H]]]; auto.
Qed.

Lemma push_name_NoDup acc n : NoDup acc -> NoDup (push_name acc n).
Proof.
  intro H. unfold push_name. destruct (mem_name n acc) eqn:E; [exact H|].
  apply NoDup_app_snoc; [exact H|]. intro Hin. apply c5_mem_name_In in Hin. rewrite Hin in E. discriminate.
Qed.

Lemma push_names_NoDup l : forall acc, NoDup acc -> NoDup (push_names acc l).
Proof.
  induction l as [|n r IH]; intros acc H; cbn [push_names fold_left]; [exact H|].
  apply IH, push_name_NoDup, H.
Qed.

Lemma collect_ff_sel_gen s x : forall parent acc,
  collect_ff_sel s parent x acc
  = (fm_of (map ad_of (cfl_sel s parent x)) (fst acc), push_names (snd acc) (lsp_sel x)).
Proof.
  induction x as [p al n args dirs sp sels IH|p n dirs|p tc dirs sp sels IH] using selection_ind';
    intros parent acc.
  - reflexivity.
  - reflexivity.
  - cbn [collect_ff_sel cfl_sel lsp_sel]. fold (inline_parent s tc parent).
    generalize (inline_parent s tc parent). intro q. revert acc.
    induction IH as [|y r Hy Hr IHr]; intro acc; cbn [fold_left flat_map].
    + destruct acc; reflexivity.
    + rewrite Hy, IHr. cbn [fst snd]. rewrite map_app, fm_of_app, push_names_app. reflexivity.
Qed.

Lemma gff_fold_gen s parent sels : forall acc,
  fold_left (fun a y => collect_ff_sel s parent y a) sels acc
  = (fm_of (map ad_of (cfl s parent sels)) (fst acc), push_names (snd acc) (lsp sels)).
Proof.
  induction sels as [|y r IH]; intro acc; cbn [fold_left].
  - destruct acc; reflexivity.
  - rewrite collect_ff_sel_gen, IH. cbn [fst snd]. unfold cfl, lsp. cbn [flat_map].
    rewrite map_app, fm_of_app, push_names_app. reflexivity.
Qed.

Definition frs_of (sels : list selection) : list name := push_names [] (lsp sels).

Lemma gff_gen s parent sels :
  get_fields_and_fragment_names s parent sels = (fm_of (map ad_of (cfl s parent sels)) [], frs_of sels).
Proof. unfold get_fields_and_fragment_names. rewrite gff_fold_gen. reflexivity. Qed.

Lemma frs_of_In sels n : In n (frs_of sels) <-> In n (lsp sels).
Proof. unfold frs_of. rewrite push_names_In. cbn [In]. tauto. Qed.

Lemma frs_of_NoDup sels : NoDup (frs_of sels).
Proof. apply push_names_NoDup. constructor. Qed.

Lemma perm_4 {A} (a b c e : list A) : Permutation ((a ++ b) ++ (c ++ e)) ((a ++ c) ++ e ++ b).
Proof.
  rewrite <- !app_assoc. apply Permutation_app_head.
  etransitivity; [apply (Permutation_app_comm b (c ++ e))|]. rewrite <- app_assoc. reflexivity.
Qed.

(* ================================================================== the level-spread graph *)
Section LGraph.
  Variables (s : sdocument) (d : document).

  Definition fdirect (n : name) : list cfield :=
    match find_fragment d n with
    | Some fr => cfl s (type_by_name s (fr_tc fr)) (fr_sels fr)
    | None => []
    end.
  Definition fnext (n : name) : list name :=
    match find_fragment d n with Some fr => lsp (fr_sels fr) | None => [] end.

  Definition ledge (a b : name) : Prop := In b (fnext a).
  Inductive lreach : name -> name -> Prop :=
  | lr_refl a : lreach a a
  | lr_step a b c : ledge a b -> lreach b c -> lreach a c.

  Lemma lreach_trans a b c : lreach a b -> lreach b c -> lreach a c.
  Proof. induction 1 as [a|a b' c' He Hr IH]; intro H; [exact H|]. econstructor; [exact He|apply IH, H]. Qed.
  Lemma lreach_snoc a b c : lreach a b -> ledge b c -> lreach a c.
  Proof. intros H He. eapply lreach_trans; [exact H|]. econstructor; [exact He|constructor]. Qed.

  Definition lreach_from (l : list name) (n : name) : Prop := exists a, In a l /\ lreach a n.

  (* ---------------------------------------------------------------- the depth-first expansion *)
  Definition unv (V : list name) : nat :=
    List.length (filter (fun n => negb (mem_name n V)) (frag_names d)).

  Record dfs_new (direct : list cfield) (roots : list name) (V : list name)
         (res : list cfield * list name) (new : list name) : Prop := {
    dp_snd : snd res = new ++ V;
    dp_nodup : NoDup new;
    dp_fresh : forall n, In n new -> ~ In n V;
    dp_perm : Permutation (fst res) (direct ++ flat_map fdirect new);
    dp_roots : forall n, In n roots -> In n (new ++ V);
    dp_closed : forall n m, In n new -> In m (fnext n) -> In m (new ++ V);
    dp_reach : forall n, In n new -> lreach_from roots n }.
  Definition dfs_post direct roots V res : Prop := exists new, dfs_new direct roots V res new.

  Lemma unv_mono V V' : incl V V' -> unv V' <= unv V.
  Proof.
    intro H. unfold unv. apply filt_len_le. intros x _ Hx. apply negb_true_iff in Hx. apply negb_true_iff.
    apply not_true_is_false. intro Hin. apply c5_mem_name_In in Hin.
    assert (Hc : mem_name x V' = true) by (apply c5_mem_name_In, H, Hin). rewrite Hc in Hx. discriminate.
  Qed.

  Lemma unv_lt V n : In n (frag_names d) -> ~ In n V -> unv (n :: V) < unv V.
  Proof.
    intros Hn Hv. unfold unv. apply (filt_len_lt _ _ _ n).
    - intros x _ Hx. apply negb_true_iff in Hx. apply negb_true_iff. apply not_true_is_false. intro Hin.
      apply c5_mem_name_In in Hin. assert (Hc : mem_name x (n :: V) = true) by (apply c5_mem_name_In; right; exact Hin).
      rewrite Hc in Hx. discriminate.
    - exact Hn.
    - apply negb_false_iff. apply c5_mem_name_In. left. reflexivity.
    - apply negb_true_iff. apply not_true_is_false. intro Hin. apply c5_mem_name_In in Hin. exact (Hv Hin).
  Qed.

  Lemma find_fragment_name n fr : find_fragment d n = Some fr -> In fr (fragments_of d) /\ fr_name fr = n.
  Proof. rewrite <- known_fragment_find. apply known_fragment_Some. Qed.

  Lemma find_fragment_defined n fr : find_fragment d n = Some fr -> In n (frag_names d).
  Proof. intro H. destruct (find_fragment_name n fr H) as [H1 <-]. unfold frag_names. apply in_map, H1. Qed.

  Section Step.
    Variable rec : option type_def -> list selection -> list name -> list cfield * list name.
    Variable k : nat.
    Hypothesis Hrec : forall parent sels V, unv V < k ->
      dfs_post (cfl s parent sels) (lsp sels) V (rec parent sels V).

    Lemma dfs_seq (dir1 dir2 : list cfield) (r1 r2 : list name) V res1 res2 :
      dfs_post dir1 r1 V res1 ->
      dfs_post dir2 r2 (snd res1) res2 ->
      dfs_post (dir1 ++ dir2) (r1 ++ r2) V (fst res1 ++ fst res2, snd res2).
    Proof.
      intros [n1 H1] [n2 H2]. destruct H1 as [S1 N1 F1 P1 R1 C1 L1]. destruct H2 as [S2 N2 F2 P2 R2 C2 L2].
      rewrite S1 in *. exists (n2 ++ n1). constructor; cbn [fst snd].
      - rewrite S2, app_assoc. reflexivity.
      - apply NoDup_app_iff. split; [exact N2|]. split; [exact N1|]. intros x Hx2 Hx1.
        apply (F2 x Hx2). apply in_or_app. left. exact Hx1.
      - intros n Hn HV. apply in_app_or in Hn. destruct Hn as [Hn|Hn].
        + apply (F2 n Hn). apply in_or_app. right. exact HV.
        + exact (F1 n Hn HV).
      - rewrite flat_map_app. etransitivity; [apply Permutation_app; eassumption|]. apply perm_4.
      - intros n Hn. rewrite <- app_assoc. apply in_app_or in Hn. destruct Hn as [Hn|Hn].
        + apply in_or_app. right. apply R1, Hn.
        + apply R2, Hn.
      - intros n m Hn Hm. rewrite <- app_assoc. apply in_app_or in Hn. destruct Hn as [Hn|Hn].
        + apply (C2 n m Hn Hm).
        + apply in_or_app. right. apply (C1 n m Hn Hm).
      - intros n Hn. apply in_app_or in Hn. destruct Hn as [Hn|Hn].
        + destruct (L2 n Hn) as [a [Ha Hr]]. exists a. split; [apply in_or_app; right; exact Ha|exact Hr].
        + destruct (L1 n Hn) as [a [Ha Hr]]. exists a. split; [apply in_or_app; left; exact Ha|exact Hr].
    Qed.

    Lemma dfs_post_incl dir r V res : dfs_post dir r V res -> incl V (snd res).
    Proof. intros [n H] x Hx. rewrite (dp_snd _ _ _ _ _ H). apply in_or_app. right. exact Hx. Qed.

    Lemma dfs_nil V : dfs_post [] [] V ([], V).
    Proof.
      exists []. constructor; cbn [fst snd app flat_map]; try reflexivity; try constructor.
      - intros n [].
      - intros n [].
      - intros n m [].
      - intros n [].
    Qed.

    Lemma dfs_many parent l :
      Forall (fun y => forall parent V, unv V <= k ->
                dfs_post (cfl_sel s parent y) (lsp_sel y) V (c_one s d rec parent y V)) l ->
      forall V, unv V <= k -> dfs_post (cfl s parent l) (lsp l) V (c_many s d rec parent l V).
    Proof.
      induction 1 as [|y r Hy Hr IH]; intros V HV.
      - apply dfs_nil.
      - rewrite c_many_cons.
        pose proof (Hy parent V HV) as H1.
        destruct (c_one s d rec parent y V) as [a v1] eqn:E1.
        assert (HV1 : unv v1 <= k).
        { etransitivity; [apply unv_mono, (dfs_post_incl _ _ _ _ H1)|exact HV]. }
        pose proof (IH v1 HV1) as H2.
        destruct (c_many s d rec parent r v1) as [b v2] eqn:E2.
        apply (dfs_seq _ _ _ _ V (a, v1) (b, v2) H1 H2).
    Qed.

    Lemma dfs_one x : forall parent V, unv V <= k ->
      dfs_post (cfl_sel s parent x) (lsp_sel x) V (c_one s d rec parent x V).
    Proof.
      induction x as [p al n args dirs sp sels IH|p n dirs|p tc dirs sp sels IH] using selection_ind';
        intros parent V HV.
      - cbn [c_one cfl_sel lsp_sel]. exists []. constructor; cbn [fst snd app flat_map]; try reflexivity; try constructor.
        + intros m [].
        + intros m [].
        + intros m m' [].
        + intros m [].
      - cbn [c_one cfl_sel lsp_sel]. destruct (mem_name n V) eqn:Em.
        + apply c5_mem_name_In in Em. exists []. constructor; cbn [fst snd app flat_map]; try reflexivity; try constructor.
          * intros m [].
          * intros m [<-|[]]. exact Em.
          * intros m m' [].
          * intros m [].
        + assert (Hn : ~ In n V) by (intro Hin; apply c5_mem_name_In in Hin; rewrite Hin in Em; discriminate).
          destruct (find_fragment d n) as [fr|] eqn:Ef.
          * assert (Hlt : unv (n :: V) < k).
            { pose proof (unv_lt V n (find_fragment_defined n fr Ef) Hn). lia. }
            destruct (Hrec (type_by_name s (fr_tc fr)) (fr_sels fr) (n :: V) Hlt) as [new H].
            destruct H as [S1 N1 F1 P1 R1 C1 L1].
            assert (Hfd : fdirect n = cfl s (type_by_name s (fr_tc fr)) (fr_sels fr)) by (unfold fdirect; rewrite Ef; reflexivity).
            assert (Hfn : fnext n = lsp (fr_sels fr)) by (unfold fnext; rewrite Ef; reflexivity).
            exists (new ++ [n]). constructor; cbn [fst snd app].
            -- rewrite S1, <- app_assoc. reflexivity.
            -- apply NoDup_app_snoc; [exact N1|]. intro Hin. apply (F1 n Hin). left. reflexivity.
            -- intros m Hm HmV. apply in_app_or in Hm. destruct Hm as [Hm|[<-|[]]].
               ++ apply (F1 m Hm). right. exact HmV.
               ++ exact (Hn HmV).
            -- rewrite flat_map_app. cbn [flat_map]. rewrite app_nil_r, Hfd.
               etransitivity; [exact P1|]. apply Permutation_app_comm.
            -- intros m [<-|[]]. apply in_or_app. left. apply in_or_app. right. left. reflexivity.
            -- intros m m' Hm Hm'. rewrite <- app_assoc. cbn [app]. apply in_app_or in Hm. destruct Hm as [Hm|[<-|[]]].
               ++ apply (C1 m m' Hm Hm').
               ++ rewrite Hfn in Hm'. apply R1, Hm'.
            -- intros m Hm. apply in_app_or in Hm. destruct Hm as [Hm|[<-|[]]].
               ++ destruct (L1 m Hm) as [a [Ha Hr]]. exists n. split; [left; reflexivity|].
                  econstructor; [|exact Hr]. unfold ledge. rewrite Hfn. exact Ha.
               ++ exists n. split; [left; reflexivity|constructor].
          * assert (Hfd : fdirect n = []) by (unfold fdirect; rewrite Ef; reflexivity).
            assert (Hfn : fnext n = []) by (unfold fnext; rewrite Ef; reflexivity).
            exists [n]. constructor; cbn [fst snd app flat_map].
            -- reflexivity.
            -- constructor; [intros []|constructor].
            -- intros m [<-|[]]. exact Hn.
            -- rewrite Hfd. reflexivity.
            -- intros m [<-|[]]. left. reflexivity.
            -- intros m m' [<-|[]] Hm'. rewrite Hfn in Hm'. destruct Hm'.
            -- intros m [<-|[]]. exists n. split; [left; reflexivity|constructor].
      - rewrite c_one_inline. cbn [cfl_sel lsp_sel].
        apply (dfs_many (inline_parent s tc parent) sels IH V HV).
    Qed.
  End Step.

  Lemma collect_set_dfs fuel : forall parent sels V, unv V < fuel ->
    dfs_post (cfl s parent sels) (lsp sels) V (collect_set fuel s d parent sels V).
  Proof.
    induction fuel as [|fuel IH]; intros parent sels V HV; [lia|].
    rewrite collect_set_S. apply (dfs_many (collect_set fuel s d) fuel).
    - apply Forall_forall. intros y _. apply dfs_one. exact IH.
    - lia.
  Qed.

  Lemma unv_bound V : unv V <= List.length (fragments_of d).
  Proof.
    unfold unv. replace (List.length (fragments_of d)) with (List.length (frag_names d)) by apply map_length.
    apply filter_length_bound.
  Qed.

  (* the collected set of a selection set: its direct fields and the direct fields of the
     fragments reachable through level spreads, each once *)
  Lemma collected_perm parent sels : exists R,
    NoDup R /\
    Permutation (collected s d parent sels) (cfl s parent sels ++ flat_map fdirect R) /\
    (forall n, In n R <-> lreach_from (lsp sels) n).
  Proof.
    unfold collected.
    destruct (collect_set_dfs (set_fuel d) parent sels []) as [R H].
    { unfold set_fuel. pose proof (unv_bound []). lia. }
    destruct H as [S1 N1 F1 P1 R1 C1 L1]. rewrite app_nil_r in *.
    exists R. split; [exact N1|]. split; [exact P1|]. intro n. split; [apply L1|].
    intros [a [Ha Hr]]. apply R1 in Ha. clear - Ha Hr C1. induction Hr as [a|a b c He Hr IH]; [exact Ha|].
    apply IH. apply (C1 a b Ha He).
  Qed.

  Lemma collected_In parent sels c :
    In c (collected s d parent sels) <->
    In c (cfl s parent sels) \/ exists n, lreach_from (lsp sels) n /\ In c (fdirect n).
  Proof.
    destruct (collected_perm parent sels) as [R [_ [P HR]]]. split.
    - intro H. apply (Permutation_in _ P) in H. apply in_app_or in H. destruct H as [H|H]; [left; exact H|].
      right. apply in_flat_map in H. destruct H as [n [Hn H]]. exists n. split; [apply HR, Hn|exact H].
    - intro H. apply (Permutation_in _ (Permutation_sym P)). apply in_or_app. destruct H as [H|[n [Hn H]]].
      + left. exact H.
      + right. apply in_flat_map. exists n. split; [apply HR, Hn|exact H].
  Qed.
End LGraph.

(* C14_merge_model_proofs.v — the model's field-merging rule under the rewrites of C14_more_proofs.v
   and C14_schema_proofs.v, on the documents for which its equivalence with the specification is
   proved (C05: no named fragment spreads, fields at distinct positions, unique argument names). *)
From GT Require Import Visitor Validate Merge.
From Coq Require Import Permutation.
From GTS Require Import Annot WfSchema SpecCollect SpecRules SpecValues SpecMerge SpecValid.
From GTP Require Import VisitorFacts TraceFacts C14_proofs C14_more_proofs C14_schema_proofs C05_proofs.

(* the side conditions of C05_spreadfree_partial *)
Definition merge_side (s : sdocument) (d : document) : Prop :=
  spreads_in (flat_map def_sels d) = [] /\
  NoDup (map node_pos (filter is_field_sel (doc_selections d))) /\
  negb (violated R_UniqueArgumentNames s d) = true.

Lemma map_filter_flat_map {A B} (g : A -> B) (p : A -> bool) l :
  map g (filter p l) = flat_map (fun x => if p x then [g x] else []) l.
Proof.
  induction l as [|x l IH]; [reflexivity|]. cbn [filter flat_map]. destruct (p x); cbn [map app]; rewrite IH; reflexivity.
Qed.

Lemma merge_side_rel ren hk pa pv ps s d d' : rdoc ren hk pa pv ps d d' -> merge_side s d -> merge_side s d'.
Proof.
  intros Hd (H1 & H2 & H3). split; [|split].
  - pose proof (doc_spreads_rel ren hk pa pv ps d d' Hd) as Hp. rewrite H1 in Hp.
    apply Permutation_nil in Hp. exact Hp.
  - eapply Permutation_NoDup; [|exact H2]. apply PermR_eq_perm. rewrite !map_filter_flat_map.
    apply (PermR_flat_map (rsel hk pa ps)); [apply (doc_selections_rel ren hk pa pv ps), Hd|].
    intros x y _ Hxy. destruct Hxy; cbn [is_field_sel]; try apply PermR_nil. apply PermR_eq_refl.
  - cbn [violated] in *. rewrite <- (r_unique_argument_names ren hk pa pv ps s d d' Hd). exact H3.
Qed.

Lemma merge_iff s d : wf_schema s = true -> merge_side s d ->
  (run_alone R_OverlappingFieldsCanBeMerged s d <> [] <-> violated R_OverlappingFieldsCanBeMerged s d = true).
Proof. intros Hwf (H1 & H2 & H3). apply merge_spreadfree_iff; assumption. Qed.

Theorem run_alone_merge_rel ren hk pa pv ps s d d' fo :
  wf_schema s = true -> merge_side s d -> rdoc ren hk pa pv ps d d' -> renames ren fo d -> key_injective hk ->
  (run_alone R_OverlappingFieldsCanBeMerged s d = [] <-> run_alone R_OverlappingFieldsCanBeMerged s d' = []).
Proof.
  intros Hwf Hside Hd Hren Hk.
  rewrite (nil_iff_false _ _ (merge_iff s d Hwf Hside)).
  rewrite (nil_iff_false _ _ (merge_iff s d' Hwf (merge_side_rel ren hk pa pv ps s d d' Hd Hside))).
  rewrite (violated_rel ren hk pa pv ps R_OverlappingFieldsCanBeMerged s d d' fo Hd Hren Hk); [reflexivity|].
  intros _ H. discriminate H.
Qed.

(* arguments, variable definitions and selections permuted, all at once *)
Theorem run_alone_merge_perm_lists : forall s d d',
  wf_schema s = true -> merge_side s d -> perm_lists_doc d d' ->
  (run_alone R_OverlappingFieldsCanBeMerged s d = [] <-> run_alone R_OverlappingFieldsCanBeMerged s d' = []).
Proof.
  intros s d d' Hwf Hside Hd.
  apply (run_alone_merge_rel (fun n => n) None true true true s d d' (fun x => x)); try assumption;
    [apply renames_id|apply key_injective_none].
Qed.

Lemma perm_lists_of_args d d' : perm_args_doc d d' -> perm_lists_doc d d'.
Proof.
  assert (Hl : forall A b (l l' : list A), lperm b l l' -> lperm true l l') by (intros A b l l'; apply lperm_perm).
  assert (Hdir : forall x y, rdir true x y -> rdir true x y) by (intros x y H; exact H).
  assert (Hsel : forall x y, rsel None true false x y -> rsel None true true x y).
  { intro x. induction x as [p al n args dirs sp sels IH|p n dirs|p tc dirs sp sels IH] using selection_ind';
      intros y Hxy; inversion Hxy as [? ? ? ? ? ? ? ? ? ? m ? Hal Ha Hdi Hp Hf| |? ? ? ? ? ? m ? Hdi Hp Hf]; subst.
    - cbn [lperm] in Hp. subst m. apply RField with (m := sels); [exact Hal|exact Ha|exact Hdi|apply Permutation_refl|].
      rewrite Forall_forall in IH. eapply Forall2_impl_in; [|exact Hf]. intros a b Hin. apply IH, Hin.
    - constructor. assumption.
    - cbn [lperm] in Hp. subst m. apply RInline with (m := sels); [exact Hdi|apply Permutation_refl|].
      rewrite Forall_forall in IH. eapply Forall2_impl_in; [|exact Hf]. intros a b Hin. apply IH, Hin. }
  assert (Hsels : forall l l', rsels None true false l l' -> rsels None true true l l').
  { intros l l' (m & Hp & Hf). exists m. split; [eapply Hl, Hp|]. eapply Forall2_impl_in; [|exact Hf].
    intros a b _. apply Hsel. }
  intro H. eapply Forall2_impl_in; [|exact H]. intros x y _ [o o' Ho|f f' Hf]; constructor.
  - destruct Ho. constructor; [eapply Hl; eassumption|assumption|apply Hsels; assumption].
  - destruct Hf. constructor; [assumption|apply Hsels; assumption].
Qed.
Lemma perm_lists_of_sels d d' : perm_sels_doc d d' -> perm_lists_doc d d'.
Proof.
  assert (Hl : forall A b (l l' : list A), lperm b l l' -> lperm true l l') by (intros A b l l'; apply lperm_perm).
  assert (Hdir : forall x y, rdir false x y -> rdir true x y).
  { intros x y []. constructor. eapply Hl. eassumption. }
  assert (Hdirs : forall l l', rdirs false l l' -> rdirs true l l').
  { intros l l' H. eapply Forall2_impl_in; [|exact H]. intros a b _. apply Hdir. }
  assert (Hsel : forall x y, rsel None false true x y -> rsel None true true x y).
  { intro x. induction x as [p al n args dirs sp sels IH|p n dirs|p tc dirs sp sels IH] using selection_ind';
      intros y Hxy; inversion Hxy as [? ? ? ? ? ? ? ? ? ? m ? Hal Ha Hdi Hp Hf| |? ? ? ? ? ? m ? Hdi Hp Hf]; subst.
    - apply RField with (m := m); [exact Hal|eapply Hl, Ha|apply Hdirs, Hdi|exact Hp|].
      rewrite Forall_forall in IH. eapply Forall2_impl_in; [|exact Hf]. intros a b Hin. apply IH.
      eapply Permutation_in; [apply Permutation_sym, Hp|exact Hin].
    - constructor. apply Hdirs. assumption.
    - apply RInline with (m := m); [apply Hdirs, Hdi|exact Hp|].
      rewrite Forall_forall in IH. eapply Forall2_impl_in; [|exact Hf]. intros a b Hin. apply IH.
      eapply Permutation_in; [apply Permutation_sym, Hp|exact Hin]. }
  assert (Hsels : forall l l', rsels None false true l l' -> rsels None true true l l').
  { intros l l' (m & Hp & Hf). exists m. split; [exact Hp|]. eapply Forall2_impl_in; [|exact Hf].
    intros a b _. apply Hsel. }
  intro H. eapply Forall2_impl_in; [|exact H]. intros x y _ [o o' Ho|f f' Hf]; constructor.
  - destruct Ho. constructor; [eapply Hl; eassumption|apply Hdirs; assumption|apply Hsels; assumption].
  - destruct Hf. constructor; [apply Hdirs; assumption|apply Hsels; assumption].
Qed.

Theorem run_alone_merge_perm_arguments : forall s d d',
  wf_schema s = true -> merge_side s d -> perm_args_doc d d' ->
  (run_alone R_OverlappingFieldsCanBeMerged s d = [] <-> run_alone R_OverlappingFieldsCanBeMerged s d' = []).
Proof. intros s d d' Hwf Hside Hd. apply run_alone_merge_perm_lists; [assumption..|apply perm_lists_of_args, Hd]. Qed.
Theorem run_alone_merge_perm_selections : forall s d d',
  wf_schema s = true -> merge_side s d -> perm_sels_doc d d' ->
  (run_alone R_OverlappingFieldsCanBeMerged s d = [] <-> run_alone R_OverlappingFieldsCanBeMerged s d' = []).
Proof. intros s d d' Hwf Hside Hd. apply run_alone_merge_perm_lists; [assumption..|apply perm_lists_of_sels, Hd]. Qed.

(* operations renamed, aliases rewritten *)
Theorem run_alone_merge_rename_operations : forall fo s d d',
  wf_schema s = true -> merge_side s d -> rename_ops_doc fo d d' -> injective_on fo (named_operation_names d) ->
  (run_alone R_OverlappingFieldsCanBeMerged s d = [] <-> run_alone R_OverlappingFieldsCanBeMerged s d' = []).
Proof.
  intros fo s d d' Hwf Hside Hd Hinj.
  apply (run_alone_merge_rel (opt_map fo) None false false false s d d' fo); try assumption;
    [split; [reflexivity|exact Hinj]|apply key_injective_none].
Qed.
Theorem run_alone_merge_rename_aliases : forall h s d d',
  wf_schema s = true -> merge_side s d -> rename_aliases_doc h d d' -> (forall a b, h a = h b -> a = b) ->
  (run_alone R_OverlappingFieldsCanBeMerged s d = [] <-> run_alone R_OverlappingFieldsCanBeMerged s d' = []).
Proof.
  intros h s d d' Hwf Hside Hd Hinj.
  apply (run_alone_merge_rel (fun n => n) (Some h) false false false s d d' (fun x => x)); try assumption.
  apply renames_id.
Qed.

(* the schema rewritten inside its definitions *)
Theorem run_alone_merge_perm_inside_schema : forall s s' d,
  wf_schema s = true -> merge_side s d -> perm_inside_schema s s' ->
  (run_alone R_OverlappingFieldsCanBeMerged s d = [] <-> run_alone R_OverlappingFieldsCanBeMerged s' d = []).
Proof.
  intros s s' d Hwf Hside Hp.
  pose proof (sqr_of s s' Hp Hwf) as Hs. pose proof (wf_schema_perm_inside s s' Hp Hwf) as Hwf'.
  assert (Hside' : merge_side s' d).
  { destruct Hside as (H1 & H2 & H3). repeat split; try assumption.
    rewrite <- (violated_srel R_UniqueArgumentNames s s' d Hs). exact H3. }
  rewrite (nil_iff_false _ _ (merge_iff s d Hwf Hside)).
  rewrite (nil_iff_false _ _ (merge_iff s' d Hwf' Hside')).
  rewrite (violated_srel _ s s' d Hs). reflexivity.
Qed.

Print Assumptions run_alone_merge_perm_lists.
Print Assumptions run_alone_merge_perm_arguments.
Print Assumptions run_alone_merge_perm_selections.
Print Assumptions run_alone_merge_perm_inside_schema.
Print Assumptions run_alone_merge_rename_operations.
Print Assumptions run_alone_merge_rename_aliases.

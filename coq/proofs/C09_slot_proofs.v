(* C09_slot_proofs.v — KnownArgumentNames (kan_step): a one-slot state holding the owner (field
   or directive) whose arguments are being visited, with its declared arguments.  The handler
   reads the context only through [current_parent_type c = a_parent (answers_of c)], so the run
   is a fold over the annotation [annot s d]; by induction over the [annot_*] functions the fold
   appends, for every field / directive event, exactly the errors of its own argument list
   judged against its own declaration. *)
From GT Require Import Visitor Validate.
From GTS Require Import SpecLin Annot WfSchema SpecRules SpecValid.
From GTP Require Import VisitorFacts TraceFacts RuleFacts.

(* ------------------------------------------------------------------ generic list facts *)
Lemma fold_left_map_l' {A B C} (f : A -> C -> A) (g : B -> C) (l : list B) (a : A) :
  fold_left f (map g l) a = fold_left (fun a x => f a (g x)) l a.
Proof. revert a. induction l as [|x r IH]; intro a; cbn; [reflexivity|apply IH]. Qed.

Lemma nonempty_flat_map_b {A B} (f : A -> list B) (l : list A) :
  negb (match flat_map f l with [] => true | _ => false end)
  = existsb (fun x => negb (match f x with [] => true | _ => false end)) l.
Proof.
  induction l as [|x r IH]; cbn [flat_map existsb]; [reflexivity|].
  destruct (f x); cbn [app negb orb]; [exact IH|reflexivity].
Qed.

Lemma existsb_ext_all' {A} (f g : A -> bool) l : (forall x, f x = g x) -> existsb f l = existsb g l.
Proof. intro H. induction l as [|x r IH]; cbn; [reflexivity|]. rewrite H, IH. reflexivity. Qed.

Lemma existsb_flat_map {A B} (p : B -> bool) (f : A -> list B) (l : list A) :
  existsb p (flat_map f l) = existsb (fun x => existsb p (f x)) l.
Proof. induction l as [|x r IH]; cbn [flat_map existsb]; [reflexivity|]. rewrite existsb_app, IH. reflexivity. Qed.

Lemma existsb_orb {A} (f g : A -> bool) l :
  existsb f l || existsb g l = existsb (fun x => f x || g x) l.
Proof.
  induction l as [|x r IH]; cbn [existsb]; [reflexivity|]. rewrite <- IH.
  destruct (f x), (g x), (existsb f r), (existsb g r); reflexivity.
Qed.

(* ------------------------------------------------------------------ the handler on answers *)
Definition slot := option (arg_owner * list input_value_def).

Definition slot_of_field (f : selection) (e : env) : slot :=
  match a_parent e with
  | Some pt => match field_by_name pt (sel_name f) with
               | Some fd => Some (OwnField (fd_name fd) (td_name pt), fd_args fd)
               | None => None
               end
  | None => None
  end.
Definition slot_of_directive (s : sdocument) (x : directive) : slot :=
  match directive_by_name s (d_name x) with
  | Some dd => Some (OwnDirective (dd_name dd), dd_args dd)
  | None => None
  end.

Definition arg_err (owner : arg_owner) (defs : list input_value_def) (a : argument) : list verror :=
  if existsb (fun x => name_eqb (iv_name x) (fst a)) defs then []
  else [mkErr R_KnownArgumentNames [] (s_owner owner)].
Definition arg_errs (sl : slot) (args : list argument) : list verror :=
  match sl with
  | Some (owner, defs) => flat_map (arg_err owner defs) args
  | None => []
  end.

(* the errors caused by the node entered at one annotated event *)
Definition ev_errs (s : sdocument) (ea : aev) : list verror :=
  match fst ea with
  | Enter (NField f) => arg_errs (slot_of_field f (snd ea)) (sel_args f)
  | Enter (NDirective x) => arg_errs (slot_of_directive s x) (d_args x)
  | _ => []
  end.

Section KAN.
  Variable s : sdocument.

  Definition kan_ea (st : kan_state) (ea : aev) : kan_state :=
    match fst ea with
    | Enter (NField (SField p al n args dirs sp sels)) =>
        mkKan (slot_of_field (SField p al n args dirs sp sels) (snd ea)) (kan_errs st)
    | e => kan_step s st e ctx0
    end.

  Lemma kan_step_answers st e c : kan_step s st e c = kan_ea st (e, answers_of c).
  Proof.
    destruct e as [n|n]; destruct n; try reflexivity; destruct f; reflexivity.
  Qed.

  Lemma kan_fold_answers (tr : ctrace) st :
    fold_left (hh (kan_step s)) tr st = fold_left kan_ea (map ev_answers tr) st.
  Proof.
    rewrite fold_left_map_l'. apply fold_left_ext_fn. intros a [e c]. unfold hh, ev_answers. cbn [fst snd].
    apply kan_step_answers.
  Qed.

  Notation errs_of := (flat_map (ev_errs s)).

  (* [Inert l]: l neither touches the state nor contains field / directive events *)
  Definition Inert (l : list aev) : Prop :=
    (forall st, fold_left kan_ea l st = st) /\ errs_of l = [].

  Lemma Inert_nil : Inert [].
  Proof. split; reflexivity. Qed.
  Lemma Inert_app a b : Inert a -> Inert b -> Inert (a ++ b).
  Proof.
    intros [Ha1 Ha2] [Hb1 Hb2]. split.
    - intro st. rewrite fold_left_app, Ha1, Hb1. reflexivity.
    - rewrite flat_map_app, Ha2, Hb2. reflexivity.
  Qed.
  Lemma Inert_cons ea l :
    (forall st, kan_ea st ea = st) -> ev_errs s ea = [] -> Inert l -> Inert (ea :: l).
  Proof.
    intros H1 H2 [Hl1 Hl2]. split.
    - intro st. cbn [fold_left]. rewrite H1. apply Hl1.
    - cbn [flat_map]. rewrite H2, Hl2. reflexivity.
  Qed.
  Lemma Inert_single ea : (forall st, kan_ea st ea = st) -> ev_errs s ea = [] -> Inert [ea].
  Proof. intros H1 H2. apply Inert_cons; [exact H1|exact H2|apply Inert_nil]. Qed.
  Lemma Inert_flat_map {A} (f : A -> list aev) l :
    Forall (fun x => Inert (f x)) l -> Inert (flat_map f l).
  Proof. induction 1; cbn [flat_map]; [apply Inert_nil|apply Inert_app; assumption]. Qed.

  Lemma Inert_value v : forall e, Inert (annot_value s v e).
  Proof.
    induction v as [n|z|b|str|b| |n|l IH|l IH] using value_ind'; intro e; cbn [annot_value];
      try (split; [intro st|]; reflexivity).
    - apply Inert_cons; [reflexivity|reflexivity|]. apply Inert_app; [|apply Inert_single; reflexivity].
      apply Inert_flat_map. eapply Forall_impl; [|exact IH]. intros x Hx. apply Hx.
    - apply Inert_cons; [reflexivity|reflexivity|]. apply Inert_app; [|apply Inert_single; reflexivity].
      apply Inert_flat_map. eapply Forall_impl; [|exact IH]. intros kv Hkv. cbv zeta.
      apply Inert_cons; [reflexivity|reflexivity|]. apply Inert_app; [apply Hkv|apply Inert_single; reflexivity].
  Qed.

  Lemma Inert_vardefs vars e : Inert (annot_vardefs s vars e).
  Proof.
    unfold annot_vardefs. apply Inert_flat_map, Forall_forall. intros v _. cbv zeta.
    apply Inert_cons; [reflexivity|reflexivity|]. apply Inert_app; [|apply Inert_single; reflexivity].
    destruct (v_default v); [apply Inert_value|apply Inert_nil].
  Qed.

  (* an argument list visited while the slot holds [sl] *)
  Lemma kan_arguments sl decls args e : forall errs,
    fold_left kan_ea (annot_arguments s decls args e) (mkKan sl errs) = mkKan sl (errs ++ arg_errs sl args).
  Proof.
    unfold annot_arguments.
    induction args as [|a r IH]; intro errs; cbn [flat_map fold_left].
    - destruct sl as [[owner defs]|]; cbn [arg_errs flat_map]; rewrite app_nil_r; reflexivity.
    - rewrite !fold_left_app. cbv zeta. cbn [fold_left app].
      rewrite fold_left_app.
      match goal with |- context [kan_ea (mkKan sl errs) (Enter (NArgument a), ?e')] =>
        assert (E1 : kan_ea (mkKan sl errs) (Enter (NArgument a), e')
                     = mkKan sl (errs ++ match sl with Some (o, defs) => arg_err o defs a | None => [] end)) end.
      { unfold kan_ea. cbn [fst snd kan_step kan_slot kan_errs]. destruct sl as [[owner defs]|].
        - unfold arg_err. destruct (existsb (fun x => name_eqb (iv_name x) (fst a)) defs);
            rewrite ?app_nil_r; reflexivity.
        - rewrite app_nil_r. reflexivity. }
      rewrite E1. rewrite (proj1 (Inert_value (snd a) _)). cbn [fold_left].
      unfold kan_ea at 2. cbn [fst snd kan_step]. rewrite IH.
      destruct sl as [[owner defs]|]; cbn [arg_errs flat_map]; rewrite <- ?app_assoc, ?app_nil_r; reflexivity.
  Qed.

  Lemma errs_of_flat_map_nil {A} (f : A -> list aev) l :
    (forall x, errs_of (f x) = []) -> errs_of (flat_map f l) = [].
  Proof.
    intro H. induction l as [|x r IH]; cbn [flat_map]; [reflexivity|].
    rewrite flat_map_app, H, IH. reflexivity.
  Qed.

  Lemma errs_of_arguments decls args e : errs_of (annot_arguments s decls args e) = [].
  Proof.
    unfold annot_arguments. apply errs_of_flat_map_nil. intro a. cbv zeta. cbn [flat_map].
    rewrite flat_map_app, (proj2 (Inert_value (snd a) _)). reflexivity.
  Qed.

  (* [Appends l]: from any state, folding over l appends exactly the errors of its events *)
  Definition Appends (l : list aev) : Prop :=
    forall st, kan_errs (fold_left kan_ea l st) = kan_errs st ++ errs_of l.

  Lemma Appends_nil : Appends [].
  Proof. intro st. cbn. rewrite app_nil_r. reflexivity. Qed.
  Lemma Appends_app a b : Appends a -> Appends b -> Appends (a ++ b).
  Proof. intros Ha Hb st. rewrite fold_left_app, Hb, Ha, flat_map_app, app_assoc. reflexivity. Qed.
  Lemma Appends_inert l : Inert l -> Appends l.
  Proof. intros [H1 H2] st. rewrite H1, H2, app_nil_r. reflexivity. Qed.
  Lemma Appends_single ea :
    (forall st, kan_errs (kan_ea st ea) = kan_errs st) -> ev_errs s ea = [] -> Appends [ea].
  Proof. intros H1 H2 st. cbn [fold_left flat_map]. rewrite H1, H2, !app_nil_r. reflexivity. Qed.
  Lemma Appends_flat_map {A} (f : A -> list aev) l :
    Forall (fun x => Appends (f x)) l -> Appends (flat_map f l).
  Proof. induction 1; cbn [flat_map]; [apply Appends_nil|apply Appends_app; assumption]. Qed.

  (* a node that sets the slot to its own entry, then its arguments, then the rest *)
  Lemma Appends_owner ea sl decls args e rest :
    (forall st, kan_ea st ea = mkKan sl (kan_errs st)) ->
    ev_errs s ea = arg_errs sl args ->
    Appends rest ->
    Appends (ea :: annot_arguments s decls args e ++ rest).
  Proof.
    intros H1 H2 Hrest st. cbn [fold_left flat_map]. rewrite H1, fold_left_app, kan_arguments, Hrest.
    cbn [kan_errs]. rewrite flat_map_app, errs_of_arguments, H2. cbn [app]. rewrite app_assoc. reflexivity.
  Qed.

  Lemma Appends_directives dirs e : Appends (annot_directives s dirs e).
  Proof.
    unfold annot_directives. apply Appends_flat_map, Forall_forall. intros x _.
    apply Appends_owner with (sl := slot_of_directive s x).
    - intro st. reflexivity.
    - reflexivity.
    - apply Appends_single; reflexivity.
  Qed.

  Lemma Appends_selection x : forall e, Appends (annot_selection s x e).
  Proof.
    induction x as [p al n args dirs sp sels IH|p n dirs|p tc dirs sp sels IH] using selection_ind';
      intro e; cbn [annot_selection]; cbv zeta.
    - apply Appends_owner with (sl := slot_of_field (SField p al n args dirs sp sels)
                                        (at_type s e (opt_map fd_type (opt_bind (a_parent e) (fun t => field_by_name t n))))).
      + intro st. reflexivity.
      + reflexivity.
      + apply Appends_app; [apply Appends_directives|].
        match goal with |- Appends (?a :: ?m ++ [?b; ?c]) => change (Appends ([a] ++ m ++ [b] ++ [c])) end.
        apply Appends_app; [apply Appends_single; reflexivity|].
        apply Appends_app; [|apply Appends_app; apply Appends_single; reflexivity].
        apply Appends_flat_map. eapply Forall_impl; [|exact IH]. intros y Hy. apply Hy.
    - match goal with |- Appends (?a :: ?m ++ [?b]) => change (Appends ([a] ++ m ++ [b])) end.
      apply Appends_app; [apply Appends_single; reflexivity|].
      apply Appends_app; [apply Appends_directives|apply Appends_single; reflexivity].
    - match goal with |- Appends (?a :: ?m1 ++ ?a2 :: ?m ++ [?b; ?c]) =>
        change (Appends ([a] ++ m1 ++ [a2] ++ m ++ [b] ++ [c])) end.
      apply Appends_app; [apply Appends_single; reflexivity|].
      apply Appends_app; [apply Appends_directives|].
      apply Appends_app; [apply Appends_single; reflexivity|].
      apply Appends_app; [|apply Appends_app; apply Appends_single; reflexivity].
      apply Appends_flat_map. eapply Forall_impl; [|exact IH]. intros y Hy. apply Hy.
  Qed.

  Lemma Appends_selection_set sp sels e : Appends (annot_selection_set s sp sels e).
  Proof.
    unfold annot_selection_set. cbv zeta.
    match goal with |- Appends (?a :: ?m ++ [?b]) => change (Appends ([a] ++ m ++ [b])) end.
    apply Appends_app; [apply Appends_single; reflexivity|].
    apply Appends_app; [|apply Appends_single; reflexivity].
    apply Appends_flat_map, Forall_forall. intros y _. apply Appends_selection.
  Qed.

  Lemma Appends_definition x e : Appends (annot_definition s x e).
  Proof.
    destruct x as [o|f]; cbn [annot_definition]; cbv zeta.
    - match goal with |- Appends (?a :: ?m1 ++ ?m2 ++ ?m3 ++ [?b]) =>
        change (Appends ([a] ++ m1 ++ m2 ++ m3 ++ [b])) end.
      apply Appends_app; [apply Appends_single; reflexivity|].
      apply Appends_app; [apply Appends_directives|].
      apply Appends_app; [apply Appends_inert, Inert_vardefs|].
      apply Appends_app; [apply Appends_selection_set|apply Appends_single; reflexivity].
    - match goal with |- Appends (?a :: ?m1 ++ ?m3 ++ [?b]) =>
        change (Appends ([a] ++ m1 ++ m3 ++ [b])) end.
      apply Appends_app; [apply Appends_single; reflexivity|].
      apply Appends_app; [apply Appends_directives|].
      apply Appends_app; [apply Appends_selection_set|apply Appends_single; reflexivity].
  Qed.

  Lemma Appends_annot d : Appends (annot s d).
  Proof.
    unfold annot.
    match goal with |- Appends (?a :: ?m ++ [?b]) => change (Appends ([a] ++ m ++ [b])) end.
    apply Appends_app; [apply Appends_single; reflexivity|].
    apply Appends_app; [|apply Appends_single; reflexivity].
    apply Appends_flat_map, Forall_forall. intros x _. apply Appends_definition.
  Qed.

  (* the run of the rule: every field / directive event contributes the errors of its own
     arguments against its own declaration *)
  Theorem known_argument_names_run d :
    query_entry_ok s = true ->
    run_alone R_KnownArgumentNames s d = errs_of (annot s d).
  Proof.
    intro Hq. unfold run_alone. cbn [run_rule]. rewrite visit_fold. cbn [snd plain r_errors].
    rewrite kan_fold_answers, (ctr_document_answers s Hq d), Appends_annot. reflexivity.
  Qed.
End KAN.

(* ------------------------------------------------------------------ relation to the specification *)
Lemma arg_errs_unknown owner defs args :
  negb (match arg_errs (Some (owner, defs)) args with [] => true | _ => false end)
  = v_args_unknown (Some defs) args.
Proof.
  cbn [arg_errs v_args_unknown]. rewrite nonempty_flat_map_b. apply existsb_ext_all'. intro a.
  unfold arg_err. destruct (existsb (fun x => name_eqb (iv_name x) (fst a)) defs); reflexivity.
Qed.

Lemma field_slot_unknown f e :
  negb (match arg_errs (slot_of_field f e) (sel_args f) with [] => true | _ => false end)
  = v_args_unknown (field_decls (f, e)) (sel_args f).
Proof.
  unfold slot_of_field, field_decls. cbn [fst snd].
  destruct (a_parent e) as [pt|]; cbn [opt_bind opt_map]; [|reflexivity].
  destruct (field_by_name pt (sel_name f)) as [fd|]; cbn [opt_map]; [|reflexivity].
  apply arg_errs_unknown.
Qed.

Lemma directive_slot_unknown s x :
  negb (match arg_errs (slot_of_directive s x) (d_args x) with [] => true | _ => false end)
  = v_args_unknown (directive_decls s x) (d_args x).
Proof.
  unfold slot_of_directive, directive_decls.
  destruct (directive_by_name s (d_name x)) as [dd|]; cbn [opt_map]; [|reflexivity].
  apply arg_errs_unknown.
Qed.

Theorem known_argument_names_iff : forall s d, wf_schema s = true ->
  (run_alone R_KnownArgumentNames s d <> [] <-> violated R_KnownArgumentNames s d = true).
Proof.
  intros s d Hwf. rewrite (known_argument_names_run s d (wf_query_entry_ok s Hwf)).
  rewrite flat_map_nonempty_existsb. cbn [violated]. unfold v_known_argument_names, field_events, directive_events.
  rewrite !existsb_flat_map, existsb_orb.
  match goal with |- ?a = true <-> ?b = true => replace b with a; [tauto|] end.
  apply existsb_ext_all'. intros [ev e]. unfold ev_errs. cbn [fst snd].
  destruct ev as [n|n]; [|reflexivity]. destruct n; try reflexivity.
  - cbn [existsb]. rewrite !orb_false_r. apply directive_slot_unknown.
  - cbn [existsb]. rewrite !orb_false_r. apply field_slot_unknown.
Qed.

Theorem known_argument_names_owner : forall s d e, wf_schema s = true ->
  In e (run_alone R_KnownArgumentNames s d) -> In (e_info e) (unknown_argument_owners s d).
Proof.
  intros s d err Hwf. rewrite (known_argument_names_run s d (wf_query_entry_ok s Hwf)).
  intro Hin. apply in_flat_map in Hin. destruct Hin as [[ev e] [Hea Herr]].
  unfold ev_errs in Herr. cbn [fst snd] in Herr. unfold unknown_argument_owners. apply in_or_app.
  destruct ev as [n|n]; [|contradiction]. destruct n; try contradiction.
  - (* directive *)
    right. apply in_flat_map. exists d0. split.
    + unfold directive_events. apply in_flat_map. exists (Enter (NDirective d0), e). split; [exact Hea|left; reflexivity].
    + unfold slot_of_directive in Herr. destruct (directive_by_name s (d_name d0)) as [dd|]; [|contradiction].
      pose proof (arg_errs_unknown (OwnDirective (dd_name dd)) (dd_args dd) (d_args d0)) as Hu.
      rewrite <- Hu. cbn [arg_errs] in *.
      destruct (flat_map (arg_err (OwnDirective (dd_name dd)) (dd_args dd)) (d_args d0)) eqn:E; [contradiction|].
      cbn [negb]. rewrite <- E in Herr. apply in_flat_map in Herr. destruct Herr as [a [_ Ha]].
      unfold arg_err in Ha. destruct (existsb (fun x => name_eqb (iv_name x) (fst a)) (dd_args dd)); [contradiction|].
      destruct Ha as [Ha|[]]. subst err. left. reflexivity.
  - (* field *)
    left. apply in_flat_map. exists (f, e). split.
    + unfold field_events. apply in_flat_map. exists (Enter (NField f), e). split; [exact Hea|left; reflexivity].
    + cbn [fst snd]. unfold slot_of_field in Herr. destruct (a_parent e) as [pt|]; [|contradiction].
      destruct (field_by_name pt (sel_name f)) as [fd|]; [|contradiction].
      pose proof (arg_errs_unknown (OwnField (fd_name fd) (td_name pt)) (fd_args fd) (sel_args f)) as Hu.
      rewrite <- Hu. cbn [arg_errs] in *.
      destruct (flat_map (arg_err (OwnField (fd_name fd) (td_name pt)) (fd_args fd)) (sel_args f)) eqn:E; [contradiction|].
      cbn [negb]. rewrite <- E in Herr. apply in_flat_map in Herr. destruct Herr as [a [_ Ha]].
      unfold arg_err in Ha. destruct (existsb (fun x => name_eqb (iv_name x) (fst a)) (fd_args fd)); [contradiction|].
      destruct Ha as [Ha|[]]. subst err. left. reflexivity.
Qed.
Print Assumptions known_argument_names_iff.
Print Assumptions known_argument_names_owner.
